import LbzVerif.Lemmas.SchedD.ProgressFinal
import LbzVerif.Lemmas.SchedD.Proj
namespace LbzVerif.Lemmas.SchedD
open LbzVerif.Model.SchedD LbzVerif.Gen

structure Adv (p q : Proj) : Prop where
  head : p.head ≤ q.head
  inq : q.inq ≤ p.inq
  scan : q.scan ≤ p.scan
  retr : q.retr ≤ p.retr
  wu : q.wu = p.wu + (p.retr - q.retr)
  tail : q.tail = p.tail
  eof : q.eof = p.eof
  os : q.os = p.os
  emit : q.emit = p.emit
  reord : q.reord = p.reord
  pt : q.pt = p.pt
  pd : q.pd = p.pd
  order : q.order = p.order
  ule : q.unord ≤ p.unord
  drop : p.unord ≤ q.unord + (p.retr - q.retr)

theorem rule_parse_more {p m q : Proj} (h : Adv p m)
    (e : q = { m with pt := true, wu := m.wu + 1 }) : tailOk "parse" p q = true := by
  subst e
  obtain ⟨h1, h2, h3, h4, h5, h6, h7, h8, h9, h10, h11, h12, h13, h14, h15⟩ := h
  unfold tailOk
  simp only [↓reduceIte, Bool.or_eq_true, Bool.and_eq_true, decide_eq_true_eq, beq_iff_eq, advOk,
    unordDrop]
  refine Or.inl (Or.inl (Or.inl ?_))
  trace_state
  sorry
