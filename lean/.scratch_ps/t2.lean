import LbzVerif.Lemmas.SchedD.ProjSound
namespace LbzVerif.Lemmas.SchedD
open LbzVerif.Model.SchedD LbzVerif.Gen
namespace ProjSound

macro "rule_open" : tactic =>
  `(tactic| (unfold tailOk; simp only [String.reduceEq, ↓reduceIte, Bool.or_eq_true, Bool.and_eq_true, decide_eq_true_eq,
      beq_iff_eq, advOk, unordDrop]))
macro "rule_close" : tactic =>
  `(tactic| ((repeat' apply And.intro) <;> first | assumption | omega | trivial | rfl))

theorem rule_retr_exit {p m q : Proj} {u : Nat} (hm : m = { p with unord := u })
    (hu : u = p.unord ∨ u + 1 = p.unord) (e : q = { m with wu := m.wu + 1 }) :
    tailOk "retrieve" p q = true := by
  subst e; subst hm
  rule_open
  rcases hu with hu | hu
  · refine Or.inl (Or.inl (Or.inl (Or.inl (Or.inl ?_)))); subst hu; rfl
  · refine Or.inl (Or.inl (Or.inl (Or.inl (Or.inr ?_))))
    have : u = p.unord - 1 := by omega
    subst this; rfl

theorem rule_retr_more_master {p m q : Proj} (h : Adv p m)
    (e : q = { m with retr := m.retr + 1 }) : tailOk "retrieve" p q = true := by
  subst e
  obtain ⟨h1, h2, h3, h4, h5, h6, h7, h8, h9, h10, h11, h12, h13, h14, h15⟩ := h
  rule_open
  refine Or.inl (Or.inl (Or.inr ?_))
  rule_close
