/-
  Lemmas.RetrieveTables — the "Retrieve decoding tables" part of
  `Model.Retrieve` (all `num_trees` tables: 5-bit start value, the delta loop,
  `make_tree`, up to the top of the group loop), run under `NEED` with any
  suspensions, against the reference `Spec.Delta.table` iterated on the unread
  bits.  Built on `RetrieveDelta.delta_loop`.
-/
import LbzVerif.Lemmas.RetrieveDelta
import LbzVerif.Lemmas.MtfRun

set_option linter.unusedSimpArgs false

namespace LbzVerif.Lemmas.RetrieveTables
open LbzVerif LbzVerif.Model.Retrieve LbzVerif.Lemmas.RetrieveBits LbzVerif.Lemmas.RetrieveValues
open LbzVerif.Lemmas.RetrieveSplit LbzVerif.Lemmas.RetrieveFast LbzVerif.Lemmas.RetrieveDelta

/-- `NEED` at a resumable state: either the words have run out, or the run
goes on from the same state with at least 32 live bits and the same unread
bits. -/
theorem need_ready (st : St) (ws : List Nat) (hn : normPc st = st) (inv : BufInv st.v st.w) :
    Suspended (toTop st ws) ∨
      ∃ v1 w1 ws1, toTop st ws = toTop { st with v := v1, w := w1 } ws1 ∧ 32 ≤ w1 ∧
        bitsOf { st with v := v1, w := w1 } ws1 = bitsOf st ws ∧ BufInv v1 w1 ∧
        64 * ws1.length + w1 ≤ 64 * ws.length + st.w + 32 := by
  by_cases hw : st.w < 32
  · cases ws with
    | nil => exact Or.inl ⟨st, by rw [toTop_at_need st hw hn]⟩
    | cons x ws1 =>
      refine Or.inr ⟨refillV st.v st.w x, st.w + 32, ws1, ?_, by omega, ?_, (refill_bits st.v st.w x hw inv).2, ?_⟩
      · rw [toTop_at_need st hw hn]; rfl
      · obtain ⟨e', _⟩ := refill_bits st.v st.w x hw inv
        unfold bitsOf
        show bufBits (refillV st.v st.w x) (st.w + 32) ++ _ = _
        rw [e']; simp [List.flatMap_cons]
      · simp only [List.length_cons]; omega
  · exact Or.inr ⟨st.v, st.w, ws, rfl, by omega, rfl, inv, by omega⟩

/-- One window taken inside a step (buffer fill `w ≥ 6`, the step started with
`W ≥ w` live bits), then the rest of the loop: same statement as `delta_loop`. -/
theorem delta_window_loop (st : St) (ws : List Nat) (W : Nat) (h6 : 6 ≤ st.w) (hW : st.w ≤ W)
    (inv : BufInv st.v st.w) (hc : st.clCur < 32) (hj : st.j < st.alphaSize) :
    (∀ lens' B', Spec.Delta.syms (st.alphaSize - st.j) st.clCur (bitsOf st ws) = some (lens', B') →
      (∃ st' ws', afterStep W ws (deltaWindow st) = toTop st' ws' ∧ LoopDone st st' lens' ∧
        bitsOf st' ws' = B' ∧ BufInv st'.v st'.w) ∨ Suspended (afterStep W ws (deltaWindow st))) ∧
    (Spec.Delta.syms (st.alphaSize - st.j) st.clCur (bitsOf st ws) = none →
      Rejected (afterStep W ws (deltaWindow st)) ∨ Suspended (afterStep W ws (deltaWindow st))) := by
  obtain ⟨n, hn⟩ : ∃ n, st.alphaSize - st.j = n + 1 := ⟨st.alphaSize - st.j - 1, by omega⟩
  rw [hn]
  have hBlen : 6 ≤ (bitsOf st ws).length := by
    unfold bitsOf; rw [List.length_append, bufBits_length]; omega
  rw [syms_succ, Lemmas.Delta.sym_eq_winModel st.clCur hc (bitsOf st ws)]
  unfold Lemmas.Delta.winModel
  cases hs : Model.Delta.stepLen st.clCur (Model.Delta.peek6 (bitsOf st ws)) with
  | none =>
    have hv := deltaWindow_value st ws h6 inv
    simp only [hs] at hv
    have hr : afterStep W ws (deltaWindow st) = .halt (.err Gen.ERR_DELTA) St.blank ws := by rw [hv]; rfl
    simp only [Lemmas.Delta.applyW]
    exact ⟨fun _ _ h => (by cases h), fun _ => Or.inl ⟨_, _, _, hr, (by simp)⟩⟩
  | some c' =>
    obtain ⟨st', hdw, inv', hlt, hbits, hcur, hpc', hsame, hjacc⟩ :=
      deltaWindow_next st ws h6 inv c' hs
    have hc' : c' < 32 := (Lemmas.Delta.facts st.clCur hc (bitsOf st ws)).2 c' hs
    have hl6 : Model.Delta.tL (Model.Delta.peek6 (bitsOf st ws)) ≤ 6 := by
      obtain ⟨b1, b2, b3, b4, b5, b6, hwin⟩ := Lemmas.Delta.win6_cases (bitsOf st ws)
      unfold Model.Delta.peek6; rw [hwin]; exact tL_le6 b1 b2 b3 b4 b5 b6
    have ht' : afterStep W ws (deltaWindow st) = toTop st' ws := by
      rw [hdw]; simp only [afterStep]; rw [if_pos (by omega)]
    have hcur' : st'.clCur < 32 := by rw [hcur]; exact hc'
    simp only
    by_cases hl : Model.Delta.tL (Model.Delta.peek6 (bitsOf st ws)) ≠ 6
    · rw [if_pos hl] at hjacc ⊢
      obtain ⟨hj', hacc'⟩ := hjacc
      simp only [Lemmas.Delta.applyW]
      rw [if_pos (by omega)]
      simp only
      have hIH := delta_loop _ st' ws (Nat.le_refl _) hpc' inv' hcur'
        (by rw [hj', hsame.alphaSize]; omega)
      have htodo : st'.alphaSize - st'.j = n := by rw [hj', hsame.alphaSize]; omega
      rw [htodo, hbits, hcur] at hIH
      obtain ⟨ih1, ih2⟩ := hIH
      constructor
      · intro lens' B' h
        cases hsy : Spec.Delta.syms n c' ((bitsOf st ws).drop (Model.Delta.tL (Model.Delta.peek6 (bitsOf st ws)))) with
        | none => rw [hsy] at h; cases h
        | some p =>
          obtain ⟨ls, r'⟩ := p
          rw [hsy] at h
          simp only [Option.some.injEq, Prod.mk.injEq] at h
          obtain ⟨h1, h2⟩ := h
          subst h1; subst h2
          cases ih1 ls r' hsy with
          | inl hok =>
            obtain ⟨st2, ws2, e1, hd, e2, i2⟩ := hok
            refine Or.inl ⟨st2, ws2, ht'.trans e1, ⟨hd.pc, ?_, ?_, sameRest_trans hsame hd.rest⟩, e2, i2⟩
            · rw [hd.j, hsame.alphaSize]
            · rw [hd.acc, hacc']; simp
          | inr hsu =>
            obtain ⟨s, hs'⟩ := hsu
            exact Or.inr ⟨s, ht'.trans hs'⟩
      · intro h
        cases hsy : Spec.Delta.syms n c' ((bitsOf st ws).drop (Model.Delta.tL (Model.Delta.peek6 (bitsOf st ws)))) with
        | some p => rw [hsy] at h; cases h
        | none =>
          cases ih2 hsy with
          | inl hrej =>
            obtain ⟨r, s, rest, e, hne⟩ := hrej
            exact Or.inl ⟨r, s, rest, ht'.trans e, hne⟩
          | inr hsu =>
            obtain ⟨s, hs'⟩ := hsu
            exact Or.inr ⟨s, ht'.trans hs'⟩
    · have hl' : Model.Delta.tL (Model.Delta.peek6 (bitsOf st ws)) = 6 := by omega
      rw [if_neg hl] at hjacc ⊢
      obtain ⟨hj', hacc'⟩ := hjacc
      simp only [Lemmas.Delta.applyW]
      rw [if_pos (by omega)]
      have hIH := delta_loop _ st' ws (Nat.le_refl _) hpc' inv' hcur'
        (by rw [hj', hsame.alphaSize]; omega)
      have htodo : st'.alphaSize - st'.j = n + 1 := by rw [hj', hsame.alphaSize]; exact hn
      rw [htodo, hbits, hcur, hl', syms_succ] at hIH
      obtain ⟨ih1, ih2⟩ := hIH
      constructor
      · intro lens' B' h
        cases ih1 lens' B' h with
        | inl hok =>
          obtain ⟨st2, ws2, e1, hd, e2, i2⟩ := hok
          refine Or.inl ⟨st2, ws2, ht'.trans e1, ⟨hd.pc, ?_, ?_, sameRest_trans hsame hd.rest⟩, e2, i2⟩
          · rw [hd.j, hsame.alphaSize]
          · rw [hd.acc, hacc']
        | inr hsu =>
          obtain ⟨s, hs'⟩ := hsu
          exact Or.inr ⟨s, ht'.trans hs'⟩
      · intro h
        cases ih2 h with
        | inl hrej =>
          obtain ⟨r, s, rest, e, hne⟩ := hrej
          exact Or.inl ⟨r, s, rest, ht'.trans e, hne⟩
        | inr hsu =>
          obtain ⟨s, hs'⟩ := hsu
          exact Or.inr ⟨s, ht'.trans hs'⟩

/-! ### one table -/

theorem takeNat_eq (n : Nat) (bits : List Bool) (h : n ≤ bits.length) :
    Basic.takeNat n bits = some (Basic.bitsToNat (bits.take n), bits.drop n) := by
  have := Basic.takeNat_append (bits.take n) (bits.drop n)
  rw [List.take_append_drop, List.length_take, Nat.min_eq_left h] at this
  exact this

/-- `TAKE` in the vocabulary of `Spec.Delta`. -/
theorem takeNum_value (st st' : St) (k x : Nat) (ws : List Nat) (h : take st k = some (x, st'))
    (inv : BufInv st.v st.w) :
    Spec.Delta.takeNum k (bitsOf st ws) = some (x, bitsOf st' ws) := by
  obtain ⟨e, _⟩ := take_value st st' k x ws h inv
  have hk : k ≤ (bitsOf st ws).length := by
    by_cases hk : k ≤ (bitsOf st ws).length
    · exact hk
    · have := (Basic.takeNat_none_iff_short k (bitsOf st ws)).mpr (by omega)
      rw [this] at e; cases e
  rw [takeNat_eq k _ hk] at e
  simp only [Option.some.injEq, Prod.mk.injEq] at e
  unfold Spec.Delta.takeNum
  rw [if_pos hk]
  have : Spec.Delta.toNum ((bitsOf st ws).take k) = Model.Delta.toNum ((bitsOf st ws).take k) := rfl
  rw [this, toNum_eq_bitsToNat, e.1, e.2]

/-- The delta loop of the current table has run to its end, started by
`tableStart`. -/
structure TableDone (st st' : St) (lens : List Nat) : Prop where
  pc : st'.pc = .deltaTag
  j : st'.j = st.alphaSize
  acc : st'.clAcc = lens.reverse
  rest : SameRest st st'

/-- **One table.**  `tableStart` (5-bit start value, first window) inside a
step that began with `W` live bits, then the delta loop under `NEED`: the
machine reads the table iff the reference `Spec.Delta.table` reads it from the
unread bits — same lengths, same rest; otherwise ERR_DELTA (or out of words). -/
theorem table_spec (st : St) (ws : List Nat) (W : Nat) (hw : 11 ≤ st.w) (hW : st.w ≤ W)
    (inv : BufInv st.v st.w) (ha : 1 ≤ st.alphaSize) (ht : st.t < st.numTrees) :
    (∀ lens B', Spec.Delta.table st.alphaSize (bitsOf st ws) = some (lens, B') →
      (∃ st' ws', afterStep W ws (tableStart st) = toTop st' ws' ∧ TableDone st st' lens ∧
        bitsOf st' ws' = B' ∧ BufInv st'.v st'.w) ∨ Suspended (afterStep W ws (tableStart st))) ∧
    (Spec.Delta.table st.alphaSize (bitsOf st ws) = none →
      Rejected (afterStep W ws (tableStart st)) ∨ Suspended (afterStep W ws (tableStart st))) := by
  have hw64 := inv.wle
  have htake : take st 5 = some (peek st 5, { st with v := dumpV st.v 5, w := st.w - 5 }) := by
    unfold take dump
    rw [if_neg (by omega)]
  obtain ⟨hnum, inv1⟩ : Spec.Delta.takeNum 5 (bitsOf st ws) =
      some (peek st 5, bitsOf { st with v := dumpV st.v 5, w := st.w - 5 } ws) ∧
      BufInv (dumpV st.v 5) (st.w - 5) :=
    ⟨takeNum_value st _ 5 _ ws htake inv, (take_value st _ 5 _ ws htake inv).2⟩
  have hc : peek st 5 < 32 := peek_lt st.v st.w 5 inv (by omega)
  -- the state in which the first window is taken
  have hts : tableStart st = deltaWindow
      { st with v := dumpV st.v 5, w := st.w - 5, j := 0, clCur := peek st 5, clAcc := [] } := by
    unfold tableStart
    rw [if_pos ht, htake]
    simp only
    rw [if_pos (by show 0 < st.alphaSize; omega)]
  rw [hts]
  have hdl := delta_window_loop
    { st with v := dumpV st.v 5, w := st.w - 5, j := 0, clCur := peek st 5, clAcc := [] } ws W
    (by show 6 ≤ st.w - 5; omega) (by show st.w - 5 ≤ W; omega) inv1 hc
    (by show 0 < st.alphaSize; omega)
  have hb2 : bitsOf ({ st with v := dumpV st.v 5, w := st.w - 5, j := 0, clCur := peek st 5, clAcc := [] } : St) ws
      = bitsOf { st with v := dumpV st.v 5, w := st.w - 5 } ws := rfl
  have htodo : ({ st with v := dumpV st.v 5, w := st.w - 5, j := 0, clCur := peek st 5, clAcc := [] } : St).alphaSize -
      ({ st with v := dumpV st.v 5, w := st.w - 5, j := 0, clCur := peek st 5, clAcc := [] } : St).j = st.alphaSize := by
    show st.alphaSize - 0 = st.alphaSize; omega
  rw [htodo, hb2] at hdl
  have hcl : ({ st with v := dumpV st.v 5, w := st.w - 5, j := 0, clCur := peek st 5, clAcc := [] } : St).clCur = peek st 5 := rfl
  rw [hcl] at hdl
  obtain ⟨d1, d2⟩ := hdl
  unfold Spec.Delta.table
  rw [hnum]
  simp only
  obtain ⟨m, hm⟩ : ∃ m, st.alphaSize = m + 1 := ⟨st.alphaSize - 1, by omega⟩
  cases hr : Spec.Delta.inRange (peek st 5) with
  | false =>
    have hnone := Lemmas.Delta.syms_not_inRange m (peek st 5)
      (bitsOf { st with v := dumpV st.v 5, w := st.w - 5 } ws) hr
    rw [← hm] at hnone
    simp only [Bool.false_eq_true, if_false]
    exact ⟨fun _ _ h => (by cases h), fun _ => d2 hnone⟩
  | true =>
    simp only [if_true]
    refine ⟨fun lens B' h => ?_, d2⟩
    cases d1 lens B' h with
    | inl hok =>
      obtain ⟨st', ws', e1, hd, e2, i2⟩ := hok
      refine Or.inl ⟨st', ws', e1, ⟨hd.pc, hd.j, ?_, ?_⟩, e2, i2⟩
      · rw [hd.acc]; simp
      · exact ⟨hd.rest.rand, hd.rest.bwtIdx, hd.rest.big, hd.rest.small, hd.rest.alphaSize,
          hd.rest.t, hd.rest.g, hd.rest.numTrees, hd.rest.numSel, hd.rest.selector, hd.rest.mtf,
          hd.rest.trees, hd.rest.cmap, hd.rest.run⟩
    | inr hsu => exact Or.inr hsu

/-! ### all tables, up to the top of the group loop -/

open LbzVerif.Model in
/-- The reference for `n` tables in a row. -/
def specTables (alpha : Nat) : Nat → List Bool → Option (List (List Nat) × List Bool)
  | 0, b => some ([], b)
  | n + 1, b =>
    match Spec.Delta.table alpha b with
    | none => none
    | some (l, b') =>
      match specTables alpha n b' with
      | none => none
      | some (ls, b'') => some (l :: ls, b'')

/-- What `make_tree` stores in `mtf[t]` for the lengths `l`. -/
def treeCode (t : Nat) (l : List Nat) : Nat :=
  match (Model.Canon.makeTree l).1 with
  | .ok => t
  | .incomplete => Gen.ERR_INCOMPLT
  | .oversubscribed => Gen.ERR_PREFIX

/-- `make_tree` for the tables `tabs`, starting with table number `t`. -/
def applyTables : Nat → List Nat → List (Option Model.Canon.Tree) → List (List Nat) →
    Nat × List Nat × List (Option Model.Canon.Tree)
  | t, mtf, trees, [] => (t, mtf, trees)
  | t, mtf, trees, l :: ls =>
    applyTables (t + 1) (mtf.set t (treeCode t l)) (trees.set t (Model.Canon.makeTree l).2) ls

theorem finishTable_eq (c : St) (l : List Nat) (h : c.clAcc = l.reverse) :
    (finishTable c).t = c.t + 1 ∧ (finishTable c).mtf = c.mtf.set c.t (treeCode c.t l) ∧
      (finishTable c).trees = c.trees.set c.t (Model.Canon.makeTree l).2 := by
  unfold finishTable treeCode
  rw [h, List.reverse_reverse]
  exact ⟨rfl, rfl, rfl⟩

/-- The state at the top of the group loop, in terms of the state `c` at the
end of the first table's delta loop and the tables read (live fields only). -/
structure TopOk (c s : St) (tabs : List (List Nat)) : Prop where
  pc : s.pc = .prefix
  j : s.j = 0
  g : s.g = 0
  numSel : s.numSel = min c.numSel Gen.selectorBound
  tt : (s.t, s.mtf, s.trees) = applyTables c.t c.mtf c.trees tabs
  run : ∃ rs, Model.MtfDec.initRun (Model.MtfDec.slideOf c.cmap) = some rs ∧
    s.run = { rs with n := c.run.n, out := c.run.out }
  rand : s.rand = c.rand
  bwtIdx : s.bwtIdx = c.bwtIdx
  alphaSize : s.alphaSize = c.alphaSize
  numTrees : s.numTrees = c.numTrees
  selector : s.selector = c.selector
  cmap : s.cmap = c.cmap

/-- **All tables.**  From the end of a table's delta loop (`make_tree` pending)
with `k` more tables to come: the machine reaches the top of the group loop
iff the reference reads `k` tables from the unread bits, with `make_tree`
applied to exactly the reference's length lists and exactly the reference's
unread bits left; otherwise ERR_DELTA / out of words. -/
theorem tables_spec : ∀ (k : Nat) (c : St) (ws : List Nat) (lens0 : List Nat),
    c.pc = .deltaTag → c.j = c.alphaSize → c.clAcc = lens0.reverse → BufInv c.v c.w →
    1 ≤ c.alphaSize → c.t + 1 + k = c.numTrees →
    (∀ tabs B', specTables c.alphaSize k (bitsOf c ws) = some (tabs, B') →
      (∃ s rest, toTop c ws = .top s rest ∧ TopOk c s (lens0 :: tabs) ∧ bitsOf s rest = B' ∧
        BufInv s.v s.w) ∨ Suspended (toTop c ws)) ∧
    (specTables c.alphaSize k (bitsOf c ws) = none →
      Rejected (toTop c ws) ∨ Suspended (toTop c ws)) := by
  intro k
  induction k with
  | zero =>
    intro c ws lens0 hpc hj hacc inv ha ht
    have hnorm : normPc c = c := by unfold normPc; rw [if_neg (by rw [hpc]; simp)]
    cases need_ready c ws hnorm inv with
    | inl hsu => exact ⟨fun _ _ _ => Or.inr hsu, fun _ => Or.inr hsu⟩
    | inr hr =>
      obtain ⟨v1, w1, ws1, e1, hw1, hb1, inv1, _⟩ := hr
      -- the state after NEED, as an atom
      have q_pc : ({ c with v := v1, w := w1 } : St).pc = .deltaTag := hpc
      have q_j : ¬ ({ c with v := v1, w := w1 } : St).j < ({ c with v := v1, w := w1 } : St).alphaSize := by
        show ¬ c.j < c.alphaSize; omega
      have q_acc : ({ c with v := v1, w := w1 } : St).clAcc = lens0.reverse := hacc
      have q_w : ({ c with v := v1, w := w1 } : St).w = w1 := rfl
      have q_v : ({ c with v := v1, w := w1 } : St).v = v1 := rfl
      have q_t : ({ c with v := v1, w := w1 } : St).t = c.t := rfl
      have q_nt : ({ c with v := v1, w := w1 } : St).numTrees = c.numTrees := rfl
      have q_mtf : ({ c with v := v1, w := w1 } : St).mtf = c.mtf := rfl
      have q_trees : ({ c with v := v1, w := w1 } : St).trees = c.trees := rfl
      have q_cmap : ({ c with v := v1, w := w1 } : St).cmap = c.cmap := rfl
      have q_run : ({ c with v := v1, w := w1 } : St).run = c.run := rfl
      have q_ns : ({ c with v := v1, w := w1 } : St).numSel = c.numSel := rfl
      have q_rand : ({ c with v := v1, w := w1 } : St).rand = c.rand := rfl
      have q_bi : ({ c with v := v1, w := w1 } : St).bwtIdx = c.bwtIdx := rfl
      have q_al : ({ c with v := v1, w := w1 } : St).alphaSize = c.alphaSize := rfl
      have q_sel : ({ c with v := v1, w := w1 } : St).selector = c.selector := rfl
      generalize ({ c with v := v1, w := w1 } : St) = c1 at *
      obtain ⟨ft, fm, ftr⟩ := finishTable_eq c1 lens0 q_acc
      have hstep : step c1 = groupsInit (finishTable c1) := by
        unfold step
        rw [q_pc]
        unfold stepDeltaTag
        rw [if_neg q_j]
        unfold tableStart
        rw [if_neg (by rw [ft, q_t]; unfold finishTable; show ¬ c.t + 1 < c1.numTrees; rw [q_nt]; omega)]
      obtain ⟨rs, hrs⟩ : ∃ rs, Model.MtfDec.initRun (Model.MtfDec.slideOf c.cmap) = some rs :=
        ⟨_, Lemmas.MtfRun.initRun_spec _ (Lemmas.MtfOne.inv_slideOf c.cmap)⟩
      have hcm : (finishTable c1).cmap = c.cmap := by rw [← q_cmap]; unfold finishTable; rfl
      have hgi : groupsInit (finishTable c1) =
          .top { finishTable c1 with
            run := { rs with n := (finishTable c1).run.n, out := (finishTable c1).run.out },
            numSel := min (finishTable c1).numSel Gen.selectorBound,
            g := 0, j := 0, pc := .prefix } := by
        have hrs' : Model.MtfDec.initRun (Model.MtfDec.slideOf (finishTable c1).cmap) = some rs := by
          rw [hcm]; exact hrs
        unfold groupsInit
        rw [hrs']
      have htop : toTop c ws = .top { finishTable c1 with
            run := { rs with n := (finishTable c1).run.n, out := (finishTable c1).run.out },
            numSel := min (finishTable c1).numSel Gen.selectorBound,
            g := 0, j := 0, pc := .prefix } ws1 := by
        rw [e1, toTop_step' _ _ (by rw [q_w]; exact hw1), hstep, hgi]; rfl
      constructor
      · intro tabs B' h
        simp only [specTables, Option.some.injEq, Prod.mk.injEq] at h
        obtain ⟨h1, h2⟩ := h
        subst h1; subst h2
        refine Or.inl ⟨_, ws1, htop, ?_, ?_, ?_⟩
        · refine ⟨rfl, rfl, rfl, ?_, ?_, ⟨rs, hrs, ?_⟩, ?_, ?_, ?_, ?_, ?_, ?_⟩
          · show min (finishTable c1).numSel Gen.selectorBound = _
            rw [← q_ns]; unfold finishTable; rfl
          · simp only [applyTables]
            show ((finishTable c1).t, (finishTable c1).mtf, (finishTable c1).trees) = _
            rw [ft, fm, ftr, q_t, q_mtf, q_trees]
          · show ({ rs with n := (finishTable c1).run.n, out := (finishTable c1).run.out } : Model.MtfDec.RunSt) = _
            rw [← q_run]; unfold finishTable; rfl
          · show (finishTable c1).rand = _; rw [← q_rand]; unfold finishTable; rfl
          · show (finishTable c1).bwtIdx = _; rw [← q_bi]; unfold finishTable; rfl
          · show (finishTable c1).alphaSize = _; rw [← q_al]; unfold finishTable; rfl
          · show (finishTable c1).numTrees = _; rw [← q_nt]; unfold finishTable; rfl
          · show (finishTable c1).selector = _; rw [← q_sel]; unfold finishTable; rfl
          · show (finishTable c1).cmap = _; exact hcm
        · rw [← hb1]
          show bufBits (finishTable c1).v (finishTable c1).w ++ _ = _
          unfold finishTable; rfl
        · show BufInv (finishTable c1).v (finishTable c1).w
          have : (finishTable c1).v = v1 ∧ (finishTable c1).w = w1 := by
            rw [← q_v, ← q_w]; unfold finishTable; exact ⟨rfl, rfl⟩
          rw [this.1, this.2]; exact inv1
      · intro h; simp [specTables] at h
  | succ k ih =>
    intro c ws lens0 hpc hj hacc inv ha ht
    have hnorm : normPc c = c := by unfold normPc; rw [if_neg (by rw [hpc]; simp)]
    cases need_ready c ws hnorm inv with
    | inl hsu => exact ⟨fun _ _ _ => Or.inr hsu, fun _ => Or.inr hsu⟩
    | inr hr =>
      obtain ⟨v1, w1, ws1, e1, hw1, hb1, inv1, _⟩ := hr
      have q_pc : ({ c with v := v1, w := w1 } : St).pc = .deltaTag := hpc
      have q_j : ¬ ({ c with v := v1, w := w1 } : St).j < ({ c with v := v1, w := w1 } : St).alphaSize := by
        show ¬ c.j < c.alphaSize; omega
      have q_acc : ({ c with v := v1, w := w1 } : St).clAcc = lens0.reverse := hacc
      have q_w : ({ c with v := v1, w := w1 } : St).w = w1 := rfl
      have q_v : ({ c with v := v1, w := w1 } : St).v = v1 := rfl
      have q_t : ({ c with v := v1, w := w1 } : St).t = c.t := rfl
      have q_nt : ({ c with v := v1, w := w1 } : St).numTrees = c.numTrees := rfl
      have q_mtf : ({ c with v := v1, w := w1 } : St).mtf = c.mtf := rfl
      have q_trees : ({ c with v := v1, w := w1 } : St).trees = c.trees := rfl
      have q_cmap : ({ c with v := v1, w := w1 } : St).cmap = c.cmap := rfl
      have q_run : ({ c with v := v1, w := w1 } : St).run = c.run := rfl
      have q_ns : ({ c with v := v1, w := w1 } : St).numSel = c.numSel := rfl
      have q_rand : ({ c with v := v1, w := w1 } : St).rand = c.rand := rfl
      have q_bi : ({ c with v := v1, w := w1 } : St).bwtIdx = c.bwtIdx := rfl
      have q_al : ({ c with v := v1, w := w1 } : St).alphaSize = c.alphaSize := rfl
      have q_sel : ({ c with v := v1, w := w1 } : St).selector = c.selector := rfl
      generalize ({ c with v := v1, w := w1 } : St) = c1 at *
      obtain ⟨ft, fm, ftr⟩ := finishTable_eq c1 lens0 q_acc
      have hfv : (finishTable c1).v = v1 := by rw [← q_v]; unfold finishTable; rfl
      have hfw : (finishTable c1).w = w1 := by rw [← q_w]; unfold finishTable; rfl
      have hfa : (finishTable c1).alphaSize = c.alphaSize := by rw [← q_al]; unfold finishTable; rfl
      have hfn : (finishTable c1).numTrees = c.numTrees := by rw [← q_nt]; unfold finishTable; rfl
      have hfb : bitsOf (finishTable c1) ws1 = bitsOf c ws := by
        rw [← hb1]; unfold bitsOf; rw [hfv, hfw, q_v, q_w]
      have hstep : step c1 = tableStart (finishTable c1) := by
        unfold step
        rw [q_pc]
        unfold stepDeltaTag
        rw [if_neg q_j]
      have e2 : toTop c ws = afterStep w1 ws1 (tableStart (finishTable c1)) := by
        rw [e1, toTop_step' _ _ (by rw [q_w]; exact hw1), hstep, q_w]
      have hts := table_spec (finishTable c1) ws1 w1
        (by rw [hfw]; omega) (by rw [hfw]; omega) (by rw [hfv, hfw]; exact inv1) (by rw [hfa]; exact ha)
        (by rw [ft, hfn, q_t]; omega)
      rw [hfa, hfb] at hts
      obtain ⟨t1, t2⟩ := hts
      rw [e2]
      simp only [specTables]
      cases htab : Spec.Delta.table c.alphaSize (bitsOf c ws) with
      | none =>
        simp only
        exact ⟨fun _ _ h => (by cases h), fun _ => t2 htab⟩
      | some p =>
        obtain ⟨l, B1⟩ := p
        simp only
        cases t1 l B1 htab with
        | inr hsu => exact ⟨fun _ _ _ => Or.inr hsu, fun _ => Or.inr hsu⟩
        | inl hok =>
          obtain ⟨st', ws', e3, hd, hb3, inv3⟩ := hok
          have hIH := ih st' ws' l hd.pc (by rw [hd.j, hfa, hd.rest.alphaSize, hfa]) hd.acc inv3
            (by rw [hd.rest.alphaSize, hfa]; exact ha)
            (by rw [hd.rest.t, ft, hd.rest.numTrees, hfn, q_t]; omega)
          rw [hd.rest.alphaSize, hfa, hb3] at hIH
          obtain ⟨i1, i2⟩ := hIH
          rw [e3]
          constructor
          · intro tabs B' h
            cases hsp : specTables c.alphaSize k B1 with
            | none => rw [hsp] at h; cases h
            | some q =>
              obtain ⟨ls, B2⟩ := q
              rw [hsp] at h
              simp only [Option.some.injEq, Prod.mk.injEq] at h
              obtain ⟨h1, h2⟩ := h
              subst h1; subst h2
              cases i1 ls B2 hsp with
              | inr hsu => exact Or.inr hsu
              | inl hok2 =>
                obtain ⟨s, rest, e4, htk, hb4, inv4⟩ := hok2
                refine Or.inl ⟨s, rest, e4, ?_, hb4, inv4⟩
                have hcm : (finishTable c1).cmap = c.cmap := by rw [← q_cmap]; unfold finishTable; rfl
                have hrn : (finishTable c1).run = c.run := by rw [← q_run]; unfold finishTable; rfl
                have hns : (finishTable c1).numSel = c.numSel := by rw [← q_ns]; unfold finishTable; rfl
                have hra : (finishTable c1).rand = c.rand := by rw [← q_rand]; unfold finishTable; rfl
                have hbi : (finishTable c1).bwtIdx = c.bwtIdx := by rw [← q_bi]; unfold finishTable; rfl
                have hse : (finishTable c1).selector = c.selector := by rw [← q_sel]; unfold finishTable; rfl
                refine ⟨htk.pc, htk.j, htk.g, ?_, ?_, ?_, ?_, ?_, ?_, ?_, ?_, ?_⟩
                · rw [htk.numSel, hd.rest.numSel, hns]
                · rw [htk.tt, hd.rest.t, hd.rest.mtf, hd.rest.trees, ft, fm, ftr, q_t, q_mtf, q_trees]
                  simp only [applyTables]
                · obtain ⟨rs, h1, h2⟩ := htk.run
                  rw [hd.rest.cmap, hcm] at h1
                  rw [hd.rest.run, hrn] at h2
                  exact ⟨rs, h1, h2⟩
                · rw [htk.rand, hd.rest.rand, hra]
                · rw [htk.bwtIdx, hd.rest.bwtIdx, hbi]
                · rw [htk.alphaSize, hd.rest.alphaSize, hfa]
                · rw [htk.numTrees, hd.rest.numTrees, hfn]
                · rw [htk.selector, hd.rest.selector, hse]
                · rw [htk.cmap, hd.rest.cmap, hcm]
          · intro h
            cases hsp : specTables c.alphaSize k B1 with
            | some q => rw [hsp] at h; cases h
            | none => exact i2 hsp

end LbzVerif.Lemmas.RetrieveTables
