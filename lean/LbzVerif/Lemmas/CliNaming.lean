/-
  Lemmas about `Naming.xformRows` for ANY suffix table of the shape
  "pairwise suffix-incomparable check rows, then one catch-all row" — the
  facts `Props.C17` needs are then obtained by `decide` on the generated table,
  so they survive a reordering of the check rows in main.c.
-/
import LbzVerif.Model.Naming

namespace LbzVerif.Lemmas.CliNaming
open LbzVerif.Model.Naming
open LbzVerif.Model.Cli (Tok)

/-- the C test `len >= compr_len && strcmp(name + len - compr_len, compr) == 0` -/
theorem match_iff_suffix (compr name : Tok) :
    (decide (compr.length ≤ name.length)
      && name.drop (name.length - compr.length) == compr) = true ↔ compr <:+ name := by
  simp only [Bool.and_eq_true, decide_eq_true_eq, beq_iff_eq]
  constructor
  · rintro ⟨_, h⟩
    exact ⟨name.take (name.length - compr.length), by
      conv => lhs; rhs; rw [← h]
      exact List.take_append_drop _ _⟩
  · intro h
    exact ⟨h.length_le, (List.suffix_iff_eq_drop.mp h).symm⟩

theorem take_append_of_suffix {compr name : Tok} (h : compr <:+ name) :
    name.take (name.length - compr.length) ++ compr = name := by
  have := List.suffix_iff_eq_drop.mp h
  conv => lhs; rhs; rw [this]
  exact List.take_append_drop _ _

/-- two rows never match the same name -/
def Excl (a b : Tok × Tok × Bool) : Prop := ¬ a.1 <:+ b.1 ∧ ¬ b.1 <:+ a.1

instance (a b : Tok × Tok × Bool) : Decidable (Excl a b) := by unfold Excl; infer_instance

theorem xformRows_cons_match (r : Tok × Tok × Bool) (rs) (name : Tok) (w : Bool)
    (hc : (r.2.2 || w) = true) (hs : r.1 <:+ name) :
    xformRows (r :: rs) name w = some (name.take (name.length - r.1.length) ++ r.2.1) := by
  obtain ⟨c, d, k⟩ := r
  have := (match_iff_suffix c name).mpr hs
  simp only [Bool.and_eq_true] at this
  simp only [xformRows]
  simp_all

theorem xformRows_cons_nomatch (r : Tok × Tok × Bool) (rs) (name : Tok) (w : Bool)
    (h : ¬ ((r.2.2 || w) = true ∧ r.1 <:+ name)) :
    xformRows (r :: rs) name w = xformRows rs name w := by
  obtain ⟨c, d, k⟩ := r
  have hm := match_iff_suffix c name
  simp only [Bool.and_eq_true] at hm
  simp only [xformRows]
  rw [if_neg]
  simp only [Bool.and_eq_true]
  rintro ⟨⟨h1, h2⟩, h3⟩
  exact h ⟨h1, hm.mp ⟨h2, h3⟩⟩

/-- A matching check row decides the result, wherever it stands among the
(pairwise exclusive) check rows. -/
theorem xformRows_chk (rows tail : List (Tok × Tok × Bool)) (name : Tok) (w : Bool)
    (hchk : ∀ r ∈ rows, r.2.2 = true) (hex : rows.Pairwise Excl)
    (r : Tok × Tok × Bool) (hr : r ∈ rows) (hs : r.1 <:+ name) :
    xformRows (rows ++ tail) name w
      = some (name.take (name.length - r.1.length) ++ r.2.1) := by
  induction rows with
  | nil => cases hr
  | cons h t ih =>
    rw [List.pairwise_cons] at hex
    by_cases hh : h.1 <:+ name
    · -- the head matches: it must be the row
      have hk : (h.2.2 || w) = true := by simp [hchk h (List.mem_cons_self)]
      rw [List.cons_append, xformRows_cons_match h _ name w hk hh]
      rcases List.mem_cons.mp hr with rfl | hrt
      · rfl
      · have := hex.1 r hrt
        rcases List.suffix_or_suffix_of_suffix hh hs with h1 | h1
        · exact absurd h1 this.1
        · exact absurd h1 this.2
    · rw [List.cons_append, xformRows_cons_nomatch h _ name w (fun hc => hh hc.2)]
      rcases List.mem_cons.mp hr with rfl | hrt
      · exact absurd hs hh
      · exact ih (fun r hr => hchk r (List.mem_cons_of_mem _ hr)) hex.2 hrt

/-- No check row matches: the catch-all row (asked for an output name), or
nothing (asked whether the name is compressed). -/
theorem xformRows_none (rows : List (Tok × Tok × Bool)) (dflt name : Tok)
    (hno : ∀ r ∈ rows, ¬ r.1 <:+ name) :
    xformRows (rows ++ [([], dflt, false)]) name true = some (name ++ dflt)
    ∧ xformRows (rows ++ [([], dflt, false)]) name false = none := by
  induction rows with
  | nil =>
    constructor
    · rw [List.nil_append, xformRows_cons_match _ _ name true rfl (List.nil_suffix)]
      simp
    · rw [List.nil_append, xformRows_cons_nomatch _ _ name false (by simp)]
      rfl
  | cons h t ih =>
    have hh := hno h List.mem_cons_self
    have := ih (fun r hr => hno r (List.mem_cons_of_mem _ hr))
    constructor
    · rw [List.cons_append, xformRows_cons_nomatch h _ name true (fun hc => hh hc.2)]
      exact this.1
    · rw [List.cons_append, xformRows_cons_nomatch h _ name false (fun hc => hh hc.2)]
      exact this.2

/-- shape of a table: check rows, then the catch-all -/
structure Shape (table : List (Tok × Tok × Bool)) (dflt : Tok) : Prop where
  split : table = table.dropLast ++ [([], dflt, false)]
  chk : ∀ r ∈ table.dropLast, r.2.2 = true
  excl : table.dropLast.Pairwise Excl

theorem Shape.of_row {table dflt} (S : Shape table dflt) (name : Tok) (w : Bool)
    (r : Tok × Tok × Bool) (hr : r ∈ table.dropLast) (hs : r.1 <:+ name) :
    xformRows table name w = some (name.take (name.length - r.1.length) ++ r.2.1) := by
  rw [S.split]
  exact xformRows_chk _ _ name w S.chk S.excl r hr hs

theorem Shape.of_none {table dflt} (S : Shape table dflt) (name : Tok)
    (hno : ∀ r ∈ table.dropLast, ¬ r.1 <:+ name) :
    xformRows table name true = some (name ++ dflt) ∧ xformRows table name false = none := by
  rw [S.split]
  exact xformRows_none _ dflt name hno

/-- with such a table: "is compressed" = some check row is a suffix -/
theorem Shape.isSome_iff {table dflt} (S : Shape table dflt) (name : Tok) :
    (xformRows table name false).isSome = true ↔ ∃ r ∈ table.dropLast, r.1 <:+ name := by
  constructor
  · intro h
    by_cases hex : ∃ r ∈ table.dropLast, r.1 <:+ name
    · exact hex
    · have := (S.of_none name (fun r hr hs => hex ⟨r, hr, hs⟩)).2
      rw [this] at h
      cases h
  · rintro ⟨r, hr, hs⟩
    rw [S.of_row name false r hr hs]
    rfl

/-- … and the output name always exists -/
theorem Shape.total {table dflt} (S : Shape table dflt) (name : Tok) :
    (xformRows table name true).isSome = true := by
  by_cases hex : ∃ r ∈ table.dropLast, r.1 <:+ name
  · obtain ⟨r, hr, hs⟩ := hex
    rw [S.of_row name true r hr hs]; rfl
  · rw [(S.of_none name (fun r hr hs => hex ⟨r, hr, hs⟩)).1]; rfl

end LbzVerif.Lemmas.CliNaming
