/-
  Lemmas.MtfSlide — the loops of decode.c `mtf_one` (sliding lists): closed
  forms of the memory after `shiftUp`, `copyDown`, `rebuildLoop`, `slideLoop`,
  all of them total (`some …`) under the stated index conditions.
-/
import LbzVerif.Model.MtfDec

namespace LbzVerif.Lemmas.MtfSlide
open LbzVerif.Model.MtfDec LbzVerif.Gen

theorem row_width : ROW_WIDTH = 16 := rfl
theorem slide_length : SLIDE_LENGTH = 8192 := rfl
theorem num_rows : NUM_ROWS = 16 := rfl
theorem cmap_base : CMAP_BASE = 7936 := rfl

/-- memory cell (0 outside) -/
def g (m : Array UInt8) (j : Nat) : UInt8 := m.getD j 0
/-- row offset (0 outside) -/
def R (row : List Nat) (i : Nat) : Nat := row.getD i 0

/-- split every `if`, then close by reflexivity / linear arithmetic / congruence
of the memory index -/
macro "ifs" : tactic =>
  `(tactic| ((repeat' split) <;> first | rfl | omega | (exfalso; omega) | (congr 1; omega)))

theorem g_set (m : Array UInt8) (i j : Nat) (v : UInt8) :
    g (m.setIfInBounds i v) j = if i = j ∧ i < m.size then v else g m j := by
  simp only [g, Array.getD_eq_getD_getElem?, Array.getElem?_setIfInBounds]
  by_cases h : i = j
  · subst h
    by_cases h2 : i < m.size <;> simp [h2]
  · simp [h]

theorem R_set (row : List Nat) (i j v : Nat) :
    R (row.set i v) j = if i = j ∧ i < row.length then v else R row j := by
  simp only [R, List.getD_eq_getElem?_getD, List.getElem?_set]
  by_cases h : i = j
  · subst h
    by_cases h2 : i < row.length <;> simp [h2]
  · simp [h]

theorem rd_eq (m : Array UInt8) (i : Nat) (h : i < m.size) : rd m i = some (g m i) := by
  simp [rd, g, Array.getD_eq_getD_getElem?, Array.getElem?_eq_getElem h]

theorem wr_eq (m : Array UInt8) (i : Nat) (v : UInt8) (h : i < m.size) :
    wr m i v = some (m.setIfInBounds i v) := by
  simp [wr, h]

theorem row_get (row : List Nat) (i : Nat) (h : i < row.length) : row[i]? = some (R row i) := by
  simp [R, List.getD_eq_getElem?_getD, List.getElem?_eq_getElem h]

/-! ### shiftUp -/

theorem shiftUp_spec (base : Nat) : ∀ (nn : Nat) (m : Array UInt8), base + nn < m.size →
    ∃ m', shiftUp m base nn = some m' ∧ m'.size = m.size ∧
      ∀ j, g m' j = if base < j ∧ j ≤ base + nn then g m (j - 1) else g m j := by
  intro nn
  induction nn with
  | zero =>
    intro m _
    refine ⟨m, rfl, rfl, ?_⟩
    intro j
    ifs
  | succ nn ih =>
    intro m h
    obtain ⟨m', h1, h2, h3⟩ := ih (m.setIfInBounds (base + nn + 1) (g m (base + nn)))
      (by simp only [Array.size_setIfInBounds]; omega)
    refine ⟨m', ?_, ?_, ?_⟩
    · rw [shiftUp, rd_eq m _ (by omega)]
      dsimp only
      rw [wr_eq m _ _ (by omega)]
      exact h1
    · rw [h2, Array.size_setIfInBounds]
    · intro j
      rw [h3 j]
      simp only [g_set]
      ifs

/-! ### copyDown -/

theorem copyDown_spec (bg : Nat) : ∀ (n : Nat) (m : Array UInt8) (kk : Nat),
    n ≤ kk → kk ≤ m.size → bg + n ≤ kk →
    ∃ m', copyDown m bg kk n = some (m', kk - n) ∧ m'.size = m.size ∧
      ∀ j, g m' j = if kk - n ≤ j ∧ j < kk then g m (bg + (j - (kk - n))) else g m j := by
  intro n
  induction n with
  | zero =>
    intro m kk _ _ _
    refine ⟨m, rfl, rfl, ?_⟩
    intro j
    ifs
  | succ n ih =>
    intro m kk h1 h2 h3
    obtain ⟨m', e1, e2, e3⟩ := ih (m.setIfInBounds (kk - 1) (g m (bg + n))) (kk - 1)
      (by omega) (by simp only [Array.size_setIfInBounds]; omega) (by omega)
    refine ⟨m', ?_, ?_, ?_⟩
    · rw [copyDown]
      have hk : ¬ kk = 0 := by omega
      simp only [hk, if_false]
      rw [rd_eq m _ (by omega)]
      dsimp only
      rw [wr_eq m _ _ (by omega)]
      dsimp only
      rw [e1]
      congr 2
      omega
    · rw [e2, Array.size_setIfInBounds]
    · intro j
      rw [e3 j]
      simp only [g_set]
      ifs

/-! ### rebuild -/

theorem rebuildLoop_spec : ∀ (rr : Nat) (m : Array UInt8) (row : List Nat),
    rr ≤ 16 → m.size = 8192 → row.length = 16 →
    (∀ i, i < rr → R row i ≤ 7936 + 16 * i) →
    ∃ m' row', rebuildLoop m row (7936 + 16 * rr) rr = some (m', row') ∧
      m'.size = 8192 ∧ row'.length = 16 ∧
      (∀ i, R row' i = if i < rr then 7936 + 16 * i else R row i) ∧
      (∀ j, 7936 + 16 * rr ≤ j → g m' j = g m j) ∧
      (∀ i t, i < rr → t < 16 → g m' (7936 + 16 * i + t) = g m (R row i + t)) := by
  intro rr
  induction rr with
  | zero =>
    intro m row _ hm hr _
    refine ⟨m, row, rfl, hm, hr, ?_, ?_, ?_⟩
    · intro i; simp
    · intro j _; rfl
    · intro i t hi; omega
  | succ rr ih =>
    intro m row hrr hm hr hH
    have hbg := hH rr (by omega)
    obtain ⟨m1, c1, c2, c3⟩ := copyDown_spec (R row rr) 16 m (7936 + 16 * (rr + 1))
      (by omega) (by omega) (by omega)
    have hkk : 7936 + 16 * (rr + 1) - 16 = 7936 + 16 * rr := by omega
    rw [hkk] at c1 c3
    obtain ⟨m', row', e1, e2, e3, e4, e5, e6⟩ := ih m1 (row.set rr (7936 + 16 * rr))
      (by omega) (by rw [c2, hm]) (by simp [hr])
      (by
        intro i hi
        rw [R_set]
        have : ¬ (rr = i ∧ rr < row.length) := by omega
        simp only [this, if_false]
        exact hH i (by omega))
    refine ⟨m', row', ?_, e2, e3, ?_, ?_, ?_⟩
    · rw [rebuildLoop, row_get row rr (by omega)]
      simp only [row_width]
      rw [c1]
      exact e1
    · intro i
      rw [e4 i, R_set]
      by_cases h1 : i < rr
      · have h2 : i < rr + 1 := by omega
        simp [h1, h2]
      · by_cases h3 : i = rr
        · subst h3
          have : i < row.length := by omega
          simp [this]
        · have h4 : ¬ i < rr + 1 := by omega
          have h5 : ¬ (rr = i ∧ rr < row.length) := by omega
          simp [h1, h4, h5]
    · intro j hj
      rw [e5 j (by omega), c3 j]
      have : ¬ (7936 + 16 * rr ≤ j ∧ j < 7936 + 16 * (rr + 1)) := by omega
      simp only [this, if_false]
    · intro i t hi ht
      by_cases h1 : i < rr
      · rw [e6 i t h1 ht, R_set]
        have h5 : ¬ (rr = i ∧ rr < row.length) := by omega
        simp only [h5, if_false]
        rw [c3]
        have hb := hH i (by omega)
        have : ¬ (7936 + 16 * rr ≤ R row i + t ∧ R row i + t < 7936 + 16 * (rr + 1)) := by omega
        simp only [this, if_false]
      · have h3 : i = rr := by omega
        subst h3
        rw [e5 _ (by omega), c3]
        have : 7936 + 16 * i ≤ 7936 + 16 * i + t ∧ 7936 + 16 * i + t < 7936 + 16 * (i + 1) := by
          omega
        simp only [this, and_self, if_true]
        congr 2
        omega

/-! ### slideLoop -/

theorem slideLoop_spec : ∀ (lno : Nat) (m : Array UInt8) (row : List Nat) (pp : Nat),
    lno < 16 → m.size = 8192 → row.length = 16 →
    (∀ i j, i < j → j < lno → R row i + 16 ≤ R row j) →
    (∀ i, i < lno → R row i + 15 ≤ R row lno) →
    (∀ i, i < 16 → R row i + 16 ≤ 8192) →
    (1 ≤ lno → 1 ≤ R row 0) →
    ∃ m' row' pp', slideLoop m row pp lno = some (m', row', pp') ∧
      m'.size = 8192 ∧ row'.length = 16 ∧
      (∀ i, R row' i = if i < lno then R row i - 1 else R row i) ∧
      (pp' = if lno = 0 then pp else R row 0 - 1) ∧
      (∀ i, 1 ≤ i → i ≤ lno → g m' (R row' i) = g m (R row (i - 1) + 15)) ∧
      (∀ j, (∀ i, 1 ≤ i → i ≤ lno → j ≠ R row' i) → g m' j = g m j) := by
  intro lno
  induction lno with
  | zero =>
    intro m row pp _ hm hr _ _ _ _
    refine ⟨m, row, pp, rfl, hm, hr, ?_, rfl, ?_, ?_⟩
    · intro i; simp
    · intro i h1 h2; omega
    · intro j _; rfl
  | succ lno ih =>
    intro m row pp hl hm hr hA hB hD hZ
    -- r = row[lno] ≥ 1
    have hr1 : 1 ≤ R row lno := by
      have h0 := hZ (by omega)
      by_cases h : lno = 0
      · subst h; exact h0
      · have := hA 0 lno (by omega) (by omega); omega
    have hB' := hB lno (by omega)
    have hD1 := hD (lno + 1) (by omega)
    have hrow1len : (row.set lno (R row lno - 1)).length = 16 := by simp [hr]
    have hR1 : ∀ i, R (row.set lno (R row lno - 1)) i =
        if i = lno then R row lno - 1 else R row i := by
      intro i
      rw [R_set]
      by_cases h : i = lno
      · subst h
        have : i < row.length := by omega
        simp [this]
      · have : ¬ (lno = i ∧ lno < row.length) := by omega
        simp [h, this]
    obtain ⟨m', row', pp', e1, e2, e3, e4, e5, e6, e7⟩ :=
      ih (m.setIfInBounds (R row (lno + 1)) (g m (R row lno - 1 + 16)))
        (row.set lno (R row lno - 1)) (R row lno - 1) (by omega)
        (by rw [Array.size_setIfInBounds, hm]) hrow1len
        (by
          intro i j hij hj
          rw [hR1 i, hR1 j]
          have h1 : ¬ i = lno := by omega
          have h2 : ¬ j = lno := by omega
          simp only [h1, h2, if_false]
          exact hA i j hij (by omega))
        (by
          intro i hi
          rw [hR1 i, hR1 lno]
          have h1 : ¬ i = lno := by omega
          simp only [h1, if_false, if_true]
          have := hA i lno hi (by omega)
          omega)
        (by
          intro i hi
          rw [hR1 i]
          have := hD i hi
          split <;> omega)
        (by
          intro h
          rw [hR1 0]
          have h1 : ¬ 0 = lno := by omega
          simp only [h1, if_false]
          exact hZ (by omega))
    refine ⟨m', row', pp', ?_, e2, e3, ?_, ?_, ?_, ?_⟩
    · rw [slideLoop, row_get row lno (by omega)]
      have hne : ¬ R row lno = 0 := by omega
      simp only [hne, if_false, row_width]
      rw [rd_eq m _ (by omega), row_get _ (lno + 1) (by omega)]
      simp only
      rw [hR1 (lno + 1)]
      have h1 : ¬ lno + 1 = lno := by omega
      simp only [h1, if_false]
      rw [wr_eq m _ _ (by omega)]
      exact e1
    · intro i
      rw [e4 i, hR1 i]
      by_cases h1 : i < lno
      · have h2 : i < lno + 1 := by omega
        have h3 : ¬ i = lno := by omega
        simp [h1, h2, h3]
      · by_cases h3 : i = lno
        · subst h3; simp
        · have h2 : ¬ i < lno + 1 := by omega
          simp [h1, h2, h3]
    · rw [e5]
      by_cases h : lno = 0
      · subst h; simp
      · have h1 : ¬ lno + 1 = 0 := by omega
        simp only [h, h1, if_false]
        rw [hR1 0]
        have h2 : ¬ 0 = lno := by omega
        simp [h2]
    · intro i hi1 hi2
      by_cases h : i ≤ lno
      · rw [e6 i hi1 h, hR1 (i - 1)]
        have h1 : ¬ i - 1 = lno := by omega
        simp only [h1, if_false, g_set]
        have hs := hA (i - 1) lno (by omega) (by omega)
        have : ¬ (R row (lno + 1) = R row (i - 1) + 15 ∧ R row (lno + 1) < m.size) := by omega
        simp only [this, if_false]
      · have hi : i = lno + 1 := by omega
        subst hi
        have hrow' : R row' (lno + 1) = R row (lno + 1) := by
          rw [e4, hR1]
          have h1 : ¬ lno + 1 < lno := by omega
          have h2 : ¬ lno + 1 = lno := by omega
          simp [h1, h2]
        rw [hrow', e7]
        · simp only [g_set]
          have : R row (lno + 1) = R row (lno + 1) ∧ R row (lno + 1) < m.size := by omega
          simp only [this, and_self, if_true]
          congr 1
          simp only [Nat.add_sub_cancel]
          omega
        · intro i hi1 hi2
          rw [e4 i, hR1 i]
          by_cases h3 : i = lno
          · subst h3
            simp only [Nat.lt_irrefl, if_false, if_true]
            omega
          · have h4 : i < lno := by omega
            have hs := hA i lno h4 (by omega)
            simp only [h4, h3, if_true, if_false]
            omega
    · intro j hj
      have hrow' : R row' (lno + 1) = R row (lno + 1) := by
        rw [e4, hR1]
        have h1 : ¬ lno + 1 < lno := by omega
        have h2 : ¬ lno + 1 = lno := by omega
        simp [h1, h2]
      rw [e7 j (fun i h1 h2 => hj i h1 (by omega))]
      simp only [g_set]
      have := hj (lno + 1) (by omega) (by omega)
      rw [hrow'] at this
      have : ¬ (R row (lno + 1) = j ∧ R row (lno + 1) < m.size) := by omega
      simp only [this, if_false]

end LbzVerif.Lemmas.MtfSlide
