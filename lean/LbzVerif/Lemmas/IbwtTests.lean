/-
  Lemmas.IbwtTests — TESTS (not theorems about all inputs): `decode()`'s model
  against the textbook inverse BWT on exhaustively enumerated small last
  columns, evaluated by the kernel.  Kept in its own module because the
  evaluation takes a few seconds.
-/
import LbzVerif.Model.Ibwt

namespace LbzVerif.Lemmas.IbwtTests

open LbzVerif

/-- All byte strings of length `n` over the alphabet `0 … k-1`. -/
def allLists (k : Nat) : Nat → List (List UInt8)
  | 0 => [[]]
  | n + 1 => (allLists k n).flatMap (fun l => (List.range k).map (fun b => UInt8.ofNat b :: l))

/-- For every primary index: the node bytes `emit()` will read equal the
textbook inverse (successor-vector form and naive sorted-matrix form). -/
def agree (L : List UInt8) : Bool :=
  (List.range L.length).all (fun i =>
    Model.Ibwt.nodes false i L == Spec.Ibwt.ibwt L i &&
    Spec.Ibwt.ibwt L i == Spec.Ibwt.ibwtNaive L i)

/-- Every list pointer the traversal follows is below the block size. -/
def ptrsOK (L : List UInt8) : Bool :=
  (List.range L.length).all (fun i =>
    let d := Model.Ibwt.decode false i L (Model.Ibwt.counts L)
    decide (Model.Ibwt.walkMaxPtr d.tt L.length d.rleIndex < L.length))

set_option maxRecDepth 100000 in
/-- TEST: all 3 + 9 + 27 last columns of length 1…3 over three symbols and
all 16 + 32 of length 4, 5 over two symbols. -/
theorem test_small_alphabet :
    (((List.range 4).drop 1).all (fun n => (allLists 3 n).all (fun L => agree L && ptrsOK L)) &&
     (allLists 2 4).all (fun L => agree L && ptrsOK L) &&
     (allLists 2 5).all (fun L => agree L && ptrsOK L)) = true := by
  decide +kernel

set_option maxRecDepth 100000 in
/-- TEST: the last column of "banana" (`nnbaaa`, primary index 3) and of
"abracadabra" (`rdarcaaaabb`, primary index 2), all primary indices. -/
theorem test_words :
    agree [110, 110, 98, 97, 97, 97] = true ∧
    Model.Ibwt.nodes false 3 [110, 110, 98, 97, 97, 97] = [98, 97, 110, 97, 110, 97] ∧
    agree [114, 100, 97, 114, 99, 97, 97, 97, 97, 98, 98] = true ∧
    Model.Ibwt.nodes false 2 [114, 100, 97, 114, 99, 97, 97, 97, 97, 98, 98] =
      [97, 98, 114, 97, 99, 97, 100, 97, 98, 114, 97] := by
  decide +kernel

/-- TEST: the derandomisation loop flips exactly the positions the reference
automaton flips (617, 1337, 1464, …) on a block of 2000 zero bytes, and the
in-situ path (`rand = 1`) on small blocks (below `RAND_THRESH`, where
randomisation is a no-op) equals the plain path. -/
theorem test_derand :
    (Model.Ibwt.derandLoop 2000 2000 0 Gen.RAND_THRESH (List.replicate 2000 0)).map (UInt8.ofNat ·) =
      Spec.Ibwt.derand Gen.randTable (List.replicate 2000 0) := by
  decide +kernel

set_option maxRecDepth 100000 in
theorem test_rand_small :
    ((allLists 2 4).all (fun L => (List.range L.length).all (fun i =>
      Model.Ibwt.nodes true i L == Model.Ibwt.nodes false i L))) = true := by
  decide +kernel

end LbzVerif.Lemmas.IbwtTests
