/-
  Lemmas about `Model.Cli`: structure of the argument scan (`flatten`,
  `cluster`) and of the interpretation of events (`interp`).
-/
import LbzVerif.Model.Cli

namespace LbzVerif.Lemmas.CliParse
open LbzVerif.Gen LbzVerif.Model.Cli

/-! ### `small` is write-only -/

def unsmallC (c : Config) : Config := { c with small := false }

def unsmall : OutcomeL → OutcomeL
  | .config c ops => .config (unsmallC c) ops
  | o => o

theorem unsmall_consOp (t : Tok) (o : OutcomeL) : unsmall (consOp t o) = consOp t (unsmall o) := by
  cases o <;> rfl

theorem applyAct_unsmall (a : OptAct) (ch : Char) (c1 c2 : Config)
    (h : unsmallC c1 = unsmallC c2) :
    (applyAct a ch c1).map unsmallC = (applyAct a ch c2).map unsmallC := by
  cases c1; cases c2
  simp only [unsmallC, Config.mk.injEq] at h
  obtain ⟨h1, h2, h3, h4, h5, -, h7, h8, h9, h10, h11⟩ := h
  subst h1 h2 h3 h4 h5 h7 h8 h9 h10 h11
  cases a <;> simp only [applyAct] <;> (try split) <;> simp [unsmallC]

theorem interp_unsmall (es : List Ev) : ∀ (c1 c2 : Config), unsmallC c1 = unsmallC c2 →
    unsmall (interp c1 es) = unsmall (interp c2 es) := by
  induction es with
  | nil => intro c1 c2 h; simp only [interp, unsmall, h]
  | cons e es ih =>
    intro c1 c2 h
    cases e with
    | operand t => simp only [interp, unsmall_consOp, ih c1 c2 h]
    | bad => rfl
    | setN s =>
      simp only [interp]
      cases xstrtol s 1 mxWorker with
      | none => rfl
      | some v =>
        apply ih
        cases c1; cases c2; simp only [unsmallC, Config.mk.injEq] at h ⊢; simp [h]
    | setM s =>
      simp only [interp]
      cases xstrtol s 1 sizeMax with
      | none => rfl
      | some v =>
        apply ih
        cases c1; cases c2; simp only [unsmallC, Config.mk.injEq] at h ⊢; simp [h]
    | act a ch =>
      simp only [interp]
      by_cases hu : a = .usage
      · simp [hu]
      by_cases hv : a = .version
      · simp [hv]
      simp only [hu, hv, if_false]
      have := applyAct_unsmall a ch c1 c2 h
      cases h1 : applyAct a ch c1 <;> cases h2 : applyAct a ch c2 <;>
        simp only [h1, h2, Option.map, reduceCtorEq, Option.some.injEq] at this
      · rfl
      · exact ih _ _ this

/-! ### Congruence of `interp` under a common prefix -/

theorem interp_prefix_congr (f : OutcomeL → OutcomeL)
    (hf : ∀ t o, f (consOp t o) = consOp t (f o)) (X Y : List Ev)
    (h : ∀ c, f (interp c X) = f (interp c Y)) (A : List Ev) :
    ∀ c, f (interp c (A ++ X)) = f (interp c (A ++ Y)) := by
  induction A with
  | nil => exact h
  | cons e A ih =>
    intro c
    cases e with
    | operand t => simp only [List.cons_append, interp, hf, ih c]
    | bad => rfl
    | setN s =>
      simp only [List.cons_append, interp]
      cases xstrtol s 1 mxWorker with
      | none => rfl
      | some v => exact ih _
    | setM s =>
      simp only [List.cons_append, interp]
      cases xstrtol s 1 sizeMax with
      | none => rfl
      | some v => exact ih _
    | act a ch =>
      simp only [List.cons_append, interp]
      by_cases hu : a = .usage
      · simp [hu]
      by_cases hv : a = .version
      · simp [hv]
      simp only [hu, hv, if_false]
      cases applyAct a ch c with
      | none => rfl
      | some c' => exact ih _

/-- an ignored option may be dropped anywhere -/
theorem interp_nop (a : OptAct) (ch : Char) (ha : a = .nop) (c : Config) (B : List Ev) :
    interp c (.act a ch :: B) = interp c B := by
  subst ha
  simp [interp, applyAct]

/-- `-s` may be dropped anywhere, as far as everything but `small` goes -/
theorem interp_small (a : OptAct) (ch : Char) (ha : a = .small) (c : Config) (B : List Ev) :
    unsmall (interp c (.act a ch :: B)) = unsmall (interp c B) := by
  subst ha
  simp only [interp, applyAct, reduceCtorEq, if_false]
  exact interp_unsmall B _ _ rfl

theorem interp_noop_insert (a : OptAct) (ch : Char) (ha : a = .nop ∨ a = .small)
    (A B : List Ev) (c : Config) :
    unsmall (interp c (A ++ .act a ch :: B)) = unsmall (interp c (A ++ B)) := by
  apply interp_prefix_congr unsmall unsmall_consOp
  intro c1
  rcases ha with ha | ha
  · rw [interp_nop a ch ha]
  · exact interp_small a ch ha c1 B

/-! ### `main`'s view -/

theorem mainView_eq_unsmall (o : OutcomeL) : mainView o = unsmall o := by
  cases o <;> simp [mainView, unsmall, unsmallC, smallForcedOff]

theorem unsmall_finalize (o : OutcomeL) : unsmall (finalize o) = finalize (unsmall o) := by
  cases o with
  | config c ops =>
    simp only [finalize, unsmall, unsmallC]
    split <;> rfl
  | _ => rfl

theorem parseL_eq (p : String) (args : List Tok) :
    parseL p args = finalize (unsmall (interp (initial p) (flatten args))) := by
  simp only [parseL, optsSetupL, mainView_eq_unsmall, unsmall_finalize]

/-! ### Scan state: is the next list element read as an option? -/

inductive ScanSt where
  | normal      -- the next element is examined as operand / option
  | pending     -- the next element is the argument of a trailing `-n` / `-m`
  | stopped     -- `--` was seen: everything that follows is an operand
  deriving DecidableEq, Repr

/-- state of the arguments loop after the list `xs` -/
def scanState : List Tok → ScanSt
  | [] => .normal
  | a :: rest =>
    match argKind a with
    | .operand => scanState rest
    | .stop => .stopped
    | .long _ => scanState rest
    | .short cs =>
      match (cluster cs).2 with
      | none => scanState rest
      | some _ =>
        match rest with
        | [] => .pending
        | _ :: rest' => scanState rest'

theorem scanState_cons (a : Tok) (rest : List Tok) :
    scanState (a :: rest) =
      match argKind a with
      | .operand => scanState rest
      | .stop => .stopped
      | .long _ => scanState rest
      | .short cs =>
        match (cluster cs).2 with
        | none => scanState rest
        | some _ =>
          match rest with
          | [] => .pending
          | _ :: rest' => scanState rest' := by
  rw [scanState.eq_def]

theorem flatten_cons (a : Tok) (rest : List Tok) :
    flatten (a :: rest) =
      match argKind a with
      | .operand => .operand a :: flatten rest
      | .stop => rest.map .operand
      | .long name => longEv name :: flatten rest
      | .short cs =>
        match cluster cs with
        | (es, none) => es ++ flatten rest
        | (es, some isN) =>
          match rest with
          | [] => es ++ [.bad]
          | v :: rest' => es ++ (if isN then Ev.setN v else Ev.setM v) :: flatten rest' := by
  rw [flatten.eq_def]
  simp only
  cases argKind a with
  | short cs =>
    simp only
    rcases cluster cs with ⟨es, _ | isN⟩
    · rfl
    · cases rest <;> rfl
  | _ => rfl

/-- After a prefix that leaves the scan in the normal state, the rest of the
list is scanned as if it stood alone. -/
theorem flatten_append (ys : List Tok) : ∀ (n : Nat) (xs : List Tok), xs.length ≤ n →
    scanState xs = .normal → flatten (xs ++ ys) = flatten xs ++ flatten ys := by
  intro n
  induction n with
  | zero =>
    intro xs hl _
    have : xs = [] := List.length_eq_zero_iff.mp (Nat.le_zero.mp hl)
    subst this; rfl
  | succ n ih =>
    intro xs hl h
    cases xs with
    | nil => rfl
    | cons a rest =>
      have hl' : rest.length ≤ n := by simp at hl; omega
      simp only [List.cons_append, flatten_cons]
      simp only [scanState_cons] at h
      cases hk : argKind a with
      | operand => simp only [hk] at h ⊢; rw [ih rest hl' h]; rfl
      | stop => simp only [hk] at h; cases h
      | long name => simp only [hk] at h ⊢; rw [ih rest hl' h]; rfl
      | short cs =>
        simp only [hk] at h ⊢
        rcases hc : cluster cs with ⟨es, _ | isN⟩
        · simp only [hc] at h ⊢
          rw [ih rest hl' h, List.append_assoc]
        · simp only [hc] at h ⊢
          cases rest with
          | nil => cases h
          | cons v rest' =>
            simp only [List.cons_append] at h ⊢
            rw [ih rest' (by simp at hl'; omega) h]
            simp

theorem flatten_append' (xs ys : List Tok) (h : scanState xs = .normal) :
    flatten (xs ++ ys) = flatten xs ++ flatten ys :=
  flatten_append ys xs.length xs (Nat.le_refl _) h

theorem scanState_append (ys : List Tok) : ∀ (n : Nat) (xs : List Tok), xs.length ≤ n →
    scanState xs = .normal → scanState (xs ++ ys) = scanState ys := by
  intro n
  induction n with
  | zero =>
    intro xs hl _
    have : xs = [] := List.length_eq_zero_iff.mp (Nat.le_zero.mp hl)
    subst this; rfl
  | succ n ih =>
    intro xs hl h
    cases xs with
    | nil => rfl
    | cons a rest =>
      have hl' : rest.length ≤ n := by simp at hl; omega
      simp only [List.cons_append, scanState_cons] at h ⊢
      cases hk : argKind a with
      | operand => simp only [hk] at h ⊢; exact ih rest hl' h
      | stop => simp only [hk] at h; cases h
      | long name => simp only [hk] at h ⊢; exact ih rest hl' h
      | short cs =>
        simp only [hk] at h ⊢
        cases hc : (cluster cs).2 with
        | none => simp only [hc] at h ⊢; exact ih rest hl' h
        | some isN =>
          simp only [hc] at h ⊢
          cases rest with
          | nil => cases h
          | cons v rest' =>
            simp only [List.cons_append] at h ⊢
            exact ih rest' (by simp at hl'; omega) h

theorem scanState_append' (xs ys : List Tok) (h : scanState xs = .normal) :
    scanState (xs ++ ys) = scanState ys :=
  scanState_append ys xs.length xs (Nat.le_refl _) h

/-! ### Splitting an interpretation -/

theorem consOp_eq_config {t : Tok} {o : OutcomeL} {c : Config} {ops : List Tok}
    (h : consOp t o = .config c ops) : ∃ ops', o = .config c ops' ∧ ops = t :: ops' := by
  cases o with
  | config c0 ops0 =>
    simp only [consOp, OutcomeL.config.injEq] at h
    exact ⟨ops0, by rw [h.1], h.2.symm⟩
  | _ => cases h

theorem interp_append (X Y : List Ev) : ∀ (c c' : Config) (ops : List Tok),
    interp c (X ++ Y) = .config c' ops →
    ∃ c1 ops1 ops2, interp c X = .config c1 ops1 ∧ interp c1 Y = .config c' ops2
      ∧ ops = ops1 ++ ops2 := by
  induction X with
  | nil => intro c c' ops h; exact ⟨c, [], ops, rfl, h, rfl⟩
  | cons e X ih =>
    intro c c' ops h
    cases e with
    | operand t =>
      simp only [List.cons_append, interp] at h
      obtain ⟨ops', h1, h2⟩ := consOp_eq_config h
      obtain ⟨c1, o1, o2, ha, hb, hc⟩ := ih c c' ops' h1
      exact ⟨c1, t :: o1, o2, by simp only [interp, ha, consOp], hb, by rw [h2, hc]; rfl⟩
    | bad => simp only [List.cons_append, interp, reduceCtorEq] at h
    | setN s =>
      simp only [List.cons_append, interp] at h ⊢
      cases hx : xstrtol s 1 mxWorker with
      | none => simp only [hx, reduceCtorEq] at h
      | some v => simp only [hx] at h ⊢; exact ih _ c' ops h
    | setM s =>
      simp only [List.cons_append, interp] at h ⊢
      cases hx : xstrtol s 1 sizeMax with
      | none => simp only [hx, reduceCtorEq] at h
      | some v => simp only [hx] at h ⊢; exact ih _ c' ops h
    | act a ch =>
      simp only [List.cons_append, interp] at h ⊢
      by_cases hu : a = .usage
      · simp [hu] at h
      by_cases hv : a = .version
      · simp [hv] at h
      simp only [hu, hv, if_false] at h ⊢
      cases hx : applyAct a ch c with
      | none => simp only [hx, reduceCtorEq] at h
      | some c2 => simp only [hx] at h ⊢; exact ih _ c' ops h

/-- an invariant of the option variables -/
theorem interp_inv (P : Config → Prop)
    (hstep : ∀ a ch c c', applyAct a ch c = some c' → P c → P c')
    (hN : ∀ c v, P c → P { c with numWorker := some v })
    (hM : ∀ c v, P c → P { c with maxMem := some v })
    (es : List Ev) : ∀ (c c' : Config) (ops : List Tok),
    interp c es = .config c' ops → P c → P c' := by
  induction es with
  | nil =>
    intro c c' ops h hp
    simp only [interp, OutcomeL.config.injEq] at h
    rw [← h.1]; exact hp
  | cons e es ih =>
    intro c c' ops h hp
    cases e with
    | operand t =>
      simp only [interp] at h
      obtain ⟨ops', h1, _⟩ := consOp_eq_config h
      exact ih c c' ops' h1 hp
    | bad => simp only [interp, reduceCtorEq] at h
    | setN s =>
      simp only [interp] at h
      cases hx : xstrtol s 1 mxWorker with
      | none => simp only [hx, reduceCtorEq] at h
      | some v => simp only [hx] at h; exact ih _ c' ops h (hN c v hp)
    | setM s =>
      simp only [interp] at h
      cases hx : xstrtol s 1 sizeMax with
      | none => simp only [hx, reduceCtorEq] at h
      | some v => simp only [hx] at h; exact ih _ c' ops h (hM c v hp)
    | act a ch =>
      simp only [interp] at h
      by_cases hu : a = .usage
      · simp [hu] at h
      by_cases hv : a = .version
      · simp [hv] at h
      simp only [hu, hv, if_false] at h
      cases hx : applyAct a ch c with
      | none => simp only [hx, reduceCtorEq] at h
      | some c2 => simp only [hx] at h; exact ih _ c' ops h (hstep a ch c c2 hx hp)

/-- `OM_STDOUT` is never left during option processing -/
theorem interp_stdout_absorbing (es : List Ev) (c c' : Config) (ops : List Tok)
    (h : interp c es = .config c' ops) (hs : c.outmode = .stdout) : c'.outmode = .stdout := by
  refine interp_inv (fun c => c.outmode = .stdout) ?_ (fun _ _ h => h) (fun _ _ h => h)
    es c c' ops h hs
  intro a ch c c' ha hp
  cases a <;> simp only [applyAct, reduceCtorEq] at ha <;>
    first
      | (simp only [Option.some.injEq] at ha; subst ha; simp_all)
      | (split at ha <;> simp_all <;> (subst ha; rfl))

/-- `OM_DISCARD` (test) always goes with `decompress` -/
theorem interp_discard_decompress (es : List Ev) (c c' : Config) (ops : List Tok)
    (h : interp c es = .config c' ops) (hs : c.outmode = .discard → c.decompress = true) :
    c'.outmode = .discard → c'.decompress = true := by
  refine interp_inv (fun c => c.outmode = .discard → c.decompress = true) ?_
    (fun _ _ h => h) (fun _ _ h => h) es c c' ops h hs
  intro a ch c c' ha hp
  cases a <;> simp only [applyAct, reduceCtorEq] at ha
  case outmodeC => split at ha <;> simp_all; subst ha; simp
  case outmodeT => split at ha <;> simp_all; subst ha; simp
  case decompressD => simp only [Option.some.injEq] at ha; subst ha; simp
  case decompressZ =>
    simp only [Option.some.injEq] at ha; subst ha
    intro hd
    simp only at hd
    split at hd <;> simp_all
  all_goals (simp only [Option.some.injEq] at ha; subst ha; simpa using hp)

/-! ### Which option decides `decompress` -/

def modeOfAct : OptAct → Option Bool
  | .decompressD => some true
  | .decompressZ => some false
  | .outmodeT => some true
  | _ => none

def modeOf : Ev → Option Bool
  | .act a _ => modeOfAct a
  | _ => none

/-- the last of the mode-setting options among the scanned events -/
def lastMode (es : List Ev) : Option Bool := (es.filterMap modeOf).getLast?

theorem lastMode_cons (e : Ev) (es : List Ev) (d : Bool) :
    (lastMode (e :: es)).getD d = (lastMode es).getD ((modeOf e).getD d) := by
  unfold lastMode
  cases hm : modeOf e with
  | none => simp [hm]
  | some b => simp [hm, List.getLast?_cons]

theorem applyAct_decompress (a : OptAct) (ch : Char) (c c' : Config)
    (h : applyAct a ch c = some c') : c'.decompress = (modeOfAct a).getD c.decompress := by
  cases a <;> simp only [applyAct, reduceCtorEq] at h <;>
    first
      | (simp only [Option.some.injEq] at h; subst h; rfl)
      | (split at h <;> simp only [reduceCtorEq, Option.some.injEq] at h; subst h; rfl)

theorem interp_decompress (es : List Ev) : ∀ (c c' : Config) (ops : List Tok),
    interp c es = .config c' ops → c'.decompress = (lastMode es).getD c.decompress := by
  induction es with
  | nil =>
    intro c c' ops h
    simp only [interp, OutcomeL.config.injEq] at h
    rw [← h.1]; rfl
  | cons e es ih =>
    intro c c' ops h
    rw [lastMode_cons]
    cases e with
    | operand t =>
      simp only [interp] at h
      obtain ⟨ops', h1, _⟩ := consOp_eq_config h
      exact ih c c' ops' h1
    | bad => simp only [interp, reduceCtorEq] at h
    | setN s =>
      simp only [interp] at h
      cases hx : xstrtol s 1 mxWorker with
      | none => simp only [hx, reduceCtorEq] at h
      | some v => simp only [hx] at h; have := ih _ c' ops h; exact this
    | setM s =>
      simp only [interp] at h
      cases hx : xstrtol s 1 sizeMax with
      | none => simp only [hx, reduceCtorEq] at h
      | some v => simp only [hx] at h; have := ih _ c' ops h; exact this
    | act a ch =>
      simp only [interp] at h
      by_cases hu : a = .usage
      · simp [hu] at h
      by_cases hv : a = .version
      · simp [hv] at h
      simp only [hu, hv, if_false] at h
      cases hx : applyAct a ch c with
      | none => simp only [hx, reduceCtorEq] at h
      | some c2 =>
        simp only [hx] at h
        rw [ih c2 c' ops h, applyAct_decompress a ch c c2 hx]
        rfl

/-- without a `-d`/`-z` (or `-t`) the test mode, once entered, stays -/
theorem interp_discard_stays (M : List Ev) (hM : ∀ e ∈ M, modeOf e = none) :
    ∀ (c c' : Config) (ops : List Tok), interp c M = .config c' ops →
    c.outmode = .discard → c'.outmode = .discard := by
  induction M with
  | nil =>
    intro c c' ops h hd
    simp only [interp, OutcomeL.config.injEq] at h
    rw [← h.1]; exact hd
  | cons e M ih =>
    intro c c' ops h hd
    have ih' := ih (fun e he => hM e (List.mem_cons_of_mem _ he))
    have he := hM e List.mem_cons_self
    cases e with
    | operand t =>
      simp only [interp] at h
      obtain ⟨ops', h1, _⟩ := consOp_eq_config h
      exact ih' c c' ops' h1 hd
    | bad => simp only [interp, reduceCtorEq] at h
    | setN s =>
      simp only [interp] at h
      cases hx : xstrtol s 1 mxWorker with
      | none => simp only [hx, reduceCtorEq] at h
      | some v => simp only [hx] at h; exact ih' _ c' ops h hd
    | setM s =>
      simp only [interp] at h
      cases hx : xstrtol s 1 sizeMax with
      | none => simp only [hx, reduceCtorEq] at h
      | some v => simp only [hx] at h; exact ih' _ c' ops h hd
    | act a ch =>
      simp only [interp] at h
      by_cases hu : a = .usage
      · simp [hu] at h
      by_cases hv : a = .version
      · simp [hv] at h
      simp only [hu, hv, if_false] at h
      cases hx : applyAct a ch c with
      | none => simp only [hx, reduceCtorEq] at h
      | some c2 =>
        simp only [hx] at h
        apply ih' c2 c' ops h
        simp only [modeOf] at he
        cases a <;> simp only [modeOfAct, reduceCtorEq] at he <;>
          simp only [applyAct, reduceCtorEq] at hx <;>
          first
            | (simp only [Option.some.injEq] at hx; subst hx; exact hd)
            | (split at hx <;> simp_all)

/-! ### Tracking one option variable through the events -/

/-- If a projection `g` of the option variables changes under every single
event as `upd` says, the value at the end is the fold of `upd`. -/
theorem interp_track {α : Type} (g : Config → α) (upd : Ev → α → α)
    (hact : ∀ a ch c c', applyAct a ch c = some c' → g c' = upd (.act a ch) (g c))
    (hN : ∀ s c v, g { c with numWorker := some v } = upd (.setN s) (g c))
    (hM : ∀ s c v, g { c with maxMem := some v } = upd (.setM s) (g c))
    (hop : ∀ t x, upd (.operand t) x = x)
    (es : List Ev) : ∀ (c c' : Config) (ops : List Tok),
    interp c es = .config c' ops → g c' = es.foldl (fun x e => upd e x) (g c) := by
  induction es with
  | nil =>
    intro c c' ops h
    simp only [interp, OutcomeL.config.injEq] at h
    rw [← h.1]; rfl
  | cons e es ih =>
    intro c c' ops h
    rw [List.foldl_cons]
    cases e with
    | operand t =>
      simp only [interp] at h
      obtain ⟨ops', h1, _⟩ := consOp_eq_config h
      rw [hop]; exact ih c c' ops' h1
    | bad => simp only [interp, reduceCtorEq] at h
    | setN s =>
      simp only [interp] at h
      cases hx : xstrtol s 1 mxWorker with
      | none => simp only [hx, reduceCtorEq] at h
      | some v => simp only [hx] at h; rw [← hN s c v]; exact ih _ c' ops h
    | setM s =>
      simp only [interp] at h
      cases hx : xstrtol s 1 sizeMax with
      | none => simp only [hx, reduceCtorEq] at h
      | some v => simp only [hx] at h; rw [← hM s c v]; exact ih _ c' ops h
    | act a ch =>
      simp only [interp] at h
      by_cases hu : a = .usage
      · simp [hu] at h
      by_cases hv : a = .version
      · simp [hv] at h
      simp only [hu, hv, if_false] at h
      cases hx : applyAct a ch c with
      | none => simp only [hx, reduceCtorEq] at h
      | some c2 =>
        simp only [hx] at h
        rw [← hact a ch c c2 hx]; exact ih c2 c' ops h

/-- a sticky flag: true at the end iff true at the start or set by some event -/
theorem foldl_or (P : Ev → Bool) (es : List Ev) (x : Bool) :
    es.foldl (fun x e => x || P e) x = (x || es.any P) := by
  induction es generalizing x with
  | nil => simp
  | cons e es ih => simp [List.foldl_cons, ih, Bool.or_assoc]

/-- "last one wins": the fold of `fun x e => (sel e).getD x` -/
theorem foldl_last {α : Type} (sel : Ev → Option α) (es : List Ev) (x : α) :
    es.foldl (fun x e => (sel e).getD x) x = ((es.filterMap sel).getLast?).getD x := by
  induction es generalizing x with
  | nil => rfl
  | cons e es ih =>
    rw [List.foldl_cons, ih]
    cases hs : sel e with
    | none => simp [hs]
    | some b => simp [hs, List.getLast?_cons]

def isKeepEv : Ev → Bool
  | .act .keep _ => true
  | _ => false

def isForceEv : Ev → Bool
  | .act .force _ => true
  | _ => false

/-- the block size an event selects -/
def levelOf : Ev → Option Nat
  | .act (.level n) _ => some n
  | .act .levelDigit ch => some (ch.toNat - 48)
  | _ => none

theorem interp_keep (es : List Ev) (c c' : Config) (ops : List Tok)
    (h : interp c es = .config c' ops) : c'.keep = (c.keep || es.any isKeepEv) := by
  rw [← foldl_or]
  refine interp_track (fun c => c.keep) (fun e x => x || isKeepEv e) ?_ ?_ ?_ ?_ es c c' ops h
  · intro a ch c c' hx
    cases a <;> simp only [applyAct, reduceCtorEq] at hx <;>
      first
        | (simp only [Option.some.injEq] at hx; subst hx; simp [isKeepEv])
        | (split at hx <;> simp only [reduceCtorEq, Option.some.injEq] at hx; subst hx
           simp [isKeepEv])
  · intro s c v; simp [isKeepEv]
  · intro s c v; simp [isKeepEv]
  · intro t x; simp [isKeepEv]

theorem interp_force (es : List Ev) (c c' : Config) (ops : List Tok)
    (h : interp c es = .config c' ops) : c'.force = (c.force || es.any isForceEv) := by
  rw [← foldl_or]
  refine interp_track (fun c => c.force) (fun e x => x || isForceEv e) ?_ ?_ ?_ ?_ es c c' ops h
  · intro a ch c c' hx
    cases a <;> simp only [applyAct, reduceCtorEq] at hx <;>
      first
        | (simp only [Option.some.injEq] at hx; subst hx; simp [isForceEv])
        | (split at hx <;> simp only [reduceCtorEq, Option.some.injEq] at hx; subst hx
           simp [isForceEv])
  · intro s c v; simp [isForceEv]
  · intro s c v; simp [isForceEv]
  · intro t x; simp [isForceEv]

theorem interp_level (es : List Ev) (c c' : Config) (ops : List Tok)
    (h : interp c es = .config c' ops) :
    c'.bs100k = ((es.filterMap levelOf).getLast?).getD c.bs100k := by
  rw [← foldl_last]
  refine interp_track (fun c => c.bs100k) (fun e x => (levelOf e).getD x) ?_ ?_ ?_ ?_ es c c' ops h
  · intro a ch c c' hx
    cases a <;> simp only [applyAct, reduceCtorEq] at hx <;>
      first
        | (simp only [Option.some.injEq] at hx; subst hx; simp [levelOf])
        | (split at hx <;> simp only [reduceCtorEq, Option.some.injEq] at hx; subst hx
           simp [levelOf])
  · intro s c v; simp [levelOf]
  · intro s c v; simp [levelOf]
  · intro t x; simp [levelOf]

/-! ### Clusters -/

/-- an action that neither ends the cluster nor takes an argument -/
def Simple (a : OptAct) : Prop := a ≠ .usage ∧ a ≠ .version ∧ a ≠ .argN ∧ a ≠ .argM

theorem cluster_none (ch : Char) (cs : List Char) (h : shortOpts.lookup ch = none) :
    cluster (ch :: cs) = ([.bad], none) := by
  simp only [cluster, h]

theorem cluster_term (ch : Char) (cs : List Char) (a : OptAct)
    (h : shortOpts.lookup ch = some a) (ha : a = .usage ∨ a = .version) :
    cluster (ch :: cs) = ([.act a ch], none) := by
  simp only [cluster, h, ha, if_true]

theorem cluster_simple (ch : Char) (cs : List Char) (a : OptAct)
    (h : shortOpts.lookup ch = some a) (ha : Simple a) :
    cluster (ch :: cs) = (.act a ch :: (cluster cs).1, (cluster cs).2) := by
  obtain ⟨h1, h2, h3, h4⟩ := ha
  simp only [cluster, h, h1, h2, h3, h4, or_self, if_false]

theorem argKind_short (cs : List Char) (h : cs.head? ≠ some '-') :
    argKind ('-' :: cs) = .short cs := by
  cases cs with
  | nil => simp [argKind]
  | cons c1 t =>
    have : c1 ≠ '-' := by simpa using h
    simp [argKind, this]

/-- what follows a cluster in the scan -/
def tailOf (p : Option Bool) (rest : List Tok) : List Ev :=
  match p with
  | none => flatten rest
  | some isN =>
    match rest with
    | [] => [.bad]
    | v :: rest' => (if isN then Ev.setN v else Ev.setM v) :: flatten rest'

theorem flatten_short (a : Tok) (cs : List Char) (rest : List Tok)
    (h : argKind a = .short cs) :
    flatten (a :: rest) = (cluster cs).1 ++ tailOf (cluster cs).2 rest := by
  rw [flatten_cons, h]
  simp only
  rcases cluster cs with ⟨es, _ | isN⟩
  · rfl
  · cases rest <;> rfl

/-- Inserting a letter with a plain action into a cluster, before any
`n`/`m`, inserts exactly that action into the scanned events (or changes
nothing, when the cluster was cut short before the insertion point). -/
theorem cluster_insert (l : Char) (a : OptAct) (hl : shortOpts.lookup l = some a)
    (ha : Simple a) (l2 : List Char) : ∀ (l1 : List Char),
    (∀ ch ∈ l1, shortOpts.lookup ch ≠ some .argN ∧ shortOpts.lookup ch ≠ some .argM) →
    cluster (l1 ++ l :: l2) = cluster (l1 ++ l2) ∨
    ∃ A B, (cluster (l1 ++ l2)).1 = A ++ B ∧ (cluster (l1 ++ l :: l2)).1 = A ++ .act a l :: B
      ∧ (cluster (l1 ++ l :: l2)).2 = (cluster (l1 ++ l2)).2 := by
  intro l1
  induction l1 with
  | nil =>
    intro _
    right
    refine ⟨[], (cluster l2).1, rfl, ?_, ?_⟩ <;> simp [cluster_simple l l2 a hl ha]
  | cons ch l1 ih =>
    intro h
    have hch := h ch List.mem_cons_self
    have ih' := ih (fun c hc => h c (List.mem_cons_of_mem _ hc))
    cases hlk : shortOpts.lookup ch with
    | none => left; simp only [List.cons_append, cluster_none _ _ hlk]
    | some b =>
      by_cases hb : b = .usage ∨ b = .version
      · left; simp only [List.cons_append, cluster_term _ _ b hlk hb]
      · have hs : Simple b := by
          refine ⟨fun e => hb (Or.inl e), fun e => hb (Or.inr e), ?_, ?_⟩
          · intro e; exact hch.1 (by rw [hlk, e])
          · intro e; exact hch.2 (by rw [hlk, e])
        simp only [List.cons_append, cluster_simple ch _ b hlk hs]
        rcases ih' with ih' | ⟨A, B, h1, h2, h3⟩
        · left; rw [ih']
        · right
          exact ⟨.act b ch :: A, B, by simp [h1], by simp [h2], h3⟩

/-- `-abc` is read like `-a -b -c` (letters without argument, no `-`). -/
theorem interp_cluster_separate (rest : List Tok) : ∀ (ls : List Char),
    (∀ ch ∈ ls, ch ≠ '-' ∧ shortOpts.lookup ch ≠ some .argN ∧ shortOpts.lookup ch ≠ some .argM) →
    ∀ c, interp c (flatten (('-' :: ls) :: rest))
       = interp c (flatten (ls.map (fun ch => ['-', ch]) ++ rest)) := by
  intro ls
  induction ls with
  | nil =>
    intro _ c
    rw [flatten_short _ [] rest (argKind_short [] (by simp))]
    rfl
  | cons ch ls ih =>
    intro h c
    have hch := h ch List.mem_cons_self
    have hls : ∀ c ∈ ls, c ≠ '-' ∧ shortOpts.lookup c ≠ some .argN
        ∧ shortOpts.lookup c ≠ some .argM := fun c hc => h c (List.mem_cons_of_mem _ hc)
    have hk1 : argKind ('-' :: ch :: ls) = .short (ch :: ls) :=
      argKind_short _ (by simpa using hch.1)
    have hk2 : argKind ['-', ch] = .short [ch] := argKind_short _ (by simpa using hch.1)
    have hk3 : argKind ('-' :: ls) = .short ls := by
      apply argKind_short
      cases ls with
      | nil => simp
      | cons c1 t => simpa using (hls c1 List.mem_cons_self).1
    rw [List.map_cons, List.cons_append, flatten_short _ _ _ hk1, flatten_short _ _ _ hk2]
    cases hlk : shortOpts.lookup ch with
    | none =>
      rw [cluster_none _ _ hlk, cluster_none _ _ hlk]
      rfl
    | some b =>
      by_cases hb : b = .usage ∨ b = .version
      · rw [cluster_term _ _ b hlk hb, cluster_term _ _ b hlk hb]
        simp only [List.cons_append, List.nil_append, interp]
        rcases hb with hb | hb <;> simp [hb]
      · have hs : Simple b := by
          refine ⟨fun e => hb (Or.inl e), fun e => hb (Or.inr e), ?_, ?_⟩
          · intro e; exact hch.2.1 (by rw [hlk, e])
          · intro e; exact hch.2.2 (by rw [hlk, e])
        rw [cluster_simple ch ls b hlk hs, cluster_simple ch [] b hlk hs]
        have hf := flatten_short _ _ rest hk3
        simp only [List.cons_append, cluster, List.nil_append, tailOf] at hf ⊢
        rw [← hf]
        simp only [interp, hs.1, hs.2.1, if_false]
        cases applyAct b ch c with
        | none => rfl
        | some c2 => exact ih hls c2

end LbzVerif.Lemmas.CliParse
