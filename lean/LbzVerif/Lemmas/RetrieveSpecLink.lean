/-
  Lemmas.RetrieveSpecLink — reference against reference: the pieces the
  header theorems of `Model.Retrieve` are stated with (`Spec.Delta.table`,
  iterated `readUnary`, `specRows`) are the corresponding pieces of THE oracle
  `Spec.Bzip2.parseBlock` (`readTable`, `readSelectorMtf`, `readBitmapRows`),
  whose position bookkeeping does not influence what is read.
-/
import LbzVerif.Lemmas.RetrieveHeader

set_option linter.unusedSimpArgs false

namespace LbzVerif.Lemmas.RetrieveSpecLink
open LbzVerif LbzVerif.Basic LbzVerif.Spec.Bzip2
open LbzVerif.Lemmas.RetrieveTables LbzVerif.Lemmas.RetrieveSelectors LbzVerif.Lemmas.RetrieveBitmap
open LbzVerif.Lemmas.RetrieveHeader

/-- Result of a reader without its position. -/
def dropPos {α : Type} : Except Reject (α × Nat × Bits) → Option (α × Bits)
  | .ok (a, _, r) => some (a, r)
  | .error _ => none

theorem inRange_of (c : Nat) (h : 1 ≤ c ∧ c ≤ maxLen) : Spec.Delta.inRange c = true := by
  simp only [Spec.Delta.inRange, Spec.Delta.minLen, Spec.Delta.maxLen, maxLen] at *
  simp [h.1, h.2]

theorem inRange_false_of (c : Nat) (h : ¬ (1 ≤ c ∧ c ≤ maxLen)) : Spec.Delta.inRange c = false := by
  simp only [Spec.Delta.inRange, Spec.Delta.minLen, Spec.Delta.maxLen, maxLen] at *
  by_cases h1 : 1 ≤ c
  · have : ¬ c ≤ 20 := fun h2 => h ⟨h1, h2⟩
    simp [h1, this]
  · simp [h1]

/-- One delta-coded length: `Spec.Bzip2.readLen` = `Spec.Delta.sym`. -/
theorem readLen_sym (cur pos : Nat) (bits : Bits) (hc : 1 ≤ cur ∧ cur ≤ maxLen) :
    dropPos (readLen cur pos bits) = Spec.Delta.sym cur bits := by
  fun_induction readLen cur pos bits with
  | case1 => rfl
  | case2 cur pos bits => simp [dropPos, Spec.Delta.sym, inRange_of cur hc]
  | case3 => rfl
  | case4 cur pos bits hlt ih =>
    rw [ih ⟨by omega, hlt⟩]
    simp [Spec.Delta.sym, inRange_of cur hc]
  | case5 cur pos bits hnot =>
    simp only [dropPos, Spec.Delta.sym, inRange_of cur hc, if_true]
    exact (Lemmas.Delta.sym_not_inRange (cur + 1) bits (inRange_false_of _ (by omega))).symm
  | case6 cur pos bits hge ih =>
    rw [ih ⟨by omega, by omega⟩]
    simp [Spec.Delta.sym, inRange_of cur hc]
  | case7 cur pos bits hnot =>
    simp only [dropPos, Spec.Delta.sym, inRange_of cur hc, if_true]
    exact (Lemmas.Delta.sym_not_inRange (cur - 1) bits (inRange_false_of _ (by omega))).symm

def dropPosA : Except Reject (Array Nat × Nat × Bits) → Option (List Nat × Bits)
  | .ok (a, _, r) => some (a.toList, r)
  | .error _ => none

theorem readLens_syms (n cur pos : Nat) (bits : Bits) (acc : Array Nat) (hc : 1 ≤ cur ∧ cur ≤ maxLen) :
    dropPosA (readLens n cur pos bits acc) =
      (Spec.Delta.syms n cur bits).map (fun p => (acc.toList ++ p.1, p.2)) := by
  fun_induction readLens n cur pos bits acc with
  | case1 cur pos bits acc => simp [dropPosA, Spec.Delta.syms]
  | case2 n cur pos bits acc e h =>
    have := readLen_sym cur pos bits hc
    rw [h] at this
    simp only [dropPos] at this
    simp [dropPosA, Spec.Delta.syms, ← this]
  | case3 n cur pos bits acc len pos' bits' h ih =>
    have hs := readLen_sym cur pos bits hc
    rw [h] at hs
    simp only [dropPos] at hs
    rw [ih (Spec.Bzip2.readLen_range hc h)]
    simp only [Spec.Delta.syms, ← hs]
    cases Spec.Delta.syms n len bits' with
    | none => rfl
    | some p => simp

theorem takeNat_takeNum (n : Nat) (bits : Bits) :
    takeNat n bits = Spec.Delta.takeNum n bits := by
  unfold Spec.Delta.takeNum
  by_cases h : n ≤ bits.length
  · rw [if_pos h, Lemmas.RetrieveTables.takeNat_eq n bits h]
    have : Spec.Delta.toNum (bits.take n) = Model.Delta.toNum (bits.take n) := rfl
    rw [this, Lemmas.RetrieveValues.toNum_eq_bitsToNat]
  · rw [if_neg h]
    exact (Basic.takeNat_none_iff_short n bits).mpr (by omega)

def dropPosL : Except Reject (List Nat × Nat × Bits) → Option (List Nat × Bits)
  | .ok (a, _, r) => some (a, r)
  | .error _ => none

/-- One table: `Spec.Bzip2.readTable` = `Spec.Delta.table`. -/
theorem readTable_table (alpha pos : Nat) (bits : Bits) :
    dropPosL (readTable alpha pos bits) = Spec.Delta.table alpha bits := by
  unfold readTable Spec.Delta.table
  rw [← takeNat_takeNum]
  cases takeNat 5 bits with
  | none => rfl
  | some p =>
    obtain ⟨start, b1⟩ := p
    simp only
    by_cases hr : 1 ≤ start ∧ start ≤ maxLen
    · rw [if_pos hr, inRange_of start hr]
      simp only [if_true]
      have := readLens_syms alpha start (pos + 5) b1 (Array.mkEmpty alpha) hr
      cases hrl : readLens alpha start (pos + 5) b1 (Array.mkEmpty alpha) with
      | error e =>
        rw [hrl] at this
        simp only [dropPosA] at this
        simp only [dropPosL]
        cases hs : Spec.Delta.syms alpha start b1 with
        | none => rfl
        | some z => rw [hs] at this; cases this
      | ok q =>
        obtain ⟨a, p', r⟩ := q
        rw [hrl] at this
        simp only [dropPosA] at this
        simp only [dropPosL]
        cases hs : Spec.Delta.syms alpha start b1 with
        | none => rw [hs] at this; cases this
        | some z =>
          rw [hs] at this
          simp only [Option.map_some, Option.some.injEq, Prod.mk.injEq] at this
          obtain ⟨t1, t2⟩ := this
          have : (Array.mkEmpty alpha : Array Nat).toList = [] := rfl
          rw [this, List.nil_append] at t1
          rw [t1, t2]
    · rw [if_neg hr, inRange_false_of start hr]
      rfl

/-- The position argument of `readTables` does not matter; the tables are
`specTables`. -/
theorem readTables_spec (alpha : Nat) : ∀ (n pos : Nat) (bits : Bits) (acc : Array (List Nat)),
    (match readTables alpha n pos bits acc with
      | .ok (ts, _, r) => some (ts, r)
      | .error _ => none) =
    (specTables alpha n bits).map (fun p => (acc.toList ++ p.1, p.2)) := by
  intro n
  induction n with
  | zero => intro pos bits acc; simp [readTables, specTables]
  | succ n ih =>
    intro pos bits acc
    have ht := readTable_table alpha pos bits
    rw [readTables]
    simp only [specTables]
    cases hrt : readTable alpha pos bits with
    | error e =>
      rw [hrt] at ht
      simp only [dropPosL] at ht
      rw [← ht]; rfl
    | ok q =>
      obtain ⟨t, p', b'⟩ := q
      rw [hrt] at ht
      simp only [dropPosL] at ht
      rw [← ht]
      simp only
      rw [ih p' b' (acc.push t)]
      cases specTables alpha n b' with
      | none => rfl
      | some z => simp

/-- `k` selectors in a row. -/
def specSels (ng : Nat) : Nat → Bits → Option (List Nat × Bits)
  | 0, B => some ([], B)
  | k + 1, B =>
    match readUnary ng 0 B with
    | .error _ => none
    | .ok (i, B1) =>
      match specSels ng k B1 with
      | none => none
      | some (is, B') => some (i :: is, B')

theorem readSelectorMtf_spec (ng : Nat) : ∀ (n pos : Nat) (bits : Bits) (acc : Array Nat),
    (match readSelectorMtf ng n pos bits acc with
      | .ok (a, _, r) => some (a.toList, r)
      | .error _ => none) =
    (specSels ng n bits).map (fun p => (acc.toList ++ p.1, p.2)) := by
  intro n
  induction n with
  | zero => intro pos bits acc; simp [readSelectorMtf, specSels]
  | succ n ih =>
    intro pos bits acc
    rw [readSelectorMtf]
    simp only [specSels]
    cases readUnary ng 0 bits with
    | error e => rfl
    | ok q =>
      obtain ⟨j, b'⟩ := q
      simp only
      rw [ih (pos + j + 1) b' (acc.push j)]
      cases specSels ng n b' with
      | none => rfl
      | some z => simp

/-- Selectors, then tables (the order of `parseBlock`). -/
theorem specSelTables_eq (ng alpha : Nat) : ∀ (k : Nat) (B : Bits),
    specSelTables ng alpha k B =
      match specSels ng k B with
      | none => none
      | some (is, B1) =>
        match specTables alpha ng B1 with
        | none => none
        | some (tabs, B') => some (is, tabs, B') := by
  intro k
  induction k with
  | zero => intro B; simp only [specSelTables, specSels]; cases specTables alpha ng B <;> rfl
  | succ k ih =>
    intro B
    simp only [specSelTables, specSels]
    cases readUnary ng 0 B with
    | error e => rfl
    | ok q =>
      obtain ⟨i, B1⟩ := q
      simp only
      rw [ih B1]
      cases specSels ng k B1 with
      | none => rfl
      | some z =>
        obtain ⟨is, B2⟩ := z
        simp only
        cases specTables alpha ng B2 with
        | none => rfl
        | some y => rfl

/-- The bitmap rows: `Spec.Bzip2.readBitmapRows` without its position. -/
theorem readBitmapRows_spec (big : Nat) : ∀ (rows : List Nat) (pos : Nat) (bits : Bits),
    (readBitmapRows big rows pos bits).map (fun x => (x.1, x.2.2)) = specRows big rows bits := by
  intro rows
  induction rows with
  | nil => intro pos bits; rfl
  | cons i rows ih =>
    intro pos bits
    rw [readBitmapRows]
    simp only [specRows]
    by_cases hb : big.testBit (15 - i) = true
    · rw [if_pos hb, if_pos hb]
      cases takeNat 16 bits with
      | none => rfl
      | some q =>
        obtain ⟨small, b1⟩ := q
        simp only
        rw [← ih (pos + 16) b1]
        cases readBitmapRows big rows (pos + 16) b1 with
        | none => rfl
        | some z => rfl
    · rw [if_neg hb, if_neg hb]
      exact ih pos bits

/-! ### `parseBlock` = header (`specHeader`) + tail -/

/-- What `Spec.Bzip2.parseBlock` does after the tables, given the header
values: undo the MTF coding of the selectors, decode the groups, build the
`Block`. -/
def parseTail (level start crc r idx : Nat) (h : Hdr) (pos : Nat) : Except Reject (Block × Bits) :=
  match unMtfSelectors (List.range h.ng) h.sels (Array.mkEmpty h.ns) with
  | none => .error .badSelector
  | some selectors =>
    match decodeGroups ((h.tabs.map mkCode).toArray) (h.used.length + 2 - 1) selectors.toList 0 pos h.rest
        (Array.mkEmpty 1024) with
    | .error e => .error e
    | .ok (nUsed, pos', bits', syms) =>
      .ok ({ level := level, startBit := start, endBit := pos', storedCrc := crc,
             rand := r == 1, origPtr := idx, used := h.used, nGroups := h.ng,
             selectors := selectors.toList, tables := h.tabs, nSelectorsUsed := nUsed,
             syms := syms }, bits')

/-- **The oracle factors through `specHeader`.**  After the 32-bit CRC,
`Spec.Bzip2.parseBlock` rejects whenever `specHeader` does, and otherwise is
`parseTail` on the header values `specHeader` delivers (for some value of the
position counter, which influences only the reported offsets). -/
theorem parseBlock_factor (level start : Nat) (bits : Bits) (crc : Nat) (b0 : Bits)
    (h32 : takeNat 32 bits = some (crc, b0)) :
    (specHeader b0 = none → ∃ e, parseBlock level start bits = .error e) ∧
    (∀ r idx h, specHeader b0 = some (r, idx, h) →
      ∃ pos, parseBlock level start bits = parseTail level start crc r idx h pos) := by
  unfold parseBlock specHeader specFromBig specFromRows specCounts
  rw [h32]
  simp only
  cases takeNat 1 b0 with
  | none => exact ⟨fun _ => ⟨_, rfl⟩, fun _ _ _ h => (by cases h)⟩
  | some p1 =>
    obtain ⟨r0, b1⟩ := p1
    simp only
    cases takeNat 24 b1 with
    | none => exact ⟨fun _ => ⟨_, rfl⟩, fun _ _ _ h => (by cases h)⟩
    | some p2 =>
      obtain ⟨i0, b2⟩ := p2
      simp only
      cases takeNat 16 b2 with
      | none => exact ⟨fun _ => ⟨_, rfl⟩, fun _ _ _ h => (by cases h)⟩
      | some p3 =>
        obtain ⟨big, b3⟩ := p3
        simp only
        have hrows := readBitmapRows_spec big (List.range 16) (start + 121) b3
        have hrr : List.range' 0 16 = List.range 16 := by rw [List.range_eq_range']
        rw [hrr, ← hrows]
        cases readBitmapRows big (List.range 16) (start + 121) b3 with
        | none => exact ⟨fun _ => ⟨_, rfl⟩, fun _ _ _ h => (by cases h)⟩
        | some p4 =>
          obtain ⟨used, pos4, b4⟩ := p4
          simp only [Option.map_some, List.nil_append]
          by_cases hu : used = []
          · subst hu
            simp only [List.isEmpty_nil, if_true]
            exact ⟨fun _ => ⟨_, rfl⟩, fun _ _ _ h => (by cases h)⟩
          · have hie : used.isEmpty = false := by cases used with | nil => exact absurd rfl hu | cons _ _ => rfl
            rw [if_neg hu, hie]
            simp only [Bool.false_eq_true, if_false]
            cases takeNat 3 b4 with
            | none => exact ⟨fun _ => ⟨_, rfl⟩, fun _ _ _ h => (by cases h)⟩
            | some p5 =>
              obtain ⟨ng, b5⟩ := p5
              simp only
              by_cases hng : ng < 2 ∨ 6 < ng
              · rw [if_pos hng, if_pos hng]
                exact ⟨fun _ => ⟨_, rfl⟩, fun _ _ _ h => (by cases h)⟩
              · rw [if_neg hng, if_neg hng]
                cases takeNat 15 b5 with
                | none => exact ⟨fun _ => ⟨_, rfl⟩, fun _ _ _ h => (by cases h)⟩
                | some p6 =>
                  obtain ⟨ns, b6⟩ := p6
                  simp only
                  by_cases hns : ns = 0
                  · rw [if_pos hns, if_pos hns]
                    exact ⟨fun _ => ⟨_, rfl⟩, fun _ _ _ h => (by cases h)⟩
                  · rw [if_neg hns, if_neg hns]
                    rw [specSelTables_eq]
                    have hsel := readSelectorMtf_spec ng ns (pos4 + 18) b6 (Array.mkEmpty ns)
                    cases hrs : readSelectorMtf ng ns (pos4 + 18) b6 (Array.mkEmpty ns) with
                    | error e =>
                      rw [hrs] at hsel
                      simp only at hsel
                      cases hss : specSels ng ns b6 with
                      | some z => rw [hss] at hsel; cases hsel
                      | none => exact ⟨fun _ => ⟨_, rfl⟩, fun _ _ _ h => (by cases h)⟩
                    | ok q =>
                      obtain ⟨selMtf, pos7, b7⟩ := q
                      rw [hrs] at hsel
                      simp only at hsel
                      cases hss : specSels ng ns b6 with
                      | none => rw [hss] at hsel; cases hsel
                      | some z =>
                        obtain ⟨is, b7'⟩ := z
                        rw [hss] at hsel
                        simp only [Option.map_some, Option.some.injEq, Prod.mk.injEq] at hsel
                        obtain ⟨e1, e2⟩ := hsel
                        have hnil : (Array.mkEmpty ns : Array Nat).toList = [] := rfl
                        rw [hnil, List.nil_append] at e1
                        subst e2
                        simp only
                        -- the tables come AFTER `unMtfSelectors` in parseBlock; reorder
                        have htab := readTables_spec (used.length + 2) ng pos7 b7 (Array.mkEmpty ng)
                        cases hum : unMtfSelectors (List.range ng) selMtf.toList (Array.mkEmpty ns) with
                        | none =>
                          simp only
                          refine ⟨fun _ => ⟨_, rfl⟩, fun r idx h hh => ?_⟩
                          cases hst : specTables (used.length + 2) ng b7 with
                          | none => rw [hst] at hh; cases hh
                          | some y =>
                            obtain ⟨tabs, b8⟩ := y
                            rw [hst] at hh
                            simp only [Option.some.injEq, Prod.mk.injEq] at hh
                            obtain ⟨h1, h2, h3⟩ := hh
                            subst h1; subst h2; subst h3
                            refine ⟨0, ?_⟩
                            simp only [parseTail, ← e1, hum]
                        | some sels =>
                          simp only
                          cases hrt : readTables (used.length + 2) ng pos7 b7 (Array.mkEmpty ng) with
                          | error e =>
                            rw [hrt] at htab
                            simp only at htab
                            cases hst : specTables (used.length + 2) ng b7 with
                            | some y => rw [hst] at htab; cases htab
                            | none => exact ⟨fun _ => ⟨_, rfl⟩, fun _ _ _ h => (by cases h)⟩
                          | ok y =>
                            obtain ⟨tables, pos8, b8⟩ := y
                            rw [hrt] at htab
                            simp only at htab
                            cases hst : specTables (used.length + 2) ng b7 with
                            | none => rw [hst] at htab; cases htab
                            | some y' =>
                              obtain ⟨tabs, b8'⟩ := y'
                              rw [hst] at htab
                              simp only [Option.map_some, Option.some.injEq, Prod.mk.injEq] at htab
                              obtain ⟨t1, t2⟩ := htab
                              have hnil2 : (Array.mkEmpty ng : Array (List Nat)).toList = [] := rfl
                              rw [hnil2, List.nil_append] at t1
                              subst t1; subst t2
                              simp only
                              refine ⟨fun h => (by cases h), fun r idx h hh => ?_⟩
                              simp only [Option.some.injEq, Prod.mk.injEq] at hh
                              obtain ⟨h1, h2, h3⟩ := hh
                              subst h1; subst h2; subst h3
                              refine ⟨pos8, ?_⟩
                              simp only [parseTail, ← e1, hum]
                              cases decodeGroups ((List.map mkCode tables).toArray) (used.length + 2 - 1) sels.toList 0 pos8 b8
                                  (Array.mkEmpty 1024) with
                              | error e => rfl
                              | ok z =>
                                obtain ⟨nUsed, pos', bits', syms⟩ := z
                                rfl

end LbzVerif.Lemmas.RetrieveSpecLink
