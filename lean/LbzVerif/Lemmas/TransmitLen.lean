/-
  Lemmas.TransmitLen — the number of bits each part of `transmit()` writes,
  and that the total is what `encode()` computed as `cost`.
-/
import LbzVerif.Model.Transmit
import LbzVerif.Lemmas.SpecBasic
import LbzVerif.Props.C02

namespace LbzVerif.Lemmas.TransmitLen
open LbzVerif LbzVerif.Basic LbzVerif.Model.Canon LbzVerif.Model.Transmit

theorem send_length (n v : Nat) : (send n v).length = n := natToBits_length n v

/-! ### small list facts -/

theorem map_range_getD {α β : Type} (l : List α) (d : α) (f : α → β) :
    (List.range l.length).map (fun i => f (l.getD i d)) = l.map f := by
  apply List.ext_getElem
  · simp
  · intro i h1 h2
    simp only [List.length_map, List.length_range] at h1
    simp [List.getD_eq_getElem?_getD, List.getElem?_eq_getElem h1]

theorem sum_map_add {α : Type} (l : List α) (f g : α → Nat) :
    (l.map (fun x => f x + g x)).sum = (l.map f).sum + (l.map g).sum := by
  induction l with
  | nil => rfl
  | cons a t ih => simp only [List.map_cons, List.sum_cons, ih]; omega

theorem sum_map_mod {α : Type} (l : List α) (f : α → Nat) (m : Nat)
    (h : ∀ x ∈ l, f x % m = 0) : (l.map f).sum % m = 0 := by
  induction l with
  | nil => simp
  | cons a t ih =>
    have h1 := h a (List.mem_cons_self ..)
    have h2 := ih (fun x hx => h x (List.mem_cons_of_mem _ hx))
    simp only [List.map_cons, List.sum_cons]
    rw [Nat.add_mod, h1, h2]; simp

/-! ### header -/

theorem headerBits_length (b : EncBlock) : (headerBits b).length = 105 := by
  simp [headerBits, send_length]

/-! ### bitmap -/

theorem bitsToNatAux_eq_zero (acc : Nat) (l : Bits) :
    bitsToNatAux acc l = 0 ↔ acc = 0 ∧ l.all (· == false) = true := by
  induction l generalizing acc with
  | nil => simp [bitsToNatAux]
  | cons b t ih =>
    simp only [bitsToNatAux, ih, List.all_cons, Bool.and_eq_true, beq_iff_eq]
    cases b <;> simp [bit] <;> omega

theorem packRow_ne_zero (cmap : List Bool) (i : Nat) :
    (packRow cmap i != 0) = (List.range 16).any (fun j => cmap.getD (16 * i + j) false) := by
  rw [Bool.eq_iff_iff]
  simp only [bne_iff_ne, ne_eq, packRow, bitsToNat, bitsToNatAux_eq_zero, true_and,
    List.all_map, List.any_eq_true, List.all_eq_true, Function.comp, beq_iff_eq]
  constructor
  · intro h
    apply Classical.byContradiction
    intro hn
    apply h
    intro x hx
    cases hc : cmap.getD (16 * i + x) false
    · rfl
    · exact absurd ⟨x, hx, hc⟩ hn
  · intro ⟨x, hx, hc⟩ h
    have := h x hx
    rw [hc] at this
    cases this

theorem bitmapBits_length (cmap : List Bool) : (bitmapBits cmap).length = bitmapCost cmap := by
  unfold bitmapBits bitmapCost
  rw [List.length_append, send_length, List.length_flatMap, Nat.add_comm]
  have hm : (List.range 16).map (fun a =>
        (if packRow cmap a != 0 then send 16 (packRow cmap a) else []).length) =
      (List.range 16).map (fun i =>
        (if (List.range 16).any (fun j => cmap.getD (16 * i + j) false) then 1 else 0) <<< 4) := by
    apply List.map_congr_left
    intro i _
    rw [packRow_ne_zero]
    split <;> simp [send_length]
  rw [hm]

theorem bitmapCost_mod (cmap : List Bool) : bitmapCost cmap % 8 = 0 := by
  unfold bitmapCost
  have := sum_map_mod (List.range 16) (fun i =>
      (if (List.range 16).any (fun j => cmap.getD (16 * i + j) false) then 1 else 0) <<< 4) 8
    (by intro x _; split <;> simp)
  omega

/-! ### selectors -/

theorem selLoop_length (p : Nat) (cs : List Nat) : (selLoop p cs).length = cs.length := by
  induction cs generalizing p with
  | nil => rfl
  | cons c cs ih => simp [selLoop, ih]

theorem selectorBits_length (b : EncBlock) (h : b.selectorMtf.length = b.numSelectors) :
    (selectorBits b).length = (b.selectorMtf.map (· + 1)).sum := by
  simp only [selectorBits, List.length_flatMap, send_length]
  rw [← h, map_range_getD b.selectorMtf 0 (fun x => 1 + x)]
  congr 1
  apply List.map_congr_left
  intro a _
  omega

/-! ### tables -/

theorem flatten_replicate_length (n : Nat) (w : Bits) :
    (List.replicate n w).flatten.length = n * w.length := by
  simp [List.length_flatten, List.sum_replicate_nat]

theorem deltaCode_length (a c : Nat) : (deltaCode a c).length = 2 * absDiff a c + 1 := by
  simp only [deltaCode, List.length_append, flatten_replicate_length, send_length, absDiff]
  omega

theorem deltaLoop_length (a : Nat) (cs : List Nat) :
    (deltaLoop a cs).length = 2 * deltaSum (a :: cs) + cs.length := by
  induction cs generalizing a with
  | nil => simp [deltaLoop, deltaSum]
  | cons c cs ih =>
    simp only [deltaLoop, List.length_append, deltaCode_length, ih, deltaSum, List.length_cons]
    omega

theorem tableRow_self (len : List Nat) : tableRow len.length len = len := by
  unfold tableRow
  rw [map_range_getD len 0 (fun x => x)]
  simp

theorem deltaSum_cons_self (a : Nat) (cs : List Nat) :
    deltaSum (a :: a :: cs) = deltaSum (a :: cs) := by
  simp [deltaSum, absDiff]

/-- Bits of one table: its cost, plus `2·tree_pad` for the first table. -/
theorem tableBits_length (b : EncBlock) (t : Nat) (len : List Nat) (a0 : Nat) (rest : List Nat)
    (hl : b.lens.getD t [] = len) (hlen : len = a0 :: rest) (has : len.length = b.alphaSize)
    (ha1 : 1 ≤ a0) (ha20 : a0 ≤ 20) (hp : b.treePad ≤ 3) :
    (tableBits b t).length = tableCost len + (if t = 0 then 2 * b.treePad else 0) := by
  simp only [tableBits, hl, List.length_append, send_length]
  rw [← has, tableRow_self, deltaLoop_length]
  subst hlen
  simp only [List.getD_cons_zero, tableCost, List.length_cons]
  split
  · have hd : deltaSum (paddedStart a0 b.treePad :: a0 :: rest) =
        b.treePad + deltaSum (a0 :: rest) := by
      simp only [deltaSum, absDiff, paddedStart]
      split <;> omega
    rw [hd]; omega
  · rw [deltaSum_cons_self]; omega

/-! ### symbols -/

theorem groupBits_length (b : EncBlock) (gr : Nat) : (groupBits b gr).length = groupCost b gr := by
  simp [groupBits, groupCost, List.length_flatMap, send_length]

/-! ### the whole block -/

theorem sum_ite_zero (n x : Nat) (hn : 1 ≤ n) :
    ((List.range n).map (fun t => if t = 0 then x else 0)).sum = x := by
  obtain ⟨m, rfl⟩ : ∃ m, n = m + 1 := ⟨n - 1, by omega⟩
  rw [List.range_succ_eq_map]
  simp only [List.map_cons, List.map_map, List.sum_cons, if_true]
  have : (List.map ((fun t => if t = 0 then x else 0) ∘ Nat.succ) (List.range m)) =
      List.map (fun _ => 0) (List.range m) := by
    apply List.map_congr_left
    intro a _
    simp
  rw [this, List.map_const', List.sum_replicate_nat]
  simp

theorem selectorMtf_length {b : EncBlock} (h : WF b) : b.selectorMtf.length = b.numSelectors := by
  rw [h.selMtf_eq, h.nsel_eq]
  simp [selectorMtfOf, selLoop_length, h.sel_len]

theorem selector_sum {b : EncBlock} (h : WF b) :
    (b.selectorMtf.map (· + 1)).sum =
      ((b.selectorMtf.take b.ns).map (· + 1)).sum + dummySelectors (costBase b) := by
  have hl : (selectorMtfOf b.selectors).length = b.ns := by
    simp [selectorMtfOf, selLoop_length, h.sel_len]
  generalize hd : dummySelectors (costBase b) = d
  have he := h.selMtf_eq
  rw [hd] at he
  rw [he, List.take_left' hl]
  simp [List.sum_append, List.sum_replicate_nat]

theorem treePad_le {b : EncBlock} (h : WF b) : b.treePad ≤ 3 := by
  rw [h.pad_eq]; exact (Props.C02.pad_mod8 _).2.1

theorem alphaSize_pos (b : EncBlock) : 1 ≤ b.alphaSize := by
  unfold EncBlock.alphaSize; omega

theorem tables_sum {b : EncBlock} (h : WF b) :
    ((List.range b.numTrees).map (fun t => (tableBits b t).length)).sum =
      (b.lens.map tableCost).sum + 2 * b.treePad := by
  have hm : (List.range b.numTrees).map (fun t => (tableBits b t).length) =
      (List.range b.numTrees).map
        (fun t => tableCost (b.lens.getD t []) + (if t = 0 then 2 * b.treePad else 0)) := by
    apply List.map_congr_left
    intro t ht
    have htl : t < b.lens.length := by rw [h.lens_len]; exact List.mem_range.mp ht
    have hg : b.lens.getD t [] = b.lens[t] := by
      simp [List.getD_eq_getElem?_getD, List.getElem?_eq_getElem htl]
    have hmem : b.lens[t] ∈ b.lens := List.getElem_mem htl
    have hok := h.lens_ok _ hmem
    have hpos := alphaSize_pos b
    match hq : b.lens[t] with
    | [] => rw [hq] at hok; simp at hok; omega
    | a0 :: rest =>
      rw [hq] at hok
      have hr := hok.2 a0 (List.mem_cons_self ..)
      simp only [Gen.MIN_CODE_LENGTH, Gen.MAX_CODE_LENGTH] at hr
      rw [hg, hq]
      exact tableBits_length b t (a0 :: rest) a0 rest (by rw [hg, hq]) rfl hok.1 hr.1 hr.2
        (treePad_le h)
  rw [hm, sum_map_add, sum_ite_zero _ _ (by have := h.trees_ge; simp only [Gen.MIN_TREES] at this; omega)]
  rw [← h.lens_len, map_range_getD b.lens [] tableCost]

/-- The number of bits `transmit()` writes is the `cost` `encode()` computed. -/
theorem transmitBits_length {b : EncBlock} (h : WF b) : (transmitBits b).length = cost b := by
  have h1 := headerBits_length b
  have h2 := bitmapBits_length b.cmap
  have h3 := selectorBits_length b (selectorMtf_length h)
  have h4 := selector_sum h
  have h5 := tables_sum h
  have h6 : ((List.range b.ns).map (fun gr => (groupBits b gr).length)).sum =
      ((List.range b.ns).map (groupCost b)).sum := by
    congr 1
    apply List.map_congr_left
    intro gr _
    exact groupBits_length b gr
  have h7 := (Props.C02.pad_mod8 (costBase b)).2.2
  rw [← h.pad_eq] at h7
  simp only [transmitBits, List.length_append, List.length_flatMap, send_length, h1, h2, h3, h4,
    h5, h6]
  unfold cost
  rw [h7]
  unfold costBase gpcCost
  omega

/-- … and that number is a multiple of 8. -/
theorem cost_mod8 (b : EncBlock) : cost b % 8 = 0 := by
  unfold cost
  have h1 := (Props.C02.pad_mod8 (costBase b)).1
  have h2 := (Props.C02.pad_mod8 (costBase b)).2.2
  have h3 := bitmapCost_mod b.cmap
  omega

end LbzVerif.Lemmas.TransmitLen
