/-
  Lemmas.GroupPure — `groupsRef` (decode one symbol, act on it, interleaved;
  `Lemmas/GroupDefs.lean`) is `Spec.Bzip2.decodeGroups` (decode everything
  first) followed by folding `symStep` over the renumbered symbols.
  Everything here is pure (lists of bits, no bit buffer).
-/
import LbzVerif.Lemmas.GroupDefs

namespace LbzVerif.Lemmas.GroupPure
open LbzVerif LbzVerif.Basic LbzVerif.Model.Retrieve LbzVerif.Lemmas.GroupDefs
open LbzVerif.Model.MtfDec (RunSt)
open LbzVerif.Spec.Bzip2 (Reject Code decodeSym decodeGroup decodeGroups mkCode decodeRank)

/-! ## Hypothesis bundles -/

structure TabsOk (tabs : List (List Nat)) (N : Nat) : Prop where
  n1 : 1 ≤ N
  n256 : N ≤ 256
  each : ∀ l ∈ tabs, l.length = N + 2 ∧ ∀ x ∈ l, 1 ≤ x ∧ x ≤ 20

def MOk (M : List Nat) (tabs : List (List Nat)) : Prop := ∀ t ∈ M, t < tabs.length
def JsOk (js M : List Nat) : Prop := ∀ j ∈ js, j < M.length

/-! ## `moveToFront` -/

theorem mtf_some (M : List Nat) (j t : Nat) (M' : List Nat)
    (h : Spec.Bzip2.moveToFront M j = some (t, M')) :
    j < M.length ∧ t ∈ M ∧ M'.length = M.length ∧ ∀ x ∈ M', x ∈ M := by
  unfold Spec.Bzip2.moveToFront at h
  split at h
  · cases h
  · rename_i x hx
    cases h
    have hj : j < M.length := by
      rcases Nat.lt_or_ge j M.length with h | h
      · exact h
      · rw [List.getElem?_eq_none h] at hx; cases hx
    have hmem : t ∈ M := List.mem_of_getElem? hx
    refine ⟨hj, hmem, ?_, ?_⟩
    · simp [List.length_eraseIdx, hj]; omega
    · intro y hy
      rcases List.mem_cons.mp hy with rfl | hy
      · exact hmem
      · exact List.mem_of_mem_eraseIdx hy

theorem mtf_isSome (M : List Nat) (j : Nat) (hj : j < M.length) :
    Spec.Bzip2.moveToFront M j = some (M[j], M[j] :: M.eraseIdx j) := by
  unfold Spec.Bzip2.moveToFront
  rw [List.getElem?_eq_getElem hj]

theorem MOk_step (M : List Nat) (T : List (List Nat)) (j t : Nat) (M' : List Nat)
    (h : Spec.Bzip2.moveToFront M j = some (t, M')) (hM : MOk M T) : t < T.length ∧ MOk M' T := by
  obtain ⟨_, ht, _, hsub⟩ := mtf_some M j t M' h
  exact ⟨hM t ht, fun x hx => hM x (hsub x hx)⟩

theorem JsOk_step (M : List Nat) (j t : Nat) (M' : List Nat) (js : List Nat)
    (h : Spec.Bzip2.moveToFront M j = some (t, M')) (hJ : JsOk (j :: js) M) : JsOk js M' := by
  obtain ⟨_, _, hl, _⟩ := mtf_some M j t M' h
  intro x hx
  rw [hl]
  exact hJ x (List.mem_cons_of_mem _ hx)

/-! ## (T0) selectors -/

theorem unMtfSelectors_eq (M js : List Nat) (acc : Array Nat) :
    Spec.Bzip2.unMtfSelectors M js acc = (unmtfL M js).map (fun ts => acc ++ ts.toArray) := by
  induction js generalizing M acc with
  | nil => simp [Spec.Bzip2.unMtfSelectors, unmtfL]
  | cons j js ih =>
    unfold Spec.Bzip2.unMtfSelectors unmtfL
    cases hm : Spec.Bzip2.moveToFront M j with
    | none => simp
    | some p =>
      obtain ⟨t, M'⟩ := p
      simp only [ih]
      cases unmtfL M' js <;> simp

theorem unmtfL_isSome (M js : List Nat) (h : JsOk js M) :
    ∃ ts, unmtfL M js = some ts ∧ ts.length = js.length := by
  induction js generalizing M with
  | nil => exact ⟨[], rfl, rfl⟩
  | cons j js ih =>
    have hj : j < M.length := h j (List.mem_cons_self ..)
    have hm := mtf_isSome M j hj
    obtain ⟨ts, hts, hl⟩ := ih _ (JsOk_step M j _ _ js hm h)
    refine ⟨M[j] :: ts, ?_, by simp [hl]⟩
    unfold unmtfL
    rw [hm]
    simp only [hts]

theorem unmtfL_append (M a b ts : List Nat) (h : unmtfL M (a ++ b) = some ts) :
    ∃ ta tb, ts = ta ++ tb ∧ unmtfL M a = some ta ∧ ta.length = a.length := by
  induction a generalizing M ts with
  | nil => exact ⟨[], ts, rfl, rfl, rfl⟩
  | cons j a ih =>
    simp only [List.cons_append] at h
    unfold unmtfL at h ⊢
    cases hm : Spec.Bzip2.moveToFront M j with
    | none => rw [hm] at h; cases h
    | some p =>
      obtain ⟨t, M'⟩ := p
      rw [hm] at h
      simp only [] at h ⊢
      cases hu : unmtfL M' (a ++ b) with
      | none => rw [hu] at h; cases h
      | some ts' =>
        rw [hu] at h
        cases h
        obtain ⟨ta, tb, h1, h2, h3⟩ := ih M' ts' hu
        exact ⟨t :: ta, tb, by simp [h1], by simp [h2], by simp [h3]⟩

theorem unmtfL_cons (M : List Nat) (j : Nat) (js ts : List Nat) (t : Nat) (M' : List Nat)
    (hm : Spec.Bzip2.moveToFront M j = some (t, M')) (h : unmtfL M (j :: js) = some ts) :
    ∃ ts', ts = t :: ts' ∧ unmtfL M' js = some ts' := by
  unfold unmtfL at h
  rw [hm] at h
  simp only [] at h
  cases hu : unmtfL M' js with
  | none => rw [hu] at h; cases h
  | some ts' =>
    rw [hu] at h
    cases h
    exact ⟨ts', rfl, rfl⟩

/-! ## (T1) tables -/

theorem codes_get (tabs : List (List Nat)) (t : Nat) (ht : t < tabs.length) :
    ((tabs.map Spec.Bzip2.mkCode).toArray)[t]? = some (Spec.Bzip2.mkCode (tabs.getD t [])) := by
  simp [List.getD_eq_getElem?_getD, List.getElem?_eq_getElem ht]

theorem foldl_kraft (l : List Nat) (a : Nat) :
    l.foldl (fun s x => s + 2 ^ (Spec.Bzip2.maxLen - x)) a = a + (l.map Spec.Prefix.width).sum := by
  induction l generalizing a with
  | nil => simp
  | cons x t ih =>
    simp only [List.foldl_cons, List.map_cons, List.sum_cons]
    rw [ih]
    simp only [Spec.Prefix.width, Spec.Bzip2.maxLen]
    omega

theorem kraftSum_eq (l : List Nat) : Spec.Bzip2.kraftSum l = Spec.Prefix.kraft20 l := by
  unfold Spec.Bzip2.kraftSum Spec.Prefix.kraft20
  rw [foldl_kraft]; omega

theorem complete_iff (l : List Nat) (h : ∀ x ∈ l, 1 ≤ x ∧ x ≤ 20) :
    (Spec.Bzip2.mkCode l).complete = true ↔ Spec.Prefix.Complete l := by
  simp only [Spec.Bzip2.mkCode, Spec.Bzip2.kraftComplete, kraftSum_eq, Spec.Prefix.Complete,
    Spec.Bzip2.maxLen, beq_iff_eq]
  exact ⟨fun hk => ⟨hk, h⟩, fun hc => hc.1⟩

/-! ## (T1b) position independence -/

/-- add `pos` to the position component of a result -/
def shiftPos (pos : Nat) : Except Reject (Nat × Nat × Bits) → Except Reject (Nat × Nat × Bits)
  | .ok (s, p, r) => .ok (s, pos + p, r)
  | .error e => .error e

theorem decodeRank_pos (counts : List Nat) (code first index pos q : Nat) (bits : Bits) :
    decodeRank counts code first index (pos + q) bits =
      shiftPos pos (decodeRank counts code first index q bits) := by
  induction counts generalizing code first index q bits with
  | nil => simp [decodeRank, shiftPos]
  | cons c cs ih =>
    cases bits with
    | nil => simp [decodeRank, shiftPos]
    | cons b bs =>
      simp only [decodeRank]
      split
      · simp [shiftPos, Nat.add_assoc]
      · rw [Nat.add_assoc, ih]

theorem decodeSym_pos (c : Code) (pos : Nat) (bits : Bits) :
    Spec.Bzip2.decodeSym c pos bits =
      match Spec.Bzip2.decodeSym c 0 bits with
      | .ok (s, p, r) => .ok (s, pos + p, r)
      | .error e => .error e := by
  unfold Spec.Bzip2.decodeSym
  have h := decodeRank_pos c.counts 0 0 0 pos 0 bits
  rw [Nat.add_zero] at h
  rw [h]
  cases decodeRank c.counts 0 0 0 0 bits with
  | error e => rfl
  | ok x =>
    obtain ⟨r, p, rest⟩ := x
    simp only [shiftPos]
    cases c.perm[r]? <;> rfl

theorem decodeSym_pos_ok (c : Code) (pos : Nat) (bits : Bits) (s p : Nat) (r : Bits)
    (h : decodeSym c 0 bits = .ok (s, p, r)) : decodeSym c pos bits = .ok (s, pos + p, r) := by
  rw [decodeSym_pos, h]

theorem decodeSym_pos_err (c : Code) (pos : Nat) (bits : Bits) (e : Reject)
    (h : decodeSym c 0 bits = .error e) : decodeSym c pos bits = .error e := by
  rw [decodeSym_pos, h]

theorem decodeSym_lt (l : List Nat) (pos : Nat) (bits : Bits) (s p : Nat) (r : Bits)
    (h : Spec.Bzip2.decodeSym (mkCode l) pos bits = .ok (s, p, r)) : s < l.length := by
  unfold Spec.Bzip2.decodeSym at h
  split at h
  · cases h
  · rename_i rk p1 b1 _
    split at h
    · cases h
    · rename_i s' hs
      cases h
      have hmem : s ∈ (mkCode l).perm.toList := by
        have := Array.mem_of_getElem? hs
        exact Array.mem_toList_iff.mpr this
      simp only [Spec.Bzip2.mkCode, List.mem_flatMap, List.mem_filter, List.mem_range] at hmem
      obtain ⟨_, _, hlt, _⟩ := hmem
      exact hlt

/-! ## (T1c) `renumber`, `symStep` -/

theorem renumber_eq_zero (N s : Nat) (hN : 1 ≤ N) (hs : s < N + 2) :
    Model.Canon.renumber (N + 2) s = 0 ↔ s = N + 1 := by
  unfold Model.Canon.renumber
  split
  · omega
  · split
    · omega
    · split <;> omega

theorem symStep_eob (rs : RunSt) (x : Nat) : symStep rs x = .eob ↔ x = 0 := by
  unfold symStep
  constructor
  · intro h
    split at h
    · assumption
    · split at h
      · split at h <;> cases h
      · split at h
        · cases h
        · simp only [] at h
          split at h <;> cases h
  · intro h
    rw [if_pos h]

/-! ## `symFold` -/

theorem symFold_cons (rs rs' : RunSt) (x : Nat) (xs : List Nat)
    (h : symFold rs (x :: xs) = some rs') :
    ∃ rs1, symStep rs x = .cont rs1 ∧ symFold rs1 xs = some rs' := by
  unfold symFold at h
  cases hs : symStep rs x with
  | eob => rw [hs] at h; cases h
  | stop r => rw [hs] at h; cases h
  | cont rs1 => rw [hs] at h; exact ⟨rs1, rfl, h⟩

theorem symFold_append (rs rs' : RunSt) (a b : List Nat) :
    symFold rs (a ++ b) = some rs' ↔ ∃ rs1, symFold rs a = some rs1 ∧ symFold rs1 b = some rs' := by
  induction a generalizing rs with
  | nil => simp [symFold]
  | cons x a ih =>
    simp only [List.cons_append, symFold]
    cases symStep rs x with
    | eob => simp
    | stop r => simp
    | cont rs1 => exact ih rs1

/-! ## One group -/

/-- From `decodeGroup` to `groupRef`. -/
theorem group_fwd (lens : List Nat) (N : Nat) (hlen : lens.length = N + 2) (hN : 1 ≤ N) :
    ∀ (k pos : Nat) (B : Bits) (acc : Array Nat) (flag : Bool) (pos' : Nat) (B' : Bits)
      (acc' : Array Nat),
      decodeGroup (mkCode lens) (N + 1) k pos B acc = .ok (flag, pos', B', acc') →
      ∃ ss : List Nat, acc' = acc ++ ss.toArray ∧ (∀ s ∈ ss, s < N + 1) ∧
        (flag = false → ss.length = k) ∧
        ∀ rs rs', symFold rs (ss.map (Model.Canon.renumber (N + 2))) = some rs' →
          groupRef lens k rs B = if flag then .eob rs' B' else .top rs' B' := by
  intro k
  induction k with
  | zero =>
    intro pos B acc flag pos' B' acc' h
    unfold decodeGroup at h
    cases h
    refine ⟨[], by simp, by simp, by simp, ?_⟩
    intro rs rs' hf
    simp only [List.map_nil, symFold] at hf
    cases hf
    simp [groupRef]
  | succ k ih =>
    intro pos B acc flag pos' B' acc' h
    unfold decodeGroup at h
    cases hd : decodeSym (mkCode lens) 0 B with
    | error e => rw [decodeSym_pos_err _ _ _ _ hd] at h; cases h
    | ok x =>
      obtain ⟨s, p, B1⟩ := x
      rw [decodeSym_pos_ok _ _ _ _ _ _ hd] at h
      simp only [] at h
      have hs : s < N + 2 := hlen ▸ decodeSym_lt lens 0 B s p B1 hd
      by_cases he : s = N + 1
      · subst he
        have hbeq : (N + 1 == N + 1) = true := by simp
        rw [hbeq] at h
        simp only [if_true] at h
        cases h
        refine ⟨[], by simp, by simp, by simp, ?_⟩
        intro rs rs' hf
        simp only [List.map_nil, symFold] at hf
        cases hf
        unfold groupRef
        rw [hd]
        simp only [hlen]
        have : symStep rs (Model.Canon.renumber (N + 2) (N + 1)) = .eob :=
          (symStep_eob _ _).mpr ((renumber_eq_zero N (N + 1) hN (by omega)).mpr rfl)
        rw [this]
        simp
      · have hbeq : (s == N + 1) = false := by simp [he]
        rw [hbeq] at h
        simp only [Bool.false_eq_true, if_false] at h
        obtain ⟨ss, h1, h2, h3, h4⟩ := ih _ _ _ _ _ _ _ h
        refine ⟨s :: ss, by simp [h1], ?_, ?_, ?_⟩
        · intro y hy
          rcases List.mem_cons.mp hy with rfl | hy
          · omega
          · exact h2 y hy
        · intro hfl; simp [h3 hfl]
        · intro rs rs' hf
          simp only [List.map_cons] at hf
          obtain ⟨rs1, hst, hf1⟩ := symFold_cons _ _ _ _ hf
          unfold groupRef
          rw [hd]
          simp only [hlen, hst]
          exact h4 rs1 rs' hf1

/-- From `groupRef` to `decodeGroup`. -/
theorem group_bwd (lens : List Nat) (N : Nat) (hlen : lens.length = N + 2) (hN : 1 ≤ N) :
    ∀ (k : Nat) (rs : RunSt) (B : Bits) (flag : Bool) (rs' : RunSt) (B' : Bits),
      groupRef lens k rs B = (if flag then GOut.eob rs' B' else GOut.top rs' B') →
      ∃ ss : List Nat, (∀ s ∈ ss, s < N + 1) ∧ (flag = false → ss.length = k) ∧
        ss.length ≤ k ∧
        symFold rs (ss.map (Model.Canon.renumber (N + 2))) = some rs' ∧
        ∀ (pos : Nat) (acc : Array Nat), ∃ pos',
          decodeGroup (mkCode lens) (N + 1) k pos B acc = .ok (flag, pos', B', acc ++ ss.toArray) := by
  intro k
  induction k with
  | zero =>
    intro rs B flag rs' B' h
    unfold groupRef at h
    cases flag with
    | true => simp at h
    | false =>
      simp at h
      obtain ⟨rfl, rfl⟩ := h
      refine ⟨[], by simp, by simp, by simp, by simp [symFold], ?_⟩
      intro pos acc
      exact ⟨pos, by simp [decodeGroup]⟩
  | succ k ih =>
    intro rs B flag rs' B' h
    unfold groupRef at h
    cases hd : decodeSym (mkCode lens) 0 B with
    | error e => rw [hd] at h; cases flag <;> simp at h
    | ok x =>
      obtain ⟨s, p, B1⟩ := x
      rw [hd] at h
      simp only [hlen] at h
      have hs : s < N + 2 := hlen ▸ decodeSym_lt lens 0 B s p B1 hd
      cases hst : symStep rs (Model.Canon.renumber (N + 2) s) with
      | stop r => rw [hst] at h; cases flag <;> simp at h
      | eob =>
        rw [hst] at h
        have he : s = N + 1 := (renumber_eq_zero N s hN hs).mp ((symStep_eob _ _).mp hst)
        cases flag with
        | false => simp at h
        | true =>
          simp at h
          obtain ⟨rfl, rfl⟩ := h
          refine ⟨[], by simp, by simp, by simp, by simp [symFold], ?_⟩
          intro pos acc
          refine ⟨pos + p, ?_⟩
          unfold decodeGroup
          rw [decodeSym_pos_ok _ _ _ _ _ _ hd]
          simp [he]
      | cont rs1 =>
        rw [hst] at h
        simp only [] at h
        have hne : s ≠ N + 1 := by
          intro he
          have h0 := (renumber_eq_zero N s hN hs).mpr he
          have := (symStep_eob rs _).mpr h0
          rw [this] at hst; cases hst
        obtain ⟨ss, h1, h2, h2', h3, h4⟩ := ih _ _ _ _ _ h
        refine ⟨s :: ss, ?_, ?_, by simp; omega, ?_, ?_⟩
        · intro y hy
          rcases List.mem_cons.mp hy with rfl | hy
          · omega
          · exact h1 y hy
        · intro hfl; simp [h2 hfl]
        · simp only [List.map_cons]
          unfold symFold
          rw [hst]
          exact h3
        · intro pos acc
          obtain ⟨pos', hp⟩ := h4 (pos + p) (acc.push s)
          refine ⟨pos', ?_⟩
          unfold decodeGroup
          rw [decodeSym_pos_ok _ _ _ _ _ _ hd]
          have hbeq : (s == N + 1) = false := by simp [hne]
          simp only [hbeq, Bool.false_eq_true, if_false, hp]
          simp

/-! ## The group loop -/

theorem hgs : Spec.Bzip2.groupSize = Gen.GROUP_SIZE := rfl

theorem tab_ok (tabs : List (List Nat)) (N : Nat) (hT : TabsOk tabs N) (t : Nat)
    (ht : t < tabs.length) :
    (tabs.getD t []).length = N + 2 ∧ ∀ x ∈ tabs.getD t [], 1 ≤ x ∧ x ≤ 20 := by
  have : tabs.getD t [] = tabs[t] := by
    simp [List.getD_eq_getElem?_getD, List.getElem?_eq_getElem ht]
  rw [this]
  exact hT.each _ (List.getElem_mem ht)

/-- (T2) soundness: what `groupsRef` accepts, `decodeGroups` + `symFold` accept. -/
theorem groupsRef_sound (tabs : List (List Nat)) (N : Nat) (hT : TabsOk tabs N) :
    ∀ (js M : List Nat) (rs : RunSt) (B : List Bool) (rs' : RunSt) (B' : List Bool),
      MOk M tabs → JsOk js M → groupsRef tabs js M rs B = .ok rs' B' →
      ∃ (syms : List Nat) (n : Nat), 1 ≤ n ∧ n ≤ js.length ∧ (∀ s ∈ syms, s < N + 1) ∧
        symFold rs (syms.map (Model.Canon.renumber (N + 2))) = some rs' ∧
        ∀ (extra ts : List Nat), unmtfL M (js ++ extra) = some ts →
          ∀ (nU pos : Nat) (acc : Array Nat), ∃ pos',
            Spec.Bzip2.decodeGroups ((tabs.map Spec.Bzip2.mkCode).toArray) (N + 1) ts nU pos B acc =
              .ok (nU + n, pos', B', acc ++ syms.toArray) := by
  intro js
  induction js with
  | nil =>
    intro M rs B rs' B' _ _ h
    unfold groupsRef at h
    cases h
  | cons j js ih =>
    intro M rs B rs' B' hM hJ h
    unfold groupsRef at h
    cases hm : Spec.Bzip2.moveToFront M j with
    | none => rw [hm] at h; cases h
    | some p =>
      obtain ⟨t, M'⟩ := p
      rw [hm] at h
      simp only [] at h
      obtain ⟨ht, hM'⟩ := MOk_step M tabs j t M' hm hM
      have hJ' := JsOk_step M j t M' js hm hJ
      obtain ⟨hlen, hrange⟩ := tab_ok tabs N hT t ht
      by_cases hC : Spec.Prefix.Complete (tabs.getD t [])
      · rw [if_pos hC] at h
        have hcomp := (complete_iff _ hrange).mpr hC
        -- the first step of `decodeGroups`, common to both cases
        have hstep : ∀ (ts' : List Nat) (nU pos : Nat) (acc : Array Nat),
            decodeGroups ((tabs.map mkCode).toArray) (N + 1) (t :: ts') nU pos B acc =
              match decodeGroup (mkCode (tabs.getD t [])) (N + 1) Gen.GROUP_SIZE pos B acc with
              | .error e => .error e
              | .ok (true, pos, bits, acc) => .ok (nU + 1, pos, bits, acc)
              | .ok (false, pos, bits, acc) =>
                decodeGroups ((tabs.map mkCode).toArray) (N + 1) ts' (nU + 1) pos bits acc := by
          intro ts' nU pos acc
          rw [decodeGroups, codes_get tabs t ht]
          simp only [hcomp, Bool.not_true, Bool.false_eq_true, if_false, hgs]
          rfl
        cases hg : groupRef (tabs.getD t []) Gen.GROUP_SIZE rs B with
        | stop r => rw [hg] at h; cases h
        | trunc => rw [hg] at h; cases h
        | eob rs1 B1 =>
          rw [hg] at h
          simp only [] at h
          cases h
          obtain ⟨ss, h1, _, _, h3, h4⟩ :=
            group_bwd _ N hlen hT.n1 Gen.GROUP_SIZE rs B true rs' B' (by rw [hg]; rfl)
          refine ⟨ss, 1, Nat.le_refl 1, by simp, h1, h3, ?_⟩
          intro extra ts hts nU pos acc
          obtain ⟨ts', rfl, _⟩ := unmtfL_cons M j (js ++ extra) ts t M' hm hts
          obtain ⟨pos', hp⟩ := h4 pos acc
          exact ⟨pos', by rw [hstep, hp]⟩
        | top rs1 B1 =>
          rw [hg] at h
          simp only [] at h
          obtain ⟨ss, h1, _, _, h3, h4⟩ :=
            group_bwd _ N hlen hT.n1 Gen.GROUP_SIZE rs B false rs1 B1 (by rw [hg]; rfl)
          obtain ⟨syms2, n2, hn1, hn2, hlt2, hf2, hrest⟩ := ih M' rs1 B1 rs' B' hM' hJ' h
          refine ⟨ss ++ syms2, 1 + n2, by omega, by simp; omega, ?_, ?_, ?_⟩
          · intro y hy
            rcases List.mem_append.mp hy with hy | hy
            · exact h1 y hy
            · exact hlt2 y hy
          · rw [List.map_append, symFold_append]
            exact ⟨rs1, h3, hf2⟩
          · intro extra ts hts nU pos acc
            obtain ⟨ts', rfl, hts'⟩ := unmtfL_cons M j (js ++ extra) ts t M' hm hts
            obtain ⟨pos1, hp⟩ := h4 pos acc
            obtain ⟨pos', hp'⟩ := hrest extra ts' hts' (nU + 1) pos1 (acc ++ ss.toArray)
            refine ⟨pos', ?_⟩
            rw [hstep, hp]
            simp only []
            rw [hp']
            simp [Nat.add_assoc]
      · rw [if_neg hC] at h; cases h

/-- (T3), stated with the run state quantified where it is used (this is the
form the induction needs; `groupsRef_complete` below is the requested form). -/
theorem groupsRef_complete' (tabs : List (List Nat)) (N : Nat) (hT : TabsOk tabs N) :
    ∀ (js M : List Nat) (B : List Bool), MOk M tabs → JsOk js M →
      ∀ (ts : List Nat), unmtfL M js = some ts →
      ∀ (nU pos : Nat) (acc : Array Nat) (n pos' : Nat) (B' : List Bool) (acc' : Array Nat),
        Spec.Bzip2.decodeGroups ((tabs.map Spec.Bzip2.mkCode).toArray) (N + 1) ts nU pos B acc =
          .ok (n, pos', B', acc') →
        ∃ (syms : List Nat), acc' = acc ++ syms.toArray ∧ (∀ s ∈ syms, s < N + 1) ∧
          nU < n ∧ n ≤ nU + js.length ∧ Gen.GROUP_SIZE * (n - nU - 1) ≤ syms.length ∧
          ∀ rs rs', symFold rs (syms.map (Model.Canon.renumber (N + 2))) = some rs' →
            ∀ js1 js2, js = js1 ++ js2 → n - nU ≤ js1.length →
              groupsRef tabs js1 M rs B = .ok rs' B' := by
  intro js
  induction js with
  | nil =>
    intro M B _ _ ts hts nU pos acc n pos' B' acc' h
    unfold unmtfL at hts
    cases hts
    unfold decodeGroups at h
    cases h
  | cons j js ih =>
    intro M B hM hJ ts hts nU pos acc n pos' B' acc' h
    have hj : j < M.length := hJ j (List.mem_cons_self ..)
    have hm := mtf_isSome M j hj
    generalize M[j] = t at hm
    generalize hM'def : t :: M.eraseIdx j = M' at hm
    obtain ⟨ts', rfl, hts'⟩ := unmtfL_cons M j js ts t M' hm hts
    obtain ⟨ht, hM'⟩ := MOk_step M tabs j t M' hm hM
    have hJ' := JsOk_step M j t M' js hm hJ
    obtain ⟨hlen, hrange⟩ := tab_ok tabs N hT t ht
    rw [decodeGroups, codes_get tabs t ht] at h
    simp only [] at h
    cases hcomp : (mkCode (tabs.getD t [])).complete with
    | false => rw [hcomp] at h; simp at h
    | true =>
      have hC := (complete_iff _ hrange).mp hcomp
      rw [hcomp] at h
      simp only [Bool.not_true, Bool.false_eq_true, if_false, hgs] at h
      cases hdg : decodeGroup (mkCode (tabs.getD t [])) (N + 1) Gen.GROUP_SIZE pos B acc with
      | error e => rw [hdg] at h; cases h
      | ok x =>
        obtain ⟨flag, p1, B1, acc1⟩ := x
        rw [hdg] at h
        obtain ⟨ss, h1, h2, h3, h4⟩ := group_fwd _ N hlen hT.n1 _ _ _ _ _ _ _ _ hdg
        cases flag with
        | true =>
          simp only [] at h
          cases h
          refine ⟨ss, h1, h2, by omega, by simp, by simp, ?_⟩
          intro rs rs' hf js1 js2 hjs hn
          have hg := h4 rs rs' hf
          simp only [if_true] at hg
          cases js1 with
          | nil => simp at hn
          | cons j1 js1 =>
            simp only [List.cons_append, List.cons.injEq] at hjs
            obtain ⟨rfl, _⟩ := hjs
            unfold groupsRef
            rw [hm]
            simp only [if_pos hC, hg]
        | false =>
          simp only [] at h
          have hss := h3 rfl
          obtain ⟨syms2, g1, g2, g3, g4, g5, g6⟩ := ih M' B1 hM' hJ' ts' hts' _ _ _ _ _ _ _ h
          refine ⟨ss ++ syms2, ?_, ?_, by omega, by simp; omega, ?_, ?_⟩
          · rw [g1, h1]; simp
          · intro y hy
            rcases List.mem_append.mp hy with hy | hy
            · exact h2 y hy
            · exact g2 y hy
          · simp only [List.length_append, hss]
            have : Gen.GROUP_SIZE = 50 := rfl
            rw [this] at g5 ⊢
            omega
          · intro rs rs' hf js1 js2 hjs hn
            rw [List.map_append, symFold_append] at hf
            obtain ⟨rs1, hf1, hf2⟩ := hf
            have hg := h4 rs rs1 hf1
            simp only [Bool.false_eq_true, if_false] at hg
            cases js1 with
            | nil => simp at hn; omega
            | cons j1 js1 =>
              simp only [List.cons_append, List.cons.injEq] at hjs
              obtain ⟨rfl, hjs'⟩ := hjs
              unfold groupsRef
              rw [hm]
              simp only [if_pos hC, hg]
              exact g6 rs1 rs' hf2 js1 js2 hjs' (by simp at hn; omega)

/-- (T3) completeness: what `decodeGroups` + `symFold` accept, `groupsRef`
accepts, on every prefix of the selector list that is long enough. -/
theorem groupsRef_complete (tabs : List (List Nat)) (N : Nat) (hT : TabsOk tabs N) :
    ∀ (js M : List Nat) (rs : RunSt) (B : List Bool), MOk M tabs → JsOk js M →
      ∀ (ts : List Nat), unmtfL M js = some ts →
      ∀ (nU pos : Nat) (acc : Array Nat) (n pos' : Nat) (B' : List Bool) (acc' : Array Nat),
        Spec.Bzip2.decodeGroups ((tabs.map Spec.Bzip2.mkCode).toArray) (N + 1) ts nU pos B acc =
          .ok (n, pos', B', acc') →
        ∃ (syms : List Nat), acc' = acc ++ syms.toArray ∧ (∀ s ∈ syms, s < N + 1) ∧
          nU < n ∧ n ≤ nU + js.length ∧ Gen.GROUP_SIZE * (n - nU - 1) ≤ syms.length ∧
          ∀ rs', symFold rs (syms.map (Model.Canon.renumber (N + 2))) = some rs' →
            ∀ js1 js2, js = js1 ++ js2 → n - nU ≤ js1.length →
              groupsRef tabs js1 M rs B = .ok rs' B' := by
  intro js M rs B hM hJ ts hts nU pos acc n pos' B' acc' h
  obtain ⟨syms, h1, h2, h3, h4, h5, h6⟩ :=
    groupsRef_complete' tabs N hT js M B hM hJ ts hts nU pos acc n pos' B' acc' h
  exact ⟨syms, h1, h2, h3, h4, h5, fun rs' hf => h6 rs rs' hf⟩

/-! ## The hypotheses are satisfiable -/

example : TabsOk [[1, 2, 2], [2, 1, 2]] 1 := ⟨by decide, by decide, by decide⟩
example : MOk [0, 1] [[1, 2, 2], [2, 1, 2]] := by unfold MOk; decide
example : JsOk [1, 1, 0] [0, 1] := by unfold JsOk; decide
example : unmtfL [0, 1] [1, 1, 0] = some [1, 0, 0] := by decide
example : (Spec.Bzip2.mkCode [1, 2, 2]).complete = true ∧ Spec.Prefix.Complete [1, 2, 2] :=
  ⟨by decide, by decide⟩

end LbzVerif.Lemmas.GroupPure
