/-
  LbzVerif.Lemmas.CrcFlipBits — flipping one bit of a bit list / byte string, and what a
  single flipped bit does to a fixed-width field read with `takeNat`.
-/
import LbzVerif.Basic.Bits
import LbzVerif.Lemmas.SpecBasic
import LbzVerif.Lemmas.TransmitBits
import LbzVerif.Lemmas.ExpandLocal

namespace LbzVerif.Lemmas.CrcFlipBits
open LbzVerif LbzVerif.Basic
open LbzVerif.Lemmas.TransmitBits LbzVerif.Lemmas.ExpandLocal

/-- flip the bit at index `i` of a bit list; identity if `i` is out of range -/
def flipAt : List Bool → Nat → List Bool
  | [], _ => []
  | b :: l, 0 => (!b) :: l
  | b :: l, i + 1 => b :: flipAt l i

/-- flip bit `pos` of a byte string (bit 0 = most significant bit of the first byte, the order of
    `bytesToBits`); identity if out of range -/
def flipBit : List UInt8 → Nat → List UInt8
  | [], _ => []
  | b :: l, p => if p < 8 then (b ^^^ UInt8.ofNat (2 ^ (7 - p))) :: l else b :: flipBit l (p - 8)

theorem flipAt_length (l : List Bool) (i : Nat) : (flipAt l i).length = l.length := by
  induction l generalizing i with
  | nil => rfl
  | cons b l ih =>
    cases i with
    | zero => rfl
    | succ i => simp only [flipAt, List.length_cons, ih]

theorem flipBit_length (x : List UInt8) (p : Nat) : (flipBit x p).length = x.length := by
  induction x generalizing p with
  | nil => rfl
  | cons b l ih =>
    simp only [flipBit]
    split
    · rfl
    · simp only [List.length_cons, ih]

theorem flipAt_of_le (l : List Bool) (i : Nat) (h : l.length ≤ i) : flipAt l i = l := by
  induction l generalizing i with
  | nil => rfl
  | cons b l ih =>
    cases i with
    | zero => simp at h
    | succ i =>
      simp only [flipAt]
      rw [ih i (by simpa using h)]

theorem flipAt_ne (l : List Bool) (i : Nat) (h : i < l.length) : flipAt l i ≠ l := by
  induction l generalizing i with
  | nil => simp at h
  | cons b l ih =>
    cases i with
    | zero =>
      simp only [flipAt]
      intro e
      cases b <;> simp at e
    | succ i =>
      simp only [flipAt]
      intro e
      exact ih i (by simpa using h) (List.cons.inj e).2

theorem flipAt_flipAt (l : List Bool) (i : Nat) : flipAt (flipAt l i) i = l := by
  induction l generalizing i with
  | nil => rfl
  | cons b l ih =>
    cases i with
    | zero => simp only [flipAt, Bool.not_not]
    | succ i => simp only [flipAt, ih]

theorem flipAt_append_right (C R : List Bool) (j : Nat) :
    flipAt (C ++ R) (C.length + j) = C ++ flipAt R j := by
  induction C with
  | nil => simp
  | cons c C ih =>
    have : (c :: C).length + j = (C.length + j) + 1 := by simp only [List.length_cons]; omega
    rw [this]
    simp only [List.cons_append, flipAt, ih]

theorem flipAt_append_left (C R : List Bool) (i : Nat) (h : i < C.length) :
    flipAt (C ++ R) i = flipAt C i ++ R := by
  induction C generalizing i with
  | nil => simp at h
  | cons c C ih =>
    cases i with
    | zero => simp only [List.cons_append, flipAt]
    | succ i =>
      simp only [List.cons_append, flipAt]
      rw [ih i (by simpa using h)]

theorem flipAt_drop (l : List Bool) (n j : Nat) :
    (flipAt l (n + j)).drop n = flipAt (l.drop n) j := by
  induction n generalizing l with
  | zero => simp
  | succ n ih =>
    cases l with
    | nil => simp [flipAt]
    | cons b l =>
      have : n + 1 + j = (n + j) + 1 := by omega
      rw [this]
      simp only [flipAt, List.drop_succ_cons]
      exact ih l

theorem flipAt_take (l : List Bool) (n j : Nat) : (flipAt l (n + j)).take n = l.take n := by
  induction n generalizing l with
  | zero => simp
  | succ n ih =>
    cases l with
    | nil => simp [flipAt]
    | cons b l =>
      have : n + 1 + j = (n + j) + 1 := by omega
      rw [this]
      simp only [flipAt, List.take_succ_cons]
      rw [ih l]

/-! ### bytes -/

theorem byteBits_flip :
    ∀ n, n < 256 → ∀ p, p < 8 →
      (let m := n ^^^ (2 ^ (7 - p));
       [m.testBit 7, m.testBit 6, m.testBit 5, m.testBit 4,
        m.testBit 3, m.testBit 2, m.testBit 1, m.testBit 0]) =
      flipAt [n.testBit 7, n.testBit 6, n.testBit 5, n.testBit 4,
              n.testBit 3, n.testBit 2, n.testBit 1, n.testBit 0] p := by
  decide +kernel

theorem byteToBits_flip (b : UInt8) (p : Nat) (hp : p < 8) :
    byteToBits (b ^^^ UInt8.ofNat (2 ^ (7 - p))) = flipAt (byteToBits b) p := by
  have h := byteBits_flip b.toNat b.toNat_lt p hp
  have e : (b ^^^ UInt8.ofNat (2 ^ (7 - p))).toNat = b.toNat ^^^ (2 ^ (7 - p)) := by
    rw [UInt8.toNat_xor, UInt8.toNat_ofNat']
    congr 1
    apply Nat.mod_eq_of_lt
    have : 2 ^ (7 - p) ≤ 2 ^ 7 := Nat.pow_le_pow_right (by omega) (by omega)
    omega
  unfold byteToBits
  simp only [e]
  exact h

/-- the byte-level flip is the bit-level flip -/
theorem bytesToBits_flipBit (x : List UInt8) (p : Nat) :
    bytesToBits (flipBit x p) = flipAt (bytesToBits x) p := by
  induction x generalizing p with
  | nil => simp only [flipBit, bytesToBits_nil, flipAt]
  | cons b l ih =>
    simp only [flipBit]
    split
    · rename_i hp
      rw [bytesToBits_cons, bytesToBits_cons, byteToBits_flip b p hp,
        flipAt_append_left _ _ _ (by rw [byteToBits_length]; exact hp)]
    · rename_i hp
      rw [bytesToBits_cons, bytesToBits_cons, ih]
      have : p = (byteToBits b).length + (p - 8) := by rw [byteToBits_length]; omega
      conv => rhs; rw [this]
      rw [flipAt_append_right]

theorem flipBit_flipBit (x : List UInt8) (p : Nat) : flipBit (flipBit x p) p = x := by
  apply bytesToBits_injective
  rw [bytesToBits_flipBit, bytesToBits_flipBit, flipAt_flipAt]

/-! ### fields -/

theorem bitsToNat_inj (a b : List Bool) (h : a.length = b.length)
    (e : bitsToNat a = bitsToNat b) : a = b := by
  rw [← natToBits_bitsToNat a, ← natToBits_bitsToNat b, h, e]

/-- flipping a bit inside an n-bit field changes its value and nothing else -/
theorem takeNat_flip (n : Nat) (bits : Bits) (v : Nat) (rest : Bits)
    (h : takeNat n bits = some (v, rest)) (k : Nat) (hk : k < n) :
    ∃ v', takeNat n (flipAt bits k) = some (v', rest) ∧ v' ≠ v := by
  obtain ⟨C, e, hC, hY⟩ := takeNat_local n bits v rest h
  subst e
  have hv : v = bitsToNat C := by
    have h1 := takeNat_append C rest
    rw [hC, h] at h1
    exact (Prod.mk.inj (Option.some.inj h1)).1
  refine ⟨bitsToNat (flipAt C k), ?_, ?_⟩
  · rw [flipAt_append_left C rest k (by omega)]
    have h1 := takeNat_append (flipAt C k) rest
    rw [flipAt_length, hC] at h1
    exact h1
  · intro e2
    rw [hv] at e2
    exact flipAt_ne C k (by omega) (bitsToNat_inj _ _ (flipAt_length C k) e2)

/-- flipping a bit behind an n-bit field leaves the field alone -/
theorem takeNat_flip_after (n : Nat) (bits : Bits) (v : Nat) (rest : Bits)
    (h : takeNat n bits = some (v, rest)) (j : Nat) :
    takeNat n (flipAt bits (n + j)) = some (v, flipAt rest j) := by
  obtain ⟨C, e, hC, hY⟩ := takeNat_local n bits v rest h
  subst e
  rw [← hC, flipAt_append_right, hC]
  exact hY _

end LbzVerif.Lemmas.CrcFlipBits
