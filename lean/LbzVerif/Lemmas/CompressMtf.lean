/-
  Lemmas.CompressMtf — facts about the alphabet (`usedOf`) and the MTF symbol
  stream (`mtfvOf`) of `Model.Compress.encodeBlock`: the used bytes are the
  bytes of the block in increasing order; the reference MTF/zero-run encoder
  emits at most one symbol per byte plus EOB, every symbol before EOB is below
  EOB, and EOB is last.
-/
import LbzVerif.Model.Compress
import LbzVerif.Lemmas.MtfSpec
import LbzVerif.Lemmas.MtfEnc

namespace LbzVerif.Lemmas.CompressMtf
open LbzVerif LbzVerif.Model.Compress LbzVerif.Model.Transmit LbzVerif.Spec.Mtf

/-! ### `cmapOf`, `usedOf` -/

theorem cmapOf_length (rb : List UInt8) : (cmapOf rb).length = 256 := by
  simp [cmapOf]

theorem cmapOf_getD (rb : List UInt8) (v : Nat) (hv : v < 256) :
    (cmapOf rb).getD v false = rb.contains (UInt8.ofNat v) := by
  simp [cmapOf, List.getD_eq_getElem?_getD, List.getElem?_map, List.getElem?_range hv]

theorem usedOf_eq (rb : List UInt8) :
    usedOf rb = (List.range 256).filterMap
      (fun v => if rb.contains (UInt8.ofNat v) then some (UInt8.ofNat v) else none) := by
  unfold usedOf usedBytes
  have key : ∀ l : List Nat, (∀ v ∈ l, v < 256) →
      l.filterMap (fun v => if (cmapOf rb).getD v false then some (UInt8.ofNat v) else none) =
      l.filterMap (fun v => if rb.contains (UInt8.ofNat v) then some (UInt8.ofNat v) else none) := by
    intro l
    induction l with
    | nil => intro _; rfl
    | cons a t ih =>
      intro h
      simp only [List.filterMap_cons, cmapOf_getD rb a (h a (List.mem_cons_self ..))]
      rw [ih (fun v hv => h v (List.mem_cons_of_mem _ hv))]
  exact key _ (fun v hv => List.mem_range.mp hv)

theorem mem_usedOf (rb : List UInt8) (x : UInt8) : x ∈ usedOf rb ↔ x ∈ rb := by
  rw [usedOf_eq, List.mem_filterMap]
  constructor
  · rintro ⟨v, _, hv⟩
    split at hv
    · rename_i h
      cases hv
      simpa using h
    · cases hv
  · intro hx
    refine ⟨x.toNat, List.mem_range.mpr x.toNat_lt, ?_⟩
    have : UInt8.ofNat x.toNat = x := by simp
    rw [this]
    simp [hx]

/-- `filterMap` of a strictly increasing optional map over `range` is sorted. -/
theorem pairwise_filterMap_range (n : Nat) (f : Nat → Option UInt8)
    (hf : ∀ i j a b, i < j → j < n → f i = some a → f j = some b → a < b) :
    ((List.range n).filterMap f).Pairwise (· < ·) := by
  rw [List.pairwise_filterMap]
  have hr : (List.range n).Pairwise (· < ·) := List.pairwise_lt_range
  have hmem : ∀ i ∈ List.range n, i < n := fun i hi => List.mem_range.mp hi
  refine List.Pairwise.imp_of_mem ?_ hr
  intro i j _ hj hij a ha b hb
  exact hf i j a b hij (hmem j hj) ha hb

theorem usedOf_sorted (rb : List UInt8) : (usedOf rb).Pairwise (· < ·) := by
  rw [usedOf_eq]
  apply pairwise_filterMap_range
  intro i j a b hij hj hi' hj'
  split at hi'
  · split at hj'
    · cases hi'; cases hj'
      rw [UInt8.lt_iff_toNat_lt]
      simp only [UInt8.toNat_ofNat']
      rw [Nat.mod_eq_of_lt (by omega), Nat.mod_eq_of_lt hj]
      exact hij
    · cases hj'
  · cases hi'

theorem usedOf_ne (rb : List UInt8) (h : rb ≠ []) : usedOf rb ≠ [] := by
  cases rb with
  | nil => exact absurd rfl h
  | cons a t =>
    intro he
    have : a ∈ usedOf (a :: t) := (mem_usedOf _ a).mpr (List.mem_cons_self ..)
    rw [he] at this
    cases this

theorem usedOf_length_le (rb : List UInt8) : (usedOf rb).length ≤ 256 :=
  Lemmas.MtfEnc.sorted_length_le _ (usedOf_sorted rb)

/-! ### the reference MTF / zero-run encoder -/

theorem runDigits_length_le (n : Nat) : (runDigits n).length ≤ n := by
  induction n using Nat.strongRecOn with
  | ind n ih =>
    by_cases h0 : n = 0
    · subst h0; rw [Lemmas.MtfSpec.runDigits_zero]; simp
    · by_cases h1 : n % 2 = 1
      · rw [Lemmas.MtfSpec.runDigits_odd n h0 h1]
        have := ih ((n - 1) / 2) (by omega)
        simp only [List.length_cons]; omega
      · rw [Lemmas.MtfSpec.runDigits_even n h0 h1]
        have := ih ((n - 2) / 2) (by omega)
        simp only [List.length_cons]; omega

theorem mtfEncode_length (l block : List UInt8) : (mtfEncode l block).length = block.length := by
  induction block generalizing l with
  | nil => rfl
  | cons b bs ih => simp [mtfEncode, ih]

theorem mtfEncode_lt (l block : List UInt8) (h : ∀ x ∈ block, x ∈ l) :
    ∀ p ∈ mtfEncode l block, p < l.length := by
  induction block generalizing l with
  | nil => intro p hp; simp [mtfEncode] at hp
  | cons b bs ih =>
    intro p hp
    simp only [mtfEncode, List.mem_cons] at hp
    rcases hp with rfl | hp
    · exact List.idxOf_lt_length_of_mem (h b (List.mem_cons_self ..))
    · have := ih (moveToFront l (l.idxOf b))
        (fun x hx => (Lemmas.MtfSpec.mem_moveToFront _ _ _).mpr (h x (List.mem_cons_of_mem _ hx)))
        p hp
      rwa [Lemmas.MtfSpec.moveToFront_length] at this

theorem zrle_length_le (k : Nat) (ps : List Nat) : (zrle k ps).length ≤ k + ps.length := by
  induction ps generalizing k with
  | nil => simpa [zrle] using runDigits_length_le k
  | cons p ps ih =>
    cases p with
    | zero =>
      have := ih (k + 1)
      simp only [zrle, List.length_cons]; omega
    | succ p =>
      have := ih 0
      have := runDigits_length_le k
      simp only [zrle, List.length_append, List.length_cons]; omega

/-- every zero-run / MTF symbol is at most `N` when the positions are below `N ≥ 1` -/
theorem zrle_le (N : Nat) (hN : 1 ≤ N) (k : Nat) (ps : List Nat) (h : ∀ p ∈ ps, p < N) :
    ∀ s ∈ zrle k ps, s ≤ N := by
  induction ps generalizing k with
  | nil =>
    intro s hs
    have := Lemmas.MtfSpec.runDigits_lt_two k s (by simpa [zrle] using hs)
    omega
  | cons p ps ih =>
    have hps : ∀ q ∈ ps, q < N := fun q hq => h q (List.mem_cons_of_mem _ hq)
    cases p with
    | zero => intro s hs; exact ih (k + 1) hps s (by simpa [zrle] using hs)
    | succ p =>
      intro s hs
      simp only [zrle, List.mem_append, List.mem_cons] at hs
      rcases hs with hs | rfl | hs
      · have := Lemmas.MtfSpec.runDigits_lt_two k s hs; omega
      · have := h (p + 1) (List.mem_cons_self ..); omega
      · exact ih 0 hps s hs

/-! ### `mtfvOf` -/

/-- Under the BWT contract's second clause the model of `do_mtf` stays inside
    its arrays and emits the reference encoding. -/
theorem mtfvOf_eq (rb L : List UInt8) (hL : ∀ x ∈ L, x ∈ rb) :
    mtfvOf rb L = mtfRle2 (usedOf rb) L := by
  unfold mtfvOf
  rw [Lemmas.MtfEnc.doMtf_spec (usedOf rb) L (usedOf_sorted rb)
    (fun x hx => (mem_usedOf rb x).mpr (hL x hx))]
  rfl

theorem mtfRle2_split (used L : List UInt8) :
    mtfRle2 used L = zrle 0 (mtfEncode used L) ++ [used.length + 1] := rfl

theorem mtfRle2_dropLast (used L : List UInt8) :
    (mtfRle2 used L).dropLast = zrle 0 (mtfEncode used L) := by
  rw [mtfRle2_split, List.dropLast_concat]

theorem mtfRle2_getLastD (used L : List UInt8) : (mtfRle2 used L).getLastD 0 = used.length + 1 := by
  rw [mtfRle2_split, List.getLastD_eq_getLast?, List.getLast?_concat]
  rfl

theorem mtfRle2_ne (used L : List UInt8) : mtfRle2 used L ≠ [] := by
  rw [mtfRle2_split]; simp

theorem mtfRle2_length_le (used L : List UInt8) : (mtfRle2 used L).length ≤ L.length + 1 := by
  have := zrle_length_le 0 (mtfEncode used L)
  rw [mtfEncode_length] at this
  rw [mtfRle2_split, List.length_append]
  simp only [List.length_cons, List.length_nil]
  omega

theorem mtfRle2_syms_le (used L : List UInt8) (hu : used ≠ []) (hL : ∀ x ∈ L, x ∈ used) :
    ∀ s ∈ zrle 0 (mtfEncode used L), s ≤ used.length := by
  have hN : 1 ≤ used.length := by
    cases used with
    | nil => exact absurd rfl hu
    | cons _ _ => simp
  exact zrle_le used.length hN 0 _ (mtfEncode_lt used L hL)

end LbzVerif.Lemmas.CompressMtf
