/-
  Lemmas.TransmitBits — bit-level facts used to read back what `transmit()`
  wrote: fields written with `send`, the value of a bit list, the bitmap.
-/
import LbzVerif.Model.Transmit
import LbzVerif.Lemmas.SpecBasic
import LbzVerif.Lemmas.TransmitLen

namespace LbzVerif.Lemmas.TransmitBits
open LbzVerif LbzVerif.Basic LbzVerif.Model.Canon LbzVerif.Model.Transmit
open LbzVerif.Lemmas.TransmitLen

/-! ### fields -/

theorem takeNat_send (n v : Nat) (rest : Bits) (hv : v < 2 ^ n) :
    takeNat n (send n v ++ rest) = some (v, rest) := by
  unfold send
  rw [takeNat_natToBits, Nat.mod_eq_of_lt hv]

/-! ### value of a bit list -/

theorem bitsToNatAux_eq (acc : Nat) (l : Bits) :
    bitsToNatAux acc l = acc * 2 ^ l.length + bitsToNat l := by
  induction l generalizing acc with
  | nil => simp [bitsToNatAux, bitsToNat]
  | cons b t ih =>
    simp only [bitsToNat, bitsToNatAux, List.length_cons]
    rw [ih (2 * acc + bit b), ih (2 * 0 + bit b), Nat.pow_succ]
    simp only [Nat.mul_zero, Nat.zero_add, Nat.add_mul]
    rw [Nat.mul_assoc 2 acc, Nat.mul_comm 2 (acc * _), Nat.mul_assoc acc, Nat.add_assoc]

theorem bitsToNat_cons (b : Bool) (t : Bits) :
    bitsToNat (b :: t) = 2 ^ t.length * bit b + bitsToNat t := by
  have := bitsToNatAux_eq (2 * 0 + bit b) t
  simp only [bitsToNat, bitsToNatAux] at this ⊢
  rw [this]; simp [Nat.mul_comm]

theorem bitsToNat_lt (l : Bits) : bitsToNat l < 2 ^ l.length := by
  induction l with
  | nil => simp [bitsToNat, bitsToNatAux]
  | cons b t ih =>
    rw [bitsToNat_cons, List.length_cons, Nat.pow_succ]
    have : bit b ≤ 1 := by unfold bit; split <;> omega
    have h2 : 2 ^ t.length * bit b ≤ 2 ^ t.length := by
      calc 2 ^ t.length * bit b ≤ 2 ^ t.length * 1 := Nat.mul_le_mul_left _ this
        _ = 2 ^ t.length := Nat.mul_one _
    omega

theorem natToBits_congr (n v w : Nat) (h : ∀ i < n, v.testBit i = w.testBit i) :
    natToBits n v = natToBits n w := by
  induction n with
  | zero => rfl
  | succ n ih =>
    simp only [natToBits]
    rw [h n (Nat.lt_succ_self n), ih (fun i hi => h i (Nat.lt_succ_of_lt hi))]

theorem bit_testBit_zero (b : Bool) : (bit b).testBit 0 = b := by cases b <;> decide

/-- Writing the value of a bit list in as many bits gives the list back. -/
theorem natToBits_bitsToNat (l : Bits) : natToBits l.length (bitsToNat l) = l := by
  induction l with
  | nil => rfl
  | cons b t ih =>
    rw [List.length_cons, natToBits, bitsToNat_cons]
    have hlt := bitsToNat_lt t
    congr 1
    · rw [Nat.testBit_two_pow_mul_add _ hlt, if_neg (Nat.lt_irrefl _), Nat.sub_self]
      exact bit_testBit_zero b
    · rw [← ih]
      rw [ih]
      have := natToBits_congr t.length (2 ^ t.length * bit b + bitsToNat t) (bitsToNat t)
        (fun i hi => by rw [Nat.testBit_two_pow_mul_add _ hlt]; simp [hi])
      rw [this, ih]

theorem natToBits_getElem (n v j : Nat) (hj : j < (natToBits n v).length) :
    (natToBits n v)[j] = v.testBit (n - 1 - j) := by
  induction n generalizing j with
  | zero => simp [natToBits] at hj
  | succ n ih =>
    cases j with
    | zero => simp [natToBits]
    | succ j =>
      simp only [natToBits, List.getElem_cons_succ]
      rw [ih]
      congr 1
      simp only [natToBits, List.length_cons] at hj
      rw [natToBits_length] at hj
      omega

/-- Bit `j` (from the left) of a bit list, through its value. -/
theorem testBit_bitsToNat (l : Bits) (j : Nat) (hj : j < l.length) :
    (bitsToNat l).testBit (l.length - 1 - j) = l[j] := by
  have h := natToBits_getElem l.length (bitsToNat l) j (by rw [natToBits_length]; exact hj)
  rw [← h]
  congr 1
  exact natToBits_bitsToNat l

/-! ### bitmap -/

theorem filterMap_congr' {α β : Type} (l : List α) (f g : α → Option β)
    (h : ∀ x ∈ l, f x = g x) : l.filterMap f = l.filterMap g := by
  induction l with
  | nil => rfl
  | cons a t ih =>
    rw [List.filterMap_cons, List.filterMap_cons, h a (List.mem_cons_self ..),
      ih (fun x hx => h x (List.mem_cons_of_mem _ hx))]

theorem flatMap_congr' {α β : Type} (l : List α) (f g : α → List β)
    (h : ∀ x ∈ l, f x = g x) : l.flatMap f = l.flatMap g := by
  induction l with
  | nil => rfl
  | cons a t ih =>
    rw [List.flatMap_cons, List.flatMap_cons, h a (List.mem_cons_self ..),
      ih (fun x hx => h x (List.mem_cons_of_mem _ hx))]

theorem packRow_lt (cmap : List Bool) (i : Nat) : packRow cmap i < 2 ^ 16 := by
  have := bitsToNat_lt ((List.range 16).map (fun j => cmap.getD (16 * i + j) false))
  simpa [packRow] using this

theorem bigWord_lt (cmap : List Bool) : bigWord cmap < 2 ^ 16 := by
  have := bitsToNat_lt ((List.range 16).map (fun i => packRow cmap i != 0))
  simpa [bigWord] using this

theorem packRow_testBit (cmap : List Bool) (i j : Nat) (hj : j < 16) :
    (packRow cmap i).testBit (15 - j) = cmap.getD (16 * i + j) false := by
  have := testBit_bitsToNat ((List.range 16).map (fun j => cmap.getD (16 * i + j) false)) j
    (by simpa using hj)
  simpa [packRow] using this

theorem bigWord_testBit (cmap : List Bool) (i : Nat) (hi : i < 16) :
    (bigWord cmap).testBit (15 - i) = (packRow cmap i != 0) := by
  have := testBit_bitsToNat ((List.range 16).map (fun i => packRow cmap i != 0)) i
    (by simpa using hi)
  simpa [bigWord] using this

/-- The byte values of row `i` marked in `cmap`. -/
def usedRow (cmap : List Bool) (i : Nat) : List UInt8 :=
  (List.range 16).filterMap fun j =>
    if cmap.getD (16 * i + j) false then some (UInt8.ofNat (16 * i + j)) else none

theorem usedOfRow_packRow (cmap : List Bool) (i : Nat) :
    Spec.Bzip2.usedOfRow i (packRow cmap i) = usedRow cmap i := by
  unfold Spec.Bzip2.usedOfRow usedRow
  apply filterMap_congr'
  intro j hj
  rw [packRow_testBit cmap i j (List.mem_range.mp hj)]

theorem usedRow_of_zero (cmap : List Bool) (i : Nat) (h : (packRow cmap i != 0) = false) :
    usedRow cmap i = [] := by
  rw [packRow_ne_zero] at h
  unfold usedRow
  rw [List.filterMap_eq_nil_iff]
  intro j hj
  have : cmap.getD (16 * i + j) false = false := by
    cases hc : cmap.getD (16 * i + j) false
    · rfl
    · have : (List.range 16).any (fun j => cmap.getD (16 * i + j) false) = true :=
        List.any_eq_true.mpr ⟨j, hj, hc⟩
      rw [this] at h; cases h
  rw [this]; rfl

/-- One row of "Transmit character map". -/
def rowBits (cmap : List Bool) (i : Nat) : Bits :=
  if packRow cmap i != 0 then send 16 (packRow cmap i) else []

theorem readBitmapRows_rows (cmap : List Bool) (rows : List Nat) (hr : ∀ i ∈ rows, i < 16)
    (pos : Nat) (rest : Bits) :
    Spec.Bzip2.readBitmapRows (bigWord cmap) rows pos (rows.flatMap (rowBits cmap) ++ rest) =
      some (rows.flatMap (usedRow cmap), pos + (rows.flatMap (rowBits cmap)).length, rest) := by
  induction rows generalizing pos with
  | nil => simp [Spec.Bzip2.readBitmapRows]
  | cons i rows ih =>
    have hi := hr i (List.mem_cons_self ..)
    have ih' := fun p => ih (fun x hx => hr x (List.mem_cons_of_mem _ hx)) p
    simp only [Spec.Bzip2.readBitmapRows, bigWord_testBit cmap i hi, List.flatMap_cons,
      List.append_assoc, List.length_append]
    cases hz : (packRow cmap i != 0)
    · simp only [Bool.false_eq_true, if_false, rowBits, hz, List.nil_append, List.length_nil,
        Nat.zero_add]
      rw [ih', usedRow_of_zero cmap i hz]
      simp
    · simp only [if_true, rowBits, hz]
      rw [takeNat_send 16 _ _ (packRow_lt cmap i)]
      simp only [ih', usedOfRow_packRow, send_length]
      simp [Nat.add_assoc]

theorem range256 : List.range 256 =
    (List.range 16).flatMap (fun i => (List.range 16).map (fun j => 16 * i + j)) := by decide +kernel

theorem usedBytes_eq (cmap : List Bool) :
    usedBytes cmap = (List.range 16).flatMap (usedRow cmap) := by
  unfold usedBytes
  rw [range256, List.filterMap_flatMap]
  apply flatMap_congr'
  intro i _
  rw [List.filterMap_map]
  rfl

/-- The reference parser reads the bitmap `transmit()` wrote. -/
theorem readBitmap (cmap : List Bool) (pos : Nat) (rest : Bits) :
    takeNat 16 (bitmapBits cmap ++ rest) =
      some (bigWord cmap, (List.range 16).flatMap (rowBits cmap) ++ rest) ∧
    Spec.Bzip2.readBitmapRows (bigWord cmap) (List.range 16) pos
        ((List.range 16).flatMap (rowBits cmap) ++ rest) =
      some (usedBytes cmap, pos + (bitmapCost cmap - 16), rest) := by
  constructor
  · unfold bitmapBits
    rw [List.append_assoc, takeNat_send 16 _ _ (bigWord_lt cmap)]
    rfl
  · rw [readBitmapRows_rows cmap (List.range 16) (fun i hi => List.mem_range.mp hi), usedBytes_eq]
    have := bitmapBits_length cmap
    unfold bitmapBits at this
    rw [List.length_append, send_length] at this
    have h2 : ((List.range 16).flatMap (rowBits cmap)).length = bitmapCost cmap - 16 := by
      unfold rowBits; omega
    rw [h2]

end LbzVerif.Lemmas.TransmitBits
