/-
  Lemmas.GroupFinal — assembly of the end-to-end block theorems (W17):
  one call of the slow retriever from `S_INIT` against THE oracle
  `Spec.Bzip2.parseBlock` + `Spec.Bzip2.unMtfRle2`.
    header      RetrieveHeader.header_spec (W15) + RetrieveSpecLink.parseBlock_factor
    group loop  GroupMachine.groups_machine (machine = `groupsRef`)
                GroupPure.groupsRef_sound / groupsRef_complete (`groupsRef` =
                `decodeGroups` + symbol fold)
    symbols     Props.C05.Retrieve.retrieve_symbols_sound (W10/W15) +
                SpecMtfLink.unMtfRle2_link (`Spec.Mtf` = `Spec.Bzip2`)
-/
import LbzVerif.Lemmas.GroupBlock
import LbzVerif.Lemmas.GroupPure
import LbzVerif.Lemmas.SpecMtfLink
import LbzVerif.Lemmas.HeaderBudget
import LbzVerif.Props.C05.Retrieve

set_option linter.unusedSimpArgs false

namespace LbzVerif.Lemmas.GroupFinal
open LbzVerif LbzVerif.Model.Retrieve LbzVerif.Spec.Prefix
open LbzVerif.Model.MtfDec (RunSt)
open LbzVerif.Model
open LbzVerif.Lemmas.RetrieveBits LbzVerif.Lemmas.RetrieveValues LbzVerif.Lemmas.RetrieveSplit
open LbzVerif.Lemmas.RetrieveFast LbzVerif.Lemmas.RetrieveDelta LbzVerif.Lemmas.RetrieveTables
open LbzVerif.Lemmas.RetrieveSelectors LbzVerif.Lemmas.RetrieveBitmap LbzVerif.Lemmas.RetrieveHeader
open LbzVerif.Lemmas.RetrieveSpecLink LbzVerif.Lemmas.RetrieveFrame
open LbzVerif.Lemmas.GroupDefs LbzVerif.Lemmas.GroupMachine LbzVerif.Lemmas.RetrieveOk
open LbzVerif.Lemmas.GroupBlock LbzVerif.Lemmas.GroupPure

/-- What an OK answer of `eobFinish` means. -/
theorem eobFinish_ok (σ s' : St) (h : eobFinish σ = .done .ok s') :
    ¬ (σ.run.run > Gen.MAX_BLOCK_SIZE - σ.run.n) ∧ (MtfDec.flush σ.run).n ≠ 0 ∧
      σ.bwtIdx < (MtfDec.flush σ.run).n ∧ s'.v = σ.v ∧ s'.w = σ.w ∧ s'.rand = σ.rand ∧
      s'.bwtIdx = σ.bwtIdx ∧ s'.run.out = (MtfDec.flush σ.run).out ∧
      s'.run.n = (MtfDec.flush σ.run).n := by
  unfold eobFinish at h
  split at h
  · simp [errS] at h
  · rename_i h1
    simp only at h
    split at h
    · simp [errS] at h
    · rename_i h2
      split at h
      · simp [errS] at h
      · rename_i h3
        injection h with _ h
        subst h
        exact ⟨h1, h2, by omega, rfl, rfl, rfl, rfl, rfl, rfl⟩

/-- Conversely: the checks pass ⇒ OK with the flushed block. -/
theorem eobFinish_of (σ : St) (h1 : ¬ (σ.run.run > Gen.MAX_BLOCK_SIZE - σ.run.n))
    (h2 : (MtfDec.flush σ.run).n ≠ 0) (h3 : σ.bwtIdx < (MtfDec.flush σ.run).n) :
    eobFinish σ = .done .ok ({ σ with run := MtfDec.flush σ.run }).final := by
  unfold eobFinish
  rw [if_neg h1]
  simp only
  rw [if_neg h2, if_neg (by omega)]

/-- Everything the group phase needs to know about the state at the top of the
group loop after a header the reference accepts. -/
structure TopFacts (v w : Nat) (h : Hdr) (s1 : St) (rest1 : List Nat) : Prop where
  wf : HdrWf h
  ginv : GInv h.tabs s1 (h.sels.take s1.numSel) (List.range h.ng)
  tabsOk : TabsOk h.tabs h.used.length
  bits : bitsOf s1 rest1 = h.rest
  numSel : s1.numSel = min h.ns Gen.selectorBound
  g : s1.g = 0
  run0 : ∃ rs0, MtfDec.initRun (MtfDec.slideOf s1.cmap) = some rs0 ∧ s1.run = rs0
  cmapLen : s1.cmap.length = 256
  cmapTake : s1.cmap.take h.used.length = h.used

theorem topFacts (v w : Nat) (ws : List Nat) (inv : BufInv v w) (hw : w ≤ 63) (r idx : Nat) (h : Hdr)
    (hsp : specHeader (bitsOf (St.start v w) ws) = some (r, idx, h)) (s1 : St) (rest1 : List Nat)
    (e : toTop ({ St.start v w with pc := .bwtIdx } : St) ws = .top s1 rest1)
    (hk : HdrOk ({ ({ St.start v w with pc := .bwtIdx } : St) with rand := r, bwtIdx := idx }) s1 h)
    (hbits : bitsOf s1 rest1 = h.rest) (inv1 : BufInv s1.v s1.w) : TopFacts v w h s1 rest1 := by
  have hwf := hdrWf_of_spec _ _ _ _ hsp
  have w63 := toTop_w63 ws ({ St.start v w with pc := .bwtIdx } : St) inv hw s1 rest1 e
  have hI := ginv_of_hdrOk _ s1 h hk hwf rfl rfl inv1 w63
  refine ⟨hwf, hI, ⟨hwf.used1, hwf.used256, hwf.tabsOk⟩, hbits, hk.numSel, hk.g, ?_, hk.cmapLen, hk.cmapTake⟩
  obtain ⟨rs0, e1, e2⟩ := hk.run
  refine ⟨rs0, e1, ?_⟩
  rw [e2]
  unfold MtfDec.initRun at e1
  split at e1
  · cases e1
  · split at e1
    · cases e1
    · injection e1 with e1; subst e1; rfl

/-- The side conditions of `groups_machine` / `groupsRef_*` for the state of
`TopFacts`. -/
theorem side (v w : Nat) (h : Hdr) (s1 : St) (rest1 : List Nat) (tf : TopFacts v w h s1 rest1) :
    h.tabs.length ≤ Gen.MAX_TREES ∧
    (∀ l ∈ h.tabs, l.length ≤ 258 ∧ ∀ x ∈ l, 1 ≤ x ∧ x ≤ 20) ∧
    MOk (List.range h.ng) h.tabs ∧ JsOk (h.sels.take s1.numSel) (List.range h.ng) ∧
    JsOk h.sels (List.range h.ng) ∧ (List.range h.ng).length ≤ Gen.MAX_TREES ∧
    (h.sels.take s1.numSel).length = s1.numSel - s1.g := by
  have hwf := tf.wf
  have h6 : Gen.MAX_TREES = 6 := rfl
  refine ⟨by rw [hwf.tabsLen, h6]; exact hwf.ng6, ?_, ?_, ?_, ?_, by rw [List.length_range, h6]; exact hwf.ng6,
    tf.ginv.n⟩
  · intro l hl
    obtain ⟨a, b⟩ := hwf.tabsOk l hl
    have := hwf.used256
    exact ⟨by omega, b⟩
  · intro t ht
    rw [hwf.tabsLen]
    exact List.mem_range.mp ht
  · intro j hj
    rw [List.length_range]
    exact hwf.selsLt j (List.mem_of_mem_take hj)
  · intro j hj
    rw [List.length_range]
    exact hwf.selsLt j hj

/-- The symbol side: the retriever's run state at the top of the group loop
against the two references. -/
theorem symbols_link (v w : Nat) (h : Hdr) (s1 : St) (rest1 : List Nat) (tf : TopFacts v w h s1 rest1)
    (syms : List Nat) (hs : ∀ s ∈ syms, s < h.used.length + 1) :
    NOut s1.run ∧
    MtfRun.toOpt (symLoop s1.run (syms.map (Canon.renumber (h.used.length + 2)) ++ [0])) =
      match Spec.Bzip2.unMtfRle2 h.used Gen.MAX_BLOCK_SIZE syms with
      | .ok a => some a.toList
      | .error _ => none := by
  obtain ⟨rs0, e1, e2⟩ := tf.run0
  have hwf := tf.wf
  have habs : ∃ junk, MtfDec.abs (MtfDec.slideOf s1.cmap) = h.used ++ junk := by
    refine ⟨s1.cmap.drop h.used.length, ?_⟩
    rw [Lemmas.MtfOne.abs_slideOf _ tf.cmapLen]
    conv => lhs; rw [← List.take_append_drop h.used.length s1.cmap, tf.cmapTake]
  obtain ⟨st0, i1, i2⟩ := Props.C05.Retrieve.retrieve_symbols_sound (MtfDec.slideOf s1.cmap)
    (Lemmas.MtfOne.inv_slideOf _) h.used hwf.used1 hwf.used256 habs (syms ++ [h.used.length + 1])
    (by
      intro s hsm
      rcases List.mem_append.mp hsm with a | a
      · have := hs s a; omega
      · simp at a; omega)
  rw [e1] at i1
  injection i1 with i1
  subst i1
  have hmap : (syms ++ [h.used.length + 1]).map (MtfDec.internalSym h.used.length) =
      syms.map (Canon.renumber (h.used.length + 2)) ++ [0] := by
    have hu1 := hwf.used1
    have h0 : MtfDec.internalSym h.used.length (h.used.length + 1) = 0 := by
      unfold MtfDec.internalSym
      rw [if_neg (by omega), if_neg (by omega), if_pos rfl]
    have hm : syms.map (MtfDec.internalSym h.used.length) =
        syms.map (Canon.renumber (h.used.length + 2)) :=
      List.map_congr_left (fun s _ => internalSym_eq _ s)
    rw [List.map_append, List.map_cons, List.map_nil, h0, hm]
  rw [hmap] at i2
  constructor
  · rw [e2]
    unfold MtfDec.initRun at e1
    split at e1
    · cases e1
    · split at e1
      · cases e1
      · injection e1 with e1; subst e1; rfl
  · rw [e2, i2]
    have hu : h.used ≠ [] := by
      intro hn
      have := hwf.used1
      rw [hn] at this
      simp at this
    exact Lemmas.SpecMtfLink.unMtfRle2_link h.used hu Gen.MAX_BLOCK_SIZE syms
      (fun s hsm => by have := hs s hsm; omega)

/-- What the reference says about a block, in the terms of the retriever's
answer `(s', rest')`. -/
def RefAgrees (level start crc : Nat) (bits : List Bool) (s' : St) (rest' : List Nat) : Prop :=
  ∃ (b : Spec.Bzip2.Block) (tt : Array UInt8),
    Spec.Bzip2.parseBlock level start bits = .ok (b, bitsOf s' rest') ∧
    b.level = level ∧ b.startBit = start ∧ b.storedCrc = crc ∧
    b.rand = (s'.rand == 1) ∧ b.origPtr = s'.bwtIdx ∧
    Spec.Bzip2.unMtfRle2 b.used Gen.MAX_BLOCK_SIZE b.syms.toList = .ok tt ∧
    tt.toList = s'.run.out.reverse ∧ tt.size = s'.run.n ∧ tt.size ≠ 0 ∧ b.origPtr < tt.size

/-- **Soundness of one call.**  If the slow retriever, started in `S_INIT` on a
legal buffer with fewer than 64 live bits, answers OK, the oracle accepts the
same bits (behind any 32-bit CRC) as a block with the same rand flag, origPtr,
unread bits, and its MTF/RLE2 stage yields exactly the bytes handed over. -/
theorem run_ok_sound (v w : Nat) (ws : List Nat) (inv : BufInv v w) (hw : w ≤ 63) (s' : St)
    (rest' : List Nat) (hr : run false (St.start v w) ws = .halt .ok s' rest')
    (level start crc : Nat) (bits : List Bool)
    (h32 : Basic.takeNat 32 bits = some (crc, bitsOf (St.start v w) ws)) :
    RefAgrees level start crc bits s' rest' := by
  have hb0 : bitsOf ({ St.start v w with pc := .bwtIdx } : St) ws = bitsOf (St.start v w) ws := rfl
  have hhs := header_spec { St.start v w with pc := .bwtIdx } ws rfl inv
  rw [hb0] at hhs
  obtain ⟨hs1, hs2⟩ := hhs
  have hti := toTop_init (St.start v w) ws rfl
  unfold run at hr
  rw [hti] at hr
  cases hsp : specHeader (bitsOf (St.start v w) ws) with
  | none =>
    exfalso
    cases hs2 hsp with
    | inl hrej =>
      obtain ⟨r, s, rest'', e, hne⟩ := hrej
      rw [e] at hr
      injection hr with h1 _ _
      exact hne h1
    | inr hsu =>
      obtain ⟨s, e⟩ := hsu
      rw [e] at hr; cases hr
  | some p =>
    obtain ⟨r0, idx0, h⟩ := p
    cases hs1 r0 idx0 h hsp with
    | inr hsu =>
      obtain ⟨s, e⟩ := hsu
      rw [e] at hr; cases hr
    | inl hok2 =>
      obtain ⟨s1, rest1, e, hk, hbits, inv1⟩ := hok2
      rw [e] at hr
      simp only at hr
      have tf := topFacts v w ws inv hw r0 idx0 h hsp s1 rest1 e hk hbits inv1
      obtain ⟨c1, c2, c3, c4, c5, c6, c7⟩ := side v w h s1 rest1 tf
      rw [← c7] at hr
      have hgm := groups_machine h.tabs c1 c2 (h.sels.take s1.numSel) s1 rest1 (List.range h.ng)
        tf.ginv c3 c4 c6
      rw [tf.bits] at hgm
      cases hgm with
      | inl hsu =>
        obtain ⟨⟨s, e2⟩, _⟩ := hsu
        rw [hr] at e2; cases e2
      | inr hgo =>
        cases hgs : groupsRef h.tabs (h.sels.take s1.numSel) (List.range h.ng) s1.run h.rest with
        | trunc => rw [hgs] at hgo; exact absurd hgo id
        | stop r =>
          exfalso
          rw [hgs] at hgo
          obtain ⟨ws', e2⟩ := hgo
          rw [hr] at e2
          injection e2 with _ e3 _
          have hbo := groups_ok _ _ _ _ _ hr
          rw [e3] at hbo
          exact absurd hbo.1 (by decide)
        | ok rs' B' =>
          rw [hgs] at hgo
          obtain ⟨σ, ws', r, s, he, e2, g1, g2, g3, g4, g5⟩ := hgo
          rw [hr] at e2
          injection e2 with e2a e2b e2c
          subst e2a; subst e2b; subst e2c
          obtain ⟨f1, f2, f3, f4, f5, f6, f7, f8, f9⟩ := eobFinish_ok σ s' he
          rw [g1] at f1 f2 f3 f8 f9
          -- the reference decodes the same groups
          obtain ⟨syms, n, n1, n2, hsy, hfold, hdec⟩ :=
            groupsRef_sound h.tabs h.used.length tf.tabsOk _ _ s1.run h.rest rs' B' c3 c4 hgs
          obtain ⟨ts, hts, _⟩ := unmtfL_isSome (List.range h.ng) h.sels c5
          have hsplit : h.sels.take s1.numSel ++ h.sels.drop s1.numSel = h.sels := List.take_append_drop _ _
          obtain ⟨pos, hpb⟩ := (parseBlock_factor level start bits crc _ h32).2 r0 idx0 h hsp
          obtain ⟨pos', hdg⟩ := hdec (h.sels.drop s1.numSel) ts (by rw [hsplit]; exact hts) 0 pos
            (Array.mkEmpty 1024)
          -- the symbol stage
          obtain ⟨hn0, hlink⟩ := symbols_link v w h s1 rest1 tf syms hsy
          rw [symLoop_of_fold _ _ _ hfold, if_neg f1] at hlink
          cases hum : Spec.Bzip2.unMtfRle2 h.used Gen.MAX_BLOCK_SIZE syms with
          | error er => rw [hum] at hlink; simp [MtfRun.toOpt] at hlink
          | ok tt =>
            rw [hum] at hlink
            simp only [MtfRun.toOpt, Option.some.injEq] at hlink
            have hno : NOut (MtfDec.flush rs') := nOut_flush _ (nOut_fold _ _ _ hn0 hfold)
            have hsize : tt.size = (MtfDec.flush rs').n := by
              rw [hno, ← Array.length_toList, ← hlink, List.length_reverse]
            have hbs : bitsOf s' rest' = B' := by
              rw [← g5]
              unfold bitsOf
              rw [f4, f5]
            refine ⟨{ level := level, startBit := start, endBit := pos', storedCrc := crc,
                      rand := r0 == 1, origPtr := idx0, used := h.used, nGroups := h.ng,
                      selectors := ts, tables := h.tabs, nSelectorsUsed := 0 + n,
                      syms := Array.mkEmpty 1024 ++ syms.toArray }, tt, ?_, rfl, rfl, rfl, ?_, ?_, ?_, ?_, ?_, ?_, ?_⟩
            · rw [hpb]
              unfold parseTail
              rw [unMtfSelectors_eq, hts]
              simp only [Option.map_some]
              have hl : (Array.mkEmpty h.ns ++ ts.toArray : Array Nat).toList = ts := by simp
              rw [hl]
              have he1 : h.used.length + 2 - 1 = h.used.length + 1 := rfl
              rw [he1, hdg, hbs]
            · show (r0 == 1) = (s'.rand == 1)
              rw [f6, g2, hk.rand]
            · show idx0 = s'.bwtIdx
              rw [f7, g3, hk.bwtIdx]
            · show Spec.Bzip2.unMtfRle2 h.used Gen.MAX_BLOCK_SIZE
                (Array.mkEmpty 1024 ++ syms.toArray : Array Nat).toList = .ok tt
              have hl : (Array.mkEmpty 1024 ++ syms.toArray : Array Nat).toList = syms := by simp
              rw [hl, hum]
            · rw [f8, ← hlink]
            · rw [f9, hsize]
            · rw [hsize]; exact f2
            · show idx0 < tt.size
              rw [hsize]
              have : σ.bwtIdx = idx0 := by rw [g3, hk.bwtIdx]
              rw [← this]; exact f3

/-- **Completeness of one call.**  If the oracle accepts the bits (behind any
32-bit CRC) as a block whose MTF/RLE2 stage fits 900000 bytes, is not empty and
contains its origPtr, the slow retriever started in `S_INIT` answers OK with
the same values and the same unread bits — or it runs out of words, and that
happens only when fewer than 32 bits follow the block (header phase:
`HeaderBudget.header_no_starve`; group phase: the `Short` clauses of
`GroupMachine`). -/
theorem run_complete (v w : Nat) (ws : List Nat) (inv : BufInv v w) (hw : w ≤ 63)
    (level start crc : Nat) (bits : List Bool)
    (h32 : Basic.takeNat 32 bits = some (crc, bitsOf (St.start v w) ws))
    (b : Spec.Bzip2.Block) (restB : List Bool)
    (hp : Spec.Bzip2.parseBlock level start bits = .ok (b, restB)) (tt : Array UInt8)
    (hm : Spec.Bzip2.unMtfRle2 b.used Gen.MAX_BLOCK_SIZE b.syms.toList = .ok tt)
    (hne : tt.size ≠ 0) (hop : b.origPtr < tt.size) :
    (∃ s' rest', run false (St.start v w) ws = .halt .ok s' rest' ∧ bitsOf s' rest' = restB ∧
        b.rand = (s'.rand == 1) ∧ s'.bwtIdx = b.origPtr ∧ s'.run.out.reverse = tt.toList ∧
        s'.run.n = tt.size) ∨
      (∃ s, run false (St.start v w) ws = .susp s ∧ restB.length < 32) := by
  have hb0 : bitsOf ({ St.start v w with pc := .bwtIdx } : St) ws = bitsOf (St.start v w) ws := rfl
  have hhs := header_spec { St.start v w with pc := .bwtIdx } ws rfl inv
  rw [hb0] at hhs
  obtain ⟨hs1, _⟩ := hhs
  have hti := toTop_init (St.start v w) ws rfl
  obtain ⟨pf1, pf2⟩ := parseBlock_factor level start bits crc _ h32
  cases hsp : specHeader (bitsOf (St.start v w) ws) with
  | none =>
    obtain ⟨e, he⟩ := pf1 hsp
    rw [he] at hp; cases hp
  | some p =>
    obtain ⟨r0, idx0, h⟩ := p
    obtain ⟨pos, hpb⟩ := pf2 r0 idx0 h hsp
    have hwf := hdrWf_of_spec _ _ _ _ hsp
    have c5 : JsOk h.sels (List.range h.ng) := by
      intro j hj
      rw [List.length_range]
      exact hwf.selsLt j hj
    obtain ⟨ts, hts, _⟩ := unmtfL_isSome (List.range h.ng) h.sels c5
    rw [hpb] at hp
    unfold parseTail at hp
    rw [unMtfSelectors_eq, hts] at hp
    simp only [Option.map_some] at hp
    have hl : (Array.mkEmpty h.ns ++ ts.toArray : Array Nat).toList = ts := by simp
    have he1 : h.used.length + 2 - 1 = h.used.length + 1 := rfl
    rw [hl, he1] at hp
    cases hdg : Spec.Bzip2.decodeGroups ((h.tabs.map Spec.Bzip2.mkCode).toArray) (h.used.length + 1) ts 0
        pos h.rest (Array.mkEmpty 1024) with
    | error er => rw [hdg] at hp; cases hp
    | ok q =>
      obtain ⟨nUsed, pos', bits', symsA⟩ := q
      rw [hdg] at hp
      simp only [Except.ok.injEq, Prod.mk.injEq] at hp
      obtain ⟨hb, hrest⟩ := hp
      subst hrest
      subst hb
      simp only at hm hop
      cases hs1 r0 idx0 h hsp with
      | inr hsu =>
        right
        obtain ⟨s, e⟩ := hsu
        have hlen : bits'.length ≤ h.rest.length :=
          (@Spec.Bzip2.decodeGroups_ok _ _ _ 0 pos h.rest _).2 _ _ _ _ hdg
        have hshort : h.rest.length < 32 := by
          apply Classical.byContradiction
          intro hn
          exact Lemmas.HeaderBudget.header_no_starve ({ St.start v w with pc := .bwtIdx } : St) ws rfl inv
            r0 idx0 h hsp (by omega) ⟨s, e⟩
        refine ⟨s, ?_, by omega⟩
        unfold run
        rw [hti, e]
      | inl hok2 =>
        obtain ⟨s1, rest1, e, hk, hbits, inv1⟩ := hok2
        have tf := topFacts v w ws inv hw r0 idx0 h hsp s1 rest1 e hk hbits inv1
        obtain ⟨c1, c2, c3, c4, _, c6, c7⟩ := side v w h s1 rest1 tf
        obtain ⟨syms, ha, hsy, hn0, hnle, hsz, hgr⟩ :=
          groupsRef_complete h.tabs h.used.length tf.tabsOk h.sels (List.range h.ng) s1.run h.rest c3 c5
            ts hts 0 pos (Array.mkEmpty 1024) nUsed pos' bits' symsA hdg
        subst ha
        have hl2 : (Array.mkEmpty 1024 ++ syms.toArray : Array Nat).toList = syms := by simp
        rw [hl2] at hm
        obtain ⟨hn0', hlink⟩ := symbols_link v w h s1 rest1 tf syms hsy
        rw [hm] at hlink
        cases hsl : symLoop s1.run (syms.map (Canon.renumber (h.used.length + 2)) ++ [0]) with
        | overflow => rw [hsl] at hlink; simp [MtfRun.toOpt] at hlink
        | unterm => rw [hsl] at hlink; simp [MtfRun.toOpt] at hlink
        | ub => rw [hsl] at hlink; simp [MtfRun.toOpt] at hlink
        | ok out ftab =>
          rw [hsl] at hlink
          simp only [MtfRun.toOpt, Option.some.injEq] at hlink
          have hnz : ∀ s ∈ syms.map (Canon.renumber (h.used.length + 2)), s ≠ 0 := by
            intro s hsm
            obtain ⟨x, hx, rfl⟩ := List.mem_map.mp hsm
            have := hsy x hx
            intro h0
            have := (renumber_eq_zero h.used.length x hwf.used1 (by omega)).mp h0
            omega
          obtain ⟨rs', hfold⟩ := fold_of_symLoop _ _ out ftab hnz hsl
          have hsl2 := symLoop_of_fold _ _ _ hfold
          rw [hsl] at hsl2
          have hnov : ¬ (rs'.run > Gen.MAX_BLOCK_SIZE - rs'.n) := by
            intro hov
            rw [if_pos hov] at hsl2
            cases hsl2
          rw [if_neg hnov] at hsl2
          injection hsl2 with hout _
          have hno : NOut (MtfDec.flush rs') := nOut_flush _ (nOut_fold _ _ _ hn0' hfold)
          have hsize : tt.size = (MtfDec.flush rs').n := by
            rw [hno, ← Array.length_toList, ← hlink, hout, List.length_reverse]
          -- the clamp to 18001 selectors does not cut off a used one
          obtain ⟨_, hcap⟩ := Lemmas.SpecMtfLink.unMtfRle2_size_ge h.used Gen.MAX_BLOCK_SIZE syms tt hm
          have hsg := (Lemmas.SpecMtfLink.unMtfRle2_size_ge h.used Gen.MAX_BLOCK_SIZE syms tt hm).1
          have hclamp : nUsed - 0 ≤ (h.sels.take s1.numSel).length := by
            rw [List.length_take, tf.numSel, hwf.selsLen]
            have h1 : Gen.GROUP_SIZE = 50 := rfl
            have h2 : Gen.MAX_BLOCK_SIZE = 900000 := rfl
            have h3 : Gen.selectorBound = 18001 := rfl
            have h4 := hwf.selsLen
            rw [h1] at hsz
            rw [h2] at hcap
            rw [h3]
            omega
          have hgs := hgr rs' hfold (h.sels.take s1.numSel) (h.sels.drop s1.numSel)
            (List.take_append_drop _ _).symm hclamp
          have hgm := groups_machine h.tabs c1 c2 (h.sels.take s1.numSel) s1 rest1 (List.range h.ng)
            tf.ginv c3 c4 c6
          rw [tf.bits, hgs, c7] at hgm
          cases hgm with
          | inl hsu =>
            right
            obtain ⟨⟨s, e2⟩, hshort⟩ := hsu
            refine ⟨s, ?_, hshort⟩
            unfold run
            rw [hti, e]
            exact e2
          | inr hgo =>
            left
            obtain ⟨σ, ws', r, s, he, e2, g1, g2, g3, g4, g5⟩ := hgo
            have hfin := eobFinish_of σ (by rw [g1]; exact hnov) (by rw [g1, ← hsize]; exact hne)
              (by rw [g1, ← hsize, g3, hk.bwtIdx]; exact hop)
            rw [hfin] at he
            injection he with he1 he2
            subst he1; subst he2
            refine ⟨({ σ with run := MtfDec.flush σ.run } : St).final, ws', ?_, ?_, ?_, ?_, ?_, ?_⟩
            · unfold run
              rw [hti, e]
              exact e2
            · rw [← g5]; rfl
            · show (r0 == 1) = (σ.rand == 1)
              rw [g2, hk.rand]
            · show σ.bwtIdx = idx0
              rw [g3, hk.bwtIdx]
            · show (MtfDec.flush σ.run).out.reverse = tt.toList
              rw [g1, ← hout, hlink]
            · show (MtfDec.flush σ.run).n = tt.size
              rw [g1, hsize]

end LbzVerif.Lemmas.GroupFinal
