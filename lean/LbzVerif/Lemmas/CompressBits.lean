/-
  Lemmas.CompressBits — the bit view of what `Model.Compress.assemble` writes:
  bytes ↔ bits for byte-aligned bit strings, the header / trailer / block-magic
  fields as the reference parser reads them, the bytes of one block, and the
  link between lbzip2's `combine_crc` (raw CRC registers) and the format's
  combined CRC (stored CRCs).
-/
import LbzVerif.Model.Compress
import LbzVerif.Lemmas.SpecBasic
import LbzVerif.Lemmas.TransmitLen

namespace LbzVerif.Lemmas.CompressBits
open LbzVerif LbzVerif.Basic LbzVerif.Model.Compress LbzVerif.Model.Transmit
open LbzVerif.Lemmas.TransmitLen

/-! ### bits → bytes → bits -/

theorem byteToBits_ofBits : ∀ b7 b6 b5 b4 b3 b2 b1 b0 : Bool,
    byteToBits (UInt8.ofNat (bitsToNat [b7, b6, b5, b4, b3, b2, b1, b0])) =
      [b7, b6, b5, b4, b3, b2, b1, b0] := by decide

/-- A bit string of whole bytes survives packing and unpacking. -/
theorem bytesToBits_bitsToBytes (bits : Bits) (h : bits.length % 8 = 0) :
    bytesToBits (bitsToBytes bits) = bits := by
  fun_induction bitsToBytes bits with
  | case1 => exact bytesToBits_nil
  | case2 b7 b6 b5 b4 b3 b2 b1 b0 rest ih =>
    rw [bytesToBits_cons, byteToBits_ofBits, ih (by simp only [List.length_cons] at h; omega)]
    rfl
  | case3 short h1 h2 =>
    exfalso
    match short, h1, h2 with
    | [], h1, _ => exact h1 rfl
    | [_], _, _ => simp at h
    | [_, _], _, _ => simp at h
    | [_, _, _], _, _ => simp at h
    | [_, _, _, _], _, _ => simp at h
    | [_, _, _, _, _], _, _ => simp at h
    | [_, _, _, _, _, _], _, _ => simp at h
    | [_, _, _, _, _, _, _], _, _ => simp at h
    | b7 :: b6 :: b5 :: b4 :: b3 :: b2 :: b1 :: b0 :: rest, _, h2 =>
      exact h2 b7 b6 b5 b4 b3 b2 b1 b0 rest rfl

theorem bytesToBits_take (l : List UInt8) (k : Nat) :
    bytesToBits (l.take k) = (bytesToBits l).take (8 * k) := by
  induction l generalizing k with
  | nil => simp [bytesToBits_nil]
  | cons b t ih =>
    cases k with
    | zero => simp [bytesToBits_nil]
    | succ k =>
      have h8 : 8 * (k + 1) - 8 = 8 * k := by omega
      rw [List.take_succ_cons, bytesToBits_cons, bytesToBits_cons, ih,
        List.take_append, byteToBits_length, h8,
        List.take_of_length_le (l := byteToBits b) (by rw [byteToBits_length]; omega)]

/-! ### one block -/

/-- The bytes of a block in the file are exactly the bits `transmit()` wrote
    (the zero padding of the last 32-bit word is not written). -/
theorem blockBytes_bits (b : EncBlock) (hw : WF b) :
    bytesToBits (blockBytes b) = transmitBits b := by
  have hlen : (transmitBits b).length = cost b := transmitBits_length hw
  have hmod := cost_mod8 b
  have hexp : 8 * outExpectLen b = (transmitBits b).length := by
    unfold outExpectLen
    rw [Nat.shiftRight_eq_div_pow, hlen]
    omega
  unfold blockBytes transmitBytes
  simp only []
  rw [bytesToBits_take, bytesToBits_bitsToBytes _ (by
    rw [List.length_append, List.length_replicate]; omega)]
  rw [hexp, List.take_left']
  rfl

theorem blockBytes_length (b : EncBlock) (hw : WF b) : 8 * (blockBytes b).length = cost b := by
  have := congrArg List.length (blockBytes_bits b hw)
  rw [bytesToBits_length, transmitBits_length hw] at this
  exact this

/-- `transmit()` starts with the 48-bit block magic of the format. -/
theorem transmitBits_magic (b : EncBlock) :
    transmitBits b = natToBits 48 Spec.Bzip2.blockMagic ++ bodyBits b := by
  have hm : natToBits 48 Spec.Bzip2.blockMagic =
      send 24 (Gen.encBlockMagic >>> 24) ++ send 24 (Gen.encBlockMagic % 2 ^ 24) := by
    decide +kernel
  rw [hm]
  unfold bodyBits transmitBits headerBits
  simp only [List.append_assoc]
  rw [← List.append_assoc (send 24 _) (send 24 _)]
  rw [List.drop_left' (by simp [send_length])]
  simp only [List.append_assoc]

theorem takeNat_magic (b : EncBlock) (rest : Bits) :
    takeNat 48 (transmitBits b ++ rest) = some (Spec.Bzip2.blockMagic, bodyBits b ++ rest) := by
  rw [transmitBits_magic, List.append_assoc, takeNat_natToBits]
  rfl

/-! ### header and trailer -/

theorem headerBytes_bits : ∀ level, level < 10 → 1 ≤ level →
    bytesToBits (headerBytes level) = natToBits 32 (0x425A6830 + level) := by
  intro level hl h1
  match level, hl, h1 with
  | 1, _, _ => decide +kernel
  | 2, _, _ => decide +kernel
  | 3, _, _ => decide +kernel
  | 4, _, _ => decide +kernel
  | 5, _, _ => decide +kernel
  | 6, _, _ => decide +kernel
  | 7, _, _ => decide +kernel
  | 8, _, _ => decide +kernel
  | 9, _, _ => decide +kernel

theorem header_take (level : Nat) (h1 : 1 ≤ level) (h9 : level ≤ 9) (rest : List UInt8) :
    takeNat 32 (bytesToBits (headerBytes level ++ rest)) =
      some (0x425A6830 + level, bytesToBits rest) := by
  rw [bytesToBits_append, headerBytes_bits level (by omega) h1, takeNat_natToBits]
  rw [Nat.mod_eq_of_lt (by omega)]

theorem headerLevel_header (level : Nat) (h1 : 1 ≤ level) (h9 : level ≤ 9) :
    Spec.Bzip2.headerLevel (0x425A6830 + level) = some level := by
  unfold Spec.Bzip2.headerLevel
  rw [if_pos (by omega), Nat.add_sub_cancel_left]

theorem be32_bits (v : Nat) : bytesToBits (be32 v) = natToBits 32 v := by
  simp only [be32, bytesToBits_cons, bytesToBits_nil, byteToBits, natToBits, UInt8.toNat_ofNat',
    List.cons_append, List.nil_append, List.append_nil, Nat.testBit_mod_two_pow,
    Nat.testBit_shiftRight]
  simp

theorem trailerBytes_bits (cc : Nat) :
    bytesToBits (trailerBytes cc) = natToBits 48 Spec.Bzip2.eosMagic ++ natToBits 32 cc := by
  unfold trailerBytes
  rw [bytesToBits_append]
  have hm : bytesToBits (Gen.streamTrailerMagic.map UInt8.ofNat) =
      natToBits 48 Spec.Bzip2.eosMagic := by decide +kernel
  have hbe : Gen.trailerCrcBigEndian = true := rfl
  rw [hm, hbe, if_pos rfl, be32_bits]

theorem trailerBytes_length (cc : Nat) : (trailerBytes cc).length = 10 := by
  have := congrArg List.length (trailerBytes_bits cc)
  rw [bytesToBits_length, List.length_append, natToBits_length, natToBits_length] at this
  omega

theorem headerBytes_length (level : Nat) : (headerBytes level).length = 4 := rfl

/-! ### `combine_crc` on raw registers = the format's combination of stored CRCs -/

theorem or_eq_xor_rotl (x : Nat) (_hx : x < 2 ^ 32) :
    ((x <<< 1) % 2 ^ 32) ||| (x >>> 31) = ((x <<< 1) % 2 ^ 32) ^^^ (x >>> 31) := by
  apply Nat.eq_of_testBit_eq
  intro i
  rw [Nat.testBit_or, Nat.testBit_xor]
  cases i with
  | zero =>
    have : ((x <<< 1) % 2 ^ 32).testBit 0 = false := by
      rw [Nat.testBit_mod_two_pow, Nat.testBit_shiftLeft]
      simp
    rw [this]
    simp
  | succ i =>
    have hlt : x >>> 31 < 2 ^ (i + 1) := by
      rw [Nat.shiftRight_eq_div_pow]
      have : x / 2 ^ 31 < 2 := by omega
      have : 2 ≤ 2 ^ (i + 1) := by
        have := Nat.pow_le_pow_right (by decide : 1 ≤ 2) (by omega : 1 ≤ i + 1)
        simpa using this
      omega
    rw [Nat.testBit_lt_two_pow hlt]
    simp

/-- One step of `combined_crc = combine_crc(combined_crc, wblk->crc)` with the
    raw register `c`: the format's `combine` with the stored CRC `~c`. -/
theorem combineCrc_eq (cc c : UInt32) :
    Gen.combineCrc cc.toNat c.toNat = (Basic.combine cc (~~~ c)).toNat := by
  unfold Gen.combineCrc Basic.combine
  rw [UInt32.toNat_xor, UInt32.toNat_or, UInt32.toNat_shiftLeft, UInt32.toNat_shiftRight]
  have h1 : (1 : UInt32).toNat % 32 = 1 := by decide
  have h31 : (31 : UInt32).toNat % 32 = 31 := by decide
  have hn : (~~~ c).toNat = c.toNat ^^^ 4294967295 := by
    have h2 : (0xFFFFFFFF : UInt32) = -1 := by decide
    rw [← UInt32.xor_neg_one, ← h2, UInt32.toNat_xor]
    rfl
  rw [h1, h31, hn, or_eq_xor_rotl _ cc.toNat_lt, Nat.xor_assoc]

/-- the stored CRC of a block, as the parser reads it, is the complement of the register -/
theorem ofNat_stored (c : UInt32) : UInt32.ofNat (c.toNat ^^^ 0xFFFFFFFF) = ~~~ c := by
  apply UInt32.toNat_inj.mp
  have h2 : (0xFFFFFFFF : UInt32) = -1 := by decide
  have hn : (~~~ c).toNat = c.toNat ^^^ 4294967295 := by
    rw [← UInt32.xor_neg_one, ← h2, UInt32.toNat_xor]
    rfl
  rw [hn, UInt32.toNat_ofNat']
  exact Nat.mod_eq_of_lt (Nat.xor_lt_two_pow c.toNat_lt (by decide))

/-- `combined_crc` after all blocks = the reference decoder's running value. -/
theorem combinedCrc_eq (crcs : List UInt32) (cc : UInt32) :
    crcs.foldl (fun a c => Gen.combineCrc a c.toNat) cc.toNat =
      (crcs.foldl (fun a c => Basic.combine a (UInt32.ofNat (c.toNat ^^^ 0xFFFFFFFF))) cc).toNat := by
  induction crcs generalizing cc with
  | nil => rfl
  | cons c t ih =>
    simp only [List.foldl_cons]
    rw [combineCrc_eq, ofNat_stored, ih]

theorem combinedCrc_lt (crcs : List UInt32) : combinedCrc crcs < 2 ^ 32 := by
  unfold combinedCrc
  have := combinedCrc_eq crcs 0
  simp only [UInt32.toNat_zero] at this
  rw [this]
  exact UInt32.toNat_lt _

end LbzVerif.Lemmas.CompressBits
