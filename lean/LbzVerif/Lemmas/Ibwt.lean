/-
  Lemmas.Ibwt — the list construction of `decode()` for ALL blocks:

      for (i = 0; i < n; i++) { uc = tt[i]; tt[ftab[uc]] += (i << 8); ftab[uc]++; }

  `pos L i` = (number of bytes of `L` smaller than `L[i]`) + (number of bytes
  equal to `L[i]` before position `i`) — the slot of `i` in the stably sorted
  first column.  Proved here, by induction over the loop:
  * every store goes to a slot `pos L i < n` (no write outside `tt[0,n)`),
  * `pos L` is injective, so every slot receives at most one `+= i << 8`,
  * afterwards slot `pos L i` holds byte `L[pos L i]` and pointer `i`, and
    every slot's pointer is `< n`.
-/
import LbzVerif.Model.Ibwt

namespace LbzVerif.Lemmas.Ibwt

open LbzVerif
open LbzVerif.Model.Ibwt

def byteAt (L : List UInt8) (i : Nat) : Nat := (L.getD i 0).toNat
def cntLt (L : List UInt8) (v : Nat) : Nat := L.countP (fun x => decide (x.toNat < v))
def cntEq (L : List UInt8) (v : Nat) : Nat := L.countP (fun x => decide (x.toNat = v))

/-- Slot of index `i` in the stably sorted first column. -/
def pos (L : List UInt8) (i : Nat) : Nat :=
  cntLt L (byteAt L i) + cntEq (L.take i) (byteAt L i)

/-! ### Counting -/

theorem cntLt_cons (x : UInt8) (xs : List UInt8) (v : Nat) :
    cntLt (x :: xs) v = cntLt xs v + (if x.toNat < v then 1 else 0) := by
  simp [cntLt, List.countP_cons]

theorem cntEq_cons (x : UInt8) (xs : List UInt8) (v : Nat) :
    cntEq (x :: xs) v = cntEq xs v + (if x.toNat = v then 1 else 0) := by
  simp [cntEq, List.countP_cons]

theorem cntEq_nil (v : Nat) : cntEq [] v = 0 := rfl

theorem cnt_le_length (L : List UInt8) (v : Nat) : cntLt L v + cntEq L v ≤ L.length := by
  induction L with
  | nil => simp [cntLt, cntEq]
  | cons x xs ih =>
    rw [cntLt_cons, cntEq_cons, List.length_cons]
    split <;> split <;> omega

theorem cnt_mono (L : List UInt8) (v w : Nat) (h : v < w) :
    cntLt L v + cntEq L v ≤ cntLt L w := by
  induction L with
  | nil => simp [cntLt, cntEq]
  | cons x xs ih =>
    rw [cntLt_cons, cntEq_cons, cntLt_cons]
    split <;> split <;> split <;> omega

theorem cntLt_succ (L : List UInt8) (v : Nat) : cntLt L (v + 1) = cntLt L v + cntEq L v := by
  induction L with
  | nil => simp [cntLt, cntEq]
  | cons x xs ih =>
    rw [cntLt_cons, cntEq_cons, cntLt_cons, ih]
    split <;> split <;> split <;> omega

theorem byteAt_cons_succ (x : UInt8) (xs : List UInt8) (k : Nat) :
    byteAt (x :: xs) (k + 1) = byteAt xs k := by
  simp [byteAt]

theorem byteAt_lt (L : List UInt8) (i : Nat) : byteAt L i < 256 := (L.getD i 0).toNat_lt

/-- The element at `k` itself is one more occurrence. -/
theorem cntEq_take_lt : ∀ (L : List UInt8) (k : Nat), k < L.length →
    cntEq (L.take k) (byteAt L k) + 1 ≤ cntEq L (byteAt L k) := by
  intro L
  induction L with
  | nil => intro k h; simp at h
  | cons x xs ih =>
    intro k h
    cases k with
    | zero => simp [cntEq_cons, byteAt, cntEq_nil]
    | succ k =>
      rw [byteAt_cons_succ, List.take_succ_cons, cntEq_cons, cntEq_cons]
      have := ih k (by simpa using h)
      omega

theorem cntEq_take_strict : ∀ (L : List UInt8) (i j : Nat), i < j → j < L.length →
    byteAt L i = byteAt L j → cntEq (L.take i) (byteAt L i) < cntEq (L.take j) (byteAt L i) := by
  intro L
  induction L with
  | nil => intro i j _ h; simp at h
  | cons x xs ih =>
    intro i j hij hj he
    obtain ⟨j', rfl⟩ : ∃ j', j = j' + 1 := ⟨j - 1, by omega⟩
    cases i with
    | zero =>
      simp only [List.take_zero, cntEq_nil, List.take_succ_cons, cntEq_cons]
      have : x.toNat = byteAt (x :: xs) 0 := by simp [byteAt]
      simp [this]
    | succ i =>
      rw [byteAt_cons_succ] at he ⊢
      rw [byteAt_cons_succ] at he
      rw [List.take_succ_cons, List.take_succ_cons, cntEq_cons, cntEq_cons]
      have := ih i j' (by omega) (by simpa using hj) he
      omega

theorem pos_lt (L : List UInt8) (k : Nat) (h : k < L.length) : pos L k < L.length := by
  have h1 := cntEq_take_lt L k h
  have h2 := cnt_le_length L (byteAt L k)
  unfold pos; omega

theorem pos_lt_of_lt (L : List UInt8) (i j : Nat) (hij : i < j) (hj : j < L.length) :
    pos L i ≠ pos L j := by
  have hi : i < L.length := by omega
  unfold pos
  rcases Nat.lt_trichotomy (byteAt L i) (byteAt L j) with h | h | h
  · have h1 := cntEq_take_lt L i hi
    have h2 := cnt_mono L _ _ h
    omega
  · have := cntEq_take_strict L i j hij hj h
    rw [← h]; omega
  · have h1 := cntEq_take_lt L j hj
    have h2 := cnt_mono L _ _ h
    omega

/-- `pos L` is injective on the indices of the block. -/
theorem pos_inj (L : List UInt8) (i j : Nat) (hi : i < L.length) (hj : j < L.length)
    (h : pos L i = pos L j) : i = j := by
  rcases Nat.lt_trichotomy i j with hlt | heq | hgt
  · exact absurd h (pos_lt_of_lt L i j hlt hj)
  · exact heq
  · exact absurd h.symm (pos_lt_of_lt L j i hgt hi)

/-! ### The pointer a slot has accumulated after `k` iterations -/

/-- Sum of all `j < k` whose slot is `q` (what `+=` has added, divided by 256). -/
def S (L : List UInt8) : Nat → Nat → Nat
  | 0, _ => 0
  | k + 1, q => S L k q + (if pos L k = q then k else 0)

theorem S_pos (L : List UInt8) (i : Nat) (hi : i < L.length) : ∀ k, k ≤ L.length →
    S L k (pos L i) = if i < k then i else 0 := by
  intro k
  induction k with
  | zero => intro _; simp [S]
  | succ k ih =>
    intro hk
    rw [S, ih (by omega)]
    by_cases hki : k = i
    · subst hki; simp
    · have : pos L k ≠ pos L i := fun h => hki (pos_inj L k i (by omega) hi h)
      simp only [this, if_false, Nat.add_zero]
      by_cases h1 : i < k
      · simp [h1]; omega
      · have : ¬ i < k + 1 := by omega
        simp [h1, this]

theorem S_cases (L : List UInt8) (q : Nat) : ∀ k, k ≤ L.length →
    (S L k q = 0 ∧ ∀ j, j < k → pos L j ≠ q) ∨ (∃ j, j < k ∧ pos L j = q ∧ S L k q = j) := by
  intro k
  induction k with
  | zero => intro _; left; exact ⟨rfl, fun j h => by omega⟩
  | succ k ih =>
    intro hk
    rw [S]
    by_cases hp : pos L k = q
    · rcases ih (by omega) with ⟨h0, hn⟩ | ⟨j, hj, hpj, _⟩
      · right; exact ⟨k, by omega, hp, by simp [hp, h0]⟩
      · exfalso
        have := pos_inj L j k (by omega) (by omega) (by rw [hpj, hp])
        omega
    · simp only [hp, if_false, Nat.add_zero]
      rcases ih (by omega) with ⟨h0, hn⟩ | ⟨j, hj, hpj, hs⟩
      · left
        refine ⟨h0, fun j hj => ?_⟩
        by_cases hjk : j = k
        · subst hjk; exact hp
        · exact hn j (by omega)
      · right; exact ⟨j, by omega, hpj, hs⟩

theorem S_lt (L : List UInt8) (q : Nat) (hn : 0 < L.length) : S L L.length q < L.length := by
  rcases S_cases L q L.length (Nat.le_refl _) with ⟨h0, _⟩ | ⟨j, hj, _, hs⟩
  · omega
  · omega

/-! ### The loop invariant -/

theorem getD_set_eq {α : Type} (l : List α) (q : Nat) (v d : α) (h : q < l.length) :
    (l.set q v).getD q d = v := by
  simp [List.getD_eq_getElem?_getD, h]

theorem getD_set_ne {α : Type} (l : List α) (q r : Nat) (v d : α) (h : q ≠ r) :
    (l.set q v).getD r d = l.getD r d := by
  simp [List.getD_eq_getElem?_getD, h]

theorem take_succ_getD : ∀ (L : List UInt8) (k : Nat), k < L.length →
    L.take (k + 1) = L.take k ++ [L.getD k 0] := by
  intro L
  induction L with
  | nil => intro k h; simp at h
  | cons x xs ih =>
    intro k h
    cases k with
    | zero => simp
    | succ k =>
      have := ih k (by simpa using h)
      simp [List.take_succ_cons, this]

theorem cntEq_take_succ (L : List UInt8) (k : Nat) (h : k < L.length) (b : Nat) :
    cntEq (L.take (k + 1)) b = cntEq (L.take k) b + (if byteAt L k = b then 1 else 0) := by
  rw [take_succ_getD L k h]
  simp [cntEq, List.countP_append, List.countP_cons, byteAt]

/-- State of the loop after `k` iterations. -/
structure Ik (L : List UInt8) (tt ftab : List Nat) (k : Nat) : Prop where
  ttLen : tt.length = L.length
  ftLen : ftab.length = 256
  ft : ∀ b, b < 256 → ftab.getD b 0 = cntLt L b + cntEq (L.take k) b
  tt : ∀ q, q < L.length → tt.getD q 0 = byteAt L q + S L k q * 256

theorem linkStep_inv (L : List UInt8) (tt ftab : List Nat) (k : Nat) (hk : k < L.length)
    (h : Ik L tt ftab k) :
    Ik L (linkStep (tt, ftab) k).1 (linkStep (tt, ftab) k).2 (k + 1) ∧
      ftab.getD (tt.getD k 0 % 256) 0 = pos L k := by
  have hb := byteAt_lt L k
  have huc : tt.getD k 0 % 256 = byteAt L k := by
    rw [h.tt k hk]; omega
  have hq : ftab.getD (byteAt L k) 0 = pos L k := by
    rw [h.ft _ hb]; rfl
  have hql := pos_lt L k hk
  refine ⟨?_, by rw [huc, hq]⟩
  simp only [linkStep, huc, hq]
  refine ⟨by simp [h.ttLen], by simp [h.ftLen], ?_, ?_⟩
  · intro b hb'
    rw [cntEq_take_succ L k hk b]
    by_cases hbb : byteAt L k = b
    · subst hbb
      rw [getD_set_eq _ _ _ _ (by rw [h.ftLen]; exact hb)]
      have := h.ft _ hb
      rw [hq] at this
      simp; omega
    · rw [getD_set_ne _ _ _ _ _ hbb, h.ft b hb']
      simp [hbb]
  · intro q hq'
    rw [S]
    by_cases hpq : pos L k = q
    · subst hpq
      rw [getD_set_eq _ _ _ _ (by rw [h.ttLen]; exact hql), h.tt _ hql]
      simp [Nat.shiftLeft_eq]; omega
    · rw [getD_set_ne _ _ _ _ _ hpq, h.tt q hq']
      simp [hpq]

theorem foldl_inv (L : List UInt8) (tt0 ftab0 : List Nat) (h0 : Ik L tt0 ftab0 0) :
    ∀ k, k ≤ L.length →
      Ik L ((List.range k).foldl linkStep (tt0, ftab0)).1
        ((List.range k).foldl linkStep (tt0, ftab0)).2 k := by
  intro k
  induction k with
  | zero => intro _; simpa using h0
  | succ k ih =>
    intro hk
    rw [List.range_succ, List.foldl_append]
    simp only [List.foldl_cons, List.foldl_nil]
    exact (linkStep_inv L _ _ k (by omega) (ih (by omega))).1

/-- **The list `decode()` builds** (for every block, given that `ftab` holds
the cumulative byte counts): it has `n` cells; slot `pos L i` holds the byte
`L[pos L i]` and the pointer `i`; every cell keeps its byte and has a pointer
below `n`. -/
theorem link_correct (L : List UInt8) (ftab0 : List Nat) (hf : ftab0.length = 256)
    (hc : ∀ b, b < 256 → ftab0.getD b 0 = cntLt L b) :
    let tt := (link (L.map (·.toNat)) ftab0 L.length).1
    tt.length = L.length ∧
      (∀ i, i < L.length → tt.getD (pos L i) 0 = byteAt L (pos L i) + i * 256) ∧
      (∀ q, q < L.length → tt.getD q 0 % 256 = byteAt L q ∧ tt.getD q 0 >>> 8 < L.length) := by
  have h0 : Ik L (L.map (·.toNat)) ftab0 0 := by
    refine ⟨by simp, hf, ?_, ?_⟩
    · intro b hb; rw [hc b hb]; simp [cntEq_nil]
    · intro q hq
      simp [S, byteAt, List.getD_eq_getElem?_getD, hq]
  have h := foldl_inv L _ _ h0 L.length (Nat.le_refl _)
  simp only [link]
  refine ⟨h.ttLen, ?_, ?_⟩
  · intro i hi
    have hp := pos_lt L i hi
    rw [h.tt _ hp, S_pos L i hi L.length (Nat.le_refl _)]
    simp [hi]
  · intro q hq
    have hb := byteAt_lt L q
    have hs := S_lt L q (by omega)
    rw [h.tt q hq, Nat.shiftRight_eq_div_pow]
    constructor <;> omega

/-! ### `ftab` after the cumulation loop -/

theorem cumulate_getD : ∀ (fs : List Nat) (c b : Nat), b < fs.length →
    (cumulate c fs).getD b 0 = c + (fs.take b).sum := by
  intro fs
  induction fs with
  | nil => intro c b h; simp at h
  | cons f fs ih =>
    intro c b h
    cases b with
    | zero => simp [cumulate]
    | succ b =>
      have := ih (c + f) b (by simpa using h)
      simp only [cumulate, List.getD_cons_succ, List.take_succ_cons, List.sum_cons]
      rw [this]; omega

theorem cumulate_length : ∀ (fs : List Nat) (c : Nat), (cumulate c fs).length = fs.length := by
  intro fs
  induction fs with
  | nil => intro c; simp [cumulate]
  | cons f fs ih => intro c; simp [cumulate, ih]

theorem counts_eq (L : List UInt8) : counts L = (List.range 256).map (cntEq L) := by
  simp [counts, cntEq, List.countP_eq_length_filter]

theorem sum_cntEq (L : List UInt8) : ∀ b, ((List.range b).map (cntEq L)).sum = cntLt L b := by
  intro b
  induction b with
  | zero => simp [cntLt]
  | succ b ih =>
    rw [List.range_succ, List.map_append, List.sum_append, ih, cntLt_succ]
    simp

/-- After `for (i…) ftab[i] = (cum += ftab[i]) - ftab[i]`, `ftab[b]` is the
number of bytes smaller than `b`. -/
theorem cumulate_counts (L : List UInt8) :
    (cumulate 0 (counts L)).length = 256 ∧
      ∀ b, b < 256 → (cumulate 0 (counts L)).getD b 0 = cntLt L b := by
  refine ⟨by simp [cumulate_length, counts], ?_⟩
  intro b hb
  rw [cumulate_getD _ _ _ (by simp [counts]; exact hb), counts_eq, ← List.map_take,
    List.take_range, Nat.min_eq_left (by omega), sum_cntEq]
  simp

/-! ### The traversal stays inside `tt[0,n)` -/

theorem walkMaxPtr_lt (tt : List Nat) (n : Nat) (hn : 0 < n)
    (h : ∀ q, q < n → tt.getD q 0 >>> 8 < n) :
    ∀ (m p : Nat), p >>> 8 < n → walkMaxPtr tt m p < n := by
  intro m
  induction m with
  | zero => intro p _; simpa [walkMaxPtr] using hn
  | succ m ih =>
    intro p hp
    simp only [walkMaxPtr]
    have := ih (tt.getD (p >>> 8) 0) (h _ hp)
    omega

/-- Slots are ordered by (byte, index): `pos L` is the rank of `i` in the
stable sort of the block's bytes. -/
theorem pos_order (L : List UInt8) (i j : Nat) (hi : i < L.length) (hj : j < L.length) :
    pos L i < pos L j ↔
      (byteAt L i < byteAt L j ∨ (byteAt L i = byteAt L j ∧ i < j)) := by
  have key : ∀ a b, a < L.length → b < L.length →
      (byteAt L a < byteAt L b ∨ (byteAt L a = byteAt L b ∧ a < b)) → pos L a < pos L b := by
    intro a b ha hb h
    unfold pos
    rcases h with h | ⟨h, hab⟩
    · have h1 := cntEq_take_lt L a ha
      have h2 := cnt_mono L _ _ h
      omega
    · have := cntEq_take_strict L a b hab hb h
      rw [← h]; omega
  constructor
  · intro hlt
    rcases Nat.lt_trichotomy (byteAt L i) (byteAt L j) with h | h | h
    · exact Or.inl h
    · rcases Nat.lt_trichotomy i j with h' | h' | h'
      · exact Or.inr ⟨h, h'⟩
      · subst h'; omega
      · have := key j i hj hi (Or.inr ⟨h.symm, h'⟩); omega
    · have := key j i hj hi (Or.inl h); omega
  · exact key i j hi hj

/-- The non-randomised `decode()`: the traversal `emit()` performs never
dereferences a pointer `≥ n`. -/
theorem decode_walk_bound (L : List UInt8) (idx : Nat) (hidx : idx < L.length) :
    let d := decode false idx L (counts L)
    walkMaxPtr d.tt L.length d.rleIndex < L.length := by
  obtain ⟨hfl, hfc⟩ := cumulate_counts L
  have hl := link_correct L (cumulate 0 (counts L)) hfl hfc
  simp only at hl
  obtain ⟨_, _, hq⟩ := hl
  simp only [decode, Bool.false_eq_true, if_false]
  exact walkMaxPtr_lt _ L.length (by omega) (fun q hq' => (hq q hq').2) _ _ (hq idx hidx).2

/-- The traversal of the packed list is the textbook "follow the successor
vector" traversal, for the vector of pointers stored in the list. -/
theorem walk_eq_follow (L : List UInt8) (tt : List Nat)
    (h : ∀ q, q < L.length → tt.getD q 0 % 256 = byteAt L q ∧ tt.getD q 0 >>> 8 < L.length) :
    ∀ (m q0 : Nat), q0 < L.length →
      walk tt m (tt.getD q0 0) = Spec.Ibwt.follow L (tt.map (· >>> 8)) m q0 := by
  have hmap : ∀ q, (tt.map (· >>> 8)).getD q 0 = tt.getD q 0 >>> 8 := by
    intro q
    simp only [List.getD_eq_getElem?_getD, List.getElem?_map]
    cases tt[q]? <;> simp
  intro m
  induction m with
  | zero => intro q0 _; simp [walk, Spec.Ibwt.follow]
  | succ m ih =>
    intro q0 hq0
    obtain ⟨_, hp⟩ := h q0 hq0
    obtain ⟨hb, _⟩ := h _ hp
    simp only [walk, Spec.Ibwt.follow, hmap]
    rw [ih _ hp, hb]
    simp [byteAt]

/-- `decode()` (not randomised) + the traversal of `emit()` = following the
successor vector `T` stored in the list, where `T[pos L i] = i`. -/
theorem nodes_eq_follow (L : List UInt8) (idx : Nat) (hidx : idx < L.length) :
    ∃ T : List Nat, T.length = L.length ∧ (∀ i, i < L.length → T.getD (pos L i) 0 = i) ∧
      nodes false idx L = Spec.Ibwt.follow L T L.length idx := by
  obtain ⟨hfl, hfc⟩ := cumulate_counts L
  have hl := link_correct L (cumulate 0 (counts L)) hfl hfc
  simp only at hl
  obtain ⟨hlen, hpos, hq⟩ := hl
  refine ⟨(link (L.map (·.toNat)) (cumulate 0 (counts L)) L.length).1.map (· >>> 8),
    by simp [hlen], ?_, ?_⟩
  · intro i hi
    have hb := byteAt_lt L (pos L i)
    simp only [List.getD_eq_getElem?_getD, List.getElem?_map]
    have := hpos i hi
    simp only [List.getD_eq_getElem?_getD] at this
    cases hx : (link (L.map (·.toNat)) (cumulate 0 (counts L)) L.length).1[pos L i]? with
    | none => simp [hx] at this ⊢; omega
    | some v =>
      simp only [hx, Option.getD_some, Option.map_some] at this ⊢
      rw [this, Nat.shiftRight_eq_div_pow]; omega
  · simp only [nodes, decode, Bool.false_eq_true, if_false]
    exact walk_eq_follow L _ hq L.length idx hidx

end LbzVerif.Lemmas.Ibwt
