/-
  Lemmas.ExpandSched — the abstract input functions of the decompression
  scheduler model (`Model.SchedD.Cfg.parseAt` / `retrieveFrom`) instantiated
  with the concrete functions underlying `Model.Expand.expandFile`, and the
  agreement of the scheduler's sequential reference `seqRun` with `expandRest`.

  * `parsePhase` — the header-parser part of `Model.Expand.go` (iterations up to
    the parser's answer); `go_phase`: `go` = parse phase, then one whole block,
    then `go` again.
  * `startLookupK` / `blockLookupK` — the chain of parse starts / block starts
    of the sequential run, searched for a position.  Position unit: one BIT of
    the zero-padded input after the 4-byte header; the position of a cursor `c`
    is `T - c.size`, `T = 32 · #words`.
  * `cfgOf`, `render` — the instance and the bytes of a sink record.
  * `retrOk_strict` — a block whose `retrieve()` answers OK consumed ≥ 1 bit
    (strictness of `Lemmas.ExpandBlock.blockAt_size`; needed for the clamp `rres`).
  * `seq_go` / `seqRun_expandRest` — `seqRun (cfgOf …)` succeeds with records
    `recs` iff `expandRest` answers `ok (recs.flatMap render)`.
-/
import LbzVerif.Model.SchedD
import LbzVerif.Lemmas.ExpandStep
import LbzVerif.Lemmas.ExpandBlock
import LbzVerif.Lemmas.ExpandLocal

namespace LbzVerif.Lemmas.ExpandSched
open LbzVerif LbzVerif.Model.Expand LbzVerif.Lemmas.RetrieveBits LbzVerif.Lemmas.ExpandBits
open LbzVerif.Lemmas.ExpandStep LbzVerif.Model.SchedD

/-! ### the parse phase of `go` -/

/-- What the header parser answers. -/
inductive PhaseRes where
  /-- OK: the parser state, the bitstream after the 32-bit block CRC, the fuel left -/
  | hdr (p : Gen.ParseSt) (c : Cur) (f : Nat)
  /-- FINISH with `garbage` -/
  | fin (g : Nat) (c : Cur)
  /-- an error code -/
  | err (code : Nat) (c : Cur)
  /-- the fuel of `go` ran out -/
  | fuel

/-- The iterations of `go` up to the parser's answer. -/
def parsePhase : Nat → Gen.ParseSt → Cur → PhaseRes
  | 0, _, _ => .fuel
  | f + 1, p, c =>
    match need16 c with
    | none =>
      if (Gen.parseAtEof p).2 = Gen.RV_FINISH then .fin (Gen.parseAtEof p).1.garbage c
      else .err (Gen.parseAtEof p).2 c
    | some c1 =>
      let r := Gen.parseStep { p with align := false } (c1.v >>> 48)
      let c3 := if r.1.align then alignC (dumpC c1 16) else dumpC c1 16
      match r.2 with
      | none => parsePhase f r.1 c3
      | some rv =>
        if rv = Gen.RV_OK then .hdr r.1 c3 f
        else if rv = Gen.RV_FINISH then .fin r.1.garbage c3
        else .err rv c3

/-- What `go` does with the parser's answer. -/
def goOf (m : Nat) (acc : List UInt8) : PhaseRes → Except Err (List UInt8)
  | .hdr p' c3 f' =>
    match blockAt p'.hdBs100k p'.hdCrc c3 with
    | .error e => .error e
    | .ok (out, c4) => go m f' p' c4 (acc ++ out)
  | .fin g c3 => finishCheck m g c3 acc
  | .err code _ => .error (failCode code)
  | .fuel => .error .fuel

/-- `go` = parse phase; on OK one whole block and `go` again. -/
theorem go_phase (m : Nat) : ∀ (f : Nat) (p : Gen.ParseSt) (c : Cur) (acc : List UInt8),
    go m f p c acc = goOf m acc (parsePhase f p c) := by
  intro f
  induction f with
  | zero => intro p c acc; rfl
  | succ f ih =>
    intro p c acc
    rw [go_succ, parsePhase]
    cases need16 c with
    | none =>
      simp only [atEof]
      by_cases h : (Gen.parseAtEof p).2 = Gen.RV_FINISH
      · rw [if_pos h, if_pos h]; rfl
      · rw [if_neg h, if_neg h]; rfl
    | some c1 =>
      simp only [after]
      generalize Gen.parseStep { p with align := false } (c1.v >>> 48) = r
      obtain ⟨r1, r2⟩ := r
      cases r2 with
      | none => exact ih _ _ _
      | some rv =>
        simp only
        by_cases h0 : rv = Gen.RV_OK
        · rw [if_pos h0, if_pos h0]; rfl
        · rw [if_neg h0, if_neg h0]
          by_cases h2 : rv = Gen.RV_FINISH
          · rw [if_pos h2, if_pos h2]; rfl
          · rw [if_neg h2, if_neg h2]; rfl

/-- an OK answer used up fuel -/
theorem parsePhase_fuel : ∀ (f : Nat) (p : Gen.ParseSt) (c : Cur) (p' : Gen.ParseSt) (c3 : Cur) (f' : Nat),
    parsePhase f p c = .hdr p' c3 f' → f' < f := by
  intro f
  induction f with
  | zero => intro p c p' c3 f' h; cases h
  | succ f ih =>
    intro p c p' c3 f' h
    rw [parsePhase] at h
    cases hn : need16 c with
    | none =>
      rw [hn] at h
      simp only at h
      split at h <;> cases h
    | some c1 =>
      rw [hn] at h
      simp only at h
      generalize Gen.parseStep { p with align := false } (c1.v >>> 48) = r at h
      obtain ⟨r1, r2⟩ := r
      cases r2 with
      | none => have := ih _ _ _ _ _ h; omega
      | some rv =>
        simp only at h
        split at h
        · cases h; omega
        · split at h <;> cases h

/-- one word read (and possibly `bits_align`): the bitstream afterwards -/
theorem step_cur (c c1 : Cur) (inv : BufInv c.v c.w) (hn : need16 c = some c1) (al : Bool) :
    BufInv (if al then alignC (dumpC c1 16) else dumpC c1 16).v
      (if al then alignC (dumpC c1 16) else dumpC c1 16).w ∧
    (if al then alignC (dumpC c1 16) else dumpC c1 16).size + 16 ≤ c.size ∧
    (if al then alignC (dumpC c1 16) else dumpC c1 16).w ≤ 48 := by
  have hr := read16 c inv
  rw [hn] at hr
  obtain ⟨h16, _, a2, a3, a4⟩ := hr
  have hs : (dumpC c1 16).size + 16 = c.size := by
    have := congrArg List.length a2
    rw [List.length_drop, bitsC_length] at this
    rw [bitsC_length] at this h16
    omega
  cases al with
  | false => exact ⟨a3, by simp only [Bool.false_eq_true, if_false]; omega, a4⟩
  | true =>
    simp only [if_true]
    obtain ⟨b1, b2, b3⟩ := align_bits (dumpC c1 16) a3
    refine ⟨b2, ?_, by omega⟩
    have := congrArg List.length b1
    rw [List.length_drop, bitsC_length, bitsC_length] at this
    omega

/-- an OK answer: the block's bitstream is well-formed, at least 16 bits were read -/
theorem parsePhase_hdr : ∀ (f : Nat) (p : Gen.ParseSt) (c : Cur) (p' : Gen.ParseSt) (c3 : Cur) (f' : Nat),
    BufInv c.v c.w → parsePhase f p c = .hdr p' c3 f' →
    BufInv c3.v c3.w ∧ c3.size + 16 ≤ c.size ∧ c3.w ≤ 48 := by
  intro f
  induction f with
  | zero => intro p c p' c3 f' _ h; cases h
  | succ f ih =>
    intro p c p' c3 f' inv h
    rw [parsePhase] at h
    cases hn : need16 c with
    | none =>
      rw [hn] at h
      simp only at h
      split at h <;> cases h
    | some c1 =>
      rw [hn] at h
      simp only at h
      generalize Gen.parseStep { p with align := false } (c1.v >>> 48) = r at h
      obtain ⟨r1, r2⟩ := r
      obtain ⟨s1, s2, s3⟩ := step_cur c c1 inv hn r1.align
      cases r2 with
      | none =>
        obtain ⟨t1, t2, t3⟩ := ih _ _ _ _ _ s1 h
        exact ⟨t1, by omega, t3⟩
      | some rv =>
        simp only at h
        split at h
        · cases h; exact ⟨s1, s2, s3⟩
        · split at h <;> cases h

/-! ### a retrieved block is not empty -/

/-- `parseBlock` reads the 32-bit CRC and at least one more bit. -/
theorem parseBlock_strict (level start : Nat) (X : Basic.Bits) (b : Spec.Bzip2.Block) (rest : Basic.Bits)
    (h : Spec.Bzip2.parseBlock level start X = .ok (b, rest)) : rest.length + 33 ≤ X.length := by
  obtain ⟨C, e, hY⟩ := Lemmas.ExpandLocal.parseBlock_local level start X b rest h
  have h0 := hY []
  rw [List.append_nil] at h0
  have hC : 33 ≤ C.length := by
    unfold Spec.Bzip2.parseBlock at h0
    split at h0
    · cases h0
    rename_i crc bits1 h1
    have l1 := Basic.takeNat_length h1
    split at h0
    · cases h0
    rename_i rnd bits2 h2
    have l2 := Basic.takeNat_length h2
    omega
  rw [e, List.length_append]; omega

/-- `retrieve()` for the block starting at `c` answered OK. -/
def retrOk (c : Cur) : Bool :=
  match (Model.Retrieve.retrieve (Model.Retrieve.St.start c.v c.w) c.ws true).status with
  | .ok => true
  | _ => false

/-- where `retrieve()` for the block starting at `c` stopped -/
def endCur (c : Cur) : Cur :=
  ⟨(Model.Retrieve.retrieve (Model.Retrieve.St.start c.v c.w) c.ws true).st.v,
   (Model.Retrieve.retrieve (Model.Retrieve.St.start c.v c.w) c.ws true).st.w,
   (Model.Retrieve.retrieve (Model.Retrieve.St.start c.v c.w) c.ws true).rest⟩

/-- **strictness of `blockAt_size`**: an OK `retrieve()` consumed at least one bit
    (through `Props.C05.Block.retrieve_sound`: the oracle's `parseBlock` reads ≥ 1 bit after
    the CRC). -/
theorem retrOk_strict (c : Cur) (inv : BufInv c.v c.w) (hw : c.w ≤ 63) (h : retrOk c = true) :
    BufInv (endCur c).v (endCur c).w ∧ (endCur c).size < c.size := by
  have hok : (Model.Retrieve.retrieve (Model.Retrieve.St.start c.v c.w) c.ws true).status = .ok := by
    unfold retrOk at h
    split at h
    · assumption
    · cases h
  obtain ⟨i, _⟩ := Lemmas.ExpandBlock.retrieve_ok_cur c inv hok
  refine ⟨i, ?_⟩
  have h32 : Basic.takeNat 32 (List.replicate 32 false ++ bitsC c) =
      some (Basic.bitsToNat (List.replicate 32 false),
        bitsOf (Model.Retrieve.St.start c.v c.w) c.ws) := by
    have := Basic.takeNat_append (List.replicate 32 false) (bitsC c)
    rw [List.length_replicate] at this
    exact this
  obtain ⟨b, _, hp, _⟩ := Props.C05.Block.retrieve_sound c.v c.w c.ws true inv hw hok 0 0 _ _ h32
  have hs := parseBlock_strict _ _ _ _ _ hp
  have e1 : bitsOf (Model.Retrieve.retrieve (Model.Retrieve.St.start c.v c.w) c.ws true).st
      (Model.Retrieve.retrieve (Model.Retrieve.St.start c.v c.w) c.ws true).rest = bitsC (endCur c) := rfl
  rw [e1, bitsC_length, List.length_append, List.length_replicate, bitsC_length] at hs
  omega

theorem blockAt_ok_end (l crc : Nat) (c c4 : Cur) (out : List UInt8)
    (h : blockAt l crc c = .ok (out, c4)) : retrOk c = true ∧ c4 = endCur c := by
  obtain ⟨hok, _, _, _, _, rfl⟩ := (Lemmas.ExpandBlock.blockAt_ok_iff l crc c c4 out).mp h
  refine ⟨?_, rfl⟩
  unfold retrOk
  rw [hok]

/-! ### FINISH -/

/-- the ERR_EOF zero-padding test of the FINISH path passes -/
def finOk (m g : Nat) (c : Cur) : Bool :=
  match finishCheck m g c [] with
  | .ok _ => true
  | .error _ => false

theorem finishCheck_finOk (m g : Nat) (c : Cur) (acc : List UInt8) :
    finishCheck m g c acc = if finOk m g c then .ok acc else .error (.data Gen.ERR_EOF) := by
  have key : ∀ (P : Prop) [Decidable P],
      (if P then (.error (.data Gen.ERR_EOF) : Except Err (List UInt8)) else .ok acc) =
      if (match (if P then (.error (.data Gen.ERR_EOF) : Except Err (List UInt8)) else .ok []) with
          | .ok _ => true
          | .error _ => false) = true
      then .ok acc else .error (.data Gen.ERR_EOF) := by
    intro P _
    by_cases h : P <;> simp [h]
  unfold finOk finishCheck
  exact key _

/-! ### the chain of parse starts and block starts, searched for a position -/

/-- The parse phase of the sequential run that starts at position `q` (with the fuel and the
    parser state `go` has there), searched from `(f, p, c)` on; `k` bounds the number of blocks
    walked over (`f ≤ k` suffices: every parse phase uses up fuel). -/
def startLookupK (T q : Nat) : Nat → Nat → Gen.ParseSt → Cur → Option (Nat × Gen.ParseSt × Cur)
  | 0, f, p, c => if T - c.size = q then some (f, p, c) else none
  | k + 1, f, p, c =>
    if T - c.size = q then some (f, p, c)
    else
      match parsePhase f p c with
      | .hdr p' c3 f' =>
        match blockAt p'.hdBs100k p'.hdCrc c3 with
        | .ok (_, c4) => startLookupK T q k f' p' c4
        | .error _ => none
      | _ => none

/-- The block of the sequential run whose data starts at position `b`: the parser state that
    holds its header and its bitstream. -/
def blockLookupK (T b : Nat) : Nat → Nat → Gen.ParseSt → Cur → Option (Gen.ParseSt × Cur)
  | 0, _, _, _ => none
  | k + 1, f, p, c =>
    match parsePhase f p c with
    | .hdr p' c3 f' =>
      if T - c3.size = b then some (p', c3)
      else
        match blockAt p'.hdBs100k p'.hdCrc c3 with
        | .ok (_, c4) => blockLookupK T b k f' p' c4
        | .error _ => none
    | _ => none

theorem startLookupK_self (T q k f : Nat) (p : Gen.ParseSt) (c : Cur) (h : T - c.size = q) :
    startLookupK T q k f p c = some (f, p, c) := by
  cases k <;> simp only [startLookupK, if_pos h]

theorem startLookupK_step (T q k f : Nat) (p : Gen.ParseSt) (c : Cur) (h : T - c.size ≠ q)
    (p' : Gen.ParseSt) (c3 : Cur) (f' : Nat) (hp : parsePhase f p c = .hdr p' c3 f')
    (out : List UInt8) (c4 : Cur) (hb : blockAt p'.hdBs100k p'.hdCrc c3 = .ok (out, c4)) :
    startLookupK T q (k + 1) f p c = startLookupK T q k f' p' c4 := by
  simp only [startLookupK, if_neg h, hp, hb]

theorem blockLookupK_self (T b k f : Nat) (p : Gen.ParseSt) (c : Cur)
    (p' : Gen.ParseSt) (c3 : Cur) (f' : Nat) (hp : parsePhase f p c = .hdr p' c3 f')
    (h : T - c3.size = b) : blockLookupK T b (k + 1) f p c = some (p', c3) := by
  simp only [blockLookupK, hp, if_pos h]

theorem blockLookupK_step (T b k f : Nat) (p : Gen.ParseSt) (c : Cur)
    (p' : Gen.ParseSt) (c3 : Cur) (f' : Nat) (hp : parsePhase f p c = .hdr p' c3 f')
    (h : T - c3.size ≠ b)
    (out : List UInt8) (c4 : Cur) (hb : blockAt p'.hdBs100k p'.hdCrc c3 = .ok (out, c4)) :
    blockLookupK T b (k + 1) f p c = blockLookupK T b k f' p' c4 := by
  simp only [blockLookupK, hp, if_neg h, hb]

/-! ### the instance -/

/-- what `parse()` does at the parse start found by the lookup (`.err q`: no parse of the
    sequential run starts at `q`) -/
def classify (m T q : Nat) : Option (Nat × Gen.ParseSt × Cur) → PRes
  | none => .err q
  | some (f, p, c) =>
    match parsePhase f p c with
    | .hdr _ c3 _ => .hdr (T - c3.size)
    | .fin g c3 => .finish (T - c3.size) (finOk m g c3)
    | .err _ c3 => .err (T - c3.size)
    | .fuel => .err q

def isOk {ε α : Type} : Except ε α → Bool
  | .ok _ => true
  | .error _ => false

/-- what retrieve / decode / emit / the tests of `do_reorder` do for the block found by the
    lookup (one output buffer) -/
def rOf (T b : Nat) : Option (Gen.ParseSt × Cur) → RRes
  | none => { ok := false, e := b, nb := 1, fin := false }
  | some (p', c3) =>
    { ok := retrOk c3, e := T - (endCur c3).size, nb := 1,
      fin := isOk (blockAt p'.hdBs100k p'.hdCrc c3) }

/-- the bytes of the block found by the lookup -/
def renOf : Option (Gen.ParseSt × Cur) → List UInt8
  | none => []
  | some (p', c3) =>
    match blockAt p'.hdBs100k p'.hdCrc c3 with
    | .ok (out, _) => out
    | .error _ => []

/-- The scheduler model's configuration for the file whose header announced level `bs100k`
    and whose remaining bytes are `rest`.  Position unit: one bit of the zero-padded input. -/
def cfgOf (bs100k : Nat) (rest : List UInt8) (n W totalIn totalOut : Nat) (ultra : Bool)
    (cand : List Nat) : Cfg :=
  { n := n, W := W, T := 32 * (toWords (padded rest)).length,
    totalIn := totalIn, totalOut := totalOut, ultra := ultra, cand := cand,
    parseAt := fun q =>
      classify (missingOf rest.length) (32 * (toWords (padded rest)).length) q
        (startLookupK (32 * (toWords (padded rest)).length) q
          (32 * (toWords (padded rest)).length + 1) (32 * (toWords (padded rest)).length + 1)
          (Gen.parserInit bs100k false) ⟨0, 0, toWords (padded rest)⟩),
    retrieveFrom := fun b =>
      rOf (32 * (toWords (padded rest)).length) b
        (blockLookupK (32 * (toWords (padded rest)).length) b
          (32 * (toWords (padded rest)).length + 1) (32 * (toWords (padded rest)).length + 1)
          (Gen.parserInit bs100k false) ⟨0, 0, toWords (padded rest)⟩) }

/-- The bytes of a sink record: `(b, 0)` is the one buffer of the block whose data starts at
    position `b`. -/
def render (bs100k : Nat) (rest : List UInt8) (r : Nat × Nat) : List UInt8 :=
  if r.2 = 0 then
    renOf (blockLookupK (32 * (toWords (padded rest)).length) r.1
      (32 * (toWords (padded rest)).length + 1) (32 * (toWords (padded rest)).length + 1)
      (Gen.parserInit bs100k false) ⟨0, 0, toWords (padded rest)⟩)
  else []

/-! ### the sequential reference, one step -/

theorem seqFrom_err (cfg : Cfg) (F p u : Nat) (h : pres cfg p = .err u) :
    seqFrom cfg (F + 1) p = ([], false) := by
  simp only [seqFrom, h]

theorem seqFrom_fin (cfg : Cfg) (F p u : Nat) (ok : Bool) (h : pres cfg p = .finish u ok) :
    seqFrom cfg (F + 1) p = ([], ok) := by
  simp only [seqFrom, h]

theorem seqFrom_hdr_bad (cfg : Cfg) (F p b : Nat) (h : pres cfg p = .hdr b)
    (ho : (blockOut cfg b 0).2 = false) : (seqFrom cfg (F + 1) p).2 = false := by
  simp only [seqFrom, h, ho, Bool.false_eq_true, if_false]

theorem seqFrom_hdr_ok (cfg : Cfg) (F p b : Nat) (h : pres cfg p = .hdr b) (o : List (Nat × Nat))
    (ho : blockOut cfg b 0 = (o, true)) :
    seqFrom cfg (F + 1) p =
      (o ++ (seqFrom cfg F (rres cfg b).e).1, (seqFrom cfg F (rres cfg b).e).2) := by
  simp only [seqFrom, h, ho, if_true]

theorem blockOut_bad (cfg : Cfg) (b : Nat) (h : (rres cfg b).fin = false) :
    (blockOut cfg b 0).2 = false := by
  unfold blockOut
  simp only [h, Bool.false_eq_true, if_false]
  split <;> rfl

theorem rres_fin_false (cfg : Cfg) (b : Nat) (h : (cfg.retrieveFrom b).fin = false) :
    (rres cfg b).fin = false := by
  unfold rres
  simp only
  split
  · exact h
  · rfl

/-! ### the sequential reference is `go` -/

/-- **Core lemma.**  `cfg.parseAt`, `cfg.retrieveFrom` and `ren` agree, from the position of
    `c` on, with the chain of parse phases and blocks that `go` walks from `(f, p, c)`.  Then the
    sequential reference started at the position of `c` succeeds iff `go` does, and `go`'s
    output is `acc` followed by the rendered sink records. -/
theorem seq_go (cfg : Cfg) (m : Nat) (ren : Nat × Nat → List UInt8) :
    ∀ (F k f : Nat) (p : Gen.ParseSt) (c : Cur) (acc : List UInt8),
      f ≤ k → BufInv c.v c.w → c.size ≤ cfg.T → c.size < F →
      (∀ q, cfg.T - c.size ≤ q →
        cfg.parseAt q = classify m cfg.T q (startLookupK cfg.T q k f p c)) →
      (∀ b, cfg.T - c.size < b →
        cfg.retrieveFrom b = rOf cfg.T b (blockLookupK cfg.T b k f p c)) →
      (∀ b, cfg.T - c.size < b → ren (b, 0) = renOf (blockLookupK cfg.T b k f p c)) →
      ((seqFrom cfg F (cfg.T - c.size)).2 = true →
        go m f p c acc = .ok (acc ++ (seqFrom cfg F (cfg.T - c.size)).1.flatMap ren)) ∧
      ((seqFrom cfg F (cfg.T - c.size)).2 = false → ∃ e, go m f p c acc = .error e) := by
  intro F
  induction F with
  | zero => intro k f p c acc _ _ _ h; omega
  | succ F ih =>
    intro k f p c acc hk inv hT hF HP HR HN
    have hP0 := HP (cfg.T - c.size) (Nat.le_refl _)
    rw [startLookupK_self _ _ _ _ _ _ rfl] at hP0
    rw [go_phase]
    cases hph : parsePhase f p c with
    | fuel =>
      have hpres : pres cfg (cfg.T - c.size) = .err (cfg.T - c.size) := by
        unfold pres; rw [hP0]; simp only [classify, hph]
      rw [seqFrom_err _ _ _ _ hpres]
      exact ⟨fun h => (by simp at h), fun _ => ⟨_, rfl⟩⟩
    | err code c3 =>
      have hpres : pres cfg (cfg.T - c.size) = .err (cfg.T - c3.size) := by
        unfold pres; rw [hP0]; simp only [classify, hph]
      rw [seqFrom_err _ _ _ _ hpres]
      exact ⟨fun h => (by simp at h), fun _ => ⟨_, rfl⟩⟩
    | fin g c3 =>
      have hpres : pres cfg (cfg.T - c.size) = .finish (cfg.T - c3.size) (finOk m g c3) := by
        unfold pres; rw [hP0]; simp only [classify, hph]
      rw [seqFrom_fin _ _ _ _ _ hpres]
      simp only [goOf]
      rw [finishCheck_finOk]
      constructor
      · intro h
        rw [if_pos h, List.flatMap_nil, List.append_nil]
      · intro h
        rw [h]
        exact ⟨_, rfl⟩
    | hdr p' c3 f' =>
      obtain ⟨i3, s3, w3⟩ := parsePhase_hdr f p c p' c3 f' inv hph
      have hf' := parsePhase_fuel _ _ _ _ _ _ hph
      obtain ⟨k', rfl⟩ : ∃ k', k = k' + 1 := ⟨k - 1, by omega⟩
      have hpres : pres cfg (cfg.T - c.size) = .hdr (cfg.T - c3.size) := by
        unfold pres; rw [hP0]; simp only [classify, hph]
        rw [if_pos ⟨by omega, by omega⟩]
      have hR0 := HR (cfg.T - c3.size) (by omega)
      rw [blockLookupK_self _ _ _ _ _ _ _ _ _ hph rfl] at hR0
      have hN0 := HN (cfg.T - c3.size) (by omega)
      rw [blockLookupK_self _ _ _ _ _ _ _ _ _ hph rfl] at hN0
      simp only [goOf]
      cases hb : blockAt p'.hdBs100k p'.hdCrc c3 with
      | error e =>
        have h1 : (cfg.retrieveFrom (cfg.T - c3.size)).fin = false := by
          rw [hR0]; simp only [rOf, hb, isOk]
        have h2 := seqFrom_hdr_bad cfg F _ _ hpres (blockOut_bad cfg _ (rres_fin_false cfg _ h1))
        simp only
        exact ⟨fun h => (by rw [h2] at h; cases h), fun _ => ⟨e, rfl⟩⟩
      | ok oc =>
        obtain ⟨out, c4⟩ := oc
        obtain ⟨hro, rfl⟩ := blockAt_ok_end _ _ _ _ _ hb
        obtain ⟨i4, s4⟩ := retrOk_strict c3 i3 (by omega) hro
        have hrr : rres cfg (cfg.T - c3.size) =
            { ok := true, e := cfg.T - (endCur c3).size, nb := 1, fin := true } := by
          unfold rres
          rw [hR0]
          simp only [rOf, hro, hb, isOk]
          rw [if_pos ⟨trivial, by omega, by omega⟩]
          rfl
        have hbo : blockOut cfg (cfg.T - c3.size) 0 = ([(cfg.T - c3.size, 0)], true) := by
          unfold blockOut
          rw [hrr]
          rfl
        rw [seqFrom_hdr_ok _ _ _ _ hpres _ hbo, hrr]
        simp only
        have hren : ren (cfg.T - c3.size, 0) = out := by
          rw [hN0]; simp only [renOf, hb]
        have IH := ih k' f' p' (endCur c3) (acc ++ out) (by omega) i4 (by omega) (by omega)
          (by
            intro q hq
            rw [HP q (by omega), startLookupK_step _ _ _ _ _ _ (by omega) _ _ _ hph _ _ hb])
          (by
            intro b hq
            rw [HR b (by omega), blockLookupK_step _ _ _ _ _ _ _ _ _ hph (by omega) _ _ hb])
          (by
            intro b hq
            rw [HN b (by omega), blockLookupK_step _ _ _ _ _ _ _ _ _ hph (by omega) _ _ hb])
        constructor
        · intro h
          rw [IH.1 h, List.singleton_append, List.flatMap_cons, hren, List.append_assoc]
        · intro h
          exact IH.2 h

/-- **`seqRun` of the instance is `expandRest`.** -/
theorem seqRun_expandRest (bs100k : Nat) (rest : List UInt8) (n W totalIn totalOut : Nat)
    (ultra : Bool) (cand : List Nat) :
    ((seqRun (cfgOf bs100k rest n W totalIn totalOut ultra cand)).2 = true →
      expandRest bs100k rest =
        .ok ((seqRun (cfgOf bs100k rest n W totalIn totalOut ultra cand)).1.flatMap
          (render bs100k rest))) ∧
    ((seqRun (cfgOf bs100k rest n W totalIn totalOut ultra cand)).2 = false →
      ∃ e, expandRest bs100k rest = .error e) := by
  have hsz : (⟨0, 0, toWords (padded rest)⟩ : Cur).size =
      (cfgOf bs100k rest n W totalIn totalOut ultra cand).T := by
    simp only [Cur.size, cfgOf, Nat.zero_add]
  have h := seq_go (cfgOf bs100k rest n W totalIn totalOut ultra cand) (missingOf rest.length)
    (render bs100k rest) ((cfgOf bs100k rest n W totalIn totalOut ultra cand).T + 1)
    (32 * (toWords (padded rest)).length + 1) (32 * (toWords (padded rest)).length + 1)
    (Gen.parserInit bs100k false) ⟨0, 0, toWords (padded rest)⟩ [] (Nat.le_refl _) bufInv_start
    (by rw [hsz]; exact Nat.le_refl _) (by rw [hsz]; omega)
    (fun q _ => rfl) (fun b _ => rfl)
    (fun b _ => by simp only [render, if_true]; rfl)
  rw [hsz, Nat.sub_self] at h
  simp only [List.nil_append] at h
  exact h

/-! ### witnesses (kernel-evaluated; used by the non-vacuity examples of Props/C09/File.lean) -/

/-- the 37 bytes `bzip2 -9` makes of the one-byte file "a" -/
def fileA : List UInt8 :=
  [0x42, 0x5a, 0x68, 0x39, 0x31, 0x41, 0x59, 0x26, 0x53, 0x59, 0x19, 0x93, 0x9b, 0x6b, 0x00, 0x00,
   0x00, 0x01, 0x00, 0x20, 0x00, 0x20, 0x00, 0x21, 0x18, 0x46, 0x82, 0xee, 0x48, 0xa7, 0x0a, 0x12,
   0x03, 0x32, 0x73, 0x6d, 0x60]

/-- two workers, the whole input in one input block -/
def cfgA : Cfg := cfgOf 9 (fileA.drop 4) 2 1000 2 2 false []

/-- a complete run of `cfgA`: the block's data starts at bit 80 -/
def traceA : List Label :=
  [.rTake, .rBlock, .rEof, .parseStart, .parseEnd,
   .retrStart { curr := 80, base := 80, ub := none, corrupt := false },
   .scanStart 0, .scanEnd 80 0,
   .retrEnd { curr := 80, base := 80, ub := none, corrupt := false } (some 0),
   .parseStart, .parseEnd,
   .retrPost { base := 80, idx := 0, left := 1, ok := true, corrupt := false },
   .emitStart { base := 80, idx := 0, left := 1, ok := true, corrupt := false },
   .emitEnd { base := 80, idx := 0, left := 1, ok := true, corrupt := false },
   .reorder { base := 80, idx := 0, st := .ok, corrupt := false },
   .wDone]

/-- one worker, input blocks of 64 bits (five of them), three slots, `ultra`, a spurious
    scanner candidate -/
def cfgB : Cfg := cfgOf 9 (fileA.drop 4) 1 64 3 3 true [100]

/-- a complete run of `cfgB`: the parser and the retriever cross input-block boundaries
    (`parse()` / `retrieve()` return MORE) -/
def traceB : List Label :=
  [.rTake, .rBlock, .rTake, .rBlock, .rTake, .rBlock, .parseStart, .parseEnd, .rTake, .rBlock,
   .parseStart, .parseEnd,
   .retrStart { curr := 80, base := 80, ub := none, corrupt := false },
   .retrEnd { curr := 80, base := 80, ub := none, corrupt := false } (some 1),
   .rTake, .rBlock, .rEof,
   .retrStart { curr := 128, base := 80, ub := none, corrupt := false },
   .retrEnd { curr := 128, base := 80, ub := none, corrupt := false } (some 2),
   .retrPost { base := 80, idx := 0, left := 1, ok := true, corrupt := false },
   .emitStart { base := 80, idx := 0, left := 1, ok := true, corrupt := false },
   .emitEnd { base := 80, idx := 0, left := 1, ok := true, corrupt := false },
   .reorder { base := 80, idx := 0, st := .ok, corrupt := false },
   .wDone, .parseStart, .parseEnd, .parseStart, .parseEnd, .parseStart, .parseEnd]

/-- `traceA` is a run of `cfgA` that terminates having handed `(80, 0)` to the sink (the
    parser, retriever, decoder, emitter and CRC of the model evaluated on `fileA`) -/
theorem runA_terminates : (run cfgA (init cfgA) traceA).any
    (fun s => terminated cfgA s && decide (s.written = [(80, 0)])) = true := by decide +kernel

theorem runB_terminates : (run cfgB (init cfgB) traceB).any
    (fun s => terminated cfgB s && decide (s.written = [(80, 0)])) = true := by decide +kernel

/-- the record `(80, 0)` of `fileA` is the byte "a" -/
theorem render_fileA : render 9 (fileA.drop 4) (80, 0) = [97] := by decide +kernel

end LbzVerif.Lemmas.ExpandSched
