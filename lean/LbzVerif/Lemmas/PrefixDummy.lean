/-
  Lemmas.PrefixDummy — the one heavy kernel computation of W11, isolated:
  for each of the 256 alphabet sizes 3…258, `Gen.cl0` (regenerated from
  encode.c) equals ⌊log₂ as⌋ and the dummy second table is a complete code.
  (About two minutes of kernel time; rebuilt only when Gen.Consts changes.)
-/
import LbzVerif.Spec.Prefix
import LbzVerif.Model.Canon

namespace LbzVerif.Lemmas.PrefixDummy
open LbzVerif LbzVerif.Spec.Prefix LbzVerif.Model.Canon

/-- Executable form of the statement, one alphabet size. -/
def dummyOK (as : Nat) : Bool :=
  decide (Gen.cl0 as = Nat.log2 as) && decide (Complete (dummyLens as)) &&
    decide ((dummyLens as).length = as)

theorem dummyOK_all : ∀ k, k < 256 → dummyOK (k + 3) = true := by decide +kernel

end LbzVerif.Lemmas.PrefixDummy
