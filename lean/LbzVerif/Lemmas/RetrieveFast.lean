/-
  Lemmas.RetrieveFast — the FAST branch of the group loop of `retrieve()`
  (`fastLoop`: `NEED_FAST`, locals, tree pointer computed once) against the
  SLOW branch (`stepPrefix` under `NEED(S_PREFIX)`), for `Model.Retrieve`.

  * `fastLoop_no_overread`: with `20·n + 12 ≤ 32·|words| + live bits` (true
    at the top of a group when ≥ 32 words remain) `NEED_FAST` never finds the
    segment exhausted;
  * `slow_eq_fast`: under the same condition the slow branch, fed the same
    words, ends the group in exactly the same way (same state at the next
    group top / same final result / same error, same unread words);
  * `groups_fast_eq_slow`, `run_fast_eq_slow`: hence the retriever with the
    fast branch equals the retriever without it, on every input.
-/
import LbzVerif.Lemmas.RetrieveSplit
import LbzVerif.Lemmas.DeltaFastpath

set_option linter.unusedSimpArgs false

namespace LbzVerif.Lemmas.RetrieveFast
open LbzVerif LbzVerif.Model.Retrieve LbzVerif.Lemmas.RetrieveSplit
open LbzVerif.Model.MtfDec (RunSt)
open LbzVerif.Model

/-! ### `drain` does not depend on its fuel; one step of `toTop` -/

theorem drain_fuel : ∀ (f1 f2 : Nat) (st : St), st.w < f1 → st.w < f2 →
    drain f1 st = drain f2 st := by
  intro f1
  induction f1 with
  | zero => intro f2 st h; omega
  | succ f1 ih =>
    intro f2 st h1 h2
    cases f2 with
    | zero => omega
    | succ f2 =>
      unfold drain
      split
      · rfl
      · cases step st with
        | cont st' =>
          simp only
          split
          · exact ih f2 st' (by omega) (by omega)
          · rfl
        | top st' => rfl
        | done r st' => rfl

theorem toTop_step (st : St) (ws : List Nat) (hw : 32 ≤ st.w) :
    toTop st ws = match step st with
      | .cont st' => if st'.w < st.w then toTop st' ws else .halt .ub St.blank ws
      | .top st' => .top st' ws
      | .done r st' => .halt r st' ws := by
  have hd : drain (st.w + 1) st = match step st with
      | .cont st' => if st'.w < st.w then drain (st'.w + 1) st' else .done .ub St.blank
      | .top st' => .top st'
      | .done r st' => .done r st' := by
    rw [drain]
    rw [if_neg (by omega)]
    cases step st with
    | cont st' =>
      simp only
      split
      · exact drain_fuel _ _ _ (by omega) (by omega)
      · rfl
    | top st' => rfl
    | done r st' => rfl
  cases ws with
  | nil =>
    rw [toTop, hd]
    cases step st with
    | cont st' =>
      simp only
      by_cases hlt : st'.w < st.w
      · rw [if_pos hlt, if_pos hlt]; rw [toTop]
      · rw [if_neg hlt, if_neg hlt]
    | top st' => rfl
    | done r st' => rfl
  | cons x ws' =>
    rw [toTop, hd]
    cases step st with
    | cont st' =>
      simp only
      by_cases hlt : st'.w < st.w
      · rw [if_pos hlt, if_pos hlt]; rw [toTop]
      · rw [if_neg hlt, if_neg hlt]
    | top st' => rfl
    | done r st' => rfl

/-! ### one group: slow branch = fast branch -/

/-- The slow branch's state at `NEED(S_PREFIX)` for symbol `j` of the group
entered from `st1` (the state after tree selection). -/
def slowSt (st1 : St) (j v w : Nat) (rs : RunSt) : St :=
  { st1 with pc := .prefix, j := j, v := v, w := w, run := rs }

/-- What the fast branch makes of the result of its loop (text of `fastGroup`). -/
def wrapFast (st1 : St) : FastRes → Out
  | .next v w ws' rs =>
    .top { st1 with v := v, w := w, run := rs, j := 0, g := st1.g + 1, pc := .prefix } ws'
  | .eob v w ws' rs =>
    ofStep (eobFinish { st1 with v := v, w := w, run := { rs with shift := st1.run.shift } }) ws'
  | .stop r ws' => .halt r St.blank ws'

theorem fastGroup_eq (st1 : St) (T : Canon.Tree) (hT : st1.trees.getD st1.t none = some T)
    (ws : List Nat) :
    fastGroup st1 ws = wrapFast st1 (fastLoop T Gen.GROUP_SIZE st1.v st1.w ws st1.run) := by
  unfold fastGroup
  rw [hT]
  simp only
  cases fastLoop T Gen.GROUP_SIZE st1.v st1.w ws st1.run <;> rfl

/-- Code lengths returned by the lookup are at most 20. -/
theorem lookup_len_le (T : Canon.Tree) (v s k : Nat) (h : Canon.lookup T v = some (s, k)) :
    k ≤ 20 := by
  have hsw : Canon.SW = 10 := rfl
  have hml : Canon.MAXL = 20 := rfl
  unfold Canon.lookup at h
  simp only at h
  split at h
  · rename_i hk
    simp only [Option.some.injEq, Prod.mk.injEq] at h
    omega
  · split at h
    · cases h
    · rename_i hk
      split at h
      · simp only [Option.some.injEq, Prod.mk.injEq] at h
        omega
      · cases h

/-- `eobFinish` looks only at the position, `rand`, `bwt_idx` and the run
state except `shift`. -/
theorem eobFinish_congr (a b : St) (hv : a.v = b.v) (hw : a.w = b.w) (hr : a.rand = b.rand)
    (hi : a.bwtIdx = b.bwtIdx) (h1 : a.run.run = b.run.run) (h2 : a.run.n = b.run.n)
    (h3 : a.run.runChar = b.run.runChar) (h4 : a.run.out = b.run.out)
    (h5 : a.run.ftab = b.run.ftab) : eobFinish a = eobFinish b := by
  unfold eobFinish St.final MtfDec.flush
  simp only [hv, hw, hr, hi, h1, h2, h3, h4, h5]

theorem ofStep_eobFinish (st : St) (ws : List Nat) :
    ofStep (eobFinish st) ws = match eobFinish st with
      | .done r s => .halt r s ws
      | _ => .halt .ub St.blank ws := by
  obtain ⟨r, s', he⟩ := eobFinish_done st
  rw [he]; rfl

/-- What `toTop` does with the outcome of a step taken with `w` live bits. -/
def afterStep (w : Nat) (ws : List Nat) : Step → Out
  | .cont st' => if st'.w < w then toTop st' ws else .halt .ub St.blank ws
  | .top st' => .top st' ws
  | .done r st' => .halt r st' ws

theorem toTop_step' (st : St) (ws : List Nat) (hw : 32 ≤ st.w) :
    toTop st ws = afterStep st.w ws (step st) := by
  rw [toTop_step st ws hw]
  cases step st <;> rfl

/-- The slow branch's loop body on the state `slowSt …`. -/
theorem stepPrefix_slowSt (st1 : St) (T : Canon.Tree) (hT : st1.trees.getD st1.t none = some T)
    (j v w : Nat) (rs : RunSt) :
    stepPrefix (slowSt st1 j v w rs) =
      match Canon.lookup T v with
      | none => ubS
      | some (s, k) =>
        if k = 0 ∨ w < k then ubS
        else
          match symStep rs s with
          | .eob => eobFinish (slowSt st1 j (dumpV v k) (w - k) rs)
          | .stop r => .done r St.blank
          | .cont rs' => nextSym (slowSt st1 j (dumpV v k) (w - k) rs') := by
  unfold stepPrefix dump
  simp only [slowSt, hT]
  cases Canon.lookup T v with
  | none => rfl
  | some p =>
    obtain ⟨s, k⟩ := p
    simp only
    by_cases hk : k = 0 ∨ w < k
    · simp only [hk, if_true]
    · simp only [hk, if_false]
      cases symStep rs s <;> rfl

/-- The slow branch on one symbol, once `NEED(S_PREFIX)` is satisfied. -/
theorem slow_sym (st1 : St) (T : Canon.Tree) (hT : st1.trees.getD st1.t none = some T)
    (j v w : Nat) (ws : List Nat) (rs : RunSt) (hw : 32 ≤ w) :
    toTop (slowSt st1 j v w rs) ws =
      match Canon.lookup T v with
      | none => .halt .ub St.blank ws
      | some (s, k) =>
        if k = 0 ∨ w < k then .halt .ub St.blank ws
        else
          match symStep rs s with
          | .eob => ofStep (eobFinish (slowSt st1 j (dumpV v k) (w - k) rs)) ws
          | .stop r => .halt r St.blank ws
          | .cont rs' =>
            if j + 1 < Gen.GROUP_SIZE then toTop (slowSt st1 (j + 1) (dumpV v k) (w - k) rs') ws
            else .top { slowSt st1 0 (dumpV v k) (w - k) rs' with g := st1.g + 1 } ws := by
  rw [toTop_step' _ _ (by exact hw)]
  have hs : step (slowSt st1 j v w rs) = stepPrefix (slowSt st1 j v w rs) := rfl
  rw [hs, stepPrefix_slowSt st1 T hT]
  have hw' : (slowSt st1 j v w rs).w = w := rfl
  rw [hw']
  cases hl : Canon.lookup T v with
  | none => rfl
  | some p =>
    obtain ⟨s, k⟩ := p
    simp only
    by_cases hk : k = 0 ∨ w < k
    · rw [if_pos hk, if_pos hk]; rfl
    · rw [if_neg hk, if_neg hk]
      cases hsym : symStep rs s with
      | eob =>
        simp only
        obtain ⟨r, s', he⟩ := eobFinish_done (slowSt st1 j (dumpV v k) (w - k) rs)
        rw [he]; rfl
      | stop r => rfl
      | cont rs' =>
        simp only
        unfold nextSym
        have hjj : (slowSt st1 j (dumpV v k) (w - k) rs').j = j := rfl
        rw [hjj]
        by_cases hj : j + 1 < Gen.GROUP_SIZE
        · rw [if_pos hj, if_pos hj]
          simp only [afterStep]
          have hlt : w - k < w := by omega
          have hww : ({ slowSt st1 j (dumpV v k) (w - k) rs' with j := j + 1 } : St).w = w - k := rfl
          rw [hww, if_pos hlt]
          rfl
        · rw [if_neg hj, if_neg hj]
          rfl

/-- `symStep` stops only with an error or `ub`. -/
theorem symStep_stop (rs : RunSt) (s : Nat) (r : Halt) (h : symStep rs s = .stop r) :
    r ≠ .overread := by
  unfold symStep at h
  split at h
  · cases h
  · split at h
    · split at h
      · injection h with h; subst h; simp
      · cases h
    · split at h
      · injection h with h; subst h; simp
      · simp only at h
        split at h
        · injection h with h; subst h; simp
        · cases h

/-- **The fast branch never reads at `limit`.**  If at least `20·n + 12` bits
are at hand (live bits + whole words) for the `n` symbols still to decode,
`NEED_FAST` always finds a word. -/
theorem fastLoop_no_overread (T : Canon.Tree) : ∀ (n v w : Nat) (ws : List Nat) (rs : RunSt),
    20 * n + 12 ≤ 32 * ws.length + w → ∀ rest, fastLoop T n v w ws rs ≠ .stop .overread rest := by
  intro n
  induction n with
  | zero => intro v w ws rs _ rest h; simp [fastLoop] at h
  | succ n ih =>
    intro v w ws rs hb rest h
    rw [fastLoop] at h
    unfold needFast at h
    by_cases hw : w < 32
    · rw [if_pos hw] at h
      cases ws with
      | nil => simp only [List.length_nil] at hb; omega
      | cons x ws' =>
        simp only at h
        simp only [List.length_cons] at hb
        cases hl : Canon.lookup T (refillV v w x) with
        | none => rw [hl] at h; simp at h
        | some p =>
          obtain ⟨s, k⟩ := p
          have hk20 := lookup_len_le T _ s k hl
          rw [hl] at h
          simp only at h
          split at h
          · simp at h
          · cases hsym : symStep rs s with
            | eob => rw [hsym] at h; simp at h
            | stop r =>
              rw [hsym] at h
              simp only [FastRes.stop.injEq] at h
              exact symStep_stop rs s r hsym h.1
            | cont rs' =>
              rw [hsym] at h
              exact ih _ _ _ _ (by omega) rest h
    · rw [if_neg hw] at h
      simp only at h
      cases hl : Canon.lookup T v with
      | none => rw [hl] at h; simp at h
      | some p =>
        obtain ⟨s, k⟩ := p
        have hk20 := lookup_len_le T _ s k hl
        rw [hl] at h
        simp only at h
        split at h
        · simp at h
        · cases hsym : symStep rs s with
          | eob => rw [hsym] at h; simp at h
          | stop r =>
            rw [hsym] at h
            simp only [FastRes.stop.injEq] at h
            exact symStep_stop rs s r hsym h.1
          | cont rs' =>
            rw [hsym] at h
            exact ih _ _ _ _ (by omega) rest h

/-- **One group, slow = fast.**  With `n + 1` symbols of the group still to
decode (`j` done) and at least `20·(n+1) + 12` bits at hand, the slow branch
run over the same words ends exactly like the fast loop. -/
theorem slow_eq_fast (st1 : St) (T : Canon.Tree) (hT : st1.trees.getD st1.t none = some T) :
    ∀ (n j v w : Nat) (ws : List Nat) (rs : RunSt), j + (n + 1) = Gen.GROUP_SIZE →
      20 * (n + 1) + 12 ≤ 32 * ws.length + w →
      toTop (slowSt st1 j v w rs) ws = wrapFast st1 (fastLoop T (n + 1) v w ws rs) := by
  intro n
  induction n with
  | zero =>
    intro j v w ws rs hj hb
    have hj49 : ¬ (j + 1 < Gen.GROUP_SIZE) := by omega
    -- common: after NEED
    have core : ∀ (v1 w1 : Nat) (ws1 : List Nat), 32 ≤ w1 →
        toTop (slowSt st1 j v1 w1 rs) ws1 = wrapFast st1
          (match Canon.lookup T v1 with
            | none => .stop .ub ws1
            | some (s, k) =>
              if k = 0 ∨ w1 < k then .stop .ub ws1
              else
                match symStep rs s with
                | .eob => .eob (dumpV v1 k) (w1 - k) ws1 rs
                | .stop r => .stop r ws1
                | .cont rs' => fastLoop T 0 (dumpV v1 k) (w1 - k) ws1 rs') := by
      intro v1 w1 ws1 hw1
      rw [slow_sym st1 T hT j v1 w1 ws1 rs hw1]
      cases Canon.lookup T v1 with
      | none => rfl
      | some p =>
        obtain ⟨s, k⟩ := p
        simp only
        by_cases hk : k = 0 ∨ w1 < k
        · rw [if_pos hk, if_pos hk]; rfl
        · rw [if_neg hk, if_neg hk]
          cases symStep rs s with
          | eob =>
            simp only [wrapFast]
            congr 1
          | stop r => rfl
          | cont rs' =>
            simp only
            rw [if_neg hj49]
            rfl
    rw [fastLoop]
    unfold needFast
    by_cases hw : w < 32
    · rw [if_pos hw]
      cases ws with
      | nil => simp only [List.length_nil] at hb; omega
      | cons x ws' =>
        simp only
        rw [toTop_at_need _ hw (normPc_prefix _ rfl)]
        exact core (refillV v w x) (w + 32) ws' (by omega)
    · rw [if_neg hw]
      exact core v w ws (by omega)
  | succ n ih =>
    intro j v w ws rs hj hb
    have hjlt : j + 1 < Gen.GROUP_SIZE := by omega
    have core : ∀ (v1 w1 : Nat) (ws1 : List Nat), 32 ≤ w1 →
        20 * (n + 1 + 1) + 12 ≤ 32 * ws1.length + w1 →
        toTop (slowSt st1 j v1 w1 rs) ws1 = wrapFast st1
          (match Canon.lookup T v1 with
            | none => .stop .ub ws1
            | some (s, k) =>
              if k = 0 ∨ w1 < k then .stop .ub ws1
              else
                match symStep rs s with
                | .eob => .eob (dumpV v1 k) (w1 - k) ws1 rs
                | .stop r => .stop r ws1
                | .cont rs' => fastLoop T (n + 1) (dumpV v1 k) (w1 - k) ws1 rs') := by
      intro v1 w1 ws1 hw1 hb1
      rw [slow_sym st1 T hT j v1 w1 ws1 rs hw1]
      cases hl : Canon.lookup T v1 with
      | none => rfl
      | some p =>
        obtain ⟨s, k⟩ := p
        have hk20 := lookup_len_le T _ s k hl
        simp only
        by_cases hk : k = 0 ∨ w1 < k
        · rw [if_pos hk, if_pos hk]; rfl
        · rw [if_neg hk, if_neg hk]
          cases symStep rs s with
          | eob =>
            simp only [wrapFast]
            congr 1
          | stop r => rfl
          | cont rs' =>
            simp only
            rw [if_pos hjlt]
            exact ih (j + 1) _ _ ws1 rs' (by omega) (by omega)
    rw [fastLoop]
    unfold needFast
    by_cases hw : w < 32
    · rw [if_pos hw]
      cases ws with
      | nil => simp only [List.length_nil] at hb; omega
      | cons x ws' =>
        simp only
        simp only [List.length_cons] at hb
        rw [toTop_at_need _ hw (normPc_prefix _ rfl)]
        exact core (refillV v w x) (w + 32) ws' (by omega) (by omega)
    · rw [if_neg hw]
      exact core v w ws (by omega) hb

/-! ### the fast loop's word consumption is `DeltaFastpath.refills` -/

open LbzVerif.Lemmas.DeltaFastpath (refills) in
/-- The words the fast loop takes from the segment are a prefix of it, and
their number is `refills w lens` for the list `lens` of the code lengths it
dumped (a 0 stands for a lookup that ended the loop before its `DUMP`): the
accounting of `Props.C08.fastpath_refills` is the accounting of the model. -/
theorem fastLoop_words (T : Canon.Tree) : ∀ (n v w : Nat) (ws : List Nat) (rs : RunSt),
    ∃ (lens taken : List Nat), lens.length ≤ n ∧ (∀ k ∈ lens, k ≤ 20) ∧
      taken.length = refills w lens ∧
      match fastLoop T n v w ws rs with
      | .next _ _ ws' _ => ws = taken ++ ws'
      | .eob _ _ ws' _ => ws = taken ++ ws'
      | .stop r ws' => r = .overread ∨ ws = taken ++ ws' := by
  intro n
  induction n with
  | zero => intro v w ws rs; exact ⟨[], [], by simp, by simp, by simp [refills], by simp [fastLoop]⟩
  | succ n ih =>
    intro v w ws rs
    -- one symbol, after NEED_FAST has produced (v1, w1, ws1) from `pre ++ ws1`
    have core : ∀ (v1 w1 : Nat) (pre ws1 : List Nat), ws = pre ++ ws1 →
        (∀ k ks, refills w (k :: ks) = pre.length + refills (w1 - k) ks) →
        ∃ (lens taken : List Nat), lens.length ≤ n + 1 ∧ (∀ k ∈ lens, k ≤ 20) ∧
          taken.length = refills w lens ∧
          match (match Canon.lookup T v1 with
            | none => FastRes.stop .ub ws1
            | some (s, k) =>
              if k = 0 ∨ w1 < k then .stop .ub ws1
              else
                match symStep rs s with
                | .eob => .eob (dumpV v1 k) (w1 - k) ws1 rs
                | .stop r => .stop r ws1
                | .cont rs' => fastLoop T n (dumpV v1 k) (w1 - k) ws1 rs') with
          | .next _ _ ws' _ => ws = taken ++ ws'
          | .eob _ _ ws' _ => ws = taken ++ ws'
          | .stop r ws' => r = .overread ∨ ws = taken ++ ws' := by
      intro v1 w1 pre ws1 hws href
      have one : ∀ k, k ≤ 20 → ∃ (lens taken : List Nat), lens.length ≤ n + 1 ∧
          (∀ k ∈ lens, k ≤ 20) ∧ taken.length = refills w lens ∧ ws = taken ++ ws1 := by
        intro k hk
        refine ⟨[k], pre, by simp, by simpa using hk, ?_, hws⟩
        rw [href]; simp [refills]
      cases hl : Canon.lookup T v1 with
      | none =>
        obtain ⟨lens, taken, a, b, c, d⟩ := one 0 (by omega)
        exact ⟨lens, taken, a, b, c, Or.inr d⟩
      | some p =>
        obtain ⟨s, k⟩ := p
        have hk20 := lookup_len_le T _ s k hl
        simp only
        by_cases hk : k = 0 ∨ w1 < k
        · rw [if_pos hk]
          obtain ⟨lens, taken, a, b, c, d⟩ := one 0 (by omega)
          exact ⟨lens, taken, a, b, c, Or.inr d⟩
        · rw [if_neg hk]
          cases symStep rs s with
          | eob =>
            obtain ⟨lens, taken, a, b, c, d⟩ := one k hk20
            exact ⟨lens, taken, a, b, c, d⟩
          | stop r =>
            obtain ⟨lens, taken, a, b, c, d⟩ := one k hk20
            exact ⟨lens, taken, a, b, c, Or.inr d⟩
          | cont rs' =>
            obtain ⟨lens, taken, a, b, c, d⟩ := ih (dumpV v1 k) (w1 - k) ws1 rs'
            refine ⟨k :: lens, pre ++ taken, by simp; omega, ?_, ?_, ?_⟩
            · intro x hx
              cases List.mem_cons.mp hx with
              | inl h => rw [h]; exact hk20
              | inr h => exact b x h
            · rw [href, List.length_append, c]
            · simp only
              cases hf : fastLoop T n (dumpV v1 k) (w1 - k) ws1 rs' with
              | next a1 a2 ws' a4 => rw [hf] at d; simp only at d ⊢; rw [hws, d, List.append_assoc]
              | eob a1 a2 ws' a4 => rw [hf] at d; simp only at d ⊢; rw [hws, d, List.append_assoc]
              | stop r ws' =>
                rw [hf] at d
                simp only at d ⊢
                cases d with
                | inl h => exact Or.inl h
                | inr h => exact Or.inr (by rw [hws, h, List.append_assoc])
    rw [fastLoop]
    unfold needFast
    by_cases hw : w < 32
    · rw [if_pos hw]
      cases ws with
      | nil => exact ⟨[], [], by simp, by simp, by simp [refills], Or.inl rfl⟩
      | cons x ws' =>
        exact core (refillV v w x) (w + 32) [x] ws' rfl
          (by intro k ks; rw [refills, if_pos hw]; simp)
    · rw [if_neg hw]
      exact core v w [] ws rfl (by intro k ks; rw [refills, if_neg hw]; simp)

/-! ### the whole group loop and a whole call -/

/-- **fast = slow for one group**: whenever the guard of the fast branch
holds (`Gen.fastWords` = 32 words remain), the fast branch and the slow branch
started in the same state on the same words give the same outcome. -/
theorem group_fast_eq_slow (st1 : St) (ws : List Nat) (h : Gen.fastWords ≤ ws.length) :
    fastGroup st1 ws = toTop { st1 with pc := .prefix, j := 0 } ws := by
  have hfw : Gen.fastWords = 32 := rfl
  have hst : ({ st1 with pc := Pc.prefix, j := 0 } : St) = slowSt st1 0 st1.v st1.w st1.run := rfl
  rw [hst]
  cases hT : st1.trees.getD st1.t none with
  | some T =>
    rw [fastGroup_eq st1 T hT]
    exact (slow_eq_fast st1 T hT 49 0 _ _ ws _ rfl (by omega)).symm
  | none =>
    have hub : ∀ (v w : Nat) (ws1 : List Nat), 32 ≤ w →
        toTop (slowSt st1 0 v w st1.run) ws1 = .halt .ub St.blank ws1 := by
      intro v w ws1 hw
      rw [toTop_step' _ _ (by exact hw)]
      have hs : step (slowSt st1 0 v w st1.run) = stepPrefix (slowSt st1 0 v w st1.run) := rfl
      rw [hs]
      unfold stepPrefix
      have hT' : (slowSt st1 0 v w st1.run).trees.getD (slowSt st1 0 v w st1.run).t none = none := hT
      rw [hT']
      rfl
    unfold fastGroup
    rw [hT]
    simp only
    unfold needFast
    by_cases hw : st1.w < 32
    · rw [if_pos hw]
      cases ws with
      | nil => simp only [List.length_nil] at h; omega
      | cons x ws' =>
        simp only
        rw [toTop_at_need (slowSt st1 0 st1.v st1.w st1.run) hw (normPc_prefix _ rfl)]
        exact (hub _ _ ws' (by show 32 ≤ st1.w + 32; omega)).symm
    · rw [if_neg hw]
      exact (hub _ _ ws (by omega)).symm

theorem groups_fast_eq_slow : ∀ (n : Nat) (st : St) (ws : List Nat),
    groups true n st ws = groups false n st ws := by
  intro n
  induction n with
  | zero => intro st ws; rfl
  | succ n ih =>
    intro st ws
    rw [groups, groups]
    cases selectTree st with
    | error e => rfl
    | ok st1 =>
      simp only [Bool.false_eq_true, false_and, if_false, true_and]
      by_cases hlen : Gen.fastWords ≤ ws.length
      · rw [if_pos hlen, group_fast_eq_slow st1 ws hlen]
        cases toTop { st1 with pc := Pc.prefix, j := 0 } ws with
        | halt r s rest => rfl
        | susp s => rfl
        | top st2 ws2 => exact ih st2 ws2
      · rw [if_neg hlen]
        cases toTop { st1 with pc := Pc.prefix, j := 0 } ws with
        | halt r s rest => rfl
        | susp s => rfl
        | top st2 ws2 => exact ih st2 ws2

/-- One call of the retriever = one call of the retriever without its fast
branch, for every state and every word segment. -/
theorem run_fast_eq_slow (st : St) (ws : List Nat) : run true st ws = run false st ws := by
  unfold run
  cases toTop st ws with
  | halt r s rest => rfl
  | susp s => rfl
  | top st1 rest => exact groups_fast_eq_slow _ st1 rest

end LbzVerif.Lemmas.RetrieveFast
