/-
  Lemmas.ScanBigTab — the 49 x 256 fact about `big_dfa`, by kernel evaluation,
  seven rows at a time (keeps memory around 1 GB).
-/
import LbzVerif.Model.Scan

namespace LbzVerif.Lemmas.ScanBigTab

open LbzVerif.Model.Scan LbzVerif.Spec.Scan

/-- Rows `lo ≤ s < lo + 7` of `big_dfa` are eight absorbing `mini_dfa` steps
on the bits of the byte, most significant first. -/
def RowsOK (lo : Nat) : Prop :=
  ∀ k < 7, ∀ c < 256, big (lo + k) c = (bitsMSB 8 c).foldl miniAbs (lo + k)

instance (lo : Nat) : Decidable (RowsOK lo) := by unfold RowsOK; infer_instance

theorem rows0 : RowsOK 0 := by decide +kernel
theorem rows1 : RowsOK 7 := by decide +kernel
theorem rows2 : RowsOK 14 := by decide +kernel
theorem rows3 : RowsOK 21 := by decide +kernel
theorem rows4 : RowsOK 28 := by decide +kernel
theorem rows5 : RowsOK 35 := by decide +kernel
theorem rows6 : RowsOK 42 := by decide +kernel

theorem big_rows : ∀ s < 49, ∀ c < 256,
    big s c = (bitsMSB 8 c).foldl miniAbs s := by
  intro s hs c hc
  have h0 := rows0; have h1 := rows1; have h2 := rows2; have h3 := rows3
  have h4 := rows4; have h5 := rows5; have h6 := rows6
  unfold RowsOK at h0 h1 h2 h3 h4 h5 h6
  rcases Nat.lt_or_ge s 7 with h | h
  · simpa using h0 s h c hc
  rcases Nat.lt_or_ge s 14 with h' | h'
  · have := h1 (s - 7) (by omega) c hc; rwa [show 7 + (s - 7) = s by omega] at this
  rcases Nat.lt_or_ge s 21 with h'' | h''
  · have := h2 (s - 14) (by omega) c hc; rwa [show 14 + (s - 14) = s by omega] at this
  rcases Nat.lt_or_ge s 28 with h3' | h3'
  · have := h3 (s - 21) (by omega) c hc; rwa [show 21 + (s - 21) = s by omega] at this
  rcases Nat.lt_or_ge s 35 with h4' | h4'
  · have := h4 (s - 28) (by omega) c hc; rwa [show 28 + (s - 28) = s by omega] at this
  rcases Nat.lt_or_ge s 42 with h5' | h5'
  · have := h5 (s - 35) (by omega) c hc; rwa [show 35 + (s - 35) = s by omega] at this
  · have := h6 (s - 42) (by omega) c hc; rwa [show 42 + (s - 42) = s by omega] at this

end LbzVerif.Lemmas.ScanBigTab
