/-
  Lemmas.RetrieveBitmap — the bitmap of `Model.Retrieve`: one row of the inner
  loop (`rowBody` = `MtfDec.bitmapLoop` over the 16 flags of `small`) appends
  exactly the reference's `Spec.Bzip2.usedOfRow` to the bytes stored at
  `imtf_slide[CMAP_BASE ..]`.
-/
import LbzVerif.Lemmas.RetrieveSelectors

set_option linter.unusedSimpArgs false

namespace LbzVerif.Lemmas.RetrieveBitmap
open LbzVerif LbzVerif.Model.Retrieve
open LbzVerif.Model.MtfDec (bitmapLoop)
open LbzVerif.Lemmas.RetrieveBits LbzVerif.Lemmas.RetrieveValues LbzVerif.Lemmas.RetrieveSplit
open LbzVerif.Lemmas.RetrieveFast LbzVerif.Lemmas.RetrieveDelta LbzVerif.Lemmas.RetrieveTables
open LbzVerif.Lemmas.RetrieveSelectors

/-- The byte values `j, j+1, …` whose flag is set. -/
def usedList : List Bool → Nat → List UInt8
  | [], _ => []
  | b :: r, j => (if b then [UInt8.ofNat j] else []) ++ usedList r (j + 1)

theorem take_set_succ (l : List UInt8) (a : Nat) (x : UInt8) (h : a < l.length) :
    (l.set a x).take (a + 1) = l.take a ++ [x] := by
  induction l generalizing a with
  | nil => simp at h
  | cons y t ih =>
    cases a with
    | zero => simp
    | succ a => simp only [List.set_cons_succ, List.take_succ_cons, List.cons_append]
                rw [ih a (by simpa using h)]

theorem take_set_same (l : List UInt8) (a : Nat) (x : UInt8) : (l.set a x).take a = l.take a := by
  induction l generalizing a with
  | nil => simp
  | cons y t ih =>
    cases a with
    | zero => simp
    | succ a => simp only [List.set_cons_succ, List.take_succ_cons]; rw [ih a]

/-- The bitmap loop over some flags: the count grows by the number of set
flags and the stored bytes grow by exactly those byte values. -/
theorem bitmapLoop_used : ∀ (bits : List Bool) (j : Nat) (acc : List UInt8) (a : Nat),
    a + bits.length ≤ acc.length →
    (bitmapLoop bits j acc a).2 = a + (usedList bits j).length ∧
    (bitmapLoop bits j acc a).1.length = acc.length ∧
    (bitmapLoop bits j acc a).1.take (a + (usedList bits j).length) = acc.take a ++ usedList bits j := by
  intro bits
  induction bits with
  | nil => intro j acc a _; simp [bitmapLoop, usedList]
  | cons b r ih =>
    intro j acc a h
    simp only [List.length_cons] at h
    rw [bitmapLoop]
    have hlen : (acc.set a (UInt8.ofNat j)).length = acc.length := by simp
    cases b with
    | false =>
      simp only [Bool.false_eq_true, if_false, Nat.add_zero, usedList, List.nil_append]
      obtain ⟨i1, i2, i3⟩ := ih (j + 1) (acc.set a (UInt8.ofNat j)) a (by rw [hlen]; omega)
      exact ⟨i1, by rw [i2, hlen], by rw [i3, take_set_same]⟩
    | true =>
      simp only [if_true, usedList, List.singleton_append, List.length_cons]
      obtain ⟨i1, i2, i3⟩ := ih (j + 1) (acc.set a (UInt8.ofNat j)) (a + 1) (by rw [hlen]; omega)
      refine ⟨by rw [i1]; omega, by rw [i2, hlen], ?_⟩
      have : a + ((usedList r (j + 1)).length + 1) = a + 1 + (usedList r (j + 1)).length := by omega
      rw [this, i3, take_set_succ acc a _ (by omega)]
      simp

theorem usedList_map (f : Nat → Bool) (d : Nat) : ∀ (n s : Nat),
    usedList ((List.range' s n).map f) (d + s) =
      (List.range' s n).filterMap (fun k => if f k then some (UInt8.ofNat (d + k)) else none) := by
  intro n
  induction n with
  | zero => intro s; rfl
  | succ n ih =>
    intro s
    rw [List.range'_succ, List.map_cons, List.filterMap_cons, usedList]
    have := ih (s + 1)
    rw [show d + (s + 1) = d + s + 1 by omega] at this
    rw [this]
    cases f s <;> simp

/-- One row: the flags of `small`, most significant first, are the reference's
`usedOfRow`. -/
theorem usedList_row (i small : Nat) :
    usedList (Basic.natToBits 16 small) (16 * i) = Spec.Bzip2.usedOfRow i small := by
  rw [Lemmas.RetrieveValues.natToBits_eq_range]
  unfold Spec.Bzip2.usedOfRow
  have hr : List.range 16 = List.range' 0 16 := by rw [List.range_eq_range']
  rw [hr]
  have := usedList_map (fun k => small.testBit (16 - 1 - k)) (16 * i) 16 0
  rw [Nat.add_zero] at this
  rw [this]

/-! ### the rows -/

/-- Relation between the machine in the outer bitmap loop, about to treat row
`i`, and the reference: `big0` is the 16-bit row mask as read, `used` the byte
values found in rows `< i`. -/
structure BmInv (big0 : Nat) (used : List UInt8) (i : Nat) (st : St) : Prop where
  j : st.j = 16 * i
  big : st.big = (big0 <<< i) % 65536
  alpha : st.alphaSize = used.length
  cmapLen : st.cmap.length = 256
  cmapTake : st.cmap.take used.length = used
  le : used.length ≤ 16 * i

theorem usedList_length_le : ∀ (bits : List Bool) (j : Nat), (usedList bits j).length ≤ bits.length := by
  intro bits
  induction bits with
  | nil => intro j; simp [usedList]
  | cons b r ih =>
    intro j
    simp only [usedList, List.length_append, List.length_cons]
    have := ih (j + 1)
    cases b <;> simp <;> omega

theorem natToBits_length (n v : Nat) : (Basic.natToBits n v).length = n :=
  Basic.natToBits_length n v

/-- One pass of the inner loop. -/
theorem rowBody_inv (big0 : Nat) (used : List UInt8) (i : Nat) (st : St)
    (h : BmInv big0 used i st) (hi : i < 16) :
    BmInv big0 (used ++ Spec.Bzip2.usedOfRow i st.small) (i + 1) (rowBody st) ∧
      (rowBody st).small = 0 := by
  have hbl := bitmapLoop_used (Basic.natToBits 16 st.small) st.j st.cmap st.alphaSize
    (by rw [natToBits_length, h.cmapLen, h.alpha]; have := h.le; omega)
  rw [h.j, usedList_row] at hbl
  obtain ⟨b1, b2, b3⟩ := hbl
  have hrl : (Spec.Bzip2.usedOfRow i st.small).length ≤ 16 := by
    rw [← usedList_row]
    have := usedList_length_le (Basic.natToBits 16 st.small) (16 * i)
    rw [natToBits_length] at this
    exact this
  refine ⟨⟨?_, ?_, ?_, ?_, ?_, ?_⟩, ?_⟩
  · show st.j + 16 = 16 * (i + 1)
    rw [h.j]; omega
  · show (st.big <<< 1) % 65536 = (big0 <<< (i + 1)) % 65536
    have e1 : big0 <<< (i + 1) = (big0 <<< i) * 2 := by
      rw [Nat.shiftLeft_eq, Nat.shiftLeft_eq, Nat.pow_succ, Nat.mul_assoc]
    have e2 : ∀ y : Nat, y <<< 1 = y * 2 := fun y => by rw [Nat.shiftLeft_eq, Nat.pow_one]
    rw [h.big, e1, e2]
    generalize big0 <<< i = x
    omega
  · show (bitmapLoop (Basic.natToBits 16 st.small) st.j st.cmap st.alphaSize).2 = _
    rw [h.j, b1, h.alpha, List.length_append]
  · show (bitmapLoop (Basic.natToBits 16 st.small) st.j st.cmap st.alphaSize).1.length = 256
    rw [h.j, b2, h.cmapLen]
  · show (bitmapLoop (Basic.natToBits 16 st.small) st.j st.cmap st.alphaSize).1.take _ = _
    rw [h.j, List.length_append, ← h.alpha, b3, h.alpha, h.cmapTake]
  · rw [List.length_append]; have := h.le; omega
  · show (st.small <<< 16) % 65536 = 0
    rw [Nat.shiftLeft_eq]
    exact Nat.mul_mod_left _ _

theorem usedOfRow_zero (i : Nat) : Spec.Bzip2.usedOfRow i 0 = [] := by
  unfold Spec.Bzip2.usedOfRow
  simp

/-- The test `rs->big & 0x8000` on the shifted mask is the reference's test of
bit `15 - i` of the mask as read. -/
theorem and_pow15 (x : Nat) : x &&& 2 ^ 15 = if x.testBit 15 then 2 ^ 15 else 0 := by
  apply Nat.eq_of_testBit_eq
  intro m
  rw [Nat.testBit_and, Nat.testBit_two_pow]
  cases h : x.testBit 15 with
  | false =>
    by_cases hm : 15 = m
    · subst hm; simp [h]
    · simp [hm]
  | true =>
    rw [if_pos rfl, Nat.testBit_two_pow]
    by_cases hm : 15 = m
    · subst hm; simp [h]
    · simp [hm]

theorem big_test (big0 i : Nat) (hi : i < 16) :
    ((big0 <<< i) % 65536 &&& 0x8000 ≠ 0) ↔ big0.testBit (15 - i) = true := by
  have h1 : (0x8000 : Nat) = 2 ^ 15 := by decide
  have h2 : (65536 : Nat) = 2 ^ 16 := by decide
  rw [h1, and_pow15, h2]
  have : ((big0 <<< i) % 2 ^ 16).testBit 15 = big0.testBit (15 - i) := by
    rw [Nat.testBit_mod_two_pow, Nat.testBit_shiftLeft]
    have : i ≤ 15 := by omega
    simp [this]
  rw [this]
  cases big0.testBit (15 - i) <;> simp

/-! ### the reference for the rest of the header, and the composition -/

/-- The block header from the bitmap rows on, as the reference reads it. -/
structure Hdr where
  used : List UInt8
  ng : Nat
  ns : Nat
  sels : List Nat
  tabs : List (List Nat)
  rest : List Bool

/-- Rows `rows` of the bitmap (`Spec.Bzip2.readBitmapRows` without its position
bookkeeping). -/
def specRows (big0 : Nat) : List Nat → List Bool → Option (List UInt8 × List Bool)
  | [], B => some ([], B)
  | i :: rows, B =>
    if big0.testBit (15 - i) then
      match Basic.takeNat 16 B with
      | none => none
      | some (small, B1) =>
        match specRows big0 rows B1 with
        | none => none
        | some (u, B') => some (Spec.Bzip2.usedOfRow i small ++ u, B')
    else specRows big0 rows B

/-- After the bitmap: non-empty, `nGroups` in 2…6, `nSelectors` ≠ 0, the
selectors, the tables (text of `Spec.Bzip2.parseBlock`). -/
def specCounts (used : List UInt8) (B : List Bool) : Option Hdr :=
  if used = [] then none
  else
    match Basic.takeNat 3 B with
    | none => none
    | some (ng, B1) =>
      if ng < 2 ∨ 6 < ng then none
      else
        match Basic.takeNat 15 B1 with
        | none => none
        | some (ns, B2) =>
          if ns = 0 then none
          else
            match specSelTables ng (used.length + 2) ns B2 with
            | none => none
            | some (is, tabs, B') => some ⟨used, ng, ns, is, tabs, B'⟩

def specFromRows (big0 : Nat) (used : List UInt8) (rows : List Nat) (B : List Bool) : Option Hdr :=
  match specRows big0 rows B with
  | none => none
  | some (u, B') => specCounts (used ++ u) B'

/-- The state at the top of the group loop in terms of a state `st` inside the
bitmap loop and the header the reference reads. -/
structure HdrOk (st s : St) (h : Hdr) : Prop where
  pc : s.pc = .prefix
  j : s.j = 0
  g : s.g = 0
  numSel : s.numSel = min h.ns Gen.selectorBound
  numTrees : s.numTrees = h.ng
  alphaSize : s.alphaSize = h.used.length + 2
  cmapLen : s.cmap.length = 256
  cmapTake : s.cmap.take h.used.length = h.used
  sel : s.selector = h.sels.foldl Array.push #[]
  tt : (s.t, s.mtf, s.trees) = applyTables 0 st.mtf st.trees h.tabs
  run : ∃ rs, Model.MtfDec.initRun (Model.MtfDec.slideOf s.cmap) = some rs ∧
    s.run = { rs with n := st.run.n, out := st.run.out }
  rand : s.rand = st.rand
  bwtIdx : s.bwtIdx = st.bwtIdx

theorem take_ok (st : St) (k : Nat) (hk : 1 ≤ k) (hw : k ≤ st.w) :
    take st k = some (peek st k, { st with v := dumpV st.v k, w := st.w - k }) := by
  unfold take dump
  rw [if_neg (by omega)]

/-- `afterBitmap` inside a step: the counts, the first selector, then
`selectors_spec`. -/
theorem counts_spec (st : St) (ws : List Nat) (W : Nat) (used : List UInt8)
    (ha : st.alphaSize = used.length) (hcl : st.cmap.length = 256)
    (hct : st.cmap.take used.length = used)
    (inv : BufInv st.v st.w) (hw : used ≠ [] → 32 ≤ st.w) (hW : st.w ≤ W) :
    (∀ h, specCounts used (bitsOf st ws) = some h →
      (∃ s rest, afterStep W ws (afterBitmap st) = .top s rest ∧ HdrOk st s h ∧
        bitsOf s rest = h.rest ∧ BufInv s.v s.w) ∨ Suspended (afterStep W ws (afterBitmap st))) ∧
    (specCounts used (bitsOf st ws) = none →
      Rejected (afterStep W ws (afterBitmap st)) ∨ Suspended (afterStep W ws (afterBitmap st))) := by
  unfold specCounts
  by_cases hu : used = []
  · -- empty bitmap
    rw [if_pos hu]
    have h0 : st.alphaSize = 0 := by rw [ha, hu]; rfl
    have hr : afterStep W ws (afterBitmap st) = .halt (.err Gen.ERR_BITMAP) St.blank ws := by
      unfold afterBitmap; rw [if_pos h0]; rfl
    exact ⟨fun _ h => (by cases h), fun _ => Or.inl ⟨_, _, _, hr, (by simp)⟩⟩
  · rw [if_neg hu]
    have hw32 := hw hu
    have hne : ¬ st.alphaSize = 0 := by
      rw [ha]; intro h0; exact hu (List.eq_nil_of_length_eq_zero h0)
    -- TAKE(num_trees, 3)
    have ht3 := take_ok { st with alphaSize := st.alphaSize + 2 } 3 (by omega) (by show 3 ≤ st.w; omega)
    obtain ⟨hv3, inv3⟩ := take_value _ _ 3 _ ws ht3 (by exact inv)
    have hb0 : bitsOf ({ st with alphaSize := st.alphaSize + 2 } : St) ws = bitsOf st ws := rfl
    rw [hb0] at hv3
    rw [hv3]
    simp only
    generalize hnt : peek ({ st with alphaSize := st.alphaSize + 2 } : St) 3 = nt at ht3 hv3 ⊢
    by_cases hrange : nt < 2 ∨ 6 < nt
    · rw [if_pos hrange]
      have hr : afterStep W ws (afterBitmap st) = .halt (.err Gen.ERR_TREES) St.blank ws := by
        unfold afterBitmap
        rw [if_neg hne]
        simp only
        rw [ht3]
        simp only
        rw [if_pos (by simpa [Gen.MIN_TREES, Gen.MAX_TREES] using hrange)]
        rfl
      exact ⟨fun _ h => (by cases h), fun _ => Or.inl ⟨_, _, _, hr, (by simp)⟩⟩
    · rw [if_neg hrange]
      -- TAKE(num_selectors, 15)
      have ht15 := take_ok ({ ({ st with alphaSize := st.alphaSize + 2 } : St) with v := dumpV st.v 3, w := st.w - 3 } : St)
        15 (by omega) (by show 15 ≤ st.w - 3; omega)
      obtain ⟨hv15, inv15⟩ := take_value _ _ 15 _ ws ht15 (by exact inv3)
      rw [hv15]
      simp only
      generalize hns : peek ({ ({ st with alphaSize := st.alphaSize + 2 } : St) with v := dumpV st.v 3, w := st.w - 3 } : St) 15 = ns at ht15 hv15 ⊢
      by_cases hns0 : ns = 0
      · rw [if_pos hns0]
        have hr : afterStep W ws (afterBitmap st) = .halt (.err Gen.ERR_GROUPS) St.blank ws := by
          unfold afterBitmap
          rw [if_neg hne]
          simp only
          rw [ht3]
          simp only
          rw [if_neg (by simpa [Gen.MIN_TREES, Gen.MAX_TREES] using hrange), ht15]
          simp only
          rw [if_pos hns0]
          rfl
        exact ⟨fun _ h => (by cases h), fun _ => Or.inl ⟨_, _, _, hr, (by simp)⟩⟩
      · rw [if_neg hns0]
        -- the state in which the first selector is read
        have hab : afterBitmap st = selLoop
            { st with alphaSize := st.alphaSize + 2, v := dumpV (dumpV st.v 3) 15, w := st.w - 3 - 15,
                      numTrees := nt, numSel := ns, j := 0, selector := #[] } := by
          unfold afterBitmap
          rw [if_neg hne]
          simp only
          rw [ht3]
          simp only
          rw [if_neg (by simpa [Gen.MIN_TREES, Gen.MAX_TREES] using hrange), ht15]
          simp only
          rw [if_neg hns0]
        rw [hab]
        have hsv := selector_value
          { st with alphaSize := st.alphaSize + 2, v := dumpV (dumpV st.v 3) 15, w := st.w - 3 - 15,
                    numTrees := nt, numSel := ns, j := 0, selector := #[] } ws
          (by show 6 ≤ st.w - 3 - 15; omega) (by exact inv15) (by show 0 < ns; omega)
          (by show 1 ≤ nt; omega) (by show nt ≤ 6; omega)
        obtain ⟨k, hk⟩ : ∃ k, ns = k + 1 := ⟨ns - 1, by omega⟩
        have hsst : specSelTables nt (used.length + 2) ns = specSelTables nt (used.length + 2) (k + 1) := by rw [hk]
        rw [hsst]
        simp only [specSelTables]
        have hbsel :
            bitsOf ({ st with alphaSize := st.alphaSize + 2, v := dumpV (dumpV st.v 3) 15, w := st.w - 3 - 15, numTrees := nt, numSel := ns, j := 0, selector := #[] } : St) ws =
            bitsOf ({ ({ ({ st with alphaSize := st.alphaSize + 2 } : St) with v := dumpV st.v 3, w := st.w - 3 } : St) with v := dumpV (dumpV st.v 3) 15, w := st.w - 3 - 15 } : St) ws := rfl
        rw [hbsel] at hsv
        have hnt' : ({ st with alphaSize := st.alphaSize + 2, v := dumpV (dumpV st.v 3) 15, w := st.w - 3 - 15, numTrees := nt, numSel := ns, j := 0, selector := #[] } : St).numTrees = nt := rfl
        rw [hnt'] at hsv
        generalize hO : afterStep W ws (selLoop { st with alphaSize := st.alphaSize + 2, v := dumpV (dumpV st.v 3) 15, w := st.w - 3 - 15, numTrees := nt, numSel := ns, j := 0, selector := #[] }) = O
        cases hru : Spec.Bzip2.readUnary nt 0 (bitsOf ({ ({ ({ st with alphaSize := st.alphaSize + 2 } : St) with v := dumpV st.v 3, w := st.w - 3 } : St) with v := dumpV (dumpV st.v 3) 15, w := st.w - 3 - 15 } : St) ws) with
        | error e =>
          rw [hru] at hsv
          obtain ⟨_, herr⟩ := hsv
          simp only
          have hr : O = .halt (.err Gen.ERR_SELECTOR) St.blank ws := by rw [← hO, herr]; rfl
          exact ⟨fun _ h => (by cases h), fun _ => Or.inl ⟨_, _, _, hr, (by simp)⟩⟩
        | ok p =>
          obtain ⟨i0, B3⟩ := p
          rw [hru] at hsv
          obtain ⟨st', hsl, inv', hb', hsel', hj', hns', hntt', hpc', hlt', heq'⟩ := hsv
          simp only
          have e3 : O = toTop st' ws := by
            rw [← hO, hsl]; simp only [afterStep]
            rw [if_pos (by have : st'.w < st.w - 3 - 15 := hlt'; omega)]
          have f_al : st'.alphaSize = used.length + 2 := by rw [heq']; show st.alphaSize + 2 = _; rw [ha]
          have f_mtf : st'.mtf = st.mtf := by rw [heq']
          have f_trees : st'.trees = st.trees := by rw [heq']
          have f_cmap : st'.cmap = st.cmap := by rw [heq']
          have f_run : st'.run = st.run := by rw [heq']
          have f_rand : st'.rand = st.rand := by rw [heq']
          have f_bi : st'.bwtIdx = st.bwtIdx := by rw [heq']
          have f_ns : st'.numSel = ns := hns'
          have f_nt : st'.numTrees = nt := hntt'
          have f_j : st'.j = 0 := hj'
          have f_sel : st'.selector = (#[] : Array Nat).push i0 := hsel'
          have hss := selectors_spec k st' ws hpc' (by rw [f_j, f_ns]; omega) inv'
            (by rw [f_nt]; omega) (by rw [f_nt]; omega) (by rw [f_al]; omega)
          rw [f_nt, f_al, hb'] at hss
          obtain ⟨i1, i2⟩ := hss
          rw [e3]
          constructor
          · intro h hh
            cases hsp : specSelTables nt (used.length + 2) k B3 with
            | none => rw [hsp] at hh; cases hh
            | some q =>
              obtain ⟨is', tabs', B4⟩ := q
              rw [hsp] at hh
              simp only [Option.some.injEq] at hh
              subst hh
              cases i1 is' tabs' B4 hsp with
              | inr hsu => exact Or.inr hsu
              | inl hok2 =>
                obtain ⟨s, rest, e4, htk, hb4, inv4⟩ := hok2
                refine Or.inl ⟨s, rest, e4, ?_, hb4, inv4⟩
                have hcm : s.cmap = st.cmap := by rw [htk.cmap, f_cmap]
                refine ⟨htk.pc, htk.j, htk.g, ?_, ?_, ?_, ?_, ?_, ?_, ?_, ?_, ?_, ?_⟩
                · rw [htk.numSel, f_ns]
                · rw [htk.numTrees, f_nt]
                · rw [htk.alphaSize, f_al]
                · rw [hcm]; exact hcl
                · rw [hcm]; exact hct
                · rw [htk.sel, f_sel]; rfl
                · rw [htk.tt, f_mtf, f_trees]
                · obtain ⟨rs, h1, h2⟩ := htk.run
                  rw [f_cmap, ← hcm] at h1
                  rw [f_run] at h2
                  exact ⟨rs, h1, h2⟩
                · rw [htk.rand, f_rand]
                · rw [htk.bwtIdx, f_bi]
          · intro hh
            cases hsp : specSelTables nt (used.length + 2) k B3 with
            | some q => rw [hsp] at hh; cases hh
            | none => exact i2 hsp

/-- `HdrOk` only looks at `rand`, `bwt_idx`, `mtf`, `trees`, `run.n`, `run.out`
of the starting state. -/
theorem hdrOk_congr (a b s : St) (h : Hdr) (hk : HdrOk a s h) (h1 : b.mtf = a.mtf)
    (h2 : b.trees = a.trees) (h3 : b.run = a.run) (h4 : b.rand = a.rand) (h5 : b.bwtIdx = a.bwtIdx) :
    HdrOk b s h :=
  ⟨hk.pc, hk.j, hk.g, hk.numSel, hk.numTrees, hk.alphaSize, hk.cmapLen, hk.cmapTake, hk.sel,
   by rw [h1, h2]; exact hk.tt, by rw [h3]; exact hk.run, by rw [h4]; exact hk.rand,
   by rw [h5]; exact hk.bwtIdx⟩

/-- **The bitmap rows, then the rest of the header.**  `bitmapOuter n` inside a
step (rows `i = 16 - n … 15` to go, `used` found so far), with the suspensions
at `NEED(S_BITMAP_SMALL)`: the machine reaches the top of the group loop iff
the reference reads the remaining rows, the counts, the selectors and the
tables from the unread bits, with the same results. -/
theorem bitmap_rows_spec : ∀ (n : Nat) (st : St) (ws : List Nat) (W big0 i : Nat) (used : List UInt8),
    i + n = 16 → BmInv big0 used i st → st.small = 0 → BufInv st.v st.w → 16 ≤ st.w →
    (used ≠ [] → 32 ≤ st.w) → st.w ≤ W →
    (∀ h, specFromRows big0 used (List.range' i n) (bitsOf st ws) = some h →
      (∃ s rest, afterStep W ws (bitmapOuter n st) = .top s rest ∧ HdrOk st s h ∧
        bitsOf s rest = h.rest ∧ BufInv s.v s.w) ∨ Suspended (afterStep W ws (bitmapOuter n st))) ∧
    (specFromRows big0 used (List.range' i n) (bitsOf st ws) = none →
      Rejected (afterStep W ws (bitmapOuter n st)) ∨ Suspended (afterStep W ws (bitmapOuter n st))) := by
  intro n
  induction n with
  | zero =>
    intro st ws W big0 i used hin hbm hsm inv hw16 hw32 hW
    have hcs := counts_spec st ws W used hbm.alpha hbm.cmapLen hbm.cmapTake inv hw32 hW
    unfold specFromRows
    simp only [List.range'_zero, specRows, List.append_nil]
    unfold bitmapOuter
    exact hcs
  | succ n ih =>
    intro st ws W big0 i used hin hbm hsm inv hw16 hw32 hW
    have hi : i < 16 := by omega
    unfold specFromRows
    rw [List.range'_succ]
    simp only [specRows]
    unfold bitmapOuter
    have htest := big_test big0 i hi
    rw [← hbm.big] at htest
    by_cases hbit : big0.testBit (15 - i) = true
    · -- a row word follows
      have hcond : st.big &&& 0x8000 ≠ 0 := htest.mpr hbit
      rw [if_pos hcond, if_pos hbit]
      have ht16 := take_ok st 16 (by omega) hw16
      obtain ⟨hv16, inv16⟩ := take_value _ _ 16 _ ws ht16 inv
      rw [ht16, hv16]
      simp only
      generalize hs16 : peek st 16 = s16 at ht16 hv16 ⊢
      have hs16lt : s16 < 65536 := by
        rw [← hs16]; exact peek_lt st.v st.w 16 inv (by omega)
      -- the state suspended at NEED(S_BITMAP_SMALL)
      have e1 : afterStep W ws (.cont { st with v := dumpV st.v 16, w := st.w - 16, small := s16, pc := .bitmapSmall }) =
          toTop { st with v := dumpV st.v 16, w := st.w - 16, small := s16, pc := .bitmapSmall } ws := by
        simp only [afterStep]
        rw [if_pos (by show st.w - 16 < W; omega)]
      rw [e1]
      have hnorm : normPc ({ st with v := dumpV st.v 16, w := st.w - 16, small := s16, pc := .bitmapSmall } : St) =
          { st with v := dumpV st.v 16, w := st.w - 16, small := s16, pc := .bitmapSmall } := by
        unfold normPc; rw [if_neg (by simp)]
      cases need_ready _ ws hnorm (by exact inv16) with
      | inl hsu => exact ⟨fun _ _ => Or.inr hsu, fun _ => Or.inr hsu⟩
      | inr hr =>
        obtain ⟨v1, w1, ws1, e2, hw1, hb1, inv1, _⟩ := hr
        have e2' : toTop ({ st with v := dumpV st.v 16, w := st.w - 16, small := s16, pc := .bitmapSmall } : St) ws =
            toTop ({ st with v := v1, w := w1, small := s16, pc := .bitmapSmall } : St) ws1 := e2
        rw [e2']
        have hb1' : bitsOf ({ st with v := v1, w := w1, small := s16, pc := .bitmapSmall } : St) ws1 =
            bitsOf ({ st with v := dumpV st.v 16, w := st.w - 16 } : St) ws := hb1
        have hbm1 : BmInv big0 used i ({ st with v := v1, w := w1, small := s16, pc := .bitmapSmall } : St) :=
          ⟨hbm.j, hbm.big, hbm.alpha, hbm.cmapLen, hbm.cmapTake, hbm.le⟩
        obtain ⟨hbm2, hsm2⟩ := rowBody_inv big0 used i _ hbm1 hi
        have hstep : step ({ st with v := v1, w := w1, small := s16, pc := .bitmapSmall } : St) =
            bitmapOuter n (rowBody { st with v := v1, w := w1, small := s16, pc := .bitmapSmall }) := by
          unfold step
          simp only
          unfold stepBitmapSmall
          simp only
          have : (256 - (rowBody ({ st with v := v1, w := w1, small := s16, pc := .bitmapSmall } : St)).j) / 16 = n := by
            rw [hbm2.j]; omega
          rw [this]
        have e3 : toTop ({ st with v := v1, w := w1, small := s16, pc := .bitmapSmall } : St) ws1 =
            afterStep w1 ws1 (bitmapOuter n (rowBody { st with v := v1, w := w1, small := s16, pc := .bitmapSmall })) := by
          rw [toTop_step' _ _ (by exact hw1), hstep]
        rw [e3]
        have hIH := ih (rowBody { st with v := v1, w := w1, small := s16, pc := .bitmapSmall }) ws1 w1 big0 (i + 1)
          (used ++ Spec.Bzip2.usedOfRow i s16) (by omega) hbm2 hsm2 (by exact inv1) (by show 16 ≤ w1; omega)
          (fun _ => by show 32 ≤ w1; exact hw1) (by show w1 ≤ w1; omega)
        have hbr : bitsOf (rowBody ({ st with v := v1, w := w1, small := s16, pc := .bitmapSmall } : St)) ws1 =
            bitsOf ({ st with v := dumpV st.v 16, w := st.w - 16 } : St) ws := hb1'
        rw [hbr] at hIH
        obtain ⟨i1, i2⟩ := hIH
        unfold specFromRows at i1 i2
        constructor
        · intro h hh
          cases hsr : specRows big0 (List.range' (i + 1) n) (bitsOf ({ st with v := dumpV st.v 16, w := st.w - 16 } : St) ws) with
          | none => rw [hsr] at hh; cases hh
          | some q =>
            obtain ⟨u, B'⟩ := q
            rw [hsr] at hh i1
            simp only at hh i1
            rw [← List.append_assoc] at hh
            cases i1 h hh with
            | inr hsu => exact Or.inr hsu
            | inl hok =>
              obtain ⟨s, rest, e4, hk, hb4, inv4⟩ := hok
              exact Or.inl ⟨s, rest, e4, hdrOk_congr _ st s h hk rfl rfl rfl rfl rfl, hb4, inv4⟩
        · intro hh
          cases hsr : specRows big0 (List.range' (i + 1) n) (bitsOf ({ st with v := dumpV st.v 16, w := st.w - 16 } : St) ws) with
          | none => rw [hsr] at i2; exact i2 rfl
          | some q =>
            obtain ⟨u, B'⟩ := q
            rw [hsr] at hh i2
            simp only at hh i2
            rw [← List.append_assoc] at hh
            exact i2 hh
    · -- no row word: the inner loop runs on `small = 0`
      have hcond : ¬ (st.big &&& 0x8000 ≠ 0) := fun hc => hbit (htest.mp hc)
      rw [if_neg hcond, if_neg hbit]
      obtain ⟨hbm2, hsm2⟩ := rowBody_inv big0 used i st hbm hi
      rw [hsm, usedOfRow_zero, List.append_nil] at hbm2
      have hIH := ih (rowBody st) ws W big0 (i + 1) used (by omega) hbm2 hsm2 (by exact inv)
        (by exact hw16) (by exact hw32) (by exact hW)
      have hbr : bitsOf (rowBody st) ws = bitsOf st ws := rfl
      rw [hbr] at hIH
      obtain ⟨i1, i2⟩ := hIH
      unfold specFromRows at i1 i2
      refine ⟨fun h hh => ?_, i2⟩
      cases i1 h hh with
      | inr hsu => exact Or.inr hsu
      | inl hok =>
        obtain ⟨s, rest, e4, hk, hb4, inv4⟩ := hok
        exact Or.inl ⟨s, rest, e4, hdrOk_congr _ st s h hk rfl rfl rfl rfl rfl, hb4, inv4⟩

end LbzVerif.Lemmas.RetrieveBitmap
