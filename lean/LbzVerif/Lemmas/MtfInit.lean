/-
  Lemmas.MtfInit — the bitmap loop of `retrieve()` leaves the bytes in use, in
  ascending order, at `imtf_slide[CMAP_BASE …]`; hence `retrieveSyms` (bitmap
  loop + symbol loop) equals the reference `unMtfRle2`.
-/
import LbzVerif.Spec.Mtf
import LbzVerif.Model.MtfEnc
import LbzVerif.Model.MtfDec
import LbzVerif.Lemmas.MtfEnc
import LbzVerif.Lemmas.MtfOne
import LbzVerif.Lemmas.MtfRun

namespace LbzVerif.Lemmas.MtfInit
open LbzVerif.Model.MtfDec LbzVerif.Model.MtfEnc LbzVerif.Lemmas.MtfEnc LbzVerif.Lemmas.MtfOne
  LbzVerif.Lemmas.MtfRun LbzVerif.Spec.Mtf

theorem rank_succ (used : List UInt8) (hs : used.Pairwise (· < ·)) (j : Nat) (hj : j < 256) :
    rank used (j + 1) = rank used j + (if fUsed used j then 1 else 0) := by
  rw [← cnt_eq_rank used hs (j + 1) (by omega), cnt_succ, cnt_eq_rank used hs j (by omega)]

theorem rank_zero (used : List UInt8) : rank used 0 = 0 := by
  simp [rank]

theorem bitmapLoop_spec (used : List UInt8) (hs : used.Pairwise (· < ·)) :
    ∀ (len j : Nat) (acc : List UInt8), j + len = 256 → acc.length = 256 →
      (∀ i, i < rank used j → acc[i]? = used[i]?) →
      (bitmapLoop ((List.range' j len).map (fUsed used)) j acc (rank used j)).2 = used.length ∧
      (bitmapLoop ((List.range' j len).map (fUsed used)) j acc (rank used j)).1.length = 256 ∧
      ∀ i, i < used.length →
        (bitmapLoop ((List.range' j len).map (fUsed used)) j acc (rank used j)).1[i]? = used[i]? := by
  intro len
  induction len with
  | zero =>
    intro j acc hj hacc h
    have : j = 256 := by omega
    subst this
    simp only [List.range'_zero, List.map_nil, bitmapLoop, rank_top]
    exact ⟨trivial, hacc, fun i hi => h i (by rw [rank_top]; exact hi)⟩
  | succ len ih =>
    intro j acc hj hacc h
    have hr : List.range' j (len + 1) = j :: List.range' (j + 1) len := by
      simp [List.range'_succ]
    rw [hr]
    simp only [List.map_cons, bitmapLoop]
    rw [← rank_succ used hs j (by omega)]
    apply ih (j + 1) _ (by omega) (by simp [hacc])
    intro i hi
    rw [rank_succ used hs j (by omega)] at hi
    rw [List.getElem?_set]
    by_cases hia : rank used j = i
    · -- the cell just written: only counted when j is in use
      have hf : fUsed used j = true := by
        cases hf : fUsed used j
        · simp [hf] at hi; omega
        · rfl
      have hmem : UInt8.ofNat j ∈ used := by simpa [fUsed] using hf
      obtain ⟨i0, hi0, hget⟩ := List.getElem_of_mem hmem
      have htn : used[i0].toNat = j := by
        rw [hget, UInt8.toNat_ofNat']; omega
      have hrk := rank_getElem used hs i0 hi0
      rw [htn] at hrk
      have hn := sorted_length_le used hs
      have : i0 = i := by omega
      subst this
      have hlt : rank used j < acc.length := by omega
      simp only [hia, if_true, hacc]
      have : i0 < 256 := by omega
      simp only [this, if_true]
      rw [List.getElem?_eq_getElem hi0, hget]
    · simp only [hia, if_false]
      apply h i
      by_cases hf : fUsed used j = true
      · simp [hf] at hi; omega
      · simp [hf] at hi; omega

/-- After the bitmap loop the slide's logical list starts with `used`, and
`alpha_size` (before the `+ 2`) is their number. -/
theorem initSlide_spec (used : List UInt8) (hs : used.Pairwise (· < ·)) :
    (initSlide (inuseOf used)).2 = used.length ∧
    Inv (initSlide (inuseOf used)).1 ∧
    ∃ junk, abs (initSlide (inuseOf used)).1 = used ++ junk := by
  have hb := bitmapLoop_spec used hs 256 0 (List.replicate 256 0) (by omega)
    List.length_replicate (by intro i hi; rw [rank_zero] at hi; omega)
  rw [rank_zero, ← inuseOf_eq] at hb
  obtain ⟨h2, hlen, hget⟩ := hb
  refine ⟨h2, inv_slideOf _, ?_⟩
  show ∃ junk, abs (slideOf (bitmapLoop (inuseOf used) 0 (List.replicate 256 0) 0).1) = _
  generalize (bitmapLoop (inuseOf used) 0 (List.replicate 256 0) 0).1 = acc at hlen hget ⊢
  rw [abs_slideOf _ hlen]
  refine ⟨acc.drop used.length, ?_⟩
  have hn := sorted_length_le used hs
  have htake : acc.take used.length = used := by
    apply List.ext_getElem?
    intro i
    by_cases hi : i < used.length
    · rw [List.getElem?_take, if_pos hi, hget i hi]
    · rw [List.getElem?_take, if_neg hi, List.getElem?_eq_none (by omega)]
  have := List.take_append_drop used.length acc
  rw [htake] at this
  exact this.symm

/-- `retrieve()`'s MTF-value stage (bitmap loop, then the symbol loop on the
sliding lists) equals the reference inverse. -/
theorem retrieveSyms_spec (used : List UInt8) (hs : used.Pairwise (· < ·)) (h1 : 1 ≤ used.length)
    (limit : Nat) (hl : limit ≤ Gen.MAX_BLOCK_SIZE) (syms : List Nat)
    (hsyms : ∀ s ∈ syms, s ≤ used.length + 1) :
    toOpt (retrieveSyms (inuseOf used) syms limit) = unMtfRle2 used syms limit := by
  obtain ⟨h2, hinv, habs⟩ := initSlide_spec used hs
  obtain ⟨st0, e1, e2⟩ := consume_init _ hinv used h1 (sorted_length_le used hs) habs limit hl
    syms hsyms
  unfold retrieveSyms
  simp only [e1, h2]
  exact e2

/-! ### the encoder only emits symbols of the alphabet -/

theorem mtfEncode_lt (block : List UInt8) : ∀ (l : List UInt8), (∀ x ∈ block, x ∈ l) →
    ∀ p ∈ mtfEncode l block, p < l.length := by
  induction block with
  | nil => intro l _ p hp; simp [mtfEncode] at hp
  | cons x xs ih =>
    intro l hmem p hp
    simp only [mtfEncode, List.mem_cons] at hp
    rcases hp with rfl | hp
    · exact List.idxOf_lt_length_of_mem (hmem x (List.mem_cons_self ..))
    · have := ih (moveToFront l (l.idxOf x))
        (fun y hy => (Lemmas.MtfSpec.mem_moveToFront _ _ _).mpr (hmem y (List.mem_cons_of_mem _ hy)))
        p hp
      rwa [Lemmas.MtfSpec.moveToFront_length] at this

theorem zrle_le (N : Nat) (hN : 1 ≤ N) : ∀ (ps : List Nat) (k : Nat), (∀ p ∈ ps, p < N) →
    ∀ s ∈ zrle k ps, s ≤ N + 1 := by
  intro ps
  induction ps with
  | nil =>
    intro k _ s hs
    simp only [zrle] at hs
    have := Lemmas.MtfSpec.runDigits_lt_two k s hs
    omega
  | cons p ps ih =>
    intro k hp s hs
    have hps : ∀ q ∈ ps, q < N := fun q hq => hp q (List.mem_cons_of_mem _ hq)
    cases p with
    | zero =>
      simp only [zrle] at hs
      exact ih (k + 1) hps s hs
    | succ p =>
      simp only [zrle, List.mem_append, List.mem_cons] at hs
      rcases hs with h | rfl | h
      · have := Lemmas.MtfSpec.runDigits_lt_two k s h
        omega
      · have := hp (p + 1) (List.mem_cons_self ..)
        omega
      · exact ih 0 hps s h

theorem mtfRle2_le (used block : List UInt8) (hmem : ∀ x ∈ block, x ∈ used) :
    ∀ s ∈ mtfRle2 used block, s ≤ used.length + 1 := by
  intro s hs
  simp only [mtfRle2, List.mem_append, List.mem_singleton] at hs
  rcases hs with h | rfl
  · by_cases hN : 1 ≤ used.length
    · exact zrle_le used.length hN _ 0 (mtfEncode_lt block used hmem) s h
    · -- no byte in use: the block is empty
      have hu : used = [] := List.length_eq_zero_iff.mp (by omega)
      subst hu
      have hb : block = [] := by
        cases block with
        | nil => rfl
        | cons x xs => exact absurd (hmem x (List.mem_cons_self ..)) (by simp)
      subst hb
      simp [mtfEncode, zrle, Lemmas.MtfSpec.runDigits_zero] at h
  · omega

end LbzVerif.Lemmas.MtfInit
