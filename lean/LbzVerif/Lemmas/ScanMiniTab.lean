/-
  Lemmas.ScanMiniTab — finite facts about `mini_dfa` and the pattern, by kernel
  evaluation (cheap: 96 entries).
-/
import LbzVerif.Model.Scan

namespace LbzVerif.Lemmas.ScanMiniTab

open LbzVerif.Model.Scan LbzVerif.Spec.Scan

/-- Every entry of `mini_dfa` is the generic KMP transition of the pattern. -/
theorem mini_eq_delta : ∀ s < 48, ∀ b : Bool, mini s b = δ s b := by
  decide +kernel

/-- Entries of `mini_dfa` are states. -/
theorem mini_le : ∀ s < 48, ∀ b : Bool, mini s b ≤ 48 := by decide +kernel

theorem accept_eq : accept = 48 := by decide

theorem P_length : P.length = 48 := by decide

end LbzVerif.Lemmas.ScanMiniTab
