/-
  Lemmas.CrcFlipWitness — kernel-evaluated instances for Props.C15.File: the CRC
  fields of the real one-block file `aBz2` ("a", `bzip2 -9`, 37 bytes) and of
  `aBz2` followed by an empty stream, and what the model of `lbzip2 -d` and the
  reference answer when one bit of a block CRC / of a stream CRC is flipped.
  (`decide +kernel` runs the whole decompressor model: alone in its module.)
-/
import LbzVerif.Lemmas.CrcFlipMain
import LbzVerif.Lemmas.ExpandHello

namespace LbzVerif.Lemmas.CrcFlipWitness
open LbzVerif LbzVerif.Lemmas.CrcFlipMain LbzVerif.Lemmas.CrcFlipBits LbzVerif.Lemmas.ExpandHello

/-- `aBz2` followed by the 14-byte stream `bzip2` makes of the empty input (level 1) -/
def twoStreams : List UInt8 :=
  aBz2 ++ [0x42, 0x5a, 0x68, 0x31, 0x17, 0x72, 0x45, 0x38, 0x50, 0x90, 0, 0, 0, 0]

theorem crcFields_aBz2 : crcFields aBz2 = [.block 80, .stream 259] := by decide +kernel

theorem crcFields_twoStreams :
    crcFields twoStreams = [.block 80, .stream 259, .stream 376] := by decide +kernel

theorem expandFile_twoStreams : Model.Expand.expandFile twoStreams = .ok [97] := by decide +kernel

/-- bit 5 of the block CRC flipped: the model reports ERR_BLKCRC from do_reorder -/
theorem flip_block_aBz2 :
    Model.Expand.expandFile (flipBit aBz2 (80 + 5)) = .error (.block Gen.ERR_BLKCRC) := by
  decide +kernel

/-- bit 31 (the last) of the stream CRC flipped: the parser reports ERR_STRMCRC -/
theorem flip_stream_aBz2 :
    Model.Expand.expandFile (flipBit aBz2 (259 + 31)) = .error (.data Gen.ERR_STRMCRC) := by
  decide +kernel

/-- bit 0 of the CRC of the second, empty stream flipped -/
theorem flip_stream2_twoStreams :
    Model.Expand.expandFile (flipBit twoStreams (376 + 0)) = .error (.data Gen.ERR_STRMCRC) := by
  decide +kernel

end LbzVerif.Lemmas.CrcFlipWitness
