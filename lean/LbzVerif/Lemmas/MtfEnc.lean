/-
  Lemmas.MtfEnc — the model of encode.c `do_mtf` (front symbol `u` + array
  `order`, RUN() macro) computes the reference MTF / zero-run encoding.
-/
import LbzVerif.Spec.Mtf
import LbzVerif.Model.MtfEnc
import LbzVerif.Lemmas.MtfSpec

namespace LbzVerif.Lemmas.MtfEnc
open LbzVerif.Spec.Mtf LbzVerif.Model.MtfEnc LbzVerif.Lemmas.MtfSpec

/-! ### RUN() = bijective base-2 -/

theorem runEmit_eq_runDigits (k : Nat) : runEmit k = runDigits k := by
  induction k using Nat.strongRecOn with
  | _ k ih =>
    by_cases h0 : k = 0
    · subst h0; rw [runEmit, runDigits_zero]; simp
    · rw [runEmit]
      simp only [h0, if_false, Nat.and_one_is_mod, Nat.shiftRight_eq_div_pow, Nat.pow_one]
      by_cases h : k % 2 = 1
      · rw [runDigits_odd k h0 h, ih _ (by omega)]
        have : (k - 1) % 2 = 0 := by omega
        rw [this]
      · rw [runDigits_even k h0 h, ih _ (by omega)]
        have h1 : (k - 1) % 2 = 1 := by omega
        have h2 : (k - 1) / 2 = (k - 2) / 2 := by omega
        rw [h1, h2]

/-! ### the MTF() macro -/

theorem mtfLoop_spec (c : UInt8) : ∀ (B A : List UInt8) (x : UInt8), A ≠ [] → c ∈ x :: B →
    mtfLoop c (A ++ B) (A.length - 1) x =
      some (A ++ (x :: B).eraseIdx ((x :: B).idxOf c), A.length - 1 + (x :: B).idxOf c) := by
  intro B
  induction B with
  | nil =>
    intro A x _ hc
    have : c = x := by simpa using hc
    subst this
    rw [mtfLoop]; simp
  | cons y B ih =>
    intro A x hA hc
    by_cases hcx : c = x
    · subst hcx
      rw [mtfLoop]; simp
    · have hcB : c ∈ y :: B := by
        rcases List.mem_cons.mp hc with h | h
        · exact absurd h hcx
        · exact h
      have hlen : 0 < A.length := List.length_pos_iff.mpr hA
      rw [mtfLoop]
      have hlt : A.length - 1 + 1 < (A ++ y :: B).length := by
        simp only [List.length_append, List.length_cons]; omega
      have hidx : A.length - 1 + 1 = A.length := by omega
      simp only [hcx, if_false, hlt, dite_true]
      have hget : (A ++ y :: B)[A.length - 1 + 1]'hlt = y := by
        simp only [hidx]
        rw [List.getElem_append_right (Nat.le_refl _)]
        simp
      have hset : (A ++ y :: B).set (A.length - 1 + 1) x = (A ++ [x]) ++ B := by
        rw [hidx, List.set_append_right _ _ (Nat.le_refl _)]
        simp
      rw [hget, hset]
      have := ih (A ++ [x]) y (by simp) hcB
      simp only [List.length_append, List.length_cons, List.length_nil] at this
      have e : A.length + (0 + 1) - 1 = A.length - 1 + 1 := by omega
      rw [e] at this
      rw [this]
      have hxc : (x == c) = false := by
        simp only [beq_eq_false_iff_ne, ne_eq]; exact fun h => hcx h.symm
      have hj : (x :: y :: B).idxOf c = (y :: B).idxOf c + 1 := by
        rw [List.idxOf_cons (x := x)]; simp [hxc]
      rw [hj, List.eraseIdx_cons_succ]
      simp only [List.append_assoc, List.cons_append, List.nil_append, Option.some.injEq,
        Prod.mk.injEq, true_and]
      omega

/-- The MTF() macro finds `c` at list position `j + 1` (`j` in `order`), emits
`j + 2` and leaves `order = (u :: order) with that position erased`. -/
theorem mtfMacro_spec (c u : UInt8) (order : List UInt8) (hcu : c ≠ u) (hc : c ∈ order) :
    mtfMacro c u order =
      some ((u :: order).idxOf c + 1, ((u :: order).eraseIdx ((u :: order).idxOf c))) := by
  obtain ⟨t, B, rfl⟩ := List.exists_cons_of_ne_nil (List.ne_nil_of_mem hc)
  unfold mtfMacro
  simp only [List.getElem?_cons_zero, List.set_cons_zero]
  have := mtfLoop_spec c B [u] t (by simp) hc
  simp only [List.length_cons, List.length_nil, Nat.zero_add, Nat.sub_self,
    List.cons_append, List.nil_append] at this
  rw [this]
  have huc : (u == c) = false := by
    simp only [beq_eq_false_iff_ne, ne_eq]; exact fun h => hcu h.symm
  have hj : (u :: t :: B).idxOf c = (t :: B).idxOf c + 1 := by
    rw [List.idxOf_cons (x := u)]; simp [huc]
  rw [hj, List.eraseIdx_cons_succ]

/-! ### relation between the C list (over `cmap` values) and the reference list -/

/-- `cm` as a function -/
def cmOf (cmap : List UInt8) (b : UInt8) : UInt8 := cmap.getD b.toNat 0

/-- The C list `u :: order` is the image of the reference list `l` followed by
values that are no images. -/
structure Rel (cm : UInt8 → UInt8) (l : List UInt8) (cl rest : List UInt8) : Prop where
  eq : cl = l.map cm ++ rest
  inj : ∀ x ∈ l, ∀ y ∈ l, cm x = cm y → x = y
  sep : ∀ x ∈ l, cm x ∉ rest

theorem idxOf_map_inj (cm : UInt8 → UInt8) (rest : List UInt8) :
    ∀ (l : List UInt8) (x : UInt8), x ∈ l → (∀ a ∈ l, ∀ b ∈ l, cm a = cm b → a = b) →
      (l.map cm ++ rest).idxOf (cm x) = l.idxOf x := by
  intro l
  induction l with
  | nil => intro x hx; simp at hx
  | cons a t ih =>
    intro x hx hinj
    simp only [List.map_cons, List.cons_append]
    rw [List.idxOf_cons, List.idxOf_cons]
    by_cases hax : a = x
    · subst hax; simp
    · have h1 : (a == x) = false := by simpa using hax
      have h2 : (cm a == cm x) = false := by
        simp only [beq_eq_false_iff_ne, ne_eq]
        intro h
        exact hax (hinj a (List.mem_cons_self ..) x hx h)
      have hxt : x ∈ t := by
        rcases List.mem_cons.mp hx with h | h
        · exact absurd h.symm hax
        · exact h
      simp only [h1, h2, cond_false]
      rw [ih x hxt (fun p hp q hq => hinj p (List.mem_cons_of_mem _ hp) q (List.mem_cons_of_mem _ hq))]

theorem map_eraseIdx (cm : UInt8 → UInt8) : ∀ (l : List UInt8) (p : Nat),
    (l.eraseIdx p).map cm = (l.map cm).eraseIdx p := by
  intro l
  induction l with
  | nil => intro p; simp
  | cons a t ih =>
    intro p
    cases p with
    | zero => simp
    | succ p => simp [ih]

/-- `Rel` is preserved by a move-to-front at the same position on both sides. -/
theorem Rel.step {cm : UInt8 → UInt8} {l cl rest : List UInt8} (h : Rel cm l cl rest)
    (x : UInt8) (hx : x ∈ l) :
    Rel cm (moveToFront l (l.idxOf x)) (cm x :: cl.eraseIdx (cl.idxOf (cm x))) rest := by
  have hp : l.idxOf x < l.length := List.idxOf_lt_length_of_mem hx
  have hget : l[l.idxOf x]? = some x := by
    rw [List.getElem?_eq_getElem hp, List.getElem_idxOf hp]
  have hmtf : moveToFront l (l.idxOf x) = x :: l.eraseIdx (l.idxOf x) := by
    simp [moveToFront, hget]
  have hidx : cl.idxOf (cm x) = l.idxOf x := by
    rw [h.eq]; exact idxOf_map_inj cm rest l x hx h.inj
  refine ⟨?_, ?_, ?_⟩
  · rw [hmtf, hidx, h.eq, List.eraseIdx_append_of_lt_length (by simpa using hp)]
    simp [map_eraseIdx]
  · intro a ha b hb
    exact h.inj a ((mem_moveToFront _ _ _).mp ha) b ((mem_moveToFront _ _ _).mp hb)
  · intro a ha
    exact h.sep a ((mem_moveToFront _ _ _).mp ha)

/-! ### the main loop -/

theorem loop_spec (cmap : List UInt8) (hcm : cmap.length = 256) (eob : Nat) (rest : List UInt8)
    (block : List UInt8) :
    ∀ (l : List UInt8) (u : UInt8) (order : List UInt8) (k : Nat),
      Rel (cmOf cmap) l (u :: order) rest → (∀ x ∈ block, x ∈ l) →
      loop cmap eob u order k block = some (zrle k (mtfEncode l block) ++ [eob]) := by
  induction block with
  | nil =>
    intro l u order k _ _
    simp [loop, mtfEncode, zrle, runEmit_eq_runDigits]
  | cons x xs ih =>
    intro l u order k hrel hmem
    have hx : x ∈ l := hmem x (List.mem_cons_self ..)
    have hxs : ∀ y ∈ xs, y ∈ l := fun y hy => hmem y (List.mem_cons_of_mem _ hy)
    have hlt : x.toNat < cmap.length := by
      rw [hcm]; exact UInt8.toNat_lt x
    have hc : cmap[x.toNat]? = some (cmOf cmap x) := by
      simp [cmOf, List.getD_eq_getElem?_getD, List.getElem?_eq_getElem hlt]
    obtain ⟨a, t, rfl⟩ := List.exists_cons_of_ne_nil (List.ne_nil_of_mem hx)
    have heq := hrel.eq
    simp only [List.map_cons, List.cons_append, List.cons.injEq] at heq
    obtain ⟨hu, horder⟩ := heq
    have hidx : (u :: order).idxOf (cmOf cmap x) = (a :: t).idxOf x := by
      rw [hrel.eq]; exact idxOf_map_inj _ rest _ x hx hrel.inj
    rw [loop]
    simp only [hc, mtfEncode]
    by_cases hcu : cmOf cmap x = u
    · -- front symbol: the run grows
      have hax : a = x := by
        apply hrel.inj a (List.mem_cons_self ..) x hx
        rw [hcu, hu]
      subst hax
      have h0 : (a :: t).idxOf a = 0 := by simp
      simp only [hcu, if_true, h0, moveToFront_zero, zrle]
      exact ih (a :: t) u order (k + 1) hrel hxs
    · have hax : a ≠ x := by
        intro h; subst h; exact hcu hu.symm
      have hxt : x ∈ t := by
        rcases List.mem_cons.mp hx with h | h
        · exact absurd h.symm hax
        · exact h
      have hcorder : cmOf cmap x ∈ order := by
        rw [horder]
        exact List.mem_append_left _ (List.mem_map_of_mem hxt)
      have hax' : (a == x) = false := by simpa using hax
      have hpos : (a :: t).idxOf x = t.idxOf x + 1 := by
        rw [List.idxOf_cons]; simp [hax']
      simp only [hcu, if_false, mtfMacro_spec _ _ _ hcu hcorder]
      have hstep := hrel.step x hx
      rw [ih _ (cmOf cmap x) _ 0 hstep
        (fun y hy => (mem_moveToFront _ _ _).mpr (hxs y hy))]
      rw [hidx, hpos]
      simp [zrle, runEmit_eq_runDigits]

/-! ### `make_map_e` -/

/-- number of `i < v` with `f i` -/
def cnt (f : Nat → Bool) (v : Nat) : Nat := ((List.range v).filter f).length

theorem cnt_zero (f : Nat → Bool) : cnt f 0 = 0 := rfl

theorem cnt_succ (f : Nat → Bool) (v : Nat) :
    cnt f (v + 1) = cnt f v + (if f v then 1 else 0) := by
  unfold cnt
  rw [List.range_succ, List.filter_append]
  by_cases h : f v <;> simp [h]

theorem makeMapEGo_spec (f : Nat → Bool) : ∀ (len s j : Nat),
    (makeMapEGo ((List.range' s len).map f) j).2 = j + ((List.range' s len).filter f).length ∧
    ∀ i, i < len → (makeMapEGo ((List.range' s len).map f) j).1[i]? =
      some (UInt8.ofNat (j + ((List.range' s i).filter f).length)) := by
  intro len
  induction len with
  | zero => intro s j; simp [makeMapEGo]
  | succ len ih =>
    intro s j
    have hr : List.range' s (len + 1) = s :: List.range' (s + 1) len := by
      simp [List.range'_succ]
    rw [hr]
    simp only [List.map_cons, makeMapEGo]
    obtain ⟨h2, h1⟩ := ih (s + 1) (j + (if f s then 1 else 0))
    constructor
    · rw [h2]
      cases hf : f s <;> simp [List.filter_cons, hf] <;> omega
    · intro i hi
      cases i with
      | zero => simp
      | succ i =>
        simp only [List.getElem?_cons_succ]
        rw [h1 i (by omega)]
        have hr' : List.range' s (i + 1) = s :: List.range' (s + 1) i := by
          simp [List.range'_succ]
        rw [hr']
        have e : j + (if f s = true then 1 else 0) + (List.filter f (List.range' (s + 1) i)).length
            = j + (List.filter f (s :: List.range' (s + 1) i)).length := by
          cases hf : f s <;> simp [List.filter_cons, hf] <;> omega
        rw [e]

theorem makeMapEGo_length : ∀ (l : List Bool) (j : Nat), (makeMapEGo l j).1.length = l.length := by
  intro l
  induction l with
  | nil => intro j; rfl
  | cons k t ih => intro j; simp [makeMapEGo, ih]

/-- membership test used by `inuseOf` -/
def fUsed (used : List UInt8) (i : Nat) : Bool := used.contains (UInt8.ofNat i)

theorem inuseOf_eq (used : List UInt8) : inuseOf used = (List.range' 0 256).map (fUsed used) := by
  simp [inuseOf, fUsed, List.range_eq_range']

theorem makeMapE_snd (used : List UInt8) : (makeMapE (inuseOf used)).2 = cnt (fUsed used) 256 := by
  rw [makeMapE, inuseOf_eq]
  have := (makeMapEGo_spec (fUsed used) 256 0 0).1
  rw [this]; simp [cnt, List.range_eq_range']

theorem makeMapE_get (used : List UInt8) (v : Nat) (hv : v < 256) :
    (makeMapE (inuseOf used)).1[v]? = some (UInt8.ofNat (cnt (fUsed used) v)) := by
  rw [makeMapE, inuseOf_eq]
  have := (makeMapEGo_spec (fUsed used) 256 0 0).2 v hv
  rw [this]; simp [cnt, List.range_eq_range']

theorem makeMapE_length (used : List UInt8) : (makeMapE (inuseOf used)).1.length = 256 := by
  rw [makeMapE, makeMapEGo_length]; simp [inuseOf]

/-- rank of the value `v`: how many used bytes are below it -/
def rank (used : List UInt8) (v : Nat) : Nat := (used.filter (fun x => x.toNat < v)).length

theorem rank_cons (a : UInt8) (t : List UInt8) (v : Nat) :
    rank (a :: t) v = (if a.toNat < v then 1 else 0) + rank t v := by
  unfold rank
  by_cases h : a.toNat < v <;> simp [List.filter_cons, h] <;> omega

theorem cnt_nil (v : Nat) : cnt (fUsed []) v = 0 := by
  induction v with
  | zero => rfl
  | succ v ih => rw [cnt_succ, ih]; simp [fUsed]

theorem ofNat_eq_iff (v : Nat) (hv : v < 256) (a : UInt8) : UInt8.ofNat v = a ↔ v = a.toNat := by
  constructor
  · intro h; subst h; simp [UInt8.toNat_ofNat']; omega
  · intro h; subst h; simp

theorem cnt_cons (a : UInt8) (t : List UInt8) (ha : a ∉ t) : ∀ v, v ≤ 256 →
    cnt (fUsed (a :: t)) v = (if a.toNat < v then 1 else 0) + cnt (fUsed t) v := by
  intro v
  induction v with
  | zero => intro _; simp [cnt_zero]
  | succ v ih =>
    intro hv
    rw [cnt_succ, cnt_succ, ih (by omega)]
    have hiff := ofNat_eq_iff v (by omega) a
    by_cases hva : v = a.toNat
    · have h1 : fUsed (a :: t) v = true := by
        simp [fUsed, List.contains_cons, hiff.mpr hva]
      have h2 : fUsed t v = false := by
        simp only [fUsed, hiff.mpr hva]
        simpa using ha
      simp only [h1, h2, if_true]
      have e1 : ¬ a.toNat < v := by omega
      have e2 : a.toNat < v + 1 := by omega
      simp only [e1, e2, if_true, if_false]
      simp; omega
    · have hne : ¬ UInt8.ofNat v = a := fun h => hva (hiff.mp h)
      have h1 : fUsed (a :: t) v = fUsed t v := by
        simp [fUsed, List.contains_cons, hne]
      rw [h1]
      have e : (a.toNat < v + 1) ↔ (a.toNat < v) := by omega
      simp only [e]
      omega

theorem cnt_eq_rank : ∀ (used : List UInt8), used.Pairwise (· < ·) → ∀ v, v ≤ 256 →
    cnt (fUsed used) v = rank used v := by
  intro used
  induction used with
  | nil => intro _ v _; rw [cnt_nil]; rfl
  | cons a t ih =>
    intro hs v hv
    obtain ⟨hat, ht⟩ := List.pairwise_cons.mp hs
    have ha : a ∉ t := fun h => by
      have := hat a h
      exact absurd this (by simp [UInt8.lt_iff_toNat_lt])
    rw [cnt_cons a t ha v hv, rank_cons, ih ht v hv]

theorem rank_getElem : ∀ (used : List UInt8), used.Pairwise (· < ·) →
    ∀ i (h : i < used.length), rank used used[i].toNat = i := by
  intro used
  induction used with
  | nil => intro _ i h; simp at h
  | cons a t ih =>
    intro hs i h
    obtain ⟨hat, ht⟩ := List.pairwise_cons.mp hs
    rw [rank_cons]
    cases i with
    | zero =>
      simp only [List.getElem_cons_zero, Nat.lt_irrefl, if_false, Nat.zero_add]
      unfold rank
      rw [List.length_eq_zero_iff, List.filter_eq_nil_iff]
      intro x hx
      have := UInt8.lt_iff_toNat_lt.mp (hat x hx)
      simp; omega
    | succ i =>
      simp only [List.getElem_cons_succ]
      have hi : i < t.length := by simpa using h
      have := UInt8.lt_iff_toNat_lt.mp (hat t[i] (List.getElem_mem hi))
      simp only [this, if_true]
      rw [ih ht i hi]; omega

theorem rank_top (used : List UInt8) : rank used 256 = used.length := by
  unfold rank
  rw [List.filter_eq_self.mpr]
  intro x _
  simpa using UInt8.toNat_lt x

theorem rank_le (used : List UInt8) (v : Nat) : rank used v ≤ used.length := by
  unfold rank; exact List.length_filter_le _ _

theorem sorted_length_le (used : List UInt8) (hs : used.Pairwise (· < ·)) : used.length ≤ 256 := by
  have : ∀ (l : List UInt8) (b : Nat), l.Pairwise (· < ·) → (∀ x ∈ l, b ≤ x.toNat) → b ≤ 256 →
      l.length + b ≤ 256 := by
    intro l
    induction l with
    | nil => intro b _ _ hb; simpa using hb
    | cons a t ih =>
      intro b hs hb _
      obtain ⟨hat, ht⟩ := List.pairwise_cons.mp hs
      by_cases hte : t = []
      · subst hte
        have := hb a (List.mem_cons_self ..)
        have := UInt8.toNat_lt a
        simp; omega
      · have := ih (a.toNat + 1) ht (fun x hx => by
          have := UInt8.lt_iff_toNat_lt.mp (hat x hx); omega) (by
          have := UInt8.toNat_lt a; simp at this; omega)
        have := hb a (List.mem_cons_self ..)
        simp only [List.length_cons]; omega
  have := this used 0 hs (fun _ _ => Nat.zero_le _) (by omega)
  omega

set_option maxRecDepth 100000 in
theorem ident_eq : (0 : UInt8) :: order0 = (List.range 256).map UInt8.ofNat := by decide

/-- What `make_map_e` establishes for a strictly ascending `used`. -/
theorem makeMapE_rel (used : List UInt8) (hs : used.Pairwise (· < ·)) :
    (makeMapE (inuseOf used)).2 = used.length ∧
    Rel (cmOf (makeMapE (inuseOf used)).1) used ((0 : UInt8) :: order0)
      ((List.range' used.length (256 - used.length)).map UInt8.ofNat) := by
  have hn := sorted_length_le used hs
  have hcm : ∀ (i : Nat) (h : i < used.length),
      cmOf (makeMapE (inuseOf used)).1 used[i] = UInt8.ofNat i := by
    intro i h
    have hv := UInt8.toNat_lt used[i]
    simp only [cmOf, List.getD_eq_getElem?_getD, makeMapE_get used _ (by simpa using hv),
      Option.getD_some]
    rw [cnt_eq_rank used hs _ (by have := UInt8.toNat_lt used[i]; simp at this; omega),
      rank_getElem used hs i h]
  refine ⟨?_, ?_, ?_, ?_⟩
  · rw [makeMapE_snd, cnt_eq_rank used hs 256 (Nat.le_refl _), rank_top]
  · rw [ident_eq]
    have hsplit : List.range 256 = List.range' 0 used.length ++
        List.range' used.length (256 - used.length) := by
      rw [List.range_eq_range']
      have := @List.range'_append 0 used.length (256 - used.length) 1
      simp only [Nat.one_mul, Nat.zero_add] at this
      rw [this]; congr 1; omega
    rw [hsplit, List.map_append]
    congr 1
    apply List.ext_getElem
    · simp
    · intro i h1 h2
      simp only [List.length_map, List.length_range'] at h1
      simp only [List.getElem_map, List.getElem_range', Nat.zero_add, Nat.one_mul]
      exact (hcm i h1).symm
  · intro x hx y hy hxy
    obtain ⟨i, hi, rfl⟩ := List.getElem_of_mem hx
    obtain ⟨j, hj, rfl⟩ := List.getElem_of_mem hy
    rw [hcm i hi, hcm j hj] at hxy
    have := congrArg UInt8.toNat hxy
    simp only [UInt8.toNat_ofNat'] at this
    have hij : i = j := by omega
    subst hij; rfl
  · intro x hx hmem
    obtain ⟨i, hi, rfl⟩ := List.getElem_of_mem hx
    rw [hcm i hi] at hmem
    obtain ⟨j, hj, hji⟩ := List.mem_map.mp hmem
    have hjr := List.mem_range'_1.mp hj
    have := congrArg UInt8.toNat hji
    simp only [UInt8.toNat_ofNat'] at this
    omega

/-- The model of `make_map_e` + `do_mtf` computes the reference encoding. -/
theorem doMtf_spec (used block : List UInt8) (hs : used.Pairwise (· < ·))
    (hmem : ∀ x ∈ block, x ∈ used) :
    doMtf used block = some (mtfRle2 used block) := by
  obtain ⟨h2, hrel⟩ := makeMapE_rel used hs
  unfold doMtf doMtfWith mtfRle2
  simp only [h2]
  exact loop_spec _ (makeMapE_length used) _ _ block used 0 order0 0 hrel hmem

end LbzVerif.Lemmas.MtfEnc
