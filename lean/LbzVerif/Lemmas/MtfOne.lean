/-
  Lemmas.MtfOne — `mtf_one` on the sliding lists: never leaves
  `imtf_slide[0, SLIDE_LENGTH)`, preserves the layout invariant, and acts on the
  logical list (the 16 rows concatenated) as list move-to-front.
-/
import LbzVerif.Spec.Mtf
import LbzVerif.Model.MtfDec
import LbzVerif.Lemmas.MtfSlide

namespace LbzVerif.Lemmas.MtfOne
open LbzVerif.Model.MtfDec LbzVerif.Gen LbzVerif.Lemmas.MtfSlide

/-- Layout invariant of the sliding lists: rows lie in the pool, in order,
at least a row width apart. -/
structure Inv (s : Slide) : Prop where
  size : s.mem.size = 8192
  len : s.row.length = 16
  sep : ∀ i j, i ≤ j → j < 16 → R s.row i + 16 * (j - i) ≤ R s.row j
  top : R s.row 15 + 16 ≤ 8192

theorem absAt_eq (s : Slide) (k : Nat) : absAt s k = g s.mem (R s.row (k / 16) + k % 16) := by
  simp [absAt, g, R, row_width]

theorem Inv.hi {s : Slide} (h : Inv s) (i : Nat) (hi : i < 16) : R s.row i + 16 * (16 - i) ≤ 8192 := by
  have := h.sep i 15 (by omega) (by omega)
  have := h.top
  omega

/-! ### fast path -/

theorem fast_spec (s : Slide) (h : Inv s) (c : UInt8) (h1 : 1 ≤ c.toNat) (h16 : c.toNat < 16) :
    ∃ s', mtfOne s c = some (absAt s c.toNat, s') ∧ Inv s' ∧ s'.row = s.row ∧
      (∀ k, k < 256 → absAt s' k =
        if k = 0 then absAt s c.toNat else if k ≤ c.toNat then absAt s (k - 1) else absAt s k) := by
  have hhi := h.hi 0 (by omega)
  have hsz := h.size
  obtain ⟨m1, e1, e2, e3⟩ := shiftUp_spec (R s.row 0) c.toNat s.mem (by omega)
  have hb : absAt s c.toNat = g s.mem (R s.row 0 + c.toNat) := by
    rw [absAt_eq]
    have : c.toNat / 16 = 0 := by omega
    have : c.toNat % 16 = c.toNat := by omega
    simp [*]
  refine ⟨⟨m1.setIfInBounds (R s.row 0) (absAt s c.toNat), s.row⟩, ?_, ?_, rfl, ?_⟩
  · unfold mtfOne
    have c0 : ¬ c.toNat = 0 := by omega
    simp only [row_width, h16, if_true, c0, if_false]
    rw [row_get s.row 0 (by rw [h.len]; omega)]
    dsimp only
    rw [rd_eq s.mem _ (by omega)]
    dsimp only
    rw [e1]
    dsimp only
    rw [wr_eq m1 _ _ (by omega), hb]
  · exact ⟨by simp [e2, hsz], h.len, h.sep, h.top⟩
  · intro k hk
    rw [absAt_eq]
    simp only [g_set, e3]
    by_cases hq : k / 16 = 0
    · have hk16 : k < 16 := by omega
      have ht : k % 16 = k := by omega
      rw [hq, ht]
      by_cases k0 : k = 0
      · subst k0; simp; omega
      · have hkm : absAt s (k - 1) = g s.mem (R s.row 0 + k - 1) := by
          rw [absAt_eq]
          have : (k - 1) / 16 = 0 := by omega
          have : (k - 1) % 16 = k - 1 := by omega
          simp only [*]
          congr 1; omega
        have hkk : absAt s k = g s.mem (R s.row 0 + k) := by
          rw [absAt_eq, hq, ht]
        rw [hkm, hkk]
        ifs
    · have hsep := h.sep 0 (k / 16) (by omega) (by omega)
      have hkk : absAt s k = g s.mem (R s.row (k / 16) + k % 16) := absAt_eq s k
      rw [hkk]
      ifs

/-! ### rebuild -/

theorem rebuild_spec (s : Slide) (h : Inv s) :
    ∃ s1, rebuild s = some s1 ∧ Inv s1 ∧ (∀ i, i < 16 → R s1.row i = 7936 + 16 * i) ∧
      (∀ k, k < 256 → absAt s1 k = absAt s k) := by
  obtain ⟨m', row', e1, e2, e3, e4, _, e6⟩ := rebuildLoop_spec 16 s.mem s.row (by omega) h.size h.len
    (by intro i hi; have := h.hi i hi; omega)
  have hrow : ∀ i, i < 16 → R row' i = 7936 + 16 * i := by
    intro i hi; rw [e4 i]; simp [hi]
  refine ⟨⟨m', row'⟩, ?_, ⟨e2, e3, ?_, ?_⟩, hrow, ?_⟩
  · unfold rebuild
    simp only [slide_length, num_rows]
    have : (7936 + 16 * 16 : Nat) = 8192 := rfl
    rw [this] at e1
    rw [e1]
  · intro i j hij hj
    show R row' i + 16 * (j - i) ≤ R row' j
    rw [hrow i (by omega), hrow j hj]; omega
  · show R row' 15 + 16 ≤ 8192
    rw [hrow 15 (by omega)]; omega
  · intro k hk
    rw [absAt_eq, absAt_eq]
    show g m' (R row' (k / 16) + k % 16) = _
    rw [hrow (k / 16) (by omega), e6 (k / 16) (k % 16) (by omega) (by omega)]

/-! ### general path -/

/-- the part of `mtf_one`'s general path after the rebuild test -/
def generalCore (s1 : Slide) (cn : Nat) : Option (UInt8 × Slide) :=
  match s1.row[cn / ROW_WIDTH]? with
  | none => none
  | some bb =>
    match rd s1.mem (bb + cn % ROW_WIDTH) with
    | none => none
    | some b =>
      match shiftUp s1.mem bb (cn % ROW_WIDTH) with
      | none => none
      | some m1 =>
        match slideLoop m1 s1.row bb (cn / ROW_WIDTH) with
        | none => none
        | some (m2, row2, pp2) =>
          match wr m2 pp2 b with
          | none => none
          | some m3 => some (b, ⟨m3, row2⟩)

theorem mtfOne_general (s : Slide) (c : UInt8) (h16 : ¬ c.toNat < 16) :
    mtfOne s c =
      match s.row[0]? with
      | none => none
      | some r0 =>
        match (if r0 = 0 then rebuild s else some s) with
        | none => none
        | some s1 => generalCore s1 c.toNat := by
  unfold mtfOne generalCore
  simp only [row_width, h16, if_false]
  rfl

theorem generalCore_spec (s : Slide) (h : Inv s) (hr0 : 1 ≤ R s.row 0) (cn : Nat)
    (h16 : 16 ≤ cn) (h256 : cn < 256) :
    ∃ s', generalCore s cn = some (absAt s cn, s') ∧ Inv s' ∧
      (∀ i, R s'.row i = if i < cn / 16 then R s.row i - 1 else R s.row i) ∧
      (∀ k, k < 256 → absAt s' k =
        if k = 0 then absAt s cn else if k ≤ cn then absAt s (k - 1) else absAt s k) := by
  have hsz := h.size
  have hlen := h.len
  have hL1 : 1 ≤ cn / 16 := by omega
  have hL15 : cn / 16 < 16 := by omega
  have hhiL := h.hi (cn / 16) hL15
  have hb : absAt s cn = g s.mem (R s.row (cn / 16) + cn % 16) := absAt_eq s cn
  obtain ⟨m1, a1, a2, f1⟩ := shiftUp_spec (R s.row (cn / 16)) (cn % 16) s.mem (by omega)
  obtain ⟨m2, row2, pp2, b1, b2, b3, f4, f5, f6, f7⟩ :=
    slideLoop_spec (cn / 16) m1 s.row (R s.row (cn / 16)) hL15 (by rw [a2, hsz]) hlen
      (by intro i j hij hj; have := h.sep i j (by omega) (by omega); omega)
      (by intro i hi; have := h.sep i (cn / 16) (by omega) (by omega); omega)
      (by intro i hi; have := h.hi i hi; omega)
      (by intro _; exact hr0)
  have hpp2 : pp2 = R s.row 0 - 1 := by
    rw [f5]; have : ¬ cn / 16 = 0 := by omega
    simp [this]
  have hhi0 := h.hi 0 (by omega)
  refine ⟨⟨m2.setIfInBounds pp2 (absAt s cn), row2⟩, ?_, ⟨?_, b3, ?_, ?_⟩, f4, ?_⟩
  · unfold generalCore
    simp only [row_width]
    rw [row_get s.row _ (by rw [hlen]; exact hL15)]
    dsimp only
    rw [rd_eq s.mem _ (by omega)]
    dsimp only
    rw [a1]
    dsimp only
    rw [b1]
    dsimp only
    rw [wr_eq m2 _ _ (by omega), hb]
  · simp [b2]
  · intro i j hij hj
    show R row2 i + 16 * (j - i) ≤ R row2 j
    rw [f4 i, f4 j]
    have := h.sep i j hij hj
    have := h.sep 0 i (by omega) (by omega)
    ifs
  · show R row2 15 + 16 ≤ 8192
    rw [f4 15]
    have := h.top
    ifs
  · intro k hk
    rw [absAt_eq]
    show g (m2.setIfInBounds pp2 (absAt s cn)) (R row2 (k / 16) + k % 16) = _
    rw [g_set, f4 (k / 16), hpp2]
    have hsep0q := h.sep 0 (k / 16) (by omega) (by omega)
    by_cases k0 : k = 0
    · subst k0
      have : R s.row 0 - 1 < m2.size := by omega
      simp [hL1, this]; omega
    · -- the cell is not row 0's new first cell
      have hne : ¬ (R s.row 0 - 1 = (if k / 16 < cn / 16 then R s.row (k / 16) - 1 else R s.row (k / 16)) + k % 16
          ∧ R s.row 0 - 1 < m2.size) := by
        split <;> omega
      rw [if_neg hne, if_neg k0]
      by_cases hc1 : k % 16 = 0 ∧ k / 16 ≤ cn / 16
      · -- first cell of a row 1 … L: filled from the previous row's last cell
        obtain ⟨ht, hq⟩ := hc1
        have hq1 : 1 ≤ k / 16 := by omega
        have := f6 (k / 16) hq1 hq
        rw [f4 (k / 16)] at this
        rw [ht, Nat.add_zero, this, f1]
        have hs := h.sep (k / 16 - 1) (cn / 16) (by omega) (by omega)
        have hkc : k ≤ cn := by omega
        rw [if_pos hkc, absAt_eq]
        have e1 : (k - 1) / 16 = k / 16 - 1 := by omega
        have e2 : (k - 1) % 16 = 15 := by omega
        rw [e1, e2]
        ifs
      · -- any other cell: untouched by the slide loop
        have hframe := f7 ((if k / 16 < cn / 16 then R s.row (k / 16) - 1 else R s.row (k / 16)) + k % 16)
          (by
            intro i hi1 hi2
            rw [f4 i]
            rcases Nat.lt_trichotomy i (k / 16) with hlt | heq | hgt
            · have := h.sep i (k / 16) (by omega) (by omega)
              have := h.sep 0 i (by omega) (by omega)
              ifs
            · rw [heq]
              ifs
            · have := h.sep (k / 16) i (by omega) (by omega)
              ifs)
        rw [hframe, f1]
        by_cases ht : k % 16 = 0
        · -- first cell of a row above L
          have hq : cn / 16 < k / 16 := by omega
          have hs := h.sep (cn / 16) (k / 16) (by omega) (by omega)
          have hkc : ¬ k ≤ cn := by omega
          rw [if_neg hkc, absAt_eq]
          ifs
        · have e1 : (k - 1) / 16 = k / 16 := by omega
          have e2 : (k - 1) % 16 = k % 16 - 1 := by omega
          rw [absAt_eq s (k - 1), absAt_eq s k, e1, e2]
          rcases Nat.lt_trichotomy (k / 16) (cn / 16) with hlt | heq | hgt
          · have hs := h.sep (k / 16) (cn / 16) (by omega) (by omega)
            have hkc : k ≤ cn := by omega
            rw [if_pos hkc]
            ifs
          · rw [heq]
            rw [heq] at hsep0q
            by_cases hkc : k ≤ cn
            · rw [if_pos hkc]; ifs
            · rw [if_neg hkc]; ifs
          · have hs := h.sep (cn / 16) (k / 16) (by omega) (by omega)
            have hkc : ¬ k ≤ cn := by omega
            rw [if_neg hkc]
            ifs

/-! ### `mtf_one` -/

theorem mtfOne_spec (s : Slide) (h : Inv s) (c : UInt8) (h1 : 1 ≤ c.toNat) :
    ∃ s', mtfOne s c = some (absAt s c.toNat, s') ∧ Inv s' ∧
      (∀ k, k < 256 → absAt s' k =
        if k = 0 then absAt s c.toNat else if k ≤ c.toNat then absAt s (k - 1) else absAt s k) ∧
      (c.toNat < 16 → s'.row = s.row) ∧
      (16 ≤ c.toNat → ∀ i, i < 16 → R s'.row i =
        (if R s.row 0 = 0 then 7936 + 16 * i else R s.row i) - (if i < c.toNat / 16 then 1 else 0)) := by
  have h256 : c.toNat < 256 := by simpa using UInt8.toNat_lt c
  by_cases h16 : c.toNat < 16
  · obtain ⟨s', e1, e2, e3, e4⟩ := fast_spec s h c h1 h16
    exact ⟨s', e1, e2, e4, fun _ => e3, fun hh => absurd h16 (by omega)⟩
  · rw [mtfOne_general s c h16, row_get s.row 0 (by rw [h.len]; omega)]
    dsimp only
    by_cases hr0 : R s.row 0 = 0
    · obtain ⟨s1, r1, r2, r3, r4⟩ := rebuild_spec s h
      rw [if_pos hr0, r1]
      dsimp only
      obtain ⟨s', e1, e2, e3, e4⟩ := generalCore_spec s1 r2 (by rw [r3 0 (by omega)]; omega)
        c.toNat (by omega) h256
      refine ⟨s', ?_, e2, ?_, fun hh => absurd hh h16, ?_⟩
      · rw [e1, r4 _ h256]
      · intro k hk
        rw [e4 k hk, r4 _ h256, r4 k hk]
        by_cases k0 : k = 0
        · simp [k0]
        · rw [r4 (k - 1) (by omega)]
      · intro _ i hi
        rw [e3 i, r3 i hi, if_pos hr0]
        ifs
    · rw [if_neg hr0]
      dsimp only
      obtain ⟨s', e1, e2, e3, e4⟩ := generalCore_spec s h (by omega) c.toNat (by omega) h256
      refine ⟨s', e1, e2, e4, fun hh => absurd hh h16, ?_⟩
      intro _ i hi
      rw [e3 i, if_neg hr0]
      ifs

/-! ### the logical list -/

theorem abs_length (s : Slide) : (abs s).length = 256 := by simp [abs]

theorem abs_getElem (s : Slide) (k : Nat) (hk : k < (abs s).length) : (abs s)[k] = absAt s k := by
  simp [abs]

open LbzVerif.Spec.Mtf in
/-- On the logical list `mtf_one` is list move-to-front. -/
theorem mtfOne_abs (s : Slide) (h : Inv s) (c : UInt8) (h1 : 1 ≤ c.toNat) :
    ∃ b s', mtfOne s c = some (b, s') ∧ Inv s' ∧ (abs s)[c.toNat]? = some b ∧
      abs s' = moveToFront (abs s) c.toNat := by
  have h256 : c.toNat < 256 := by simpa using UInt8.toNat_lt c
  obtain ⟨s', e1, e2, e3, _, _⟩ := mtfOne_spec s h c h1
  have hget : (abs s)[c.toNat]? = some (absAt s c.toNat) := by
    rw [List.getElem?_eq_getElem (by rw [abs_length]; exact h256), abs_getElem]
  refine ⟨_, s', e1, e2, hget, ?_⟩
  unfold moveToFront
  rw [hget]
  dsimp only
  apply List.ext_getElem
  · simp [abs_length, List.length_eraseIdx, h256]
  · intro k hk1 hk2
    rw [abs_length] at hk1
    rw [abs_getElem, e3 k hk1, List.getElem_cons]
    by_cases k0 : k = 0
    · simp [k0]
    · simp only [k0, if_false, dite_false]
      rw [List.getElem_eraseIdx]
      by_cases hkc : k ≤ c.toNat
      · have : k - 1 < c.toNat := by omega
        simp only [hkc, this, if_true, dite_true, abs_getElem]
      · have : ¬ k - 1 < c.toNat := by omega
        simp only [hkc, this, if_false, dite_false, abs_getElem]
        congr 1; omega

open LbzVerif.Spec.Mtf in
/-- … and so is any sequence of calls. -/
theorem mtfMany_abs (cs : List UInt8) : ∀ (s : Slide), Inv s → (∀ c ∈ cs, c ≠ 0) →
    ∃ bs s', mtfMany s cs = some (bs, s') ∧ Inv s' ∧
      mtfDecode (abs s) (cs.map UInt8.toNat) = some bs ∧
      abs s' = (cs.map UInt8.toNat).foldl moveToFront (abs s) := by
  induction cs with
  | nil => intro s h _; exact ⟨[], s, rfl, h, rfl, rfl⟩
  | cons c cs ih =>
    intro s h hc
    have hc0 : 1 ≤ c.toNat := by
      have := hc c (List.mem_cons_self ..)
      have : c.toNat ≠ 0 := fun h0 => this (UInt8.toNat_inj.mp (by simpa using h0))
      omega
    obtain ⟨b, s1, e1, e2, e3, e4⟩ := mtfOne_abs s h c hc0
    obtain ⟨bs, s2, f1, f2, f3, f4⟩ := ih s1 e2 (fun x hx => hc x (List.mem_cons_of_mem _ hx))
    refine ⟨b :: bs, s2, ?_, f2, ?_, ?_⟩
    · rw [mtfMany, e1]; dsimp only; rw [f1]
    · simp only [List.map_cons, mtfDecode, e3]
      rw [← e4, f3]; rfl
    · simp only [List.map_cons, List.foldl_cons]
      rw [← e4, f4]

/-! ### initial state -/

theorem R_initRows (i : Nat) (hi : i < 16) : R initRows i = 7936 + 16 * i := by
  simp only [R, initRows, num_rows, cmap_base, row_width, List.getD_eq_getElem?_getD]
  rw [List.getElem?_eq_getElem (by simpa using hi)]
  simp; omega

theorem inv_slideOf (bytes : List UInt8) : Inv (slideOf bytes) := by
  refine ⟨?_, ?_, ?_, ?_⟩
  · simp only [slideOf, List.size_toArray, List.length_append, List.length_replicate,
      List.length_take, cmap_base]; omega
  · simp [slideOf, initRows, num_rows]
  · intro i j hij hj
    show R initRows i + 16 * (j - i) ≤ R initRows j
    rw [R_initRows i (by omega), R_initRows j hj]; omega
  · show R initRows 15 + 16 ≤ 8192
    rw [R_initRows 15 (by omega)]; omega

theorem abs_slideOf (bytes : List UInt8) (hb : bytes.length = 256) : abs (slideOf bytes) = bytes := by
  apply List.ext_getElem
  · rw [abs_length, hb]
  · intro k hk1 hk2
    rw [abs_length] at hk1
    rw [abs_getElem, absAt_eq]
    show g (slideOf bytes).mem (R initRows (k / 16) + k % 16) = _
    rw [R_initRows _ (by omega)]
    have hidx : 7936 + 16 * (k / 16) + k % 16 = 7936 + k := by omega
    rw [hidx]
    simp only [g, slideOf, cmap_base, Array.getD_eq_getD_getElem?, List.getElem?_toArray,
      List.getElem?_append, List.length_replicate]
    have h1 : ¬ 7936 + k < 7936 := by omega
    have h2 : 7936 + k - 7936 = k := by omega
    simp only [h1, if_false, h2, hb, Nat.sub_self, List.replicate_zero, List.append_nil]
    rw [List.getElem?_take, if_pos hk1, List.getElem?_eq_getElem hk2]
    rfl

end LbzVerif.Lemmas.MtfOne
