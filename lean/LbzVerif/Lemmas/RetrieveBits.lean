/-
  Lemmas.RetrieveBits — item (1) of the gap listed in Props/C05/Retrieve.lean:
  the 64-bit buffer of `retrieve()` (`v` holds `w` live bits left-justified) is
  a FIFO of the stream's bits.  `refill` appends the 32 bits of a word
  (most significant first), `DUMP(k)` drops the first `k`, `PEEK(k)` shows the
  next `k` bits, zero-padded beyond the live ones — all under the invariant
  that `v < 2^64` and the bits below the live ones are 0 (which `refill` and
  `DUMP` preserve).
-/
import LbzVerif.Model.Retrieve
import LbzVerif.Lemmas.RetrieveOk

set_option linter.unusedSimpArgs false

namespace LbzVerif.Lemmas.RetrieveBits
open LbzVerif LbzVerif.Model.Retrieve

/-- The live bits of the buffer, in reading order. -/
def bufBits (v w : Nat) : List Bool := (List.range w).map (fun i => v.testBit (63 - i))

/-- The 32 bits of a word, most significant first. -/
def wordBits (x : Nat) : List Bool := (List.range 32).map (fun i => x.testBit (31 - i))

structure BufInv (v w : Nat) : Prop where
  wle : w ≤ 64
  hi : ∀ i, 64 ≤ i → v.testBit i = false
  lo : ∀ i, i + w < 64 → v.testBit i = false

theorem bufInv_start : BufInv 0 0 := ⟨by omega, by simp, by simp⟩

theorem testBit_refillV (v w x j : Nat) (hw : w < 32) :
    (refillV v w x).testBit j =
      (v.testBit j || (decide (32 - w ≤ j) && (decide (j - (32 - w) < 32) && x.testBit (j - (32 - w))))) := by
  unfold refillV
  have : 64 - (w + 32) = 32 - w := by omega
  rw [this, Nat.testBit_or, Nat.testBit_shiftLeft, Nat.testBit_mod_two_pow]

theorem testBit_dumpV (v k j : Nat) :
    (dumpV v k).testBit j = (decide (j < 64) && (decide (k ≤ j) && v.testBit (j - k))) := by
  unfold dumpV
  rw [Nat.testBit_mod_two_pow, Nat.testBit_shiftLeft]

/-- `refill` appends the bits of the word. -/
theorem refill_bits (v w x : Nat) (hw : w < 32) (inv : BufInv v w) :
    bufBits (refillV v w x) (w + 32) = bufBits v w ++ wordBits x ∧ BufInv (refillV v w x) (w + 32) := by
  constructor
  · apply List.ext_getElem
    · simp [bufBits, wordBits]
    · intro i h1 h2
      simp only [bufBits, wordBits, List.length_map, List.length_range] at h1
      simp only [bufBits, wordBits, List.getElem_map, List.getElem_range, List.getElem_append,
        List.length_map, List.length_range]
      rw [testBit_refillV v w x _ hw]
      by_cases hi : i < w
      · rw [dif_pos hi]
        have : ¬ (63 - i - (32 - w) < 32) := by omega
        simp [this]
      · rw [dif_neg hi]
        have h0 : v.testBit (63 - i) = false := inv.lo _ (by omega)
        have ha : 32 - w ≤ 63 - i := by omega
        have hb : 63 - i - (32 - w) < 32 := by omega
        have hc : 63 - i - (32 - w) = 31 - (i - w) := by omega
        simp [h0, ha, hc]
        intro _; omega
  · refine ⟨by omega, ?_, ?_⟩
    · intro i hi
      rw [testBit_refillV v w x _ hw, inv.hi i hi]
      have : ¬ (i - (32 - w) < 32) := by omega
      simp [this]
    · intro i hi
      rw [testBit_refillV v w x _ hw, inv.lo i (by omega)]
      have : ¬ (32 - w ≤ i) := by omega
      simp [this]

/-- `DUMP(k)` drops the first `k` live bits. -/
theorem dump_bits (v w k : Nat) (hk : k ≤ w) (inv : BufInv v w) :
    bufBits (dumpV v k) (w - k) = (bufBits v w).drop k ∧ BufInv (dumpV v k) (w - k) := by
  have hw := inv.wle
  constructor
  · apply List.ext_getElem
    · simp [bufBits]
    · intro i h1 h2
      simp only [bufBits, List.length_map, List.length_range] at h1
      simp only [bufBits, List.getElem_map, List.getElem_range, List.getElem_drop]
      rw [testBit_dumpV]
      have ha : 63 - i < 64 := by omega
      have hb : k ≤ 63 - i := by omega
      have hc : 63 - i - k = 63 - (k + i) := by omega
      simp [ha, hb, hc]
  · refine ⟨by omega, ?_, ?_⟩
    · intro i hi
      rw [testBit_dumpV]
      have : ¬ (i < 64) := by omega
      simp [this]
    · intro i hi
      rw [testBit_dumpV]
      by_cases hki : k ≤ i
      · rw [inv.lo (i - k) (by omega)]; simp
      · simp [hki]

/-- `PEEK(k)` (`k ≤ 64`): bit `i` of the value (counted from the least
significant end) is bit `k - 1 - i` of the buffer in reading order — a live
bit if there is one at that place, 0 beyond the live bits. -/
theorem peek_testBit (v w k i : Nat) (hk : k ≤ 64) (inv : BufInv v w) :
    (v >>> (64 - k)).testBit i =
      (decide (i < k) && (bufBits v w).getD (k - 1 - i) false) := by
  rw [Nat.testBit_shiftRight]
  by_cases hik : i < k
  · have hidx : 64 - k + i = 63 - (k - 1 - i) := by omega
    simp only [hik, decide_true, Bool.true_and]
    by_cases hl : k - 1 - i < w
    · rw [List.getD_eq_getElem?_getD, List.getElem?_eq_getElem (by simp [bufBits]; exact hl)]
      simp [bufBits, hidx]
    · rw [List.getD_eq_getElem?_getD, List.getElem?_eq_none (by simp [bufBits]; omega)]
      simp only [Option.getD_none]
      exact inv.lo _ (by omega)
  · simp only [hik, decide_false, Bool.false_and]
    exact inv.hi _ (by omega)

/-- The buffer after any legal sequence of refills and dumps is determined by
the bits: two buffers with the same invariant and the same live bits are
equal. -/
theorem buf_ext (v v' w : Nat) (i1 : BufInv v w) (i2 : BufInv v' w)
    (h : bufBits v w = bufBits v' w) : v = v' := by
  apply Nat.eq_of_testBit_eq
  intro j
  by_cases hj : 64 ≤ j
  · rw [i1.hi j hj, i2.hi j hj]
  · by_cases hl : j + w < 64
    · rw [i1.lo j hl, i2.lo j hl]
    · have hidx : 63 - j < w := by omega
      have := congrArg (fun l => l.getD (63 - j) false) h
      simp only [bufBits, List.getD_eq_getElem?_getD] at this
      rw [List.getElem?_eq_getElem (by simp; exact hidx),
        List.getElem?_eq_getElem (by simp; exact hidx)] at this
      simp only [List.getElem_map, List.getElem_range, Option.getD_some] at this
      have e : 63 - (63 - j) = j := by omega
      rw [e] at this
      exact this

theorem wordBits_eq (x : Nat) : wordBits x = Basic.natToBits 32 x := rfl

/-- The same on the model's state operations. -/
theorem dump_st_bits (st st' : St) (k : Nat) (h : dump st k = some st') (inv : BufInv st.v st.w) :
    bufBits st'.v st'.w = (bufBits st.v st.w).drop k ∧ BufInv st'.v st'.w := by
  unfold dump at h
  split at h
  · cases h
  · rename_i hk
    injection h with h; subst h
    exact dump_bits st.v st.w k (by omega) inv

theorem refill_st_bits (st : St) (x : Nat) (hw : st.w < 32) (inv : BufInv st.v st.w) :
    bufBits (refill st x).v (refill st x).w = bufBits st.v st.w ++ Basic.natToBits 32 x ∧
      BufInv (refill st x).v (refill st x).w := by
  rw [← wordBits_eq]
  exact refill_bits st.v st.w x hw inv

-- 0xA0000000_00000000 with 3 live bits, then the word 0x80000001
example : bufBits 0xA000000000000000 3 = [true, false, true] ∧
    bufBits (refillV 0xA000000000000000 3 0x80000001) 35 =
      [true, false, true] ++ wordBits 0x80000001 ∧
    bufBits (dumpV 0xA000000000000000 2) 1 = [true] := by decide

/-! ### the whole machine reads the stream sequentially -/

/-- Buffer `(v', w')` holds a suffix of the bits of buffer `(v, w)`. -/
def Suf (v w v' w' : Nat) : Prop :=
  BufInv v' w' ∧ ∃ k, bufBits v' w' = (bufBits v w).drop k

theorem suf_refl (v w : Nat) (inv : BufInv v w) : Suf v w v w := ⟨inv, 0, by simp⟩

theorem suf_trans {v w v1 w1 v2 w2 : Nat} (h1 : Suf v w v1 w1) (h2 : Suf v1 w1 v2 w2) :
    Suf v w v2 w2 := by
  obtain ⟨_, k1, e1⟩ := h1
  obtain ⟨i2, k2, e2⟩ := h2
  exact ⟨i2, k1 + k2, by rw [e2, e1, List.drop_drop]⟩

theorem suf_dump (st st' : St) (k : Nat) (h : dump st k = some st') (inv : BufInv st.v st.w) :
    Suf st.v st.w st'.v st'.w := by
  obtain ⟨e, i⟩ := dump_st_bits st st' k h inv
  exact ⟨i, k, e⟩

theorem suf_take (st st' : St) (k x : Nat) (h : take st k = some (x, st')) (inv : BufInv st.v st.w) :
    Suf st.v st.w st'.v st'.w := by
  unfold take at h
  cases hd : dump st k with
  | none => rw [hd] at h; cases h
  | some s =>
    rw [hd] at h
    injection h with h
    injection h with _ h2
    subst h2
    exact suf_dump st s k hd inv

/-- A step leaves the buffer holding a suffix of what it held (for the
outcomes after which the buffer still matters). -/
inductive BitsOK (v w : Nat) : Step → Prop
  | cont {s : St} : Suf v w s.v s.w → BitsOK v w (.cont s)
  | top {s : St} : Suf v w s.v s.w → BitsOK v w (.top s)
  | ok {s : St} : Suf v w s.v s.w → BitsOK v w (.done .ok s)
  | other {r : Halt} {s : St} : r ≠ .ok → BitsOK v w (.done r s)

theorem bitsOK_trans {v w v1 w1 : Nat} {x : Step} (h1 : Suf v w v1 w1) (h2 : BitsOK v1 w1 x) :
    BitsOK v w x := by
  cases h2 with
  | cont h => exact .cont (suf_trans h1 h)
  | top h => exact .top (suf_trans h1 h)
  | ok h => exact .ok (suf_trans h1 h)
  | other h => exact .other h

theorem bitsOK_errS (v w c : Nat) : BitsOK v w (errS c) := .other (by simp)
theorem bitsOK_ubS (v w : Nat) : BitsOK v w ubS := .other (by simp)

theorem bitsOK_eobFinish (st : St) (inv : BufInv st.v st.w) : BitsOK st.v st.w (eobFinish st) := by
  unfold eobFinish
  split
  · exact bitsOK_errS _ _ _
  · simp only
    split
    · exact bitsOK_errS _ _ _
    · split
      · exact bitsOK_errS _ _ _
      · exact .ok (suf_refl _ _ inv)

theorem bitsOK_stepPrefix (st : St) (inv : BufInv st.v st.w) : BitsOK st.v st.w (stepPrefix st) := by
  unfold stepPrefix
  split
  · exact bitsOK_ubS _ _
  · split
    · exact bitsOK_ubS _ _
    · split
      · exact bitsOK_ubS _ _
      · rename_i st1 hd
        have hs := suf_dump st st1 _ hd inv
        split
        · exact bitsOK_trans hs (bitsOK_eobFinish st1 hs.1)
        · rename_i r hr
          exact .other (Lemmas.RetrieveOk.symStep_stop_ne_ok _ _ _ hr)
        · unfold nextSym
          split
          · exact .cont hs
          · exact .top hs

theorem bitsOK_deltaWindow (st : St) (inv : BufInv st.v st.w) : BitsOK st.v st.w (deltaWindow st) := by
  unfold deltaWindow
  simp only
  split
  · exact .other (by simp)
  · split
    · exact .other (by simp)
    · rename_i st2 hd
      by_cases hl : Model.Delta.tL (peek st 6) ≠ 6
      · rw [if_pos hl] at hd
        have h := suf_dump _ st2 _ hd inv
        exact .cont h
      · rw [if_neg hl] at hd
        have h := suf_dump _ st2 _ hd inv
        exact .cont h

theorem bitsOK_groupsInit (st : St) (inv : BufInv st.v st.w) : BitsOK st.v st.w (groupsInit st) := by
  unfold groupsInit
  split
  · exact .other (by simp)
  · exact .top (suf_refl _ _ inv)

theorem bitsOK_tableStart (st : St) (inv : BufInv st.v st.w) : BitsOK st.v st.w (tableStart st) := by
  unfold tableStart
  split
  · split
    · exact .other (by simp)
    · rename_i c st1 ht
      have hs := suf_take st st1 5 c ht inv
      show BitsOK st.v st.w (if (0 : Nat) < st1.alphaSize
        then deltaWindow { st1 with j := 0, clCur := c, clAcc := [] } else ubS)
      by_cases ha : (0 : Nat) < st1.alphaSize
      · rw [if_pos ha]
        exact bitsOK_trans hs (bitsOK_deltaWindow { st1 with j := 0, clCur := c, clAcc := [] } hs.1)
      · rw [if_neg ha]; exact bitsOK_ubS _ _
  · exact bitsOK_groupsInit st inv

theorem bitsOK_stepDeltaTag (st : St) (inv : BufInv st.v st.w) : BitsOK st.v st.w (stepDeltaTag st) := by
  unfold stepDeltaTag
  split
  · exact bitsOK_deltaWindow st inv
  · have fv : (finishTable st).v = st.v := by unfold finishTable; rfl
    have fw : (finishTable st).w = st.w := by unfold finishTable; rfl
    have h := bitsOK_tableStart (finishTable st) (by rw [fv, fw]; exact inv)
    rw [fv, fw] at h
    exact h

theorem bitsOK_selLoop (st : St) (inv : BufInv st.v st.w) : BitsOK st.v st.w (selLoop st) := by
  unfold selLoop
  split
  · simp only
    split
    · exact .other (by simp)
    · split
      · exact .other (by simp)
      · rename_i st1 hd
        exact .cont (suf_dump st st1 _ hd inv)
  · exact bitsOK_tableStart { st with t := 0 } inv

theorem bitsOK_afterBitmap (st : St) (inv : BufInv st.v st.w) : BitsOK st.v st.w (afterBitmap st) := by
  unfold afterBitmap
  split
  · exact .other (by simp)
  · simp only
    split
    · exact .other (by simp)
    · rename_i nt st1 h1
      have hs1 := suf_take _ st1 3 nt h1 inv
      split
      · exact .other (by simp)
      · split
        · exact .other (by simp)
        · rename_i ns st2 h2
          have hs2 := suf_take st1 st2 15 ns h2 hs1.1
          split
          · exact .other (by simp)
          · exact bitsOK_trans (suf_trans hs1 hs2) (bitsOK_selLoop { st2 with numTrees := nt, numSel := ns, j := 0, selector := #[] } hs2.1)

theorem bitsOK_bitmapOuter : ∀ (n : Nat) (st : St), BufInv st.v st.w →
    BitsOK st.v st.w (bitmapOuter n st) := by
  intro n
  induction n with
  | zero => intro st inv; unfold bitmapOuter; exact bitsOK_afterBitmap st inv
  | succ n ih =>
    intro st inv
    unfold bitmapOuter
    split
    · split
      · exact .other (by simp)
      · rename_i s st1 ht
        exact .cont (suf_take st st1 16 s ht inv)
    · exact ih (rowBody st) inv

theorem bitsOK_stepBwtIdx (st : St) (inv : BufInv st.v st.w) : BitsOK st.v st.w (stepBwtIdx st) := by
  unfold stepBwtIdx
  split
  · exact .other (by simp)
  · rename_i r st1 h1
    have hs1 := suf_take st st1 1 r h1 inv
    split
    · exact .other (by simp)
    · rename_i i st2 h2
      exact .cont (suf_trans hs1 (suf_take st1 st2 24 i h2 hs1.1))

theorem bitsOK_step (st : St) (inv : BufInv st.v st.w) : BitsOK st.v st.w (step st) := by
  unfold step
  split
  · exact bitsOK_stepBwtIdx st inv
  · exact bitsOK_stepBwtIdx st inv
  · unfold stepBitmapBig
    split
    · exact .other (by simp)
    · rename_i b st1 ht
      have hs := suf_take st st1 16 b ht inv
      exact bitsOK_trans hs (bitsOK_bitmapOuter 16 { st1 with big := b, small := 0, alphaSize := 0, j := 0, cmap := List.replicate 256 0 } hs.1)
  · unfold stepBitmapSmall
    exact bitsOK_bitmapOuter _ (rowBody st) inv
  · unfold stepSelectorMtf
    exact bitsOK_selLoop { st with j := st.j + 1 } inv
  · exact bitsOK_stepDeltaTag st inv
  · exact bitsOK_stepPrefix st inv

/-! ### configurations: buffer + unread words -/

/-- All unread bits of a configuration: the live bits of the buffer, then the
words of the segment. -/
def bitsOf (st : St) (ws : List Nat) : List Bool := bufBits st.v st.w ++ ws.flatMap wordBits

/-- `(st', ws')` holds a suffix of the unread bits of `(st, ws)`. -/
def SufC (st : St) (ws : List Nat) (st' : St) (ws' : List Nat) : Prop :=
  BufInv st'.v st'.w ∧ ∃ k, bitsOf st' ws' = (bitsOf st ws).drop k

theorem sufC_refl (st : St) (ws : List Nat) (inv : BufInv st.v st.w) : SufC st ws st ws :=
  ⟨inv, 0, by simp⟩

theorem sufC_trans {a : St} {wa : List Nat} {b : St} {wb : List Nat} {c : St} {wc : List Nat}
    (h1 : SufC a wa b wb) (h2 : SufC b wb c wc) : SufC a wa c wc := by
  obtain ⟨_, k1, e1⟩ := h1
  obtain ⟨i2, k2, e2⟩ := h2
  exact ⟨i2, k1 + k2, by rw [e2, e1, List.drop_drop]⟩

theorem bufBits_length (v w : Nat) : (bufBits v w).length = w := by simp [bufBits]

/-- same words, buffer suffix -/
theorem sufC_of_suf (st st' : St) (ws : List Nat) (h : Suf st.v st.w st'.v st'.w) :
    SufC st ws st' ws := by
  obtain ⟨i, k, e⟩ := h
  refine ⟨i, min k st.w, ?_⟩
  unfold bitsOf
  rw [List.drop_append_of_le_length (by rw [bufBits_length]; exact Nat.min_le_right _ _), e]
  congr 1
  by_cases hk : k ≤ st.w
  · rw [Nat.min_eq_left hk]
  · have h1 : st.w ≤ k := by omega
    rw [Nat.min_eq_right h1]
    rw [List.drop_of_length_le (by rw [bufBits_length]; exact h1),
      List.drop_of_length_le (by rw [bufBits_length]; exact Nat.le_refl _)]

theorem sufC_refill (st : St) (x : Nat) (ws : List Nat) (hw : st.w < 32) (inv : BufInv st.v st.w) :
    SufC st (x :: ws) (refill st x) ws := by
  obtain ⟨e, i⟩ := refill_bits st.v st.w x hw inv
  refine ⟨i, 0, ?_⟩
  unfold bitsOf
  show bufBits (refillV st.v st.w x) (st.w + 32) ++ _ = _
  rw [e]
  simp [List.flatMap_cons]

theorem normPc_vw (st : St) : (normPc st).v = st.v ∧ (normPc st).w = st.w := by
  unfold normPc; split <;> exact ⟨rfl, rfl⟩

inductive DrOK (v w : Nat) : Drained → Prop
  | need {s : St} : Suf v w s.v s.w → DrOK v w (.need s)
  | top {s : St} : Suf v w s.v s.w → DrOK v w (.top s)
  | ok {s : St} : Suf v w s.v s.w → DrOK v w (.done .ok s)
  | other {r : Halt} {s : St} : r ≠ .ok → DrOK v w (.done r s)

theorem drOK_trans {v w v1 w1 : Nat} {x : Drained} (h1 : Suf v w v1 w1) (h2 : DrOK v1 w1 x) :
    DrOK v w x := by
  cases h2 with
  | need h => exact .need (suf_trans h1 h)
  | top h => exact .top (suf_trans h1 h)
  | ok h => exact .ok (suf_trans h1 h)
  | other h => exact .other h

theorem drain_bits : ∀ (f : Nat) (st : St), BufInv st.v st.w → DrOK st.v st.w (drain f st) := by
  intro f
  induction f with
  | zero => intro st _; unfold drain; exact .other (by simp)
  | succ f ih =>
    intro st inv
    unfold drain
    by_cases hw : st.w < 32
    · rw [if_pos hw]
      refine .need ?_
      obtain ⟨e1, e2⟩ := normPc_vw st
      rw [e1, e2]
      exact suf_refl _ _ inv
    · rw [if_neg hw]
      have hb := bitsOK_step st inv
      cases hs : step st with
      | cont s1 =>
        rw [hs] at hb
        cases hb with
        | cont h1 =>
          simp only
          by_cases hlt : s1.w < st.w
          · rw [if_pos hlt]; exact drOK_trans h1 (ih s1 h1.1)
          · rw [if_neg hlt]; exact .other (by simp)
      | top s1 =>
        rw [hs] at hb
        cases hb with
        | top h1 => exact .top h1
      | done r s1 =>
        rw [hs] at hb
        cases hb with
        | ok h1 => exact .ok h1
        | other hne => exact .other hne

/-- What `toTop` returns designates a suffix of the unread bits it was given. -/
inductive OutOK (st : St) (ws : List Nat) : Out → Prop
  | susp {s : St} : SufC st ws s [] → OutOK st ws (.susp s)
  | top {s : St} {rest : List Nat} : SufC st ws s rest → OutOK st ws (.top s rest)
  | ok {s : St} {rest : List Nat} : SufC st ws s rest → OutOK st ws (.halt .ok s rest)
  | other {r : Halt} {s : St} {rest : List Nat} : r ≠ .ok → OutOK st ws (.halt r s rest)

theorem outOK_trans {a : St} {wa : List Nat} {b : St} {wb : List Nat} {x : Out}
    (h1 : SufC a wa b wb) (h2 : OutOK b wb x) : OutOK a wa x := by
  cases h2 with
  | susp h => exact .susp (sufC_trans h1 h)
  | top h => exact .top (sufC_trans h1 h)
  | ok h => exact .ok (sufC_trans h1 h)
  | other h => exact .other h

theorem toTop_bits (ws : List Nat) : ∀ (st : St), BufInv st.v st.w → OutOK st ws (toTop st ws) := by
  induction ws with
  | nil =>
    intro st inv
    have hd := drain_bits (st.w + 1) st inv
    unfold toTop
    cases h : drain (st.w + 1) st with
    | need s => rw [h] at hd; cases hd with | need h1 => exact .susp (sufC_of_suf st s [] h1)
    | top s => rw [h] at hd; cases hd with | top h1 => exact .top (sufC_of_suf st s [] h1)
    | done r s =>
      rw [h] at hd
      cases hd with
      | ok h1 => exact .ok (sufC_of_suf st s [] h1)
      | other hne => exact .other hne
  | cons x ws ih =>
    intro st inv
    have hd := drain_bits (st.w + 1) st inv
    rw [toTop]
    cases h : drain (st.w + 1) st with
    | top s => rw [h] at hd; cases hd with | top h1 => exact .top (sufC_of_suf st s (x :: ws) h1)
    | done r s =>
      rw [h] at hd
      cases hd with
      | ok h1 => exact .ok (sufC_of_suf st s (x :: ws) h1)
      | other hne => exact .other hne
    | need s =>
      rw [h] at hd
      cases hd with
      | need h1 =>
        simp only
        obtain ⟨hw, _⟩ := Lemmas.RetrieveSplit.drain_need _ _ _ h
        have c1 : SufC st (x :: ws) s (x :: ws) := sufC_of_suf st s (x :: ws) h1
        have c2 : SufC s (x :: ws) (refill s x) ws := sufC_refill s x ws hw h1.1
        exact outOK_trans (sufC_trans c1 c2) (ih (refill s x) c2.1)

theorem selectTree_vw (st st1 : St) (h : selectTree st = .ok st1) : st1.v = st.v ∧ st1.w = st.w := by
  unfold selectTree at h
  simp only at h
  split at h
  · cases h
  · injection h with h; subst h; exact ⟨rfl, rfl⟩

theorem selectTree_err_ne_ok (st : St) (e : Halt) (h : selectTree st = .error e) : e ≠ .ok := by
  unfold selectTree at h
  simp only at h
  split at h
  · injection h with h; subst h; simp
  · cases h

inductive RunOK (st : St) (ws : List Nat) : RunOut → Prop
  | susp {s : St} : SufC st ws s [] → RunOK st ws (.susp s)
  | ok {s : St} {rest : List Nat} : SufC st ws s rest → RunOK st ws (.halt .ok s rest)
  | other {r : Halt} {s : St} {rest : List Nat} : r ≠ .ok → RunOK st ws (.halt r s rest)

theorem runOK_trans {a : St} {wa : List Nat} {b : St} {wb : List Nat} {x : RunOut}
    (h1 : SufC a wa b wb) (h2 : RunOK b wb x) : RunOK a wa x := by
  cases h2 with
  | susp h => exact .susp (sufC_trans h1 h)
  | ok h => exact .ok (sufC_trans h1 h)
  | other h => exact .other h

theorem groups_bits : ∀ (n : Nat) (st : St) (ws : List Nat), BufInv st.v st.w →
    RunOK st ws (groups false n st ws) := by
  intro n
  induction n with
  | zero => intro st ws _; unfold groups; exact .other (by simp)
  | succ n ih =>
    intro st ws inv
    rw [groups]
    cases hsel : selectTree st with
    | error e => exact .other (selectTree_err_ne_ok st e hsel)
    | ok st1 =>
      obtain ⟨ev, ew⟩ := selectTree_vw st st1 hsel
      simp only [Bool.false_eq_true, false_and, if_false]
      have inv1 : BufInv ({ st1 with pc := Pc.prefix, j := 0 } : St).v ({ st1 with pc := Pc.prefix, j := 0 } : St).w := by
        show BufInv st1.v st1.w
        rw [ev, ew]; exact inv
      have hb := toTop_bits ws { st1 with pc := Pc.prefix, j := 0 } inv1
      have c0 : SufC st ws { st1 with pc := Pc.prefix, j := 0 } ws := by
        refine ⟨inv1, 0, ?_⟩
        unfold bitsOf
        show bufBits st1.v st1.w ++ _ = _
        rw [ev, ew]; simp
      cases ht : toTop { st1 with pc := Pc.prefix, j := 0 } ws with
      | susp s => rw [ht] at hb; cases hb with | susp h => exact .susp (sufC_trans c0 h)
      | halt r s rest =>
        rw [ht] at hb
        cases hb with
        | ok h => exact .ok (sufC_trans c0 h)
        | other hne => exact .other hne
      | top st2 ws2 =>
        rw [ht] at hb
        cases hb with
        | top h => exact runOK_trans (sufC_trans c0 h) (ih st2 ws2 h.1)

/-- **The retriever reads sequentially.**  What one call leaves behind — the
saved buffer and the unread words — is a suffix of the bits it was given. -/
theorem run_bits (st : St) (ws : List Nat) (inv : BufInv st.v st.w) :
    RunOK st ws (run false st ws) := by
  unfold run
  have hb := toTop_bits ws st inv
  cases ht : toTop st ws with
  | susp s => rw [ht] at hb; cases hb with | susp h => exact .susp h
  | halt r s rest =>
    rw [ht] at hb
    cases hb with
    | ok h => exact .ok h
    | other hne => exact .other hne
  | top st1 ws1 =>
    rw [ht] at hb
    cases hb with
    | top h => exact runOK_trans h (groups_bits _ st1 ws1 h.1)

end LbzVerif.Lemmas.RetrieveBits
