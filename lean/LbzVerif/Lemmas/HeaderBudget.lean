/-
  Lemmas.HeaderBudget — the block-header phase of the retriever does not run
  out of words when at least 32 bits follow the header (`header_no_starve`).

  Budgeted copies of the chain `counts_spec` → `bitmap_rows_spec` →
  `bitmap_spec` → `header_spec` (on top of `HeaderBudgetDelta`,
  `HeaderBudgetSel`): the escape "ran out of words" of the first conjunct also
  says that the rest the reference returns has fewer than 32 bits.  The proofs
  are the original ones; only the places that create the escape changed.
-/
import LbzVerif.Lemmas.HeaderBudgetSel

set_option linter.unusedSimpArgs false
set_option linter.unusedVariables false

namespace LbzVerif.Lemmas.HeaderBudget
open LbzVerif LbzVerif.Model.Retrieve
open LbzVerif.Model.MtfDec (bitmapLoop)
open LbzVerif.Lemmas.RetrieveBits LbzVerif.Lemmas.RetrieveValues LbzVerif.Lemmas.RetrieveSplit
open LbzVerif.Lemmas.RetrieveFast LbzVerif.Lemmas.RetrieveDelta LbzVerif.Lemmas.RetrieveTables
open LbzVerif.Lemmas.RetrieveSelectors LbzVerif.Lemmas.RetrieveBitmap LbzVerif.Lemmas.RetrieveHeader

/-! ### length facts for the rest of the reference -/

theorem specRows_len (big0 : Nat) : ∀ (rows : List Nat) (B : List Bool) (u : List UInt8) (B' : List Bool),
    specRows big0 rows B = some (u, B') → B'.length ≤ B.length := by
  intro rows
  induction rows with
  | nil =>
    intro B u B' h
    simp only [specRows, Option.some.injEq, Prod.mk.injEq] at h
    rw [← h.2]; exact Nat.le_refl _
  | cons i rows ih =>
    intro B u B' h
    simp only [specRows] at h
    split at h
    · cases ht : Basic.takeNat 16 B with
      | none => rw [ht] at h; cases h
      | some p =>
        obtain ⟨small, B1⟩ := p
        rw [ht] at h
        simp only at h
        cases hs : specRows big0 rows B1 with
        | none => rw [hs] at h; cases h
        | some q =>
          obtain ⟨u1, B2⟩ := q
          rw [hs] at h
          simp only [Option.some.injEq, Prod.mk.injEq] at h
          have h1 := Basic.takeNat_length ht
          have h2 := ih _ _ _ hs
          rw [← h.2]; omega
    · exact ih _ _ _ h

theorem specCounts_len (used : List UInt8) (B : List Bool) (h : Hdr)
    (hh : specCounts used B = some h) : h.rest.length ≤ B.length := by
  unfold specCounts at hh
  split at hh
  · cases hh
  · cases h3 : Basic.takeNat 3 B with
    | none => rw [h3] at hh; cases hh
    | some p =>
      obtain ⟨ng, B1⟩ := p
      rw [h3] at hh
      simp only at hh
      split at hh
      · cases hh
      · cases h15 : Basic.takeNat 15 B1 with
        | none => rw [h15] at hh; cases hh
        | some q =>
          obtain ⟨ns, B2⟩ := q
          rw [h15] at hh
          simp only at hh
          split at hh
          · cases hh
          · cases hs : specSelTables ng (used.length + 2) ns B2 with
            | none => rw [hs] at hh; cases hh
            | some r =>
              obtain ⟨is, tabs, B3⟩ := r
              rw [hs] at hh
              simp only [Option.some.injEq] at hh
              have l1 := Basic.takeNat_length h3
              have l2 := Basic.takeNat_length h15
              have l3 := specSelTables_len _ _ _ _ _ _ _ hs
              rw [← hh]
              show B3.length ≤ B.length
              omega

theorem specFromRows_len (big0 : Nat) (used : List UInt8) (rows : List Nat) (B : List Bool) (h : Hdr)
    (hh : specFromRows big0 used rows B = some h) : h.rest.length ≤ B.length := by
  unfold specFromRows at hh
  cases hs : specRows big0 rows B with
  | none => rw [hs] at hh; cases hh
  | some q =>
    obtain ⟨u, B'⟩ := q
    rw [hs] at hh
    have h1 := specRows_len _ _ _ _ _ hs
    have h2 := specCounts_len _ _ _ hh
    omega

theorem specFromBig_len (B : List Bool) (h : Hdr) (hh : specFromBig B = some h) :
    h.rest.length ≤ B.length := by
  unfold specFromBig at hh
  cases ht : Basic.takeNat 16 B with
  | none => rw [ht] at hh; cases hh
  | some p =>
    obtain ⟨big0, B1⟩ := p
    rw [ht] at hh
    have h1 := Basic.takeNat_length ht
    have h2 := specFromRows_len _ _ _ _ _ hh
    omega

theorem specHeader_len (B : List Bool) (r idx : Nat) (h : Hdr)
    (hh : specHeader B = some (r, idx, h)) : h.rest.length ≤ B.length := by
  unfold specHeader at hh
  cases h1 : Basic.takeNat 1 B with
  | none => rw [h1] at hh; cases hh
  | some p =>
    obtain ⟨r0, B1⟩ := p
    rw [h1] at hh
    simp only at hh
    cases h24 : Basic.takeNat 24 B1 with
    | none => rw [h24] at hh; cases hh
    | some q =>
      obtain ⟨i0, B2⟩ := q
      rw [h24] at hh
      simp only at hh
      cases hb : specFromBig B2 with
      | none => rw [hb] at hh; cases hh
      | some h' =>
        rw [hb] at hh
        simp only [Option.some.injEq, Prod.mk.injEq] at hh
        have l1 := Basic.takeNat_length h1
        have l2 := Basic.takeNat_length h24
        have l3 := specFromBig_len _ _ hb
        rw [← hh.2.2]; omega

/-! ### the chain -/

/-- `afterBitmap` inside a step: the counts, the first selector, then
`selectors_spec`. -/
theorem counts_spec_b (st : St) (ws : List Nat) (W : Nat) (used : List UInt8)
    (ha : st.alphaSize = used.length) (hcl : st.cmap.length = 256)
    (hct : st.cmap.take used.length = used)
    (inv : BufInv st.v st.w) (hw : used ≠ [] → 32 ≤ st.w) (hW : st.w ≤ W) :
    (∀ h, specCounts used (bitsOf st ws) = some h →
      (∃ s rest, afterStep W ws (afterBitmap st) = .top s rest ∧ HdrOk st s h ∧
        bitsOf s rest = h.rest ∧ BufInv s.v s.w) ∨ (Suspended (afterStep W ws (afterBitmap st)) ∧ h.rest.length < 32)) ∧
    (specCounts used (bitsOf st ws) = none →
      Rejected (afterStep W ws (afterBitmap st)) ∨ Suspended (afterStep W ws (afterBitmap st))) := by
  unfold specCounts
  by_cases hu : used = []
  · -- empty bitmap
    rw [if_pos hu]
    have h0 : st.alphaSize = 0 := by rw [ha, hu]; rfl
    have hr : afterStep W ws (afterBitmap st) = .halt (.err Gen.ERR_BITMAP) St.blank ws := by
      unfold afterBitmap; rw [if_pos h0]; rfl
    exact ⟨fun _ h => (by cases h), fun _ => Or.inl ⟨_, _, _, hr, (by simp)⟩⟩
  · rw [if_neg hu]
    have hw32 := hw hu
    have hne : ¬ st.alphaSize = 0 := by
      rw [ha]; intro h0; exact hu (List.eq_nil_of_length_eq_zero h0)
    -- TAKE(num_trees, 3)
    have ht3 := take_ok { st with alphaSize := st.alphaSize + 2 } 3 (by omega) (by show 3 ≤ st.w; omega)
    obtain ⟨hv3, inv3⟩ := take_value _ _ 3 _ ws ht3 (by exact inv)
    have hb0 : bitsOf ({ st with alphaSize := st.alphaSize + 2 } : St) ws = bitsOf st ws := rfl
    rw [hb0] at hv3
    rw [hv3]
    simp only
    generalize hnt : peek ({ st with alphaSize := st.alphaSize + 2 } : St) 3 = nt at ht3 hv3 ⊢
    by_cases hrange : nt < 2 ∨ 6 < nt
    · rw [if_pos hrange]
      have hr : afterStep W ws (afterBitmap st) = .halt (.err Gen.ERR_TREES) St.blank ws := by
        unfold afterBitmap
        rw [if_neg hne]
        simp only
        rw [ht3]
        simp only
        rw [if_pos (by simpa [Gen.MIN_TREES, Gen.MAX_TREES] using hrange)]
        rfl
      exact ⟨fun _ h => (by cases h), fun _ => Or.inl ⟨_, _, _, hr, (by simp)⟩⟩
    · rw [if_neg hrange]
      -- TAKE(num_selectors, 15)
      have ht15 := take_ok ({ ({ st with alphaSize := st.alphaSize + 2 } : St) with v := dumpV st.v 3, w := st.w - 3 } : St)
        15 (by omega) (by show 15 ≤ st.w - 3; omega)
      obtain ⟨hv15, inv15⟩ := take_value _ _ 15 _ ws ht15 (by exact inv3)
      rw [hv15]
      simp only
      generalize hns : peek ({ ({ st with alphaSize := st.alphaSize + 2 } : St) with v := dumpV st.v 3, w := st.w - 3 } : St) 15 = ns at ht15 hv15 ⊢
      by_cases hns0 : ns = 0
      · rw [if_pos hns0]
        have hr : afterStep W ws (afterBitmap st) = .halt (.err Gen.ERR_GROUPS) St.blank ws := by
          unfold afterBitmap
          rw [if_neg hne]
          simp only
          rw [ht3]
          simp only
          rw [if_neg (by simpa [Gen.MIN_TREES, Gen.MAX_TREES] using hrange), ht15]
          simp only
          rw [if_pos hns0]
          rfl
        exact ⟨fun _ h => (by cases h), fun _ => Or.inl ⟨_, _, _, hr, (by simp)⟩⟩
      · rw [if_neg hns0]
        -- the state in which the first selector is read
        have hab : afterBitmap st = selLoop
            { st with alphaSize := st.alphaSize + 2, v := dumpV (dumpV st.v 3) 15, w := st.w - 3 - 15,
                      numTrees := nt, numSel := ns, j := 0, selector := #[] } := by
          unfold afterBitmap
          rw [if_neg hne]
          simp only
          rw [ht3]
          simp only
          rw [if_neg (by simpa [Gen.MIN_TREES, Gen.MAX_TREES] using hrange), ht15]
          simp only
          rw [if_neg hns0]
        rw [hab]
        have hsv := selector_value
          { st with alphaSize := st.alphaSize + 2, v := dumpV (dumpV st.v 3) 15, w := st.w - 3 - 15,
                    numTrees := nt, numSel := ns, j := 0, selector := #[] } ws
          (by show 6 ≤ st.w - 3 - 15; omega) (by exact inv15) (by show 0 < ns; omega)
          (by show 1 ≤ nt; omega) (by show nt ≤ 6; omega)
        obtain ⟨k, hk⟩ : ∃ k, ns = k + 1 := ⟨ns - 1, by omega⟩
        have hsst : specSelTables nt (used.length + 2) ns = specSelTables nt (used.length + 2) (k + 1) := by rw [hk]
        rw [hsst]
        simp only [specSelTables]
        have hbsel :
            bitsOf ({ st with alphaSize := st.alphaSize + 2, v := dumpV (dumpV st.v 3) 15, w := st.w - 3 - 15, numTrees := nt, numSel := ns, j := 0, selector := #[] } : St) ws =
            bitsOf ({ ({ ({ st with alphaSize := st.alphaSize + 2 } : St) with v := dumpV st.v 3, w := st.w - 3 } : St) with v := dumpV (dumpV st.v 3) 15, w := st.w - 3 - 15 } : St) ws := rfl
        rw [hbsel] at hsv
        have hnt' : ({ st with alphaSize := st.alphaSize + 2, v := dumpV (dumpV st.v 3) 15, w := st.w - 3 - 15, numTrees := nt, numSel := ns, j := 0, selector := #[] } : St).numTrees = nt := rfl
        rw [hnt'] at hsv
        generalize hO : afterStep W ws (selLoop { st with alphaSize := st.alphaSize + 2, v := dumpV (dumpV st.v 3) 15, w := st.w - 3 - 15, numTrees := nt, numSel := ns, j := 0, selector := #[] }) = O
        cases hru : Spec.Bzip2.readUnary nt 0 (bitsOf ({ ({ ({ st with alphaSize := st.alphaSize + 2 } : St) with v := dumpV st.v 3, w := st.w - 3 } : St) with v := dumpV (dumpV st.v 3) 15, w := st.w - 3 - 15 } : St) ws) with
        | error e =>
          rw [hru] at hsv
          obtain ⟨_, herr⟩ := hsv
          simp only
          have hr : O = .halt (.err Gen.ERR_SELECTOR) St.blank ws := by rw [← hO, herr]; rfl
          exact ⟨fun _ h => (by cases h), fun _ => Or.inl ⟨_, _, _, hr, (by simp)⟩⟩
        | ok p =>
          obtain ⟨i0, B3⟩ := p
          rw [hru] at hsv
          obtain ⟨st', hsl, inv', hb', hsel', hj', hns', hntt', hpc', hlt', heq'⟩ := hsv
          simp only
          have e3 : O = toTop st' ws := by
            rw [← hO, hsl]; simp only [afterStep]
            rw [if_pos (by have : st'.w < st.w - 3 - 15 := hlt'; omega)]
          have f_al : st'.alphaSize = used.length + 2 := by rw [heq']; show st.alphaSize + 2 = _; rw [ha]
          have f_mtf : st'.mtf = st.mtf := by rw [heq']
          have f_trees : st'.trees = st.trees := by rw [heq']
          have f_cmap : st'.cmap = st.cmap := by rw [heq']
          have f_run : st'.run = st.run := by rw [heq']
          have f_rand : st'.rand = st.rand := by rw [heq']
          have f_bi : st'.bwtIdx = st.bwtIdx := by rw [heq']
          have f_ns : st'.numSel = ns := hns'
          have f_nt : st'.numTrees = nt := hntt'
          have f_j : st'.j = 0 := hj'
          have f_sel : st'.selector = (#[] : Array Nat).push i0 := hsel'
          have hss := selectors_spec_b k st' ws hpc' (by rw [f_j, f_ns]; omega) inv'
            (by rw [f_nt]; omega) (by rw [f_nt]; omega) (by rw [f_al]; omega)
          rw [f_nt, f_al, hb'] at hss
          obtain ⟨i1, i2⟩ := hss
          rw [e3]
          constructor
          · intro h hh
            cases hsp : specSelTables nt (used.length + 2) k B3 with
            | none => rw [hsp] at hh; cases hh
            | some q =>
              obtain ⟨is', tabs', B4⟩ := q
              rw [hsp] at hh
              simp only [Option.some.injEq] at hh
              subst hh
              cases i1 is' tabs' B4 hsp with
              | inr hsu => exact Or.inr hsu
              | inl hok2 =>
                obtain ⟨s, rest, e4, htk, hb4, inv4⟩ := hok2
                refine Or.inl ⟨s, rest, e4, ?_, hb4, inv4⟩
                have hcm : s.cmap = st.cmap := by rw [htk.cmap, f_cmap]
                refine ⟨htk.pc, htk.j, htk.g, ?_, ?_, ?_, ?_, ?_, ?_, ?_, ?_, ?_, ?_⟩
                · rw [htk.numSel, f_ns]
                · rw [htk.numTrees, f_nt]
                · rw [htk.alphaSize, f_al]
                · rw [hcm]; exact hcl
                · rw [hcm]; exact hct
                · rw [htk.sel, f_sel]; rfl
                · rw [htk.tt, f_mtf, f_trees]
                · obtain ⟨rs, h1, h2⟩ := htk.run
                  rw [f_cmap, ← hcm] at h1
                  rw [f_run] at h2
                  exact ⟨rs, h1, h2⟩
                · rw [htk.rand, f_rand]
                · rw [htk.bwtIdx, f_bi]
          · intro hh
            cases hsp : specSelTables nt (used.length + 2) k B3 with
            | some q => rw [hsp] at hh; cases hh
            | none => exact i2 hsp

/-- **The bitmap rows, then the rest of the header.**  `bitmapOuter n` inside a
step (rows `i = 16 - n … 15` to go, `used` found so far), with the suspensions
at `NEED(S_BITMAP_SMALL)`: the machine reaches the top of the group loop iff
the reference reads the remaining rows, the counts, the selectors and the
tables from the unread bits, with the same results. -/
theorem bitmap_rows_spec_b : ∀ (n : Nat) (st : St) (ws : List Nat) (W big0 i : Nat) (used : List UInt8),
    i + n = 16 → BmInv big0 used i st → st.small = 0 → BufInv st.v st.w → 16 ≤ st.w →
    (used ≠ [] → 32 ≤ st.w) → st.w ≤ W →
    (∀ h, specFromRows big0 used (List.range' i n) (bitsOf st ws) = some h →
      (∃ s rest, afterStep W ws (bitmapOuter n st) = .top s rest ∧ HdrOk st s h ∧
        bitsOf s rest = h.rest ∧ BufInv s.v s.w) ∨ (Suspended (afterStep W ws (bitmapOuter n st)) ∧ h.rest.length < 32)) ∧
    (specFromRows big0 used (List.range' i n) (bitsOf st ws) = none →
      Rejected (afterStep W ws (bitmapOuter n st)) ∨ Suspended (afterStep W ws (bitmapOuter n st))) := by
  intro n
  induction n with
  | zero =>
    intro st ws W big0 i used hin hbm hsm inv hw16 hw32 hW
    have hcs := counts_spec_b st ws W used hbm.alpha hbm.cmapLen hbm.cmapTake inv hw32 hW
    unfold specFromRows
    simp only [List.range'_zero, specRows, List.append_nil]
    unfold bitmapOuter
    exact hcs
  | succ n ih =>
    intro st ws W big0 i used hin hbm hsm inv hw16 hw32 hW
    have hi : i < 16 := by omega
    unfold specFromRows
    rw [List.range'_succ]
    simp only [specRows]
    unfold bitmapOuter
    have htest := big_test big0 i hi
    rw [← hbm.big] at htest
    by_cases hbit : big0.testBit (15 - i) = true
    · -- a row word follows
      have hcond : st.big &&& 0x8000 ≠ 0 := htest.mpr hbit
      rw [if_pos hcond, if_pos hbit]
      have ht16 := take_ok st 16 (by omega) hw16
      obtain ⟨hv16, inv16⟩ := take_value _ _ 16 _ ws ht16 inv
      rw [ht16, hv16]
      simp only
      generalize hs16 : peek st 16 = s16 at ht16 hv16 ⊢
      have hs16lt : s16 < 65536 := by
        rw [← hs16]; exact peek_lt st.v st.w 16 inv (by omega)
      -- the state suspended at NEED(S_BITMAP_SMALL)
      have e1 : afterStep W ws (.cont { st with v := dumpV st.v 16, w := st.w - 16, small := s16, pc := .bitmapSmall }) =
          toTop { st with v := dumpV st.v 16, w := st.w - 16, small := s16, pc := .bitmapSmall } ws := by
        simp only [afterStep]
        rw [if_pos (by show st.w - 16 < W; omega)]
      rw [e1]
      have hnorm : normPc ({ st with v := dumpV st.v 16, w := st.w - 16, small := s16, pc := .bitmapSmall } : St) =
          { st with v := dumpV st.v 16, w := st.w - 16, small := s16, pc := .bitmapSmall } := by
        unfold normPc; rw [if_neg (by simp)]
      cases need_ready_b _ ws hnorm (by exact inv16) with
      | inl hsu =>
        refine ⟨fun h hh => Or.inr ⟨hsu.1, ?_⟩, fun _ => Or.inr hsu.1⟩
        have hl : (bitsOf ({ st with v := dumpV st.v 16, w := st.w - 16 } : St) ws).length < 32 := hsu.2
        cases hsr : specRows big0 (List.range' (i + 1) n) (bitsOf ({ st with v := dumpV st.v 16, w := st.w - 16 } : St) ws) with
        | none => rw [hsr] at hh; cases hh
        | some q =>
          obtain ⟨u, B'⟩ := q
          rw [hsr] at hh
          simp only at hh
          have h1 := specRows_len _ _ _ _ _ hsr
          have h2 := specCounts_len _ _ _ hh
          omega
      | inr hr =>
        obtain ⟨v1, w1, ws1, e2, hw1, hb1, inv1, _⟩ := hr
        have e2' : toTop ({ st with v := dumpV st.v 16, w := st.w - 16, small := s16, pc := .bitmapSmall } : St) ws =
            toTop ({ st with v := v1, w := w1, small := s16, pc := .bitmapSmall } : St) ws1 := e2
        rw [e2']
        have hb1' : bitsOf ({ st with v := v1, w := w1, small := s16, pc := .bitmapSmall } : St) ws1 =
            bitsOf ({ st with v := dumpV st.v 16, w := st.w - 16 } : St) ws := hb1
        have hbm1 : BmInv big0 used i ({ st with v := v1, w := w1, small := s16, pc := .bitmapSmall } : St) :=
          ⟨hbm.j, hbm.big, hbm.alpha, hbm.cmapLen, hbm.cmapTake, hbm.le⟩
        obtain ⟨hbm2, hsm2⟩ := rowBody_inv big0 used i _ hbm1 hi
        have hstep : step ({ st with v := v1, w := w1, small := s16, pc := .bitmapSmall } : St) =
            bitmapOuter n (rowBody { st with v := v1, w := w1, small := s16, pc := .bitmapSmall }) := by
          unfold step
          simp only
          unfold stepBitmapSmall
          simp only
          have : (256 - (rowBody ({ st with v := v1, w := w1, small := s16, pc := .bitmapSmall } : St)).j) / 16 = n := by
            rw [hbm2.j]; omega
          rw [this]
        have e3 : toTop ({ st with v := v1, w := w1, small := s16, pc := .bitmapSmall } : St) ws1 =
            afterStep w1 ws1 (bitmapOuter n (rowBody { st with v := v1, w := w1, small := s16, pc := .bitmapSmall })) := by
          rw [toTop_step' _ _ (by exact hw1), hstep]
        rw [e3]
        have hIH := ih (rowBody { st with v := v1, w := w1, small := s16, pc := .bitmapSmall }) ws1 w1 big0 (i + 1)
          (used ++ Spec.Bzip2.usedOfRow i s16) (by omega) hbm2 hsm2 (by exact inv1) (by show 16 ≤ w1; omega)
          (fun _ => by show 32 ≤ w1; exact hw1) (by show w1 ≤ w1; omega)
        have hbr : bitsOf (rowBody ({ st with v := v1, w := w1, small := s16, pc := .bitmapSmall } : St)) ws1 =
            bitsOf ({ st with v := dumpV st.v 16, w := st.w - 16 } : St) ws := hb1'
        rw [hbr] at hIH
        obtain ⟨i1, i2⟩ := hIH
        unfold specFromRows at i1 i2
        constructor
        · intro h hh
          cases hsr : specRows big0 (List.range' (i + 1) n) (bitsOf ({ st with v := dumpV st.v 16, w := st.w - 16 } : St) ws) with
          | none => rw [hsr] at hh; cases hh
          | some q =>
            obtain ⟨u, B'⟩ := q
            rw [hsr] at hh i1
            simp only at hh i1
            rw [← List.append_assoc] at hh
            cases i1 h hh with
            | inr hsu => exact Or.inr hsu
            | inl hok =>
              obtain ⟨s, rest, e4, hk, hb4, inv4⟩ := hok
              exact Or.inl ⟨s, rest, e4, hdrOk_congr _ st s h hk rfl rfl rfl rfl rfl, hb4, inv4⟩
        · intro hh
          cases hsr : specRows big0 (List.range' (i + 1) n) (bitsOf ({ st with v := dumpV st.v 16, w := st.w - 16 } : St) ws) with
          | none => rw [hsr] at i2; exact i2 rfl
          | some q =>
            obtain ⟨u, B'⟩ := q
            rw [hsr] at hh i2
            simp only at hh i2
            rw [← List.append_assoc] at hh
            exact i2 hh
    · -- no row word: the inner loop runs on `small = 0`
      have hcond : ¬ (st.big &&& 0x8000 ≠ 0) := fun hc => hbit (htest.mp hc)
      rw [if_neg hcond, if_neg hbit]
      obtain ⟨hbm2, hsm2⟩ := rowBody_inv big0 used i st hbm hi
      rw [hsm, usedOfRow_zero, List.append_nil] at hbm2
      have hIH := ih (rowBody st) ws W big0 (i + 1) used (by omega) hbm2 hsm2 (by exact inv)
        (by exact hw16) (by exact hw32) (by exact hW)
      have hbr : bitsOf (rowBody st) ws = bitsOf st ws := rfl
      rw [hbr] at hIH
      obtain ⟨i1, i2⟩ := hIH
      unfold specFromRows at i1 i2
      refine ⟨fun h hh => ?_, i2⟩
      cases i1 h hh with
      | inr hsu => exact Or.inr hsu
      | inl hok =>
        obtain ⟨s, rest, e4, hk, hb4, inv4⟩ := hok
        exact Or.inl ⟨s, rest, e4, hdrOk_congr _ st s h hk rfl rfl rfl rfl rfl, hb4, inv4⟩

/-- From `NEED(S_BITMAP_BIG)`. -/
theorem bitmap_spec_b (c : St) (ws : List Nat) (hpc : c.pc = .bitmapBig) (inv : BufInv c.v c.w) :
    (∀ h, specFromBig (bitsOf c ws) = some h →
      (∃ s rest, toTop c ws = .top s rest ∧ HdrOk c s h ∧ bitsOf s rest = h.rest ∧
        BufInv s.v s.w) ∨ (Suspended (toTop c ws) ∧ h.rest.length < 32)) ∧
    (specFromBig (bitsOf c ws) = none → Rejected (toTop c ws) ∨ Suspended (toTop c ws)) := by
  have hnorm : normPc c = c := by unfold normPc; rw [if_neg (by rw [hpc]; simp)]
  cases need_ready_b' c ws hnorm inv with
  | inl hsu => exact ⟨fun h hh => Or.inr ⟨hsu.1, by have := specFromBig_len _ _ hh; omega⟩, fun _ => Or.inr hsu.1⟩
  | inr hr =>
    obtain ⟨c1, ws1, e1, hw1, hb1, inv1, heq⟩ := hr
    have q_pc : c1.pc = .bitmapBig := by rw [heq]; exact hpc
    have q_mtf : c1.mtf = c.mtf := by rw [heq]
    have q_trees : c1.trees = c.trees := by rw [heq]
    have q_run : c1.run = c.run := by rw [heq]
    have q_rand : c1.rand = c.rand := by rw [heq]
    have q_bi : c1.bwtIdx = c.bwtIdx := by rw [heq]
    have ht16 := take_ok c1 16 (by omega) (by omega)
    obtain ⟨hv16, inv16⟩ := take_value _ _ 16 _ ws1 ht16 inv1
    rw [hb1] at hv16
    generalize hbg : peek c1 16 = big0 at ht16 hv16
    have hbglt : big0 < 65536 := by
      rw [← hbg]; exact peek_lt c1.v c1.w 16 inv1 (by omega)
    have hstep : step c1 =
        bitmapOuter 16 { c1 with v := dumpV c1.v 16, w := c1.w - 16, big := big0, small := 0, alphaSize := 0, j := 0, cmap := List.replicate 256 0 } := by
      have hs : step c1 = stepBitmapBig c1 := by unfold step; rw [q_pc]
      rw [hs]
      unfold stepBitmapBig
      rw [ht16]
    have e2 : toTop c ws = afterStep c1.w ws1 (bitmapOuter 16
        { c1 with v := dumpV c1.v 16, w := c1.w - 16, big := big0, small := 0, alphaSize := 0, j := 0, cmap := List.replicate 256 0 }) := by
      rw [e1, toTop_step' _ _ hw1, hstep]
    have hbm : BmInv big0 [] 0 ({ c1 with v := dumpV c1.v 16, w := c1.w - 16, big := big0, small := 0, alphaSize := 0, j := 0, cmap := List.replicate 256 0 } : St) :=
      ⟨rfl, by show big0 = (big0 <<< 0) % 65536; rw [Nat.shiftLeft_zero]; omega, rfl, List.length_replicate .., rfl, Nat.le_refl _⟩
    have hrows := bitmap_rows_spec_b 16 _ ws1 c1.w big0 0 [] (by omega) hbm rfl (by exact inv16)
      (by show 16 ≤ c1.w - 16; omega) (fun h => absurd rfl h) (by show c1.w - 16 ≤ c1.w; omega)
    have hbb : bitsOf ({ c1 with v := dumpV c1.v 16, w := c1.w - 16, big := big0, small := 0, alphaSize := 0, j := 0, cmap := List.replicate 256 0 } : St) ws1 =
        bitsOf ({ c1 with v := dumpV c1.v 16, w := c1.w - 16 } : St) ws1 := rfl
    rw [hbb] at hrows
    unfold specFromBig
    rw [hv16, e2]
    simp only
    obtain ⟨r1, r2⟩ := hrows
    refine ⟨fun h hh => ?_, r2⟩
    cases r1 h hh with
    | inr hsu => exact Or.inr hsu
    | inl hok =>
      obtain ⟨s, rest, e4, hk, hb4, inv4⟩ := hok
      exact Or.inl ⟨s, rest, e4, hdrOk_congr _ c s h hk q_mtf.symm q_trees.symm q_run.symm q_rand.symm q_bi.symm, hb4, inv4⟩

/-- **The whole header.**  From `NEED(S_BWT_IDX)` — the entry of a fresh call;
a resumption later in the header is covered by the lemmas this is built from —
with a legal buffer and any words: the machine arrives at the top of the group
loop iff the reference reads rand, origPtr, the bitmap (non-empty), `nGroups`
∈ 2…6, `nSelectors` ≠ 0, the selector codes (each below `nGroups`) and
`nGroups` delta-coded tables (every value in 1…20) from the unread bits; then
`rand`, `bwt_idx`, the bytes in use, the counts, the selector indices are the
reference's, `make_tree` has been applied to the reference's length lists, and
the unread bits are the reference's.  If the reference rejects, the machine
never gets past the header: error status or out of words. -/
theorem header_spec_b (c : St) (ws : List Nat) (hpc : c.pc = .bwtIdx) (inv : BufInv c.v c.w) :
    (∀ r idx h, specHeader (bitsOf c ws) = some (r, idx, h) →
      (∃ s rest, toTop c ws = .top s rest ∧ HdrOk { c with rand := r, bwtIdx := idx } s h ∧
        bitsOf s rest = h.rest ∧ BufInv s.v s.w) ∨ (Suspended (toTop c ws) ∧ h.rest.length < 32)) ∧
    (specHeader (bitsOf c ws) = none → Rejected (toTop c ws) ∨ Suspended (toTop c ws)) := by
  have hnorm : normPc c = c := by unfold normPc; rw [if_neg (by rw [hpc]; simp)]
  cases need_ready_b' c ws hnorm inv with
  | inl hsu => exact ⟨fun _ _ _ hh => Or.inr ⟨hsu.1, by have := specHeader_len _ _ _ _ hh; omega⟩, fun _ => Or.inr hsu.1⟩
  | inr hr =>
    obtain ⟨c1, ws1, e1, hw1, hb1, inv1, heq⟩ := hr
    have q_pc : c1.pc = .bwtIdx := by rw [heq]; exact hpc
    have q_mtf : c1.mtf = c.mtf := by rw [heq]
    have q_trees : c1.trees = c.trees := by rw [heq]
    have q_run : c1.run = c.run := by rw [heq]
    have ht1 := take_ok c1 1 (by omega) (by omega)
    obtain ⟨hv1, inv1'⟩ := take_value _ _ 1 _ ws1 ht1 inv1
    rw [hb1] at hv1
    have ht24 := take_ok ({ c1 with v := dumpV c1.v 1, w := c1.w - 1 } : St) 24
      (by omega) (by show 24 ≤ c1.w - 1; omega)
    obtain ⟨hv24, inv24⟩ := take_value _ _ 24 _ ws1 ht24 (by exact inv1')
    generalize hr0 : peek c1 1 = r0 at ht1 hv1
    generalize hi0 : peek ({ c1 with v := dumpV c1.v 1, w := c1.w - 1 } : St) 24 = i0 at ht24 hv24
    have hstep : step c1 =
        .cont { c1 with v := dumpV (dumpV c1.v 1) 24, w := c1.w - 1 - 24, rand := r0, bwtIdx := i0, pc := .bitmapBig } := by
      have hs : step c1 = stepBwtIdx c1 := by unfold step; rw [q_pc]
      rw [hs]
      unfold stepBwtIdx
      rw [ht1]
      simp only
      rw [ht24]
    have e2 : toTop c ws = toTop
        { c1 with v := dumpV (dumpV c1.v 1) 24, w := c1.w - 1 - 24, rand := r0, bwtIdx := i0, pc := .bitmapBig } ws1 := by
      rw [e1, toTop_step' _ _ hw1, hstep]
      simp only [afterStep]
      rw [if_pos (by show c1.w - 1 - 24 < c1.w; omega)]
    have hbs := bitmap_spec_b
      { c1 with v := dumpV (dumpV c1.v 1) 24, w := c1.w - 1 - 24, rand := r0, bwtIdx := i0, pc := .bitmapBig } ws1 rfl
      (by exact inv24)
    have hbb : bitsOf ({ c1 with v := dumpV (dumpV c1.v 1) 24, w := c1.w - 1 - 24, rand := r0, bwtIdx := i0, pc := .bitmapBig } : St) ws1 =
        bitsOf ({ ({ c1 with v := dumpV c1.v 1, w := c1.w - 1 } : St) with v := dumpV (dumpV c1.v 1) 24, w := c1.w - 1 - 24 } : St) ws1 := rfl
    rw [hbb] at hbs
    unfold specHeader
    rw [hv1]
    simp only
    rw [hv24, e2]
    simp only
    obtain ⟨b1, b2⟩ := hbs
    constructor
    · intro r idx h hh
      cases hsb : specFromBig (bitsOf ({ ({ c1 with v := dumpV c1.v 1, w := c1.w - 1 } : St) with v := dumpV (dumpV c1.v 1) 24, w := c1.w - 1 - 24 } : St) ws1) with
      | none => rw [hsb] at hh; cases hh
      | some h' =>
        rw [hsb] at hh
        simp only [Option.some.injEq, Prod.mk.injEq] at hh
        obtain ⟨h1, h2, h3⟩ := hh
        subst h1; subst h2; subst h3
        cases b1 h' hsb with
        | inr hsu => exact Or.inr hsu
        | inl hok =>
          obtain ⟨s, rest, e4, hk, hb4, inv4⟩ := hok
          exact Or.inl ⟨s, rest, e4, hdrOk_congr _ { c with rand := r0, bwtIdx := i0 } s h' hk
            q_mtf.symm q_trees.symm q_run.symm rfl rfl, hb4, inv4⟩
    · intro hh
      cases hsb : specFromBig (bitsOf ({ ({ c1 with v := dumpV c1.v 1, w := c1.w - 1 } : St) with v := dumpV (dumpV c1.v 1) 24, w := c1.w - 1 - 24 } : St) ws1) with
      | some h' => rw [hsb] at hh; cases hh
      | none => exact b2 hsb

/-- **The header phase does not starve.**  From `NEED(S_BWT_IDX)` with a legal
buffer: if the reference reads a whole block header from the unread bits and at
least 32 bits follow it, the machine does not run out of words before the top
of the group loop. -/
theorem header_no_starve (c : St) (ws : List Nat) (hpc : c.pc = .bwtIdx) (inv : BufInv c.v c.w)
    (r idx : Nat) (h : Hdr) (hsp : specHeader (bitsOf c ws) = some (r, idx, h))
    (h32 : 32 ≤ h.rest.length) : ¬ Suspended (toTop c ws) := by
  cases (header_spec_b c ws hpc inv).1 r idx h hsp with
  | inl hok =>
    obtain ⟨s, rest, e, _⟩ := hok
    intro hsu
    obtain ⟨s', e'⟩ := hsu
    rw [e] at e'
    cases e'
  | inr hsu => omega

/-- With at least 32 bits after the header the machine reaches the top of the
group loop in the state `header_spec` describes. -/
theorem header_reaches_top (c : St) (ws : List Nat) (hpc : c.pc = .bwtIdx) (inv : BufInv c.v c.w)
    (r idx : Nat) (h : Hdr) (hsp : specHeader (bitsOf c ws) = some (r, idx, h))
    (h32 : 32 ≤ h.rest.length) :
    ∃ s rest, toTop c ws = .top s rest ∧ HdrOk { c with rand := r, bwtIdx := idx } s h ∧
      bitsOf s rest = h.rest ∧ BufInv s.v s.w := by
  cases (header_spec_b c ws hpc inv).1 r idx h hsp with
  | inl hok => exact hok
  | inr hsu => omega

end LbzVerif.Lemmas.HeaderBudget
