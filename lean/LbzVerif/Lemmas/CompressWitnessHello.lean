/-
  Lemmas.CompressWitnessHello — witness: the contract `ChoicesOK` holds for
  `simpleChoice` on the single block of "hello" at level 9 (by
  `Lemmas.CompressSimple.simpleChoice_ok_rle`, no evaluation), and the model
  writes these 39 bytes for it (kernel-evaluated, about 5 s; libbz2 decodes
  them to "hello": checks/w23_roundtrip.py compares the driver's output, which
  is the same function compiled, with Python's bz2 on every run).
-/
import LbzVerif.Model.Compress
import LbzVerif.Lemmas.CompressSimple
import LbzVerif.Lemmas.CompressCut

namespace LbzVerif.Lemmas.CompressWitnessHello
open LbzVerif LbzVerif.Model.Compress

def hello : List UInt8 := [104, 101, 108, 108, 111]

theorem helloChoices : ∀ b ∈ cutBlocks (9 * 100000) (Gen.memCompress 1 9).2.2.1 false hello,
    ChoicesOK (Spec.rle1 b) (simpleChoice (Spec.rle1 b)) :=
  fun b hb => Lemmas.CompressSimple.simpleChoice_ok_rle b
    (Lemmas.CompressCut.cutBlocks_mem _ _ false hello b hb).1

theorem helloBytes : compressFile 9 false hello simpleChoice =
    [0x42, 0x5a, 0x68, 0x39, 0x31, 0x41, 0x59, 0x26, 0x53, 0x59, 0x19, 0x31, 0x65, 0x3d, 0x00,
     0x00, 0x00, 0x81, 0x00, 0x02, 0x44, 0xa0, 0x00, 0x40, 0x88, 0x04, 0x41, 0x35, 0xc7, 0x17,
     0x72, 0x45, 0x38, 0x50, 0x90, 0x19, 0x31, 0x65, 0x3d] := by decide +kernel

end LbzVerif.Lemmas.CompressWitnessHello
