/-
  Lemmas.CompressBlock — one block of `Model.Compress`: under the contract
  `ChoicesOK` the encoder state `encodeBlock` builds is well-formed (`WF`) and
  coded (`Coded`), so `parse_transmit` applies; and the block the reference
  parser returns for it is decoded by `Spec.Bzip2.decodeBlock` to the bytes the
  block was made of.
-/
import LbzVerif.Model.Compress
import LbzVerif.Lemmas.CompressMtf
import LbzVerif.Lemmas.SpecMtfLink
import LbzVerif.Lemmas.SpecStageLinkRle
import LbzVerif.Lemmas.Rle1Dec
import LbzVerif.Lemmas.AssignCanon
import LbzVerif.Lemmas.TransmitCompose

namespace LbzVerif.Lemmas.CompressBlock
open LbzVerif LbzVerif.Basic LbzVerif.Model.Compress LbzVerif.Model.Transmit
open LbzVerif.Model.Canon (numSelectors dummySelectors treePad)
open LbzVerif.Lemmas.CompressMtf LbzVerif.Lemmas.TransmitCompose LbzVerif.Lemmas.TransmitLen

/-! ### the inverse BWT contract -/

theorem ibwtWalk_size (l : Array UInt8) (t : Array Nat) (n p : Nat) (acc : Array UInt8) :
    (Spec.Bzip2.ibwtWalk l t n p acc).size = acc.size + n := by
  induction n generalizing p acc with
  | zero => rfl
  | succ n ih => simp only [Spec.Bzip2.ibwtWalk, ih, Array.size_push]; omega

theorem ibwt_some {l : Array UInt8} {idx : Nat} {t : Array UInt8}
    (h : Spec.Bzip2.ibwt l idx = some t) : idx < l.size ∧ t.size = l.size := by
  unfold Spec.Bzip2.ibwt at h
  split at h
  · rename_i hlt
    simp only [Option.some.injEq] at h
    refine ⟨hlt, ?_⟩
    rw [← h, ibwtWalk_size]
    simp
  · cases h

theorem bwtOK_facts {rb L : List UInt8} {idx : Nat} (h : BwtOK rb L idx) :
    idx < L.length ∧ L.length = rb.length := by
  have := ibwt_some h.1
  simp only [List.size_toArray] at this
  omega

/-! ### fields of `encodeBlock` -/

section fields
variable (rb : List UInt8) (crc : UInt32) (ch : Choice)

theorem eb_mtfv : (encodeBlock rb crc ch).mtfv = mtfvOf rb ch.L := rfl
theorem eb_lens : (encodeBlock rb crc ch).lens = ch.lens := rfl
theorem eb_codes : (encodeBlock rb crc ch).codes = ch.lens.map Model.Canon.assignCodes := rfl
theorem eb_selectors : (encodeBlock rb crc ch).selectors = ch.selectors := rfl
theorem eb_numTrees : (encodeBlock rb crc ch).numTrees = ch.numTrees := rfl
theorem eb_cmap : (encodeBlock rb crc ch).cmap = cmapOf rb := rfl
theorem eb_crc : (encodeBlock rb crc ch).crc = crc.toNat := rfl
theorem eb_bwtIdx : (encodeBlock rb crc ch).bwtIdx = ch.idx := rfl
theorem eb_ns : (encodeBlock rb crc ch).ns = numSelectors (mtfvOf rb ch.L).length := rfl
theorem eb_nmtf : (encodeBlock rb crc ch).nmtf = (mtfvOf rb ch.L).length := rfl

theorem eb_gpcCost : gpcCost (encodeBlock rb crc ch) = gpcCost (encodeBlock0 rb crc ch) := rfl

/-- the padding does not change the cost it was computed from -/
theorem eb_costBase (hs : ch.selectors.length = numSelectors (mtfvOf rb ch.L).length) :
    costBase (encodeBlock rb crc ch) = costBase (encodeBlock0 rb crc ch) := by
  unfold costBase
  rw [eb_gpcCost]
  have h1 : (encodeBlock rb crc ch).selectorMtf =
      selectorMtfOf ch.selectors ++
        List.replicate (dummySelectors (costBase (encodeBlock0 rb crc ch))) 0 := rfl
  have h2 : (encodeBlock0 rb crc ch).selectorMtf = selectorMtfOf ch.selectors := rfl
  have h3 : (encodeBlock0 rb crc ch).ns = numSelectors (mtfvOf rb ch.L).length := rfl
  have hl : (selectorMtfOf ch.selectors).length = numSelectors (mtfvOf rb ch.L).length := by
    unfold selectorMtfOf; rw [selLoop_length, hs]
  rw [h1, h2, eb_ns, h3, List.take_left' hl, ← hl, List.take_length]

end fields

/-! ### `WF` and `Coded` -/

theorem alphaSize_eq (rb : List UInt8) (crc : UInt32) (ch : Choice) (hL : ∀ x ∈ ch.L, x ∈ rb) :
    (encodeBlock rb crc ch).alphaSize = (usedOf rb).length + 2 := by
  unfold EncBlock.alphaSize
  rw [eb_mtfv, mtfvOf_eq rb ch.L hL, mtfRle2_getLastD]

theorem complete_range {l : List Nat} (h : Spec.Prefix.Complete l) :
    ∀ x ∈ l, Gen.MIN_CODE_LENGTH ≤ x ∧ x ≤ Gen.MAX_CODE_LENGTH := by
  intro x hx
  have := h.2 x hx
  simpa only [Gen.MIN_CODE_LENGTH, Gen.MAX_CODE_LENGTH] using this

/-- **WF.**  `encode()`'s state is well-formed for every contract-satisfying
    choice, for a non-empty block of at most 900000 bytes. -/
theorem encodeBlock_wf (rb : List UInt8) (crc : UInt32) (ch : Choice)
    (hlen : rb.length ≤ Gen.MAX_BLOCK_SIZE) (hok : ChoicesOK rb ch) :
    WF (encodeBlock rb crc ch) := by
  obtain ⟨hb, ht1, ht2, ht3, ht4, ht5, ht6⟩ := hok
  obtain ⟨hidx, hLlen⟩ := bwtOK_facts hb
  have hmv := mtfvOf_eq rb ch.L hb.2
  have hcb := eb_costBase rb crc ch ht5
  refine
    { crc_lt := ?_, bwt_lt := ?_, cmap_len := ?_, mtfv_ne := ?_, nmtf_le := ?_, trees_ge := ht1,
      trees_le := ht2, lens_len := ht3, codes_len := ?_, lens_ok := ?_, sel_len := ht5,
      sel_lt := ht6, selMtf_eq := ?_, nsel_eq := ?_, pad_eq := ?_ }
  · rw [eb_crc]; exact crc.toNat_lt
  · rw [eb_bwtIdx]
    simp only [Gen.MAX_BLOCK_SIZE] at hlen
    omega
  · rw [eb_cmap]; exact cmapOf_length rb
  · rw [eb_mtfv, hmv]; exact mtfRle2_ne _ _
  · rw [eb_nmtf, hmv]
    have := mtfRle2_length_le (usedOf rb) ch.L
    omega
  · rw [eb_codes, List.length_map]; exact ht3
  · intro l hl
    rw [eb_lens] at hl
    rw [alphaSize_eq rb crc ch hb.2]
    exact ⟨(ht4 l hl).1, complete_range (ht4 l hl).2⟩
  · rw [hcb]; rfl
  · rw [hcb]; rfl
  · rw [hcb]; rfl

/-- **Coded.** -/
theorem encodeBlock_coded (rb : List UInt8) (crc : UInt32) (ch : Choice)
    (hne : rb ≠ []) (hok : ChoicesOK rb ch) :
    Coded (encodeBlock rb crc ch) := by
  obtain ⟨hb, ht1, ht2, ht3, ht4, ht5, ht6⟩ := hok
  have hmv := mtfvOf_eq rb ch.L hb.2
  have has := alphaSize_eq rb crc ch hb.2
  have hune := usedOf_ne rb hne
  have hsyms := mtfRle2_syms_le (usedOf rb) ch.L hune
    (fun x hx => (mem_usedOf rb x).mpr (hb.2 x hx))
  refine
    { alpha_eq := ?_, used_ne := ?_, complete := ?_, canon := ?_, syms_lt := ?_, eob_last := ?_ }
  · rw [has]; rfl
  · exact hune
  · intro l hl; exact (ht4 l hl).2
  · intro s hs
    rw [eb_selectors] at hs
    have hst : s < ch.lens.length := by rw [ht3]; exact ht6 s hs
    rw [eb_codes, eb_lens, has]
    have hg : ch.lens.getD s [] = ch.lens[s] := by
      simp [List.getD_eq_getElem?_getD, List.getElem?_eq_getElem hst]
    have hg' : (ch.lens.map Model.Canon.assignCodes).getD s [] =
        Model.Canon.assignCodes ch.lens[s] := by
      simp [List.getD_eq_getElem?_getD, List.getElem?_map, List.getElem?_eq_getElem hst]
    have hm := ht4 _ (List.getElem_mem hst)
    rw [hg, hg', Lemmas.AssignCanon.assignCodes_eq_canon _ hm.2, hm.1]
  · intro x hx
    rw [has]
    rw [eb_mtfv, hmv, mtfRle2_split, List.mem_append] at hx
    rcases hx with hx | hx
    · have := hsyms x hx; omega
    · simp only [List.mem_singleton] at hx; omega
  · intro x hx
    rw [has]
    rw [eb_mtfv, hmv, mtfRle2_dropLast] at hx
    have := hsyms x hx
    omega

/-! ### decoding the parsed block -/

theorem uint32_not_toNat (x : UInt32) : (~~~ x).toNat = x.toNat ^^^ 0xFFFFFFFF := by
  have h2 : (0xFFFFFFFF : UInt32) = -1 := by decide
  rw [← UInt32.xor_neg_one, ← h2, UInt32.toNat_xor]
  rfl

theorem crcFold_eq_crcRun (c : UInt32) (xs : List UInt8) :
    Model.crcFold c xs = Basic.crcRun c xs := rfl

/-- The stored block CRC of the model is the reference CRC of the block's bytes. -/
theorem storedCrc_eq (bytes : List UInt8) :
    (Basic.crc32Arr bytes.toArray).toNat =
      (Model.crcFold 0xFFFFFFFF bytes).toNat ^^^ 0xFFFFFFFF := by
  rw [Basic.crc32Arr_eq, Basic.crc32, uint32_not_toNat, crcFold_eq_crcRun]
  rfl

/-- the MTF stage of the oracle on the parsed block gives the sorted block back -/
theorem unMtf_expected (rb L : List UInt8) (cap : Nat) (hne : rb ≠ [])
    (hL : ∀ x ∈ L, x ∈ rb) (hfit : L.length ≤ cap) :
    Spec.Bzip2.unMtfRle2 (usedOf rb) cap (mtfvOf rb L).dropLast = .ok L.toArray := by
  have hune := usedOf_ne rb hne
  have hmem : ∀ x ∈ L, x ∈ usedOf rb := fun x hx => (mem_usedOf rb x).mpr (hL x hx)
  have hsyms := mtfRle2_syms_le (usedOf rb) L hune hmem
  rw [mtfvOf_eq rb L hL, mtfRle2_dropLast]
  have h1 := Lemmas.MtfSpec.unMtfRle2_mtfRle2 (usedOf rb) L cap hmem hfit
  rw [mtfRle2_split, Lemmas.SpecMtfLink.unMtfRle2_link (usedOf rb) hune cap _
    (fun s hs => by have := hsyms s hs; omega)] at h1
  split at h1
  · rename_i a ha
    rw [ha]
    simp only [Option.some.injEq] at h1
    congr 1
    apply Array.toList_inj.mp
    simpa using h1
  · cases h1

/-- `decodeBlock` from its stages (not randomised). -/
theorem decodeBlock_ok (b : Spec.Bzip2.Block) (tt T out : Array UInt8)
    (h1 : Spec.Bzip2.unMtfRle2 b.used (Spec.Bzip2.blockCap b.level) b.syms.toList = .ok tt)
    (h2 : tt.size ≠ 0) (h3 : Spec.Bzip2.ibwt tt b.origPtr = some T) (h4 : b.rand = false)
    (h5 : Spec.Bzip2.unRle1 T = .ok out) (h6 : (Basic.crc32Arr out).toNat = b.storedCrc) :
    Spec.Bzip2.decodeBlock b = .ok { nblock := tt.size, bytes := out } := by
  unfold Spec.Bzip2.decodeBlock
  simp only [h1, h2, h3, h4, h5, h6, if_false, if_true, Bool.false_eq_true]

/-- **Block round trip at the level of the parsed block**: the block the strict
    parser returns for `encodeBlock (rle1 bytes) (crc of bytes) ch`
    (`parse_transmit`) decodes — MTF/zero-run stage, inverse BWT, final
    run-length decoding, CRC comparison — to `bytes`, with `nblock` the size
    of the run-length encoded block. -/
theorem decodeBlock_expected (bytes : List UInt8) (ch : Choice) (level start : Nat)
    (hne : bytes ≠ []) (hfit : (Spec.rle1 bytes).length ≤ Spec.Bzip2.blockCap level)
    (hok : ChoicesOK (Spec.rle1 bytes) ch) :
    Spec.Bzip2.decodeBlock
        (expectedBlock level start
          (encodeBlock (Spec.rle1 bytes) (Model.crcFold 0xFFFFFFFF bytes) ch)) =
      .ok { nblock := (Spec.rle1 bytes).length, bytes := bytes.toArray } := by
  have hrne : Spec.rle1 bytes ≠ [] := by
    intro he
    have := Spec.unRle1_rle1 bytes
    rw [he] at this
    have h0 : Spec.unRle1 [] = some [] := by decide
    rw [h0] at this
    exact hne (Option.some.inj this).symm
  obtain ⟨hb, _⟩ := hok
  obtain ⟨hidx, hLlen⟩ := bwtOK_facts hb
  have hm := unMtf_expected (Spec.rle1 bytes) ch.L (Spec.Bzip2.blockCap level) hrne hb.2
    (by omega)
  have hpos : 0 < (Spec.rle1 bytes).length := List.length_pos_iff.mpr hrne
  have h := decodeBlock_ok
    (expectedBlock level start (encodeBlock (Spec.rle1 bytes) (Model.crcFold 0xFFFFFFFF bytes) ch))
    ch.L.toArray (Spec.rle1 bytes).toArray bytes.toArray
    (by simp only [expectedBlock, List.toList_toArray]; exact hm) (by simp only [List.size_toArray]; omega) hb.1 rfl
    (by
      rw [Lemmas.SpecStageLinkRle.bzip2_unRle1_eq, List.toList_toArray,
        Lemmas.SpecStageLinkRle.unRle1_eq_rle1, Spec.unRle1_rle1])
    (storedCrc_eq bytes)
  rw [h, List.size_toArray, hLlen]

end LbzVerif.Lemmas.CompressBlock
