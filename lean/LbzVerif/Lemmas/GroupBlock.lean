/-
  Lemmas.GroupBlock — glue for the end-to-end block theorems (W17):
    * the header the reference reads is well formed (`hdrWf_of_spec`);
    * the state `header_spec` delivers at the top of the group loop satisfies
      the invariant of `GroupMachine.groups_machine` (`ginv_of_hdrOk`);
    * the buffer never holds 64 live bits after the first `NEED` (`toTop_w63`);
    * the symbol loop over `syms ++ [EOB]` = all actions continue, then the
      checks of `eobFinish` (`symLoop_of_fold`, `fold_of_symLoop`);
    * `n = |out|` along the symbol actions.
-/
import LbzVerif.Lemmas.GroupMachine
import LbzVerif.Lemmas.RetrieveSpecLink

set_option linter.unusedSimpArgs false

namespace LbzVerif.Lemmas.GroupBlock
open LbzVerif LbzVerif.Model.Retrieve LbzVerif.Spec.Prefix
open LbzVerif.Model.MtfDec (RunSt)
open LbzVerif.Model
open LbzVerif.Lemmas.RetrieveBits LbzVerif.Lemmas.RetrieveValues LbzVerif.Lemmas.RetrieveSplit
open LbzVerif.Lemmas.RetrieveFast LbzVerif.Lemmas.RetrieveDelta LbzVerif.Lemmas.RetrieveTables
open LbzVerif.Lemmas.RetrieveSelectors LbzVerif.Lemmas.RetrieveBitmap LbzVerif.Lemmas.RetrieveHeader
open LbzVerif.Lemmas.GroupDefs LbzVerif.Lemmas.GroupMachine LbzVerif.Lemmas.RetrieveOk

/-! ### the reference's header is well formed -/

structure HdrWf (h : Hdr) : Prop where
  used1 : 1 ≤ h.used.length
  used256 : h.used.length ≤ 256
  ng2 : 2 ≤ h.ng
  ng6 : h.ng ≤ 6
  ns1 : 1 ≤ h.ns
  selsLen : h.sels.length = h.ns
  selsLt : ∀ j ∈ h.sels, j < h.ng
  tabsLen : h.tabs.length = h.ng
  tabsOk : ∀ l ∈ h.tabs, l.length = h.used.length + 2 ∧ ∀ x ∈ l, 1 ≤ x ∧ x ≤ 20

theorem inRange_iff (c : Nat) : Spec.Delta.inRange c = true ↔ 1 ≤ c ∧ c ≤ 20 := by
  unfold Spec.Delta.inRange Spec.Delta.minLen Spec.Delta.maxLen
  rw [Bool.and_eq_true, decide_eq_true_eq, decide_eq_true_eq]

theorem table_wf (alpha : Nat) (b : List Bool) (l : List Nat) (b' : List Bool)
    (h : Spec.Delta.table alpha b = some (l, b')) :
    l.length = alpha ∧ ∀ x ∈ l, 1 ≤ x ∧ x ≤ 20 := by
  unfold Spec.Delta.table at h
  cases ht : Spec.Delta.takeNum 5 b with
  | none => rw [ht] at h; cases h
  | some p =>
    obtain ⟨c, r⟩ := p
    rw [ht] at h
    simp only at h
    split at h
    · exact ⟨Lemmas.Delta.syms_length _ _ _ _ _ h,
        fun x hx => (inRange_iff x).mp (Lemmas.Delta.syms_inRange _ _ _ _ _ h x hx)⟩
    · cases h

theorem specTables_wf (alpha : Nat) : ∀ (n : Nat) (b : List Bool) (tabs : List (List Nat)) (b' : List Bool),
    specTables alpha n b = some (tabs, b') →
    tabs.length = n ∧ ∀ l ∈ tabs, l.length = alpha ∧ ∀ x ∈ l, 1 ≤ x ∧ x ≤ 20 := by
  intro n
  induction n with
  | zero =>
    intro b tabs b' h
    simp only [specTables, Option.some.injEq, Prod.mk.injEq] at h
    obtain ⟨rfl, _⟩ := h
    exact ⟨rfl, fun l hl => (List.not_mem_nil hl).elim⟩
  | succ n ih =>
    intro b tabs b' h
    simp only [specTables] at h
    cases ht : Spec.Delta.table alpha b with
    | none => rw [ht] at h; cases h
    | some p =>
      obtain ⟨l, b1⟩ := p
      rw [ht] at h
      simp only at h
      cases hs : specTables alpha n b1 with
      | none => rw [hs] at h; cases h
      | some q =>
        obtain ⟨ls, b2⟩ := q
        rw [hs] at h
        simp only [Option.some.injEq, Prod.mk.injEq] at h
        obtain ⟨rfl, _⟩ := h
        obtain ⟨i1, i2⟩ := ih b1 ls b2 hs
        refine ⟨by simp [i1], fun l' hl' => ?_⟩
        rcases List.mem_cons.mp hl' with e | e
        · rw [e]; exact table_wf alpha b l b1 ht
        · exact i2 l' e

theorem specSelTables_wf (ng alpha : Nat) (hng : 0 < ng) : ∀ (k : Nat) (B : List Bool) (is : List Nat)
    (tabs : List (List Nat)) (B' : List Bool), specSelTables ng alpha k B = some (is, tabs, B') →
    is.length = k ∧ (∀ j ∈ is, j < ng) ∧
      tabs.length = ng ∧ ∀ l ∈ tabs, l.length = alpha ∧ ∀ x ∈ l, 1 ≤ x ∧ x ≤ 20 := by
  intro k
  induction k with
  | zero =>
    intro B is tabs B' h
    simp only [specSelTables] at h
    cases hs : specTables alpha ng B with
    | none => rw [hs] at h; cases h
    | some q =>
      obtain ⟨ts, b2⟩ := q
      rw [hs] at h
      simp only [Option.some.injEq, Prod.mk.injEq] at h
      obtain ⟨rfl, rfl, _⟩ := h
      obtain ⟨i1, i2⟩ := specTables_wf alpha ng B ts b2 hs
      exact ⟨rfl, fun j hj => (List.not_mem_nil hj).elim, i1, i2⟩
  | succ k ih =>
    intro B is tabs B' h
    simp only [specSelTables] at h
    cases hu : Spec.Bzip2.readUnary ng 0 B with
    | error e => rw [hu] at h; cases h
    | ok q =>
      obtain ⟨i, B1⟩ := q
      rw [hu] at h
      simp only at h
      cases hs : specSelTables ng alpha k B1 with
      | none => rw [hs] at h; cases h
      | some z =>
        obtain ⟨is', tabs', B2⟩ := z
        rw [hs] at h
        simp only [Option.some.injEq, Prod.mk.injEq] at h
        obtain ⟨rfl, rfl, _⟩ := h
        obtain ⟨a, b, c, d⟩ := ih B1 is' tabs' B2 hs
        refine ⟨by simp [a], fun j hj => ?_, c, d⟩
        rcases List.mem_cons.mp hj with e | e
        · rw [e]; exact Spec.Bzip2.readUnary_lt hng hu
        · exact b j e

theorem usedOfRow_len (i small : Nat) : (Spec.Bzip2.usedOfRow i small).length ≤ 16 := by
  unfold Spec.Bzip2.usedOfRow
  have := List.length_filterMap_le (fun j => if small.testBit (15 - j) then some (UInt8.ofNat (16 * i + j)) else none)
    (List.range 16)
  simpa using this

theorem specRows_len (big0 : Nat) : ∀ (rows : List Nat) (B : List Bool) (u : List UInt8) (B' : List Bool),
    specRows big0 rows B = some (u, B') → u.length ≤ 16 * rows.length := by
  intro rows
  induction rows with
  | nil =>
    intro B u B' h
    simp only [specRows, Option.some.injEq, Prod.mk.injEq] at h
    obtain ⟨rfl, _⟩ := h
    simp
  | cons i rows ih =>
    intro B u B' h
    simp only [specRows] at h
    split at h
    · cases ht : Basic.takeNat 16 B with
      | none => rw [ht] at h; cases h
      | some p =>
        obtain ⟨small, B1⟩ := p
        rw [ht] at h
        simp only at h
        cases hr : specRows big0 rows B1 with
        | none => rw [hr] at h; cases h
        | some q =>
          obtain ⟨u1, B2⟩ := q
          rw [hr] at h
          simp only [Option.some.injEq, Prod.mk.injEq] at h
          obtain ⟨rfl, _⟩ := h
          have := ih B1 u1 B2 hr
          have := usedOfRow_len i small
          simp only [List.length_append, List.length_cons]
          omega
    · have := ih B u B' h
      simp only [List.length_cons]
      omega

theorem hdrWf_of_counts (used : List UInt8) (hu : used.length ≤ 256) (B : List Bool) (h : Hdr)
    (hs : specCounts used B = some h) : HdrWf h := by
  unfold specCounts at hs
  split at hs
  · cases hs
  · rename_i hne
    cases h3 : Basic.takeNat 3 B with
    | none => rw [h3] at hs; cases hs
    | some p =>
      obtain ⟨ng, B1⟩ := p
      rw [h3] at hs
      simp only at hs
      split at hs
      · cases hs
      · rename_i hng
        cases h15 : Basic.takeNat 15 B1 with
        | none => rw [h15] at hs; cases hs
        | some q =>
          obtain ⟨ns, B2⟩ := q
          rw [h15] at hs
          simp only at hs
          split at hs
          · cases hs
          · rename_i hns
            cases hst : specSelTables ng (used.length + 2) ns B2 with
            | none => rw [hst] at hs; cases hs
            | some z =>
              obtain ⟨is, tabs, B3⟩ := z
              rw [hst] at hs
              simp only [Option.some.injEq] at hs
              subst hs
              obtain ⟨a, b, c, d⟩ := specSelTables_wf ng (used.length + 2) (by omega) ns B2 is tabs B3 hst
              have hl : 1 ≤ used.length := by
                cases used with
                | nil => exact absurd rfl hne
                | cons _ _ => simp
              refine ⟨hl, hu, ?_, ?_, ?_, a, b, c, d⟩
              · show 2 ≤ ng; omega
              · show ng ≤ 6; omega
              · show 1 ≤ ns; omega

theorem hdrWf_of_spec (B : List Bool) (r idx : Nat) (h : Hdr) (hs : specHeader B = some (r, idx, h)) :
    HdrWf h := by
  unfold specHeader at hs
  cases h1 : Basic.takeNat 1 B with
  | none => rw [h1] at hs; cases hs
  | some p =>
    obtain ⟨r0, B1⟩ := p
    rw [h1] at hs
    simp only at hs
    cases h2 : Basic.takeNat 24 B1 with
    | none => rw [h2] at hs; cases hs
    | some q =>
      obtain ⟨i0, B2⟩ := q
      rw [h2] at hs
      simp only at hs
      cases h3 : specFromBig B2 with
      | none => rw [h3] at hs; cases hs
      | some h' =>
        rw [h3] at hs
        simp only [Option.some.injEq, Prod.mk.injEq] at hs
        obtain ⟨_, _, rfl⟩ := hs
        unfold specFromBig at h3
        cases h4 : Basic.takeNat 16 B2 with
        | none => rw [h4] at h3; cases h3
        | some z =>
          obtain ⟨big0, B3⟩ := z
          rw [h4] at h3
          simp only at h3
          unfold specFromRows at h3
          cases h5 : specRows big0 (List.range' 0 16) B3 with
          | none => rw [h5] at h3; cases h3
          | some y =>
            obtain ⟨u, B4⟩ := y
            rw [h5] at h3
            simp only [List.nil_append] at h3
            have := specRows_len big0 _ B3 u B4 h5
            exact hdrWf_of_counts u (by simpa using this) B4 h' h3

/-! ### `applyTables` -/

theorem getD_set_self {α : Type} (l : List α) (i : Nat) (a d : α) (h : i < l.length) :
    (l.set i a).getD i d = a := by
  simp [List.getD_eq_getElem?_getD, h]

theorem getD_set_other {α : Type} (l : List α) (i j : Nat) (a d : α) (h : i ≠ j) :
    (l.set i a).getD j d = l.getD j d := by
  simp [List.getD_eq_getElem?_getD, h]

theorem applyTables_spec : ∀ (ls : List (List Nat)) (t : Nat) (mtf : List Nat)
    (trees : List (Option Canon.Tree)), t + ls.length ≤ mtf.length → t + ls.length ≤ trees.length →
    (applyTables t mtf trees ls).1 = t + ls.length ∧
    (applyTables t mtf trees ls).2.1.length = mtf.length ∧
    (∀ i, (applyTables t mtf trees ls).2.1.getD i 0 =
      if t ≤ i ∧ i < t + ls.length then treeCode i (ls.getD (i - t) []) else mtf.getD i 0) ∧
    (∀ i, (applyTables t mtf trees ls).2.2.getD i none =
      if t ≤ i ∧ i < t + ls.length then (Canon.makeTree (ls.getD (i - t) [])).2 else trees.getD i none) := by
  intro ls
  induction ls with
  | nil =>
    intro t mtf trees _ _
    refine ⟨rfl, rfl, fun i => ?_, fun i => ?_⟩
    · show mtf.getD i 0 = _
      rw [if_neg (by simp)]
    · show trees.getD i none = _
      rw [if_neg (by simp)]
  | cons l ls ih =>
    intro t mtf trees h1 h2
    simp only [List.length_cons] at h1 h2
    rw [applyTables]
    obtain ⟨a, b, c, d⟩ := ih (t + 1) (mtf.set t (treeCode t l)) (trees.set t (Canon.makeTree l).2)
      (by rw [List.length_set]; omega) (by rw [List.length_set]; omega)
    refine ⟨by rw [a, List.length_cons]; omega, by rw [b, List.length_set], fun i => ?_, fun i => ?_⟩
    · rw [c i]
      by_cases hi : i = t
      · subst hi
        rw [if_neg (by omega), if_pos (by simp), getD_set_self _ _ _ _ (by omega), Nat.sub_self]
        rfl
      · rw [getD_set_other _ _ _ _ _ (fun e => hi e.symm)]
        by_cases hr : t + 1 ≤ i ∧ i < t + 1 + ls.length
        · rw [if_pos hr, if_pos (by simp only [List.length_cons]; omega)]
          obtain ⟨m, hm⟩ : ∃ m, i - t = m + 1 := ⟨i - t - 1, by omega⟩
          rw [hm, List.getD_cons_succ, show i - (t + 1) = m by omega]
        · rw [if_neg hr, if_neg (by simp only [List.length_cons]; omega)]
    · rw [d i]
      by_cases hi : i = t
      · subst hi
        rw [if_neg (by omega), if_pos (by simp), getD_set_self _ _ _ _ (by omega), Nat.sub_self]
        rfl
      · rw [getD_set_other _ _ _ _ _ (fun e => hi e.symm)]
        by_cases hr : t + 1 ≤ i ∧ i < t + 1 + ls.length
        · rw [if_pos hr, if_pos (by simp only [List.length_cons]; omega)]
          obtain ⟨m, hm⟩ : ∃ m, i - t = m + 1 := ⟨i - t - 1, by omega⟩
          rw [hm, List.getD_cons_succ, show i - (t + 1) = m by omega]
        · rw [if_neg hr, if_neg (by simp only [List.length_cons]; omega)]

/-! ### from the header to the invariant of the group loop -/

theorem foldl_push (l : List Nat) : ∀ a : Array Nat, l.foldl Array.push a = a ++ l.toArray := by
  induction l with
  | nil => intro a; simp
  | cons x t ih => intro a; rw [List.foldl_cons, ih]; simp

theorem ext_getD (l1 l2 : List Nat) (hlen : l1.length = l2.length)
    (h : ∀ i, i < l1.length → l1.getD i 0 = l2.getD i 0) : l1 = l2 := by
  apply List.ext_getElem hlen
  intro i h1 h2
  have := h i h1
  rw [List.getD_eq_getElem?_getD, List.getD_eq_getElem?_getD, List.getElem?_eq_getElem h1,
    List.getElem?_eq_getElem h2] at this
  exact this

/-- The state `header_spec` delivers satisfies the invariant of the group loop
with the reference's tables, the (clamped) selector codes, and the identity MTF
list. -/
theorem ginv_of_hdrOk (c s : St) (h : Hdr) (hk : HdrOk c s h) (hw : HdrWf h)
    (hm : c.mtf = List.replicate Gen.MAX_TREES 0) (htr : c.trees = List.replicate Gen.MAX_TREES none)
    (inv : BufInv s.v s.w) (w63 : s.w ≤ 63) :
    GInv h.tabs s (h.sels.take s.numSel) (List.range h.ng) := by
  have h6 : Gen.MAX_TREES = 6 := rfl
  have hng6 := hw.ng6
  have hat := applyTables_spec h.tabs 0 c.mtf c.trees
    (by rw [hm, List.length_replicate, hw.tabsLen]; omega)
    (by rw [htr, List.length_replicate, hw.tabsLen]; omega)
  rw [← hk.tt] at hat
  obtain ⟨_, hlen, hmtf, htrees⟩ := hat
  simp only at hlen hmtf htrees
  refine ⟨?_, ?_, ?_, ?_, inv, w63⟩
  · intro t ht
    rw [htrees t, if_pos (by omega), Nat.sub_zero]
  · apply ext_getD
    · rw [hlen, hm]
      simp [hw.tabsLen]
      omega
    · intro i hi
      rw [hmtf i, Nat.zero_add, hw.tabsLen]
      by_cases hlt : i < h.ng
      · rw [if_pos ⟨Nat.zero_le _, hlt⟩, Nat.sub_zero]
        have hR : (List.map (fun t => treeCode t (h.tabs.getD t [])) (List.range h.ng) ++
            List.replicate (Gen.MAX_TREES - (List.range h.ng).length) 0).getD i 0 =
            treeCode i (h.tabs.getD i []) := by
          rw [List.getD_eq_getElem?_getD, List.getElem?_append_left (by simp; exact hlt),
            List.getElem?_map, List.getElem?_range hlt]
          rfl
        rw [hR]
      · rw [if_neg (by omega), hm]
        rw [hlen, hm, List.length_replicate] at hi
        have h1 : i - h.ng < Gen.MAX_TREES - h.ng := by omega
        have hR : (List.map (fun t => treeCode t (h.tabs.getD t [])) (List.range h.ng) ++
            List.replicate (Gen.MAX_TREES - (List.range h.ng).length) 0).getD i 0 = 0 := by
          rw [List.getD_eq_getElem?_getD, List.getElem?_append_right (by simp; omega)]
          simp only [List.length_map, List.length_range, List.getElem?_replicate, if_pos h1]
          rfl
        rw [hR, List.getD_eq_getElem?_getD, List.getElem?_replicate, if_pos hi]
        rfl
  · intro k hk'
    rw [hk.g, Nat.zero_add, hk.sel, foldl_push, Array.getD_eq_getD_getElem?]
    simp only [List.length_take] at hk'
    simp [List.getD_eq_getElem?_getD, List.getElem?_take]
    rw [if_pos (by omega)]
  · rw [List.length_take, hk.g, hw.selsLen, hk.numSel]
    omega

/-! ### `NEED` keeps the buffer below 64 live bits -/

theorem suf_w {v w v' w' : Nat} (h : Suf v w v' w') : w' ≤ w := by
  obtain ⟨_, k, e⟩ := h
  have := congrArg List.length e
  rw [bufBits_length, List.length_drop, bufBits_length] at this
  omega

theorem toTop_w63 (ws : List Nat) : ∀ (st : St), BufInv st.v st.w → st.w ≤ 63 →
    ∀ s rest, toTop st ws = .top s rest → s.w ≤ 63 := by
  induction ws with
  | nil =>
    intro st inv hw s rest h
    have hd := drain_bits (st.w + 1) st inv
    unfold toTop at h
    cases hdr : drain (st.w + 1) st with
    | need s1 => rw [hdr] at h; cases h
    | done r s1 => rw [hdr] at h; cases h
    | top s1 =>
      rw [hdr] at h hd
      injection h with h1 _
      subst h1
      cases hd with
      | top hs => have := suf_w hs; omega
  | cons x ws ih =>
    intro st inv hw s rest h
    have hd := drain_bits (st.w + 1) st inv
    rw [toTop] at h
    cases hdr : drain (st.w + 1) st with
    | done r s1 => rw [hdr] at h; cases h
    | top s1 =>
      rw [hdr] at h hd
      injection h with h1 _
      subst h1
      cases hd with
      | top hs => have := suf_w hs; omega
    | need s1 =>
      rw [hdr] at h hd
      simp only at h
      obtain ⟨hw1, _⟩ := drain_need _ _ _ hdr
      cases hd with
      | need hs =>
        exact ih (refill s1 x) (refill_bits s1.v s1.w x hw1 hs.1).2 (by show s1.w + 32 ≤ 63; omega) s rest h

/-! ### the symbol loop -/

theorem symStep_zero (rs : RunSt) : symStep rs 0 = .eob := by
  unfold symStep; simp

theorem symStep_ne_eob (rs : RunSt) (s : Nat) (hs : s ≠ 0) : symStep rs s ≠ .eob := by
  unfold symStep
  rw [if_neg hs]
  split
  · split <;> simp
  · split
    · simp
    · simp only
      split <;> simp

theorem symLoop_of_fold : ∀ (ss : List Nat) (rs rs' : RunSt), symFold rs ss = some rs' →
    symLoop rs (ss ++ [0]) =
      if rs'.run > Gen.MAX_BLOCK_SIZE - rs'.n then .overflow
      else .ok (MtfDec.flush rs').out.reverse (MtfDec.flush rs').ftab := by
  intro ss
  induction ss with
  | nil =>
    intro rs rs' h
    simp only [symFold, Option.some.injEq] at h
    subst h
    rw [List.nil_append, symLoop, symStep_zero]
  | cons s ss ih =>
    intro rs rs' h
    rw [symFold] at h
    rw [List.cons_append, symLoop]
    cases hs : symStep rs s with
    | eob => rw [hs] at h; cases h
    | stop r => rw [hs] at h; cases h
    | cont rs1 => rw [hs] at h; exact ih rs1 rs' h

theorem fold_of_symLoop : ∀ (ss : List Nat) (rs : RunSt) (out : List UInt8) (ftab : List Nat),
    (∀ s ∈ ss, s ≠ 0) → symLoop rs (ss ++ [0]) = .ok out ftab → ∃ rs', symFold rs ss = some rs' := by
  intro ss
  induction ss with
  | nil => intro rs out ftab _ _; exact ⟨rs, rfl⟩
  | cons s ss ih =>
    intro rs out ftab hne h
    rw [List.cons_append, symLoop] at h
    rw [symFold]
    cases hs : symStep rs s with
    | eob => exact absurd hs (symStep_ne_eob rs s (hne s (List.mem_cons_self ..)))
    | stop r =>
      rw [hs] at h
      simp only at h
      split at h <;> cases h
    | cont rs1 =>
      rw [hs] at h
      exact ih rs1 out ftab (fun x hx => hne x (List.mem_cons_of_mem _ hx)) h

/-- `tt - ds->tt` is the number of bytes written. -/
def NOut (rs : RunSt) : Prop := rs.n = rs.out.length

theorem nOut_flush (rs : RunSt) (h : NOut rs) : NOut (MtfDec.flush rs) := by
  unfold NOut MtfDec.flush at *
  simp [h]
  omega

theorem nOut_step (rs rs' : RunSt) (s : Nat) (h : NOut rs) (hs : symStep rs s = .cont rs') : NOut rs' := by
  unfold symStep at hs
  split at hs
  · cases hs
  · split at hs
    · split at hs
      · cases hs
      · injection hs with hs; subst hs; exact h
    · split at hs
      · cases hs
      · simp only at hs
        split at hs
        · cases hs
        · injection hs with hs
          subst hs
          exact nOut_flush rs h

theorem nOut_fold : ∀ (ss : List Nat) (rs rs' : RunSt), NOut rs → symFold rs ss = some rs' → NOut rs' := by
  intro ss
  induction ss with
  | nil => intro rs rs' h e; simp only [symFold, Option.some.injEq] at e; subst e; exact h
  | cons s ss ih =>
    intro rs rs' h e
    rw [symFold] at e
    cases hs : symStep rs s with
    | eob => rw [hs] at e; cases e
    | stop r => rw [hs] at e; cases e
    | cont rs1 => rw [hs] at e; exact ih rs1 rs' (nOut_step rs rs1 s h hs) e

theorem internalSym_eq (N s : Nat) : MtfDec.internalSym N s = Canon.renumber (N + 2) s := by
  unfold MtfDec.internalSym Canon.renumber
  by_cases h0 : s = 0
  · simp [h0]
  · by_cases h1 : s = 1
    · simp [h1]
    · simp only [h0, h1, if_false]
      by_cases h2 : s = N + 1
      · simp [h2]
      · rw [if_neg h2, if_neg (by omega)]

end LbzVerif.Lemmas.GroupBlock
