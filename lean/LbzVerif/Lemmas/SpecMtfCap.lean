/-
  Lemmas.SpecMtfCap — the oracle's MTF/RLE2 stage does not depend on the
  capacity as long as the block fits: `retrieve()` works with the capacity
  900000 (MAX_BLOCK_SIZE), the oracle's `decodeBlock` with `level × 100000`
  (lbzip2 makes that test in expand.c, after the retriever).  (W17)
-/
import LbzVerif.Lemmas.SpecMtfLink

namespace LbzVerif.Lemmas.SpecMtfCap
open LbzVerif LbzVerif.Spec.Bzip2 LbzVerif.Lemmas.SpecMtfLink

theorem go_cap_mono (cap cap' : Nat) : ∀ (ss : List Nat) (l : List UInt8) (run w : Nat)
    (out tt : Array UInt8), 1 ≤ w → unMtfRle2Go cap ss l run w out = .ok tt → tt.size ≤ cap' →
    unMtfRle2Go cap' ss l run w out = .ok tt := by
  intro ss
  induction ss with
  | nil =>
    intro l run w out tt _ h hc
    unfold unMtfRle2Go at h ⊢
    split at h
    · injection h with h
      subst h
      rw [pushN_size] at hc
      rw [if_pos hc]
    · cases h
  | cons s ss ih =>
    intro l run w out tt hw h hc
    unfold unMtfRle2Go at h ⊢
    by_cases hs : s ≤ 1
    · rw [if_pos hs] at h ⊢
      simp only at h ⊢
      split at h
      · have hk : 1 ≤ 2 * w := by omega
        have hsz := (go_size_ge cap ss l _ _ out tt hk h).1
        rw [if_pos (by omega)]
        exact ih l _ _ out tt hk h hc
      · cases h
    · rw [if_neg hs] at h ⊢
      split at h
      · simp only at h
        split at h
        · cases h
        · rename_i b mtf hmv
          have hsz := (go_size_ge cap ss mtf 0 1 _ tt (Nat.le_refl 1) h).1
          simp only [Array.size_push, pushN_size] at hsz
          rw [if_pos (by omega)]
          exact ih mtf 0 1 _ tt (Nat.le_refl 1) h hc
      · cases h

/-- A block accepted with capacity `cap` and not longer than `cap'` is accepted
with capacity `cap'`, with the same bytes. -/
theorem unMtfRle2_cap_mono (used : List UInt8) (cap cap' : Nat) (syms : List Nat) (tt : Array UInt8)
    (h : unMtfRle2 used cap syms = .ok tt) (hc : tt.size ≤ cap') :
    unMtfRle2 used cap' syms = .ok tt :=
  go_cap_mono cap cap' syms used 0 1 _ tt (Nat.le_refl 1) h hc

example : unMtfRle2 [97, 98, 99] 900000 [1, 2, 3, 0, 0, 3] = unMtfRle2 [97, 98, 99] 8 [1, 2, 3, 0, 0, 3] := by
  decide

end LbzVerif.Lemmas.SpecMtfCap
