/-
  Lemmas.HeaderBudgetDelta — budgeted copies of the delta-loop / table lemmas
  of `RetrieveDelta` / `RetrieveTables`: the escape "ran out of words" of the
  first conjunct now also says that the rest the reference returns has fewer
  than 32 bits (a `NEED` site suspends only when fewer than 32 unread bits are
  left, and the reference's rest is a suffix of the unread bits).
  The proofs are the original ones; only the places that create or forward the
  escape changed.
-/
import LbzVerif.Lemmas.RetrieveHeader

set_option linter.unusedSimpArgs false
set_option linter.unusedVariables false

namespace LbzVerif.Lemmas.HeaderBudget
open LbzVerif LbzVerif.Model.Retrieve LbzVerif.Lemmas.RetrieveBits LbzVerif.Lemmas.RetrieveValues
open LbzVerif.Lemmas.RetrieveSplit LbzVerif.Lemmas.RetrieveFast LbzVerif.Lemmas.RetrieveDelta
open LbzVerif.Lemmas.RetrieveTables

/-! ### the reference returns a suffix: length facts -/

theorem bitsOf_nil_length (st : St) : (bitsOf st []).length = st.w := by
  simp [bitsOf, bufBits_length]

theorem sym_len : ∀ (bits : List Bool) (c c' : Nat) (r : List Bool),
    Spec.Delta.sym c bits = some (c', r) → r.length ≤ bits.length
    | [], c, c', r, h => by simp [Spec.Delta.sym] at h
    | false :: t, c, c', r, h => by
      simp only [Spec.Delta.sym] at h
      split at h
      · simp only [Option.some.injEq, Prod.mk.injEq] at h
        rw [← h.2]; simp
      · cases h
    | [true], c, c', r, h => by simp [Spec.Delta.sym] at h
    | true :: false :: t, c, c', r, h => by
      simp only [Spec.Delta.sym] at h
      split at h
      · have := sym_len t _ _ _ h
        simp only [List.length_cons]; omega
      · cases h
    | true :: true :: t, c, c', r, h => by
      simp only [Spec.Delta.sym] at h
      split at h
      · have := sym_len t _ _ _ h
        simp only [List.length_cons]; omega
      · cases h

theorem syms_len : ∀ (n c : Nat) (bits : List Bool) (ls : List Nat) (r : List Bool),
    Spec.Delta.syms n c bits = some (ls, r) → r.length ≤ bits.length := by
  intro n
  induction n with
  | zero =>
    intro c bits ls r h
    simp only [Spec.Delta.syms, Option.some.injEq, Prod.mk.injEq] at h
    rw [← h.2]; exact Nat.le_refl _
  | succ n ih =>
    intro c bits ls r h
    rw [syms_succ] at h
    cases hs : Spec.Delta.sym c bits with
    | none => rw [hs] at h; cases h
    | some p =>
      obtain ⟨c', r1⟩ := p
      rw [hs] at h
      simp only at h
      cases hs2 : Spec.Delta.syms n c' r1 with
      | none => rw [hs2] at h; cases h
      | some q =>
        obtain ⟨ls2, r2⟩ := q
        rw [hs2] at h
        simp only [Option.some.injEq, Prod.mk.injEq] at h
        have h1 := sym_len _ _ _ _ hs
        have h2 := ih _ _ _ _ hs2
        rw [← h.2]; omega

theorem table_len (n : Nat) (bits : List Bool) (ls : List Nat) (r : List Bool)
    (h : Spec.Delta.table n bits = some (ls, r)) : r.length ≤ bits.length := by
  unfold Spec.Delta.table Spec.Delta.takeNum at h
  split at h
  · cases h
  · rename_i c r1 hh
    split at hh
    · simp only [Option.some.injEq, Prod.mk.injEq] at hh
      split at h
      · have := syms_len _ _ _ _ _ h
        rw [← hh.2] at this
        simp only [List.length_drop] at this; omega
      · cases h
    · cases hh

theorem specTables_len (a : Nat) : ∀ (k : Nat) (B : List Bool) (tabs : List (List Nat)) (B' : List Bool),
    specTables a k B = some (tabs, B') → B'.length ≤ B.length := by
  intro k
  induction k with
  | zero =>
    intro B tabs B' h
    simp only [specTables, Option.some.injEq, Prod.mk.injEq] at h
    rw [← h.2]; exact Nat.le_refl _
  | succ k ih =>
    intro B tabs B' h
    simp only [specTables] at h
    cases ht : Spec.Delta.table a B with
    | none => rw [ht] at h; cases h
    | some p =>
      obtain ⟨l, B1⟩ := p
      rw [ht] at h
      simp only at h
      cases hs : specTables a k B1 with
      | none => rw [hs] at h; cases h
      | some q =>
        obtain ⟨ls, B2⟩ := q
        rw [hs] at h
        simp only [Option.some.injEq, Prod.mk.injEq] at h
        have h1 := table_len _ _ _ _ ht
        have h2 := ih _ _ _ hs
        rw [← h.2]; omega

/-- `need_ready` that says, when it suspends, that fewer than 32 bits were left. -/
theorem need_ready_b (st : St) (ws : List Nat) (hn : normPc st = st) (inv : BufInv st.v st.w) :
    (Suspended (toTop st ws) ∧ (bitsOf st ws).length < 32) ∨
      ∃ v1 w1 ws1, toTop st ws = toTop { st with v := v1, w := w1 } ws1 ∧ 32 ≤ w1 ∧
        bitsOf { st with v := v1, w := w1 } ws1 = bitsOf st ws ∧ BufInv v1 w1 ∧
        64 * ws1.length + w1 ≤ 64 * ws.length + st.w + 32 := by
  by_cases hw : st.w < 32
  · cases ws with
    | nil =>
      exact Or.inl ⟨⟨st, by rw [toTop_at_need st hw hn]⟩, by rw [bitsOf_nil_length]; exact hw⟩
    | cons x ws1 =>
      cases need_ready st (x :: ws1) hn inv with
      | inl hsu =>
        obtain ⟨s, hs⟩ := hsu
        rw [toTop_at_need st hw hn] at hs
        exact Or.inr ⟨refillV st.v st.w x, st.w + 32, ws1, by rw [toTop_at_need st hw hn]; rfl, by omega,
          (by
            obtain ⟨e', _⟩ := refill_bits st.v st.w x hw inv
            unfold bitsOf
            show bufBits (refillV st.v st.w x) (st.w + 32) ++ _ = _
            rw [e']; simp [List.flatMap_cons]),
          (refill_bits st.v st.w x hw inv).2, by simp only [List.length_cons]; omega⟩
      | inr h => exact Or.inr h
  · exact Or.inr ⟨st.v, st.w, ws, rfl, by omega, rfl, inv, by omega⟩

theorem need_ready_b' (st : St) (ws : List Nat) (hn : normPc st = st) (inv : BufInv st.v st.w) :
    (Suspended (toTop st ws) ∧ (bitsOf st ws).length < 32) ∨
      ∃ st1 ws1, toTop st ws = toTop st1 ws1 ∧ 32 ≤ st1.w ∧ bitsOf st1 ws1 = bitsOf st ws ∧
        BufInv st1.v st1.w ∧ st1 = { st with v := st1.v, w := st1.w } := by
  cases need_ready_b st ws hn inv with
  | inl h => exact Or.inl h
  | inr h =>
    obtain ⟨v1, w1, ws1, e1, hw1, hb1, inv1, _⟩ := h
    exact Or.inr ⟨{ st with v := v1, w := w1 }, ws1, e1, hw1, hb1, inv1, rfl⟩

/-! ### the delta loop -/

theorem delta_loop_b : ∀ (m : Nat) (st : St) (ws : List Nat), 64 * ws.length + st.w ≤ m →
    st.pc = .deltaTag → BufInv st.v st.w → st.clCur < 32 → st.j ≤ st.alphaSize →
    (∀ lens' B', Spec.Delta.syms (st.alphaSize - st.j) st.clCur (bitsOf st ws) = some (lens', B') →
      (∃ st' ws', toTop st ws = toTop st' ws' ∧ LoopDone st st' lens' ∧ bitsOf st' ws' = B' ∧
        BufInv st'.v st'.w) ∨ (Suspended (toTop st ws) ∧ B'.length < 32)) ∧
    (Spec.Delta.syms (st.alphaSize - st.j) st.clCur (bitsOf st ws) = none →
      Rejected (toTop st ws) ∨ Suspended (toTop st ws)) := by
  intro m
  induction m using Nat.strongRecOn with
  | _ m ih =>
  intro st ws hm hpc inv hc hj
  have hnorm : normPc st = st := by unfold normPc; rw [if_neg (by rw [hpc]; simp)]
  by_cases hfin : st.j = st.alphaSize
  · -- nothing left to read
    have h0 : st.alphaSize - st.j = 0 := by omega
    rw [h0]
    constructor
    · intro lens' B' h
      simp only [Spec.Delta.syms, Option.some.injEq, Prod.mk.injEq] at h
      obtain ⟨h1, h2⟩ := h
      subst h1; subst h2
      exact Or.inl ⟨st, ws, rfl, ⟨hpc, hfin, by simp, sameRest_refl st⟩, rfl, inv⟩
    · intro h; simp [Spec.Delta.syms] at h
  · obtain ⟨n, hn⟩ : ∃ n, st.alphaSize - st.j = n + 1 := ⟨st.alphaSize - st.j - 1, by omega⟩
    rw [hn]
    by_cases hw : st.w < 32
    · -- NEED has to fetch
      cases ws with
      | nil =>
        have hs : toTop st [] = .susp st := by rw [toTop_at_need st hw hnorm]
        exact ⟨fun l B hh => Or.inr ⟨⟨st, hs⟩, by
          have := syms_len _ _ _ _ _ hh
          rw [bitsOf_nil_length] at this; omega⟩, fun _ => Or.inr ⟨st, hs⟩⟩
      | cons x ws1 =>
        have ht : toTop st (x :: ws1) = toTop (refill st x) ws1 := by rw [toTop_at_need st hw hnorm]
        have hb : bitsOf (refill st x) ws1 = bitsOf st (x :: ws1) := by
          obtain ⟨_, k, e⟩ := sufC_refill st x ws1 hw inv
          obtain ⟨e', _⟩ := refill_bits st.v st.w x hw inv
          unfold bitsOf
          show bufBits (refillV st.v st.w x) (st.w + 32) ++ _ = _
          rw [e']; simp [List.flatMap_cons]
        have hinv' : BufInv (refill st x).v (refill st x).w := (refill_bits st.v st.w x hw inv).2
        have := ih (64 * ws1.length + (st.w + 32)) (by simp only [List.length_cons] at hm; omega)
          (refill st x) ws1 (Nat.le_refl _) hpc hinv' hc hj
        rw [hb] at this
        have hn' : (refill st x).alphaSize - (refill st x).j = n + 1 := hn
        rw [hn'] at this
        rw [ht]
        obtain ⟨t1, t2⟩ := this
        refine ⟨fun l B hh => ?_, t2⟩
        cases t1 l B hh with
        | inl hok =>
          obtain ⟨st2, ws2, e1, hd, e2, i2⟩ := hok
          exact Or.inl ⟨st2, ws2, e1, loopDone_refill st x st2 l hd, e2, i2⟩
        | inr hsu => exact Or.inr hsu
    · -- one window
      have hw32 : 32 ≤ st.w := by omega
      have hstep : step st = deltaWindow st := by
        unfold step; rw [hpc]; unfold stepDeltaTag; rw [if_pos (by omega)]
      have ht : toTop st ws = afterStep st.w ws (deltaWindow st) := by
        rw [toTop_step' st ws hw32, hstep]
      have hBlen : 32 ≤ (bitsOf st ws).length := by
        unfold bitsOf; rw [List.length_append, bufBits_length]; omega
      rw [syms_succ, Lemmas.Delta.sym_eq_winModel st.clCur hc (bitsOf st ws)]
      unfold Lemmas.Delta.winModel
      cases hs : Model.Delta.stepLen st.clCur (Model.Delta.peek6 (bitsOf st ws)) with
      | none =>
        have hv := deltaWindow_value st ws (by omega) inv
        simp only [hs] at hv
        have hr : toTop st ws = .halt (.err Gen.ERR_DELTA) St.blank ws := by rw [ht, hv]; rfl
        simp only [Lemmas.Delta.applyW]
        exact ⟨fun _ _ h => (by cases h), fun _ => Or.inl ⟨_, _, _, hr, (by simp)⟩⟩
      | some c' =>
        obtain ⟨st', hdw, inv', hlt, hbits, hcur, hpc', hsame, hjacc⟩ :=
          deltaWindow_next st ws (by omega) inv c' hs
        have hc' : c' < 32 := (Lemmas.Delta.facts st.clCur hc (bitsOf st ws)).2 c' hs
        have hl6 : Model.Delta.tL (Model.Delta.peek6 (bitsOf st ws)) ≤ 6 := by
          obtain ⟨b1, b2, b3, b4, b5, b6, hwin⟩ := Lemmas.Delta.win6_cases (bitsOf st ws)
          unfold Model.Delta.peek6; rw [hwin]; exact tL_le6 b1 b2 b3 b4 b5 b6
        have ht' : toTop st ws = toTop st' ws := by
          rw [ht, hdw]; simp only [afterStep]; rw [if_pos hlt]
        have hmeas : 64 * ws.length + st'.w < m := by omega
        have hcur' : st'.clCur < 32 := by rw [hcur]; exact hc'
        simp only
        by_cases hl : Model.Delta.tL (Model.Delta.peek6 (bitsOf st ws)) ≠ 6
        · -- the symbol is finished
          rw [if_pos hl] at hjacc ⊢
          obtain ⟨hj', hacc'⟩ := hjacc
          simp only [Lemmas.Delta.applyW]
          rw [if_pos (by omega)]
          simp only
          have hIH := ih _ hmeas st' ws (Nat.le_refl _) hpc' inv' hcur'
            (by rw [hj', hsame.alphaSize]; omega)
          have htodo : st'.alphaSize - st'.j = n := by rw [hj', hsame.alphaSize]; omega
          rw [htodo, hbits, hcur] at hIH
          obtain ⟨ih1, ih2⟩ := hIH
          constructor
          · intro lens' B' h
            cases hsy : Spec.Delta.syms n c' ((bitsOf st ws).drop (Model.Delta.tL (Model.Delta.peek6 (bitsOf st ws)))) with
            | none => rw [hsy] at h; cases h
            | some p =>
              obtain ⟨ls, r'⟩ := p
              rw [hsy] at h
              simp only [Option.some.injEq, Prod.mk.injEq] at h
              obtain ⟨h1, h2⟩ := h
              subst h1; subst h2
              cases ih1 ls r' hsy with
              | inl hok =>
                obtain ⟨st2, ws2, e1, hd, e2, i2⟩ := hok
                refine Or.inl ⟨st2, ws2, ht'.trans e1, ⟨hd.pc, ?_, ?_, sameRest_trans hsame hd.rest⟩, e2, i2⟩
                · rw [hd.j, hsame.alphaSize]
                · rw [hd.acc, hacc']; simp
              | inr hsu =>
                obtain ⟨⟨s, hs'⟩, hlen⟩ := hsu
                exact Or.inr ⟨⟨s, ht'.trans hs'⟩, hlen⟩
          · intro h
            cases hsy : Spec.Delta.syms n c' ((bitsOf st ws).drop (Model.Delta.tL (Model.Delta.peek6 (bitsOf st ws)))) with
            | some p => rw [hsy] at h; cases h
            | none =>
              cases ih2 hsy with
              | inl hrej =>
                obtain ⟨r, s, rest, e, hne⟩ := hrej
                exact Or.inl ⟨r, s, rest, ht'.trans e, hne⟩
              | inr hsu =>
                obtain ⟨s, hs'⟩ := hsu
                exact Or.inr ⟨s, ht'.trans hs'⟩
        · -- three steps without terminator: same symbol, next window
          have hl' : Model.Delta.tL (Model.Delta.peek6 (bitsOf st ws)) = 6 := by omega
          rw [if_neg hl] at hjacc ⊢
          obtain ⟨hj', hacc'⟩ := hjacc
          simp only [Lemmas.Delta.applyW]
          rw [if_pos (by omega)]
          have hIH := ih _ hmeas st' ws (Nat.le_refl _) hpc' inv' hcur'
            (by rw [hj', hsame.alphaSize]; exact hj)
          have htodo : st'.alphaSize - st'.j = n + 1 := by rw [hj', hsame.alphaSize]; exact hn
          rw [htodo, hbits, hcur, hl', syms_succ] at hIH
          obtain ⟨ih1, ih2⟩ := hIH
          constructor
          · intro lens' B' h
            cases ih1 lens' B' h with
            | inl hok =>
              obtain ⟨st2, ws2, e1, hd, e2, i2⟩ := hok
              refine Or.inl ⟨st2, ws2, ht'.trans e1, ⟨hd.pc, ?_, ?_, sameRest_trans hsame hd.rest⟩, e2, i2⟩
              · rw [hd.j, hsame.alphaSize]
              · rw [hd.acc, hacc']
            | inr hsu =>
              obtain ⟨⟨s, hs'⟩, hlen⟩ := hsu
              exact Or.inr ⟨⟨s, ht'.trans hs'⟩, hlen⟩
          · intro h
            cases ih2 h with
            | inl hrej =>
              obtain ⟨r, s, rest, e, hne⟩ := hrej
              exact Or.inl ⟨r, s, rest, ht'.trans e, hne⟩
            | inr hsu =>
              obtain ⟨s, hs'⟩ := hsu
              exact Or.inr ⟨s, ht'.trans hs'⟩

/-- One window taken inside a step (buffer fill `w ≥ 6`, the step started with
`W ≥ w` live bits), then the rest of the loop: same statement as `delta_loop`. -/
theorem delta_window_loop_b (st : St) (ws : List Nat) (W : Nat) (h6 : 6 ≤ st.w) (hW : st.w ≤ W)
    (inv : BufInv st.v st.w) (hc : st.clCur < 32) (hj : st.j < st.alphaSize) :
    (∀ lens' B', Spec.Delta.syms (st.alphaSize - st.j) st.clCur (bitsOf st ws) = some (lens', B') →
      (∃ st' ws', afterStep W ws (deltaWindow st) = toTop st' ws' ∧ LoopDone st st' lens' ∧
        bitsOf st' ws' = B' ∧ BufInv st'.v st'.w) ∨ (Suspended (afterStep W ws (deltaWindow st)) ∧ B'.length < 32)) ∧
    (Spec.Delta.syms (st.alphaSize - st.j) st.clCur (bitsOf st ws) = none →
      Rejected (afterStep W ws (deltaWindow st)) ∨ Suspended (afterStep W ws (deltaWindow st))) := by
  obtain ⟨n, hn⟩ : ∃ n, st.alphaSize - st.j = n + 1 := ⟨st.alphaSize - st.j - 1, by omega⟩
  rw [hn]
  have hBlen : 6 ≤ (bitsOf st ws).length := by
    unfold bitsOf; rw [List.length_append, bufBits_length]; omega
  rw [syms_succ, Lemmas.Delta.sym_eq_winModel st.clCur hc (bitsOf st ws)]
  unfold Lemmas.Delta.winModel
  cases hs : Model.Delta.stepLen st.clCur (Model.Delta.peek6 (bitsOf st ws)) with
  | none =>
    have hv := deltaWindow_value st ws h6 inv
    simp only [hs] at hv
    have hr : afterStep W ws (deltaWindow st) = .halt (.err Gen.ERR_DELTA) St.blank ws := by rw [hv]; rfl
    simp only [Lemmas.Delta.applyW]
    exact ⟨fun _ _ h => (by cases h), fun _ => Or.inl ⟨_, _, _, hr, (by simp)⟩⟩
  | some c' =>
    obtain ⟨st', hdw, inv', hlt, hbits, hcur, hpc', hsame, hjacc⟩ :=
      deltaWindow_next st ws h6 inv c' hs
    have hc' : c' < 32 := (Lemmas.Delta.facts st.clCur hc (bitsOf st ws)).2 c' hs
    have hl6 : Model.Delta.tL (Model.Delta.peek6 (bitsOf st ws)) ≤ 6 := by
      obtain ⟨b1, b2, b3, b4, b5, b6, hwin⟩ := Lemmas.Delta.win6_cases (bitsOf st ws)
      unfold Model.Delta.peek6; rw [hwin]; exact tL_le6 b1 b2 b3 b4 b5 b6
    have ht' : afterStep W ws (deltaWindow st) = toTop st' ws := by
      rw [hdw]; simp only [afterStep]; rw [if_pos (by omega)]
    have hcur' : st'.clCur < 32 := by rw [hcur]; exact hc'
    simp only
    by_cases hl : Model.Delta.tL (Model.Delta.peek6 (bitsOf st ws)) ≠ 6
    · rw [if_pos hl] at hjacc ⊢
      obtain ⟨hj', hacc'⟩ := hjacc
      simp only [Lemmas.Delta.applyW]
      rw [if_pos (by omega)]
      simp only
      have hIH := delta_loop_b _ st' ws (Nat.le_refl _) hpc' inv' hcur'
        (by rw [hj', hsame.alphaSize]; omega)
      have htodo : st'.alphaSize - st'.j = n := by rw [hj', hsame.alphaSize]; omega
      rw [htodo, hbits, hcur] at hIH
      obtain ⟨ih1, ih2⟩ := hIH
      constructor
      · intro lens' B' h
        cases hsy : Spec.Delta.syms n c' ((bitsOf st ws).drop (Model.Delta.tL (Model.Delta.peek6 (bitsOf st ws)))) with
        | none => rw [hsy] at h; cases h
        | some p =>
          obtain ⟨ls, r'⟩ := p
          rw [hsy] at h
          simp only [Option.some.injEq, Prod.mk.injEq] at h
          obtain ⟨h1, h2⟩ := h
          subst h1; subst h2
          cases ih1 ls r' hsy with
          | inl hok =>
            obtain ⟨st2, ws2, e1, hd, e2, i2⟩ := hok
            refine Or.inl ⟨st2, ws2, ht'.trans e1, ⟨hd.pc, ?_, ?_, sameRest_trans hsame hd.rest⟩, e2, i2⟩
            · rw [hd.j, hsame.alphaSize]
            · rw [hd.acc, hacc']; simp
          | inr hsu =>
            obtain ⟨⟨s, hs'⟩, hlen⟩ := hsu
            exact Or.inr ⟨⟨s, ht'.trans hs'⟩, hlen⟩
      · intro h
        cases hsy : Spec.Delta.syms n c' ((bitsOf st ws).drop (Model.Delta.tL (Model.Delta.peek6 (bitsOf st ws)))) with
        | some p => rw [hsy] at h; cases h
        | none =>
          cases ih2 hsy with
          | inl hrej =>
            obtain ⟨r, s, rest, e, hne⟩ := hrej
            exact Or.inl ⟨r, s, rest, ht'.trans e, hne⟩
          | inr hsu =>
            obtain ⟨s, hs'⟩ := hsu
            exact Or.inr ⟨s, ht'.trans hs'⟩
    · have hl' : Model.Delta.tL (Model.Delta.peek6 (bitsOf st ws)) = 6 := by omega
      rw [if_neg hl] at hjacc ⊢
      obtain ⟨hj', hacc'⟩ := hjacc
      simp only [Lemmas.Delta.applyW]
      rw [if_pos (by omega)]
      have hIH := delta_loop_b _ st' ws (Nat.le_refl _) hpc' inv' hcur'
        (by rw [hj', hsame.alphaSize]; omega)
      have htodo : st'.alphaSize - st'.j = n + 1 := by rw [hj', hsame.alphaSize]; exact hn
      rw [htodo, hbits, hcur, hl', syms_succ] at hIH
      obtain ⟨ih1, ih2⟩ := hIH
      constructor
      · intro lens' B' h
        cases ih1 lens' B' h with
        | inl hok =>
          obtain ⟨st2, ws2, e1, hd, e2, i2⟩ := hok
          refine Or.inl ⟨st2, ws2, ht'.trans e1, ⟨hd.pc, ?_, ?_, sameRest_trans hsame hd.rest⟩, e2, i2⟩
          · rw [hd.j, hsame.alphaSize]
          · rw [hd.acc, hacc']
        | inr hsu =>
          obtain ⟨⟨s, hs'⟩, hlen⟩ := hsu
          exact Or.inr ⟨⟨s, ht'.trans hs'⟩, hlen⟩
      · intro h
        cases ih2 h with
        | inl hrej =>
          obtain ⟨r, s, rest, e, hne⟩ := hrej
          exact Or.inl ⟨r, s, rest, ht'.trans e, hne⟩
        | inr hsu =>
          obtain ⟨s, hs'⟩ := hsu
          exact Or.inr ⟨s, ht'.trans hs'⟩

/-! ### one table, all tables -/

/-- **One table.**  `tableStart` (5-bit start value, first window) inside a
step that began with `W` live bits, then the delta loop under `NEED`: the
machine reads the table iff the reference `Spec.Delta.table` reads it from the
unread bits — same lengths, same rest; otherwise ERR_DELTA (or out of words). -/
theorem table_spec_b (st : St) (ws : List Nat) (W : Nat) (hw : 11 ≤ st.w) (hW : st.w ≤ W)
    (inv : BufInv st.v st.w) (ha : 1 ≤ st.alphaSize) (ht : st.t < st.numTrees) :
    (∀ lens B', Spec.Delta.table st.alphaSize (bitsOf st ws) = some (lens, B') →
      (∃ st' ws', afterStep W ws (tableStart st) = toTop st' ws' ∧ TableDone st st' lens ∧
        bitsOf st' ws' = B' ∧ BufInv st'.v st'.w) ∨ (Suspended (afterStep W ws (tableStart st)) ∧ B'.length < 32)) ∧
    (Spec.Delta.table st.alphaSize (bitsOf st ws) = none →
      Rejected (afterStep W ws (tableStart st)) ∨ Suspended (afterStep W ws (tableStart st))) := by
  have hw64 := inv.wle
  have htake : take st 5 = some (peek st 5, { st with v := dumpV st.v 5, w := st.w - 5 }) := by
    unfold take dump
    rw [if_neg (by omega)]
  obtain ⟨hnum, inv1⟩ : Spec.Delta.takeNum 5 (bitsOf st ws) =
      some (peek st 5, bitsOf { st with v := dumpV st.v 5, w := st.w - 5 } ws) ∧
      BufInv (dumpV st.v 5) (st.w - 5) :=
    ⟨takeNum_value st _ 5 _ ws htake inv, (take_value st _ 5 _ ws htake inv).2⟩
  have hc : peek st 5 < 32 := peek_lt st.v st.w 5 inv (by omega)
  -- the state in which the first window is taken
  have hts : tableStart st = deltaWindow
      { st with v := dumpV st.v 5, w := st.w - 5, j := 0, clCur := peek st 5, clAcc := [] } := by
    unfold tableStart
    rw [if_pos ht, htake]
    simp only
    rw [if_pos (by show 0 < st.alphaSize; omega)]
  rw [hts]
  have hdl := delta_window_loop_b
    { st with v := dumpV st.v 5, w := st.w - 5, j := 0, clCur := peek st 5, clAcc := [] } ws W
    (by show 6 ≤ st.w - 5; omega) (by show st.w - 5 ≤ W; omega) inv1 hc
    (by show 0 < st.alphaSize; omega)
  have hb2 : bitsOf ({ st with v := dumpV st.v 5, w := st.w - 5, j := 0, clCur := peek st 5, clAcc := [] } : St) ws
      = bitsOf { st with v := dumpV st.v 5, w := st.w - 5 } ws := rfl
  have htodo : ({ st with v := dumpV st.v 5, w := st.w - 5, j := 0, clCur := peek st 5, clAcc := [] } : St).alphaSize -
      ({ st with v := dumpV st.v 5, w := st.w - 5, j := 0, clCur := peek st 5, clAcc := [] } : St).j = st.alphaSize := by
    show st.alphaSize - 0 = st.alphaSize; omega
  rw [htodo, hb2] at hdl
  have hcl : ({ st with v := dumpV st.v 5, w := st.w - 5, j := 0, clCur := peek st 5, clAcc := [] } : St).clCur = peek st 5 := rfl
  rw [hcl] at hdl
  obtain ⟨d1, d2⟩ := hdl
  unfold Spec.Delta.table
  rw [hnum]
  simp only
  obtain ⟨m, hm⟩ : ∃ m, st.alphaSize = m + 1 := ⟨st.alphaSize - 1, by omega⟩
  cases hr : Spec.Delta.inRange (peek st 5) with
  | false =>
    have hnone := Lemmas.Delta.syms_not_inRange m (peek st 5)
      (bitsOf { st with v := dumpV st.v 5, w := st.w - 5 } ws) hr
    rw [← hm] at hnone
    simp only [Bool.false_eq_true, if_false]
    exact ⟨fun _ _ h => (by cases h), fun _ => d2 hnone⟩
  | true =>
    simp only [if_true]
    refine ⟨fun lens B' h => ?_, d2⟩
    cases d1 lens B' h with
    | inl hok =>
      obtain ⟨st', ws', e1, hd, e2, i2⟩ := hok
      refine Or.inl ⟨st', ws', e1, ⟨hd.pc, hd.j, ?_, ?_⟩, e2, i2⟩
      · rw [hd.acc]; simp
      · exact ⟨hd.rest.rand, hd.rest.bwtIdx, hd.rest.big, hd.rest.small, hd.rest.alphaSize,
          hd.rest.t, hd.rest.g, hd.rest.numTrees, hd.rest.numSel, hd.rest.selector, hd.rest.mtf,
          hd.rest.trees, hd.rest.cmap, hd.rest.run⟩
    | inr hsu => exact Or.inr hsu

/-- **All tables.**  From the end of a table's delta loop (`make_tree` pending)
with `k` more tables to come: the machine reaches the top of the group loop
iff the reference reads `k` tables from the unread bits, with `make_tree`
applied to exactly the reference's length lists and exactly the reference's
unread bits left; otherwise ERR_DELTA / out of words. -/
theorem tables_spec_b : ∀ (k : Nat) (c : St) (ws : List Nat) (lens0 : List Nat),
    c.pc = .deltaTag → c.j = c.alphaSize → c.clAcc = lens0.reverse → BufInv c.v c.w →
    1 ≤ c.alphaSize → c.t + 1 + k = c.numTrees →
    (∀ tabs B', specTables c.alphaSize k (bitsOf c ws) = some (tabs, B') →
      (∃ s rest, toTop c ws = .top s rest ∧ TopOk c s (lens0 :: tabs) ∧ bitsOf s rest = B' ∧
        BufInv s.v s.w) ∨ (Suspended (toTop c ws) ∧ B'.length < 32)) ∧
    (specTables c.alphaSize k (bitsOf c ws) = none →
      Rejected (toTop c ws) ∨ Suspended (toTop c ws)) := by
  intro k
  induction k with
  | zero =>
    intro c ws lens0 hpc hj hacc inv ha ht
    have hnorm : normPc c = c := by unfold normPc; rw [if_neg (by rw [hpc]; simp)]
    cases need_ready_b c ws hnorm inv with
    | inl hsu => exact ⟨fun _ _ h => Or.inr ⟨hsu.1, by have := specTables_len _ _ _ _ _ h; omega⟩, fun _ => Or.inr hsu.1⟩
    | inr hr =>
      obtain ⟨v1, w1, ws1, e1, hw1, hb1, inv1, _⟩ := hr
      -- the state after NEED, as an atom
      have q_pc : ({ c with v := v1, w := w1 } : St).pc = .deltaTag := hpc
      have q_j : ¬ ({ c with v := v1, w := w1 } : St).j < ({ c with v := v1, w := w1 } : St).alphaSize := by
        show ¬ c.j < c.alphaSize; omega
      have q_acc : ({ c with v := v1, w := w1 } : St).clAcc = lens0.reverse := hacc
      have q_w : ({ c with v := v1, w := w1 } : St).w = w1 := rfl
      have q_v : ({ c with v := v1, w := w1 } : St).v = v1 := rfl
      have q_t : ({ c with v := v1, w := w1 } : St).t = c.t := rfl
      have q_nt : ({ c with v := v1, w := w1 } : St).numTrees = c.numTrees := rfl
      have q_mtf : ({ c with v := v1, w := w1 } : St).mtf = c.mtf := rfl
      have q_trees : ({ c with v := v1, w := w1 } : St).trees = c.trees := rfl
      have q_cmap : ({ c with v := v1, w := w1 } : St).cmap = c.cmap := rfl
      have q_run : ({ c with v := v1, w := w1 } : St).run = c.run := rfl
      have q_ns : ({ c with v := v1, w := w1 } : St).numSel = c.numSel := rfl
      have q_rand : ({ c with v := v1, w := w1 } : St).rand = c.rand := rfl
      have q_bi : ({ c with v := v1, w := w1 } : St).bwtIdx = c.bwtIdx := rfl
      have q_al : ({ c with v := v1, w := w1 } : St).alphaSize = c.alphaSize := rfl
      have q_sel : ({ c with v := v1, w := w1 } : St).selector = c.selector := rfl
      generalize ({ c with v := v1, w := w1 } : St) = c1 at *
      obtain ⟨ft, fm, ftr⟩ := finishTable_eq c1 lens0 q_acc
      have hstep : step c1 = groupsInit (finishTable c1) := by
        unfold step
        rw [q_pc]
        unfold stepDeltaTag
        rw [if_neg q_j]
        unfold tableStart
        rw [if_neg (by rw [ft, q_t]; unfold finishTable; show ¬ c.t + 1 < c1.numTrees; rw [q_nt]; omega)]
      obtain ⟨rs, hrs⟩ : ∃ rs, Model.MtfDec.initRun (Model.MtfDec.slideOf c.cmap) = some rs :=
        ⟨_, Lemmas.MtfRun.initRun_spec _ (Lemmas.MtfOne.inv_slideOf c.cmap)⟩
      have hcm : (finishTable c1).cmap = c.cmap := by rw [← q_cmap]; unfold finishTable; rfl
      have hgi : groupsInit (finishTable c1) =
          .top { finishTable c1 with
            run := { rs with n := (finishTable c1).run.n, out := (finishTable c1).run.out },
            numSel := min (finishTable c1).numSel Gen.selectorBound,
            g := 0, j := 0, pc := .prefix } := by
        have hrs' : Model.MtfDec.initRun (Model.MtfDec.slideOf (finishTable c1).cmap) = some rs := by
          rw [hcm]; exact hrs
        unfold groupsInit
        rw [hrs']
      have htop : toTop c ws = .top { finishTable c1 with
            run := { rs with n := (finishTable c1).run.n, out := (finishTable c1).run.out },
            numSel := min (finishTable c1).numSel Gen.selectorBound,
            g := 0, j := 0, pc := .prefix } ws1 := by
        rw [e1, toTop_step' _ _ (by rw [q_w]; exact hw1), hstep, hgi]; rfl
      constructor
      · intro tabs B' h
        simp only [specTables, Option.some.injEq, Prod.mk.injEq] at h
        obtain ⟨h1, h2⟩ := h
        subst h1; subst h2
        refine Or.inl ⟨_, ws1, htop, ?_, ?_, ?_⟩
        · refine ⟨rfl, rfl, rfl, ?_, ?_, ⟨rs, hrs, ?_⟩, ?_, ?_, ?_, ?_, ?_, ?_⟩
          · show min (finishTable c1).numSel Gen.selectorBound = _
            rw [← q_ns]; unfold finishTable; rfl
          · simp only [applyTables]
            show ((finishTable c1).t, (finishTable c1).mtf, (finishTable c1).trees) = _
            rw [ft, fm, ftr, q_t, q_mtf, q_trees]
          · show ({ rs with n := (finishTable c1).run.n, out := (finishTable c1).run.out } : Model.MtfDec.RunSt) = _
            rw [← q_run]; unfold finishTable; rfl
          · show (finishTable c1).rand = _; rw [← q_rand]; unfold finishTable; rfl
          · show (finishTable c1).bwtIdx = _; rw [← q_bi]; unfold finishTable; rfl
          · show (finishTable c1).alphaSize = _; rw [← q_al]; unfold finishTable; rfl
          · show (finishTable c1).numTrees = _; rw [← q_nt]; unfold finishTable; rfl
          · show (finishTable c1).selector = _; rw [← q_sel]; unfold finishTable; rfl
          · show (finishTable c1).cmap = _; exact hcm
        · rw [← hb1]
          show bufBits (finishTable c1).v (finishTable c1).w ++ _ = _
          unfold finishTable; rfl
        · show BufInv (finishTable c1).v (finishTable c1).w
          have : (finishTable c1).v = v1 ∧ (finishTable c1).w = w1 := by
            rw [← q_v, ← q_w]; unfold finishTable; exact ⟨rfl, rfl⟩
          rw [this.1, this.2]; exact inv1
      · intro h; simp [specTables] at h
  | succ k ih =>
    intro c ws lens0 hpc hj hacc inv ha ht
    have hnorm : normPc c = c := by unfold normPc; rw [if_neg (by rw [hpc]; simp)]
    cases need_ready_b c ws hnorm inv with
    | inl hsu => exact ⟨fun _ _ h => Or.inr ⟨hsu.1, by have := specTables_len _ _ _ _ _ h; omega⟩, fun _ => Or.inr hsu.1⟩
    | inr hr =>
      obtain ⟨v1, w1, ws1, e1, hw1, hb1, inv1, _⟩ := hr
      have q_pc : ({ c with v := v1, w := w1 } : St).pc = .deltaTag := hpc
      have q_j : ¬ ({ c with v := v1, w := w1 } : St).j < ({ c with v := v1, w := w1 } : St).alphaSize := by
        show ¬ c.j < c.alphaSize; omega
      have q_acc : ({ c with v := v1, w := w1 } : St).clAcc = lens0.reverse := hacc
      have q_w : ({ c with v := v1, w := w1 } : St).w = w1 := rfl
      have q_v : ({ c with v := v1, w := w1 } : St).v = v1 := rfl
      have q_t : ({ c with v := v1, w := w1 } : St).t = c.t := rfl
      have q_nt : ({ c with v := v1, w := w1 } : St).numTrees = c.numTrees := rfl
      have q_mtf : ({ c with v := v1, w := w1 } : St).mtf = c.mtf := rfl
      have q_trees : ({ c with v := v1, w := w1 } : St).trees = c.trees := rfl
      have q_cmap : ({ c with v := v1, w := w1 } : St).cmap = c.cmap := rfl
      have q_run : ({ c with v := v1, w := w1 } : St).run = c.run := rfl
      have q_ns : ({ c with v := v1, w := w1 } : St).numSel = c.numSel := rfl
      have q_rand : ({ c with v := v1, w := w1 } : St).rand = c.rand := rfl
      have q_bi : ({ c with v := v1, w := w1 } : St).bwtIdx = c.bwtIdx := rfl
      have q_al : ({ c with v := v1, w := w1 } : St).alphaSize = c.alphaSize := rfl
      have q_sel : ({ c with v := v1, w := w1 } : St).selector = c.selector := rfl
      generalize ({ c with v := v1, w := w1 } : St) = c1 at *
      obtain ⟨ft, fm, ftr⟩ := finishTable_eq c1 lens0 q_acc
      have hfv : (finishTable c1).v = v1 := by rw [← q_v]; unfold finishTable; rfl
      have hfw : (finishTable c1).w = w1 := by rw [← q_w]; unfold finishTable; rfl
      have hfa : (finishTable c1).alphaSize = c.alphaSize := by rw [← q_al]; unfold finishTable; rfl
      have hfn : (finishTable c1).numTrees = c.numTrees := by rw [← q_nt]; unfold finishTable; rfl
      have hfb : bitsOf (finishTable c1) ws1 = bitsOf c ws := by
        rw [← hb1]; unfold bitsOf; rw [hfv, hfw, q_v, q_w]
      have hstep : step c1 = tableStart (finishTable c1) := by
        unfold step
        rw [q_pc]
        unfold stepDeltaTag
        rw [if_neg q_j]
      have e2 : toTop c ws = afterStep w1 ws1 (tableStart (finishTable c1)) := by
        rw [e1, toTop_step' _ _ (by rw [q_w]; exact hw1), hstep, q_w]
      have hts := table_spec_b (finishTable c1) ws1 w1
        (by rw [hfw]; omega) (by rw [hfw]; omega) (by rw [hfv, hfw]; exact inv1) (by rw [hfa]; exact ha)
        (by rw [ft, hfn, q_t]; omega)
      rw [hfa, hfb] at hts
      obtain ⟨t1, t2⟩ := hts
      rw [e2]
      simp only [specTables]
      cases htab : Spec.Delta.table c.alphaSize (bitsOf c ws) with
      | none =>
        simp only
        exact ⟨fun _ _ h => (by cases h), fun _ => t2 htab⟩
      | some p =>
        obtain ⟨l, B1⟩ := p
        simp only
        cases t1 l B1 htab with
        | inr hsu =>
          refine ⟨fun tabs B' h => Or.inr ⟨hsu.1, ?_⟩, fun _ => Or.inr hsu.1⟩
          cases hsp : specTables c.alphaSize k B1 with
          | none => rw [hsp] at h; cases h
          | some q =>
            obtain ⟨ls, B2⟩ := q
            rw [hsp] at h
            simp only [Option.some.injEq, Prod.mk.injEq] at h
            have := specTables_len _ _ _ _ _ hsp
            rw [← h.2]; omega
        | inl hok =>
          obtain ⟨st', ws', e3, hd, hb3, inv3⟩ := hok
          have hIH := ih st' ws' l hd.pc (by rw [hd.j, hfa, hd.rest.alphaSize, hfa]) hd.acc inv3
            (by rw [hd.rest.alphaSize, hfa]; exact ha)
            (by rw [hd.rest.t, ft, hd.rest.numTrees, hfn, q_t]; omega)
          rw [hd.rest.alphaSize, hfa, hb3] at hIH
          obtain ⟨i1, i2⟩ := hIH
          rw [e3]
          constructor
          · intro tabs B' h
            cases hsp : specTables c.alphaSize k B1 with
            | none => rw [hsp] at h; cases h
            | some q =>
              obtain ⟨ls, B2⟩ := q
              rw [hsp] at h
              simp only [Option.some.injEq, Prod.mk.injEq] at h
              obtain ⟨h1, h2⟩ := h
              subst h1; subst h2
              cases i1 ls B2 hsp with
              | inr hsu => exact Or.inr hsu
              | inl hok2 =>
                obtain ⟨s, rest, e4, htk, hb4, inv4⟩ := hok2
                refine Or.inl ⟨s, rest, e4, ?_, hb4, inv4⟩
                have hcm : (finishTable c1).cmap = c.cmap := by rw [← q_cmap]; unfold finishTable; rfl
                have hrn : (finishTable c1).run = c.run := by rw [← q_run]; unfold finishTable; rfl
                have hns : (finishTable c1).numSel = c.numSel := by rw [← q_ns]; unfold finishTable; rfl
                have hra : (finishTable c1).rand = c.rand := by rw [← q_rand]; unfold finishTable; rfl
                have hbi : (finishTable c1).bwtIdx = c.bwtIdx := by rw [← q_bi]; unfold finishTable; rfl
                have hse : (finishTable c1).selector = c.selector := by rw [← q_sel]; unfold finishTable; rfl
                refine ⟨htk.pc, htk.j, htk.g, ?_, ?_, ?_, ?_, ?_, ?_, ?_, ?_, ?_⟩
                · rw [htk.numSel, hd.rest.numSel, hns]
                · rw [htk.tt, hd.rest.t, hd.rest.mtf, hd.rest.trees, ft, fm, ftr, q_t, q_mtf, q_trees]
                  simp only [applyTables]
                · obtain ⟨rs, h1, h2⟩ := htk.run
                  rw [hd.rest.cmap, hcm] at h1
                  rw [hd.rest.run, hrn] at h2
                  exact ⟨rs, h1, h2⟩
                · rw [htk.rand, hd.rest.rand, hra]
                · rw [htk.bwtIdx, hd.rest.bwtIdx, hbi]
                · rw [htk.alphaSize, hd.rest.alphaSize, hfa]
                · rw [htk.numTrees, hd.rest.numTrees, hfn]
                · rw [htk.selector, hd.rest.selector, hse]
                · rw [htk.cmap, hd.rest.cmap, hcm]
          · intro h
            cases hsp : specTables c.alphaSize k B1 with
            | some q => rw [hsp] at h; cases h
            | none => exact i2 hsp

end LbzVerif.Lemmas.HeaderBudget
