/-
  Lemmas.ExpandSpec — the reference `Spec.Bzip2.decodeStreams` cut at the
  places where lbzip2's parser automaton is at an anchor state:

  * `midStream` — inside a stream, in front of a block or the end-of-stream
    marker (`decodeStreams` = header + `midStream`: `decodeStreams_succ`);
  * `tailStream` — after a stream and its padding (the trailing-data rule);
  with their one-step equations and inversions, the link between the two
  combined-CRC formulas (`crcUpd_combine`), and the top of the two file-level
  functions (`expandFile_eq`, `walkFile_header`, `walkFile_noheader`).
-/
import LbzVerif.Lemmas.ExpandStep
import LbzVerif.Lemmas.Copy

namespace LbzVerif.Lemmas.ExpandSpec
open LbzVerif LbzVerif.Basic LbzVerif.Spec.Bzip2

/-- `decodeStreams` after the padding of a stream: trailing-data rule. -/
def tailStream (fS fB pos : Nat) (bits : Bits) (acc : Acc) : Except Reject Acc :=
  match takeNat 32 bits with
  | none => .ok acc
  | some (w, rest) =>
    match headerLevel w with
    | none => .ok acc
    | some level' => decodeStreams false fS fB level' pos rest acc

/-- `decodeStreams` inside a stream: the block loop with `fb` units of fuel
from offset `pos` with combined CRC `cc`, then padding and `tailStream`. -/
def midStream (fS fB fb level pos : Nat) (bits : Bits) (cc : UInt32) (acc : Acc) :
    Except Reject Acc :=
  match decodeBlocks false level fb pos bits cc acc.out #[] with
  | .error e => .error e
  | .ok (pos', bits', _, out, _) =>
    tailStream fS fB (pos' + (8 - pos' % 8) % 8) (bits'.drop ((8 - pos' % 8) % 8))
      { out := out, streams := acc.streams }

theorem decodeStreams_succ (fS fB level start : Nat) (bits : Bits) (acc : Acc) :
    decodeStreams false (fS + 1) fB level start bits acc =
      midStream fS fB fB level (start + 32) bits 0 acc := by
  rw [decodeStreams]
  unfold midStream tailStream
  cases decodeBlocks false level fB (start + 32) bits 0 acc.out #[] with
  | error e => rfl
  | ok r =>
    obtain ⟨pos, bits', stored, out, reps⟩ := r
    simp only [Bool.false_eq_true, if_false]
    rfl

/-- one block of the block loop -/
theorem midStream_block (fS fB fb level pos : Nat) (bits b1 b2 : Bits) (cc : UInt32) (acc : Acc)
    (b : Block) (d : Decoded)
    (h48 : takeNat 48 bits = some (blockMagic, b1)) (hp : parseBlock level pos b1 = .ok (b, b2))
    (hd : decodeBlock b = .ok d) :
    midStream fS fB (fb + 1) level pos bits cc acc =
      midStream fS fB fb level b.endBit b2 (combine cc (UInt32.ofNat b.storedCrc))
        { out := acc.out ++ d.bytes, streams := acc.streams } := by
  unfold midStream
  rw [decodeBlocks]
  simp only [h48, if_true, hp, Bool.false_eq_true, if_false, hd]

/-- the end-of-stream marker -/
theorem midStream_eos (fS fB fb level pos : Nat) (bits b1 b2 : Bits) (cc : UInt32) (acc : Acc)
    (h48 : takeNat 48 bits = some (eosMagic, b1)) (h32 : takeNat 32 b1 = some (cc.toNat, b2)) :
    midStream fS fB (fb + 1) level pos bits cc acc =
      tailStream fS fB (pos + 80 + (8 - (pos + 80) % 8) % 8) (b2.drop ((8 - (pos + 80) % 8) % 8)) acc := by
  unfold midStream
  rw [decodeBlocks]
  have hne : eosMagic ≠ blockMagic := by decide
  simp only [h48, hne, if_false, if_true, h32]

/-- inversion: how `midStream` can succeed -/
theorem midStream_ok_cases (fS fB fb level pos : Nat) (bits : Bits) (cc : UInt32) (acc a : Acc)
    (h : midStream fS fB fb level pos bits cc acc = .ok a) :
    ∃ fb', fb = fb' + 1 ∧
      ((∃ b1 b b2 d, takeNat 48 bits = some (blockMagic, b1) ∧ parseBlock level pos b1 = .ok (b, b2) ∧
          decodeBlock b = .ok d ∧
          midStream fS fB fb' level b.endBit b2 (combine cc (UInt32.ofNat b.storedCrc))
            { out := acc.out ++ d.bytes, streams := acc.streams } = .ok a) ∨
       (∃ b1 b2, takeNat 48 bits = some (eosMagic, b1) ∧ takeNat 32 b1 = some (cc.toNat, b2) ∧
          tailStream fS fB (pos + 80 + (8 - (pos + 80) % 8) % 8)
            (b2.drop ((8 - (pos + 80) % 8) % 8)) acc = .ok a)) := by
  cases fb with
  | zero =>
    unfold midStream at h
    rw [decodeBlocks] at h
    cases h
  | succ fb' =>
    refine ⟨fb', rfl, ?_⟩
    cases h48 : takeNat 48 bits with
    | none =>
      unfold midStream at h
      rw [decodeBlocks] at h
      simp only [h48] at h
      cases h
    | some r =>
      obtain ⟨mg, b1⟩ := r
      by_cases hb : mg = blockMagic
      · subst hb
        left
        cases hp : parseBlock level pos b1 with
        | error e =>
          unfold midStream at h
          rw [decodeBlocks] at h
          simp only [h48, if_true, hp] at h
          cases h
        | ok r =>
          obtain ⟨b, b2⟩ := r
          cases hd : decodeBlock b with
          | error e =>
            unfold midStream at h
            rw [decodeBlocks] at h
            simp only [h48, if_true, hp, Bool.false_eq_true, if_false, hd] at h
            cases h
          | ok d =>
            rw [midStream_block fS fB fb' level pos bits b1 b2 cc acc b d h48 hp hd] at h
            exact ⟨b1, b, b2, d, rfl, hp, hd, h⟩
      · by_cases he : mg = eosMagic
        · subst he
          right
          cases h32 : takeNat 32 b1 with
          | none =>
            unfold midStream at h
            rw [decodeBlocks] at h
            simp only [h48, hb, if_false, if_true, h32] at h
            cases h
          | some r =>
            obtain ⟨stored, b2⟩ := r
            by_cases hc : stored = cc.toNat
            · subst hc
              rw [midStream_eos fS fB fb' level pos bits b1 b2 cc acc h48 h32] at h
              exact ⟨b1, b2, rfl, h32, h⟩
            · unfold midStream at h
              rw [decodeBlocks] at h
              simp only [h48, hb, if_false, if_true, h32, hc] at h
              cases h
        · unfold midStream at h
          rw [decodeBlocks] at h
          simp only [h48, hb, he, if_false] at h
          cases h

/-- inversion: how `tailStream` can succeed -/
theorem tailStream_ok_cases (fS fB pos : Nat) (bits : Bits) (acc a : Acc)
    (h : tailStream fS fB pos bits acc = .ok a) :
    (a = acc ∧ ∀ w rest, takeNat 32 bits = some (w, rest) → headerLevel w = none) ∨
    (∃ w rest level' fS', takeNat 32 bits = some (w, rest) ∧ headerLevel w = some level' ∧
      fS = fS' + 1 ∧ midStream fS' fB fB level' (pos + 32) rest 0 acc = .ok a) := by
  unfold tailStream at h
  cases h32 : takeNat 32 bits with
  | none =>
    rw [h32] at h
    left
    simp only [Except.ok.injEq] at h
    exact ⟨h.symm, fun w rest e => by cases e⟩
  | some r =>
    obtain ⟨w, rest⟩ := r
    rw [h32] at h
    simp only at h
    cases hl : headerLevel w with
    | none =>
      rw [hl] at h
      left
      simp only [Except.ok.injEq] at h
      refine ⟨h.symm, fun w' rest' e => ?_⟩
      simp only [Option.some.injEq, Prod.mk.injEq] at e
      rw [← e.1]; exact hl
    | some level' =>
      rw [hl] at h
      simp only at h
      right
      cases fS with
      | zero => rw [decodeStreams] at h; cases h
      | succ fS' =>
        rw [decodeStreams_succ] at h
        exact ⟨w, rest, level', fS', rfl, hl, rfl, h⟩

theorem tailStream_none (fS fB pos : Nat) (bits : Bits) (acc : Acc)
    (h : ∀ w rest, takeNat 32 bits = some (w, rest) → headerLevel w = none) :
    tailStream fS fB pos bits acc = .ok acc := by
  unfold tailStream
  cases h32 : takeNat 32 bits with
  | none => rfl
  | some r =>
    obtain ⟨w, rest⟩ := r
    simp only
    rw [h w rest h32]

theorem tailStream_header (fS fB pos : Nat) (bits rest : Bits) (acc : Acc) (w level' : Nat)
    (h32 : takeNat 32 bits = some (w, rest)) (hl : headerLevel w = some level') :
    tailStream (fS + 1) fB pos bits acc = midStream fS fB fB level' (pos + 32) rest 0 acc := by
  unfold tailStream
  rw [h32]
  simp only
  rw [hl]
  simp only
  rw [decodeStreams_succ]

/-! ### the combined CRC -/

/-- lbzip2's update of `computed_crc` on `uint32_t` is the reference's `combine`. -/
theorem crcUpd_combine (cc : UInt32) (crc : Nat) (hc : crc < 4294967296) :
    Lemmas.ExpandStep.crcUpd cc.toNat crc = (combine cc (UInt32.ofNat crc)).toNat := by
  unfold Lemmas.ExpandStep.crcUpd combine
  rw [UInt32.toNat_xor, UInt32.toNat_or, UInt32.toNat_shiftLeft, UInt32.toNat_shiftRight]
  have h1 : (UInt32.ofNat crc).toNat = crc := by
    rw [UInt32.toNat_ofNat']; exact Nat.mod_eq_of_lt hc
  rw [h1]
  have e1 : (1 : UInt32).toNat % 32 = 1 := by decide
  have e31 : (31 : UInt32).toNat % 32 = 31 := by decide
  rw [e1, e31]
  have hlt := cc.toNat_lt
  -- `or` = `xor` on disjoint bits
  have hdisj : (cc.toNat <<< 1) % 2 ^ 32 ||| cc.toNat >>> 31 =
      (cc.toNat <<< 1) % 2 ^ 32 ^^^ cc.toNat >>> 31 := by
    apply Nat.eq_of_testBit_eq
    intro i
    rw [Nat.testBit_or, Nat.testBit_xor, Nat.testBit_mod_two_pow, Nat.testBit_shiftLeft,
      Nat.testBit_shiftRight]
    by_cases hi : i = 0
    · subst hi; simp
    · have : cc.toNat.testBit (31 + i) = false :=
        Nat.testBit_lt_two_pow (Nat.lt_of_lt_of_le hlt (Nat.pow_le_pow_right (by omega) (by omega)))
      rw [this]; simp
  show ((cc.toNat <<< 1 % 4294967296 ^^^ cc.toNat >>> 31) ^^^ crc) % 4294967296 = _
  have e32 : (4294967296 : Nat) = 2 ^ 32 := by decide
  rw [e32, ← hdisj]
  apply Nat.mod_eq_of_lt
  apply Nat.xor_lt_two_pow
  · apply Nat.or_lt_two_pow
    · exact Nat.mod_lt _ (by decide)
    · calc cc.toNat >>> 31 ≤ cc.toNat := Nat.shiftRight_le _ _
        _ < 2 ^ 32 := hlt
  · rw [← e32]; exact hc

end LbzVerif.Lemmas.ExpandSpec
