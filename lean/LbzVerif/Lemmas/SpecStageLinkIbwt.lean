/-
  Lemmas.SpecStageLinkIbwt — the oracle's inverse BWT (`Spec.Bzip2.ibwt`:
  counting sort `ibwtPerm` over arrays, then `ibwtWalk`) is W12's textbook
  `Spec.Ibwt.ibwt` (stable insertion sort `succVec`, then `follow`), for every
  last column and every primary index below its length.

  Route: `bucketStarts l` = the cumulated byte counts (`cntLt`); the counting
  sort stores `i` at slot `pos L i` (same invariant as the list construction of
  `decode()`); `pos` is onto and inverted by `succVec` (Lemmas/IbwtSort.lean),
  so `(ibwtPerm l).toList = succVec l.toList`; the two walks are the same
  recursion.
-/
import LbzVerif.Spec.Bzip2
import LbzVerif.Lemmas.IbwtSort

namespace LbzVerif.Lemmas.SpecStageLinkIbwt

open LbzVerif
open LbzVerif.Model.Ibwt
open LbzVerif.Lemmas.Ibwt
open LbzVerif.Lemmas.IbwtSort
open LbzVerif.Spec.Ibwt (succVec follow)

/-! ### Array helpers -/

theorem arr_getD_set_eq (a : Array Nat) (i v : Nat) (h : i < a.size) :
    (a.setIfInBounds i v).getD i 0 = v := by
  simp [Array.getD_eq_getD_getElem?, h]

theorem arr_getD_set_ne (a : Array Nat) (i j v : Nat) (h : i ≠ j) :
    (a.setIfInBounds i v).getD j 0 = a.getD j 0 := by
  simp [Array.getD_eq_getD_getElem?, h]

theorem arr_getD_toList {α : Type} (a : Array α) (i : Nat) (d : α) :
    a.toList.getD i d = a.getD i d := by
  simp [Array.getD_eq_getD_getElem?, List.getD_eq_getElem?_getD]

/-! ### `bucketStarts` -/

/-- the counting step of `bucketStarts` -/
def cstep (c : Array Nat) (b : UInt8) : Array Nat :=
  c.setIfInBounds b.toNat (c.getD b.toNat 0 + 1)

theorem count_fold : ∀ (L : List UInt8) (c : Array Nat), c.size = 256 →
    (L.foldl cstep c).size = 256 ∧
      ∀ v, v < 256 → (L.foldl cstep c).getD v 0 = c.getD v 0 + cntEq L v := by
  intro L
  induction L with
  | nil => intro c hc; exact ⟨hc, fun v _ => by simp [cntEq_nil]⟩
  | cons x xs ih =>
    intro c hc
    have hx : x.toNat < 256 := x.toNat_lt
    obtain ⟨h1, h2⟩ := ih (cstep c x) (by simp [cstep, hc])
    simp only [List.foldl_cons]
    refine ⟨h1, fun v hv => ?_⟩
    rw [h2 v hv, cntEq_cons]
    by_cases hxv : x.toNat = v
    · subst hxv
      rw [cstep, arr_getD_set_eq _ _ _ (by omega)]
      simp; omega
    · rw [cstep, arr_getD_set_ne _ _ _ _ hxv]
      simp [hxv]

/-- the prefix-sum step of `bucketStarts` -/
def pstep (acc : Array Nat × Nat) (c : Nat) : Array Nat × Nat := (acc.1.push acc.2, acc.2 + c)

theorem prefix_fold : ∀ (cs : List Nat) (acc : Array Nat) (s : Nat),
    (cs.foldl pstep (acc, s)).1.toList = acc.toList ++ cumulate s cs := by
  intro cs
  induction cs with
  | nil => intro acc s; simp [cumulate]
  | cons c cs ih =>
    intro acc s
    simp only [List.foldl_cons, pstep, ih, cumulate]
    simp

theorem bucketStarts_toList (l : Array UInt8) :
    (Spec.Bzip2.bucketStarts l).toList = cumulate 0 (counts l.toList) := by
  have hc := count_fold l.toList (Array.replicate 256 0) (by simp)
  have hcounts : (l.toList.foldl cstep (Array.replicate 256 0)).toList = counts l.toList := by
    rw [counts_eq]
    apply List.ext_getElem
    · rw [Array.length_toList, hc.1]; simp
    · intro i h1 h2
      have hi : i < 256 := by rw [Array.length_toList, hc.1] at h1; exact h1
      have h3 := hc.2 i hi
      have hsz : i < (l.toList.foldl cstep (Array.replicate 256 0)).size := by
        rw [hc.1]; exact hi
      rw [Array.getD_eq_getD_getElem?, Array.getElem?_eq_getElem hsz, Option.getD_some] at h3
      rw [Array.getElem_toList, h3]
      simp [Array.getD_eq_getD_getElem?, hi]
  show ((l.foldl cstep (Array.replicate 256 0)).foldl pstep (Array.mkEmpty 256, 0)).1.toList = _
  rw [← Array.foldl_toList, ← Array.foldl_toList, prefix_fold, hcounts]
  simp

theorem bucketStarts_spec (l : Array UInt8) :
    (Spec.Bzip2.bucketStarts l).size = 256 ∧
      ∀ b, b < 256 → (Spec.Bzip2.bucketStarts l).getD b 0 = cntLt l.toList b := by
  obtain ⟨h1, h2⟩ := cumulate_counts l.toList
  have := bucketStarts_toList l
  constructor
  · rw [← Array.length_toList, this, h1]
  · intro b hb
    rw [← arr_getD_toList, this, h2 b hb]

/-! ### The counting sort -/

/-- the placement step of `ibwtPerm` -/
def sstep (s : Array Nat × Array Nat × Nat) (b : UInt8) : Array Nat × Array Nat × Nat :=
  let p := s.1.getD b.toNat 0
  (s.1.setIfInBounds b.toNat (p + 1), s.2.1.setIfInBounds p s.2.2, s.2.2 + 1)

/-- State of the counting sort after `k` positions. -/
structure Pk (L : List UInt8) (s : Array Nat × Array Nat × Nat) (k : Nat) : Prop where
  stSize : s.1.size = 256
  st : ∀ b, b < 256 → s.1.getD b 0 = cntLt L b + cntEq (L.take k) b
  outSize : s.2.1.size = L.length
  out : ∀ j, j < k → s.2.1.getD (pos L j) 0 = j
  ctr : s.2.2 = k

theorem sstep_inv (L : List UInt8) (s : Array Nat × Array Nat × Nat) (k : Nat)
    (hk : k < L.length) (h : Pk L s k) : Pk L (sstep s (L.getD k 0)) (k + 1) := by
  have hb : byteAt L k < 256 := byteAt_lt L k
  have hp : s.1.getD (byteAt L k) 0 = pos L k := by rw [h.st _ hb]; rfl
  have hpl := pos_lt L k hk
  have hbk : (L.getD k 0).toNat = byteAt L k := rfl
  simp only [sstep, hbk, hp, h.ctr]
  refine ⟨by simp [h.stSize], ?_, by simp [h.outSize], ?_, rfl⟩
  · intro b hb'
    rw [cntEq_take_succ L k hk b]
    by_cases hbb : byteAt L k = b
    · subst hbb
      rw [arr_getD_set_eq _ _ _ (by rw [h.stSize]; exact hb)]
      have := h.st _ hb
      rw [hp] at this
      simp; omega
    · rw [arr_getD_set_ne _ _ _ _ hbb, h.st b hb']
      simp [hbb]
  · intro j hj
    by_cases hjk : j = k
    · subst hjk
      exact arr_getD_set_eq _ _ _ (by rw [h.outSize]; exact hpl)
    · have hne : pos L k ≠ pos L j :=
        fun e => hjk (pos_inj L j k (by omega) hk e.symm)
      rw [arr_getD_set_ne _ _ _ _ hne]
      exact h.out j (by omega)

theorem sfold_inv (L : List UInt8) : ∀ (suf : List UInt8) (k : Nat)
    (s : Array Nat × Array Nat × Nat), k ≤ L.length → L.drop k = suf → Pk L s k →
      Pk L (suf.foldl sstep s) L.length := by
  intro suf
  induction suf with
  | nil =>
    intro k s hkn hd h
    have hk : L.length ≤ k := by
      have := congrArg List.length hd
      simp at this; omega
    have : k = L.length := by omega
    subst this
    simpa using h
  | cons x suf ih =>
    intro k s _ hd h
    have hk : k < L.length := by
      rcases Nat.lt_or_ge k L.length with h' | h'
      · exact h'
      · rw [List.drop_eq_nil_of_le h'] at hd; cases hd
    rw [List.drop_eq_getElem_cons hk] at hd
    injection hd with hx hs
    have hx' : L.getD k 0 = x := by
      rw [← hx]; simp [List.getD_eq_getElem?_getD, List.getElem?_eq_getElem hk]
    simp only [List.foldl_cons]
    rw [← hx']
    exact ih (k + 1) _ (by omega) hs (sstep_inv L s k hk h)

/-- The counting sort puts `i` into slot `pos L i`. -/
theorem ibwtPerm_spec (l : Array UInt8) :
    (Spec.Bzip2.ibwtPerm l).size = l.size ∧
      ∀ i, i < l.size → (Spec.Bzip2.ibwtPerm l).getD (pos l.toList i) 0 = i := by
  obtain ⟨b1, b2⟩ := bucketStarts_spec l
  have h0 : Pk l.toList (Spec.Bzip2.bucketStarts l, Array.replicate l.size 0, 0) 0 :=
    ⟨b1, fun b hb => by rw [b2 b hb]; simp [cntEq_nil], by simp, fun j hj => by omega, rfl⟩
  have h := sfold_inv l.toList l.toList 0 _ (by omega) (by simp) h0
  have e : Spec.Bzip2.ibwtPerm l =
      (l.toList.foldl sstep (Spec.Bzip2.bucketStarts l, Array.replicate l.size 0, 0)).2.1 := by
    unfold Spec.Bzip2.ibwtPerm
    rw [← Array.foldl_toList]
    rfl
  rw [e]
  exact ⟨by simpa using h.outSize, fun i hi => h.out i (by simpa using hi)⟩

/-- **The oracle's successor vector is W12's.** -/
theorem ibwtPerm_toList (l : Array UInt8) :
    (Spec.Bzip2.ibwtPerm l).toList = succVec l.toList := by
  obtain ⟨h1, h2⟩ := ibwtPerm_spec l
  apply List.ext_getElem
  · simp [h1, succVec_length]
  · intro q hq1 hq2
    have hq : q < l.toList.length := by simpa [h1] using hq1
    have := eq_succVec_of_pos l.toList (Spec.Bzip2.ibwtPerm l).toList
      (fun i hi => by rw [arr_getD_toList]; exact h2 i (by simpa using hi)) q hq
    simpa [List.getD_eq_getElem?_getD, List.getElem?_eq_getElem hq1,
      List.getElem?_eq_getElem hq2] using this

/-! ### The walk -/

theorem ibwtWalk_toList (l : Array UInt8) (t : Array Nat) : ∀ (m q : Nat) (acc : Array UInt8),
    (Spec.Bzip2.ibwtWalk l t m (t.getD q 0) acc).toList =
      acc.toList ++ follow l.toList t.toList m q := by
  intro m
  induction m with
  | zero => intro q acc; simp [Spec.Bzip2.ibwtWalk, follow]
  | succ m ih =>
    intro q acc
    simp only [Spec.Bzip2.ibwtWalk, follow]
    rw [ih (t.getD q 0)]
    simp

/-- **The oracle's inverse BWT is W12's textbook inverse BWT.** -/
theorem bzip2_ibwt_eq (l : Array UInt8) (idx : Nat) :
    Spec.Bzip2.ibwt l idx =
      if idx < l.size then some (Spec.Ibwt.ibwt l.toList idx).toArray else none := by
  unfold Spec.Bzip2.ibwt
  by_cases h : idx < l.size
  · simp only [h, if_true]
    congr 1
    apply Array.toList_inj.mp
    rw [ibwtWalk_toList, ibwtPerm_toList]
    simp [Spec.Ibwt.ibwt]
  · simp [h]

end LbzVerif.Lemmas.SpecStageLinkIbwt
