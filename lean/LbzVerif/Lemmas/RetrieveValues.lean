/-
  Lemmas.RetrieveValues — the VALUES `Model.Retrieve` reads are the values the
  references read from the same bits (local form of items (2)/(3) of the gap
  in Props/C05/Retrieve.lean):

  * `take_value`   `TAKE(x, k)` on a legal buffer = `Basic.takeNat k` on the
                   unread bits (the primitive `Spec.Bzip2.parseBlock` uses):
                   same value, and the rest is what the machine keeps;
  * `peek6_value`  `PEEK(6)` with ≥ 6 live bits = `Model.Delta.peek6` of the
                   unread bits;
  * `deltaWindow_value`  one iteration of the machine's delta loop is
                   `Lemmas.Delta.winModel` (= at most three steps of the
                   bit-by-bit reference, `Lemmas.Delta.sym_eq_winModel`) on
                   the unread bits, and drops exactly the bits it says;
  * `selector_value`  one selector: `table[PEEK(6)]` is the unary code of the
                   reference `Spec.Bzip2.readUnary`.
-/
import LbzVerif.Lemmas.RetrieveBits
import LbzVerif.Lemmas.SpecBasic
import LbzVerif.Lemmas.Delta

set_option linter.unusedSimpArgs false

namespace LbzVerif.Lemmas.RetrieveValues
open LbzVerif LbzVerif.Model.Retrieve LbzVerif.Lemmas.RetrieveBits
open LbzVerif.Basic

theorem natToBits_eq_range (n v : Nat) :
    natToBits n v = (List.range n).map (fun i => v.testBit (n - 1 - i)) := by
  induction n with
  | zero => rfl
  | succ n ih =>
    rw [natToBits, ih, List.range_succ_eq_map, List.map_cons, List.map_map]
    congr 1
    apply List.map_congr_left
    intro i _
    simp only [Function.comp]
    congr 1
    omega

theorem buf_lt (v w : Nat) (inv : BufInv v w) : v < 2 ^ 64 :=
  Nat.lt_pow_two_of_testBit v (fun i hi => inv.hi i hi)

theorem peek_lt (v w k : Nat) (inv : BufInv v w) (hk : k ≤ 64) : v >>> (64 - k) < 2 ^ k := by
  rw [Nat.shiftRight_eq_div_pow]
  have h := buf_lt v w inv
  have e : (2 : Nat) ^ 64 = 2 ^ k * 2 ^ (64 - k) := by rw [← Nat.pow_add]; congr 1; omega
  rw [Nat.div_lt_iff_lt_mul (Nat.two_pow_pos _)]
  omega

/-- The first `k` live bits are the binary digits of `PEEK(k)`. -/
theorem take_bits (v w k : Nat) (hk : k ≤ w) (inv : BufInv v w) :
    (bufBits v w).take k = natToBits k (v >>> (64 - k)) := by
  have hw := inv.wle
  rw [natToBits_eq_range]
  apply List.ext_getElem
  · simp [bufBits]; omega
  · intro i h1 h2
    simp only [bufBits, List.length_take, List.length_map, List.length_range] at h1
    simp only [bufBits, List.getElem_take, List.getElem_map, List.getElem_range]
    rw [Nat.testBit_shiftRight]
    congr 1
    omega

/-- **take_value.**  `TAKE(x, k)` reads the same number as the reference's
`takeNat k`, and leaves the same bits. -/
theorem take_value (st st' : St) (k x : Nat) (ws : List Nat) (h : take st k = some (x, st'))
    (inv : BufInv st.v st.w) :
    takeNat k (bitsOf st ws) = some (x, bitsOf st' ws) ∧ BufInv st'.v st'.w := by
  unfold take at h
  cases hd : dump st k with
  | none => rw [hd] at h; cases h
  | some s =>
    rw [hd] at h
    injection h with h
    injection h with h1 h2
    subst h2
    have hk : k ≤ st.w := by
      unfold dump at hd
      split at hd
      · cases hd
      · omega
    obtain ⟨e, i⟩ := dump_st_bits st s k hd inv
    refine ⟨?_, i⟩
    have hsplit : bitsOf st ws = natToBits k (peek st k) ++ bitsOf s ws := by
      unfold bitsOf
      rw [e, ← List.append_assoc]
      congr 1
      show bufBits st.v st.w = natToBits k (st.v >>> (64 - k)) ++ _
      rw [← take_bits st.v st.w k hk inv, List.take_append_drop]
    rw [hsplit, Basic.takeNat_natToBits, ← h1]
    congr 2
    exact Nat.mod_eq_of_lt (peek_lt st.v st.w k inv (by have := inv.wle; omega))

theorem foldl_eq_bitsToNatAux (l : List Bool) : ∀ a : Nat,
    l.foldl (fun acc b => 2 * acc + (if b then 1 else 0)) a = bitsToNatAux a l := by
  induction l with
  | nil => intro a; rfl
  | cons b r ih => intro a; simp only [List.foldl_cons, bitsToNatAux]; exact ih _

theorem toNum_eq_bitsToNat (l : List Bool) : Model.Delta.toNum l = bitsToNat l :=
  foldl_eq_bitsToNatAux l 0

theorem tL_le6 : ∀ b1 b2 b3 b4 b5 b6 : Bool,
    Model.Delta.tL (Model.Delta.toNum [b1, b2, b3, b4, b5, b6]) ≤ 6 := by decide

theorem win_take : ∀ (n : Nat) (bits : List Bool), n ≤ bits.length →
    Model.Delta.win n bits = bits.take n := by
  intro n
  induction n with
  | zero => intro bits _; simp [Model.Delta.win]
  | succ n ih =>
    intro bits h
    cases bits with
    | nil => simp at h
    | cons b r => simp only [Model.Delta.win, List.take_succ_cons]; rw [ih r (by simpa using h)]

theorem bitsOf_take (st : St) (ws : List Nat) (k : Nat) (hk : k ≤ st.w) :
    (bitsOf st ws).take k = (bufBits st.v st.w).take k := by
  unfold bitsOf
  rw [List.take_append_of_le_length (by rw [bufBits_length]; exact hk)]

/-- **peek6_value.** -/
theorem peek6_value (st : St) (ws : List Nat) (h6 : 6 ≤ st.w) (inv : BufInv st.v st.w) :
    peek st 6 = Model.Delta.peek6 (bitsOf st ws) := by
  unfold Model.Delta.peek6
  rw [win_take 6 _ (by unfold bitsOf; rw [List.length_append, bufBits_length]; omega),
    bitsOf_take st ws 6 h6, take_bits st.v st.w 6 h6 inv, toNum_eq_bitsToNat]
  unfold bitsToNat
  rw [Basic.bitsToNatAux_natToBits]
  simp only [Nat.zero_mul, Nat.zero_add]
  exact (Nat.mod_eq_of_lt (peek_lt st.v st.w 6 inv (by omega))).symm

theorem dump_bitsOf (st st' : St) (k : Nat) (ws : List Nat) (h : dump st k = some st')
    (inv : BufInv st.v st.w) : bitsOf st' ws = (bitsOf st ws).drop k ∧ BufInv st'.v st'.w := by
  have hk : k ≤ st.w := by
    unfold dump at h
    split at h
    · cases h
    · omega
  obtain ⟨e, i⟩ := dump_st_bits st st' k h inv
  refine ⟨?_, i⟩
  unfold bitsOf
  rw [List.drop_append_of_le_length (by rw [bufBits_length]; exact hk), e]

/-- **deltaWindow_value.**  With at least 6 live bits (after `NEED` there are
32), one iteration of the machine's delta loop on window `k = peek6 (unread
bits)` and current length `c = code_len[j]`:
  * continues iff `Model.Delta.stepLen c k` accepts (i.e. `Lemmas.Delta.winModel
    c k` is not `reject`), with the new length and the bookkeeping of
    `Model.Delta.loop` (`tL k ≠ 6`: the symbol is finished, `j + 1`, length
    recorded; `tL k = 6`: same symbol), and the unread bits lose exactly
    `tL k` bits;
  * answers ERR_DELTA iff `stepLen` rejects. -/
theorem deltaWindow_value (st : St) (ws : List Nat) (h6 : 6 ≤ st.w) (inv : BufInv st.v st.w) :
    let k := Model.Delta.peek6 (bitsOf st ws)
    match Model.Delta.stepLen st.clCur k with
    | none => deltaWindow st = errS Gen.ERR_DELTA
    | some c' =>
      ∃ st', deltaWindow st = .cont st' ∧ BufInv st'.v st'.w ∧
        bitsOf st' ws = (bitsOf st ws).drop (Model.Delta.tL k) ∧ st'.clCur = c' ∧
        (if Model.Delta.tL k ≠ 6 then st'.j = st.j + 1 ∧ st'.clAcc = c' :: st.clAcc
         else st'.j = st.j ∧ st'.clAcc = st.clAcc) ∧
        st'.alphaSize = st.alphaSize ∧ st'.t = st.t ∧ st'.pc = .deltaTag := by
  intro k
  have hk : peek st 6 = k := peek6_value st ws h6 inv
  obtain ⟨b1, b2, b3, b4, b5, b6, hwin⟩ := Lemmas.Delta.win6_cases (bitsOf st ws)
  have hfacts := Lemmas.Delta.core_facts 0 (by omega) b1 b2 b3 b4 b5 b6
  have hl1 : 1 ≤ Model.Delta.tL k := by
    have : k = Model.Delta.toNum [b1, b2, b3, b4, b5, b6] := by
      show Model.Delta.peek6 (bitsOf st ws) = _
      unfold Model.Delta.peek6; rw [hwin]
    rw [this]; exact hfacts.1
  have hl6 : Model.Delta.tL k ≤ 6 := by
    have : k = Model.Delta.toNum [b1, b2, b3, b4, b5, b6] := by
      show Model.Delta.peek6 (bitsOf st ws) = _
      unfold Model.Delta.peek6; rw [hwin]
    rw [this]
    exact tL_le6 b1 b2 b3 b4 b5 b6
  unfold deltaWindow
  simp only [hk]
  cases hs : Model.Delta.stepLen st.clCur k with
  | none => rfl
  | some c' =>
    simp only
    by_cases hl : Model.Delta.tL k ≠ 6
    · rw [if_pos hl]
      have hd : dump ({ st with j := st.j + 1, clAcc := c' :: st.clAcc, clCur := c' } : St) (Model.Delta.tL k) =
          some { ({ st with j := st.j + 1, clAcc := c' :: st.clAcc, clCur := c' } : St) with
            v := dumpV st.v (Model.Delta.tL k), w := st.w - Model.Delta.tL k } := by
        unfold dump
        rw [if_neg (by show ¬ (Model.Delta.tL k = 0 ∨ st.w < Model.Delta.tL k); omega)]
      rw [hd]
      obtain ⟨e, i⟩ := dump_bitsOf _ _ _ ws hd (by exact inv)
      refine ⟨_, rfl, i, ?_, rfl, ?_, rfl, rfl, rfl⟩
      · exact e
      · rw [if_pos hl]; exact ⟨rfl, rfl⟩
    · rw [if_neg hl]
      have hd : dump ({ st with clCur := c' } : St) (Model.Delta.tL k) =
          some { ({ st with clCur := c' } : St) with
            v := dumpV st.v (Model.Delta.tL k), w := st.w - Model.Delta.tL k } := by
        unfold dump
        rw [if_neg (by show ¬ (Model.Delta.tL k = 0 ∨ st.w < Model.Delta.tL k); omega)]
      rw [hd]
      obtain ⟨e, i⟩ := dump_bitsOf _ _ _ ws hd (by exact inv)
      refine ⟨_, rfl, i, ?_, rfl, ?_, rfl, rfl, rfl⟩
      · exact e
      · rw [if_neg hl]; exact ⟨rfl, rfl⟩

/-! ### selectors -/

open LbzVerif.Spec.Bzip2 (readUnary Reject)

theorem readUnary_ones (n : Nat) : ∀ (m k : Nat) (r : List Bool), k + m < n →
    readUnary n k (List.replicate m true ++ false :: r) = .ok (k + m, r) := by
  intro m
  induction m with
  | zero => intro k r _; simp [readUnary]
  | succ m ih =>
    intro k r h
    simp only [List.replicate_succ, List.cons_append, readUnary]
    rw [if_pos (by omega), ih (k + 1) r (by omega)]
    congr 2; omega

theorem readUnary_bad (n : Nat) : ∀ (m k : Nat) (r : List Bool), 1 ≤ m → n ≤ k + m →
    readUnary n k (List.replicate m true ++ r) = .error .badSelector := by
  intro m
  induction m with
  | zero => intro k r h; omega
  | succ m ih =>
    intro k r _ h
    simp only [List.replicate_succ, List.cons_append, readUnary]
    by_cases hk : k + 1 < n
    · rw [if_pos hk]
      exact ih (k + 1) r (by omega) (by omega)
    · rw [if_neg hk]

/-- The table `table[64]` of decode.c on a 6-bit window: position of the first
zero bit (7 = none), i.e. the window is that many ones minus one, then a zero. -/
theorem firstZero_spec : ∀ b1 b2 b3 b4 b5 b6 : Bool,
    let wb := [b1, b2, b3, b4, b5, b6]
    let z := Gen.firstZero.getD (Model.Delta.toNum wb) 0
    1 ≤ z ∧ z ≤ 7 ∧ (z ≤ 6 → wb = List.replicate (z - 1) true ++ false :: wb.drop z) ∧
      (z = 7 → wb = List.replicate 6 true) := by
  decide

/-- **selector_value.**  With at least 6 live bits and `1 ≤ num_trees ≤ 6`,
one pass of the selector loop body reads exactly the reference's unary code:
`readUnary num_trees 0` on the unread bits gives index `i` and rest `B'` iff
the machine stores `i` (`selector[j] = k - 1`) and keeps `B'`; the reference
answers bad-selector iff the machine answers ERR_SELECTOR; the reference
cannot run out of bits here. -/
theorem selector_value (st : St) (ws : List Nat) (h6 : 6 ≤ st.w) (inv : BufInv st.v st.w)
    (hj : st.j < st.numSel) (hn1 : 1 ≤ st.numTrees) (hn6 : st.numTrees ≤ 6) :
    match readUnary st.numTrees 0 (bitsOf st ws) with
    | .ok (i, B') =>
      ∃ st', selLoop st = .cont st' ∧ BufInv st'.v st'.w ∧ bitsOf st' ws = B' ∧
        st'.selector = st.selector.push i ∧ st'.j = st.j ∧ st'.numSel = st.numSel ∧
        st'.numTrees = st.numTrees ∧ st'.pc = .selectorMtf ∧ st'.w < st.w ∧
        st' = { st with v := st'.v, w := st'.w, selector := st.selector.push i, pc := .selectorMtf }
    | .error e => e = .badSelector ∧ selLoop st = errS Gen.ERR_SELECTOR := by
  have hk : peek st 6 = Model.Delta.peek6 (bitsOf st ws) := peek6_value st ws h6 inv
  obtain ⟨b1, b2, b3, b4, b5, b6, hwin⟩ := Lemmas.Delta.win6_cases (bitsOf st ws)
  have hlen : 6 ≤ (bitsOf st ws).length := by
    unfold bitsOf; rw [List.length_append, bufBits_length]; omega
  have htake : (bitsOf st ws).take 6 = [b1, b2, b3, b4, b5, b6] := by
    rw [← win_take 6 _ hlen]; exact hwin
  have hB : bitsOf st ws = [b1, b2, b3, b4, b5, b6] ++ (bitsOf st ws).drop 6 := by
    rw [← htake, List.take_append_drop]
  have hz := firstZero_spec b1 b2 b3 b4 b5 b6
  simp only at hz
  have hkz : Gen.firstZero.getD (peek st 6) 0 =
      Gen.firstZero.getD (Model.Delta.toNum [b1, b2, b3, b4, b5, b6]) 0 := by
    rw [hk]; unfold Model.Delta.peek6; rw [hwin]
  generalize hzdef : Gen.firstZero.getD (Model.Delta.toNum [b1, b2, b3, b4, b5, b6]) 0 = z at hz hkz
  obtain ⟨z1, z7, zle, zeq⟩ := hz
  generalize hR : (bitsOf st ws).drop 6 = R at hB
  generalize hwb : [b1, b2, b3, b4, b5, b6] = wb at hB zle zeq
  have hwl : wb.length = 6 := by rw [← hwb]; rfl
  unfold selLoop
  rw [if_pos hj]
  simp only [hkz]
  by_cases hgt : z > st.numTrees
  · -- at least `num_trees` ones at the front: both reject
    rw [if_pos hgt]
    have hones : ∃ r, bitsOf st ws = List.replicate (z - 1) true ++ r := by
      by_cases h7 : z = 7
      · refine ⟨R, ?_⟩
        rw [hB, zeq h7, h7]
      · have h6' : z ≤ 6 := by omega
        refine ⟨false :: (wb.drop z ++ R), ?_⟩
        rw [hB]
        conv => lhs; rw [zle h6']
        simp
    obtain ⟨r, hr⟩ := hones
    rw [hr, readUnary_bad st.numTrees (z - 1) 0 r (by omega) (by omega)]
    exact ⟨rfl, rfl⟩
  · rw [if_neg hgt]
    have h6' : z ≤ 6 := by omega
    have hform : bitsOf st ws = List.replicate (z - 1) true ++ false :: (wb.drop z ++ R) := by
      rw [hB]
      conv => lhs; rw [zle h6']
      simp
    have hdrop : (bitsOf st ws).drop z = wb.drop z ++ R := by
      rw [hB, List.drop_append_of_le_length (by omega)]
    have hd : dump st z = some { st with v := dumpV st.v z, w := st.w - z } := by
      unfold dump
      rw [if_neg (by omega)]
    obtain ⟨e, i⟩ := dump_bitsOf _ _ _ ws hd inv
    rw [hd]
    rw [hdrop] at e
    rw [hform, readUnary_ones st.numTrees (z - 1) 0 _ (by omega)]
    simp only [Nat.zero_add]
    exact ⟨_, rfl, i, e, rfl, rfl, rfl, rfl, rfl, (by show st.w - z < st.w; omega), rfl⟩

end LbzVerif.Lemmas.RetrieveValues
