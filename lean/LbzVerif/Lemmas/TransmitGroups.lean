/-
  Lemmas.TransmitGroups — "Transmit prefix codes" read back by the reference
  decoder's `decodeGroups`, GIVEN that the reference symbol decoder reads each
  code word of the tables in use (`SymOK`, the hypothesis of
  `parse_transmit_partial`).
-/
import LbzVerif.Lemmas.TransmitParse

namespace LbzVerif.Lemmas.TransmitGroups
open LbzVerif LbzVerif.Basic LbzVerif.Model.Canon LbzVerif.Model.Transmit
open LbzVerif.Lemmas.TransmitLen LbzVerif.Lemmas.TransmitBits LbzVerif.Lemmas.TransmitParse
open LbzVerif.Spec.Bzip2

/-- The reference symbol decoder, prepared from the lengths `B`, reads the
    code word (`B[i]` low bits of `L[i]`) of every symbol `i`. -/
def SymOK (B L : List Nat) : Prop :=
  ∀ i, i < B.length → ∀ (pos : Nat) (rest : Bits),
    decodeSym (mkCode B) pos (send (B.getD i 0) (L.getD i 0) ++ rest) =
      .ok (i, pos + B.getD i 0, rest)

/-- Code words of a symbol list under one table. -/
def codeBits (B L : List Nat) (syms : List Nat) : Bits :=
  syms.flatMap (fun mv => send (B.getD mv 0) (L.getD mv 0))

theorem codeBits_sentinel (B L : List Nat) (p : Nat) :
    codeBits B L (List.replicate p B.length) = [] := by
  unfold codeBits
  rw [List.flatMap_eq_nil_iff]
  intro x hx
  rw [List.eq_of_mem_replicate hx]
  have : B.getD B.length 0 = 0 := by simp [List.getD_eq_getElem?_getD]
  rw [this]; rfl

theorem codeBits_append (B L : List Nat) (x y : List Nat) :
    codeBits B L (x ++ y) = codeBits B L x ++ codeBits B L y := by
  simp [codeBits, List.flatMap_append]

/-- A full group without the end-of-block symbol. -/
theorem decodeGroup_plain (B L : List Nat) (h : SymOK B L) (eob : Nat) (syms : List Nat)
    (hs : ∀ x ∈ syms, x < B.length ∧ x ≠ eob) (pos : Nat) (rest : Bits) (acc : Array Nat) :
    decodeGroup (mkCode B) eob syms.length pos (codeBits B L syms ++ rest) acc =
      .ok (false, pos + (codeBits B L syms).length, rest, acc ++ syms.toArray) := by
  induction syms generalizing pos acc with
  | nil => simp [decodeGroup, codeBits]
  | cons x t ih =>
    have hx := hs x (List.mem_cons_self ..)
    have e : codeBits B L (x :: t) ++ rest =
        send (B.getD x 0) (L.getD x 0) ++ (codeBits B L t ++ rest) := by
      simp [codeBits, List.append_assoc]
    rw [List.length_cons, decodeGroup, e, h x hx.1]
    simp only
    have hne : (x == eob) = false := by simpa using hx.2
    rw [hne]
    simp only [Bool.false_eq_true, if_false]
    rw [ih (fun y hy => hs y (List.mem_cons_of_mem _ hy))]
    have hl : (codeBits B L (x :: t)).length = B.getD x 0 + (codeBits B L t).length := by
      simp [codeBits, send_length]
    have ea : acc.push x ++ t.toArray = acc ++ (x :: t).toArray := by
      apply Array.toList_inj.mp; simp
    rw [hl, Nat.add_assoc, ea]

/-- The last group: symbols, then the end-of-block symbol (within `k`). -/
theorem decodeGroup_eob (B L : List Nat) (h : SymOK B L) (eob : Nat) (he : eob < B.length)
    (pre : List Nat) (hs : ∀ x ∈ pre, x < B.length ∧ x ≠ eob) (k : Nat) (hk : pre.length < k)
    (pos : Nat) (rest : Bits) (acc : Array Nat) :
    decodeGroup (mkCode B) eob k pos (codeBits B L (pre ++ [eob]) ++ rest) acc =
      .ok (true, pos + (codeBits B L (pre ++ [eob])).length, rest, acc ++ pre.toArray) := by
  induction pre generalizing pos acc k with
  | nil =>
    obtain ⟨k', rfl⟩ : ∃ k', k = k' + 1 := ⟨k - 1, by simp at hk; omega⟩
    have e : codeBits B L ([] ++ [eob]) ++ rest = send (B.getD eob 0) (L.getD eob 0) ++ rest := by
      simp [codeBits]
    rw [decodeGroup, e, h eob he]
    simp [codeBits, send_length]
  | cons x t ih =>
    obtain ⟨k', rfl⟩ : ∃ k', k = k' + 1 := ⟨k - 1, by simp at hk; omega⟩
    have hx := hs x (List.mem_cons_self ..)
    have e : codeBits B L (x :: t ++ [eob]) ++ rest =
        send (B.getD x 0) (L.getD x 0) ++ (codeBits B L (t ++ [eob]) ++ rest) := by
      simp [codeBits, List.append_assoc]
    rw [decodeGroup, e, h x hx.1]
    simp only
    have hne : (x == eob) = false := by simpa using hx.2
    rw [hne]
    simp only [Bool.false_eq_true, if_false]
    rw [ih (fun y hy => hs y (List.mem_cons_of_mem _ hy)) k' (by simp at hk; omega)]
    have hl : (codeBits B L (x :: t ++ [eob])).length =
        B.getD x 0 + (codeBits B L (t ++ [eob])).length := by
      simp [codeBits, send_length]
    have ea : acc.push x ++ t.toArray = acc ++ (x :: t).toArray := by
      apply Array.toList_inj.mp; simp
    rw [hl, Nat.add_assoc, ea]

/-! ### the group loop as a recursion over the selectors -/

/-- `f s group` for each selector `s` and the next 50 symbols. -/
def encG (f : Nat → List Nat → Bits) : List Nat → List Nat → Bits
  | [], _ => []
  | s :: ss, syms => f s (syms.take 50) ++ encG f ss (syms.drop 50)

theorem flatMap_chunks (f : Nat → List Nat → Bits) (sels syms : List Nat) :
    (List.range sels.length).flatMap
        (fun gr => f (sels.getD gr 0) ((syms.drop (50 * gr)).take 50)) = encG f sels syms := by
  induction sels generalizing syms with
  | nil => rfl
  | cons s ss ih =>
    rw [List.length_cons, List.range_succ_eq_map, List.flatMap_cons, List.flatMap_map, encG,
      ← ih (syms.drop 50)]
    congr 1
    apply flatMap_congr'
    intro gr _
    simp only [Nat.succ_eq_add_one, List.getD_cons_succ, List.drop_drop]
    congr 3
    omega

/-- The code words of one group under table `s`. -/
def groupF (b : EncBlock) (s : Nat) (g : List Nat) : Bits :=
  codeBits (b.lens.getD s []) (b.codes.getD s []) g

theorem groups_eq (b : EncBlock) (h : b.selectors.length = b.ns) :
    (List.range b.ns).flatMap (groupBits b) = encG (groupF b) b.selectors b.padded := by
  rw [← h, ← flatMap_chunks]
  rfl

/-! ### Kraft sum: the two spellings -/

theorem foldl_add_sum (g : Nat → Nat) (l : List Nat) (a : Nat) :
    l.foldl (fun s x => s + g x) a = a + (l.map g).sum := by
  induction l generalizing a with
  | nil => simp
  | cons x t ih => simp only [List.foldl_cons, ih, List.map_cons, List.sum_cons]; omega

theorem kraftComplete_of_complete (l : List Nat) (h : Spec.Prefix.Complete l) :
    kraftComplete l = true := by
  unfold kraftComplete Spec.Bzip2.kraftSum
  rw [foldl_add_sum (fun l => 2 ^ (maxLen - l)) l 0]
  have := h.1
  unfold Spec.Prefix.kraft20 Spec.Prefix.width at this
  simp only [maxLen, Nat.zero_add, beq_iff_eq]
  exact this

/-! ### all groups -/

/-- `decodeGroups` over the real selectors `sels` (followed by ignored extra
    selectors `ex`): symbols `pre`, the end-of-block symbol, `p < 50` sentinel
    symbols (alphabet size `as`, `eob = as − 1`). -/
theorem decodeGroups_enc (b : EncBlock) (as : Nat)
    (hlen : ∀ s, s < b.lens.length → (b.lens.getD s []).length = as)
    (hcomp : ∀ s, s < b.lens.length → Spec.Prefix.Complete (b.lens.getD s []))
    (sels : List Nat) (hsel : ∀ s ∈ sels, s < b.lens.length)
    (hsym : ∀ s ∈ sels, SymOK (b.lens.getD s []) (b.codes.getD s []))
    (has : 1 ≤ as)
    (pre : List Nat) (hpre : ∀ x ∈ pre, x < as ∧ x ≠ as - 1) (p : Nat) (hp : p < 50)
    (hl : sels.length * 50 = pre.length + 1 + p) (ex : List Nat)
    (nUsed pos : Nat) (rest : Bits) (acc : Array Nat) :
    decodeGroups (b.lens.map mkCode).toArray (as - 1) (sels ++ ex) nUsed pos
        (encG (groupF b) sels (pre ++ [as - 1] ++ List.replicate p as) ++ rest) acc =
      .ok (nUsed + sels.length,
           pos + (encG (groupF b) sels (pre ++ [as - 1] ++ List.replicate p as)).length,
           rest, acc ++ pre.toArray) := by
  induction sels generalizing pre nUsed pos acc with
  | nil => simp at hl; omega
  | cons s ss ih =>
    have hs := hsel s (List.mem_cons_self ..)
    have hB := hlen s hs
    have hok := hsym s (List.mem_cons_self ..)
    have hget : (b.lens.map mkCode).toArray[s]? = some (mkCode (b.lens.getD s [])) := by
      rw [List.getElem?_toArray, List.getElem?_map, List.getD_eq_getElem?_getD,
        List.getElem?_eq_getElem hs]
      rfl
    have hcpl : (mkCode (b.lens.getD s [])).complete = true :=
      kraftComplete_of_complete _ (hcomp s hs)
    rw [List.cons_append, decodeGroups, hget]
    simp only [hcpl, Bool.not_true, Bool.false_eq_true, if_false]
    rw [encG, List.append_assoc]
    by_cases hlong : 50 ≤ pre.length
    · -- a full group of ordinary symbols
      have e1 : (pre ++ [as - 1] ++ List.replicate p as).take 50 = pre.take 50 := by
        rw [List.append_assoc, List.take_append_of_le_length hlong]
      have e2 : (pre ++ [as - 1] ++ List.replicate p as).drop 50 =
          pre.drop 50 ++ [as - 1] ++ List.replicate p as := by
        rw [List.append_assoc, List.drop_append_of_le_length hlong, List.append_assoc]
      have hlt : (pre.take 50).length = 50 := by rw [List.length_take]; omega
      rw [e1, e2]
      have := decodeGroup_plain _ _ hok (as - 1) (pre.take 50)
        (fun x hx => by
          have := hpre x (List.mem_of_mem_take hx)
          rw [hB]; exact this) pos
        (encG (groupF b) ss (pre.drop 50 ++ [as - 1] ++ List.replicate p as) ++ rest) acc
      rw [hlt] at this
      unfold groupF at this ⊢
      simp only [groupSize]
      rw [this]
      simp only
      have ih' := ih (fun x hx => hsel x (List.mem_cons_of_mem _ hx))
        (fun x hx => hsym x (List.mem_cons_of_mem _ hx)) (pre.drop 50)
        (fun x hx => hpre x (List.mem_of_mem_drop hx))
        (by simp only [List.length_cons, List.length_drop] at hl ⊢; omega)
        (nUsed + 1) (pos + (codeBits (b.lens.getD s []) (b.codes.getD s []) (pre.take 50)).length)
        (acc ++ (pre.take 50).toArray)
      unfold groupF at ih'
      rw [ih']
      simp only [List.length_append, List.length_cons]
      congr 2
      · omega
      · congr 1
        · omega
        · congr 1
          apply Array.toList_inj.mp
          simp [List.take_append_drop]
    · -- the last group
      have hss : ss = [] := by
        cases ss with
        | nil => rfl
        | cons _ _ => simp only [List.length_cons] at hl; omega
      subst hss
      simp only [List.length_cons, List.length_nil] at hl
      have e1 : (pre ++ [as - 1] ++ List.replicate p as).take 50 =
          pre ++ [as - 1] ++ List.replicate p as := by
        apply List.take_of_length_le
        simp; omega
      rw [e1, encG, List.nil_append]
      unfold groupF
      rw [codeBits_append, ← hB, codeBits_sentinel, List.append_nil, hB]
      have := decodeGroup_eob _ _ hok (as - 1) (by rw [hB]; omega) pre
        (fun x hx => by rw [hB]; exact hpre x hx) 50 (by omega) pos rest acc
      simp only [groupSize]
      rw [this]
      simp

end LbzVerif.Lemmas.TransmitGroups
