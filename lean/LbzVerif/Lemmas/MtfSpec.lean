/-
  Lemmas.MtfSpec — the reference decoder inverts the reference encoder
  (Spec.Mtf): bijective base-2 run lengths by strong induction, move-to-front
  by list induction.
-/
import LbzVerif.Spec.Mtf

namespace LbzVerif.Lemmas.MtfSpec
open LbzVerif.Spec.Mtf

/-! ### bijective base-2 -/

theorem mul_odd (w q : Nat) : w * (2 * q + 1) = w + 2 * (w * q) := by grind
theorem mul_even (w q : Nat) : w * (2 * q + 2) = 2 * w + 2 * (w * q) := by grind
theorem mul_a (w q : Nat) : 2 * w * q = 2 * (w * q) := by grind

theorem runDigits_zero : runDigits 0 = [] := by
  rw [runDigits]; simp

theorem runDigits_odd (n : Nat) (h0 : n ≠ 0) (h : n % 2 = 1) :
    runDigits n = 0 :: runDigits ((n - 1) / 2) := by
  rw [runDigits]; simp [h0, h]

theorem runDigits_even (n : Nat) (h0 : n ≠ 0) (h : n % 2 ≠ 1) :
    runDigits n = 1 :: runDigits ((n - 2) / 2) := by
  rw [runDigits]; simp [h0, h]

/-- every digit is 0 or 1 -/
theorem runDigits_lt_two (n : Nat) : ∀ d ∈ runDigits n, d < 2 := by
  induction n using Nat.strongRecOn with
  | _ n ih =>
    by_cases h0 : n = 0
    · subst h0; simp [runDigits_zero]
    · by_cases h : n % 2 = 1
      · rw [runDigits_odd n h0 h]
        intro d hd
        rcases List.mem_cons.mp hd with rfl | hd
        · omega
        · exact ih _ (by omega) d hd
      · rw [runDigits_even n h0 h]
        intro d hd
        rcases List.mem_cons.mp hd with rfl | hd
        · omega
        · exact ih _ (by omega) d hd

/-- the numeral denotes the number -/
theorem runValue_runDigits (n w : Nat) : runValue w (runDigits n) = w * n := by
  induction n using Nat.strongRecOn generalizing w with
  | _ n ih =>
    by_cases h0 : n = 0
    · subst h0; simp [runDigits_zero, runValue]
    · by_cases h : n % 2 = 1
      · rw [runDigits_odd n h0 h, runValue, ih _ (by omega)]
        have : n = 2 * ((n - 1) / 2) + 1 := by omega
        generalize (n - 1) / 2 = q at this
        subst this
        have := mul_odd w q; have := mul_a w q
        omega
      · rw [runDigits_even n h0 h, runValue, ih _ (by omega)]
        have : n = 2 * ((n - 2) / 2) + 2 := by omega
        generalize (n - 2) / 2 = q at this
        subst this
        have := mul_even w q; have := mul_a w q
        omega

/-! ### the decoder on a run numeral -/

/-- A symbol ≥ 2 (or the end) makes the pending digit weight irrelevant. -/
theorem unGo_weight_irrel (eob limit : Nat) (l : List UInt8) (n w w' : Nat) (ss : List Nat)
    (h : ∀ s, ss.head? = some s → 2 ≤ s ∨ s = eob) :
    unGo eob limit l n w ss = unGo eob limit l n w' ss := by
  cases ss with
  | nil => simp [unGo]
  | cons s ss =>
    have hs := h s rfl
    unfold unGo
    by_cases he : s = eob
    · simp [he]
    · have h2 : ¬ s < 2 := by omega
      simp [he, h2]

/-- Decoding the numeral of `k` (first digit of weight `w`) appends `w * k`
copies of the front byte. -/
theorem unGo_runDigits (eob limit : Nat) (heob : 2 ≤ eob) (b : UInt8) (l : List UInt8)
    (k : Nat) : ∀ (n w : Nat) (rest : List Nat), n + w * k ≤ limit →
    ∃ w', unGo eob limit (b :: l) n w (runDigits k ++ rest) =
      (unGo eob limit (b :: l) (n + w * k) w' rest).map (List.replicate (w * k) b ++ ·) ∧
      (k = 0 → w' = w) := by
  induction k using Nat.strongRecOn with
  | _ k ih =>
    intro n w rest hfit
    by_cases h0 : k = 0
    · subst h0
      refine ⟨w, ?_, fun _ => rfl⟩
      cases h : unGo eob limit (b :: l) n w rest <;> simp [runDigits_zero, h]
    · by_cases h : k % 2 = 1
      · have hk : k = 2 * ((k - 1) / 2) + 1 := by omega
        rw [runDigits_odd k h0 h]
        generalize (k - 1) / 2 = q at hk
        subst hk
        have hfit1 : ¬ (n + (0 + 1) * w > limit) := by
          have := mul_odd w q; have := mul_a w q
          omega
        obtain ⟨w', hw', _⟩ := ih q (by omega) (n + (0 + 1) * w) (2 * w) rest (by
          have := mul_odd w q; have := mul_a w q
          omega)
        refine ⟨w', ?_, fun h => absurd h (by omega)⟩
        simp only [List.cons_append]
        rw [unGo]
        have he : (0 : Nat) ≠ eob := by omega
        simp only [he, if_false, Nat.lt_irrefl, Nat.zero_lt_two, if_true, hfit1]
        rw [hw']
        have e1 : n + (0 + 1) * w + 2 * w * q = n + w * (2 * q + 1) := by
          have := mul_odd w q; have := mul_a w q
          omega
        have e2 : w * (2 * q + 1) = (0 + 1) * w + 2 * w * q := by
          have := mul_odd w q; have := mul_a w q
          omega
        rw [e1]
        cases unGo eob limit (b :: l) (n + w * (2 * q + 1)) w' rest with
        | none => simp
        | some r =>
          simp only [Option.map_some, Option.some.injEq]
          rw [e2, ← List.replicate_append_replicate, List.append_assoc]
      · have hk : k = 2 * ((k - 2) / 2) + 2 := by omega
        rw [runDigits_even k h0 h]
        generalize (k - 2) / 2 = q at hk
        subst hk
        have hfit1 : ¬ (n + (1 + 1) * w > limit) := by
          have := mul_even w q; have := mul_a w q
          omega
        obtain ⟨w', hw', _⟩ := ih q (by omega) (n + (1 + 1) * w) (2 * w) rest (by
          have := mul_even w q; have := mul_a w q
          omega)
        refine ⟨w', ?_, fun h => absurd h (by omega)⟩
        simp only [List.cons_append]
        rw [unGo]
        have he : (1 : Nat) ≠ eob := by omega
        have h12 : (1 : Nat) < 2 := by omega
        simp only [he, if_false, h12, if_true, hfit1]
        rw [hw']
        have e1 : n + (1 + 1) * w + 2 * w * q = n + w * (2 * q + 2) := by
          have := mul_even w q; have := mul_a w q
          omega
        have e2 : w * (2 * q + 2) = (1 + 1) * w + 2 * w * q := by
          have := mul_even w q; have := mul_a w q
          omega
        rw [e1]
        cases unGo eob limit (b :: l) (n + w * (2 * q + 2)) w' rest with
        | none => simp
        | some r =>
          simp only [Option.map_some, Option.some.injEq]
          rw [e2, ← List.replicate_append_replicate, List.append_assoc]

/-! ### move-to-front -/

theorem moveToFront_length (l : List UInt8) (p : Nat) : (moveToFront l p).length = l.length := by
  unfold moveToFront
  cases h : l[p]? with
  | none => rfl
  | some b =>
    have hp : p < l.length := (List.getElem?_eq_some_iff.mp h).1
    simp [List.length_eraseIdx, hp]; omega

theorem mem_moveToFront (l : List UInt8) (p : Nat) (x : UInt8) :
    x ∈ moveToFront l p ↔ x ∈ l := by
  unfold moveToFront
  cases h : l[p]? with
  | none => simp
  | some b =>
    obtain ⟨hp, hb⟩ := List.getElem?_eq_some_iff.mp h
    constructor
    · intro hx
      rcases List.mem_cons.mp hx with rfl | hx
      · rw [← hb]; exact List.getElem_mem hp
      · exact List.mem_of_mem_eraseIdx hx
    · intro hx
      by_cases hxb : x = b
      · simp [hxb]
      · apply List.mem_cons_of_mem
        rw [List.mem_eraseIdx_iff_getElem]
        obtain ⟨i, hi, hxi⟩ := List.getElem_of_mem hx
        refine ⟨i, hi, ?_, hxi⟩
        intro hip
        subst hip
        exact hxb (hxi.symm.trans hb)

theorem moveToFront_zero (b : UInt8) (l : List UInt8) : moveToFront (b :: l) 0 = b :: l := by
  simp [moveToFront]

/-! ### round trip -/

/-- Main induction: with `k` zero positions pending for the front byte. -/
theorem unGo_zrle (N limit : Nat) (block : List UInt8) :
    ∀ (l : List UInt8) (k n : Nat), l.length = N → (∀ x ∈ block, x ∈ l) →
      (k = 0 ∨ l ≠ []) → n + k + block.length ≤ limit →
      unGo (N + 1) limit l n 1 (zrle k (mtfEncode l block) ++ [N + 1]) =
        some (List.replicate k (l.headD 0) ++ block) := by
  induction block with
  | nil =>
    intro l k n hl _ hk hfit
    simp only [mtfEncode, zrle, List.append_nil, List.length_nil, Nat.add_zero] at *
    rcases hk with rfl | hne
    · simp [runDigits_zero, unGo]
    · obtain ⟨b, t, rfl⟩ := List.exists_cons_of_ne_nil hne
      have hN : 2 ≤ N + 1 := by simp at hl; omega
      obtain ⟨w', h1, _⟩ := unGo_runDigits (N + 1) limit hN b t k n 1 [N + 1] (by omega)
      rw [h1]
      simp [unGo]
  | cons x xs ih =>
    intro l k n hl hmem hk hfit
    have hx : x ∈ l := hmem x (List.mem_cons_self ..)
    obtain ⟨b, t, rfl⟩ := List.exists_cons_of_ne_nil (List.ne_nil_of_mem hx)
    have hN : 2 ≤ N + 1 := by simp at hl; omega
    simp only [List.length_cons] at hfit
    simp only [mtfEncode]
    by_cases hxb : b = x
    · -- position 0: the run grows
      subst hxb
      have hidx : (b :: t).idxOf b = 0 := by simp
      rw [hidx, moveToFront_zero]
      simp only [zrle]
      rw [ih (b :: t) (k + 1) n hl (fun y hy => hmem y (List.mem_cons_of_mem _ hy))
        (Or.inr (by simp)) (by omega)]
      simp [List.replicate_succ', List.append_assoc]
    · -- position p ≥ 1
      have hidx : (b :: t).idxOf x = t.idxOf x + 1 := by
        have : (b == x) = false := by simpa using hxb
        simp [List.idxOf_cons, this]
      have hxt : x ∈ t := by
        rcases List.mem_cons.mp hx with h | h
        · exact absurd h.symm hxb
        · exact h
      have hp : t.idxOf x < t.length := List.idxOf_lt_length_of_mem hxt
      rw [hidx]
      simp only [zrle]
      obtain ⟨w', h1, _⟩ := unGo_runDigits (N + 1) limit hN b t k n 1
        ((t.idxOf x + 2) :: (zrle 0 (mtfEncode (moveToFront (b :: t) (t.idxOf x + 1)) xs) ++ [N + 1]))
        (by omega)
      simp only [List.append_assoc, List.cons_append]
      rw [h1]
      have hlen : t.length + 1 = N := by simpa using hl
      have hget : (b :: t)[t.idxOf x + 2 - 1]? = some x := by
        simp [List.getElem?_eq_getElem hp]
      rw [unGo]
      have c1 : ¬ (t.idxOf x + 2 = N + 1) := by omega
      have c2 : ¬ (t.idxOf x + 2 < 2) := by omega
      have c3 : t.idxOf x + 2 < N + 1 := by omega
      have c4 : ¬ (n + 1 * k + 1 > limit) := by omega
      simp only [c1, c2, c3, if_false, if_true, hget, c4]
      have hsub : t.idxOf x + 2 - 1 = t.idxOf x + 1 := by omega
      rw [hsub]
      rw [ih (moveToFront (b :: t) (t.idxOf x + 1)) 0 (n + 1 * k + 1)
        (by rw [moveToFront_length]; exact hl)
        (fun y hy => (mem_moveToFront _ _ _).mpr (hmem y (List.mem_cons_of_mem _ hy)))
        (Or.inl rfl) (by omega)]
      simp

/-- The reference decoder inverts the reference encoder. -/
theorem unMtfRle2_mtfRle2 (used block : List UInt8) (limit : Nat)
    (hmem : ∀ x ∈ block, x ∈ used) (hfit : block.length ≤ limit) :
    unMtfRle2 used (mtfRle2 used block) limit = some block := by
  unfold unMtfRle2 mtfRle2
  have := unGo_zrle used.length limit block used 0 0 rfl hmem (Or.inl rfl) (by omega)
  simpa using this

end LbzVerif.Lemmas.MtfSpec
