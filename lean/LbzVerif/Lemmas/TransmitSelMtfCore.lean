/-
  Lemmas.TransmitSelMtfCore — the finite core of `selectorMtf_spec`: one step
  of the branch-free selector MTF of `encode()` (MTF state packed into the
  nibbles of a 32-bit word, `0x543210` initially) agrees with one ordinary
  move-to-front step, for EVERY arrangement of the six table numbers and
  every selector value.  720 arrangements × 6 values, evaluated by the kernel
  (nested loops over the six positions, repetitions pruned early).  Isolated here because of the `decide +kernel`.
-/
import LbzVerif.Model.Transmit

namespace LbzVerif.Lemmas.TransmitSelMtf
open LbzVerif LbzVerif.Model.Transmit

/-- MTF list → packed state: front element in the lowest nibble. -/
def pack : List Nat → Nat
  | [] => 0
  | x :: xs => x + 16 * pack xs

/-- No repeated element (cheap for the kernel to evaluate). -/
def nodupB : List Nat → Bool
  | [] => true
  | x :: xs => !xs.contains x && nodupB xs

/-- An arrangement of the table numbers 0…5. -/
def valid (l : List Nat) : Bool :=
  l.length == 6 && l.all (· < 6) && nodupB l

/-- One ordinary move-to-front step: `c` moved to the front. -/
def mtfNext (l : List Nat) (c : Nat) : List Nat := c :: l.eraseIdx (l.idxOf c)

/-- The C step on the packed state gives the packed moved list and the
    position; and the moved list is again an arrangement. -/
def stepOK (l : List Nat) (c : Nat) : Bool :=
  selStep (pack l) c == (pack (mtfNext l c), l.idxOf c) && valid (mtfNext l c)

/-- All arrangements `[a,b,c,d,e,f]` of 0…5 (repetitions pruned as early as
    possible) and all selector values `x`. -/
def coreCheck : Bool :=
  (List.range 6).all fun a => (List.range 6).all fun b => b == a ||
  (List.range 6).all fun c => (c == a || c == b) ||
  (List.range 6).all fun d => (d == a || d == b || d == c) ||
  (List.range 6).all fun e => (e == a || e == b || e == c || e == d) ||
  (List.range 6).all fun f => (f == a || f == b || f == c || f == d || f == e) ||
  (List.range 6).all fun x => stepOK [a, b, c, d, e, f] x

theorem coreCheck_true : coreCheck = true := by decide +kernel

end LbzVerif.Lemmas.TransmitSelMtf
