/-
  Lemmas.PrefixCanon — the interval argument for canonical codes.

  For a complete length list the code word of symbol `i` is the top `ℓᵢ` bits
  of `offset20 i`, and the intervals `[offset20 i, offset20 i + width ℓᵢ)` are
  pairwise disjoint sub-intervals of `[0, 2^20)`, each aligned to its width.
  From this: the reference decoder finds no symbol on a proper prefix of a
  code word and exactly symbol `i` on the whole code word.
-/
import LbzVerif.Spec.Prefix

namespace LbzVerif.Lemmas.PrefixCanon
open LbzVerif.Spec.Prefix

/-! ### sums over lists -/

theorem sum_map_le {α : Type} (l : List α) (f g : α → Nat) (h : ∀ x ∈ l, f x ≤ g x) :
    (l.map f).sum ≤ (l.map g).sum := by
  induction l with
  | nil => simp
  | cons a t ih =>
    simp only [List.map_cons, List.sum_cons]
    have h1 := h a (List.mem_cons_self ..)
    have h2 := ih (fun x hx => h x (List.mem_cons_of_mem _ hx))
    omega

theorem sum_map_add {α : Type} (l : List α) (f g : α → Nat) :
    (l.map (fun x => f x + g x)).sum = (l.map f).sum + (l.map g).sum := by
  induction l with
  | nil => simp
  | cons a t ih => simp only [List.map_cons, List.sum_cons, ih]; omega

theorem sum_map_zero {α : Type} (l : List α) (f : α → Nat) (h : ∀ x ∈ l, f x = 0) :
    (l.map f).sum = 0 := by
  induction l with
  | nil => simp
  | cons a t ih =>
    simp only [List.map_cons, List.sum_cons]
    rw [h a (List.mem_cons_self ..), ih (fun x hx => h x (List.mem_cons_of_mem _ hx))]

theorem sum_range_indicator (n j c : Nat) (hj : j < n) :
    ((List.range n).map (fun x => if x = j then c else 0)).sum = c := by
  induction n with
  | zero => omega
  | succ m ih =>
    rw [List.range_succ, List.map_append, List.sum_append]
    simp only [List.map_cons, List.map_nil, List.sum_cons, List.sum_nil]
    by_cases hm : j = m
    · subst hm
      rw [sum_map_zero]
      · simp
      · intro x hx
        have := List.mem_range.mp hx
        have : x ≠ j := by omega
        simp [this]
    · have : ¬ m = j := fun h => hm h.symm
      rw [ih (by omega)]
      simp [this]

theorem dvd_sum_map {α : Type} (l : List α) (f : α → Nat) (d : Nat) (h : ∀ x ∈ l, d ∣ f x) :
    d ∣ (l.map f).sum := by
  induction l with
  | nil => simp
  | cons a t ih =>
    simp only [List.map_cons, List.sum_cons]
    exact Nat.dvd_add (h a (List.mem_cons_self ..)) (ih (fun x hx => h x (List.mem_cons_of_mem _ hx)))

theorem getElem!_of_lt (lens : List Nat) (i : Nat) (h : i < lens.length) : lens[i]! = lens[i] := by
  simp [h]

theorem getElem!_mem (lens : List Nat) (i : Nat) (h : i < lens.length) : lens[i]! ∈ lens := by
  rw [getElem!_of_lt lens i h]; exact List.getElem_mem h

theorem kraft_eq_range (lens : List Nat) :
    kraft20 lens = ((List.range lens.length).map (fun j => width lens[j]!)).sum := by
  unfold kraft20
  congr 1
  apply List.ext_getElem
  · simp
  · intro i h1 h2
    simp only [List.length_map] at h1
    simp [h1]

/-! ### the canonical order -/

theorem precedes_iff (lens : List Nat) (j i : Nat) :
    precedes lens j i = true ↔ lens[j]! < lens[i]! ∨ (lens[j]! = lens[i]! ∧ j < i) := by
  simp [precedes]

theorem width_pos (l : Nat) : 0 < width l := Nat.two_pow_pos _

/-- `j` before `i` ⇒ the interval of `j` ends before the interval of `i` starts. -/
theorem offset_step (lens : List Nat) (i j : Nat) (hj : j < lens.length)
    (hp : precedes lens j i = true) :
    offset20 lens j + width lens[j]! ≤ offset20 lens i := by
  unfold offset20
  have e := sum_range_indicator lens.length j (width lens[j]!) hj
  rw [← e, ← sum_map_add]
  apply sum_map_le
  intro x _
  have hp' := (precedes_iff lens j i).mp hp
  by_cases hx : x = j
  · subst hx
    have : precedes lens x x = false := by simp [precedes]
    simp [this, hp]
  · simp only [hx, if_false, Nat.add_zero]
    by_cases hxj : precedes lens x j = true
    · have h1 := (precedes_iff lens x j).mp hxj
      have : precedes lens x i = true := by
        apply (precedes_iff lens x i).mpr; omega
      simp [hxj, this]
    · simp [hxj]

/-- The interval of `i` ends inside `[0, kraft20]`. -/
theorem offset_top (lens : List Nat) (i : Nat) (hi : i < lens.length) :
    offset20 lens i + width lens[i]! ≤ kraft20 lens := by
  rw [kraft_eq_range]
  unfold offset20
  have e := sum_range_indicator lens.length i (width lens[i]!) hi
  rw [← e, ← sum_map_add]
  apply sum_map_le
  intro x _
  by_cases hx : x = i
  · subst hx
    have : precedes lens x x = false := by simp [precedes]
    simp [this]
  · simp only [hx, if_false, Nat.add_zero]
    split <;> omega

/-- The interval of `i` is aligned to its width. -/
theorem width_dvd_offset (lens : List Nat) (i : Nat) : width lens[i]! ∣ offset20 lens i := by
  unfold offset20
  apply dvd_sum_map
  intro x _
  by_cases hp : precedes lens x i = true
  · have h := (precedes_iff lens x i).mp hp
    simp only [hp, if_true]
    unfold width
    apply Nat.pow_dvd_pow
    omega
  · simp [hp]

theorem offset_eq (lens : List Nat) (i : Nat) :
    canonCode lens i * width lens[i]! = offset20 lens i :=
  Nat.div_mul_cancel (width_dvd_offset lens i)

/-- Two different symbols have disjoint intervals. -/
theorem disjoint (lens : List Nat) (i j : Nat) (hi : i < lens.length) (hj : j < lens.length)
    (hne : i ≠ j) :
    offset20 lens j + width lens[j]! ≤ offset20 lens i ∨
      offset20 lens i + width lens[i]! ≤ offset20 lens j := by
  by_cases h : precedes lens j i = true
  · exact Or.inl (offset_step lens i j hj h)
  · right
    apply offset_step lens j i hi
    apply (precedes_iff lens i j).mpr
    have := mt (precedes_iff lens j i).mpr h
    omega

/-- A code word has at most `ℓᵢ` bits. -/
theorem canonCode_lt (lens : List Nat) (hc : Complete lens) (i : Nat) (hi : i < lens.length) :
    canonCode lens i < 2 ^ lens[i]! := by
  have h1 := offset_top lens i hi
  have h2 := offset_eq lens i
  have hm := hc.2 _ (getElem!_mem lens i hi)
  rw [hc.1] at h1
  have hw := width_pos lens[i]!
  have e : 2 ^ lens[i]! * width lens[i]! = 2 ^ 20 := by
    unfold width; rw [← Nat.pow_add]; congr 1; omega
  rw [← h2, ← e] at h1
  have h3 : canonCode lens i * width lens[i]! < 2 ^ lens[i]! * width lens[i]! := by omega
  exact (Nat.mul_lt_mul_right hw).mp h3

/-! ### the reference decoder on a code word -/

theorem find?_unique {α : Type} (l : List α) (p : α → Bool) (a : α) (ha : a ∈ l) (hp : p a = true)
    (hu : ∀ b ∈ l, p b = true → b = a) : l.find? p = some a := by
  induction l with
  | nil => cases ha
  | cons x t ih =>
    rw [List.find?_cons]
    by_cases hx : p x = true
    · have := hu x (List.mem_cons_self ..) hx
      subst this
      simp [hx]
    · have hxf : p x = false := by simpa using hx
      simp only [hxf]
      have hat : a ∈ t := by
        rcases List.mem_cons.mp ha with h | h
        · subst h; exact absurd hp hx
        · exact h
      exact ih hat (fun b hb => hu b (List.mem_cons_of_mem _ hb))

/-- The whole code word is recognised as symbol `i`. -/
theorem findSym_self (lens : List Nat) (i : Nat) (hi : i < lens.length) :
    findSym lens lens[i]! (canonCode lens i) = some i := by
  unfold findSym
  apply find?_unique
  · exact List.mem_range.mpr hi
  · simp
  · intro b hb hpb
    have hb' := List.mem_range.mp hb
    simp only [Bool.and_eq_true, decide_eq_true_eq] at hpb
    by_cases hne : b = i
    · exact hne
    · exfalso
      have h1 := offset_eq lens b
      have h2 := offset_eq lens i
      rw [hpb.1, hpb.2] at h1
      have hw := width_pos lens[i]!
      have := disjoint lens i b hi hb' (fun h => hne h.symm)
      rw [hpb.1] at this
      omega

/-- No symbol is recognised on a proper prefix of the code word of `i`. -/
theorem findSym_prefix (lens : List Nat) (hc : Complete lens) (i : Nat) (hi : i < lens.length)
    (m : Nat) (hm0 : 0 < m) (hm : m ≤ lens[i]!) :
    findSym lens (lens[i]! - m) (canonCode lens i / 2 ^ m) = none := by
  unfold findSym
  rw [List.find?_eq_none]
  intro b hb hpb
  have hb' := List.mem_range.mp hb
  simp only [Bool.and_eq_true, decide_eq_true_eq] at hpb
  have hne : i ≠ b := by
    intro h; subst h; omega
  have hl20 := (hc.2 _ (getElem!_mem lens i hi)).2
  have h1 := offset_eq lens b
  have h2 := offset_eq lens i
  have hwi := width_pos lens[i]!
  -- width of b is 2^m times the width of i
  have hwb : width lens[b]! = 2 ^ m * width lens[i]! := by
    rw [hpb.1]; unfold width; rw [← Nat.pow_add]; congr 1; omega
  rw [hpb.2, hwb] at h1
  have hq1 := Nat.div_mul_le_self (canonCode lens i) (2 ^ m)
  have hq2 := Nat.lt_mul_div_succ (canonCode lens i) (Nat.two_pow_pos m)
  -- offset b ≤ offset i < offset b + width b
  have ha : offset20 lens b ≤ offset20 lens i := by
    rw [← h1, ← h2, ← Nat.mul_assoc]
    exact Nat.mul_le_mul_right _ hq1
  have hb2 : offset20 lens i < offset20 lens b + width lens[b]! := by
    rw [hwb, ← h1, ← h2]
    have : canonCode lens i / 2 ^ m * (2 ^ m * width lens[i]!) + 2 ^ m * width lens[i]!
        = (2 ^ m * (canonCode lens i / 2 ^ m + 1)) * width lens[i]! := by
      rw [Nat.mul_add, Nat.add_mul, Nat.mul_one, Nat.mul_comm (2 ^ m) (canonCode lens i / 2 ^ m),
        Nat.mul_assoc]
    rw [this]
    exact (Nat.mul_lt_mul_right hwi).mpr hq2
  have := disjoint lens i b hi hb' hne
  omega

theorem bit_step (c m : Nat) : 2 * (c / 2 ^ (m + 1)) + (bit c m).toNat = c / 2 ^ m := by
  unfold bit
  rw [Nat.pow_succ, ← Nat.div_div_eq_div_mul]
  by_cases h : c / 2 ^ m % 2 = 1
  · simp only [h, decide_true, Bool.toNat_true]; omega
  · simp only [h, decide_false, Bool.toNat_false]; omega

/-- The decoder loop, having read all but the last `m+1` bits of the code word
of `i`, goes on to return `i` and leaves exactly `r` unread. -/
theorem decodeAux_word (lens : List Nat) (hc : Complete lens) (i : Nat) (hi : i < lens.length)
    (r : List Bool) :
    ∀ m fuel, m + 1 ≤ lens[i]! → m + 1 ≤ fuel →
      decodeAux lens fuel (lens[i]! - (m + 1)) (canonCode lens i / 2 ^ (m + 1))
        (bitsMSB (m + 1) (canonCode lens i) ++ r) = some (i, r) := by
  intro m
  induction m with
  | zero =>
    intro fuel h1 h2
    obtain ⟨f, rfl⟩ : ∃ f, fuel = f + 1 := ⟨fuel - 1, by omega⟩
    simp only [bitsMSB, List.cons_append, List.nil_append, decodeAux]
    rw [bit_step, Nat.pow_zero, Nat.div_one]
    have e : lens[i]! - (0 + 1) + 1 = lens[i]! := by omega
    rw [e, findSym_self lens i hi]
  | succ m ih =>
    intro fuel h1 h2
    obtain ⟨f, rfl⟩ : ∃ f, fuel = f + 1 := ⟨fuel - 1, by omega⟩
    rw [bitsMSB, List.cons_append, decodeAux]
    rw [bit_step]
    have e : lens[i]! - (m + 1 + 1) + 1 = lens[i]! - (m + 1) := by omega
    rw [e, findSym_prefix lens hc i hi (m + 1) (by omega) (by omega)]
    exact ih f (by omega) (by omega)

/-- Decoding one code word followed by anything. -/
theorem decodeSym_encodeSym (lens : List Nat) (hc : Complete lens) (i : Nat) (hi : i < lens.length)
    (r : List Bool) : decodeSym lens (encodeSym lens i ++ r) = some (i, r) := by
  have hl := hc.2 _ (getElem!_mem lens i hi)
  unfold decodeSym encodeSym
  obtain ⟨m, hm⟩ : ∃ m, lens[i]! = m + 1 := ⟨lens[i]! - 1, by omega⟩
  have h := decodeAux_word lens hc i hi r m 20 (by omega) (by omega)
  have hlt := canonCode_lt lens hc i hi
  rw [← hm, Nat.sub_self, Nat.div_eq_of_lt hlt] at h
  exact h

end LbzVerif.Lemmas.PrefixCanon
