/-
  Lemmas.Race.SchedDProt — `fp_protected`: in a reachable state, every access
  in the footprint of a section in progress respects the discipline.
-/
import LbzVerif.Lemmas.Race.SchedDFootprint

namespace LbzVerif.Model.Race.D
open LbzVerif.Model.SchedD LbzVerif.Lemmas.SchedD

theorem pfacts_reach {c : Cfg} (hW : 0 < c.W) {s : State} (h : Reach c s) : PFacts c s :=
  ⟨ai_reach h, ni_reach hW h, sq_reach hW h⟩

theorem prot_source {c : Cfg} {s : State} (t : Thread) (w : Bool) {v : DVar}
    (hv : staticOwner v = some (.lock .source)) : Prot c s ⟨t, v, w, [.source]⟩ :=
  prot_static (o := .lock .source) hv (by simp [Respects])

theorem prot_sink {c : Cfg} {s : State} (t : Thread) (w : Bool) {v : DVar} (L : List Lock)
    (hL : Lock.sink ∈ L) (hv : staticOwner v = some (.lock .sink)) : Prot c s ⟨t, v, w, L⟩ :=
  prot_static (o := .lock .sink) hv hL

theorem prot_own {c : Cfg} {s : State} (t : Thread) (w : Bool) (L : List Lock) {v : DVar}
    (hv : staticOwner v = some (.thread t)) : Prot c s ⟨t, v, w, L⟩ :=
  prot_static (o := .thread t) hv rfl

/-- split a footprint at its top-level `++` -/
macro "prot_split" : tactic => `(tactic| repeat (with_reducible apply allProt_append))

/-- the pieces that need no hypothesis -/
macro "prot_auto" : tactic =>
  `(tactic| all_goals first
    | exact allProt_select _ _ _
    | exact allProt_release _ _ _
    | exact allProt_discard _ _ _
    | exact allProt_unord _ _ _
    | exact allProt_rds _ _ (by decide)
    | exact allProt_wrs _ _ (by decide)
    | skip)

/-- the block an in-range `attach()` resolves to is in `input_q` -/
theorem attach_alive {c : Cfg} {s : State} {p : Nat} (hh : headOffs c s ≤ p)
    (ht : p < tailOffs c s) : alive s (p / c.W) :=
  ⟨div_lt_of_lt_offs ht, Or.inl (fresh_of_pos (h := s.head) hh ht)⟩

theorem fp_protected {c : Cfg} {s : State} (F : PFacts c s) {x : Sec} (hp : inProg c s x) :
    AllProt c s (fp c s x) := by
  cases x with
  | rTake =>
    exact allProt_cons (prot_source _ _ rfl) (allProt_cons (prot_source _ _ rfl)
      (allProt_cons (prot_source _ _ rfl) (allProt_nil c s)))
  | rQuit =>
    exact allProt_cons (prot_source _ _ rfl) (allProt_cons (prot_source _ _ rfl) (allProt_nil c s))
  | rBlock =>
    have hr : s.rph = .hold := hp
    simp only [fp]
    prot_split
    prot_auto
    · exact allProt_cons (prot_cfg _ _ _) (allProt_cons (prot_inBuf_reader hr _ _)
        (allProt_cons (prot_own _ _ _ rfl) (allProt_cons (prot_own _ _ _ rfl)
        (allProt_cons (prot_cfg _ _ _) (allProt_cons (prot_inBlk_reader hr _ _)
        (allProt_cons (prot_static (o := .writer .reader .sched) rfl (by simp [Respects, rd]))
        (allProt_cons (prot_scan_reader hr _ _) (allProt_nil c s))))))))
    · exact allProt_cons (prot_static (o := .writer .reader .sched) rfl (by simp [Respects, wr, S]))
        (allProt_cons (prot_inBlk_reader hr _ _) (allProt_cons (prot_scan_reader hr _ _)
        (allProt_nil c s)))
    · exact allProt_cons (prot_source _ _ rfl) (allProt_cons (prot_source _ _ rfl)
        (allProt_nil c s))
  | rEmpty =>
    have hr : s.rph = .hold := hp
    exact allProt_cons (prot_cfg _ _ _) (allProt_cons (prot_inBuf_reader hr _ _)
      (allProt_cons (prot_own _ _ _ rfl) (allProt_cons (prot_own _ _ _ rfl)
      (allProt_cons (prot_source _ _ rfl) (allProt_cons (prot_source _ _ rfl)
      (allProt_nil c s))))))
  | rEof =>
    simp only [fp]
    prot_split
    prot_auto
    exact allProt_cons (prot_wr_S _ (by decide)) (allProt_nil c s)
  | wDone =>
    have ho : 0 < s.outq := hp
    simp only [fp]
    prot_split
    prot_auto
    exact allProt_cons (prot_sink _ _ _ (by simp) rfl) (allProt_cons (prot_sink _ _ _ (by simp) rfl)
      (allProt_cons (prot_sink _ _ _ (by simp) rfl) (allProt_cons (prot_sink_writer ho _ _)
      (allProt_cons (prot_own _ _ _ rfl) (allProt_cons (prot_own _ _ _ rfl)
      (allProt_cons (prot_cfg _ _ _) (allProt_cons (prot_sink_writer ho _ _)
      (allProt_cons (prot_cfg _ _ _) (allProt_cons (prot_cfg _ _ _)
      (allProt_cons (prot_rd_S _ (by decide)) (allProt_cons (prot_wr_S _ (by decide))
      (allProt_nil c s))))))))))))
  | idle i =>
    exact allProt_cons (prot_rd_S _ (by decide)) (allProt_rds _ _ (by decide))
  | reorder i ob =>
    have hob : ob ∈ s.reordQ := by
      simp only [inProg, stepReorder] at hp
      split at hp
      · next hg =>
        simp only [Bool.and_eq_true, List.contains_iff_mem] at hg
        exact hg.1.2
      · simp at hp
    simp only [fp]
    prot_split
    prot_auto
    · exact allProt_cons (prot_rd_S _ (by decide)) (allProt_nil c s)
    · exact allProt_cons (prot_out_queue hob _ _ _ (by simp [S]))
        (allProt_cons (prot_out_queue hob _ _ _ (by simp [S]))
        (allProt_cons (prot_sink _ _ _ (by simp) rfl) (allProt_cons (prot_sink _ _ _ (by simp) rfl)
        (allProt_nil c s))))
  | parseStart i =>
    have hd : s.pdone = false := by
      simp only [inProg, stepParseStart] at hp
      split at hp
      · next hg =>
        simp only [Bool.and_eq_true, beq_iff_eq] at hg
        exact Leak.select_parse_pdone hg.1.2
      · simp at hp
    simp only [fp]
    prot_split
    prot_auto
    · exact allProt_cons (prot_rd_S _ (by decide)) (allProt_nil c s)
    · exact allProt_attach _ _ (fun ht => attach_alive (F.ai.hp hd) ht)
  | retrStart i j =>
    have hj : j ∈ s.retrQ := by
      simp only [inProg, stepRetrStart] at hp
      split at hp
      · next hg =>
        simp only [Bool.and_eq_true, List.contains_iff_mem] at hg
        exact hg.1.2
      · simp at hp
    simp only [fp]
    prot_split
    prot_auto
    · exact allProt_cons (prot_rd_S _ (by decide)) (allProt_nil c s)
    · exact allProt_cons (prot_retr_queue hj _ _ _ (by simp [S])) (allProt_nil c s)
    · exact allProt_attach _ _ (fun ht => attach_alive (F.ai.arQ j hj) ht)
  | emitStart i e =>
    have he : e ∈ s.emitQ := by
      simp only [inProg, stepEmitStart] at hp
      split at hp
      · next hg =>
        simp only [Bool.and_eq_true, List.contains_iff_mem] at hg
        exact hg.1.2
      · simp at hp
    simp only [fp]
    prot_split
    prot_auto
    · exact allProt_cons (prot_rd_S _ (by decide)) (allProt_nil c s)
    · exact allProt_cons (prot_emit_queue he _ _ _ (by simp [S])) (allProt_nil c s)
  | scanStart i sp =>
    have hsp : sp ∈ s.scanQ := by
      simp only [inProg, stepScanStart] at hp
      split at hp
      · next hg =>
        simp only [Bool.and_eq_true, List.contains_iff_mem] at hg
        exact hg.1.2
      · simp at hp
    simp only [fp]
    prot_split
    prot_auto
    · exact allProt_cons (prot_rd_S _ (by decide)) (allProt_nil c s)
    · exact allProt_cons (prot_scan_queue hsp _ _ _ (by simp [S])) (allProt_nil c s)
    · exact allProt_attach _ _ (fun ht => attach_alive (F.ai.arS sp hsp) ht)
  | parseEnd k =>
    have hk : s.pphase = some k := hp
    have hatt : ∀ kk, k = some kk → Thread.parser ∈ attThreads s kk ∧ kk < s.rd := by
      intro kk e; subst e
      exact ⟨mem_att_parser hk, F.ni.pkb kk hk⟩
    simp only [fp]
    prot_split
    prot_auto
    · exact allProt_cons (prot_own _ _ _ rfl) (allProt_cons (prot_own _ _ _ rfl) (allProt_nil c s))
    · exact allProt_bufRead _ _ hatt
    · exact allProt_detach _ _ (fun kk e =>
        ⟨(hatt kk e).2, Or.inr (attached_of_mem (hatt kk e).1)⟩)
    · exact allProt_cons (prot_inSlots_SS _ _)
        (allProt_cons (prot_static (o := .lock .source) rfl (by simp [Respects, SS, wr]))
        (allProt_nil c s))
  | retrEnd j k =>
    have hm : Phase.retr j k ∈ s.busy := hp
    have hatt : ∀ kk, k = some kk → Thread.busy (.retr j k) ∈ attThreads s kk ∧ kk < s.rd := by
      intro kk e; subst e
      exact ⟨mem_att_busy hm rfl, F.ni.kb j kk hm⟩
    simp only [fp]
    prot_split
    prot_auto
    · exact allProt_cons (prot_retr_thread hm rfl _ _) (allProt_cons (prot_retr_thread hm rfl _ _)
        (allProt_nil c s))
    · exact allProt_bufRead _ _ hatt
    · exact allProt_detach _ _ (fun kk e =>
        ⟨(hatt kk e).2, Or.inr (attached_of_mem (hatt kk e).1)⟩)
    · exact allProt_cons (prot_retr_thread hm rfl _ _) (allProt_cons (prot_retr_thread hm rfl _ _)
        (allProt_nil c s))
  | retrPost e =>
    have hm : Phase.retr2 e ∈ s.busy := hp
    simp only [fp]
    prot_split
    prot_auto
    · exact allProt_cons (prot_retr_thread hm rfl _ _) (allProt_cons (prot_retr_thread hm rfl _ _)
        (allProt_cons (prot_emit_thread hm rfl _ _) (allProt_nil c s)))
    · exact allProt_cons (prot_emit_thread hm rfl _ _) (allProt_nil c s)
  | emitEnd e =>
    have hm : Phase.emit e ∈ s.busy := hp
    simp only [fp]
    prot_split
    prot_auto
    · exact allProt_cons (prot_cfg _ _ _) (allProt_cons (prot_emit_thread hm rfl _ _)
        (allProt_cons (prot_emit_thread hm rfl _ _) (allProt_cons (prot_out_thread hm _ _)
        (allProt_nil c s))))
    · exact allProt_cons (prot_emit_thread hm rfl _ _) (allProt_cons (prot_out_thread hm _ _)
        (allProt_nil c s))
  | scanEnd st k =>
    have hm : Phase.scan st k ∈ s.busy := hp
    have hatt : ∀ kk, some k = some kk →
        Thread.busy (.scan st k) ∈ attThreads s kk ∧ kk < s.rd := by
      intro kk e
      have e' : k = kk := Option.some.inj e
      subst e'
      exact ⟨mem_att_busy hm rfl, F.sq.bk _ hm⟩
    simp only [fp]
    prot_split
    prot_auto
    · exact allProt_bufRead _ _ hatt
    · exact allProt_detach _ _ (fun kk e =>
        ⟨(hatt kk e).2, Or.inr (attached_of_mem (hatt kk e).1)⟩)
    · exact allProt_cons (prot_scan_thread hm _ _) (allProt_cons (prot_scan_thread hm _ _)
        (allProt_nil c s))

end LbzVerif.Model.Race.D
