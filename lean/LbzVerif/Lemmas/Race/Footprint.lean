/-
  Lemmas.Race.Footprint — every access in the footprint of a section that is
  in progress respects the discipline (`Protected`): guarded variables under
  their lock, heap objects either queue-held (and then under the queue's lock)
  or held by the accessing thread, configuration read-only, `next_id` /
  `ispec.total` reader-only, `ospec.total` writer-only.

  No reachability is needed here: the footprints only mention objects the
  section's thread holds by virtue of its phase, or members of a queue whose
  lock it holds.  (Reachability enters through uniqueness of ownership.)
-/
import LbzVerif.Lemmas.Race.Owner

namespace LbzVerif.Model.Race.C
open LbzVerif.Model.SchedC

variable {α σ : Type}

/-- the access respects the discipline of `Race.C.disc` in state `s` -/
abbrev Prot (s : State α σ) (a : Acc) : Prop := (disc (α := α) (σ := σ)).Protected s a

/-- all accesses of a list are protected -/
def AllProt (s : State α σ) (l : List Acc) : Prop := ∀ a ∈ l, Prot s a

theorem allProt_nil (s : State α σ) : AllProt s [] := fun _ h => absurd h List.not_mem_nil

theorem allProt_cons {s : State α σ} {a : Acc} {l : List Acc} (h : Prot s a) (t : AllProt s l) :
    AllProt s (a :: l) := by
  intro b hb
  rcases List.mem_cons.mp hb with rfl | hb
  · exact h
  · exact t b hb

theorem allProt_append {s : State α σ} {l₁ l₂ : List Acc} (h₁ : AllProt s l₁) (h₂ : AllProt s l₂) :
    AllProt s (l₁ ++ l₂) := by
  intro b hb
  rcases List.mem_append.mp hb with hb | hb
  · exact h₁ b hb
  · exact h₂ b hb

theorem prot_static {s : State α σ} {a : Acc} {o : Owner Thread} (h : staticOwner a.var = some o)
    (r : Respects a o) : Prot s a :=
  ⟨o, by simp only [disc, owns, h], r⟩

theorem prot_held {s : State α σ} {a : Acc} {h : Holder} (hs : staticOwner a.var = none)
    (hh : holds s a.var h) (r : Respects a h.owner) : Prot s a :=
  ⟨h.owner, by simp only [disc, owns, hs]; exact ⟨h, hh, rfl⟩, r⟩

/-! ### membership gives a positive count -/

theorem cntI_pos {ib : IBlk α} {q : List (IBlk α)} (h : ib ∈ q) : 0 < cntI ib.pos.major q := by
  induction q with
  | nil => cases h
  | cons y l ih =>
    rw [cntI_cons]
    rcases List.mem_cons.mp h with rfl | h
    · rw [ind_pos rfl]; omega
    · have := ih h; omega

theorem cntW_pos {w : WBlk σ} {q : List (WBlk σ)} (h : w ∈ q) : 0 < cntW w.pos q := by
  induction q with
  | nil => cases h
  | cons y l ih =>
    rw [cntW_cons]
    rcases List.mem_cons.mp h with rfl | h
    · rw [ind_pos rfl]; omega
    · have := ih h; omega

theorem phaseOf_eq {s : State α σ} {i : Nat} {p : WPhase α σ} (h : s.ws[i]? = some p) :
    phaseOf s i = p := by simp [phaseOf, h]

/-! ### heap objects -/

/-- an in_blk in `coll_q`, accessed under `sched_mutex` -/
theorem prot_in_coll {s : State α σ} {ib : IBlk α} (h : ib ∈ s.collQ) (t : Thread) (w : Bool)
    (L : List Lock) (hL : Lock.sched ∈ L) : Prot s ⟨t, .inBlk ib.pos.major, w, L⟩ :=
  prot_held (h := .queue .coll) rfl (by simp only [holds, holdCnt, inHold]; exact cntI_pos h) hL

/-- a work_blk in `trans_q`, accessed under `sched_mutex` -/
theorem prot_wb_trans {s : State α σ} {b : WBlk σ} (h : b ∈ s.transQ) (t : Thread) (w : Bool)
    (L : List Lock) (hL : Lock.sched ∈ L) : Prot s ⟨t, .workBlk b.pos, w, L⟩ :=
  prot_held (h := .queue .trans) rfl (by simp only [holds, holdCnt, wbHold]; exact cntW_pos h) hL

/-- a work_blk in `reord_q`, accessed under `sched_mutex` -/
theorem prot_wb_reord {s : State α σ} {b : WBlk σ} (h : b ∈ s.reordQ) (t : Thread) (w : Bool)
    (L : List Lock) (hL : Lock.sched ∈ L) : Prot s ⟨t, .workBlk b.pos, w, L⟩ :=
  prot_held (h := .queue .reord) rfl (by simp only [holds, holdCnt, wbHold]; exact cntW_pos h) hL

/-- the in_blk a worker holds -/
theorem prot_in_worker {s : State α σ} {i : Nat} {p : WPhase α σ} (hw : s.ws[i]? = some p)
    {m : Nat} (hc : 0 < inCnt m p) (w : Bool) (L : List Lock) :
    Prot s ⟨.worker i, .inBlk m, w, L⟩ :=
  prot_held (h := .thread (.worker i)) rfl
    (by simp only [holds, holdCnt, inHold, phaseOf_eq hw]; exact hc) rfl

/-- the work_blk a worker holds -/
theorem prot_wb_worker {s : State α σ} {i : Nat} {p : WPhase α σ} (hw : s.ws[i]? = some p)
    {x : Pos} (hc : 0 < wbCnt x p) (w : Bool) (L : List Lock) :
    Prot s ⟨.worker i, .workBlk x, w, L⟩ :=
  prot_held (h := .thread (.worker i)) rfl
    (by simp only [holds, holdCnt, wbHold, phaseOf_eq hw]; exact hc) rfl

/-- the output buffer a worker holds -/
theorem prot_ob_worker {s : State α σ} {i : Nat} {p : WPhase α σ} (hw : s.ws[i]? = some p)
    {x : Pos} (hc : 0 < obCnt x p) (w : Bool) (L : List Lock) :
    Prot s ⟨.worker i, .outBuf x, w, L⟩ :=
  prot_held (h := .thread (.worker i)) rfl
    (by simp only [holds, holdCnt, obHold, phaseOf_eq hw]; exact hc) rfl

/-- the buffer the reader is filling -/
theorem prot_in_reader {s : State α σ} (hr : s.rd = .hold) (w : Bool) (L : List Lock) :
    Prot s ⟨.reader, .inBlk s.nextId, w, L⟩ :=
  prot_held (h := .thread .reader) rfl
    (by simp [holds, holdCnt, inHold, ind, hr]) rfl

/-- the buffer the writer is writing -/
theorem prot_ob_writer {s : State α σ} {b : WBlk σ} (hw : s.wr = some b) (w : Bool) (L : List Lock) :
    Prot s ⟨.writer, .outBuf b.pos, w, L⟩ :=
  prot_held (h := .thread .writer) rfl
    (by simp [holds, holdCnt, obHold, hw, cntO, ind]) rfl

/-! ### the shared pieces of the footprints -/

theorem allProt_collMembers (s : State α σ) (t : Thread) : AllProt s (rds t S (collMembers s)) := by
  intro a ha
  simp only [rds, collMembers, List.mem_map] at ha
  obtain ⟨v, ⟨ib, hib, rfl⟩, rfl⟩ := ha
  exact prot_in_coll hib t false S (by simp [S])

theorem allProt_transMembers (s : State α σ) (t : Thread) :
    AllProt s (rds t S (transMembers s)) := by
  intro a ha
  simp only [rds, transMembers, List.mem_map] at ha
  obtain ⟨v, ⟨b, hb, rfl⟩, rfl⟩ := ha
  exact prot_wb_trans hb t false S (by simp [S])

theorem allProt_reordMembers (s : State α σ) (t : Thread) :
    AllProt s (rds t S (reordMembers s)) := by
  intro a ha
  simp only [rds, reordMembers, List.mem_map] at ha
  obtain ⟨v, ⟨b, hb, rfl⟩, rfl⟩ := ha
  exact prot_wb_reord hb t false S (by simp [S])

/-- closes `Prot s a` for an access to a global variable -/
macro "prot_global" : tactic =>
  `(tactic| exact prot_static rfl (by simp [Respects, rd, wr, S]))

theorem allProt_guardReads (s : State α σ) (t : Thread) : AllProt s (rds t S guardReads) := by
  simp only [rds, guardReads, List.map_cons, List.map_nil]
  repeat' (first | exact allProt_nil s | refine allProt_cons ?_ ?_)
  all_goals prot_global

theorem allProt_selectFp (s : State α σ) (t : Thread) : AllProt s (selectFp t s) := by
  unfold selectFp
  refine allProt_append (allProt_append (allProt_append (allProt_guardReads s t)
    (allProt_transMembers s t)) (allProt_reordMembers s t)) ?_
  repeat' (first | exact allProt_nil s | refine allProt_cons ?_ ?_)
  all_goals prot_global

theorem allProt_finishedFp (s : State α σ) (t : Thread) : AllProt s (finishedFp t) := by
  simp only [finishedFp, rds, List.map_cons, List.map_nil]
  repeat' (first | exact allProt_nil s | refine allProt_cons ?_ ?_)
  all_goals prot_global

theorem allProt_enqColl {s : State α σ} {t : Thread} {m : Nat}
    (own : Prot s (rd t S (.inBlk m))) : AllProt s (enqColl t s m) := by
  unfold enqColl
  refine allProt_append (allProt_append ?_ (allProt_collMembers s t)) (allProt_selectFp s t)
  refine allProt_cons ?_ (allProt_cons ?_ (allProt_cons own (allProt_nil s)))
  all_goals prot_global

theorem allProt_collectWork {s : State α σ} {t : Thread} {m : Nat} {x : Pos}
    (hin : ∀ w, Prot s ⟨t, .inBlk m, w, []⟩) (hwb : ∀ w, Prot s ⟨t, .workBlk x, w, []⟩) :
    AllProt s (collectWork t m x) := by
  unfold collectWork
  refine allProt_cons ?_ (allProt_cons (hin false) (allProt_cons (hin true)
    (allProt_cons (hwb false) (allProt_cons (hwb true) (allProt_nil s)))))
  prot_global

theorem allProt_releaseIn {s : State α σ} {t : Thread} {m : Nat}
    (hin : ∀ w, Prot s ⟨t, .inBlk m, w, []⟩) : AllProt s (releaseIn t m) := by
  unfold releaseIn
  refine allProt_cons (hin true) (allProt_cons ?_ (allProt_cons ?_ (allProt_nil s)))
  all_goals prot_global

/-! ### every section -/

/-- **the annotation respects the discipline**: every access of a section in
    progress is protected -/
theorem fp_protected (cd : Codec α σ) {s : State α σ} {x : Sec α σ} (hp : inProg cd s x) :
    AllProt s (fp s x) := by
  cases x with
  | rTake =>
    simp only [fp]
    repeat' (first | exact allProt_nil s | refine allProt_cons ?_ ?_)
    all_goals prot_global
  | rDeliver =>
    have hr : s.rd = .hold := hp
    simp only [fp]
    refine allProt_append ?_ (allProt_enqColl (prot_in_reader hr false S))
    refine allProt_cons ?_ (allProt_cons (prot_in_reader hr true []) ?_)
    · prot_global
    repeat' (first | exact allProt_nil s | refine allProt_cons ?_ ?_)
    all_goals prot_global
  | rEmpty =>
    have hr : s.rd = .hold := hp
    simp only [fp]
    refine allProt_cons ?_ (allProt_cons (prot_in_reader hr true []) ?_)
    · prot_global
    repeat' (first | exact allProt_nil s | refine allProt_cons ?_ ?_)
    all_goals prot_global
  | rEof =>
    simp only [fp]
    refine allProt_append (allProt_cons ?_ (allProt_nil s)) (allProt_selectFp s _)
    prot_global
  | wIdle =>
    simp only [fp]
    repeat' (first | exact allProt_nil s | refine allProt_cons ?_ ?_)
    all_goals prot_global
  | wTake =>
    simp only [fp]
    repeat' (first | exact allProt_nil s | refine allProt_cons ?_ ?_)
    all_goals prot_global
  | wDone b =>
    have hw : s.wr = some b := hp
    simp only [fp]
    refine allProt_append ?_ (allProt_selectFp s _)
    refine allProt_cons (prot_ob_writer hw false []) (allProt_cons ?_ (allProt_cons ?_
      (allProt_cons ?_ (allProt_cons (prot_ob_writer hw true []) ?_))))
    iterate 3 prot_global
    repeat' (first | exact allProt_nil s | refine allProt_cons ?_ ?_)
    all_goals prot_global
  | acquire i => exact allProt_nil s
  | spurious i => exact allProt_nil s
  | runCollect i =>
    simp only [fp]
    refine allProt_append (allProt_append ?_ (allProt_collMembers s _)) (allProt_selectFp s _)
    repeat' (first | exact allProt_nil s | refine allProt_cons ?_ ?_)
    all_goals prot_global
  | runCollectSeq i =>
    simp only [fp]
    refine allProt_append (allProt_append ?_ (allProt_collMembers s _)) (allProt_selectFp s _)
    repeat' (first | exact allProt_nil s | refine allProt_cons ?_ ?_)
    all_goals prot_global
  | runTransmit i =>
    simp only [fp]
    refine allProt_append (allProt_append ?_ (allProt_transMembers s _)) (allProt_selectFp s _)
    repeat' (first | exact allProt_nil s | refine allProt_cons ?_ ?_)
    all_goals prot_global
  | runReorder i w =>
    obtain ⟨_, _, hq⟩ := hp
    have hm : w ∈ s.reordQ := by
      cases hq' : s.reordQ with
      | nil => rw [hq'] at hq; cases hq
      | cons a l => rw [hq'] at hq; simp only [List.head?_cons, Option.some.injEq] at hq; simp [hq]
    have hS : Lock.sched ∈ S := by simp [S]
    simp only [fp]
    refine allProt_append (allProt_append ?_ (allProt_reordMembers s _)) (allProt_selectFp s _)
    refine allProt_cons ?_ (allProt_cons ?_ (allProt_cons ?_
      (allProt_cons (prot_wb_reord hm _ false S hS) (allProt_cons ?_ (allProt_cons ?_
      (allProt_cons ?_ (allProt_cons ?_ (allProt_cons ?_
      (allProt_cons (prot_wb_reord hm _ true S hS) (allProt_nil s))))))))))
    all_goals prot_global
  | runWait i =>
    simp only [fp]
    refine allProt_cons ?_ (allProt_finishedFp s _)
    prot_global
  | runExit i =>
    simp only [fp]
    refine allProt_cons ?_ (allProt_finishedFp s _)
    prot_global
  | c1Requeue i ib =>
    obtain ⟨hw, _⟩ := hp
    have hin : ∀ w L, Prot s ⟨.worker i, .inBlk ib.pos.major, w, L⟩ := fun w L =>
      prot_in_worker hw (by simp [inCnt, ind]) w L
    have hwb : ∀ w L, Prot s ⟨.worker i, .workBlk ib.pos, w, L⟩ := fun w L =>
      prot_wb_worker hw (by simp [wbCnt, ind]) w L
    simp only [fp]
    exact allProt_append (allProt_collectWork (fun w => hin w []) (fun w => hwb w []))
      (allProt_enqColl (hin false S))
  | c1Release i ib =>
    obtain ⟨hw, _⟩ := hp
    have hin : ∀ w L, Prot s ⟨.worker i, .inBlk ib.pos.major, w, L⟩ := fun w L =>
      prot_in_worker hw (by simp [inCnt, ind]) w L
    have hwb : ∀ w L, Prot s ⟨.worker i, .workBlk ib.pos, w, L⟩ := fun w L =>
      prot_wb_worker hw (by simp [wbCnt, ind]) w L
    simp only [fp]
    exact allProt_append (allProt_collectWork (fun w => hin w []) (fun w => hwb w []))
      (allProt_releaseIn (fun w => hin w []))
  | c2Enq i w =>
    have hw : s.ws[i]? = some (.c2 w) := hp
    have hwb : ∀ b L, Prot s ⟨.worker i, .workBlk w.pos, b, L⟩ := fun b L =>
      prot_wb_worker hw (by simp [wbCnt, ind]) b L
    simp only [fp]
    refine allProt_append (allProt_append ?_ (allProt_transMembers s _)) (allProt_selectFp s _)
    refine allProt_cons (hwb false []) (allProt_cons (hwb true []) (allProt_cons ?_
      (allProt_cons ?_ (allProt_cons (hwb false S) (allProt_nil s)))))
    all_goals prot_global
  | t1Enq i w =>
    have hw : s.ws[i]? = some (.t1 w) := hp
    have hwb : ∀ b L, Prot s ⟨.worker i, .workBlk w.pos, b, L⟩ := fun b L =>
      prot_wb_worker hw (by simp [wbCnt, ind]) b L
    have hob : ∀ b L, Prot s ⟨.worker i, .outBuf w.pos, b, L⟩ := fun b L =>
      prot_ob_worker hw (by simp [obCnt, ind]) b L
    simp only [fp]
    refine allProt_append (allProt_append ?_ (allProt_reordMembers s _)) (allProt_selectFp s _)
    refine allProt_cons (hwb false []) (allProt_cons (hwb true []) (allProt_cons (hob true [])
      (allProt_cons ?_ (allProt_cons ?_ (allProt_cons ?_ (allProt_cons ?_
      (allProt_cons (hwb false S) (allProt_nil s))))))))
    all_goals prot_global
  | s1Requeue i wo ib =>
    have hw : s.ws[i]? = some (.s1 wo (some ib)) := hp
    have hin : ∀ w L, Prot s ⟨.worker i, .inBlk ib.pos.major, w, L⟩ := fun w L =>
      prot_in_worker hw (by simp [inCnt, ind]) w L
    have hwb : ∀ w L, Prot s ⟨.worker i, .workBlk (seqKey wo ib), w, L⟩ := fun w L =>
      prot_wb_worker hw (by cases wo <;> simp [wbCnt, seqKey, ind])
        w L
    simp only [fp]
    exact allProt_append (allProt_collectWork (fun w => hin w []) (fun w => hwb w []))
      (allProt_enqColl (hin false S))
  | s1Release i wo ib =>
    have hw : s.ws[i]? = some (.s1 wo (some ib)) := hp
    have hin : ∀ w L, Prot s ⟨.worker i, .inBlk ib.pos.major, w, L⟩ := fun w L =>
      prot_in_worker hw (by simp [inCnt, ind]) w L
    have hwb : ∀ w L, Prot s ⟨.worker i, .workBlk (seqKey wo ib), w, L⟩ := fun w L =>
      prot_wb_worker hw (by cases wo <;> simp [wbCnt, seqKey, ind])
        w L
    simp only [fp]
    exact allProt_append (allProt_collectWork (fun w => hin w []) (fun w => hwb w []))
      (allProt_releaseIn (fun w => hin w []))
  | s1Flush i w =>
    simp only [fp]
    refine allProt_cons ?_ (allProt_selectFp s _)
    prot_global
  | s2Full i w =>
    simp only [fp]
    refine allProt_cons ?_ (allProt_selectFp s _)
    prot_global
  | s2Part i w =>
    simp only [fp]
    refine allProt_append (allProt_cons ?_ (allProt_cons ?_ (allProt_nil s))) (allProt_selectFp s _)
    all_goals prot_global
  | finishIO =>
    simp only [fp]
    repeat' (first | exact allProt_nil s | refine allProt_cons ?_ ?_)
    all_goals prot_global

end LbzVerif.Model.Race.C
