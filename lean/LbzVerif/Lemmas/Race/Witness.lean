/-
  Lemmas.Race.Witness — concrete reachable states for the non-vacuity examples
  of C12 (configuration / codec / input of `Lemmas.SchedC.Witness`: two
  workers, chunk size 2, input `[0,1,0,1,0]`).
-/
import LbzVerif.Lemmas.SchedC.Witness
import LbzVerif.Model.Race.SchedC
import LbzVerif.Model.Race.Copy

namespace LbzVerif.Model.Race.C
open LbzVerif.Model.SchedC

open Label in
/-- both workers inside the unlocked part of `do_collect`, on chunks 0 and 1 -/
def wTwoPath : List Label :=
  [rTake, rDeliver 0, rTake, rDeliver 0, acquire 0, run 0 0, acquire 1, run 1 0]

open Label in
/-- both workers inside `encode()` (blocks (0,0) and (1,0)) while the reader
    fills buffer 2: three threads in unlocked phases -/
def wThreePath : List Label := wTwoPath ++ [cont 0 0, cont 1 0, rTake]

def wTwo : State Nat (List Nat) :=
  (runLabels wCfg wCodec (init wCfg wInput) wTwoPath).getD (init wCfg wInput)
def wThree : State Nat (List Nat) :=
  (runLabels wCfg wCodec (init wCfg wInput) wThreePath).getD (init wCfg wInput)

theorem wTwo_run : runLabels wCfg wCodec (init wCfg wInput) wTwoPath = some wTwo := by decide
theorem wThree_run : runLabels wCfg wCodec (init wCfg wInput) wThreePath = some wThree := by decide

theorem wTwo_reach : Reach wCfg wCodec wInput wTwo := reach_of_run _ .init wTwo_run
theorem wThree_reach : Reach wCfg wCodec wInput wThree := reach_of_run _ .init wThree_run

def ib0 : IBlk Nat := ⟨⟨0, 0⟩, [0, 1]⟩
def ib1 : IBlk Nat := ⟨⟨1, 0⟩, [0, 1]⟩
def wb0 : WBlk (List Nat) := ⟨⟨0, 0⟩, ⟨1, 0⟩, [0, 1]⟩
def wb1 : WBlk (List Nat) := ⟨⟨1, 0⟩, ⟨2, 0⟩, [0, 1]⟩

theorem wTwo_ws : wTwo.ws = [.c1 ib0, .c1 ib1] := by decide
theorem wThree_ws : wThree.ws = [.c2 wb0, .c2 wb1] ∧ wThree.rd = .hold ∧ wThree.nextId = 2 := by
  decide

end LbzVerif.Model.Race.C

namespace LbzVerif.Model.Race.Cp
open LbzVerif.Model.Copy

def grun : List Label → GSt → Option GSt
  | [], g => some g
  | l :: ls, g => (gstep g l).bind (grun ls)

theorem greach_of_grun : ∀ (ls : List Label) {g0 g1 g : GSt}, GReach g0 g1 → grun ls g1 = some g →
    GReach g0 g
  | [], _, _, _, hr, h => by simp only [grun, Option.some.injEq] at h; subst h; exact hr
  | l :: ls, _, g1, _, hr, h => by
    simp only [grun] at h
    cases hs : gstep g1 l with
    | none => simp [hs] at h
    | some g2 => rw [hs] at h; exact greach_of_grun ls (.step l hr hs) h

/-- a 3-byte input: the first buffer is in `output_q`… -/
def cpPath : List Label := [.srcTake, .srcRead 3, .srcRead 0, .srcDispatch, .srcPush, .snkShift]

/-- the writer is writing buffer 0 while the reader (at end of input) is about
    to set `eof` -/
def cpMid : GSt := (grun cpPath (ginit [] [7, 8, 9])).getD (ginit [] [])

theorem cpMid_run : grun cpPath (ginit [] [7, 8, 9]) = some cpMid := by decide
theorem cpMid_reach : GReach (ginit [] [7, 8, 9]) cpMid := greach_of_grun _ .refl cpMid_run
theorem cpMid_facts : cpMid.st.snk = .writing [7, 8, 9] ∧ cpMid.st.src = .setEof ∧
    cpMid.nPush = 1 ∧ cpMid.nShift = 1 := by decide

end LbzVerif.Model.Race.Cp
