/-
  Lemmas.Race.Basic — the generic argument: if ownership is unambiguous and
  both accesses respect the owner of their variable, a conflict implies a
  common lock.
-/
import LbzVerif.Model.Race

namespace LbzVerif.Model.Race

variable {S T V X : Type}

/-- two accesses that respect the same owner do not race -/
theorem respects_no_race {a b : Access T V} {o : Owner T} (ha : Respects a o) (hb : Respects b o)
    (hc : conflict a b) : common a b := by
  obtain ⟨hne, _, hw⟩ := hc
  cases o with
  | lock l => exact ⟨l, ha, hb⟩
  | thread t =>
    simp only [Respects] at ha hb
    exact absurd (ha.trans hb.symm) hne
  | frozen =>
    simp only [Respects] at ha hb
    rcases hw with h | h
    · rw [ha] at h; cases h
    · rw [hb] at h; cases h
  | writer t l =>
    obtain ⟨ha1, ha2⟩ := ha
    obtain ⟨hb1, hb2⟩ := hb
    cases haw : a.write <;> cases hbw : b.write
    · rcases hw with h | h
      · rw [haw] at h; cases h
      · rw [hbw] at h; cases h
    · obtain ⟨hbt, hbl⟩ := hb1 hbw
      rcases ha2 haw with h | h
      · exact absurd (h.trans hbt.symm) hne
      · exact ⟨l, h, hbl⟩
    · obtain ⟨hat, hal⟩ := ha1 haw
      rcases hb2 hbw with h | h
      · exact absurd (hat.trans h.symm) hne
      · exact ⟨l, hal, h⟩
    · exact absurd ((ha1 haw).1.trans (hb1 hbw).1.symm) hne

/-- the discipline excludes races in a state with unambiguous ownership -/
theorem protected_no_race {D : Discipline S T V} {s : S} (hu : D.Unique s) {a b : Access T V}
    (ha : D.Protected s a) (hb : D.Protected s b) (hc : conflict a b) : common a b := by
  obtain ⟨oa, hoa, hra⟩ := ha
  obtain ⟨ob, hob, hrb⟩ := hb
  have hv : a.var = b.var := hc.2.1
  rw [hv] at hoa
  have : oa = ob := hu _ _ _ hoa hob
  subst this
  exact respects_no_race hra hrb hc

/-- `AllUnique` + `AllProtected` ⇒ `RaceFree` -/
theorem System.raceFree_of (sys : System S T V X) (hu : sys.AllUnique) (hp : sys.AllProtected) :
    sys.RaceFree := by
  intro s hs x y hx hy a ha b hb hc
  exact protected_no_race (hu s hs) (hp s hs x hx a ha) (hp s hs y hy b hb) hc

end LbzVerif.Model.Race
