/-
  Lemmas.Race.Tie — the annotation is tied to the model: every transition of
  `Model.SchedC.step` is the locked part of a section that is in progress, and
  every shared variable of the model state that the transition changes is
  WRITTEN in that section's footprint.  (So a write the model performs cannot
  be missing from the annotation; with `guarded_under_lock` it is made under
  the guarding lock.)
-/
import LbzVerif.Lemmas.SchedC.StepRel
import LbzVerif.Model.Race.SchedC

namespace LbzVerif.Model.Race.C
open LbzVerif.Model.SchedC

variable {α σ : Type}

/-- the footprint contains a write of `v` -/
def writesVar (l : List Acc) (v : CVar) : Bool := l.any (fun a => a.write && decide (a.var = v))

/-- every model variable that differs between `s` and `s'` is written in `l` -/
structure Covers (s s' : State α σ) (l : List Acc) : Prop where
  workUnits : s'.workUnits ≠ s.workUnits → writesVar l .workUnits = true
  outSlots : s'.outSlots ≠ s.outSlots → writesVar l .outSlots = true
  eof : s'.eof ≠ s.eof → writesVar l .eof = true
  nextTask : s'.nextTask ≠ s.nextTask → writesVar l .nextTask = true
  collQ : s'.collQ ≠ s.collQ → writesVar l .collQ = true
  transQ : s'.transQ ≠ s.transQ → writesVar l .transQ = true
  reordQ : s'.reordQ ≠ s.reordQ → writesVar l .reordQ = true
  order : s'.order ≠ s.order → writesVar l .order = true
  collectToken : s'.collectToken ≠ s.collectToken → writesVar l .collectToken = true
  unfinished : s'.unfinished ≠ s.unfinished → writesVar l .unfinished = true
  nextId : s'.nextId ≠ s.nextId → writesVar l .nextId = true
  inSlots : s'.inSlots ≠ s.inSlots → writesVar l .inSlots = true
  outputQ : s'.outputQ ≠ s.outputQ → writesVar l .outputQ = true

/-- closes one field of `Covers`: unchanged, or the write is in the list -/
macro "covers_field" : tactic =>
  `(tactic| first
    | (intro hne; exact absurd rfl hne)
    | (intro _; simp [writesVar, fp, enqColl, releaseIn, collectWork, selectFp, finishedFp, rd, wr,
        rds, S]))

macro "covers_all" : tactic =>
  `(tactic| (constructor <;> covers_field))

/-- **the annotation covers the model**: each transition belongs to a section
    in progress whose footprint writes every variable the transition changes -/
theorem step_annotated {c : Cfg} {cd : Codec α σ} {s s' : State α σ} {l : Label}
    (h : step c cd s l = some s') : ∃ x, inProg cd s x ∧ Covers s s' (fp s x) := by
  obtain ⟨k, t, hc, he⟩ := step_rel h
  cases hc with
  | rTake hr hi => cases he; exact ⟨.rTake, hr, by covers_all⟩
  | rDeliver hr hi hl => cases he; exact ⟨.rDeliver, hr, by covers_all⟩
  | rEmpty hr hi => cases he; exact ⟨.rEmpty, hr, by covers_all⟩
  | rEof hr hl => cases he; exact ⟨.rEof, hr, by covers_all⟩
  | wTake b q hw hq => cases he; exact ⟨.wTake, hw, by covers_all⟩
  | wDone b hw hl => cases he; exact ⟨.wDone b, hw, by covers_all⟩
  | acquire i hw hl => cases he; exact ⟨.acquire i, hw, by covers_all⟩
  | spurious i hw => cases he; exact ⟨.spurious i, hw, by covers_all⟩
  | runCollect i ib q hw hn hq hwu => cases he; exact ⟨.runCollect i, ⟨hw, hn⟩, by covers_all⟩
  | runCollectSeq i hw hn hg => cases he; exact ⟨.runCollectSeq i, ⟨hw, hn⟩, by covers_all⟩
  | runTransmit i w q hw hn hq hos => cases he; exact ⟨.runTransmit i, ⟨hw, hn⟩, by covers_all⟩
  | runReorder i w q hw hn hq =>
    cases he; exact ⟨.runReorder i w, ⟨hw, hn, by rw [hq]; rfl⟩, by covers_all⟩
  | runWait i hw hn hf => cases he; exact ⟨.runWait i, ⟨hw, hn⟩, by covers_all⟩
  | runExit i hw hn hf => cases he; exact ⟨.runExit i, ⟨hw, hn⟩, by covers_all⟩
  | c1Requeue i ib hw hl hf => cases he; exact ⟨.c1Requeue i ib, ⟨hw, hl⟩, by covers_all⟩
  | c1Release i ib hw hl => cases he; exact ⟨.c1Release i ib, ⟨hw, hl⟩, by covers_all⟩
  | c2Enq i w hw hf => cases he; exact ⟨.c2Enq i w, hw, by covers_all⟩
  | t1Enq i w hw hf => cases he; exact ⟨.t1Enq i w, hw, by covers_all⟩
  | s1Requeue i wo ib hw hl hf => cases he; exact ⟨.s1Requeue i wo ib, hw, by covers_all⟩
  | s1Release i wo ib hw hl => cases he; exact ⟨.s1Release i wo ib, hw, by covers_all⟩
  | s1Flush i w hw hf => cases he; exact ⟨.s1Flush i w, hw, by covers_all⟩
  | s2Full i w hw hf => cases he; exact ⟨.s2Full i w, hw, by covers_all⟩
  | s2Part i w hw hf => cases he; exact ⟨.s2Part i w, hw, by covers_all⟩

/-! ### a footprint only contains accesses of the section's own thread -/

/-- all accesses of the list are made by thread `t` -/
def AllThr (t : Thread) (l : List Acc) : Prop := ∀ a ∈ l, a.thread = t

theorem allThr_nil (t : Thread) : AllThr t [] := fun _ h => absurd h List.not_mem_nil

theorem allThr_cons {t : Thread} {a : Acc} {l : List Acc} (h : a.thread = t) (r : AllThr t l) :
    AllThr t (a :: l) := by
  intro b hb
  rcases List.mem_cons.mp hb with rfl | hb
  · exact h
  · exact r b hb

theorem allThr_append {t : Thread} {l₁ l₂ : List Acc} (h₁ : AllThr t l₁) (h₂ : AllThr t l₂) :
    AllThr t (l₁ ++ l₂) := by
  intro b hb
  rcases List.mem_append.mp hb with hb | hb
  · exact h₁ b hb
  · exact h₂ b hb

theorem allThr_rds (t : Thread) (L : List Lock) (vs : List CVar) : AllThr t (rds t L vs) := by
  intro a ha
  simp only [rds, List.mem_map] at ha
  obtain ⟨v, _, rfl⟩ := ha
  rfl

/-- splits an explicit list / appends into its elements and closes them -/
macro "thr_list" : tactic =>
  `(tactic| repeat' (first
    | exact allThr_nil _
    | exact allThr_rds _ _ _
    | refine allThr_cons rfl ?_
    | refine allThr_append ?_ ?_))

theorem allThr_selectFp (t : Thread) (s : State α σ) : AllThr t (selectFp t s) := by
  unfold selectFp; thr_list

theorem allThr_finishedFp (t : Thread) : AllThr t (finishedFp t) := by
  unfold finishedFp; thr_list

theorem allThr_enqColl (t : Thread) (s : State α σ) (m : Nat) : AllThr t (enqColl t s m) := by
  unfold enqColl
  exact allThr_append (allThr_append (by thr_list) (allThr_rds _ _ _)) (allThr_selectFp t s)

theorem allThr_collectWork (t : Thread) (m : Nat) (x : Pos) : AllThr t (collectWork t m x) := by
  unfold collectWork; thr_list

theorem allThr_releaseIn (t : Thread) (m : Nat) : AllThr t (releaseIn t m) := by
  unfold releaseIn; thr_list

/-- **well-formedness of the annotation**: every access listed for a section is
    made by the section's thread -/
theorem fp_thread (s : State α σ) (x : Sec α σ) : AllThr x.thread (fp s x) := by
  cases x <;> simp only [fp, Sec.thread] <;>
    repeat' (first
      | exact allThr_nil _
      | exact allThr_rds _ _ _
      | exact allThr_selectFp _ _
      | exact allThr_finishedFp _
      | exact allThr_enqColl _ _ _
      | exact allThr_collectWork _ _ _
      | exact allThr_releaseIn _ _
      | refine allThr_cons rfl ?_
      | refine allThr_append ?_ ?_)

end LbzVerif.Model.Race.C
