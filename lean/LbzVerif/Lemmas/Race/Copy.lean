/-
  Lemmas.Race.Copy — ownership and protection for the `-cdf` copy pipeline.
-/
import LbzVerif.Model.Race.Copy
import LbzVerif.Lemmas.Race.Basic

namespace LbzVerif.Model.Race.Cp
open LbzVerif.Model.Copy
open LbzVerif.Model.Race.C (Thread CVar CfgVar Acc)

/-- the ghost counters describe the queue: `output_q` holds exactly the
    buffers `nShift … nPush-1`; a writer that holds a buffer has shifted one -/
structure GInv (g : GSt) : Prop where
  len : g.nShift + g.st.queue.length = g.nPush
  snk : snkHolds g.st.snk = true → 1 ≤ g.nShift

theorem ginv_init (hdr inp : List UInt8) : GInv (ginit hdr inp) :=
  ⟨rfl, fun h => by simp [ginit, init, snkHolds] at h⟩

theorem unlock_queue (s : St) : (unlock s).queue = s.queue := by
  unfold unlock; split <;> rfl
theorem unlock_snk (s : St) : (unlock s).snk = s.snk := by
  unfold unlock; split <;> rfl

theorem ginv_step {g g' : GSt} {l : Label} (h : gstep g l = some g') (inv : GInv g) : GInv g' := by
  obtain ⟨i1, i2⟩ := inv
  unfold gstep at h
  cases hs : step g.st l with
  | none => simp [hs] at h
  | some s' =>
    simp only [hs, Option.map_some, Option.some.injEq] at h
    subst h
    cases l with
    | srcTake =>
      simp only [step] at hs
      split at hs
      · split at hs
        · cases hs; exact ⟨by simpa using i1, by simpa using i2⟩
        · cases hs
      · cases hs
    | srcRead hint =>
      simp only [step] at hs
      split at hs
      · split at hs
        · cases hs; exact ⟨by simpa using i1, by simpa using i2⟩
        · cases hs; exact ⟨by simpa using i1, by simpa using i2⟩
      · cases hs
    | srcDispatch =>
      simp only [step] at hs
      split at hs
      · split at hs
        · cases hs; exact ⟨by simpa using i1, by simpa using i2⟩
        · cases hs
          exact ⟨by simpa [unlock_queue] using i1, by simpa [unlock_snk] using i2⟩
      · cases hs
    | srcPush =>
      simp only [step] at hs
      split at hs
      · cases hs
        refine ⟨?_, by simpa using i2⟩
        simp only [List.length_append, List.length_cons, List.length_nil, if_true, reduceCtorEq,
          if_false]
        omega
      · cases hs
    | srcEof =>
      simp only [step] at hs
      split at hs
      · cases hs
        exact ⟨by simpa [unlock_queue] using i1, by simpa [unlock_snk] using i2⟩
      · cases hs
    | snkShift =>
      simp only [step] at hs
      split at hs
      · next b q hk hq =>
        cases hs
        refine ⟨?_, fun _ => by simp⟩
        simp only [hq, List.length_cons] at i1
        simp only [if_true, reduceCtorEq, if_false]
        omega
      · cases hs
    | snkWrite hint =>
      simp only [step] at hs
      split at hs
      · next rest hk =>
        cases hs
        have : 1 ≤ g.nShift := i2 (by simp [hk, snkHolds])
        exact ⟨by simpa using i1, fun _ => by simpa using this⟩
      · cases hs
    | snkRelease =>
      simp only [step] at hs
      split at hs
      · cases hs; exact ⟨by simpa using i1, fun hh => by simp [snkHolds] at hh⟩
      · cases hs
    | snkInc =>
      simp only [step] at hs
      split at hs
      · cases hs
        exact ⟨by simpa [unlock_queue] using i1, fun hh => by simp [unlock_snk, snkHolds] at hh⟩
      · cases hs

theorem ginv_reach {g0 g : GSt} (h0 : GInv g0) (h : GReach g0 g) : GInv g := by
  induction h with
  | refl => exact h0
  | step l _ hs ih => exact ginv_step hs ih

/-- each buffer has at most one holder -/
theorem holder_unique {g : GSt} (inv : GInv g) {k : Nat} {h₁ h₂ : Holder} (a : holds g k h₁)
    (b : holds g k h₂) : h₁ = h₂ := by
  have := inv.len
  cases h₁ <;> cases h₂ <;> simp only [holds] at a b <;> first | rfl | omega

theorem disc_unique {g : GSt} (inv : GInv g) : disc.Unique g := by
  intro v o₁ o₂ h1 h2
  simp only [disc] at h1 h2
  cases v with
  | inBlk k =>
    simp only [owns] at h1 h2
    obtain ⟨a, ha, rfl⟩ := h1
    obtain ⟨b, hb, rfl⟩ := h2
    rw [holder_unique inv ha hb]
  | _ =>
    simp only [owns] at h1 h2
    exact Option.some.inj (h1.symm.trans h2)

/-- closes `Protected` for an access to a global variable -/
macro "cp_global" : tactic =>
  `(tactic| exact ⟨_, (rfl : staticOwner _ = some _), by simp [Respects, rd, wr, S]⟩)

theorem fp_protected {g : GSt} (inv : GInv g) {x : Sec} (hp : inProg g x) :
    ∀ a ∈ fp g x, disc.Protected g a := by
  intro a ha
  cases x with
  | srcTake =>
    simp only [fp, List.mem_cons, List.not_mem_nil, or_false] at ha
    rcases ha with rfl | rfl | rfl <;> cp_global
  | srcRead =>
    obtain ⟨b, v, hs⟩ := hp
    simp only [fp, List.mem_cons, List.not_mem_nil, or_false] at ha
    rcases ha with rfl | rfl | rfl | rfl
    · cp_global
    · exact ⟨_, ⟨.reader, ⟨rfl, by simp [hs, srcHolds]⟩, rfl⟩, rfl⟩
    · cp_global
    · cp_global
  | srcRelease =>
    obtain ⟨b, v, hs⟩ := hp
    simp only [fp, List.mem_cons, List.not_mem_nil, or_false] at ha
    rcases ha with rfl | rfl | rfl
    · exact ⟨_, ⟨.reader, ⟨rfl, by simp [hs, srcHolds]⟩, rfl⟩, rfl⟩
    · cp_global
    · cp_global
  | srcDec =>
    simp only [fp, unlockFp, List.cons_append, List.nil_append, List.mem_cons, List.not_mem_nil,
      or_false] at ha
    rcases ha with rfl | rfl | rfl | rfl | rfl | rfl | rfl | rfl | rfl <;> cp_global
  | srcPush =>
    simp only [fp, List.mem_cons, List.not_mem_nil, or_false] at ha
    rcases ha with rfl | rfl <;> cp_global
  | srcEof =>
    simp only [fp, unlockFp, List.mem_cons, List.not_mem_nil, or_false] at ha
    rcases ha with rfl | rfl | rfl | rfl | rfl | rfl | rfl <;> cp_global
  | snkIdle =>
    simp only [fp, List.mem_cons, List.not_mem_nil, or_false] at ha
    rcases ha with rfl | rfl <;> cp_global
  | snkShift =>
    simp only [fp, List.mem_cons, List.not_mem_nil, or_false] at ha
    rcases ha with rfl | rfl | rfl <;> cp_global
  | snkWrite =>
    obtain ⟨r, hs⟩ := hp
    have h1 : 1 ≤ g.nShift := inv.snk (by simp [hs, snkHolds])
    simp only [fp, List.mem_cons, List.not_mem_nil, or_false] at ha
    rcases ha with rfl | rfl | rfl | rfl | rfl
    · exact ⟨_, ⟨.writer, ⟨by omega, by simp [hs, snkHolds]⟩, rfl⟩, rfl⟩
    all_goals cp_global
  | snkRelease =>
    have hs : g.st.snk = .release := hp
    have h1 : 1 ≤ g.nShift := inv.snk (by simp [hs, snkHolds])
    simp only [fp, List.mem_cons, List.not_mem_nil, or_false] at ha
    rcases ha with rfl | rfl | rfl | rfl
    · cp_global
    · exact ⟨_, ⟨.writer, ⟨by omega, by simp [hs, snkHolds]⟩, rfl⟩, rfl⟩
    · cp_global
    · cp_global
  | snkInc =>
    simp only [fp, unlockFp, List.cons_append, List.nil_append, List.mem_cons, List.not_mem_nil,
      or_false] at ha
    rcases ha with rfl | rfl | rfl | rfl | rfl | rfl | rfl | rfl <;> cp_global
  | mainFinish =>
    simp only [fp, List.mem_cons, List.not_mem_nil, or_false] at ha
    rcases ha with rfl | rfl <;> cp_global

end LbzVerif.Model.Race.Cp
