/-
  Lemmas.Race.SchedDThread — well-formedness of the decompression annotation:
  every access listed in the footprint of a section is made by that section's
  thread (`fp_thread`).  With it, race freedom can be stated over sections of
  different threads (Props.C12.expand_race_free_sections).
-/
import LbzVerif.Model.Race.SchedD

namespace LbzVerif.Model.Race.D
open LbzVerif.Model.SchedD

/-- all accesses of the list are made by thread `t` -/
def AllThr (t : Thread) (l : List Acc) : Prop := ∀ a ∈ l, a.thread = t

theorem allThr_nil (t : Thread) : AllThr t [] := fun _ h => absurd h List.not_mem_nil

theorem allThr_cons {t : Thread} {a : Acc} {l : List Acc} (h : a.thread = t) (r : AllThr t l) :
    AllThr t (a :: l) := by
  intro b hb
  rcases List.mem_cons.mp hb with rfl | hb
  · exact h
  · exact r b hb

theorem allThr_append {t : Thread} {l₁ l₂ : List Acc} (h₁ : AllThr t l₁) (h₂ : AllThr t l₂) :
    AllThr t (l₁ ++ l₂) := by
  intro b hb
  rcases List.mem_append.mp hb with hb | hb
  · exact h₁ b hb
  · exact h₂ b hb

theorem allThr_rds (t : Thread) (L : List Lock) (vs : List DVar) : AllThr t (rds t L vs) := by
  intro a ha
  simp only [rds, List.mem_map] at ha
  obtain ⟨v, _, rfl⟩ := ha
  rfl

theorem allThr_wrs (t : Thread) (L : List Lock) (vs : List DVar) : AllThr t (wrs t L vs) := by
  intro a ha
  simp only [wrs, List.mem_map] at ha
  obtain ⟨v, _, rfl⟩ := ha
  rfl

/-- splits an explicit list / appends into its elements and closes them -/
macro "dthr_list" : tactic =>
  `(tactic| repeat' (first
    | exact allThr_nil _
    | exact allThr_rds _ _ _
    | exact allThr_wrs _ _ _
    | refine allThr_cons rfl ?_
    | refine allThr_append ?_ ?_))

theorem allThr_selectFp (t : Thread) (c : Cfg) (s : State) : AllThr t (selectFp t c s) := by
  unfold selectFp; dthr_list

theorem allThr_attachFp (t : Thread) (c : Cfg) (s : State) (p : Nat) :
    AllThr t (attachFp t c s p) := by
  unfold attachFp; split <;> dthr_list

theorem allThr_bufRead (t : Thread) (k : Option Nat) : AllThr t (bufRead t k) := by
  cases k <;> (unfold bufRead; dthr_list)

theorem allThr_detachFp (t : Thread) (k : Option Nat) : AllThr t (detachFp t k) := by
  cases k <;> (unfold detachFp; dthr_list)

theorem allThr_releaseFp (t : Thread) (s : State) : AllThr t (releaseFp t s) := by
  unfold releaseFp; dthr_list

theorem allThr_discardFp (t : Thread) (c : Cfg) (s : State) : AllThr t (discardFp t c s) := by
  unfold discardFp; dthr_list

theorem allThr_unordFp (t : Thread) (s : State) : AllThr t (unordFp t s) := by
  unfold unordFp; dthr_list

macro "dthr_sec" : tactic =>
  `(tactic| repeat' (first
    | refine allThr_append ?_ ?_
    | refine allThr_cons rfl ?_
    | exact allThr_nil _
    | exact allThr_rds _ _ _
    | exact allThr_wrs _ _ _
    | exact allThr_selectFp _ _ _
    | exact allThr_attachFp _ _ _ _
    | exact allThr_bufRead _ _
    | exact allThr_detachFp _ _
    | exact allThr_releaseFp _ _
    | exact allThr_discardFp _ _ _
    | exact allThr_unordFp _ _))

/-- **fp_thread**: the accesses listed for a section are made by the section's
    thread -/
theorem fp_thread (c : Cfg) (s : State) (x : Sec) : AllThr x.thread (fp c s x) := by
  cases x <;> (unfold fp; simp only [Sec.thread]; dthr_sec)

end LbzVerif.Model.Race.D
