/-
  Lemmas.Race.SchedDWitness — a concrete reachable state of `Model.SchedD` for
  the non-vacuity examples of C12 (expansion): the first 12 labels of the F4
  run of `Lemmas.SchedD.Witness` (n = 2, W = 2, in_slots = 2, out_slots = 4).
  In `wD` the master retriever of the block at 1 (position 2) and the scanner
  of input block 1 are both inside their unlocked regions and both hold a
  reference on input block 1: `ref_count = 3`, the buffer is read-shared.
-/
import LbzVerif.Lemmas.SchedD.Witness
import LbzVerif.Model.Race.SchedD

namespace LbzVerif.Model.Race.D
open LbzVerif.Model.SchedD LbzVerif.Lemmas.SchedD

def wDPath : List Label := traceF4.take 12

def wD : State := (run cfgF4 (init cfgF4) wDPath).getD (init cfgF4)

theorem wD_run : run cfgF4 (init cfgF4) wDPath = some wD := by decide +kernel

theorem wD_reach : Reach cfgF4 wD := reach_run _ Reach.init wD_run

def wJob : Job := ⟨2, 1, none, false⟩

theorem wD_facts : wD.failed = false ∧ wD.busy = [.scan 2 1, .retr wJob (some 1)] ∧
    wD.head = 1 ∧ wD.rd = 3 ∧ wD.pphase = none := by decide +kernel

end LbzVerif.Model.Race.D
