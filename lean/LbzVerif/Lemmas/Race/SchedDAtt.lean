/-
  Lemmas.Race.SchedDAtt — "a running job reads inside the input block it holds
  a reference on".

  `busy_inv_step`: a generic induction principle for predicates on the phases
  of busy workers that the parser's flag writes (`flagPhase`, `Phase.good`)
  do not disturb: such a predicate has to be established only where a phase is
  created (`stepRetrStart`, `stepScanStart`).

  `att_reach`: for every running retriever `.retr j (some k)`:
  `offs k ≤ j.curr < offs (k+1)` — the position it reads from lies in the
  block whose `ref_count` it incremented.  This is what the F5 defect (DESIGN
  7.1, fixed by /repo commit 7623822) violated: a job queued behind
  `head_offs` attached to the head block and read before the start of its
  buffer.  The invariant is established at `stepRetrStart` from
  `attach_in_range` (`AI.arQ`).
-/
import LbzVerif.Model.Race.SchedD
import LbzVerif.Lemmas.SchedD.Input

namespace LbzVerif.Model.Race.D
open LbzVerif.Model.SchedD LbzVerif.Lemmas.SchedD

/-- a predicate on phases that flagging does not disturb and that holds for
    the phases without input attachment -/
structure PhInv (P : Phase → Prop) : Prop where
  flag : ∀ p ph, P ph → P (flagPhase p ph)
  good : ∀ ph, P ph → P (Phase.good ph)
  retr2 : ∀ e, P (.retr2 e)
  emit : ∀ e, P (.emit e)

/-- the phase a `*Start` transition with an `attach()` creates -/
def startPhase (c : Cfg) (s : State) : Label → Option Phase
  | .retrStart j =>
    some (.retr { j with corrupt := j.corrupt || decide (j.curr < headOffs c s) }
      (if tailOffs c s ≤ j.curr then none
       else if decide (j.curr < headOffs c s) then (if s.head < s.rd then some s.head else none)
       else some (j.curr / c.W)))
  | .scanStart sp =>
    some (.scan (if sp / c.W == s.ppos / c.W && sp < s.ppos then s.ppos else sp) (sp / c.W))
  | _ => none

section
variable {P : Phase → Prop}

def BI (P : Phase → Prop) (s : State) : Prop := ∀ ph ∈ s.busy, P ph

theorem BI_eq {s s' : State} (h : BI P s) (e : s'.busy = s.busy) : BI P s' := by
  intro ph hm; rw [e] at hm; exact h ph hm

theorem BI_detach {s : State} (k : Option Nat) (h : BI P s) : BI P (detach s k) := by
  unfold detach; split
  · exact h
  · split
    · exact BI_eq h rfl
    · exact h

theorem BI_erase {s : State} (ph : Phase) (h : BI P s) :
    BI P { s with busy := s.busy.erase ph } :=
  fun x hx => h x (List.mem_of_mem_erase hx)

theorem BI_cons {s : State} {ph : Phase} (h : BI P s) (hp : P ph) :
    BI P { s with busy := ph :: s.busy } := by
  intro x hx
  rcases List.mem_cons.1 hx with e | hm
  · subst e; exact hp
  · exact h x hm

theorem BI_advance {c : Cfg} {s : State} (p : Nat) (h : BI P s) : BI P (advance c s p) :=
  BI_eq h rfl

theorem BI_parsePush (I : PhInv P) {c : Cfg} {s : State} (b : Nat) (h : BI P s) :
    BI P (parsePush c s b) := by
  intro ph hm
  simp only [parsePush, List.mem_map] at hm
  obtain ⟨x, hx, rfl⟩ := hm
  exact I.flag _ x (h x hx)

theorem BI_parseMatch (I : PhInv P) {c : Cfg} {s : State} (b : Nat) (h : BI P s) :
    BI P (parseMatch c s b) := by
  unfold parseMatch
  split
  · exact BI_eq h rfl
  · split
    · intro y hy
      have hy' : y ∈ replaceFirst (Phase.inqAt b) Phase.good s.busy := hy
      rcases mem_replaceFirst _ _ hy' with hy' | ⟨x, hx, _, rfl⟩
      · exact h y hy'
      · exact I.good x (h x hx)
    · split
      · split <;> exact BI_eq h rfl
      · exact BI_eq h rfl

theorem BI_parseFinish (I : PhInv P) {s : State} (u : Nat) (h : BI P s) :
    BI P (parseFinish s u) := by
  intro ph hm
  simp only [parseFinish, List.mem_map] at hm
  obtain ⟨x, hx, rfl⟩ := hm
  exact I.flag _ x (h x hx)

theorem BI_parseVerdict (I : PhInv P) {c : Cfg} {s : State} (r : PRes) (h : BI P s) :
    BI P (parseVerdict c s r) := by
  cases r with
  | err u => exact BI_eq h rfl
  | finish u ok =>
    cases ok with
    | false => exact BI_eq h rfl
    | true => exact BI_parseFinish I u h
  | hdr b => exact BI_parseMatch I b (BI_parsePush I b h)

theorem BI_retrMove {c : Cfg} {s : State} (j : Job) (n : Nat) (h : BI P s) :
    BI P (retrMove c s j n) := by
  unfold retrMove; split
  · exact BI_eq h rfl
  · exact h

theorem BI_retrDone (I : PhInv P) {c : Cfg} {s : State} (j : Job) (n : Nat) (h : BI P s) :
    BI P (retrDone c s j n) := by
  unfold retrDone
  split
  · intro x hx
    rcases List.mem_cons.1 hx with e | hm
    · subst e; exact I.retr2 _
    · exact h x hm
  · intro x hx
    rcases List.mem_cons.1 hx with e | hm
    · subst e; exact I.retr2 _
    · exact h x hm

theorem BI_scanNew {c : Cfg} {s : State} (x : Nat) (h : BI P s) : BI P (scanNew c s x) := by
  unfold scanNew; split <;> exact BI_eq h rfl

theorem BI_scanRequeue {c : Cfg} {s : State} (x hi : Nat) (h : BI P s) :
    BI P (scanRequeue c s x hi) := by
  unfold scanRequeue; split
  · exact BI_eq h rfl
  · exact h

/-- **induction principle** for phase predicates -/
theorem busy_inv_step (I : PhInv P) {c : Cfg} {s s' : State} {l : Label}
    (hs : step c s l = some s') (h : BI P s)
    (hnew : ∀ ph, startPhase c s l = some ph → P ph) : BI P s' := by
  unfold step at hs
  split at hs
  · simp at hs
  · cases l with
    | rTake =>
      simp only at hs; unfold stepRTake at hs; split at hs <;> simp at hs; subst hs
      exact BI_eq h rfl
    | rQuit =>
      simp only at hs; unfold stepRQuit at hs; split at hs <;> simp at hs; subst hs
      exact BI_eq h rfl
    | rBlock =>
      simp only at hs; unfold stepRBlock at hs; split at hs
      · dsimp only at hs; split at hs <;> simp only [Option.some.injEq] at hs <;> subst hs <;>
          exact BI_eq h rfl
      · simp at hs
    | rEmpty =>
      simp only at hs; unfold stepREmpty at hs; split at hs <;> simp at hs; subst hs
      exact BI_eq h rfl
    | rEof =>
      simp only at hs; unfold stepREof at hs; split at hs <;> simp at hs; subst hs
      exact BI_eq h rfl
    | wDone =>
      simp only at hs; unfold stepWDone at hs; split at hs <;> simp at hs; subst hs
      exact BI_eq h rfl
    | reorder ob =>
      simp only at hs; unfold stepReorder at hs; split at hs
      · split at hs
        · simp only [Option.some.injEq] at hs; subst hs; exact BI_eq h rfl
        · split at hs <;> simp only [Option.some.injEq] at hs <;> subst hs <;> exact BI_eq h rfl
      · simp at hs
    | parseStart =>
      simp only at hs; unfold stepParseStart at hs; split at hs
      · simp only [Option.some.injEq] at hs; subst hs; exact BI_eq h rfl
      · simp at hs
    | parseEnd =>
      simp only at hs; unfold stepParseEnd at hs
      split at hs
      · simp at hs
      · next k hk =>
        have h1 : BI P (detach { s with pphase := none } k) := BI_detach k (BI_eq h rfl)
        generalize detach { s with pphase := none } k = s1 at hs h1
        dsimp only at hs
        split at hs
        · simp only [Option.some.injEq] at hs; subst hs
          exact BI_eq (s := s1) h1 rfl
        · simp only [Option.some.injEq] at hs; subst hs
          exact BI_parseVerdict I _ h1
    | retrStart j =>
      simp only at hs; unfold stepRetrStart at hs; split at hs
      · simp only [Option.some.injEq] at hs; subst hs
        exact BI_cons h (hnew _ rfl)
      · simp at hs
    | retrEnd j k =>
      simp only at hs; unfold stepRetrEnd at hs; split at hs
      · have h1 : BI P (detach { s with busy := s.busy.erase (.retr j k) } k) :=
          BI_detach _ (BI_erase _ h)
        generalize detach { s with busy := s.busy.erase (.retr j k) } k = s1 at h1 hs
        dsimp only at hs
        generalize retrNewc c j k = newc at hs
        have h2 : BI P (retrMove c s1 j newc) := BI_retrMove j newc h1
        generalize retrMove c s1 j newc = s2 at h2 hs
        split at hs
        · simp only [Option.some.injEq] at hs; subst hs; exact BI_eq h1 rfl
        · split at hs
          · simp only [Option.some.injEq] at hs; subst hs; exact BI_eq h1 rfl
          · split at hs
            · split at hs
              · simp only [Option.some.injEq] at hs; subst hs; exact BI_eq h2 rfl
              · simp only [Option.some.injEq] at hs; subst hs; exact BI_eq h2 rfl
            · simp only [Option.some.injEq] at hs; subst hs
              exact BI_retrDone I j newc h2
      · simp at hs
    | retrPost e =>
      simp only at hs; unfold stepRetrPost at hs; split at hs
      · simp only [Option.some.injEq] at hs; subst hs; exact BI_erase _ h
      · simp at hs
    | emitStart e =>
      simp only at hs; unfold stepEmitStart at hs; split at hs
      · simp only [Option.some.injEq] at hs; subst hs
        exact BI_cons h (I.emit e)
      · simp at hs
    | emitEnd e =>
      simp only at hs; unfold stepEmitEnd at hs; split at hs
      · dsimp only at hs
        split at hs <;> simp only [Option.some.injEq] at hs <;> subst hs <;> exact BI_erase _ h
      · simp at hs
    | scanStart sp =>
      simp only at hs; unfold stepScanStart at hs; split at hs
      · simp only [Option.some.injEq] at hs; subst hs
        exact BI_cons h (hnew _ rfl)
      · simp at hs
    | scanEnd st k =>
      simp only at hs; unfold stepScanEnd at hs; split at hs
      · have h1 : BI P (detach { s with busy := s.busy.erase (.scan st k) } (some k)) :=
          BI_detach _ (BI_erase _ h)
        generalize detach { s with busy := s.busy.erase (.scan st k) } (some k) = s1 at h1 hs
        dsimp only at hs
        split at hs
        · simp only [Option.some.injEq] at hs; subst hs; exact BI_eq h1 rfl
        · split at hs
          · simp only [Option.some.injEq] at hs; subst hs; exact BI_eq h1 rfl
          · simp only [Option.some.injEq] at hs; subst hs
            exact BI_scanRequeue _ _ (BI_scanNew _ h1)
      · simp at hs

end

/-! ### the attachment invariant -/

/-- the position a running retriever reads from lies in the block it attached to -/
def attOK (c : Cfg) : Phase → Prop
  | .retr j (some k) => offs c k ≤ j.curr ∧ j.curr < offs c (k + 1)
  | _ => True

theorem attOK_inv (c : Cfg) : PhInv (attOK c) := by
  refine ⟨?_, ?_, fun _ => trivial, fun _ => trivial⟩
  · intro p ph h
    cases ph with
    | retr j k => cases k <;> exact h
    | retr2 e => trivial
    | emit e => trivial
    | scan a b => trivial
  · intro ph h
    cases ph with
    | retr j k => cases k <;> exact h
    | retr2 e => trivial
    | emit e => trivial
    | scan a b => trivial

theorem offs_div_le (c : Cfg) (p : Nat) : offs c (p / c.W) ≤ p := by
  unfold offs
  have := Nat.div_mul_le_self p c.W
  omega

theorem att_step {c : Cfg} {s s' : State} {l : Label} (hA : AI c s) (h : BI (attOK c) s)
    (hs : step c s l = some s') : BI (attOK c) s' := by
  refine busy_inv_step (attOK_inv c) hs h ?_
  intro ph hph
  cases l with
  | retrStart j =>
    simp only [startPhase, Option.some.injEq] at hph
    subst hph
    have hj : j ∈ s.retrQ := by
      unfold step at hs
      split at hs
      · simp at hs
      · simp only at hs
        unfold stepRetrStart at hs
        split at hs
        · next hg =>
          simp only [Bool.and_eq_true, List.contains_iff_mem] at hg
          exact hg.1.2
        · simp at hs
    have hle : headOffs c s ≤ j.curr := hA.arQ j hj
    have hst : decide (j.curr < headOffs c s) = false := by
      rw [decide_eq_false_iff_not]; omega
    rw [hst]
    by_cases ht : tailOffs c s ≤ j.curr
    · rw [if_pos ht]; trivial
    · rw [if_neg ht]
      simp only [Bool.false_eq_true, if_false]
      show offs c (j.curr / c.W) ≤ j.curr ∧ j.curr < offs c (j.curr / c.W + 1)
      exact ⟨offs_div_le c _, lt_offs_succ_div (r := s.rd) (by unfold tailOffs at ht; omega)⟩
  | scanStart sp =>
    simp only [startPhase, Option.some.injEq] at hph
    subst hph; trivial
  | _ => simp [startPhase] at hph

/-- **every running retriever reads inside the input block it holds a
    reference on** (all reachable states, failed or not) -/
theorem att_reach {c : Cfg} {s : State} (h : Reach c s) : BI (attOK c) s := by
  induction h with
  | init => intro ph hm; simp [init] at hm
  | step l hr hs ih => exact att_step (ai_reach hr) ih hs

end LbzVerif.Model.Race.D
