/-
  Lemmas.Race.Owner — from the counting invariants (`CovInv`) to
  `owner_unique`: in every reachable state of `Model.SchedC` all holders
  together hold a heap object at most once, hence two holders of the same
  object are equal and the discipline `Race.C.disc` is unambiguous.
-/
import LbzVerif.Lemmas.Race.Cover

namespace LbzVerif.Model.Race.C
open LbzVerif.Model.SchedC

variable {α σ : Type}

/-! ### sums over the worker list -/

theorem wsum_cons (f : WPhase α σ → Nat) (a : WPhase α σ) (l : List (WPhase α σ)) :
    wsum f (a :: l) = f a + wsum f l := by simp [wsum]

theorem wsum_ge1 (f : WPhase α σ → Nat) (hf : f .exited = 0) (ws : List (WPhase α σ)) (i : Nat) :
    f ((ws[i]?).getD .exited) ≤ wsum f ws := by
  induction ws generalizing i with
  | nil => simp [hf]
  | cons a l ih =>
    rw [wsum_cons]
    cases i with
    | zero => simp
    | succ j => have := ih j; simp only [List.getElem?_cons_succ]; omega

theorem wsum_ge2 (f : WPhase α σ → Nat) (hf : f .exited = 0) (ws : List (WPhase α σ)) (i j : Nat)
    (hij : i ≠ j) : f ((ws[i]?).getD .exited) + f ((ws[j]?).getD .exited) ≤ wsum f ws := by
  induction ws generalizing i j with
  | nil => simp [hf, wsum]
  | cons a l ih =>
    rw [wsum_cons]
    cases i with
    | zero =>
      cases j with
      | zero => exact absurd rfl hij
      | succ j' =>
        have := wsum_ge1 f hf l j'
        simp only [List.getElem?_cons_zero, List.getElem?_cons_succ, Option.getD_some]; omega
    | succ i' =>
      cases j with
      | zero =>
        have := wsum_ge1 f hf l i'
        simp only [List.getElem?_cons_zero, List.getElem?_cons_succ, Option.getD_some]; omega
      | succ j' =>
        have := ih i' j' (by omega)
        simp only [List.getElem?_cons_succ]; omega

theorem wsum_mono {f g : WPhase α σ → Nat} (h : ∀ p, f p ≤ g p) (ws : List (WPhase α σ)) :
    wsum f ws ≤ wsum g ws := by
  induction ws with
  | nil => simp [wsum]
  | cons a l ih => rw [wsum_cons, wsum_cons]; have := h a; omega

theorem wbCnt_le_covW (x : Pos) (p : WPhase α σ) : wbCnt x p ≤ covW x p := by
  cases p with
  | c1 ib => simp only [wbCnt, covW]; have := beyond_split x ib.pos; omega
  | s1 u h =>
    cases u <;> cases h <;> simp only [wbCnt, covW]
    · omega
    · next ib => have := beyond_split x ib.pos; omega
    · omega
    · omega
  | _ => simp [wbCnt, covW]

theorem obCnt_le_covW (x : Pos) (p : WPhase α σ) : obCnt x p ≤ covW x p := by
  cases p <;> simp [obCnt, covW]

/-! ### all holders together hold an object at most once -/

/-- total number of holdings of input chunk `m` -/
theorem in_total {s : State α σ} (inv : CovInv s) (m : Nat) :
    cntI m s.collQ + wsum (inCnt m) s.ws + ind (s.rd = .hold ∧ m = s.nextId) ≤ 1 := inv.inLe m

/-- total number of holdings of work_blk `x` -/
theorem wb_total {s : State α σ} (inv : CovInv s) (x : Pos) :
    cntW x s.transQ + cntW x s.reordQ + cntO x s.unfinished + wsum (wbCnt x) s.ws ≤ 1 := by
  have := inv.le x
  have := wsum_mono (wbCnt_le_covW (α := α) (σ := σ) x) s.ws
  simp only [cover] at *; omega

/-- total number of holdings of output buffer `x` -/
theorem ob_total {s : State α σ} (inv : CovInv s) (x : Pos) :
    cntW x s.reordQ + cntW x s.outputQ + cntO x s.wr + wsum (obCnt x) s.ws ≤ 1 := by
  have := inv.le x
  have := wsum_mono (obCnt_le_covW (α := α) (σ := σ) x) s.ws
  simp only [cover] at *; omega

/-- two different holders hold an object at most once together -/
theorem holdCnt_two {s : State α σ} (inv : CovInv s) (v : CVar) (h₁ h₂ : Holder) (hne : h₁ ≠ h₂) :
    holdCnt s v h₁ + holdCnt s v h₂ ≤ 1 := by
  cases v with
  | inBlk m =>
    have tot := in_total inv m
    have w1 := fun i => wsum_ge1 (inCnt (α := α) (σ := σ) m) rfl s.ws i
    have w2 := fun i j hij => wsum_ge2 (inCnt (α := α) (σ := σ) m) rfl s.ws i j hij
    simp only [holdCnt]
    rcases h₁ with q₁ | t₁ <;> rcases h₂ with q₂ | t₂
    · cases q₁ <;> cases q₂ <;> simp only [inHold] <;> first | omega | exact absurd rfl hne
    · cases q₁ <;> cases t₂ <;> simp only [inHold, phaseOf] <;>
        first | omega | (next i => have := w1 i; omega)
    · cases t₁ <;> cases q₂ <;> simp only [inHold, phaseOf] <;>
        first | omega | (next i => have := w1 i; omega)
    · cases t₁ <;> cases t₂ <;> simp only [inHold, phaseOf] <;>
        first
        | omega
        | exact absurd rfl hne
        | (next i => have := w1 i; omega)
        | (next i j => have := w2 i j (fun h => hne (by rw [h])); omega)
  | workBlk x =>
    have tot := wb_total inv x
    have w1 := fun i => wsum_ge1 (wbCnt (α := α) (σ := σ) x) rfl s.ws i
    have w2 := fun i j hij => wsum_ge2 (wbCnt (α := α) (σ := σ) x) rfl s.ws i j hij
    simp only [holdCnt]
    rcases h₁ with q₁ | t₁ <;> rcases h₂ with q₂ | t₂
    · cases q₁ <;> cases q₂ <;> simp only [wbHold] <;> first | omega | exact absurd rfl hne
    · cases q₁ <;> cases t₂ <;> simp only [wbHold, phaseOf] <;>
        first | omega | (next i => have := w1 i; omega)
    · cases t₁ <;> cases q₂ <;> simp only [wbHold, phaseOf] <;>
        first | omega | (next i => have := w1 i; omega)
    · cases t₁ <;> cases t₂ <;> simp only [wbHold, phaseOf] <;>
        first
        | omega
        | exact absurd rfl hne
        | (next i => have := w1 i; omega)
        | (next i j => have := w2 i j (fun h => hne (by rw [h])); omega)
  | outBuf x =>
    have tot := ob_total inv x
    have w1 := fun i => wsum_ge1 (obCnt (α := α) (σ := σ) x) rfl s.ws i
    have w2 := fun i j hij => wsum_ge2 (obCnt (α := α) (σ := σ) x) rfl s.ws i j hij
    simp only [holdCnt]
    rcases h₁ with q₁ | t₁ <;> rcases h₂ with q₂ | t₂
    · cases q₁ <;> cases q₂ <;> simp only [obHold] <;> first | omega | exact absurd rfl hne
    · cases q₁ <;> cases t₂ <;> simp only [obHold, phaseOf] <;>
        first | omega | (next i => have := w1 i; omega)
    · cases t₁ <;> cases q₂ <;> simp only [obHold, phaseOf] <;>
        first | omega | (next i => have := w1 i; omega)
    · cases t₁ <;> cases t₂ <;> simp only [obHold, phaseOf] <;>
        first
        | omega
        | exact absurd rfl hne
        | (next i => have := w1 i; omega)
        | (next i j => have := w2 i j (fun h => hne (by rw [h])); omega)
  | _ => simp [holdCnt]

/-- one holder holds an object at most once (no duplicates inside a queue) -/
theorem holdCnt_one {s : State α σ} (inv : CovInv s) (v : CVar) (h : Holder) :
    holdCnt s v h ≤ 1 := by
  cases v with
  | inBlk m =>
    have tot := in_total inv m
    have w1 := fun i => wsum_ge1 (inCnt (α := α) (σ := σ) m) rfl s.ws i
    simp only [holdCnt]
    rcases h with q | t
    · cases q <;> simp only [inHold] <;> omega
    · cases t <;> simp only [inHold, phaseOf] <;> first | omega | (next i => have := w1 i; omega)
  | workBlk x =>
    have tot := wb_total inv x
    have w1 := fun i => wsum_ge1 (wbCnt (α := α) (σ := σ) x) rfl s.ws i
    simp only [holdCnt]
    rcases h with q | t
    · cases q <;> simp only [wbHold] <;> omega
    · cases t <;> simp only [wbHold, phaseOf] <;> first | omega | (next i => have := w1 i; omega)
  | outBuf x =>
    have tot := ob_total inv x
    have w1 := fun i => wsum_ge1 (obCnt (α := α) (σ := σ) x) rfl s.ws i
    simp only [holdCnt]
    rcases h with q | t
    · cases q <;> simp only [obHold] <;> omega
    · cases t <;> simp only [obHold, phaseOf] <;> first | omega | (next i => have := w1 i; omega)
  | _ => simp [holdCnt]

/-- two holders of the same heap object are the same holder -/
theorem holder_unique {s : State α σ} (inv : CovInv s) {v : CVar} {h₁ h₂ : Holder}
    (a : holds s v h₁) (b : holds s v h₂) : h₁ = h₂ := by
  by_cases hne : h₁ = h₂
  · exact hne
  · have := holdCnt_two inv v h₁ h₂ hne
    simp only [holds] at a b; omega

/-- the discipline is unambiguous -/
theorem disc_unique {s : State α σ} (inv : CovInv s) : (disc (α := α) (σ := σ)).Unique s := by
  intro v o₁ o₂ h1 h2
  simp only [disc, owns] at h1 h2
  cases hs : staticOwner v with
  | some o' => rw [hs] at h1 h2; exact h1.trans h2.symm
  | none =>
    rw [hs] at h1 h2
    obtain ⟨a, ha, rfl⟩ := h1
    obtain ⟨b, hb, rfl⟩ := h2
    rw [holder_unique inv ha hb]

end LbzVerif.Model.Race.C
