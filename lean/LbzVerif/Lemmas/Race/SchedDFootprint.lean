/-
  Lemmas.Race.SchedDFootprint — every access in the footprint of a section of
  the expansion scheduler that is in progress in a reachable state respects
  the discipline (`Protected`): guarded variables under their lock, `tail_offs`
  read without the lock only by the reader, `par` only by the parser, heap
  objects either queue-held (and then under `sched_mutex`) or held by the
  accessing thread, input buffers read only by holders of a reference and
  freed only by the last holder under the lock, configuration read-only.

  Reachability is needed where a section touches the `struct in_blk` / buffer
  of the input block an `attach()` resolves to: that this block is pushed and
  not yet freed is `attach_in_range` (`AI`), `NI.kb`/`NI.pkb` and `SQ`.
-/
import LbzVerif.Lemmas.Race.SchedDUniq
import LbzVerif.Lemmas.Race.SchedDAtt

namespace LbzVerif.Model.Race.D
open LbzVerif.Model.SchedD LbzVerif.Lemmas.SchedD

/-- the access respects the discipline of `Race.D.disc` in state `s` -/
abbrev Prot (c : Cfg) (s : State) (a : Acc) : Prop := (disc c).Protected s a

/-- all accesses of a list are protected -/
def AllProt (c : Cfg) (s : State) (l : List Acc) : Prop := ∀ a ∈ l, Prot c s a

theorem allProt_nil (c : Cfg) (s : State) : AllProt c s [] := fun _ h => absurd h List.not_mem_nil

theorem allProt_cons {c : Cfg} {s : State} {a : Acc} {l : List Acc} (h : Prot c s a)
    (t : AllProt c s l) : AllProt c s (a :: l) := by
  intro b hb
  rcases List.mem_cons.mp hb with rfl | hb
  · exact h
  · exact t b hb

theorem allProt_append {c : Cfg} {s : State} {l₁ l₂ : List Acc} (h₁ : AllProt c s l₁)
    (h₂ : AllProt c s l₂) : AllProt c s (l₁ ++ l₂) := by
  intro b hb
  rcases List.mem_append.mp hb with hb | hb
  · exact h₁ b hb
  · exact h₂ b hb

theorem prot_static {c : Cfg} {s : State} {a : Acc} {o : Owner Thread}
    (h : staticOwner a.var = some o) (r : Respects a o) : Prot c s a :=
  ⟨o, by simp only [disc, owns, h], r⟩

/-! ### statically owned variables, by lists -/

/-- a locked read by anybody is fine -/
def okRead (v : DVar) : Bool :=
  match staticOwner v with
  | some (.lock .sched) => true
  | some .frozen => true
  | some (.writer _ .sched) => true
  | _ => false

/-- a locked write by anybody is fine -/
def okWrite (v : DVar) : Bool :=
  match staticOwner v with
  | some (.lock .sched) => true
  | _ => false

theorem prot_rd_S {c : Cfg} {s : State} (t : Thread) {v : DVar} (h : okRead v = true) :
    Prot c s (rd t S v) := by
  unfold okRead at h
  split at h
  · next hs => exact prot_static (o := .lock .sched) hs (by simp [Respects, rd, S])
  · next hs => exact prot_static (o := .frozen) hs rfl
  · next t' hs => exact prot_static (o := .writer t' .sched) hs (by simp [Respects, rd, S])
  · cases h

theorem prot_wr_S {c : Cfg} {s : State} (t : Thread) {v : DVar} (h : okWrite v = true) :
    Prot c s (wr t S v) := by
  unfold okWrite at h
  split at h
  · next hs => exact prot_static (o := .lock .sched) hs (by simp [Respects, wr, S])
  · cases h

theorem allProt_rds {c : Cfg} {s : State} (t : Thread) (vs : List DVar)
    (h : vs.all okRead = true) : AllProt c s (rds t S vs) := by
  intro a ha
  simp only [rds, List.mem_map] at ha
  obtain ⟨v, hv, rfl⟩ := ha
  exact prot_rd_S t (List.all_eq_true.1 h v hv)

theorem allProt_wrs {c : Cfg} {s : State} (t : Thread) (vs : List DVar)
    (h : vs.all okWrite = true) : AllProt c s (wrs t S vs) := by
  intro a ha
  simp only [wrs, List.mem_map] at ha
  obtain ⟨v, hv, rfl⟩ := ha
  exact prot_wr_S t (List.all_eq_true.1 h v hv)

/-- frozen configuration, read with any locks -/
theorem prot_cfg {c : Cfg} {s : State} (t : Thread) (L : List Lock) (k : CfgVar) :
    Prot c s (rd t L (.cfg k)) :=
  prot_static (o := .frozen) rfl rfl

/-! ### heap objects -/

theorem prot_retr_queue {c : Cfg} {s : State} {j : Job} (hj : j ∈ s.retrQ) (t : Thread) (w : Bool)
    (L : List Lock) (hL : Lock.sched ∈ L) : Prot c s ⟨t, .retrBlk j.base, w, L⟩ :=
  ⟨.lock .sched, ⟨.queue .retr, ⟨j, hj, rfl⟩, rfl⟩, hL⟩

theorem prot_retr_thread {c : Cfg} {s : State} {ph : Phase} {b : Nat} (hm : ph ∈ s.busy)
    (hb : jobOf ph = some b) (w : Bool) (L : List Lock) : Prot c s ⟨.busy ph, .retrBlk b, w, L⟩ :=
  ⟨.thread (.busy ph), ⟨.thread (.busy ph), ⟨hm, hb⟩, rfl⟩, rfl⟩

theorem prot_emit_queue {c : Cfg} {s : State} {e : EJob} (he : e ∈ s.emitQ) (t : Thread) (w : Bool)
    (L : List Lock) (hL : Lock.sched ∈ L) : Prot c s ⟨t, .emitBlk e.base, w, L⟩ :=
  ⟨.lock .sched, ⟨.queue .emit, ⟨e, he, rfl⟩, rfl⟩, hL⟩

theorem prot_emit_thread {c : Cfg} {s : State} {ph : Phase} {b : Nat} (hm : ph ∈ s.busy)
    (hb : emitOf ph = some b) (w : Bool) (L : List Lock) : Prot c s ⟨.busy ph, .emitBlk b, w, L⟩ :=
  ⟨.thread (.busy ph), ⟨.thread (.busy ph), ⟨hm, hb⟩, rfl⟩, rfl⟩

theorem prot_out_queue {c : Cfg} {s : State} {o : OB} (ho : o ∈ s.reordQ) (t : Thread) (w : Bool)
    (L : List Lock) (hL : Lock.sched ∈ L) : Prot c s ⟨t, .outBlk o.base o.idx, w, L⟩ :=
  ⟨.lock .sched, ⟨.queue .reord, ⟨o, ho, rfl⟩, rfl⟩, hL⟩

theorem prot_out_thread {c : Cfg} {s : State} {e : EJob} (hm : Phase.emit e ∈ s.busy) (w : Bool)
    (L : List Lock) : Prot c s ⟨.busy (.emit e), .outBlk e.base e.idx, w, L⟩ :=
  ⟨.thread (.busy (.emit e)), ⟨.thread (.busy (.emit e)), ⟨hm, rfl⟩, rfl⟩, rfl⟩

theorem prot_inBlk_reader {c : Cfg} {s : State} (hr : s.rph = .hold) (w : Bool) (L : List Lock) :
    Prot c s ⟨.reader, .inBlk s.rd, w, L⟩ :=
  ⟨.thread .reader, ⟨.thread .reader, ⟨hr, rfl⟩, rfl⟩, rfl⟩

theorem prot_inBlk_alive {c : Cfg} {s : State} {k : Nat} (hk : alive s k) (t : Thread) (w : Bool)
    (L : List Lock) (hL : Lock.sched ∈ L) : Prot c s ⟨t, .inBlk k, w, L⟩ :=
  ⟨.lock .sched, ⟨.queue .input, hk, rfl⟩, hL⟩

theorem prot_scan_reader {c : Cfg} {s : State} (hr : s.rph = .hold) (w : Bool) (L : List Lock) :
    Prot c s ⟨.reader, .scanD s.rd, w, L⟩ :=
  ⟨.thread .reader, ⟨.thread .reader, ⟨hr, rfl⟩, rfl⟩, rfl⟩

theorem prot_scan_queue {c : Cfg} {s : State} {sp : Nat} (h : sp ∈ s.scanQ) (t : Thread) (w : Bool)
    (L : List Lock) (hL : Lock.sched ∈ L) : Prot c s ⟨t, .scanD (sp / c.W), w, L⟩ :=
  ⟨.lock .sched, ⟨.queue .scan, ⟨sp, h, rfl⟩, rfl⟩, hL⟩

theorem prot_scan_thread {c : Cfg} {s : State} {st k : Nat} (hm : Phase.scan st k ∈ s.busy)
    (w : Bool) (L : List Lock) : Prot c s ⟨.busy (.scan st k), .scanD k, w, L⟩ :=
  ⟨.thread (.busy (.scan st k)), ⟨.thread (.busy (.scan st k)), ⟨hm, rfl⟩, rfl⟩, rfl⟩

theorem prot_sink_writer {c : Cfg} {s : State} (h : 0 < s.outq) (w : Bool) (L : List Lock) :
    Prot c s ⟨.writer, .sinkBuf (s.written.length - s.outq), w, L⟩ :=
  ⟨.thread .writer, ⟨.thread .writer, ⟨h, rfl⟩, rfl⟩, rfl⟩

/-! ### the input buffer -/

theorem mem_att_parser {s : State} {k : Nat} (h : s.pphase = some (some k)) :
    Thread.parser ∈ attThreads s k := by
  simp [attThreads, h]

theorem mem_att_busy {s : State} {k : Nat} {ph : Phase} (hm : ph ∈ s.busy)
    (hb : ph.block = some k) : Thread.busy ph ∈ attThreads s k := by
  simp only [attThreads, List.mem_append, List.mem_map, List.mem_filter]
  exact Or.inr ⟨ph, ⟨hm, by simp [hb]⟩, rfl⟩

theorem attached_of_mem {s : State} {k : Nat} {t : Thread} (h : t ∈ attThreads s k) :
    attachedTo s k = true := by
  simp only [attThreads, List.mem_append, List.mem_map, List.mem_filter] at h
  simp only [attachedTo, Bool.or_eq_true, List.any_eq_true]
  rcases h with h | ⟨ph, ⟨hm, hb⟩, _⟩
  · left
    split at h
    · next hp => simp [hp]
    · cases h
  · exact Or.inr ⟨ph, hm, hb⟩

theorem prot_inBuf_reader {c : Cfg} {s : State} (hr : s.rph = .hold) (w : Bool) (L : List Lock) :
    Prot c s ⟨.reader, .inBuf s.rd, w, L⟩ := by
  refine ⟨.thread .reader, ?_, rfl⟩
  show inBufOwner s s.rd = _
  unfold inBufOwner
  rw [if_pos ⟨hr, rfl⟩]

/-- an unlocked read of the buffer by a thread that holds a reference -/
theorem prot_inBuf_read {c : Cfg} {s : State} {t : Thread} {k : Nat} (ht : t ∈ attThreads s k)
    (hk : k < s.rd) : Prot c s ⟨t, .inBuf k, false, []⟩ := by
  have h1 : ¬ (s.rph = .hold ∧ k = s.rd) := fun h => by omega
  have h2 : alive s k := ⟨hk, Or.inr (attached_of_mem ht)⟩
  cases hl : attThreads s k with
  | nil => rw [hl] at ht; cases ht
  | cons t1 r =>
    cases r with
    | nil =>
      refine ⟨.writer t1 .sched, ?_, ?_⟩
      · show inBufOwner s k = _
        unfold inBufOwner
        rw [if_neg h1, if_pos h2, hl]
      · rw [hl] at ht
        have e : t = t1 := by simpa using ht
        subst e
        simp [Respects]
    | cons t2 r' =>
      refine ⟨.frozen, ?_, rfl⟩
      show inBufOwner s k = _
      unfold inBufOwner
      rw [if_neg h1, if_pos h2, hl]

theorem mem_mayFree {s : State} {t : Thread} {k : Nat} (h : k ∈ mayFree s t) :
    k < s.rd ∧ alive s k ∧ (attThreads s k = [] ∨ attThreads s k = [t]) := by
  simp only [mayFree, List.mem_filter, List.mem_range, Bool.and_eq_true, Bool.or_eq_true,
    decide_eq_true_eq] at h
  exact ⟨h.1, h.2.1, h.2.2⟩

/-- freeing the buffer under the lock when nobody else holds a reference -/
theorem prot_inBuf_free {c : Cfg} {s : State} {t : Thread} {k : Nat} (h : k ∈ mayFree s t) :
    Prot c s ⟨t, .inBuf k, true, S⟩ := by
  obtain ⟨hk, h2, h3⟩ := mem_mayFree h
  have h1 : ¬ (s.rph = .hold ∧ k = s.rd) := fun h => by omega
  rcases h3 with hl | hl
  · refine ⟨.lock .sched, ?_, by simp [Respects, S]⟩
    show inBufOwner s k = _
    unfold inBufOwner
    rw [if_neg h1, if_pos h2, hl]
  · refine ⟨.writer t .sched, ?_, by simp [Respects, S]⟩
    show inBufOwner s k = _
    unfold inBufOwner
    rw [if_neg h1, if_pos h2, hl]

/-! ### the shared pieces of the footprints -/

theorem allProt_members (c : Cfg) (s : State) (t : Thread) :
    AllProt c s (rds t S (members c s)) := by
  intro a ha
  simp only [rds, members, List.mem_map, List.mem_append] at ha
  obtain ⟨v, hv, rfl⟩ := ha
  rcases hv with (((⟨j, hj, rfl⟩ | ⟨e, he, rfl⟩) | ⟨o, ho, rfl⟩) | ⟨sp, hsp, rfl⟩) | ⟨k, hk, rfl⟩
  · exact prot_retr_queue hj t false S (by simp [S])
  · exact prot_emit_queue he t false S (by simp [S])
  · exact prot_out_queue ho t false S (by simp [S])
  · exact prot_scan_queue hsp t false S (by simp [S])
  · have := List.mem_range'_1.1 hk
    exact prot_inBlk_alive ⟨by omega, Or.inl this.1⟩ t false S (by simp [S])

theorem allProt_select (c : Cfg) (s : State) (t : Thread) : AllProt c s (selectFp t c s) := by
  unfold selectFp
  refine allProt_append (allProt_append (allProt_rds t _ (by decide)) (allProt_members c s t)) ?_
  exact allProt_cons (prot_wr_S t (by decide)) (allProt_cons (prot_rd_S t (by decide))
    (allProt_nil c s))

theorem allProt_attach {c : Cfg} {s : State} (t : Thread) (p : Nat)
    (h : p < tailOffs c s → alive s (p / c.W)) : AllProt c s (attachFp t c s p) := by
  unfold attachFp
  split
  · next hp =>
    exact allProt_cons (prot_inBlk_alive (h hp) t false S (by simp [S]))
      (allProt_cons (prot_inBlk_alive (h hp) t true S (by simp [S])) (allProt_nil c s))
  · exact allProt_nil c s

theorem allProt_bufRead {c : Cfg} {s : State} (t : Thread) (k : Option Nat)
    (h : ∀ kk, k = some kk → t ∈ attThreads s kk ∧ kk < s.rd) : AllProt c s (bufRead t k) := by
  cases k with
  | none => exact allProt_nil c s
  | some kk =>
    obtain ⟨h1, h2⟩ := h kk rfl
    exact allProt_cons (prot_inBuf_read h1 h2) (allProt_nil c s)

theorem allProt_detach {c : Cfg} {s : State} (t : Thread) (k : Option Nat)
    (h : ∀ kk, k = some kk → alive s kk) : AllProt c s (detachFp t k) := by
  cases k with
  | none => exact allProt_nil c s
  | some kk =>
    exact allProt_cons (prot_inBlk_alive (h kk rfl) t false S (by simp [S]))
      (allProt_cons (prot_inBlk_alive (h kk rfl) t true S (by simp [S])) (allProt_nil c s))

theorem prot_inSlots_SS {c : Cfg} {s : State} (t : Thread) (w : Bool) :
    Prot c s ⟨t, .inSlots, w, SS⟩ :=
  prot_static (o := .lock .source) rfl (by simp [Respects, SS])

theorem allProt_release (c : Cfg) (s : State) (t : Thread) : AllProt c s (releaseFp t s) := by
  unfold releaseFp
  refine allProt_append (allProt_append (allProt_append ?_ ?_) ?_) ?_
  · intro a ha
    simp only [wrs, List.mem_map] at ha
    obtain ⟨v, ⟨k, hk, rfl⟩, rfl⟩ := ha
    exact prot_inBuf_free hk
  · intro a ha
    simp only [rds, List.mem_map] at ha
    obtain ⟨v, ⟨k, hk, rfl⟩, rfl⟩ := ha
    exact prot_inBlk_alive (mem_mayFree hk).2.1 t false S (by simp [S])
  · intro a ha
    simp only [wrs, List.mem_map] at ha
    obtain ⟨v, ⟨k, hk, rfl⟩, rfl⟩ := ha
    exact prot_inBlk_alive (mem_mayFree hk).2.1 t true S (by simp [S])
  · exact allProt_cons (prot_inSlots_SS t false) (allProt_cons (prot_inSlots_SS t true)
      (allProt_nil c s))

theorem allProt_discard (c : Cfg) (s : State) (t : Thread) : AllProt c s (discardFp t c s) := by
  unfold discardFp
  refine allProt_append ?_ ?_
  · intro a ha
    simp only [wrs, List.mem_map] at ha
    obtain ⟨v, ⟨j, hj, rfl⟩, rfl⟩ := ha
    exact prot_retr_queue hj t true S (by simp [S])
  · intro a ha
    simp only [wrs, List.mem_map] at ha
    obtain ⟨v, ⟨sp, hsp, rfl⟩, rfl⟩ := ha
    exact prot_scan_queue hsp t true S (by simp [S])

theorem allProt_unord (c : Cfg) (s : State) (t : Thread) : AllProt c s (unordFp t s) := by
  unfold unordFp
  refine allProt_append ?_ ?_
  · intro a ha
    simp only [rds, List.mem_map] at ha
    obtain ⟨v, ⟨b, _, rfl⟩, rfl⟩ := ha
    exact prot_rd_S t rfl
  · intro a ha
    simp only [wrs, List.mem_map] at ha
    obtain ⟨v, ⟨b, _, rfl⟩, rfl⟩ := ha
    exact prot_wr_S t rfl

/-! ### facts about a reachable state -/

structure PFacts (c : Cfg) (s : State) : Prop where
  ai : AI c s
  ni : NI c s
  sq : SQ c s

end LbzVerif.Model.Race.D
