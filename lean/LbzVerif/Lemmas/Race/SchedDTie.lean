/-
  Lemmas.Race.SchedDTie — the decompression annotation is tied to the model
  (the counterpart of Lemmas.Race.Tie for `Model.SchedD`): every transition of
  `Model.SchedD.step` is the locked part of a section that is in progress, and
  every SHARED variable of the model state that the transition changes is
  WRITTEN in that section's footprint.  So a write the model performs cannot be
  missing from the annotation; with `expand_guarded_under_lock` it is made
  under the guarding lock.

  Fields of `Model.SchedD.State` and the annotated variable they stand for:
  `eof`↦eof, `rclose`↦request_close, `inSlots`↦in_slots, `scanQ`↦scan_q,
  `retrQ`↦retr_q, `emitQ`↦emit_q, `reordQ`↦reord_q, `orderQ`↦order_q,
  `orphans`↦unord_q, `ptok`↦parse_token, `pdone`↦parsing_done,
  `ppos`↦parser_bs, `rd`↦tail_offs, `head`↦head_offs, `wu`↦work_units,
  `outSlots`↦out_slots, `outq`↦output_q.  NOT covered because they are not
  shared program variables: the per-thread program counters `rph`, `pphase`,
  `busy`; the history / ghost fields `nread`, `written`, `porig`, `gnext`,
  `taint`; `failed` (`failf` exits the process; the model stops there).
-/
import LbzVerif.Model.Race.SchedD

namespace LbzVerif.Model.Race.D
open LbzVerif.Model.SchedD

/-- the footprint contains a write of `v` -/
def writesVar (l : List Acc) (v : DVar) : Bool := l.any (fun a => a.write && decide (a.var = v))

/-- every shared model variable that differs between `s` and `s'` is written in `l` -/
structure Covers (s s' : State) (l : List Acc) : Prop where
  eof : s'.eof ≠ s.eof → writesVar l .eof = true
  rclose : s'.rclose ≠ s.rclose → writesVar l .requestClose = true
  inSlots : s'.inSlots ≠ s.inSlots → writesVar l .inSlots = true
  scanQ : s'.scanQ ≠ s.scanQ → writesVar l .scanQ = true
  retrQ : s'.retrQ ≠ s.retrQ → writesVar l .retrQ = true
  emitQ : s'.emitQ ≠ s.emitQ → writesVar l .emitQ = true
  reordQ : s'.reordQ ≠ s.reordQ → writesVar l .reordQ = true
  orderQ : s'.orderQ ≠ s.orderQ → writesVar l .orderQ = true
  orphans : s'.orphans ≠ s.orphans → writesVar l .unordQ = true
  ptok : s'.ptok ≠ s.ptok → writesVar l .parseToken = true
  pdone : s'.pdone ≠ s.pdone → writesVar l .parsingDone = true
  ppos : s'.ppos ≠ s.ppos → writesVar l .parserBs = true
  rd : s'.rd ≠ s.rd → writesVar l .tailOffs = true
  head : s'.head ≠ s.head → writesVar l .headOffs = true
  wu : s'.wu ≠ s.wu → writesVar l .workUnits = true
  outSlots : s'.outSlots ≠ s.outSlots → writesVar l .outSlots = true
  outq : s'.outq ≠ s.outq → writesVar l .outputQ = true

/-- the section a transition belongs to (worker index 0 stands for "some free
    worker": the `*Start` sections and `reorder` are executed by a job-less one) -/
def secOf (s : State) : Label → Sec
  | .rTake => .rTake
  | .rQuit => .rQuit
  | .rBlock => .rBlock
  | .rEmpty => .rEmpty
  | .rEof => .rEof
  | .wDone => .wDone
  | .reorder ob => .reorder 0 ob
  | .parseStart => .parseStart 0
  | .parseEnd => .parseEnd (s.pphase.getD none)
  | .retrStart j => .retrStart 0 j
  | .retrEnd j k => .retrEnd j k
  | .retrPost e => .retrPost e
  | .emitStart e => .emitStart 0 e
  | .emitEnd e => .emitEnd e
  | .scanStart sp => .scanStart 0 sp
  | .scanEnd st k => .scanEnd st k

/-! ### frame facts of the helper functions -/

theorem detach_frame (s : State) (k : Option Nat) :
    (detach s k).eof = s.eof ∧ (detach s k).rclose = s.rclose ∧ (detach s k).scanQ = s.scanQ ∧
    (detach s k).retrQ = s.retrQ ∧ (detach s k).emitQ = s.emitQ ∧
    (detach s k).reordQ = s.reordQ ∧ (detach s k).orderQ = s.orderQ ∧
    (detach s k).orphans = s.orphans ∧ (detach s k).ptok = s.ptok ∧
    (detach s k).pdone = s.pdone ∧ (detach s k).ppos = s.ppos ∧ (detach s k).rd = s.rd ∧
    (detach s k).head = s.head ∧ (detach s k).wu = s.wu ∧
    (detach s k).outSlots = s.outSlots ∧ (detach s k).outq = s.outq ∧
    (detach s k).busy = s.busy := by
  unfold detach; split
  · simp
  · split <;> simp

theorem advance_frame (c : Cfg) (s : State) (p : Nat) :
    (advance c s p).eof = s.eof ∧ (advance c s p).rclose = s.rclose ∧
    (advance c s p).emitQ = s.emitQ ∧ (advance c s p).reordQ = s.reordQ ∧
    (advance c s p).orderQ = s.orderQ ∧ (advance c s p).orphans = s.orphans ∧
    (advance c s p).ptok = s.ptok ∧ (advance c s p).pdone = s.pdone ∧
    (advance c s p).rd = s.rd ∧ (advance c s p).outSlots = s.outSlots ∧
    (advance c s p).outq = s.outq ∧ (advance c s p).busy = s.busy := by
  simp [advance]

/-- closes one field of `Covers`: unchanged, or the write is in the list -/
macro "dcovers_field" : tactic =>
  `(tactic| first
    | (intro hne; exact absurd rfl hne)
    | (intro _; simp [writesVar, fp, selectFp, releaseFp, discardFp, unordFp, attachFp, detachFp,
        bufRead, rd, wr, rds, wrs, S, SS]))

macro "dcovers_all" : tactic =>
  `(tactic| (constructor <;> dcovers_field))

theorem covers_rTake {s s' : State} (h : stepRTake s = some s') :
    inProg c s .rTake ∧ Covers s s' (fp c s .rTake) := by
  simp only [stepRTake] at h
  split at h
  · next hg =>
    simp only [Bool.and_eq_true, beq_iff_eq] at hg
    cases h; exact ⟨hg.1.1, by dcovers_all⟩
  · simp at h

theorem covers_rQuit {s s' : State} (h : stepRQuit s = some s') :
    inProg c s .rQuit ∧ Covers s s' (fp c s .rQuit) := by
  simp only [stepRQuit] at h
  split at h
  · next hg =>
    simp only [Bool.and_eq_true, beq_iff_eq] at hg
    cases h; exact ⟨hg.1, by dcovers_all⟩
  · simp at h

theorem covers_rBlock {s s' : State} (h : stepRBlock c s = some s') :
    inProg c s .rBlock ∧ Covers s s' (fp c s .rBlock) := by
  simp only [stepRBlock] at h
  split at h
  · next hg =>
    simp only [Bool.and_eq_true, beq_iff_eq] at hg
    split at h <;> (cases h; exact ⟨hg.1, by dcovers_all⟩)
  · simp at h

theorem covers_rEmpty {s s' : State} (h : stepREmpty c s = some s') :
    inProg c s .rEmpty ∧ Covers s s' (fp c s .rEmpty) := by
  simp only [stepREmpty] at h
  split at h
  · next hg =>
    simp only [Bool.and_eq_true, beq_iff_eq] at hg
    cases h; exact ⟨hg.1, by dcovers_all⟩
  · simp at h

theorem covers_rEof {s s' : State} (h : stepREof s = some s') :
    inProg c s .rEof ∧ Covers s s' (fp c s .rEof) := by
  simp only [stepREof] at h
  split at h
  · next hg =>
    simp only [beq_iff_eq] at hg
    cases h; exact ⟨hg, by dcovers_all⟩
  · simp at h

theorem covers_wDone {s s' : State} (h : stepWDone s = some s') :
    inProg c s .wDone ∧ Covers s s' (fp c s .wDone) := by
  simp only [stepWDone] at h
  split at h
  · next hg =>
    cases h; exact ⟨(of_decide_eq_true hg : 0 < s.outq), by dcovers_all⟩
  · simp at h

theorem covers_reorder {s s' : State} {ob : OB} (h : stepReorder c s ob = some s') :
    inProg c s (.reorder 0 ob) ∧ Covers s s' (fp c s (.reorder 0 ob)) := by
  refine ⟨by simp [inProg, h], ?_⟩
  simp only [stepReorder] at h
  split at h
  · split at h
    · cases h; dcovers_all
    · split at h <;> (cases h; dcovers_all)
  · simp at h

theorem covers_parseStart {s s' : State} (h : stepParseStart c s = some s') :
    inProg c s (.parseStart 0) ∧ Covers s s' (fp c s (.parseStart 0)) := by
  refine ⟨by simp [inProg, h], ?_⟩
  simp only [stepParseStart] at h
  split at h
  · cases h; dcovers_all
  · simp at h

theorem covers_retrStart {s s' : State} {j : Job} (h : stepRetrStart c s j = some s') :
    inProg c s (.retrStart 0 j) ∧ Covers s s' (fp c s (.retrStart 0 j)) := by
  refine ⟨by simp [inProg, h], ?_⟩
  simp only [stepRetrStart] at h
  split at h
  · cases h; dcovers_all
  · simp at h

theorem covers_emitStart {s s' : State} {e : EJob} (h : stepEmitStart c s e = some s') :
    inProg c s (.emitStart 0 e) ∧ Covers s s' (fp c s (.emitStart 0 e)) := by
  refine ⟨by simp [inProg, h], ?_⟩
  simp only [stepEmitStart] at h
  split at h
  · cases h; dcovers_all
  · simp at h

theorem covers_scanStart {s s' : State} {sp : Nat} (h : stepScanStart c s sp = some s') :
    inProg c s (.scanStart 0 sp) ∧ Covers s s' (fp c s (.scanStart 0 sp)) := by
  refine ⟨by simp [inProg, h], ?_⟩
  simp only [stepScanStart] at h
  split at h
  · cases h; dcovers_all
  · simp at h

theorem covers_retrPost {s s' : State} {e : EJob} (h : stepRetrPost s e = some s') :
    inProg c s (.retrPost e) ∧ Covers s s' (fp c s (.retrPost e)) := by
  simp only [stepRetrPost] at h
  split at h
  · next hg =>
    have hm : Phase.retr2 e ∈ s.busy := by simpa using hg
    cases h; exact ⟨hm, by dcovers_all⟩
  · simp at h

theorem covers_emitEnd {s s' : State} {e : EJob} (h : stepEmitEnd s e = some s') :
    inProg c s (.emitEnd e) ∧ Covers s s' (fp c s (.emitEnd e)) := by
  simp only [stepEmitEnd] at h
  split at h
  · next hg =>
    have hm : Phase.emit e ∈ s.busy := by simpa using hg
    split at h <;> (cases h; exact ⟨hm, by dcovers_all⟩)
  · simp at h

/-! ### the three sections that run `detach()` / `advance()` -/

/-- a field of `Covers` when frame equalities are among the hypotheses -/
macro "dcovers_frame" : tactic =>
  `(tactic| first
    | (intro _; simp [writesVar, fp, selectFp, releaseFp, discardFp, unordFp, attachFp, detachFp,
        bufRead, rd, wr, rds, wrs, S, SS]; done)
    | (intro hne; exact absurd (by assumption) hne))

/-- what `parseEnd` leaves alone: `eof`, `emit_q`, `reord_q`, `tail_offs`,
    `out_slots`, `output_q` -/
def ParseFrame (s s' : State) : Prop :=
  s'.eof = s.eof ∧ s'.emitQ = s.emitQ ∧ s'.reordQ = s.reordQ ∧ s'.rd = s.rd ∧
    s'.outSlots = s.outSlots ∧ s'.outq = s.outq

theorem parseFrame_advance (c : Cfg) (s : State) (p : Nat) : ParseFrame s (advance c s p) := by
  simp [ParseFrame, advance]

theorem parseFrame_trans {a b d : State} (h₁ : ParseFrame a b) (h₂ : ParseFrame b d) :
    ParseFrame a d := by
  obtain ⟨a1, a2, a3, a4, a5, a6⟩ := h₁
  obtain ⟨b1, b2, b3, b4, b5, b6⟩ := h₂
  exact ⟨b1.trans a1, b2.trans a2, b3.trans a3, b4.trans a4, b5.trans a5, b6.trans a6⟩

theorem parseFrame_detach (s : State) (k : Option Nat) : ParseFrame s (detach s k) := by
  have d := detach_frame s k
  exact ⟨d.1, d.2.2.2.2.1, d.2.2.2.2.2.1, d.2.2.2.2.2.2.2.2.2.2.2.1,
    d.2.2.2.2.2.2.2.2.2.2.2.2.2.2.1, d.2.2.2.2.2.2.2.2.2.2.2.2.2.2.2.1⟩

theorem parseFrame_more (c : Cfg) (s : State) (k : Option Nat) : ParseFrame s (parseMore c s k) := by
  simp [ParseFrame, parseMore, advance]

theorem parseFrame_push (c : Cfg) (s : State) (b : Nat) : ParseFrame s (parsePush c s b) := by
  simp [ParseFrame, parsePush, advance]

theorem parseFrame_match (c : Cfg) (s : State) (b : Nat) : ParseFrame s (parseMatch c s b) := by
  unfold parseMatch
  split
  · simp [ParseFrame, advance]
  · split
    · simp [ParseFrame, advance]
    · split
      · split <;> simp [ParseFrame, advance]
      · simp [ParseFrame]

theorem parseFrame_verdict (c : Cfg) (s : State) (r : PRes) : ParseFrame s (parseVerdict c s r) := by
  unfold parseVerdict
  split
  · simp [ParseFrame]
  · split
    · simp [ParseFrame]
    · simp [ParseFrame, parseFinish]
  · exact parseFrame_trans (parseFrame_push c s _) (parseFrame_match c _ _)

theorem covers_parseEnd {s s' : State} (h : stepParseEnd c s = some s') :
    inProg c s (.parseEnd (s.pphase.getD none)) ∧
      Covers s s' (fp c s (.parseEnd (s.pphase.getD none))) := by
  simp only [stepParseEnd] at h
  split at h
  · simp at h
  · next k hk =>
    refine ⟨by simp [inProg, hk], ?_⟩
    have hf : ParseFrame s s' := by
      have h0 : ParseFrame s (detach { s with pphase := none } k) :=
        parseFrame_trans (by simp [ParseFrame]) (parseFrame_detach _ k)
      split at h <;> cases h
      · exact parseFrame_trans h0 (parseFrame_more c _ k)
      · exact parseFrame_trans h0 (parseFrame_verdict c _ _)
    obtain ⟨f1, f2, f3, f4, f5, f6⟩ := hf
    constructor <;> dcovers_frame

/-- what `retrEnd` leaves alone: `eof`, `request_close`, `emit_q`, `reord_q`,
    `order_q`, `parsing_done`, `tail_offs`, `out_slots`, `output_q` -/
def RetrFrame (s s' : State) : Prop :=
  s'.eof = s.eof ∧ s'.rclose = s.rclose ∧ s'.emitQ = s.emitQ ∧ s'.reordQ = s.reordQ ∧
    s'.orderQ = s.orderQ ∧ s'.pdone = s.pdone ∧ s'.rd = s.rd ∧
    s'.outSlots = s.outSlots ∧ s'.outq = s.outq

theorem retrFrame_trans {a b d : State} (h₁ : RetrFrame a b) (h₂ : RetrFrame b d) :
    RetrFrame a d := by
  obtain ⟨a1, a2, a3, a4, a5, a6, a7, a8, a9⟩ := h₁
  obtain ⟨b1, b2, b3, b4, b5, b6, b7, b8, b9⟩ := h₂
  exact ⟨b1.trans a1, b2.trans a2, b3.trans a3, b4.trans a4, b5.trans a5, b6.trans a6,
    b7.trans a7, b8.trans a8, b9.trans a9⟩

theorem retrFrame_detach (s : State) (k : Option Nat) : RetrFrame s (detach s k) := by
  unfold detach; split
  · simp [RetrFrame]
  · split <;> simp [RetrFrame]

theorem retrFrame_move (c : Cfg) (s : State) (j : Job) (n : Nat) :
    RetrFrame s (retrMove c s j n) := by
  unfold retrMove; split <;> simp [RetrFrame, advance]

theorem retrFrame_exit (s : State) (j : Job) : RetrFrame s (retrExit s j) := by
  simp [RetrFrame, retrExit]

theorem retrFrame_more (s : State) (j : Job) (n : Nat) : RetrFrame s (retrMore s j n) := by
  simp [RetrFrame, retrMore]

theorem retrFrame_done (c : Cfg) (s : State) (j : Job) (n : Nat) :
    RetrFrame s (retrDone c s j n) := by
  unfold retrDone; split <;> simp [RetrFrame]

theorem covers_retrEnd {s s' : State} {j : Job} {k : Option Nat}
    (h : stepRetrEnd c s j k = some s') :
    inProg c s (.retrEnd j k) ∧ Covers s s' (fp c s (.retrEnd j k)) := by
  simp only [stepRetrEnd] at h
  split at h
  · next hg =>
    have hm : Phase.retr j k ∈ s.busy := by simpa using hg
    refine ⟨hm, ?_⟩
    have h0 : RetrFrame s (detach { s with busy := s.busy.erase (.retr j k) } k) :=
      retrFrame_trans (by simp [RetrFrame]) (retrFrame_detach _ k)
    have hf : RetrFrame s s' := by
      split at h
      · cases h; exact retrFrame_trans h0 (retrFrame_exit _ _)
      · split at h
        · cases h; exact retrFrame_trans h0 (retrFrame_exit _ _)
        · split at h
          · split at h <;> cases h
            · exact retrFrame_trans (retrFrame_trans h0 (retrFrame_move c _ j _))
                (retrFrame_exit _ _)
            · exact retrFrame_trans (retrFrame_trans h0 (retrFrame_move c _ j _))
                (retrFrame_more _ _ _)
          · cases h
            exact retrFrame_trans (retrFrame_trans h0 (retrFrame_move c _ j _))
              (retrFrame_done c _ _ _)
    obtain ⟨f1, f2, f3, f4, f5, f6, f7, f8, f9⟩ := hf
    constructor <;> dcovers_frame
  · simp at h

/-- what `scanEnd` leaves alone -/
def ScanFrame (s s' : State) : Prop :=
  s'.eof = s.eof ∧ s'.rclose = s.rclose ∧ s'.emitQ = s.emitQ ∧ s'.reordQ = s.reordQ ∧
    s'.orderQ = s.orderQ ∧ s'.ptok = s.ptok ∧ s'.pdone = s.pdone ∧ s'.ppos = s.ppos ∧
    s'.rd = s.rd ∧ s'.head = s.head ∧ s'.outSlots = s.outSlots ∧ s'.outq = s.outq ∧
    s'.orphans = s.orphans

theorem scanFrame_trans {a b d : State} (h₁ : ScanFrame a b) (h₂ : ScanFrame b d) :
    ScanFrame a d := by
  obtain ⟨a1, a2, a3, a4, a5, a6, a7, a8, a9, a10, a11, a12, a13⟩ := h₁
  obtain ⟨b1, b2, b3, b4, b5, b6, b7, b8, b9, b10, b11, b12, b13⟩ := h₂
  exact ⟨b1.trans a1, b2.trans a2, b3.trans a3, b4.trans a4, b5.trans a5, b6.trans a6,
    b7.trans a7, b8.trans a8, b9.trans a9, b10.trans a10, b11.trans a11, b12.trans a12,
    b13.trans a13⟩

theorem scanFrame_detach (s : State) (k : Option Nat) : ScanFrame s (detach s k) := by
  unfold detach; split
  · simp [ScanFrame]
  · split <;> simp [ScanFrame]

theorem scanFrame_new (c : Cfg) (s : State) (x : Nat) : ScanFrame s (scanNew c s x) := by
  unfold scanNew; split <;> simp [ScanFrame]

theorem scanFrame_requeue (c : Cfg) (s : State) (x hi : Nat) :
    ScanFrame s (scanRequeue c s x hi) := by
  unfold scanRequeue; split <;> simp [ScanFrame]

theorem scanFrame_wu (s : State) : ScanFrame s { s with wu := s.wu + 1 } := by
  simp [ScanFrame]

theorem covers_scanEnd {s s' : State} {st k : Nat} (h : stepScanEnd c s st k = some s') :
    inProg c s (.scanEnd st k) ∧ Covers s s' (fp c s (.scanEnd st k)) := by
  simp only [stepScanEnd] at h
  split at h
  · next hg =>
    have hm : Phase.scan st k ∈ s.busy := by simpa using hg
    refine ⟨hm, ?_⟩
    have h0 : ScanFrame s (detach { s with busy := s.busy.erase (.scan st k) } (some k)) :=
      scanFrame_trans (by simp [ScanFrame]) (scanFrame_detach _ _)
    have hf : ScanFrame s s' := by
      split at h
      · cases h; exact scanFrame_trans h0 (scanFrame_wu _)
      · split at h <;> cases h
        · exact scanFrame_trans h0 (scanFrame_wu _)
        · exact scanFrame_trans h0
            (scanFrame_trans (scanFrame_new c _ _) (scanFrame_requeue c _ _ _))
    obtain ⟨f1, f2, f3, f4, f5, f6, f7, f8, f9, f10, f11, f12, f13⟩ := hf
    constructor <;> dcovers_frame
  · simp at h

/-- **the annotation covers the model** (decompression): each transition
    belongs to a section in progress whose footprint writes every shared
    variable the transition changes -/
theorem step_annotated {c : Cfg} {s s' : State} {l : Label} (h : step c s l = some s') :
    inProg c s (secOf s l) ∧ Covers s s' (fp c s (secOf s l)) := by
  unfold step at h
  split at h
  · simp at h
  · cases l with
    | rTake => exact covers_rTake h
    | rQuit => exact covers_rQuit h
    | rBlock => exact covers_rBlock h
    | rEmpty => exact covers_rEmpty h
    | rEof => exact covers_rEof h
    | wDone => exact covers_wDone h
    | reorder ob => exact covers_reorder h
    | parseStart => exact covers_parseStart h
    | parseEnd => exact covers_parseEnd h
    | retrStart j => exact covers_retrStart h
    | retrEnd j k => exact covers_retrEnd h
    | retrPost e => exact covers_retrPost h
    | emitStart e => exact covers_emitStart h
    | emitEnd e => exact covers_emitEnd h
    | scanStart sp => exact covers_scanStart h
    | scanEnd st k => exact covers_scanEnd h

end LbzVerif.Model.Race.D
