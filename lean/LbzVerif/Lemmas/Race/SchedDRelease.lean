/-
  Lemmas.Race.SchedDRelease — the release condition of the model implies the
  release condition of the annotation.

  `Model.SchedD` gives an input slot back (`source_release_buffer`) in three
  places, each guarded by `!attachedTo s₁ k` where `s₁` is the state after the
  acting thread's own phase has been removed: `detach` (`k < head`), `advance`
  and `parseFinish` (`releaseCount`: `head ≤ k < head'`).  The footprints use
  `mayFree s t` (evaluated in the state `s` BEFORE the phase is removed): block
  `k` is alive and no thread other than `t` holds a reference.  This file
  proves that the former implies the latter, so `releaseFp` over-approximates
  what the model releases.
-/
import LbzVerif.Lemmas.Race.SchedDFootprint

namespace LbzVerif.Model.Race.D
open LbzVerif.Model.SchedD LbzVerif.Lemmas.SchedD

theorem filter_block_nil {l : List Phase} {k : Nat}
    (h : l.any (fun ph => ph.block == some k) = false) :
    l.filter (fun ph => ph.block == some k) = [] := by
  rw [List.filter_eq_nil_iff]
  intro ph hm hb
  have : l.any (fun ph => ph.block == some k) = true := List.any_eq_true.2 ⟨ph, hm, hb⟩
  rw [h] at this; cases this

/-- a busy worker `ph` acts; after its phase is removed nobody is attached to
    `k`: then in the state before, at most `ph` itself was -/
theorem att_of_erase {s : State} {ph : Phase} {k : Nat} (hm : ph ∈ s.busy)
    (h : attachedTo { s with busy := s.busy.erase ph } k = false) :
    attThreads s k = [] ∨ attThreads s k = [.busy ph] := by
  simp only [attachedTo, Bool.or_eq_false_iff] at h
  obtain ⟨h1, h2⟩ := h
  have hp : ¬ s.pphase = some (some k) := by
    intro e; rw [e] at h1; simp at h1
  have hf := filter_block_nil h2
  have hperm : (s.busy.filter (fun x => x.block == some k)).Perm
      ((ph :: s.busy.erase ph).filter (fun x => x.block == some k)) :=
    (List.perm_cons_erase hm).filter _
  simp only [attThreads, if_neg hp, List.nil_append]
  rw [List.filter_cons, hf] at hperm
  split at hperm
  · right
    have := List.perm_singleton.1 hperm
    rw [this]; rfl
  · left
    have := List.perm_nil.1 hperm
    rw [this]; rfl

/-- the parser acts; after `pphase := none` nobody is attached to `k` -/
theorem att_of_parser {s : State} {k : Nat}
    (h : attachedTo { s with pphase := none } k = false) :
    attThreads s k = [] ∨ attThreads s k = [.parser] := by
  simp only [attachedTo, Bool.or_eq_false_iff] at h
  have hf := filter_block_nil h.2
  simp only [attThreads, hf, List.map_nil, List.append_nil]
  split
  · exact Or.inr rfl
  · exact Or.inl rfl

/-- **the model's release condition implies `mayFree`** (busy worker):
    a block that is alive before the step and unattached once `ph` has left is
    one the section of `ph` may free -/
theorem release_mayFree_busy {s : State} {ph : Phase} {k : Nat} (hm : ph ∈ s.busy)
    (ha : alive s k) (h : attachedTo { s with busy := s.busy.erase ph } k = false) :
    k ∈ mayFree s (.busy ph) := by
  simp only [mayFree, List.mem_filter, List.mem_range, Bool.and_eq_true, Bool.or_eq_true,
    decide_eq_true_eq]
  exact ⟨ha.1, ha, att_of_erase hm h⟩

/-- … and for the parser -/
theorem release_mayFree_parser {s : State} {k : Nat} (ha : alive s k)
    (h : attachedTo { s with pphase := none } k = false) : k ∈ mayFree s .parser := by
  simp only [mayFree, List.mem_filter, List.mem_range, Bool.and_eq_true, Bool.or_eq_true,
    decide_eq_true_eq]
  exact ⟨ha.1, ha, att_of_parser h⟩

end LbzVerif.Model.Race.D
