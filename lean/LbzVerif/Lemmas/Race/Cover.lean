/-
  Lemmas.Race.Cover — the counting invariants behind `owner_unique`:

  * `cover x s ≤ 1` for every position `x`, where `cover x s` counts the
    work blocks / output buffers with key `x` in all queues and worker phases
    PLUS the live in_blks that could still produce a block at `x` (same major,
    `pos.minor ≤ x.minor`): a position is either taken by one block or still to
    be produced by at most one in_blk, never both;  nothing at or beyond
    `next_id` is covered.
  * `occI m s ≤ 1`: input chunk `m` sits in `coll_q`, or with one worker, or
    (as the buffer being filled, `m = next_id`) with the reader.

  Both are inductive over every transition of `Model.SchedC` (all `n`, inputs,
  codecs, interleavings, spurious wake-ups).
-/
import LbzVerif.Lemmas.SchedC.StepRel
import LbzVerif.Model.Race.SchedC

namespace LbzVerif.Model.Race.C
open LbzVerif.Model.SchedC

variable {α σ : Type}

theorem ind_le_one (p : Prop) [Decidable p] : ind p ≤ 1 := by unfold ind; split <;> omega

theorem ind_pos {p : Prop} [Decidable p] (h : p) : ind p = 1 := by simp [ind, h]
theorem ind_neg {p : Prop} [Decidable p] (h : ¬p) : ind p = 0 := by simp [ind, h]
theorem ind_eq_one {p : Prop} [Decidable p] (h : 0 < ind p) : p := by
  unfold ind at h; split at h
  · assumption
  · omega

/-- in_blk at `f` can still produce a block at `x` -/
def beyond (x f : Pos) : Nat := ind (f.major = x.major ∧ f.minor ≤ x.minor)

theorem beyond_split (x p : Pos) : beyond x p = ind (p = x) + beyond x p.incMinor := by
  obtain ⟨pm, pn⟩ := p
  obtain ⟨xm, xn⟩ := x
  simp only [beyond, ind, Pos.incMinor, Pos.mk.injEq]
  by_cases h1 : pm = xm <;> by_cases h2 : pn = xn <;> by_cases h3 : pn ≤ xn <;>
    by_cases h4 : pn + 1 ≤ xn <;> simp [h1, h2, h3, h4] <;> omega

theorem beyond_le_one (x p : Pos) : beyond x p ≤ 1 := ind_le_one _

/-- contribution of a worker phase to `cover x` -/
def covW (x : Pos) : WPhase α σ → Nat
  | .c1 ib => beyond x ib.pos
  | .c2 w => ind (w.pos = x)
  | .s1 (some w) (some ib) => ind (w.pos = x) + beyond x ib.pos
  | .s1 (some w) none => ind (w.pos = x)
  | .s1 none (some ib) => beyond x ib.pos
  | .s2 w _ => ind (w.pos = x)
  | .t1 w => ind (w.pos = x)
  | _ => 0

def covI (x : Pos) (q : List (IBlk α)) : Nat := (q.map (fun ib => beyond x ib.pos)).sum

def covO (x : Pos) : Option (IBlk α) → Nat
  | some ib => beyond x ib.pos
  | none => 0

def cover (x : Pos) (s : State α σ) : Nat :=
  covI x s.collQ + cntW x s.transQ + cntW x s.reordQ + cntW x s.outputQ + cntO x s.unfinished +
    cntO x s.wr + wsum (covW x) s.ws

def rdCnt (m : Nat) (s : State α σ) : Nat := ind (s.rd = .hold ∧ m = s.nextId)

def occI (m : Nat) (s : State α σ) : Nat := cntI m s.collQ + wsum (inCnt m) s.ws + rdCnt m s

structure CovInv (s : State α σ) : Prop where
  le : ∀ x, cover x s ≤ 1
  fresh : ∀ x, s.nextId ≤ x.major → cover x s = 0
  inLe : ∀ m, occI m s ≤ 1
  inFresh : ∀ m, s.nextId ≤ m → cntI m s.collQ + wsum (inCnt m) s.ws = 0

theorem covW_blind (x : Pos) : Blind (covW (α := α) (σ := σ) x) := rfl
theorem inCnt_blind (m : Nat) : Blind (inCnt (α := α) (σ := σ) m) := rfl

theorem covW_s1 (x : Pos) (u : Option (WBlk σ)) (h : Option (IBlk α)) :
    covW x (.s1 u h) = cntO x u + covO x h := by
  cases u <;> cases h <;> simp [covW, cntO, covO]

theorem inCnt_s1 (m : Nat) (u : Option (WBlk σ)) (h : Option (IBlk α)) :
    inCnt m (.s1 u h) = cntI m h.toList := by
  cases h <;> simp [inCnt, cntI]

theorem covI_insI (x : Pos) (b : IBlk α) (q : List (IBlk α)) :
    covI x (insI b q) = beyond x b.pos + covI x q := by
  induction q with
  | nil => simp [insI, covI]
  | cons y l ih =>
    simp only [insI]; split
    · simp [covI]
    · simp only [covI, List.map_cons, List.sum_cons] at ih ⊢; omega

theorem cntI_insI (m : Nat) (b : IBlk α) (q : List (IBlk α)) :
    cntI m (insI b q) = ind (b.pos.major = m) + cntI m q := by
  induction q with
  | nil => simp [insI, cntI]
  | cons y l ih =>
    simp only [insI]; split
    · simp [cntI]
    · simp only [cntI, List.map_cons, List.sum_cons] at ih ⊢; omega

theorem cntW_insW (x : Pos) (b : WBlk σ) (q : List (WBlk σ)) :
    cntW x (insW b q) = ind (b.pos = x) + cntW x q := by
  induction q with
  | nil => simp [insW, cntW]
  | cons y l ih =>
    simp only [insW]; split
    · simp [cntW]
    · simp only [cntW, List.map_cons, List.sum_cons] at ih ⊢; omega

theorem cntW_append (x : Pos) (q : List (WBlk σ)) (b : WBlk σ) :
    cntW x (q ++ [b]) = cntW x q + ind (b.pos = x) := by
  simp [cntW]

theorem covI_cons (x : Pos) (b : IBlk α) (q : List (IBlk α)) :
    covI x (b :: q) = beyond x b.pos + covI x q := by simp [covI]
theorem cntI_cons (m : Nat) (b : IBlk α) (q : List (IBlk α)) :
    cntI m (b :: q) = ind (b.pos.major = m) + cntI m q := by simp [cntI]
theorem cntW_cons (x : Pos) (b : WBlk σ) (q : List (WBlk σ)) :
    cntW x (b :: q) = ind (b.pos = x) + cntW x q := by simp [cntW]

theorem cntO_none (x : Pos) : cntO (σ := σ) x none = 0 := rfl
theorem cntO_some (x : Pos) (w : WBlk σ) : cntO x (some w) = ind (w.pos = x) := rfl

theorem covI_tail_head (x : Pos) (q : List (IBlk α)) :
    covI x q.tail + covO x q.head? = covI x q := by
  cases q <;> simp [covI, covO]; omega

theorem cntI_tail_head (m : Nat) (q : List (IBlk α)) :
    cntI m q.tail + cntI m q.head?.toList = cntI m q := by
  cases q <;> simp [cntI]; omega

theorem replicate_wsum0 (f : WPhase α σ → Nat) (n : Nat) (hf : f .ready = 0) :
    wsum f (List.replicate n (WPhase.ready : WPhase α σ)) = 0 := by
  induction n with
  | zero => rfl
  | succ n ih => simp only [wsum] at ih ⊢; simp [List.replicate_succ, hf]

theorem covInv_init (c : Cfg) (input : List α) : CovInv (init (σ := σ) c input) := by
  have h1 : ∀ x, cover x (init (σ := σ) c input) = 0 := by
    intro x
    simp [cover, init, initWith, reselect, covI, cntW, cntO,
      replicate_wsum0 (covW (α := α) (σ := σ) x) c.n rfl]
  have h2 : ∀ m, cntI m (init (σ := σ) c input).collQ + wsum (inCnt m) (init (σ := σ) c input).ws = 0 := by
    intro m
    simp [init, initWith, reselect, cntI, replicate_wsum0 (inCnt (α := α) (σ := σ) m) c.n rfl]
  refine ⟨fun x => by rw [h1]; omega, fun x _ => h1 x, fun m => ?_, fun m _ => h2 m⟩
  have := h2 m
  have hr : rdCnt m (init (σ := σ) c input) = 0 := by
    simp [rdCnt, init, initWith, reselect, ind]
  simp only [occI]; omega

/-- what one section does to `cover`: never increases it, except
    `on_input_avail`, which adds the positions of the new chunk `next_id` -/
def CoverStep (s t : State α σ) : Prop :=
  (t.nextId = s.nextId ∧ ∀ x, cover x t ≤ cover x s) ∨
  (t.nextId = s.nextId + 1 ∧ ∀ x, cover x t = cover x s + beyond x ⟨s.nextId, 0⟩)

section
variable {c : Cfg} {cd : Codec α σ} {s t : State α σ} {k : EndKind}

theorem cover_ends {s' : State α σ} (h : Ends c k t s') (x : Pos) : cover x s' = cover x t := by
  cases h with
  | unlock hw =>
    have := wsum_wake (covW_blind (α := α) (σ := σ) x) hw
    simp only [cover, this]
  | resel => rfl
  | plain => rfl

theorem occ_ends {s' : State α σ} (h : Ends c k t s') (m : Nat) :
    cntI m s'.collQ + wsum (inCnt m) s'.ws = cntI m t.collQ + wsum (inCnt m) t.ws ∧
      rdCnt m s' = rdCnt m t ∧ s'.nextId = t.nextId := by
  cases h with
  | unlock hw =>
    have := wsum_wake (inCnt_blind (α := α) (σ := σ) m) hw
    simp only [this, rdCnt]; exact ⟨trivial, trivial, trivial⟩
  | resel => exact ⟨rfl, rfl, rfl⟩
  | plain => exact ⟨rfl, rfl, rfl⟩

theorem cover_core (h : Core c cd s k t) : CoverStep s t := by
  cases h with
  | rTake hr hi => left; exact ⟨rfl, fun x => Nat.le_refl _⟩
  | rDeliver hr hi hl =>
    right; refine ⟨rfl, fun x => ?_⟩
    simp only [cover, covI_insI]; omega
  | rEmpty hr hi => left; exact ⟨rfl, fun x => Nat.le_refl _⟩
  | rEof hr hl => left; exact ⟨rfl, fun x => Nat.le_refl _⟩
  | wTake b q hw hq =>
    left; refine ⟨rfl, fun x => ?_⟩
    simp only [cover, hw, hq, cntW_cons, cntO]; omega
  | wDone b hw hl =>
    left; refine ⟨rfl, fun x => ?_⟩
    simp only [cover, hw, cntO]; omega
  | runReorder i w q hw hn hq =>
    left; refine ⟨rfl, fun x => ?_⟩
    simp only [cover, hq, cntW_cons, cntW_append]; omega
  | runExit i hw hn hf =>
    left; refine ⟨rfl, fun x => ?_⟩
    have e := wsum_set (covW x) s.ws i .exited .atHead hw
    have b := wsum_broadcast (covW_blind (α := α) (σ := σ) x) (s.ws.set i .exited)
    simp only [covW] at e
    simp only [cover]; omega
  | acquire i hw hl =>
    left; refine ⟨rfl, fun x => ?_⟩
    have e := wsum_set (covW x) s.ws i .atHead .ready hw
    simp only [covW] at e
    simp only [cover, setW]; omega
  | spurious i hw =>
    left; refine ⟨rfl, fun x => ?_⟩
    have e := wsum_set (covW x) s.ws i .ready .waiting hw
    simp only [covW] at e
    simp only [cover, setW]; omega
  | runWait i hw hn hf =>
    left; refine ⟨rfl, fun x => ?_⟩
    have e := wsum_set (covW x) s.ws i .waiting .atHead hw
    simp only [covW] at e
    simp only [cover, setW]; omega
  | runCollect i ib q hw hn hq hwu =>
    left; refine ⟨rfl, fun x => ?_⟩
    have e := wsum_set (covW x) s.ws i (.c1 ib) .atHead hw
    simp only [covW] at e
    simp only [cover, setW, hq, covI_cons]; omega
  | runTransmit i w q hw hn hq hos =>
    left; refine ⟨rfl, fun x => ?_⟩
    have e := wsum_set (covW x) s.ws i (.t1 w) .atHead hw
    simp only [covW] at e
    simp only [cover, setW, hq, cntW_cons]; omega
  | c1Requeue i ib hw hl hf =>
    left; refine ⟨rfl, fun x => ?_⟩
    have e := wsum_set (covW x) s.ws i
      (.c2 ⟨ib.pos, ib.pos.incMinor, (collectOn cd cd.init ib.data).1⟩) (.c1 ib) hw
    have sp := beyond_split x ib.pos
    simp only [covW] at e
    simp only [cover, setW, covI_insI]; omega
  | c1Release i ib hw hl =>
    left; refine ⟨rfl, fun x => ?_⟩
    have e := wsum_set (covW x) s.ws i
      (.c2 ⟨ib.pos, ib.pos.incMajor, (collectOn cd cd.init ib.data).1⟩) (.c1 ib) hw
    have sp := beyond_split x ib.pos
    simp only [covW] at e
    simp only [cover, setW]; omega
  | c2Enq i w hw hf =>
    left; refine ⟨rfl, fun x => ?_⟩
    have e := wsum_set (covW x) s.ws i .atHead (.c2 w) hw
    simp only [covW] at e
    simp only [cover, setW, cntW_insW]; omega
  | t1Enq i w hw hf =>
    left; refine ⟨rfl, fun x => ?_⟩
    have e := wsum_set (covW x) s.ws i .atHead (.t1 w) hw
    simp only [covW] at e
    simp only [cover, setW, cntW_insW]; omega
  | s1Requeue i wo ib hw hl hf =>
    left; refine ⟨rfl, fun x => ?_⟩
    have e := wsum_set (covW x) s.ws i
      (.s2 ⟨(wo.getD ⟨ib.pos, ib.pos, cd.init⟩).pos, (wo.getD ⟨ib.pos, ib.pos, cd.init⟩).next.incMinor,
          (collectOn cd (wo.getD ⟨ib.pos, ib.pos, cd.init⟩).enc ib.data).1⟩
        (collectOn cd (wo.getD ⟨ib.pos, ib.pos, cd.init⟩).enc ib.data).2.2) (.s1 wo (some ib)) hw
    have sp := beyond_split x ib.pos
    cases wo with
    | none =>
      simp only [covW, Option.getD_none] at e
      simp only [cover, setW, covI_insI, Option.getD_none]; omega
    | some w =>
      simp only [covW, Option.getD_some] at e
      simp only [cover, setW, covI_insI, Option.getD_some]; omega
  | s1Release i wo ib hw hl =>
    left; refine ⟨rfl, fun x => ?_⟩
    have e := wsum_set (covW x) s.ws i
      (.s2 ⟨(wo.getD ⟨ib.pos, ib.pos, cd.init⟩).pos, (wo.getD ⟨ib.pos, ib.pos, cd.init⟩).next.incMajor,
          (collectOn cd (wo.getD ⟨ib.pos, ib.pos, cd.init⟩).enc ib.data).1⟩
        (collectOn cd (wo.getD ⟨ib.pos, ib.pos, cd.init⟩).enc ib.data).2.2) (.s1 wo (some ib)) hw
    have sp := beyond_split x ib.pos
    cases wo with
    | none =>
      simp only [covW, Option.getD_none] at e
      simp only [cover, setW, Option.getD_none]; omega
    | some w =>
      simp only [covW, Option.getD_some] at e
      simp only [cover, setW, Option.getD_some]; omega
  | s1Flush i w hw hf =>
    left; refine ⟨rfl, fun x => ?_⟩
    have e := wsum_set (covW x) s.ws i (.c2 w) (.s1 (some w) none) hw
    simp only [covW] at e
    simp only [cover, setW]; omega
  | s2Full i w hw hf =>
    left; refine ⟨rfl, fun x => ?_⟩
    have e := wsum_set (covW x) s.ws i (.c2 w) (.s2 w true) hw
    simp only [covW] at e
    simp only [cover, setW]; omega
  | s2Part i w hw hf =>
    left; refine ⟨rfl, fun x => ?_⟩
    have e := wsum_set (covW x) s.ws i .atHead (.s2 w false) hw
    have hu := ind_le_one (w.pos = x)
    simp only [covW] at e
    -- `unfinished_work` is overwritten; whatever it held is dropped from the count
    simp only [cover, setW, cntO_some]; omega
  | runCollectSeq i hw hn hg =>
    left; refine ⟨rfl, fun x => ?_⟩
    have e := wsum_set (covW x) s.ws i (.s1 s.unfinished s.collQ.head?) .atHead hw
    have th := covI_tail_head x s.collQ
    rw [covW_s1] at e
    simp only [covW] at e
    simp only [cover, setW, cntO_none]; omega

end


/-! ### the in-chunk count -/

section
variable {c : Cfg} {cd : Codec α σ} {s t : State α σ} {k : EndKind}

/-- `coll_q` + workers part of `occI` -/
def qI (m : Nat) (s : State α σ) : Nat := cntI m s.collQ + wsum (inCnt m) s.ws

theorem rdCnt_of_ne {m : Nat} {s : State α σ} (h : s.rd ≠ .hold) : rdCnt m s = 0 := by
  simp [rdCnt, ind, h]

theorem occ_core (h : Core c cd s k t) (inv : CovInv s) :
    (∀ m, qI m t + rdCnt m t ≤ 1) ∧ (∀ m, t.nextId ≤ m → qI m t = 0) := by
  have i1 : ∀ m, qI m s + rdCnt m s ≤ 1 := inv.inLe
  have i2 : ∀ m, s.nextId ≤ m → qI m s = 0 := inv.inFresh
  -- sections that leave the reader alone and do not increase the count
  have mono : t.rd = s.rd → t.nextId = s.nextId → (∀ m, qI m t ≤ qI m s) →
      (∀ m, qI m t + rdCnt m t ≤ 1) ∧ (∀ m, t.nextId ≤ m → qI m t = 0) := by
    intro h1 h2 h3
    refine ⟨fun m => ?_, fun m hm => ?_⟩
    · have := i1 m; have := h3 m
      have : rdCnt m t = rdCnt m s := by simp only [rdCnt, h1, h2]
      omega
    · have := i2 m (h2 ▸ hm); have := h3 m; omega
  cases h with
  | rTake hr hi =>
    refine ⟨fun m => ?_, fun m hm => i2 m hm⟩
    have h0 : rdCnt m s = 0 := rdCnt_of_ne (by rw [hr]; decide)
    by_cases hm : m = s.nextId
    · have := i2 m (by omega)
      have : qI m { s with rd := RPhase.hold, inSlots := s.inSlots - 1 } = qI m s := rfl
      have := ind_le_one ((RPhase.hold = RPhase.hold) ∧ m = s.nextId)
      simp only [rdCnt] at *; omega
    · have : rdCnt m { s with rd := RPhase.hold, inSlots := s.inSlots - 1 } = 0 := by
        simp [rdCnt, ind, hm]
      have : qI m { s with rd := RPhase.hold, inSlots := s.inSlots - 1 } = qI m s := rfl
      have := i1 m
      omega
  | rDeliver hr hi hl =>
    refine ⟨fun m => ?_, fun m hm => ?_⟩
    · have hz : ∀ (p : Prop) [Decidable p],
          (if p then RPhase.eofPending else RPhase.idle) ≠ RPhase.hold := by
        intro p _; split <;> decide
      rw [rdCnt_of_ne (hz _)]
      simp only [qI, cntI_insI]
      by_cases hm : s.nextId = m
      · have := i2 m (by omega); simp only [qI] at this
        have := ind_le_one (s.nextId = m); omega
      · have := i1 m; simp only [qI] at this
        rw [ind_neg hm]; omega
    · simp only [qI, cntI_insI]
      have := i2 m (by simp only at hm; omega); simp only [qI] at this
      rw [ind_neg (by simp only at hm; omega)]; omega
  | rEmpty hr hi =>
    refine ⟨fun m => ?_, fun m hm => i2 m hm⟩
    rw [rdCnt_of_ne (by simp)]
    have := i1 m
    have : qI m { s with rd := RPhase.eofPending, inSlots := s.inSlots + 1 } = qI m s := rfl
    omega
  | rEof hr hl =>
    refine ⟨fun m => ?_, fun m hm => i2 m hm⟩
    rw [rdCnt_of_ne (by simp)]
    have := i1 m
    have : qI m { s with eof := true, rd := RPhase.done } = qI m s := rfl
    omega
  | wTake b q hw hq => exact mono rfl rfl (fun m => Nat.le_refl _)
  | wDone b hw hl => exact mono rfl rfl (fun m => Nat.le_refl _)
  | runReorder i w q hw hn hq => exact mono rfl rfl (fun m => Nat.le_refl _)
  | runExit i hw hn hf =>
    refine mono rfl rfl (fun m => ?_)
    have e := wsum_set (inCnt m) s.ws i .exited .atHead hw
    have b := wsum_broadcast (inCnt_blind (α := α) (σ := σ) m) (s.ws.set i .exited)
    simp only [inCnt] at e
    simp only [qI]; omega
  | acquire i hw hl =>
    refine mono rfl rfl (fun m => ?_)
    have e := wsum_set (inCnt m) s.ws i .atHead .ready hw
    simp only [inCnt] at e
    simp only [qI, setW]; omega
  | spurious i hw =>
    refine mono rfl rfl (fun m => ?_)
    have e := wsum_set (inCnt m) s.ws i .ready .waiting hw
    simp only [inCnt] at e
    simp only [qI, setW]; omega
  | runWait i hw hn hf =>
    refine mono rfl rfl (fun m => ?_)
    have e := wsum_set (inCnt m) s.ws i .waiting .atHead hw
    simp only [inCnt] at e
    simp only [qI, setW]; omega
  | runCollect i ib q hw hn hq hwu =>
    refine mono rfl rfl (fun m => ?_)
    have e := wsum_set (inCnt m) s.ws i (.c1 ib) .atHead hw
    simp only [inCnt] at e
    simp only [qI, setW, hq, cntI_cons]; omega
  | runTransmit i w q hw hn hq hos =>
    refine mono rfl rfl (fun m => ?_)
    have e := wsum_set (inCnt m) s.ws i (.t1 w) .atHead hw
    simp only [inCnt] at e
    simp only [qI, setW]; omega
  | c1Requeue i ib hw hl hf =>
    refine mono rfl rfl (fun m => ?_)
    have e := wsum_set (inCnt m) s.ws i
      (.c2 ⟨ib.pos, ib.pos.incMinor, (collectOn cd cd.init ib.data).1⟩) (.c1 ib) hw
    have hmaj : ib.pos.incMinor.major = ib.pos.major := rfl
    simp only [inCnt] at e
    simp only [qI, setW, cntI_insI, hmaj]; omega
  | c1Release i ib hw hl =>
    refine mono rfl rfl (fun m => ?_)
    have e := wsum_set (inCnt m) s.ws i
      (.c2 ⟨ib.pos, ib.pos.incMajor, (collectOn cd cd.init ib.data).1⟩) (.c1 ib) hw
    simp only [inCnt] at e
    simp only [qI, setW]; omega
  | c2Enq i w hw hf =>
    refine mono rfl rfl (fun m => ?_)
    have e := wsum_set (inCnt m) s.ws i .atHead (.c2 w) hw
    simp only [inCnt] at e
    simp only [qI, setW]; omega
  | t1Enq i w hw hf =>
    refine mono rfl rfl (fun m => ?_)
    have e := wsum_set (inCnt m) s.ws i .atHead (.t1 w) hw
    simp only [inCnt] at e
    simp only [qI, setW]; omega
  | s1Requeue i wo ib hw hl hf =>
    refine mono rfl rfl (fun m => ?_)
    have e := wsum_set (inCnt m) s.ws i
      (.s2 ⟨(wo.getD ⟨ib.pos, ib.pos, cd.init⟩).pos, (wo.getD ⟨ib.pos, ib.pos, cd.init⟩).next.incMinor,
          (collectOn cd (wo.getD ⟨ib.pos, ib.pos, cd.init⟩).enc ib.data).1⟩
        (collectOn cd (wo.getD ⟨ib.pos, ib.pos, cd.init⟩).enc ib.data).2.2) (.s1 wo (some ib)) hw
    have hmaj : ib.pos.incMinor.major = ib.pos.major := rfl
    simp only [inCnt] at e
    simp only [qI, setW, cntI_insI, hmaj]; omega
  | s1Release i wo ib hw hl =>
    refine mono rfl rfl (fun m => ?_)
    have e := wsum_set (inCnt m) s.ws i
      (.s2 ⟨(wo.getD ⟨ib.pos, ib.pos, cd.init⟩).pos, (wo.getD ⟨ib.pos, ib.pos, cd.init⟩).next.incMajor,
          (collectOn cd (wo.getD ⟨ib.pos, ib.pos, cd.init⟩).enc ib.data).1⟩
        (collectOn cd (wo.getD ⟨ib.pos, ib.pos, cd.init⟩).enc ib.data).2.2) (.s1 wo (some ib)) hw
    simp only [inCnt] at e
    simp only [qI, setW]; omega
  | s1Flush i w hw hf =>
    refine mono rfl rfl (fun m => ?_)
    have e := wsum_set (inCnt m) s.ws i (.c2 w) (.s1 (some w) none) hw
    simp only [inCnt] at e
    simp only [qI, setW]; omega
  | s2Full i w hw hf =>
    refine mono rfl rfl (fun m => ?_)
    have e := wsum_set (inCnt m) s.ws i (.c2 w) (.s2 w true) hw
    simp only [inCnt] at e
    simp only [qI, setW]; omega
  | s2Part i w hw hf =>
    refine mono rfl rfl (fun m => ?_)
    have e := wsum_set (inCnt m) s.ws i .atHead (.s2 w false) hw
    simp only [inCnt] at e
    simp only [qI, setW]; omega
  | runCollectSeq i hw hn hg =>
    refine mono rfl rfl (fun m => ?_)
    have e := wsum_set (inCnt m) s.ws i (.s1 s.unfinished s.collQ.head?) .atHead hw
    have th := cntI_tail_head m s.collQ
    rw [inCnt_s1] at e
    simp only [inCnt] at e
    simp only [qI, setW]; omega

end

/-! ### the invariant in every reachable state -/

theorem covInv_step {c : Cfg} {cd : Codec α σ} {s s' : State α σ} (h : StepRel c cd s s')
    (inv : CovInv s) : CovInv s' := by
  obtain ⟨k, t, hc, he⟩ := h
  obtain ⟨o1, o2⟩ := occ_core hc inv
  have hn : s'.nextId = t.nextId := (occ_ends he 0).2.2
  refine ⟨fun x => ?_, fun x hx => ?_, fun m => ?_, fun m hm => ?_⟩
  · rw [cover_ends he x]
    rcases cover_core hc with ⟨_, h2⟩ | ⟨_, h2⟩
    · exact Nat.le_trans (h2 x) (inv.le x)
    · rw [h2 x]
      by_cases hb : s.nextId = x.major
      · rw [inv.fresh x (by omega)]; have := beyond_le_one x ⟨s.nextId, 0⟩; omega
      · have : beyond x ⟨s.nextId, 0⟩ = 0 := by
          unfold beyond; exact ind_neg (fun h => hb h.1)
        rw [this]; exact inv.le x
  · rw [cover_ends he x]
    rw [hn] at hx
    rcases cover_core hc with ⟨h1, h2⟩ | ⟨h1, h2⟩
    · have := h2 x; have := inv.fresh x (by omega); omega
    · rw [h2 x, inv.fresh x (by omega)]
      unfold beyond
      rw [Nat.zero_add]
      refine ind_neg ?_
      intro h
      have h1 : s.nextId = x.major := h.1
      omega
  · obtain ⟨e1, e2, _⟩ := occ_ends he m
    have := o1 m
    simp only [occI, qI] at *; omega
  · obtain ⟨e1, _, _⟩ := occ_ends he m
    have := o2 m (by omega)
    simp only [qI] at *; omega

theorem covInv_reach {c : Cfg} {cd : Codec α σ} {input : List α} {s : State α σ}
    (h : Reach c cd input s) : CovInv s := by
  induction h with
  | init => exact covInv_init c input
  | step l _ hs ih => exact covInv_step (step_rel hs) ih

end LbzVerif.Model.Race.C
