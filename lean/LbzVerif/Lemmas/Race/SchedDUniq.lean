/-
  Lemmas.Race.SchedDUniq — uniqueness of ownership for the expansion scheduler:
  no two workers are in the same phase (`busy_nodup`, so naming a busy worker
  by its phase is injective), two holders of the same heap object are the same
  holder (`holder_unique`), hence the discipline `Race.D.disc` is unambiguous.

  Everything is derived from invariants of `Model.SchedD` proved for C11:
  `UI` ("every block position has at most one producer", `Uniq2.ui_reach`),
  `TI2` (at most one emit job per block, and it is past its buffers in
  `reord_q`; `Token.ti2_reach`) and `SQ` (`InSlots.sq_reach`).
-/
import LbzVerif.Model.Race.SchedD
import LbzVerif.Lemmas.SchedD.Token

namespace LbzVerif.Model.Race.D
open LbzVerif.Model.SchedD LbzVerif.Lemmas.SchedD

/-- the facts about a reachable, non-failed state that uniqueness needs -/
structure Facts (c : Cfg) (s : State) : Prop where
  ui : UI c s
  ti : TI2 c s
  sq : SQ c s

theorem facts_reach {c : Cfg} (hW : 0 < c.W) (hn : 1 ≤ c.n) {s : State} (h : Reach c s)
    (hf : s.failed = false) : Facts c s :=
  ⟨ui_reach hW h, ti2_reach hW hn h hf, sq_reach hW h⟩

/-! ### lists -/

/-- in a list whose `flatMap` has no duplicates, two members whose images share
    an element are equal -/
theorem flatMap_nodup_inj {α β} (f : α → List β) :
    ∀ {l : List α}, (l.flatMap f).Nodup → ∀ {a b : α}, a ∈ l → b ∈ l →
      ∀ x, x ∈ f a → x ∈ f b → a = b
  | [], _, _, _, ha, _, _, _, _ => nomatch ha
  | y :: ys, hn, a, b, ha, hb, x, hxa, hxb => by
    simp only [List.flatMap_cons] at hn
    obtain ⟨_, h2, h3⟩ := List.nodup_append.1 hn
    rcases List.mem_cons.1 ha with rfl | ha' <;> rcases List.mem_cons.1 hb with rfl | hb'
    · rfl
    · exact absurd rfl (h3 x hxa x (List.mem_flatMap.2 ⟨b, hb', hxb⟩))
    · exact absurd rfl (h3 x hxb x (List.mem_flatMap.2 ⟨a, ha', hxa⟩))
    · exact flatMap_nodup_inj f h2 ha' hb' x hxa hxb

theorem busy_nodup_aux : ∀ l : List Phase, (l.flatMap Phase.jobBase).Nodup →
    (l.flatMap Phase.emitBase).Nodup → (l.flatMap Phase.scanBlock).Nodup → l.Nodup
  | [], _, _, _ => List.nodup_nil
  | y :: ys, h1, h2, h3 => by
    simp only [List.flatMap_cons] at h1 h2 h3
    obtain ⟨_, a2, a3⟩ := List.nodup_append.1 h1
    obtain ⟨_, b2, b3⟩ := List.nodup_append.1 h2
    obtain ⟨_, c2, c3⟩ := List.nodup_append.1 h3
    refine List.nodup_cons.2 ⟨?_, busy_nodup_aux ys a2 b2 c2⟩
    intro hy
    cases y with
    | retr j k =>
      exact a3 j.base (by simp [Phase.jobBase, Job.baseL]) j.base
        (List.mem_flatMap.2 ⟨_, hy, by simp [Phase.jobBase, Job.baseL]⟩) rfl
    | retr2 e =>
      exact b3 e.base (by simp [Phase.emitBase]) e.base
        (List.mem_flatMap.2 ⟨_, hy, by simp [Phase.emitBase]⟩) rfl
    | emit e =>
      exact b3 e.base (by simp [Phase.emitBase]) e.base
        (List.mem_flatMap.2 ⟨_, hy, by simp [Phase.emitBase]⟩) rfl
    | scan st k =>
      exact c3 k (by simp [Phase.scanBlock]) k
        (List.mem_flatMap.2 ⟨_, hy, by simp [Phase.scanBlock]⟩) rfl

theorem jobBases_busy_nodup {c : Cfg} {s : State} (F : Facts c s) :
    (s.busy.flatMap Phase.jobBase).Nodup := by
  have h := (List.nodup_append.1 F.ui.u1).1
  unfold jobBases at h
  exact (List.nodup_append.1 h).2.1

theorem emitBases_busy_nodup {c : Cfg} {s : State} (F : Facts c s) :
    (s.busy.flatMap Phase.emitBase).Nodup := by
  have h := F.ti.v1
  unfold emitBases at h
  exact (List.nodup_append.1 h).2.1

theorem scanBlocks_busy_nodup {c : Cfg} {s : State} (F : Facts c s) :
    (s.busy.flatMap Phase.scanBlock).Nodup := by
  have h := F.ui.t1
  unfold scanBlocks at h
  exact (List.nodup_append.1 h).2.1

/-- **no two workers are in the same phase** -/
theorem busy_nodup {c : Cfg} {s : State} (F : Facts c s) : s.busy.Nodup :=
  busy_nodup_aux _ (jobBases_busy_nodup F) (emitBases_busy_nodup F) (scanBlocks_busy_nodup F)

/-! ### what a phase holds, in terms of the C11 key lists -/

theorem emitOf_mem {ph : Phase} {b : Nat} (h : emitOf ph = some b) : b ∈ Phase.emitBase ph := by
  cases ph <;> simp [emitOf] at h <;> simp [Phase.emitBase, h]

theorem emitOf_EIn {s : State} {ph : Phase} {b : Nat} (hm : ph ∈ s.busy) (h : emitOf ph = some b) :
    ∃ e, EIn s e ∧ e.base = b := by
  cases ph with
  | retr2 e => simp [emitOf] at h; exact ⟨e, Or.inr (Or.inl hm), h⟩
  | emit e => simp [emitOf] at h; exact ⟨e, Or.inr (Or.inr hm), h⟩
  | retr j k => simp [emitOf] at h
  | scan a b' => simp [emitOf] at h

theorem scanOf_mem {ph : Phase} {k : Nat} (h : scanOf ph = some k) : k ∈ Phase.scanBlock ph := by
  cases ph <;> simp [scanOf] at h <;> simp [Phase.scanBlock, h]

theorem outOf_emit {ph : Phase} {x : Nat × Nat} (h : outOf ph = some x) :
    ∃ e, ph = .emit e ∧ e.key = x := by
  cases ph <;> simp [outOf] at h
  exact ⟨_, rfl, h⟩

/-! ### retr_blk -/

theorem retr_queue_thread {c : Cfg} {s : State} (F : Facts c s) {b : Nat} {ph : Phase}
    (hq : ∃ j ∈ s.retrQ, j.base = b) (hm : ph ∈ s.busy) (hj : jobOf ph = some b) : False := by
  obtain ⟨j, hjq, rfl⟩ := hq
  have hjb : j.base ∈ jobBases s := mem_jobBases.2 ⟨j, Or.inl hjq, rfl⟩
  cases ph with
  | retr j' k =>
    simp [jobOf] at hj
    have hn := (List.nodup_append.1 F.ui.u1).1
    unfold jobBases at hn
    exact (List.nodup_append.1 hn).2.2 j.base
      (List.mem_flatMap.2 ⟨j, hjq, by simp [Job.baseL]⟩) j'.base
      (List.mem_flatMap.2 ⟨_, hm, by simp [Phase.jobBase, Job.baseL]⟩) hj.symm
  | retr2 e =>
    simp [jobOf] at hj
    exact F.ui.u2 j.base (Or.inl ⟨e, Or.inr (Or.inl hm), hj⟩) hjb
  | emit e => simp [jobOf] at hj
  | scan a b' => simp [jobOf] at hj

theorem retr_thread_thread {c : Cfg} {s : State} (F : Facts c s) {b : Nat} {ph ph' : Phase}
    (hm : ph ∈ s.busy) (hj : jobOf ph = some b) (hm' : ph' ∈ s.busy) (hj' : jobOf ph' = some b) :
    ph = ph' := by
  cases ph with
  | retr j k =>
    simp [jobOf] at hj
    cases ph' with
    | retr j' k' =>
      simp [jobOf] at hj'
      exact flatMap_nodup_inj Phase.jobBase (jobBases_busy_nodup F) hm hm' b
        (by simp [Phase.jobBase, Job.baseL, hj]) (by simp [Phase.jobBase, Job.baseL, hj'])
    | retr2 e =>
      simp [jobOf] at hj'
      exact absurd (mem_jobBases.2 ⟨j, Or.inr ⟨k, hm⟩, hj⟩)
        (F.ui.u2 b (Or.inl ⟨e, Or.inr (Or.inl hm'), hj'⟩))
    | emit e => simp [jobOf] at hj'
    | scan a b' => simp [jobOf] at hj'
  | retr2 e =>
    simp [jobOf] at hj
    cases ph' with
    | retr j' k' =>
      simp [jobOf] at hj'
      exact absurd (mem_jobBases.2 ⟨j', Or.inr ⟨k', hm'⟩, hj'⟩)
        (F.ui.u2 b (Or.inl ⟨e, Or.inr (Or.inl hm), hj⟩))
    | retr2 e' =>
      simp [jobOf] at hj'
      exact flatMap_nodup_inj Phase.emitBase (emitBases_busy_nodup F) hm hm' b
        (by simp [Phase.emitBase, hj]) (by simp [Phase.emitBase, hj'])
    | emit e' => simp [jobOf] at hj'
    | scan a b' => simp [jobOf] at hj'
  | emit e => simp [jobOf] at hj
  | scan a b' => simp [jobOf] at hj

/-! ### emit_blk -/

theorem emit_queue_thread {c : Cfg} {s : State} (F : Facts c s) {b : Nat} {ph : Phase}
    (hq : ∃ e ∈ s.emitQ, e.base = b) (hm : ph ∈ s.busy) (he : emitOf ph = some b) : False := by
  obtain ⟨e, heq, rfl⟩ := hq
  have h := F.ti.v1
  unfold emitBases at h
  exact (List.nodup_append.1 h).2.2 e.base (List.mem_map.2 ⟨e, heq, rfl⟩) e.base
    (List.mem_flatMap.2 ⟨ph, hm, emitOf_mem he⟩) rfl

theorem emit_thread_thread {c : Cfg} {s : State} (F : Facts c s) {b : Nat} {ph ph' : Phase}
    (hm : ph ∈ s.busy) (he : emitOf ph = some b) (hm' : ph' ∈ s.busy) (he' : emitOf ph' = some b) :
    ph = ph' :=
  flatMap_nodup_inj Phase.emitBase (emitBases_busy_nodup F) hm hm' b (emitOf_mem he)
    (emitOf_mem he')

/-! ### out_blk -/

theorem out_queue_thread {c : Cfg} {s : State} (F : Facts c s) {b i : Nat} {ph : Phase}
    (hq : ∃ o ∈ s.reordQ, o.key = (b, i)) (hm : ph ∈ s.busy) (ho : outOf ph = some (b, i)) :
    False := by
  obtain ⟨o, hoq, hk⟩ := hq
  obtain ⟨e, rfl, hek⟩ := outOf_emit ho
  simp only [OB.key, Prod.mk.injEq] at hk
  simp only [EJob.key, Prod.mk.injEq] at hek
  have := F.ti.v2 e (Or.inr (Or.inr hm)) o hoq (by omega)
  omega

theorem out_thread_thread {c : Cfg} {s : State} (F : Facts c s) {b i : Nat} {ph ph' : Phase}
    (hm : ph ∈ s.busy) (ho : outOf ph = some (b, i)) (hm' : ph' ∈ s.busy)
    (ho' : outOf ph' = some (b, i)) : ph = ph' := by
  obtain ⟨e, rfl, hek⟩ := outOf_emit ho
  obtain ⟨e', rfl, hek'⟩ := outOf_emit ho'
  simp only [EJob.key, Prod.mk.injEq] at hek hek'
  exact flatMap_nodup_inj Phase.emitBase (emitBases_busy_nodup F) hm hm' b
    (by simp [Phase.emitBase, hek.1]) (by simp [Phase.emitBase, hek'.1])

/-! ### scan descriptor -/

theorem scan_queue_lt {c : Cfg} {s : State} (F : Facts c s) {k : Nat}
    (hq : ∃ sp ∈ s.scanQ, sp / c.W = k) : k < s.rd := by
  obtain ⟨sp, hsp, rfl⟩ := hq
  exact div_lt_of_lt_offs (F.sq.sq sp hsp)

theorem scan_thread_lt {c : Cfg} {s : State} (F : Facts c s) {k : Nat} {ph : Phase}
    (hm : ph ∈ s.busy) (hk : scanOf ph = some k) : k < s.rd := by
  cases ph with
  | scan st k' => simp [scanOf] at hk; subst hk; exact F.sq.bk _ hm
  | retr j k' => simp [scanOf] at hk
  | retr2 e => simp [scanOf] at hk
  | emit e => simp [scanOf] at hk

theorem scan_queue_thread {c : Cfg} {s : State} (F : Facts c s) {k : Nat} {ph : Phase}
    (hq : ∃ sp ∈ s.scanQ, sp / c.W = k) (hm : ph ∈ s.busy) (hk : scanOf ph = some k) : False := by
  obtain ⟨sp, hsp, rfl⟩ := hq
  have h := F.ui.t1
  unfold scanBlocks at h
  exact (List.nodup_append.1 h).2.2 (sp / c.W) (List.mem_map.2 ⟨sp, hsp, rfl⟩) (sp / c.W)
    (List.mem_flatMap.2 ⟨ph, hm, scanOf_mem hk⟩) rfl

theorem scan_thread_thread {c : Cfg} {s : State} (F : Facts c s) {k : Nat} {ph ph' : Phase}
    (hm : ph ∈ s.busy) (hk : scanOf ph = some k) (hm' : ph' ∈ s.busy) (hk' : scanOf ph' = some k) :
    ph = ph' :=
  flatMap_nodup_inj Phase.scanBlock (scanBlocks_busy_nodup F) hm hm' k (scanOf_mem hk)
    (scanOf_mem hk')

/-! ### two holders of the same heap object are the same holder -/

theorem holder_unique {c : Cfg} {s : State} (F : Facts c s) {v : DVar} {h₁ h₂ : Holder}
    (a : holds c s v h₁) (b : holds c s v h₂) : h₁ = h₂ := by
  cases v with
  | retrBlk x =>
    rcases h₁ with q₁ | t₁ <;> rcases h₂ with q₂ | t₂
    · cases q₁ <;> cases q₂ <;> simp only [holds] at a b <;> rfl
    · cases q₁ <;> cases t₂ <;> simp only [holds] at a b
      exact (retr_queue_thread F a b.1 b.2).elim
    · cases t₁ <;> cases q₂ <;> simp only [holds] at a b
      exact (retr_queue_thread F b a.1 a.2).elim
    · cases t₁ <;> cases t₂ <;> simp only [holds] at a b
      rw [retr_thread_thread F a.1 a.2 b.1 b.2]
  | emitBlk x =>
    rcases h₁ with q₁ | t₁ <;> rcases h₂ with q₂ | t₂
    · cases q₁ <;> cases q₂ <;> simp only [holds] at a b <;> rfl
    · cases q₁ <;> cases t₂ <;> simp only [holds] at a b
      exact (emit_queue_thread F a b.1 b.2).elim
    · cases t₁ <;> cases q₂ <;> simp only [holds] at a b
      exact (emit_queue_thread F b a.1 a.2).elim
    · cases t₁ <;> cases t₂ <;> simp only [holds] at a b
      rw [emit_thread_thread F a.1 a.2 b.1 b.2]
  | outBlk x i =>
    rcases h₁ with q₁ | t₁ <;> rcases h₂ with q₂ | t₂
    · cases q₁ <;> cases q₂ <;> simp only [holds] at a b <;> rfl
    · cases q₁ <;> cases t₂ <;> simp only [holds] at a b
      exact (out_queue_thread F a b.1 b.2).elim
    · cases t₁ <;> cases q₂ <;> simp only [holds] at a b
      exact (out_queue_thread F b a.1 a.2).elim
    · cases t₁ <;> cases t₂ <;> simp only [holds] at a b
      rw [out_thread_thread F a.1 a.2 b.1 b.2]
  | inBlk k =>
    rcases h₁ with q₁ | t₁ <;> rcases h₂ with q₂ | t₂
    · cases q₁ <;> cases q₂ <;> simp only [holds] at a b <;> rfl
    · cases q₁ <;> cases t₂ <;> simp only [holds, alive] at a b
      omega
    · cases t₁ <;> cases q₂ <;> simp only [holds, alive] at a b
      omega
    · cases t₁ <;> cases t₂ <;> simp only [holds] at a b <;> rfl
  | scanD k =>
    rcases h₁ with q₁ | t₁ <;> rcases h₂ with q₂ | t₂
    · cases q₁ <;> cases q₂ <;> simp only [holds] at a b <;> rfl
    · cases q₁ <;> cases t₂ <;> simp only [holds] at a b
      · have := scan_queue_lt F a; omega
      · exact (scan_queue_thread F a b.1 b.2).elim
    · cases t₁ <;> cases q₂ <;> simp only [holds] at a b
      · have := scan_queue_lt F b; omega
      · exact (scan_queue_thread F b a.1 a.2).elim
    · cases t₁ <;> cases t₂ <;> simp only [holds] at a b
      · rfl
      · have := scan_thread_lt F b.1 b.2; omega
      · have := scan_thread_lt F a.1 a.2; omega
      · rw [scan_thread_thread F a.1 a.2 b.1 b.2]
  | sinkBuf m =>
    rcases h₁ with q₁ | t₁ <;> rcases h₂ with q₂ | t₂
    · cases q₁ <;> simp only [holds] at a
    · cases q₁ <;> simp only [holds] at a
    · cases q₂ <;> simp only [holds] at b
    · cases t₁ <;> cases t₂ <;> simp only [holds] at a b <;> rfl
  | inBuf k => cases h₁ <;> simp only [holds] at a
  | unordBlk x => cases h₁ <;> simp only [holds] at a
  | cfg x => cases h₁ <;> simp only [holds] at a
  | _ => cases h₁ <;> simp only [holds] at a

/-- the discipline is unambiguous -/
theorem disc_unique {c : Cfg} {s : State} (F : Facts c s) : (disc c).Unique s := by
  intro v o₁ o₂ h1 h2
  simp only [disc, owns] at h1 h2
  cases hs : staticOwner v with
  | some o' => rw [hs] at h1 h2; exact h1.trans h2.symm
  | none =>
    rw [hs] at h1 h2
    cases v with
    | inBuf k => exact Option.some.inj (h1.symm.trans h2)
    | retrBlk x =>
      obtain ⟨a, ha, rfl⟩ := h1; obtain ⟨b, hb, rfl⟩ := h2; rw [holder_unique F ha hb]
    | emitBlk x =>
      obtain ⟨a, ha, rfl⟩ := h1; obtain ⟨b, hb, rfl⟩ := h2; rw [holder_unique F ha hb]
    | outBlk x i =>
      obtain ⟨a, ha, rfl⟩ := h1; obtain ⟨b, hb, rfl⟩ := h2; rw [holder_unique F ha hb]
    | inBlk x =>
      obtain ⟨a, ha, rfl⟩ := h1; obtain ⟨b, hb, rfl⟩ := h2; rw [holder_unique F ha hb]
    | scanD x =>
      obtain ⟨a, ha, rfl⟩ := h1; obtain ⟨b, hb, rfl⟩ := h2; rw [holder_unique F ha hb]
    | sinkBuf x =>
      obtain ⟨a, ha, rfl⟩ := h1; obtain ⟨b, hb, rfl⟩ := h2; rw [holder_unique F ha hb]
    | _ => simp [staticOwner] at hs

end LbzVerif.Model.Race.D
