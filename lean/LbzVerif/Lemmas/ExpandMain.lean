/-
  Lemmas.ExpandMain — the two simulations between `Model.Expand.go` (lbzip2's
  sequential decompression on the zero-padded word stream) and the reference
  `Spec.Bzip2.decodeStreams` (on the bits of the file), anchored at the parser
  states 2 (inside a stream: `midStream`) and 0 (between streams: `tailStream`):

  * `sound_main`    — `go … = ok y` ⇒ the reference accepts with output `y`
                      (induction on the fuel of `go`); also: a run that ends
                      well never had fewer unread bits than the padding;
  * `complete_main` — the reference accepts ⇒ `go` accepts with the same output,
                      for every sufficient fuel (induction on the number of bits).

  Throughout: `m` = number of padding bytes (`< 4`), `P` = the `8·m` padding
  zero bits; the unread bits of the model are `Rt ++ P` with `Rt` the unread
  bits of the file.
-/
import LbzVerif.Lemmas.ExpandSpec
import LbzVerif.Lemmas.ExpandChainS
import LbzVerif.Lemmas.ExpandChainC
import LbzVerif.Lemmas.ExpandBlock
import LbzVerif.Lemmas.ExpandLocal
import LbzVerif.Lemmas.ExpandPos

namespace LbzVerif.Lemmas.ExpandMain
open LbzVerif LbzVerif.Basic LbzVerif.Spec.Bzip2 LbzVerif.Model.Expand
open LbzVerif.Lemmas.RetrieveBits LbzVerif.Lemmas.ExpandBits LbzVerif.Lemmas.ExpandStep
open LbzVerif.Lemmas.ExpandSpec LbzVerif.Lemmas.ExpandLocal LbzVerif.Lemmas.ExpandPos

/-- the padding bits -/
abbrev pad (m : Nat) : Bits := List.replicate (8 * m) false

theorem pad_length (m : Nat) : (pad m).length = 8 * m := List.length_replicate

/-! ### small facts -/

/-- `parseBlock` starts with the stored CRC and reads at least 73 bits. -/
theorem parseBlock_crc (level start : Nat) (bits : Bits) (b : Block) (rest : Bits)
    (h : parseBlock level start bits = .ok (b, rest)) :
    ∃ r, takeNat 32 bits = some (b.storedCrc, r) ∧ rest.length + 73 ≤ bits.length := by
  have hlen := (parseBlock_ok).2 b rest h
  unfold parseBlock at h
  split at h
  · cases h
  rename_i crc bits1 h1
  split at h
  · cases h
  rename_i rnd bits2 h2
  split at h
  · cases h
  rename_i op bits3 h3
  split at h
  · cases h
  rename_i big bits4 h4
  split at h
  · cases h
  rename_i used pos5 bits5 h5
  split at h
  · cases h
  split at h
  · cases h
  rename_i ng bits6 h6
  split at h
  · cases h
  split at h
  · cases h
  rename_i ns bits7 h7
  split at h
  · cases h
  split at h
  · cases h
  rename_i selMtf pos8 bits8 h8
  split at h
  · cases h
  rename_i selectors h9
  dsimp only at h
  split at h
  · cases h
  rename_i tables pos10 bits10 h10
  split at h
  · cases h
  rename_i nUsed pos11 bits11 syms h11
  simp only [Except.ok.injEq, Prod.mk.injEq] at h
  obtain ⟨rfl, rfl⟩ := h
  have l1 := takeNat_length h1
  have l2 := takeNat_length h2
  have l3 := takeNat_length h3
  have l4 := takeNat_length h4
  have l5 := readBitmapRows_len h5
  have l6 := takeNat_length h6
  have l7 := takeNat_length h7
  have l8 := (@readSelectorMtf_ok ng ns (pos5 + 18) bits7 _).2 _ _ _ h8
  have l10 := (@readTables_ok _ ng pos8 bits8 _).2 _ _ _ h10
  have l11 := (@decodeGroups_ok _ _ _ 0 pos10 bits10 _).2 _ _ _ _ h11
  refine ⟨bits1, h1, ?_⟩
  omega

theorem takeNat_lt {n : Nat} {bs rest : Bits} {v : Nat} (h : takeNat n bs = some (v, rest)) :
    v < 2 ^ n := by
  have hl := takeNat_length h
  rw [Lemmas.RetrieveTables.takeNat_eq n bs (by omega)] at h
  simp only [Option.some.injEq, Prod.mk.injEq] at h
  rw [← h.1]
  exact bitsToNat_take_lt bs n

/-- the two 16-bit words of the first 32 bits of `Rt ++ P` are those of `Rt` -/
theorem words_of_append (Rt P : Bits) (h : 32 ≤ Rt.length) :
    (Rt ++ P).take 16 = Rt.take 16 ∧ ((Rt ++ P).drop 16).take 16 = (Rt.drop 16).take 16 := by
  constructor
  · rw [List.take_append_of_le_length (by omega)]
  · rw [List.drop_append_of_le_length (by omega),
      List.take_append_of_le_length (by rw [List.length_drop]; omega)]

/-- A file that ends (byte aligned) within the first 3 bytes of a would-be header: the second
header word reaches into the padding, its low byte is 0 — never "h1" … "h9". -/
theorem no_header_in_pad (Rt : Bits) (m : Nat) (h8 : Rt.length % 8 = 0) (hlt : Rt.length < 32)
    (h32 : 32 ≤ (Rt ++ pad m).length) :
    bitsToNat (((Rt ++ pad m).drop 16).take 16) % 256 = 0 := by
  have hle : Rt.length ≤ 24 := by omega
  rw [List.length_append, pad_length] at h32
  have e1 : ((Rt ++ pad m).drop 16).take 16 =
      ((Rt ++ pad m).drop 16).take 8 ++ ((Rt ++ pad m).drop 24).take 8 := by
    rw [show (16 : Nat) = 8 + 8 from rfl, List.take_add, List.drop_drop]
  have e2 : (Rt ++ pad m).drop 24 = List.replicate (8 * m - (24 - Rt.length)) false := by
    rw [List.drop_append, List.drop_of_length_le hle, List.nil_append]
    unfold pad
    rw [List.drop_replicate]
  have e3 : ((Rt ++ pad m).drop 24).take 8 = List.replicate 8 false := by
    rw [e2, List.take_replicate]
    congr 1
    omega
  rw [e1, e3, bitsToNat_append]
  have : bitsToNat (List.replicate 8 false) = 0 := by decide
  rw [this, List.length_replicate]
  omega

/-- a header word pair read from `Rt ++ P` with `Rt` at least 32 bits = the 32-bit field of `Rt` -/
theorem header_field (Rt : Bits) (h : 32 ≤ Rt.length) :
    takeNat 32 Rt = some (bitsToNat (Rt.take 16) * 2 ^ 16 + bitsToNat ((Rt.drop 16).take 16),
      Rt.drop 32) := split32 Rt h

/-! ### soundness -/

/-- The statement proved by induction on the fuel. -/
def SoundAt (m : Nat) (p : Gen.ParseSt) (c : Cur) (acc y : List UInt8) : Prop :=
  (p.state = 2 →
    8 * m ≤ c.size ∧
    ∀ (Rt : Bits) (fS fB fb pos : Nat) (cc : UInt32) (A : Acc),
      bitsC c = Rt ++ pad m → p.computedCrc = cc.toNat → acc = A.out.toList →
      Rt.length < 48 * fb → Rt.length < 48 * fB → Rt.length < 80 * (fS + 1) →
      (pos + Rt.length) % 8 = 0 →
      ∃ a, midStream fS fB fb p.bs100k pos Rt cc A = .ok a ∧ a.out.toList = y) ∧
  (p.state = 0 →
    8 * m ≤ c.size ∧
    ∀ (Rt : Bits) (fS fB pos : Nat) (A : Acc),
      bitsC c = Rt ++ pad m → p.computedCrc = 0 → acc = A.out.toList →
      Rt.length < 48 * fB → Rt.length < 80 * fS →
      (pos + Rt.length) % 8 = 0 → Rt.length % 8 = 0 →
      ∃ a, tailStream fS fB pos Rt A = .ok a ∧ a.out.toList = y)

theorem sound_main (m : Nat) (hm3 : m < 4) : ∀ (f : Nat) (p : Gen.ParseSt) (c : Cur) (acc y : List UInt8),
    go m f p c acc = .ok y → BufInv c.v c.w → p.streamMode = false → SoundAt m p c acc y := by
  intro f
  induction f using Nat.strongRecOn with
  | ind f ih =>
  intro p c acc y hgo inv hmode
  constructor
  · -- inside a stream
    intro hs
    rcases Lemmas.ExpandChainS.sound_state2 m f p c acc y inv hs hmode hgo with hblk | heos
    · obtain ⟨f', crc, R1, c5, p', out, c6, hf, h48, h32, inv5, hw5, hb, hgo', hs', hbs', hm', hcrc'⟩ := hblk
      have hlen48 := takeNat_length h48
      have hlen32 := takeNat_length h32
      obtain ⟨b0, n0, hp0, hd0, inv6, hsz6⟩ :=
        Lemmas.ExpandBlock.blockAt_sound p.bs100k crc c5 c6 out inv5 (by omega) hb 0 R1 h32
      have ih6 := (ih f' (by omega) p' c6 (acc ++ out) y hgo' inv6 hm').1 hs'
      have hc6 : 8 * m ≤ c6.size := ih6.1
      have hcs : c6.size ≤ c.size := by
        have := bitsC_length c5
        have := bitsC_length c
        omega
      refine ⟨by omega, ?_⟩
      intro Rt fS fB fb pos cc A hbits hcc hacc hfb hfB hfS hpos
      -- strip the padding
      rw [hbits] at h48
      have hP1 : (pad m).length ≤ R1.length := by
        rw [pad_length]
        have := bitsC_length c5
        omega
      obtain ⟨Rt1, hR1, h48t⟩ := takeNat_restrict 48 Rt (pad m) _ R1 h48 hP1
      obtain ⟨b, n, hp, hd, _, _⟩ :=
        Lemmas.ExpandBlock.blockAt_sound p.bs100k crc c5 c6 out inv5 (by omega) hb pos R1 h32
      rw [hR1] at hp
      have hP6 : (pad m).length ≤ (bitsC c6).length := by
        rw [pad_length, bitsC_length]; exact hc6
      obtain ⟨Rt6, hR6, hpt⟩ := parseBlock_restrict p.bs100k pos Rt1 (pad m) b (bitsC c6) hp hP6
      -- the stored CRC
      obtain ⟨r, hcrc32, _⟩ := parseBlock_crc p.bs100k pos Rt1 b Rt6 hpt
      have hcrcEq : b.storedCrc = crc := by
        have h32' := h32
        rw [hR1] at h32'
        have := takeNat_append' 32 Rt1 (pad m) b.storedCrc r hcrc32
        rw [this] at h32'
        simp only [Option.some.injEq, Prod.mk.injEq] at h32'
        exact h32'.1
      have hcrclt : crc < 4294967296 := takeNat_lt h32
      -- fuel of the reference
      have hlen48t := takeNat_length h48t
      have hlen6 := (parseBlock_ok).2 b Rt6 hpt
      obtain ⟨fb', rfl⟩ : ∃ fb', fb = fb' + 1 := ⟨fb - 1, by omega⟩
      rw [midStream_block fS fB fb' p.bs100k pos Rt Rt1 Rt6 cc A b _ h48t hpt hd]
      have hpos6 := parseBlock_pos p.bs100k pos Rt1 b Rt6 hpt
      have := ih6.2 Rt6 fS fB fb' b.endBit (combine cc (UInt32.ofNat b.storedCrc))
        { out := A.out ++ out.toArray, streams := A.streams } hR6
        (by rw [hcrc', hcc, hcrcEq]; exact crcUpd_combine cc crc hcrclt)
        (by simp [hacc]) (by omega) (by omega) (by omega) (by omega)
      rw [hbs'] at this
      exact this
    · obtain ⟨f', R1, R2, c5, p', hf, h48, h32, hc5, inv5, hw5, hgo', hs', hm', hcrc'⟩ := heos
      have hlen48 := takeNat_length h48
      have hlen32 := takeNat_length h32
      have ih5 := (ih f' (by omega) p' c5 acc y hgo' inv5 hm').2 hs'
      have hc5s : 8 * m ≤ c5.size := ih5.1
      have hc5len : c5.size ≤ R2.length := by
        rw [← bitsC_length, hc5, List.length_drop]; omega
      refine ⟨by have := bitsC_length c; omega, ?_⟩
      intro Rt fS fB fb pos cc A hbits hcc hacc hfb hfB hfS hpos
      rw [hbits] at h48
      obtain ⟨Rt1, hR1, h48t⟩ := takeNat_restrict 48 Rt (pad m) _ R1 h48 (by rw [pad_length]; omega)
      rw [hR1] at h32
      obtain ⟨Rt2, hR2, h32t⟩ := takeNat_restrict 32 Rt1 (pad m) _ R2 h32 (by rw [pad_length]; omega)
      have hlen48t := takeNat_length h48t
      have hlen32t := takeNat_length h32t
      obtain ⟨fb', rfl⟩ : ∃ fb', fb = fb' + 1 := ⟨fb - 1, by omega⟩
      rw [hcc] at h32t
      rw [midStream_eos fS fB fb' p.bs100k pos Rt Rt1 Rt2 cc A h48t h32t]
      have hpadv : (8 - (pos + 80) % 8) % 8 = Rt2.length % 8 := by omega
      rw [hpadv]
      have hbits5 : bitsC c5 = Rt2.drop (Rt2.length % 8) ++ pad m := by
        rw [hc5, hR2, List.length_append, pad_length]
        have : (Rt2.length + 8 * m) % 8 = Rt2.length % 8 := by omega
        rw [this, List.drop_append_of_le_length (Nat.mod_le _ _)]
      have hl5 : (Rt2.drop (Rt2.length % 8)).length = Rt2.length - Rt2.length % 8 := List.length_drop
      exact ih5.2 (Rt2.drop (Rt2.length % 8)) fS fB (pos + 80 + Rt2.length % 8) A hbits5 hcrc' hacc
        (by omega) (by omega) (by omega) (by omega)
  · -- between streams
    intro hs
    rcases Lemmas.ExpandChainS.sound_state0 m f p c acc y inv hs hmode hm3 hgo with hfin | hhdr
    · obtain ⟨hy, hsz, hno⟩ := hfin
      refine ⟨hsz, ?_⟩
      intro Rt fS fB pos A hbits hcc hacc hfB hfS hpos h8
      refine ⟨A, ?_, by rw [hy, hacc]⟩
      apply tailStream_none
      intro w rest hw
      cases hl : headerLevel w with
      | none => rfl
      | some l =>
        exfalso
        have hlen := takeNat_length hw
        have h32 : 32 ≤ Rt.length := by omega
        rw [header_field Rt h32] at hw
        simp only [Option.some.injEq, Prod.mk.injEq] at hw
        rw [headerLevel_some_iff] at hl
        obtain ⟨e1, e2⟩ := words_of_append Rt (pad m) h32
        have b1 := bitsToNat_take_lt Rt 16
        have b2 := bitsToNat_take_lt (Rt.drop 16) 16
        apply hno
        rw [hbits, e1, e2]
        refine ⟨by rw [List.length_append]; omega, ?_, ?_, ?_⟩ <;> omega
    · obtain ⟨f', c3, p', hf, h32, hw1, hw2a, hw2b, hc3, inv3, hw3, hgo', hs', hbs', hm', hcrc'⟩ := hhdr
      have ih3 := (ih f' (by omega) p' c3 acc y hgo' inv3 hm').1 hs'
      have hc3s : 8 * m ≤ c3.size := ih3.1
      have hc3len : c3.size = (bitsC c).length - 32 := by
        rw [← bitsC_length, hc3, List.length_drop]
      refine ⟨by have := bitsC_length c; omega, ?_⟩
      intro Rt fS fB pos A hbits hcc hacc hfB hfS hpos h8
      have hRt32 : 32 ≤ Rt.length := by
        have hl := congrArg List.length hbits
        rw [List.length_append, pad_length] at hl
        omega
      obtain ⟨e1, e2⟩ := words_of_append Rt (pad m) hRt32
      rw [hbits, e1] at hw1
      rw [hbits, e2] at hw2a hw2b hbs'
      have hfield := header_field Rt hRt32
      have hlvl : headerLevel (bitsToNat (Rt.take 16) * 2 ^ 16 + bitsToNat ((Rt.drop 16).take 16)) =
          some (bitsToNat ((Rt.drop 16).take 16) - 0x6830) := by
        rw [headerLevel_some_iff]
        omega
      obtain ⟨fS', rfl⟩ : ∃ fS', fS = fS' + 1 := ⟨fS - 1, by omega⟩
      rw [tailStream_header fS' fB pos Rt (Rt.drop 32) A _ _ hfield hlvl]
      have hbits3 : bitsC c3 = Rt.drop 32 ++ pad m := by
        rw [hc3, hbits, List.drop_append_of_le_length hRt32]
      have hl3 : (Rt.drop 32).length = Rt.length - 32 := List.length_drop
      have := ih3.2 (Rt.drop 32) fS' fB fB (pos + 32) 0 A hbits3 (by rw [hcrc', hcc]; rfl) hacc
        (by omega) (by omega) (by omega) (by omega)
      rw [hbs'] at this
      exact this

/-! ### completeness -/

/-- The statement proved by induction on the number of unread bits of the file. -/
def CompleteAt (m : Nat) (Rt : Bits) : Prop :=
  (∀ (fS fB fb level pos : Nat) (cc : UInt32) (A a : Acc) (p : Gen.ParseSt) (c : Cur)
      (acc : List UInt8),
    midStream fS fB fb level pos Rt cc A = .ok a → p.state = 2 → p.streamMode = false →
    p.bs100k = level → 1 ≤ level → level ≤ 9 → p.computedCrc = cc.toNat → BufInv c.v c.w →
    bitsC c = Rt ++ pad m → acc = A.out.toList → (pos + Rt.length) % 8 = 0 →
    ∀ f, c.size < f → go m f p c acc = .ok a.out.toList) ∧
  (∀ (fS fB pos : Nat) (A a : Acc) (p : Gen.ParseSt) (c : Cur) (acc : List UInt8),
    tailStream fS fB pos Rt A = .ok a → p.state = 0 → p.streamMode = false →
    p.computedCrc = 0 → BufInv c.v c.w →
    bitsC c = Rt ++ pad m → acc = A.out.toList → (pos + Rt.length) % 8 = 0 → Rt.length % 8 = 0 →
    ∀ f, c.size + 2 ≤ f → go m f p c acc = .ok a.out.toList)

/-- a successful `midStream` has at least 48 bits in front of it -/
theorem midStream_ok_len (fS fB fb level pos : Nat) (bits : Bits) (cc : UInt32) (A a : Acc)
    (h : midStream fS fB fb level pos bits cc A = .ok a) : 48 ≤ bits.length := by
  obtain ⟨fb', _, hc⟩ := midStream_ok_cases fS fB fb level pos bits cc A a h
  rcases hc with ⟨b1, _, _, _, h48, _⟩ | ⟨b1, _, h48, _⟩
  · have := takeNat_length h48; omega
  · have := takeNat_length h48; omega

theorem complete_main (m : Nat) (hm3 : m < 4) : ∀ (n : Nat) (Rt : Bits), Rt.length = n →
    CompleteAt m Rt := by
  intro n
  induction n using Nat.strongRecOn with
  | ind n ih =>
  intro Rt hn
  constructor
  · -- inside a stream
    intro fS fB fb level pos cc A a p c acc hmid hs hmode hbs hl1 hl9 hcc inv hbits hacc hpos f hf
    have hcsz : c.size = Rt.length + 8 * m := by
      rw [← bitsC_length, hbits, List.length_append, pad_length]
    obtain ⟨fb', rfl, hcase⟩ := midStream_ok_cases fS fB fb level pos Rt cc A a hmid
    rcases hcase with ⟨b1, b, b2, d, h48, hp, hd, hmid'⟩ | ⟨b1, b2, h48, h32, htail⟩
    · have hlen48 := takeNat_length h48
      have h48p := takeNat_append' 48 Rt (pad m) _ b1 h48
      obtain ⟨r, hcrc32, hlen73⟩ := parseBlock_crc level pos b1 b b2 hp
      have hlen32 := takeNat_length hcrc32
      have h32p := takeNat_append' 32 b1 (pad m) _ r hcrc32
      rw [← hbits] at h48p
      obtain ⟨c5, p', hb5, inv5, hw5, hs', hbs', hm', hcrc', hstep⟩ :=
        Lemmas.ExpandChainC.step_block m p c acc inv hs (b1 ++ pad m) b.storedCrc (r ++ pad m) h48p h32p
      have hb2len := midStream_ok_len _ _ _ _ _ _ _ _ _ hmid'
      have hpp := parseBlock_append level pos b1 (pad m) b b2 hp
      obtain ⟨c6, hblk, hb6, inv6⟩ :=
        Lemmas.ExpandBlock.blockAt_complete level b.storedCrc c5 inv5 (by omega) ⟨hl1, hl9⟩ pos
          (b1 ++ pad m) (by rw [hb5]; exact h32p) b (b2 ++ pad m) hpp d hd
          (by rw [List.length_append]; omega)
      obtain ⟨f', rfl⟩ : ∃ f', f = f' + 5 := ⟨f - 5, by omega⟩
      rw [hstep f', hbs, hblk]
      simp only
      have hcrclt : b.storedCrc < 4294967296 := takeNat_lt hcrc32
      have hc6sz : c6.size = b2.length + 8 * m := by
        rw [← bitsC_length, hb6, List.length_append, pad_length]
      have hpos6 := parseBlock_pos level pos b1 b b2 hp
      exact (ih b2.length (by omega) b2 rfl).1 fS fB fb' level b.endBit
        (combine cc (UInt32.ofNat b.storedCrc)) { out := A.out ++ d.bytes, streams := A.streams } a
        p' c6 (acc ++ d.bytes.toList) hmid' hs' (by rw [hm', hmode]) (by rw [hbs', hbs]) hl1 hl9
        (by rw [hcrc', hcc]; exact crcUpd_combine cc b.storedCrc hcrclt) inv6 hb6
        (by simp [hacc]) (by omega) f' (by omega)
    · have hlen48 := takeNat_length h48
      have hlen32 := takeNat_length h32
      have h48p := takeNat_append' 48 Rt (pad m) _ b1 h48
      have h32p := takeNat_append' 32 b1 (pad m) _ b2 h32
      rw [← hbits] at h48p
      rw [← hcc] at h32p
      obtain ⟨c5, p', hb5, inv5, hw5, hs', hm', hcrc', hstep⟩ :=
        Lemmas.ExpandChainC.step_eos m p c acc inv hs hmode (b1 ++ pad m) (b2 ++ pad m) h48p h32p
      have hbits5 : bitsC c5 = b2.drop (b2.length % 8) ++ pad m := by
        rw [hb5, List.length_append, pad_length]
        have : (b2.length + 8 * m) % 8 = b2.length % 8 := by omega
        rw [this, List.drop_append_of_le_length (Nat.mod_le _ _)]
      have hpadv : (8 - (pos + 80) % 8) % 8 = b2.length % 8 := by omega
      rw [hpadv] at htail
      have hl5 : (b2.drop (b2.length % 8)).length = b2.length - b2.length % 8 := List.length_drop
      have hc5sz : c5.size = (b2.length - b2.length % 8) + 8 * m := by
        rw [← bitsC_length, hbits5, List.length_append, pad_length, hl5]
      obtain ⟨f', rfl⟩ : ∃ f', f = f' + 5 := ⟨f - 5, by omega⟩
      rw [hstep f']
      exact (ih (b2.drop (b2.length % 8)).length (by omega) _ rfl).2 fS fB
        (pos + 80 + b2.length % 8) A a p' c5 acc htail hs' hm' hcrc' inv5 hbits5 hacc
        (by omega) (by omega) f' (by omega)
  · -- between streams
    intro fS fB pos A a p c acc htail hs hmode hcc inv hbits hacc hpos h8 f hf
    have hcsz : c.size = Rt.length + 8 * m := by
      rw [← bitsC_length, hbits, List.length_append, pad_length]
    obtain ⟨f', rfl⟩ : ∃ f', f = f' + 2 := ⟨f - 2, by omega⟩
    rcases tailStream_ok_cases fS fB pos Rt A a htail with ⟨ha, hnone⟩ | ⟨w, rest, level', fS', h32, hl, rfl, hmid⟩
    · have hno : ¬ (32 ≤ (bitsC c).length ∧ bitsToNat ((bitsC c).take 16) = 0x425A ∧
          0x6831 ≤ bitsToNat (((bitsC c).drop 16).take 16) ∧
          bitsToNat (((bitsC c).drop 16).take 16) ≤ 0x6839) := by
        rw [hbits]
        rintro ⟨h32', hw1, hw2a, hw2b⟩
        by_cases hR : 32 ≤ Rt.length
        · obtain ⟨e1, e2⟩ := words_of_append Rt (pad m) hR
          rw [e1] at hw1
          rw [e2] at hw2a hw2b
          have hnl := hnone _ _ (header_field Rt hR)
          have : headerLevel (bitsToNat (Rt.take 16) * 2 ^ 16 + bitsToNat ((Rt.drop 16).take 16)) =
              some (bitsToNat (Rt.take 16) * 2 ^ 16 + bitsToNat ((Rt.drop 16).take 16) - 0x425A6830) := by
            rw [headerLevel_some_iff]; omega
          rw [this] at hnl
          cases hnl
        · have := no_header_in_pad Rt m h8 (by omega) h32'
          omega
      rw [Lemmas.ExpandChainC.step_trailing m p c acc inv hs hm3 hno f', if_neg (by omega), ha, hacc]
    · have hlen32 := takeNat_length h32
      have hR : 32 ≤ Rt.length := by omega
      have hfield := header_field Rt hR
      rw [hfield] at h32
      simp only [Option.some.injEq, Prod.mk.injEq] at h32
      obtain ⟨hw, hrest⟩ := h32
      have hrange := headerLevel_range hl
      rw [headerLevel_some_iff] at hl
      obtain ⟨e1, e2⟩ := words_of_append Rt (pad m) hR
      have b1 := bitsToNat_take_lt Rt 16
      have b2 := bitsToNat_take_lt (Rt.drop 16) 16
      obtain ⟨c3, p', hb3, inv3, hw3, hs', hbs', hm', hcrc', hstep⟩ :=
        Lemmas.ExpandChainC.step_header m p c acc inv hs
          (by rw [hbits, List.length_append]; omega)
          (by rw [hbits, e1]; omega) (by rw [hbits, e2]; omega)
      rw [hbits, e2] at hbs'
      have hbits3 : bitsC c3 = rest ++ pad m := by
        rw [hb3, hbits, List.drop_append_of_le_length hR, hrest]
      have hlr : rest.length = Rt.length - 32 := by rw [← hrest, List.length_drop]
      have hc3sz : c3.size = rest.length + 8 * m := by
        rw [← bitsC_length, hbits3, List.length_append, pad_length]
      rw [hstep f']
      exact (ih rest.length (by omega) rest rfl).1 fS' fB fB level' (pos + 32) 0 A a p' c3 acc hmid hs'
        (by rw [hm', hmode]) (by rw [hbs']; omega) hrange.1 hrange.2 (by rw [hcrc', hcc]; rfl) inv3
        hbits3 hacc (by omega) f' (by omega)

end LbzVerif.Lemmas.ExpandMain
