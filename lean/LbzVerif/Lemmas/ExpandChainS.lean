/-
  Lemmas.ExpandChainS — the two "anchor" lemmas of the soundness direction for
  `Model.Expand.go`: what must have happened when `go` answered `ok` starting
  in parser state 2 (BLOCK_MAGIC_1: `sound_state2`) resp. state 0
  (STREAM_MAGIC_1: `sound_state0`).
-/
import LbzVerif.Lemmas.ExpandStep

namespace LbzVerif.Lemmas.ExpandChainS
open LbzVerif LbzVerif.Model.Expand LbzVerif.Lemmas.RetrieveBits LbzVerif.Basic
open LbzVerif.Lemmas.ExpandBits LbzVerif.Lemmas.ExpandStep

/-! ### helpers -/

/-- `(stored_crc << 16) | word` for two 16-bit words. -/
theorem join_eq (hi lo : Nat) (hh : hi < 65536) (hl : lo < 65536) :
    ((((hi % 4294967296) <<< 16) % 4294967296) ||| lo) % 4294967296 = hi * 65536 + lo := by
  rw [Nat.mod_eq_of_lt (by omega : hi < 4294967296)]
  have h1 : hi <<< 16 = hi * 65536 := by rw [Nat.shiftLeft_eq]
  rw [h1]
  have h2 : hi * 65536 < 4294967296 := by omega
  rw [Nat.mod_eq_of_lt h2]
  have h3 : hi * 65536 ||| lo = hi * 65536 + lo := by
    have : hi * 65536 = hi <<< 16 := by rw [Nat.shiftLeft_eq]
    rw [this, Nat.shiftLeft_add_eq_or_of_lt (by omega : lo < 2 ^ 16)]
  rw [h3]
  omega

theorem eof_no (m : Nat) (p : Gen.ParseSt) (c : Cur) (acc y : List UInt8)
    (h0 : p.state ≠ 0) (h1 : p.state ≠ 1) (h : atEof m p c acc = .ok y) : False := by
  unfold atEof at h
  rw [eof_instream p h0 h1] at h
  simp [Gen.ERR_EOF, Gen.RV_FINISH] at h

theorem after_none (m f : Nat) (q : Gen.ParseSt) (c2 : Cur) (acc : List UInt8)
    (ha : q.align = false) : after m f (q, none) c2 acc = go m f q c2 acc := by
  unfold after
  simp only [ha]
  rfl

theorem after_none_align (m f : Nat) (q : Gen.ParseSt) (c2 : Cur) (acc : List UInt8)
    (ha : q.align = true) : after m f (q, none) c2 acc = go m f q (alignC c2) acc := by
  unfold after
  simp only [ha]
  rfl

theorem after_four (m f : Nat) (q : Gen.ParseSt) (c2 : Cur) (acc : List UInt8) :
    after m f (q, some 4) c2 acc = .error (failCode 4) := by
  unfold after
  simp [Gen.RV_OK, Gen.RV_FINISH]

theorem after_sixteen (m f : Nat) (q : Gen.ParseSt) (c2 : Cur) (acc : List UInt8) :
    after m f (q, some 16) c2 acc = .error (failCode 16) := by
  unfold after
  simp [Gen.RV_OK, Gen.RV_FINISH]

theorem after_finish (m f : Nat) (q : Gen.ParseSt) (c2 : Cur) (acc : List UInt8)
    (ha : q.align = false) : after m f (q, some 2) c2 acc = finishCheck m q.garbage c2 acc := by
  unfold after
  simp [Gen.RV_OK, Gen.RV_FINISH, ha]

theorem after_ok (m f : Nat) (q : Gen.ParseSt) (c2 : Cur) (acc : List UInt8)
    (ha : q.align = false) :
    after m f (q, some 0) c2 acc =
      match blockAt q.hdBs100k q.hdCrc c2 with
      | .error e => .error e
      | .ok (out, c4) => go m f q c4 (acc ++ out) := by
  unfold after
  simp only [Gen.RV_OK, ha, if_true, Bool.false_eq_true, if_false]
  cases blockAt q.hdBs100k q.hdCrc c2 <;> rfl

/-- Inside a stream a successful `go` consumed a word. -/
theorem step_word (m f : Nat) (p : Gen.ParseSt) (c : Cur) (acc y : List UInt8)
    (inv : BufInv c.v c.w) (h0 : p.state ≠ 0) (h1 : p.state ≠ 1)
    (h : go m f p c acc = .ok y) :
    ∃ f' c2, f = f' + 1 ∧ 16 ≤ (bitsC c).length ∧ bitsC c2 = (bitsC c).drop 16 ∧
      BufInv c2.v c2.w ∧ c2.w ≤ 48 ∧
      after m f' (Gen.parseStep { p with align := false } (bitsToNat ((bitsC c).take 16))) c2 acc
        = .ok y := by
  obtain ⟨f', e, hc⟩ := go_ok_cases m f p c acc y inv h
  rcases hc with ⟨_, ha⟩ | ⟨hl, c2, b1, b2, b3, b4⟩
  · exact (eof_no m p c acc y h0 h1 ha).elim
  · exact ⟨f', c2, e, hl, b1, b2, b3, b4⟩

/-- A state that compares the word with a constant. -/
theorem step_magic (m f : Nat) (p : Gen.ParseSt) (c : Cur) (acc y : List UInt8) (word next : Nat)
    (inv : BufInv c.v c.w) (h0 : p.state ≠ 0) (h1 : p.state ≠ 1)
    (hps : ∀ (q : Gen.ParseSt) (wd : Nat), q.state = p.state →
      Gen.parseStep q wd = if wd = word then ({ q with state := next }, none) else (q, some 4))
    (h : go m f p c acc = .ok y) :
    ∃ f' c2 p', f = f' + 1 ∧ 16 ≤ (bitsC c).length ∧ bitsToNat ((bitsC c).take 16) = word ∧
      bitsC c2 = (bitsC c).drop 16 ∧ BufInv c2.v c2.w ∧ c2.w ≤ 48 ∧
      go m f' p' c2 acc = .ok y ∧ p'.state = next ∧ p'.bs100k = p.bs100k ∧
      p'.streamMode = p.streamMode ∧ p'.computedCrc = p.computedCrc ∧
      p'.storedCrc = p.storedCrc := by
  obtain ⟨f', c2, e, hl, b1, b2, b3, b4⟩ := step_word m f p c acc y inv h0 h1 h
  rw [hps { p with align := false } _ rfl] at b4
  by_cases hw : bitsToNat ((bitsC c).take 16) = word
  · rw [if_pos hw, after_none _ _ _ _ _ rfl] at b4
    exact ⟨f', c2, _, e, hl, hw, b1, b2, b3, b4, rfl, rfl, rfl, rfl, rfl⟩
  · rw [if_neg hw, after_four] at b4
    cases b4

/-- A state that stores the word as the high half of a CRC. -/
theorem step_store (m f : Nat) (p : Gen.ParseSt) (c : Cur) (acc y : List UInt8) (next : Nat)
    (inv : BufInv c.v c.w) (h0 : p.state ≠ 0) (h1 : p.state ≠ 1)
    (hps : ∀ (q : Gen.ParseSt) (wd : Nat), q.state = p.state →
      Gen.parseStep q wd = ({ q with storedCrc := wd % 4294967296, state := next }, none))
    (h : go m f p c acc = .ok y) :
    ∃ f' c2 p', f = f' + 1 ∧ 16 ≤ (bitsC c).length ∧
      bitsC c2 = (bitsC c).drop 16 ∧ BufInv c2.v c2.w ∧ c2.w ≤ 48 ∧
      go m f' p' c2 acc = .ok y ∧ p'.state = next ∧ p'.bs100k = p.bs100k ∧
      p'.streamMode = p.streamMode ∧ p'.computedCrc = p.computedCrc ∧
      p'.storedCrc = bitsToNat ((bitsC c).take 16) % 4294967296 := by
  obtain ⟨f', c2, e, hl, b1, b2, b3, b4⟩ := step_word m f p c acc y inv h0 h1 h
  rw [hps { p with align := false } _ rfl, after_none _ _ _ _ _ rfl] at b4
  exact ⟨f', c2, _, e, hl, b1, b2, b3, b4, rfl, rfl, rfl, rfl, rfl⟩

/-- BLOCK_CRC_2: the header is complete, the block is decoded. -/
theorem step6 (m f : Nat) (p : Gen.ParseSt) (c : Cur) (acc y : List UInt8)
    (inv : BufInv c.v c.w) (hs : p.state = 6) (h : go m f p c acc = .ok y) :
    ∃ f' c2 out c6 p', f = f' + 1 ∧ 16 ≤ (bitsC c).length ∧
      bitsC c2 = (bitsC c).drop 16 ∧ BufInv c2.v c2.w ∧ c2.w ≤ 48 ∧
      blockAt p.bs100k
        ((((p.storedCrc <<< 16) % 4294967296) ||| bitsToNat ((bitsC c).take 16)) % 4294967296) c2
        = .ok (out, c6) ∧
      go m f' p' c6 (acc ++ out) = .ok y ∧ p'.state = 2 ∧ p'.bs100k = p.bs100k ∧
      p'.streamMode = p.streamMode ∧
      p'.computedCrc = crcUpd p.computedCrc
        ((((p.storedCrc <<< 16) % 4294967296) ||| bitsToNat ((bitsC c).take 16)) % 4294967296) := by
  obtain ⟨f', c2, e, hl, b1, b2, b3, b4⟩ :=
    step_word m f p c acc y inv (by omega) (by omega) h
  rw [ps6 _ _ (show ({ p with align := false } : Gen.ParseSt).state = 6 from hs),
    after_ok _ _ _ _ _ rfl] at b4
  simp only at b4
  split at b4
  · cases b4
  · rename_i out c6 hb
    exact ⟨f', c2, out, c6, _, e, hl, b1, b2, b3, hb, b4, rfl, rfl, rfl, rfl⟩

/-- EOS_CRC_2: the stream CRC must match; the parser aligns. -/
theorem step10 (m f : Nat) (p : Gen.ParseSt) (c : Cur) (acc y : List UInt8)
    (inv : BufInv c.v c.w) (hs : p.state = 10) (hm : p.streamMode = false)
    (h : go m f p c acc = .ok y) :
    ∃ f' c2 p', f = f' + 1 ∧ 16 ≤ (bitsC c).length ∧
      bitsC c2 = (bitsC c).drop 16 ∧ BufInv c2.v c2.w ∧ c2.w ≤ 48 ∧
      (((p.storedCrc <<< 16) % 4294967296) ||| bitsToNat ((bitsC c).take 16)) % 4294967296
        = p.computedCrc ∧
      go m f' p' (alignC c2) acc = .ok y ∧ p'.state = 0 ∧
      p'.streamMode = false ∧ p'.computedCrc = 0 := by
  obtain ⟨f', c2, e, hl, b1, b2, b3, b4⟩ :=
    step_word m f p c acc y inv (by omega) (by omega) h
  rw [ps10 _ _ (show ({ p with align := false } : Gen.ParseSt).state = 10 from hs)
    (show ({ p with align := false } : Gen.ParseSt).streamMode = false from hm)] at b4
  simp only at b4
  split at b4
  · rename_i hc
    rw [after_none_align _ _ _ _ _ rfl] at b4
    exact ⟨f', c2, _, e, hl, b1, b2, b3, hc, b4, rfl, hm, rfl⟩
  · rw [after_sixteen] at b4
    cases b4

/-! ### state 2 -/

theorem sound_state2 (m f : Nat) (p : Gen.ParseSt) (c : Cur) (acc y : List UInt8)
    (inv : BufInv c.v c.w) (hs : p.state = 2) (hm : p.streamMode = false)
    (h : go m f p c acc = .ok y) :
    (∃ f' crc R1 c5 p' out c6, f = f' + 5 ∧
        takeNat 48 (bitsC c) = some (0x314159265359, R1) ∧ takeNat 32 R1 = some (crc, bitsC c5) ∧
        BufInv c5.v c5.w ∧ c5.w ≤ 48 ∧ blockAt p.bs100k crc c5 = .ok (out, c6) ∧
        go m f' p' c6 (acc ++ out) = .ok y ∧
        p'.state = 2 ∧ p'.bs100k = p.bs100k ∧ p'.streamMode = false ∧
        p'.computedCrc = crcUpd p.computedCrc crc)
    ∨ (∃ f' R1 R2 c5 p', f = f' + 5 ∧
        takeNat 48 (bitsC c) = some (0x177245385090, R1) ∧ takeNat 32 R1 = some (p.computedCrc, R2) ∧
        bitsC c5 = R2.drop (R2.length % 8) ∧ BufInv c5.v c5.w ∧ c5.w ≤ 48 ∧
        go m f' p' c5 acc = .ok y ∧
        p'.state = 0 ∧ p'.streamMode = false ∧ p'.computedCrc = 0) := by
  obtain ⟨f1, c1, e1, l1, d1, i1, w1, a1⟩ :=
    step_word m f p c acc y inv (by omega) (by omega) h
  rw [ps2 _ _ (show ({ p with align := false } : Gen.ParseSt).state = 2 from hs)] at a1
  by_cases hw1 : bitsToNat ((bitsC c).take 16) = 6002
  · -- end of stream
    right
    rw [if_pos hw1, after_none _ _ _ _ _ rfl] at a1
    obtain ⟨f2, c2, p2, e2, l2, hw2, d2, i2, w2, a2, s2, _, m2, cc2, _⟩ :=
      step_magic m f1 _ c1 acc y 17720 8 i1 (by simp) (by simp)
        (fun q wd hq => ps7 q wd hq) a1
    obtain ⟨f3, c3, p3, e3, l3, hw3, d3, i3, w3, a3, s3, _, m3, cc3, _⟩ :=
      step_magic m f2 p2 c2 acc y 20624 9 i2 (by omega) (by omega)
        (fun q wd hq => ps8 q wd (hq.trans s2)) a2
    obtain ⟨f4, c4, p4, e4, l4, d4, i4, w4, a4, s4, _, m4, cc4, st4⟩ :=
      step_store m f3 p3 c3 acc y 10 i3 (by omega) (by omega)
        (fun q wd hq => ps9 q wd (hq.trans s3)) a3
    obtain ⟨f5, c5, p5, e5, l5, d5, i5, w5, hc5, a5, s5, m5, cc5⟩ :=
      step10 m f4 p4 c4 acc y i4 s4 (by rw [m4, m3, m2]; exact hm) a4
    obtain ⟨ab, ai, aw⟩ := align_bits c5 i5
    rw [d2, List.drop_drop] at d3
    rw [d3, List.drop_drop] at d4
    rw [d4, List.drop_drop] at d5
    rw [d1] at l2 hw2
    rw [d2, d1, List.drop_drop] at l3 hw3
    rw [d3, d1] at l4 st4
    rw [d4, d1] at l5 hc5
    simp only [List.drop_drop, Nat.reduceAdd] at d3 d4 d5 l3 hw3 l4 st4 l5 hc5
    simp only [List.length_drop] at l2 l3 l4 l5
    have hlen : 80 ≤ (bitsC c).length := by omega
    have h48 := split48 (bitsC c) (by omega)
    have h32 := split32 ((bitsC c).drop 48) (by rw [List.length_drop]; omega)
    simp only [List.drop_drop, Nat.reduceAdd] at h32
    refine ⟨f5, (bitsC c).drop 48, (bitsC c).drop 80, alignC c5, p5, by omega, ?_, ?_, ?_, ai,
      by omega, a5, s5, m5, cc5⟩
    · rw [h48, hw1, hw2, hw3]
    · rw [h32]
      have b4 := bitsToNat_take_lt ((bitsC c).drop 48) 16
      have b5 := bitsToNat_take_lt ((bitsC c).drop 64) 16
      rw [st4, join_eq _ _ (by omega) (by omega)] at hc5
      rw [cc4, cc3, cc2] at hc5
      rw [← show p.computedCrc = ({ p with align := false } : Gen.ParseSt).computedCrc from rfl] at hc5
      rw [← hc5]
    · rw [ab, d5, d1]
      simp only [List.drop_drop, Nat.reduceAdd]
  · rw [if_neg hw1] at a1
    by_cases hw1' : bitsToNat ((bitsC c).take 16) = 12609
    · -- a block
      left
      rw [if_pos hw1', after_none _ _ _ _ _ rfl] at a1
      obtain ⟨f2, c2, p2, e2, l2, hw2, d2, i2, w2, a2, s2, bs2, m2, cc2, _⟩ :=
        step_magic m f1 _ c1 acc y 22822 4 i1 (by simp) (by simp)
          (fun q wd hq => ps3 q wd hq) a1
      obtain ⟨f3, c3, p3, e3, l3, hw3, d3, i3, w3, a3, s3, bs3, m3, cc3, _⟩ :=
        step_magic m f2 p2 c2 acc y 21337 5 i2 (by omega) (by omega)
          (fun q wd hq => ps4 q wd (hq.trans s2)) a2
      obtain ⟨f4, c4, p4, e4, l4, d4, i4, w4, a4, s4, bs4, m4, cc4, st4⟩ :=
        step_store m f3 p3 c3 acc y 6 i3 (by omega) (by omega)
          (fun q wd hq => ps5 q wd (hq.trans s3)) a3
      obtain ⟨f5, c5, out, c6, p5, e5, l5, d5, i5, w5, hb5, a5, s5, bs5, m5, cc5⟩ :=
        step6 m f4 p4 c4 acc y i4 s4 a4
      rw [d2, List.drop_drop] at d3
      rw [d3, List.drop_drop] at d4
      rw [d4, List.drop_drop] at d5
      rw [d1] at l2 hw2
      rw [d2, d1, List.drop_drop] at l3 hw3
      rw [d3, d1] at l4 st4
      rw [d4, d1] at l5 hb5 cc5
      simp only [List.drop_drop, Nat.reduceAdd] at d3 d4 d5 l3 hw3 l4 st4 l5 hb5 cc5
      simp only [List.length_drop] at l2 l3 l4 l5
      have hlen : 80 ≤ (bitsC c).length := by omega
      have h48 := split48 (bitsC c) (by omega)
      have h32 := split32 ((bitsC c).drop 48) (by rw [List.length_drop]; omega)
      simp only [List.drop_drop, Nat.reduceAdd] at h32
      have b4 := bitsToNat_take_lt ((bitsC c).drop 48) 16
      have b5 := bitsToNat_take_lt ((bitsC c).drop 64) 16
      rw [st4, join_eq _ _ (by omega) (by omega)] at hb5 cc5
      have hbs : p4.bs100k = p.bs100k := by rw [bs4, bs3, bs2]
      have hcc : p4.computedCrc = p.computedCrc := by rw [cc4, cc3, cc2]
      rw [hbs] at hb5
      rw [hcc] at cc5
      refine ⟨f5, _, (bitsC c).drop 48, c5, p5, out, c6, by omega, ?_, ?_, i5, w5, hb5, a5, s5,
        by rw [bs5, hbs], by rw [m5, m4, m3, m2]; exact hm, cc5⟩
      · rw [h48, hw1', hw2, hw3]
      · rw [h32, d5, d1]
        simp only [List.drop_drop, Nat.reduceAdd]
    · rw [if_neg hw1', after_four] at a1
      cases a1

/-! ### state 0 -/

theorem sound_state0 (m f : Nat) (p : Gen.ParseSt) (c : Cur) (acc y : List UInt8)
    (inv : BufInv c.v c.w) (hs : p.state = 0) (hm : p.streamMode = false) (hm3 : m < 4)
    (h : go m f p c acc = .ok y) :
    (y = acc ∧ 8 * m ≤ c.size ∧
      ¬ (32 ≤ (bitsC c).length ∧ bitsToNat ((bitsC c).take 16) = 0x425A ∧
         0x6831 ≤ bitsToNat (((bitsC c).drop 16).take 16) ∧
         bitsToNat (((bitsC c).drop 16).take 16) ≤ 0x6839))
    ∨ (∃ f' c3 p', f = f' + 2 ∧ 32 ≤ (bitsC c).length ∧
        bitsToNat ((bitsC c).take 16) = 0x425A ∧
        0x6831 ≤ bitsToNat (((bitsC c).drop 16).take 16) ∧
        bitsToNat (((bitsC c).drop 16).take 16) ≤ 0x6839 ∧
        bitsC c3 = (bitsC c).drop 32 ∧ BufInv c3.v c3.w ∧ c3.w ≤ 48 ∧
        go m f' p' c3 acc = .ok y ∧
        p'.state = 2 ∧ p'.bs100k = bitsToNat (((bitsC c).drop 16).take 16) - 0x6830 ∧
        p'.streamMode = false ∧ p'.computedCrc = p.computedCrc) := by
  obtain ⟨f1, e1, hc⟩ := go_ok_cases m f p c acc y inv h
  rcases hc with ⟨hl, ha⟩ | ⟨l1, c1, d1, i1, w1, a1⟩
  · -- no word at all
    left
    unfold atEof Gen.parseAtEof at ha
    simp only [hs, Gen.PS_STREAM_MAGIC_1, if_true] at ha
    rw [finishCheck_eq _ _ _ _ hm3] at ha
    split at ha
    · cases ha
    · injection ha with ha
      exact ⟨ha.symm, by omega, by omega⟩
  · have z1 : c1.size = c.size - 16 := by
      rw [← bitsC_length, ← bitsC_length, d1, List.length_drop]
    have zc : 16 ≤ c.size := by rw [← bitsC_length]; exact l1
    rw [ps0 _ _ (show ({ p with align := false } : Gen.ParseSt).state = 0 from hs)] at a1
    by_cases hw1 : bitsToNat ((bitsC c).take 16) = 16986
    · rw [if_pos hw1, after_none _ _ _ _ _ rfl] at a1
      obtain ⟨f2, e2, hc2⟩ := go_ok_cases m f1 _ c1 acc y i1 a1
      rcases hc2 with ⟨hl2, ha2⟩ | ⟨l2, c2, d2, i2, w2, a2⟩
      · left
        unfold atEof Gen.parseAtEof at ha2
        simp only [Gen.PS_STREAM_MAGIC_1, Gen.PS_STREAM_MAGIC_2, if_true] at ha2
        simp (config := { decide := true }) only [if_false, if_true] at ha2
        rw [finishCheck_eq _ _ _ _ hm3] at ha2
        split at ha2
        · cases ha2
        · injection ha2 with ha2
          rw [d1, List.length_drop] at hl2
          exact ⟨ha2.symm, by omega, by omega⟩
      · have z2 : c2.size = c1.size - 16 := by
          rw [← bitsC_length, ← bitsC_length, d2, List.length_drop]
        have zc1 : 16 ≤ c1.size := by rw [← bitsC_length]; exact l2
        rw [ps1 _ _ rfl] at a2
        rw [d1] at a2
        by_cases hr : 26673 ≤ bitsToNat (((bitsC c).drop 16).take 16) ∧
            bitsToNat (((bitsC c).drop 16).take 16) ≤ 26681
        · right
          rw [if_pos hr, after_none _ _ _ _ _ rfl] at a2
          refine ⟨f2, c2, _, by omega, by rw [bitsC_length]; omega, hw1, hr.1, hr.2, ?_, i2, w2, a2,
            rfl, ?_, hm, rfl⟩
          · rw [d2, d1, List.drop_drop]
          · exact level_of_word _ hr.1 hr.2
        · left
          rw [if_neg hr, after_finish _ _ _ _ _ rfl] at a2
          simp only at a2
          rw [finishCheck_eq _ _ _ _ hm3] at a2
          split at a2
          · cases a2
          · injection a2 with a2
            exact ⟨a2.symm, by omega, fun hh => hr ⟨hh.2.2.1, hh.2.2.2⟩⟩
    · left
      rw [if_neg hw1, after_finish _ _ _ _ _ rfl] at a1
      simp only at a1
      rw [finishCheck_eq _ _ _ _ hm3] at a1
      split at a1
      · cases a1
      · injection a1 with a1
        exact ⟨a1.symm, by omega, fun hh => hw1 hh.2.1⟩

end LbzVerif.Lemmas.ExpandChainS
