/-
  Lemmas.TreeSound — `Model.Canon.lookup` on the tables of `make_tree` decodes
  every 64-bit window `v < 2^64 − 1` (the bit buffer never holds 64 live bits,
  so the lowest bit of the window is 0) of a COMPLETE length list to the symbol
  whose canonical code word is a prefix of the window (W17, `makeTree_sound`).
-/
import LbzVerif.Lemmas.TreeSoundTables

namespace LbzVerif.Lemmas.TreeSound
open LbzVerif LbzVerif.Spec.Prefix LbzVerif.Model.Canon LbzVerif.Lemmas.PrefixCanon
open LbzVerif.Lemmas.TransmitSym LbzVerif.Lemmas.TreeSoundArith LbzVerif.Lemmas.PrefixTree
open LbzVerif.Lemmas.TreeSoundTables

theorem cntL0 (lens : List Nat) (hc : Complete lens) : cntL lens 0 = 0 :=
  cntL_zero lens (fun x hx => (hc.2 x hx).1)

theorem S21 (lens : List Nat) (hc : Complete lens) : S lens 21 = 2 ^ 20 := by
  rw [S_top lens (fun y hy => (hc.2 y hy).2), hc.1]

theorem not_tail_lt (lens : List Nat) (k : Nat) (h : ¬ TailZero lens k) : S lens k < S lens 21 := by
  apply Classical.byContradiction
  intro hge
  apply h
  intro j hkj hj
  apply Classical.byContradiction
  intro hcj
  have h1 := S_lt_of_cnt lens k j hkj hcj
  have h2 := S_mono lens (show j + 1 ≤ 21 by omega)
  have h3 := width_pos j
  omega

theorem Sw64 (lens : List Nat) (k : Nat) (hk : k ≤ 21) : Sw lens 64 k = 2 ^ 44 * S lens k := by
  rw [S_eq_Sw, Sw_scale lens 64 20 (by omega) k hk]

theorem Sw10 (lens : List Nat) (k : Nat) (hk : k ≤ 11) : S lens k = 2 ^ 10 * Sw lens 10 k := by
  rw [S_eq_Sw, Sw_scale lens 20 10 (by omega) k hk]

/-- `base[k]` below the sentinels is the left-justified band boundary. -/
theorem base_real (lens : List Nat) (hc : Complete lens) (k : Nat) (k1 : 1 ≤ k) (k20 : k ≤ 20)
    (hnt : ¬ TailZero lens k) : (mkBase lens).getD k 0 = 2 ^ 44 * S lens k ∧ S lens k < 2 ^ 20 := by
  have hlt : S lens k < 2 ^ 20 := by rw [← S21 lens hc]; exact not_tail_lt lens k hnt
  refine ⟨?_, hlt⟩
  rw [base_getD lens (cntL0 lens hc) k k1 k20]
  rw [Sw64 lens k (by omega)]
  have e : ∀ b, (@ite Nat (TailZero lens k) b (M64 - 1) (2 ^ 44 * S lens k % M64)) = 2 ^ 44 * S lens k % M64 := by
    intro b; rw [if_neg hnt]
  rw [e]
  apply Nat.mod_eq_of_lt
  rw [M64_eq]
  omega

theorem base_sentinel (lens : List Nat) (hc : Complete lens) (k : Nat) (k1 : 1 ≤ k) (k21 : k ≤ 21)
    (ht : TailZero lens k) : (mkBase lens).getD k 0 = M64 - 1 := by
  by_cases h : k = 21
  · subst h; exact base21 lens
  · rw [base_getD lens (cntL0 lens hc) k k1 (by omega)]
    have e : ∀ b, (@ite Nat (TailZero lens k) b (M64 - 1) (Sw lens 64 k % M64)) = M64 - 1 := by
      intro b; rw [if_pos ht]
    exact e _

/-- The canonical walk on the window `v` stops at the band of its top 20 bits. -/
theorem stop_of_dec (lens : List Nat) (hc : Complete lens) (v : Nat) (hv : v < 2 ^ 64 - 1)
    (l r i : Nat) (h : Dec lens (v / 2 ^ 44) l r i) : Stop (mkBase lens) v l := by
  have hx := Nat.div_mul_le_self v (2 ^ 44)
  have hx2 := Nat.lt_mul_div_succ v (show 0 < 2 ^ 44 by omega)
  have hcl : cntL lens l ≠ 0 := by have := h.r_lt; omega
  constructor
  · intro j hj
    have hnt : ¬ TailZero lens (j + 1) := fun ht => hcl (ht l (by omega) h.l20)
    have l20 := h.l20
    obtain ⟨e, _⟩ := base_real lens hc (j + 1) (by omega) (by omega) hnt
    rw [e]
    have := S_mono lens (show j + 1 ≤ l by omega)
    have := h.lo
    omega
  · by_cases ht : TailZero lens (l + 1)
    · rw [base_sentinel lens hc (l + 1) (by omega) (by have := h.l20; omega) ht, M64_eq]
      omega
    · have l20 : l + 1 ≤ 20 := by
        apply Classical.byContradiction
        intro hn
        apply ht
        intro j a b
        have := h.l20
        omega
      obtain ⟨e, _⟩ := base_real lens hc (l + 1) (by omega) l20 ht
      rw [e]
      have := h.hi
      omega

/-! ### the `start[]` entry of a window -/

theorem startEntry_split (a l : Nat) (ha : a ≤ 258) (hl : l < 32) :
    (((a <<< 5) ||| l) % 2 ^ 16) &&& 0x1F = l ∧ (((a <<< 5) ||| l) % 2 ^ 16) >>> 5 = a := by
  rw [← Nat.shiftLeft_add_eq_or_of_lt (by omega : l < 2 ^ 5), Nat.shiftLeft_eq]
  have : (0x1F : Nat) = 2 ^ 5 - 1 := rfl
  rw [this, Nat.and_two_pow_sub_one_eq_mod, Nat.shiftRight_eq_div_pow]
  omega

theorem renumber_le (n s : Nat) (hs : s < n) (hn : n ≤ 258) : renumber n s ≤ 258 := by
  unfold renumber
  split
  · omega
  · split
    · omega
    · split <;> omega

theorem width_split (l : Nat) (hl : l ≤ 10) : width l = 2 ^ 10 * 2 ^ (10 - l) := by
  unfold width
  rw [← Nat.pow_add]
  congr 1
  omega

/-- Windows whose code is at most `HUFF_START_WIDTH` bits long hit a complete
`start[]` entry. -/
theorem start_short (lens : List Nat) (hc : Complete lens) (v : Nat) (l r i : Nat)
    (h : Dec lens (v / 2 ^ 44) l r i) (hl : l ≤ 10) :
    (mkStart lens (mkBase lens)).getD (v >>> (64 - SW)) 0 = startEntry lens.length l i := by
  have hsw : SW = 10 := rfl
  rw [hsw, Nat.shiftRight_eq_div_pow]
  have hc54 : v / 2 ^ (64 - 10) = v / 2 ^ 44 / 2 ^ 10 := by
    rw [Nat.div_div_eq_div_mul, ← Nat.pow_add]
  rw [hc54]
  generalize v / 2 ^ 44 = x at h
  have hw := width_split l hl
  have hS := Sw10 lens l (by omega)
  have hlo := h.lo
  have hmod := Nat.div_add_mod (x - S lens l) (width l)
  have hmlt := Nat.mod_lt (x - S lens l) (width_pos l)
  rw [← h.r_eq] at hmod
  have hP : 0 < 2 ^ (10 - l) := Nat.two_pow_pos _
  generalize hPd : 2 ^ (10 - l) = P at hw hP
  generalize hrem : (x - S lens l) % width l = rem at hmod hmlt
  have hq : width l * r = 2 ^ 10 * (r * P) := by rw [hw, Nat.mul_assoc, Nat.mul_comm P r]
  generalize hqd : r * P = q at hq
  have hcidx : x / 2 ^ 10 = Sw lens 10 l + q + rem / 2 ^ 10 := by omega
  have hu : rem / 2 ^ 10 < P := by omega
  have hget := startFull_getElem lens (cntL0 lens hc) l r (rem / 2 ^ 10) i h.l1 hl h.r_lt
    (by rw [hPd]; exact hu) h.i_eq
  rw [hPd, hqd, ← hcidx] at hget
  unfold mkStart
  simp only
  rw [List.getD_eq_getElem?_getD,
    List.getElem?_append_left (List.getElem?_eq_some_iff.mp hget).1, hget]
  rfl

/-- Every window `c·2^54` (`c < 1024`) has a band. -/
theorem stop_code (lens : List Nat) (hc : Complete lens) (c : Nat) (hcl : c < 1024) :
    ∃ L r i, Dec lens (c * 2 ^ 10) L r i ∧ Stop (mkBase lens) ((c <<< (64 - SW)) % M64) L := by
  have hsw : SW = 10 := rfl
  have hv : (c <<< (64 - SW)) % M64 = c * 2 ^ 54 := by
    rw [hsw, Nat.shiftLeft_eq, M64_eq]
    apply Nat.mod_eq_of_lt
    omega
  have hx : c * 2 ^ 54 / 2 ^ 44 = c * 2 ^ 10 := by omega
  obtain ⟨L, r, i, hd⟩ := dec_exists lens hc (c * 2 ^ 10) (by omega)
  refine ⟨L, r, i, hd, ?_⟩
  rw [hv]
  exact stop_of_dec lens hc _ (by omega) L r i (by rw [hx]; exact hd)

/-- Windows with longer codes hit a `start[]` entry holding a length between 11
and the length of their code. -/
theorem start_long (lens : List Nat) (hc : Complete lens) (v : Nat) (hv : v < 2 ^ 64 - 1) (l r i : Nat)
    (h : Dec lens (v / 2 ^ 44) l r i) (hl : 11 ≤ l) :
    ∃ Lc, 11 ≤ Lc ∧ Lc ≤ l ∧ (mkStart lens (mkBase lens)).getD (v >>> (64 - SW)) 0 = Lc := by
  have hsw : SW = 10 := rfl
  have hcdef : v >>> (64 - SW) = v / 2 ^ 44 / 2 ^ 10 := by
    rw [hsw, Nat.shiftRight_eq_div_pow, Nat.div_div_eq_div_mul, ← Nat.pow_add]
  have hc1024 : v >>> (64 - SW) < 1024 := by rw [hcdef]; omega
  have hS11 := Sw10 lens 11 (by omega)
  have hfl := startFull_length lens (cntL0 lens hc)
  have hge : (startFull lens).length ≤ v >>> (64 - SW) := by
    rw [hfl, hcdef]
    have := S_mono lens hl
    have := h.lo
    omega
  -- band of a code `c ≥ full.length`
  have hband : ∀ c, (startFull lens).length ≤ c → ∀ L r i, Dec lens (c * 2 ^ 10) L r i → 11 ≤ L := by
    intro c hcge L r' i' hd
    apply Classical.byContradiction
    intro hn
    have := S_mono lens (show L + 1 ≤ 11 by omega)
    have := hd.hi
    rw [hfl] at hcge
    omega
  obtain ⟨Lc, rc, ic, hdc, hsc⟩ := stop_code lens hc (v >>> (64 - SW)) hc1024
  have hLc11 := hband _ hge Lc rc ic hdc
  have hvle : ((v >>> (64 - SW)) <<< (64 - SW)) % M64 ≤ v := by
    rw [hsw, Nat.shiftLeft_eq, Nat.shiftRight_eq_div_pow, M64_eq]
    have := Nat.div_mul_le_self v (2 ^ (64 - 10))
    have : v / 2 ^ (64 - 10) * 2 ^ (64 - 10) % 2 ^ 64 ≤ v / 2 ^ (64 - 10) * 2 ^ (64 - 10) :=
      Nat.mod_le _ _
    omega
  have hLcl : Lc ≤ l := stop_mono _ _ _ Lc l hvle hsc (stop_of_dec lens hc v hv l r i h)
  refine ⟨Lc, hLc11, hLcl, ?_⟩
  unfold mkStart
  simp only
  rw [List.getD_eq_getElem?_getD, List.getElem?_append_right hge, ← List.getD_eq_getElem?_getD]
  apply startRest_getD (mkBase lens) _ (startFull lens).length (SW + 1)
    (v >>> (64 - SW) - (startFull lens).length)
  · have : (1 : Nat) <<< SW = 1024 := by decide
    rw [this]; omega
  · intro c h1 h2
    have : (1 : Nat) <<< SW = 1024 := by decide
    rw [this] at h2
    obtain ⟨L, r', i', hd, hs⟩ := stop_code lens hc c (by omega)
    exact ⟨L, hd.l20, hs⟩
  · intro c c' h1 h2 h3
    have : (1 : Nat) <<< SW = 1024 := by decide
    rw [this] at h3
    have hc' : c' < 1024 := by omega
    rw [hsw, Nat.shiftLeft_eq, Nat.shiftLeft_eq, M64_eq,
      Nat.mod_eq_of_lt (by omega), Nat.mod_eq_of_lt (by omega)]
    exact Nat.mul_le_mul_right _ h2
  · intro L hL
    obtain ⟨L0, r0, i0, hd0, hs0⟩ := stop_code lens hc (startFull lens).length (by omega)
    have := hband _ (Nat.le_refl _) L0 r0 i0 hd0
    have := stop_mono _ _ _ L0 L (Nat.le_refl _) hs0 hL
    show 10 + 1 ≤ L
    omega
  · rw [show (startFull lens).length + (v >>> (64 - SW) - (startFull lens).length) = v >>> (64 - SW) by omega]
    exact hsc

/-! ### the lookup -/

/-- **lookup_sound.**  For a complete length list with at most 258 symbols and
any window `v < 2^64 − 1`: with `x` the top 20 bits of `v`, `x` lies in the
interval of exactly one symbol `i` (`Dec`: band `l = lens[i]`, rank `r`), and
the `start`/`base`/`count`/`perm` lookup of `retrieve()` returns that symbol in
the decoder's internal numbering together with its code length. -/
theorem lookup_sound (lens : List Nat) (hc : Complete lens) (hn : lens.length ≤ 258) (v : Nat)
    (hv : v < 2 ^ 64 - 1) :
    ∃ l r i, Dec lens (v / 2 ^ 44) l r i ∧
      lookup (mkTree lens) v = some (renumber lens.length i, l) := by
  obtain ⟨l, r, i, h⟩ := dec_exists lens hc (v / 2 ^ 44) (by omega)
  refine ⟨l, r, i, h, ?_⟩
  have hsw : SW = 10 := rfl
  have hml : MAXL = 20 := rfl
  unfold lookup mkTree
  simp only
  by_cases hl : l ≤ 10
  · rw [start_short lens hc v l r i h hl]
    obtain ⟨e1, e2⟩ := startEntry_split (renumber lens.length i) l
      (renumber_le _ _ h.i_lt hn) (by omega)
    unfold startEntry
    rw [e1, e2, if_pos (by rw [hsw]; exact hl)]
  · obtain ⟨Lc, h11, hLl, e⟩ := start_long lens hc v hv l r i h (by omega)
    rw [e]
    have l20 := h.l20
    have hand : Lc &&& 0x1F = Lc := by
      have : (0x1F : Nat) = 2 ^ 5 - 1 := rfl
      rw [this, Nat.and_two_pow_sub_one_eq_mod]
      exact Nat.mod_eq_of_lt (by omega)
    rw [hand, if_neg (by rw [hsw]; omega)]
    have hstop := stop_of_dec lens hc v hv l r i h
    rw [walkUp_eq _ _ _ hstop _ Lc hLl (by rw [hml]; omega), if_neg (by rw [hml]; omega)]
    have hcl : cntL lens l ≠ 0 := by have := h.r_lt; omega
    have hnt : ¬ TailZero lens l := fun ht => hcl (ht l (Nat.le_refl _) l20)
    obtain ⟨eb, _⟩ := base_real lens hc l h.l1 l20 hnt
    rw [eb, count_getD lens (cntL0 lens hc) l h.l1 l20]
    have hx := Nat.div_mul_le_self v (2 ^ 44)
    have hlo := h.lo
    have hsub : (v + M64 - 2 ^ 44 * S lens l) % M64 = v - 2 ^ 44 * S lens l := by
      rw [M64_eq]
      have : v + 2 ^ 64 - 2 ^ 44 * S lens l = (v - 2 ^ 44 * S lens l) + 2 ^ 64 := by omega
      rw [this, Nat.add_mod_right]
      exact Nat.mod_eq_of_lt (by omega)
    have hidx : (v - 2 ^ 44 * S lens l) >>> (64 - l) = r := by
      rw [Nat.shiftRight_eq_div_pow]
      have : 2 ^ (64 - l) = 2 ^ 44 * width l := by
        unfold width; rw [← Nat.pow_add]; congr 1; omega
      rw [this, ← Nat.div_div_eq_div_mul, Nat.sub_mul_div, h.r_eq]
    rw [hsub, hidx]
    have hp := perm_getD lens (cntL0 lens hc) l r i h.l1 l20 h.i_eq
    rw [if_pos (List.getElem?_eq_some_iff.mp hp).1, List.getD_eq_getElem?_getD, hp]
    rfl

/-! ### bit-list forms and table sizes (used by Props.C05.Tree) -/

theorem natToBits_split (a b v : Nat) :
    Basic.natToBits (a + b) v = Basic.natToBits a (v >>> b) ++ Basic.natToBits b v := by
  induction a with
  | zero => simp [Basic.natToBits]
  | succ a ih =>
    rw [show a + 1 + b = (a + b) + 1 by omega, Basic.natToBits, Basic.natToBits, ih,
      Nat.testBit_shiftRight, List.cons_append]
    congr 2
    omega

theorem bitsMSB_eq (n v : Nat) : bitsMSB n v = Basic.natToBits n v := by
  induction n with
  | zero => rfl
  | succ n ih =>
    rw [bitsMSB, Basic.natToBits, ih]
    congr 1
    unfold Spec.Prefix.bit
    rw [Nat.testBit_eq_decide_div_mod_eq]

/-- The top `ℓ` bits of a window whose top 20 bits lie in the interval of
symbol `i` are the code word of `i`. -/
theorem top_bits_code (lens : List Nat) (v l r i : Nat) (h : Dec lens (v / 2 ^ 44) l r i) :
    v >>> (64 - l) = canonCode lens i := by
  rw [h.code, Nat.shiftRight_eq_div_pow, Nat.div_div_eq_div_mul]
  congr 1
  unfold width
  rw [← Nat.pow_add]
  congr 1
  have := h.l20
  omega

theorem walkUp_ge (B : List Nat) (v : Nat) : ∀ fuel k, k ≤ walkUp B v fuel k := by
  intro fuel
  induction fuel with
  | zero => intro k; exact Nat.le_refl _
  | succ f ih =>
    intro k
    unfold walkUp
    split
    · have := ih (k + 1); omega
    · exact Nat.le_refl _

theorem I_cons (a : Nat) (t : List Nat) (k : Nat) :
    I (a :: t) k = I t k + (if a < k then 1 else 0) := by
  induction k with
  | zero => simp [I]
  | succ k ih =>
    rw [I, I, ih]
    unfold cntL
    rw [List.count_cons]
    by_cases h1 : a < k
    · have h2 : a < k + 1 := by omega
      have hne : (a == k) = false := by simp; omega
      simp [h1, h2, hne]; omega
    · by_cases h2 : a = k
      · subst h2; simp; omega
      · have h3 : ¬ a < k + 1 := by omega
        have hne : (a == k) = false := by simp; omega
        simp [h1, h3, hne]

theorem I_nil (k : Nat) : I [] k = 0 := by
  induction k with
  | zero => rfl
  | succ k ih => simp [I, ih, cntL]

theorem I_countP (lens : List Nat) (k : Nat) : I lens k = lens.countP (fun x => decide (x < k)) := by
  induction lens with
  | nil => simp [I_nil]
  | cons a t ih =>
    rw [I_cons, ih, List.countP_cons]
    by_cases h : a < k <;> simp [h]

theorem perm_length (lens : List Nat) (hr : ∀ l ∈ lens, 1 ≤ l ∧ l ≤ 20) :
    (mkPerm lens).length = lens.length := by
  rw [perm_eq', List.length_map]
  have h0 : cntL lens 0 = 0 := cntL_zero lens (fun x hx => (hr x hx).1)
  have hlen : ∀ k a, ((List.range' a k).flatMap (blk lens)).length = ((List.range' a k).map (cntL lens)).sum := by
    intro k
    induction k with
    | zero => intro a; simp
    | succ k ih => intro a; rw [List.range'_succ, List.flatMap_cons, List.length_append, ih, blk_length]; simp
  rw [hlen]
  have := I_add lens 1 20
  rw [I_one lens h0, Nat.zero_add] at this
  rw [← this, I_countP, List.countP_eq_length]
  intro x hx
  have := (hr x hx).2
  simp; omega


end LbzVerif.Lemmas.TreeSound
