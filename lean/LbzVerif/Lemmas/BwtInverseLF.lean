/-
  Lemmas.BwtInverseLF — the LF-mapping argument, stated without any text:

  Let `M` be a list of rows of the same length `m ≥ 1`, sorted
  lexicographically (by `key`), and closed under rotation (`M.map rotr` is a
  permutation of `M`).  Let `L` be its last column and `S = succVec L` the
  positions of `L` in stable order of their byte (the successor vector of the
  textbook inverse BWT).  Then

    * `lf_eq`:      rotating row `S[j]` one step to the right gives row `j`
                    — i.e. row `S[j]` is row `j` rotated one step to the left;
    * `follow_row`: following `S` from row `q` for `k ≤ m` steps, reading `L`,
                    spells the first `k` bytes of row `q`;
    * `ibwt_matrix`: for a square matrix, `Spec.Ibwt.ibwt L idx` is row `idx`.

  Proof of `lf_eq`: the list `A = [rotr (M[S[0]]), rotr (M[S[1]]), …]` is sorted
  (for two rows with different last bytes the rotated rows start with these
  bytes; for equal last bytes `S` keeps the row order, `M` is sorted, and
  `X·c ≤ X'·c ⟹ c·X ≤ c·X'`), and it is a permutation of `M`; two sorted
  permutations of one another are equal.  No tie-breaking between equal rows is
  involved, so periodic texts (several equal rotations) need no special care.
-/
import LbzVerif.Lemmas.BwtInverseKey
import LbzVerif.Lemmas.IbwtSort

namespace LbzVerif.Lemmas.BwtInverse
open LbzVerif
open LbzVerif.Spec.Ibwt (succVec follow isort)
open LbzVerif.Lemmas.IbwtSort
open LbzVerif.Lemmas.Ibwt (byteAt)

/-- the last column of a matrix -/
def lastCol (M : List (List UInt8)) : List UInt8 := M.map (fun r => r.getLastD 0)

/-- a sorted matrix of equally long rows, closed under rotation -/
structure Matrix (M : List (List UInt8)) (m : Nat) : Prop where
  pos : 1 ≤ m
  rows : ∀ r ∈ M, r.length = m
  sorted : M.Pairwise (fun a b => key a ≤ key b)
  closed : (M.map rotr).Perm M

theorem lastCol_length (M : List (List UInt8)) : (lastCol M).length = M.length := by
  simp [lastCol]

theorem getD_mem (M : List (List UInt8)) (p : Nat) (hp : p < M.length) :
    M.getD p [] = M[p] ∧ M.getD p [] ∈ M := by
  have : M.getD p [] = M[p] := by
    simp [List.getD_eq_getElem?_getD, List.getElem?_eq_getElem hp]
  exact ⟨this, this ▸ List.getElem_mem hp⟩

theorem lastCol_getD (M : List (List UInt8)) (p : Nat) (hp : p < M.length) :
    (lastCol M).getD p 0 = (M.getD p []).getLastD 0 := by
  simp [lastCol, List.getD_eq_getElem?_getD, List.getElem?_map, List.getElem?_eq_getElem hp]

theorem ne_nil_of_length {r : List UInt8} {m : Nat} (hm : 1 ≤ m) (h : r.length = m) : r ≠ [] := by
  intro h0; rw [h0] at h; simp at h; omega

/-- keys of the right rotations of two rows of the same length -/
theorem key_rotr_le (r r' : List UInt8) (m : Nat) (hm : 1 ≤ m) (h : r.length = m)
    (h' : r'.length = m)
    (hc : (r.getLastD 0).toNat < (r'.getLastD 0).toNat ∨
      ((r.getLastD 0).toNat = (r'.getLastD 0).toNat ∧ key r ≤ key r')) :
    key (rotr r) ≤ key (rotr r') := by
  have e := row_split r (ne_nil_of_length hm h)
  have e' := row_split r' (ne_nil_of_length hm h')
  have hk : key r = key r.dropLast * 256 + (r.getLastD 0).toNat := by
    conv => lhs; rw [e]
    exact key_snoc _ _
  have hk' : key r' = key r'.dropLast * 256 + (r'.getLastD 0).toNat := by
    conv => lhs; rw [e']
    exact key_snoc _ _
  have hl : r.dropLast.length = r'.dropLast.length := by
    simp only [List.length_dropLast]; omega
  simp only [rotr, key_cons]
  rw [← hl]
  have b1 := key_lt r.dropLast
  have b2 := key_lt r'.dropLast
  rw [← hl] at b2
  rcases hc with hc | ⟨hc, hle⟩
  · have := mul_add_lt _ _ _ _ hc b1
    omega
  · rw [hc]
    omega

/-- **LF mapping.** -/
theorem lf_eq {M : List (List UInt8)} {m : Nat} (h : Matrix M m) :
    (succVec (lastCol M)).map (fun p => rotr (M.getD p [])) = M := by
  have hlen := lastCol_length M
  have hS := succVec_perm (lastCol M)
  rw [hlen] at hS
  have hmemS : ∀ p ∈ succVec (lastCol M), p < M.length := fun p hp =>
    List.mem_range.mp (hS.mem_iff.mp hp)
  apply eq_of_sorted_perm key
  · intro a ha b hb hk
    obtain ⟨p, hp, rfl⟩ := List.mem_map.mp ha
    have hrow := h.rows _ (getD_mem M p (hmemS p hp)).2
    apply key_inj _ _ _ hk
    rw [rotr_length _ (ne_nil_of_length h.pos hrow), hrow, h.rows b hb]
  · rw [List.pairwise_map]
    have hpw : (succVec (lastCol M)).Pairwise (fun a b => ltB (lastCol M) a b = true) :=
      isort_pairwise (lastCol M) _ List.pairwise_lt_range
    refine List.Pairwise.imp_of_mem ?_ hpw
    intro p p' hp hp' hlt
    have hpl := hmemS p hp
    have hpl' := hmemS p' hp'
    obtain ⟨e1, m1⟩ := getD_mem M p hpl
    obtain ⟨e2, m2⟩ := getD_mem M p' hpl'
    rw [ltB_iff] at hlt
    simp only [byteAt, lastCol_getD M p hpl, lastCol_getD M p' hpl'] at hlt
    apply key_rotr_le _ _ m h.pos (h.rows _ m1) (h.rows _ m2)
    rcases hlt with hlt | ⟨heq, hpp⟩
    · exact Or.inl hlt
    · refine Or.inr ⟨heq, ?_⟩
      rw [e1, e2]
      exact (List.pairwise_iff_getElem.mp h.sorted) p p' hpl hpl' hpp
  · exact h.sorted
  · refine ((hS.map _).trans ?_).trans h.closed
    have : (List.range M.length).map (fun p => rotr (M.getD p [])) = M.map rotr := by
      apply List.ext_getElem
      · simp
      · intro i h1 h2
        simp only [List.length_map, List.length_range] at h1
        simp [List.getD_eq_getElem?_getD, List.getElem?_eq_getElem h1]
    rw [this]

/-- row `S[q]` is row `q` rotated one step to the left; the byte of `L` there is
    the first byte of row `q` -/
theorem lf_step {M : List (List UInt8)} {m : Nat} (h : Matrix M m) (q : Nat) (hq : q < M.length) :
    (succVec (lastCol M)).getD q 0 < M.length ∧
    M.getD ((succVec (lastCol M)).getD q 0) [] = rotl (M.getD q []) := by
  have hlen := lastCol_length M
  have hq' : (succVec (lastCol M)).getD q 0 < M.length := by
    have := succVec_getD_lt (lastCol M) q (by rw [hlen]; exact hq)
    rwa [hlen] at this
  refine ⟨hq', ?_⟩
  have hSl : q < (succVec (lastCol M)).length := by rw [succVec_length, hlen]; exact hq
  have hget := congrArg (fun l => l.getD q []) (lf_eq h)
  simp only [List.getD_eq_getElem?_getD, List.getElem?_map, List.getElem?_eq_getElem hSl,
    Option.map_some, Option.getD_some] at hget
  have hrow := h.rows _ (getD_mem M _ hq').2
  have hne := ne_nil_of_length h.pos hrow
  have e : (succVec (lastCol M)).getD q 0 = (succVec (lastCol M))[q] := by
    simp [List.getD_eq_getElem?_getD, List.getElem?_eq_getElem hSl]
  rw [e]
  rw [e] at hne
  have := congrArg rotl hget
  rw [rotl_rotr _ (by simpa [List.getD_eq_getElem?_getD] using hne)] at this
  simpa [List.getD_eq_getElem?_getD] using this

theorem follow_row {M : List (List UInt8)} {m : Nat} (h : Matrix M m) :
    ∀ (k q : Nat), q < M.length → k ≤ m →
      follow (lastCol M) (succVec (lastCol M)) k q = (M.getD q []).take k := by
  intro k
  induction k with
  | zero => intro q _ _; simp [follow]
  | succ k ih =>
    intro q hq hk
    obtain ⟨hq', hrot⟩ := lf_step h q hq
    have hrow := h.rows _ (getD_mem M q hq).2
    simp only [follow]
    rw [ih _ hq' (by omega), lastCol_getD M _ hq', hrot]
    cases hr : M.getD q [] with
    | nil => rw [hr] at hrow; simp at hrow; omega
    | cons c X =>
      rw [hr] at hrow
      rw [getLastD_rotl]
      simp only [rotl, List.take_succ_cons]
      rw [List.take_append_of_le_length (by simp only [List.length_cons] at hrow; omega)]

/-- **The textbook inverse BWT reads row `idx` off a sorted, rotation-closed
    square matrix given its last column.** -/
theorem ibwt_matrix {M : List (List UInt8)} {m : Nat} (h : Matrix M m) (hN : M.length = m)
    (idx : Nat) (hidx : idx < M.length) :
    Spec.Ibwt.ibwt (lastCol M) idx = M.getD idx [] := by
  unfold Spec.Ibwt.ibwt
  rw [lastCol_length, follow_row h M.length idx hidx (by omega)]
  have hrow := h.rows _ (getD_mem M idx hidx).2
  rw [List.take_of_length_le (by omega)]

end LbzVerif.Lemmas.BwtInverse
