/-
  Lemmas.TransmitSym — the bridge between the two reference symbol decoders:
  for a complete code, `Spec.Bzip2.decodeSym (mkCode lens)` (per-length counts,
  running first code, rank into the (length, index)-sorted symbol list) reads
  the canonical code word `Spec.Prefix.canonCode lens i` as symbol `i`.

  The rank formula: `canonCode lens i = F ℓ + r`, where `ℓ = lens[i]`, `F` is
  the first code of each length (`F 1 = 0`, `F (l+1) = 2·(F l + count l)`), and
  `r` is the number of earlier symbols of the same length.
-/
import LbzVerif.Spec.Bzip2
import LbzVerif.Spec.Prefix
import LbzVerif.Lemmas.PrefixCanon

namespace LbzVerif.Lemmas.TransmitSym
open LbzVerif LbzVerif.Basic LbzVerif.Spec.Prefix LbzVerif.Lemmas.PrefixCanon

/-- number of symbols of length `l` -/
def cntL (lens : List Nat) (l : Nat) : Nat := lens.count l

/-- first code of length `l` (as `decodeRank` computes it) -/
def F (lens : List Nat) : Nat → Nat
  | 0 => 0
  | l + 1 => 2 * (F lens l + cntL lens l)

/-- number of symbols shorter than `l` -/
def I (lens : List Nat) : Nat → Nat
  | 0 => 0
  | l + 1 => I lens l + cntL lens l

/-- total width (units of 2^-20) of the symbols shorter than `l` -/
def S (lens : List Nat) (l : Nat) : Nat :=
  (lens.map (fun x => if x < l then width x else 0)).sum

/-- number of symbols before `i` with the same length as `i` -/
def rankIn (lens : List Nat) (i : Nat) : Nat :=
  ((List.range i).filter (fun j => lens[j]! == lens[i]!)).length

/-! ### index sums and list sums -/

theorem flatMap_congr_local {α β : Type} (l : List α) (f g : α → List β)
    (h : ∀ x ∈ l, f x = g x) : l.flatMap f = l.flatMap g := by
  induction l with
  | nil => rfl
  | cons a t ih =>
    rw [List.flatMap_cons, List.flatMap_cons, h a (List.mem_cons_self ..),
      ih (fun x hx => h x (List.mem_cons_of_mem _ hx))]

theorem map_range_getElem! (lens : List Nat) (f : Nat → Nat) :
    (List.range lens.length).map (fun j => f lens[j]!) = lens.map f := by
  apply List.ext_getElem
  · simp
  · intro i h1 h2
    simp only [List.length_map, List.length_range] at h1
    simp [h1]

theorem sum_ite_filter (l : List Nat) (p : Nat → Bool) (c : Nat) :
    (l.map (fun j => if p j then c else 0)).sum = (l.filter p).length * c := by
  induction l with
  | nil => simp
  | cons a t ih =>
    simp only [List.map_cons, List.sum_cons, ih, List.filter_cons]
    cases p a <;> simp [Nat.add_mul, Nat.add_comm]

/-! ### the rank formula -/

theorem split_term (a b j i : Nat) (P : Bool) (hP : P = true ↔ a < b ∨ (a = b ∧ j < i)) :
    (if P = true then width a else 0) =
      (if a < b then width a else 0) +
        (if (decide (j < i) && (a == b)) = true then width b else 0) := by
  by_cases h1 : a < b
  · have hp : P = true := hP.mpr (Or.inl h1)
    have hne : (a == b) = false := by simp; omega
    simp [hp, h1, hne]
  · by_cases h2 : a = b
    · subst h2
      by_cases h3 : j < i
      · have hp : P = true := hP.mpr (Or.inr ⟨rfl, h3⟩)
        simp [hp, h3]
      · have hp : P = false := by
          cases hq : P
          · rfl
          · have := hP.mp hq; omega
        simp [hp, h3]
    · have hp : P = false := by
        cases hq : P
        · rfl
        · have := hP.mp hq; omega
      have hne : (a == b) = false := by simp; omega
      simp [hp, h1, hne]

theorem offset_rank (lens : List Nat) (i : Nat) (hi : i < lens.length) :
    offset20 lens i = S lens lens[i]! + rankIn lens i * width lens[i]! := by
  unfold offset20
  have hsplit : (List.range lens.length).map
        (fun j => if precedes lens j i then width lens[j]! else 0) =
      (List.range lens.length).map (fun j =>
        (if lens[j]! < lens[i]! then width lens[j]! else 0) +
        (if (decide (j < i) && (lens[j]! == lens[i]!)) then width lens[i]! else 0)) := by
    apply List.map_congr_left
    intro j _
    exact split_term lens[j]! lens[i]! j i _ (precedes_iff lens j i)
  rw [hsplit, sum_map_add]
  congr 1
  · exact congrArg List.sum (map_range_getElem! lens (fun x => if x < lens[i]! then width x else 0))
  · rw [sum_ite_filter]
    congr 1
    unfold rankIn
    have hr : List.range lens.length = List.range i ++ List.range' i (lens.length - i) := by
      have := List.range_add (n := i) (m := lens.length - i)
      rw [show i + (lens.length - i) = lens.length by omega] at this
      rw [this, List.range'_eq_map_range]
    rw [hr, List.filter_append, List.length_append]
    have h1 : (List.range i).filter (fun j => decide (j < i) && (lens[j]! == lens[i]!)) =
        (List.range i).filter (fun j => lens[j]! == lens[i]!) := by
      apply List.filter_congr
      intro j hj
      simp [List.mem_range.mp hj]
    have h2 : (List.range' i (lens.length - i)).filter
        (fun j => decide (j < i) && (lens[j]! == lens[i]!)) = [] := by
      rw [List.filter_eq_nil_iff]
      intro j hj
      have := (List.mem_range'_1.mp hj).1
      simp; omega
    rw [h1, h2]; simp

/-! ### `S`, `F`, `I` -/

theorem S_succ (lens : List Nat) (l : Nat) :
    S lens (l + 1) = S lens l + cntL lens l * width l := by
  unfold S cntL
  induction lens with
  | nil => simp
  | cons a t ih =>
    simp only [List.map_cons, List.sum_cons, ih, List.count_cons]
    by_cases h1 : a < l
    · have : a < l + 1 := by omega
      have hne : (a == l) = false := by simp; omega
      simp [h1, this, hne]; omega
    · by_cases h2 : a = l
      · subst h2
        simp [Nat.add_mul]; omega
      · have : ¬ a < l + 1 := by omega
        have hne : (a == l) = false := by simp; omega
        simp [h1, this, hne]

theorem cntL_zero (lens : List Nat) (h : ∀ x ∈ lens, 1 ≤ x) : cntL lens 0 = 0 := by
  unfold cntL
  rw [List.count_eq_zero]
  intro h0
  have := h 0 h0
  omega

theorem S_one (lens : List Nat) (h : ∀ x ∈ lens, 1 ≤ x) : S lens 1 = 0 := by
  unfold S
  apply sum_map_zero
  intro x hx
  have := h x hx
  simp; omega

theorem F_width (lens : List Nat) (h : ∀ x ∈ lens, 1 ≤ x) (l : Nat) (hl : l + 1 ≤ 20) :
    F lens (l + 1) * width (l + 1) = S lens (l + 1) := by
  induction l with
  | zero =>
    simp [F, cntL_zero lens h, S_one lens h]
  | succ l ih =>
    have ih' := ih (by omega)
    rw [S_succ lens (l + 1), ← ih']
    have hw : width (l + 1) = 2 * width (l + 1 + 1) := by
      unfold width
      rw [show 20 - (l + 1) = (20 - (l + 1 + 1)) + 1 by omega, Nat.pow_succ]
      omega
    rw [F, hw]
    generalize F lens (l + 1) = f
    generalize cntL lens (l + 1) = c
    generalize width (l + 1 + 1) = w
    rw [Nat.mul_add, Nat.add_mul, Nat.mul_assoc, Nat.mul_assoc, Nat.mul_left_comm 2 f w,
      Nat.mul_left_comm 2 c w]

/-- **The rank formula.** -/
theorem canonCode_rank (lens : List Nat) (hc : Complete lens) (i : Nat) (hi : i < lens.length) :
    canonCode lens i = F lens lens[i]! + rankIn lens i := by
  have hm := hc.2 _ (getElem!_mem lens i hi)
  have h1 : ∀ x ∈ lens, 1 ≤ x := fun x hx => (hc.2 x hx).1
  obtain ⟨l, hl⟩ : ∃ l, lens[i]! = l + 1 := ⟨lens[i]! - 1, by omega⟩
  have h2 := offset_eq lens i
  rw [offset_rank lens i hi, hl, ← F_width lens h1 l (by omega), ← Nat.add_mul] at h2
  exact Nat.eq_of_mul_eq_mul_right (width_pos _) (by rw [hl]; exact h2)

theorem F_mono (lens : List Nat) (l d : Nat) :
    2 ^ (d + 1) * (F lens l + cntL lens l) ≤ F lens (l + d + 1) := by
  induction d with
  | zero => simp [F]
  | succ d ih =>
    rw [show l + (d + 1) + 1 = (l + d + 1) + 1 by omega, F, Nat.pow_succ]
    have : 2 ^ (d + 1) * 2 * (F lens l + cntL lens l) = 2 * (2 ^ (d + 1) * (F lens l + cntL lens l)) := by
      rw [Nat.mul_comm (2 ^ (d + 1)) 2, Nat.mul_assoc]
    rw [this]
    omega

theorem I_add (lens : List Nat) (a t : Nat) :
    I lens (a + t) = I lens a + ((List.range' a t).map (cntL lens)).sum := by
  induction t generalizing a with
  | zero => simp
  | succ t ih =>
    rw [show a + (t + 1) = (a + 1) + t by omega, ih (a + 1), List.range'_succ]
    simp only [I, List.map_cons, List.sum_cons]
    omega

/-! ### `decodeRank` on a canonical code word -/

/-- `count l, count (l+1), …` (`k` entries) -/
def countsFrom (lens : List Nat) (l k : Nat) : List Nat := (List.range' l k).map (cntL lens)

theorem testBit_step (w m : Nat) :
    2 * (w / 2 ^ (m + 1)) + Basic.bit (w.testBit m) = w / 2 ^ m := by
  have := bit_step w m
  unfold Spec.Prefix.bit at this
  rw [← this, Nat.testBit_eq_decide_div_mod_eq]
  unfold Basic.bit
  by_cases h : w / 2 ^ m % 2 = 1 <;> simp [h]

theorem decodeRank_word (lens : List Nat) (w l0 r : Nat) (hw : w = F lens l0 + r)
    (hr : r < cntL lens l0) (rest : Bits) :
    ∀ m l k pos, l + m = l0 → m + 1 ≤ k →
      Spec.Bzip2.decodeRank (countsFrom lens l k) (w / 2 ^ (m + 1)) (F lens l) (I lens l) pos
          (natToBits (m + 1) w ++ rest) = .ok (I lens l0 + r, pos + (m + 1), rest) := by
  intro m
  induction m with
  | zero =>
    intro l k pos hl hk
    obtain ⟨k', rfl⟩ : ∃ k', k = k' + 1 := ⟨k - 1, by omega⟩
    have hl' : l = l0 := by omega
    subst hl'
    simp only [countsFrom, List.range'_succ, List.map_cons, natToBits, List.cons_append,
      List.nil_append, Spec.Bzip2.decodeRank]
    rw [testBit_step, Nat.pow_zero, Nat.div_one]
    rw [if_pos (by omega)]
    congr 3
    omega
  | succ m ih =>
    intro l k pos hl hk
    obtain ⟨k', rfl⟩ : ∃ k', k = k' + 1 := ⟨k - 1, by omega⟩
    have hmono := F_mono lens l m
    rw [show l + m + 1 = l0 by omega] at hmono
    have hge : F lens l + cntL lens l ≤ w / 2 ^ (m + 1) := by
      rw [Nat.le_div_iff_mul_le (Nat.two_pow_pos _), Nat.mul_comm]
      omega
    rw [natToBits]
    simp only [countsFrom, List.range'_succ, List.map_cons, List.cons_append,
      Spec.Bzip2.decodeRank]
    rw [testBit_step]
    rw [if_neg (by omega)]
    have := ih (l + 1) k' (pos + 1) (by omega) (by omega)
    simp only [countsFrom, F, I] at this
    rw [this]
    congr 3
    omega

/-! ### the sorted symbol list -/

/-- symbols of length `l`, in index order -/
def blk (lens : List Nat) (l : Nat) : List Nat :=
  (List.range lens.length).filter (fun s => lens[s]! == l)

theorem blk_length (lens : List Nat) (l : Nat) : (blk lens l).length = cntL lens l := by
  unfold blk cntL
  induction lens with
  | nil => simp
  | cons a t ih =>
    rw [List.length_cons, List.range_succ_eq_map, List.filter_cons, List.filter_map,
      List.count_cons]
    have hcomp : ((fun s => (a :: t)[s]! == l) ∘ Nat.succ) = (fun s => t[s]! == l) := by
      funext s
      simp
    rw [hcomp]
    have h0 : ((a :: t)[0]! == l) = (a == l) := by simp
    rw [h0]
    cases hq : (a == l)
    · simp only [Bool.false_eq_true, if_false, List.length_map, ih]; simp
    · simp only [if_true, List.length_cons, List.length_map, ih]

theorem blk_rank (lens : List Nat) (i : Nat) (hi : i < lens.length) :
    (blk lens lens[i]!)[rankIn lens i]? = some i := by
  unfold blk rankIn
  have hr : List.range lens.length =
      List.range i ++ (i :: List.range' (i + 1) (lens.length - i - 1)) := by
    have := List.range_add (n := i) (m := lens.length - i)
    rw [show i + (lens.length - i) = lens.length by omega] at this
    have h1 : List.range' i (lens.length - i) =
        i :: List.range' (i + 1) (lens.length - i - 1) := by
      obtain ⟨q, hq⟩ : ∃ q, lens.length - i = q + 1 := ⟨lens.length - i - 1, by omega⟩
      rw [hq, List.range'_succ]
      simp
    rw [this, ← List.range'_eq_map_range, h1]
  rw [hr, List.filter_append, List.filter_cons]
  have : (lens[i]! == lens[i]!) = true := by simp
  rw [if_pos this, List.getElem?_append_right (Nat.le_refl _), Nat.sub_self]
  rfl

theorem flat_index (lens : List Nat) (t : Nat) :
    ∀ a k r, t < k → r < (blk lens (a + t)).length →
      ((List.range' a k).flatMap (blk lens))[((List.range' a t).map (cntL lens)).sum + r]? =
        (blk lens (a + t))[r]? := by
  induction t with
  | zero =>
    intro a k r hk hr
    obtain ⟨k', rfl⟩ : ∃ k', k = k' + 1 := ⟨k - 1, by omega⟩
    rw [List.range'_succ, List.flatMap_cons]
    simp only [List.range'_zero, List.map_nil, List.sum_nil, Nat.zero_add, Nat.add_zero] at hr ⊢
    exact List.getElem?_append_left hr
  | succ t ih =>
    intro a k r hk hr
    obtain ⟨k', rfl⟩ : ∃ k', k = k' + 1 := ⟨k - 1, by omega⟩
    rw [List.range'_succ, List.flatMap_cons, List.range'_succ, List.map_cons, List.sum_cons,
      ← blk_length]
    rw [List.getElem?_append_right (by omega)]
    have e : (blk lens a).length + ((List.range' (a + 1) t).map (cntL lens)).sum + r -
        (blk lens a).length = ((List.range' (a + 1) t).map (cntL lens)).sum + r := by omega
    rw [e, ih (a + 1) k' r (by omega) (by rw [show a + 1 + t = a + (t + 1) by omega]; exact hr)]
    rw [show a + 1 + t = a + (t + 1) by omega]

theorem perm_eq (lens : List Nat) :
    (Spec.Bzip2.mkCode lens).perm = ((List.range' 1 20).flatMap (blk lens)).toArray := by
  unfold Spec.Bzip2.mkCode blk
  simp only [Spec.Bzip2.maxLen]
  congr 1
  rw [show (List.range 20).map (· + 1) = List.range' 1 20 by decide]
  apply flatMap_congr_local
  intro l _
  apply List.filter_congr
  intro s _
  simp

theorem counts_eq (lens : List Nat) : (Spec.Bzip2.mkCode lens).counts = countsFrom lens 1 20 := by
  unfold Spec.Bzip2.mkCode countsFrom cntL
  simp only [Spec.Bzip2.maxLen]
  rw [show (List.range 20).map (· + 1) = List.range' 1 20 by decide]

/-- **The bridge.**  For a complete code the reference decoder of
    `Spec.Bzip2` reads the canonical code word of symbol `i` as `i`. -/
theorem decodeSym_canon (lens : List Nat) (hc : Complete lens) (i : Nat) (hi : i < lens.length)
    (pos : Nat) (rest : Bits) :
    Spec.Bzip2.decodeSym (Spec.Bzip2.mkCode lens) pos
        (natToBits lens[i]! (canonCode lens i) ++ rest) = .ok (i, pos + lens[i]!, rest) := by
  have hm := hc.2 _ (getElem!_mem lens i hi)
  have h1 : ∀ x ∈ lens, 1 ≤ x := fun x hx => (hc.2 x hx).1
  obtain ⟨m, hl⟩ : ∃ m, lens[i]! = m + 1 := ⟨lens[i]! - 1, by omega⟩
  have hrank := canonCode_rank lens hc i hi
  have hlt := canonCode_lt lens hc i hi
  have hr : rankIn lens i < cntL lens lens[i]! := by
    have h := blk_rank lens i hi
    rw [← blk_length]
    have := (List.getElem?_eq_some_iff.mp h)
    exact this.1
  have hI1 : I lens 1 = 0 := by simp [I, cntL_zero lens h1]
  have hF1 : F lens 1 = 0 := by simp [F, cntL_zero lens h1]
  have hd := decodeRank_word lens (canonCode lens i) lens[i]! (rankIn lens i) hrank hr rest
    m 1 20 pos (by omega) (by omega)
  rw [← hl, Nat.div_eq_of_lt hlt, hF1, hI1] at hd
  unfold Spec.Bzip2.decodeSym
  rw [counts_eq, hd]
  simp only
  have hIl : I lens lens[i]! = ((List.range' 1 m).map (cntL lens)).sum := by
    rw [hl, show m + 1 = 1 + m by omega, I_add, hI1, Nat.zero_add]
  have hp : (Spec.Bzip2.mkCode lens).perm[I lens lens[i]! + rankIn lens i]? = some i := by
    rw [perm_eq, List.getElem?_toArray, hIl,
      flat_index lens m 1 20 (rankIn lens i) (by omega)
        (by rw [show 1 + m = lens[i]! by omega, blk_length]; exact hr),
      show 1 + m = lens[i]! by omega]
    exact blk_rank lens i hi
  rw [hp]

end LbzVerif.Lemmas.TransmitSym
