/-
  Lemmas.BwtInverseNaive — the rotation-sort BWT of `Model.Compress.naiveBwt`
  satisfies the contract `BwtOK` for EVERY non-empty block:

    `naiveBwt_ok : rb ≠ [] → BwtOK rb (naiveBwt rb).1 (naiveBwt rb).2`

  i.e. the format's inverse BWT (`Spec.Bzip2.ibwt`, the oracle's stage) maps
  the last column of the sorted rotations and the row of rotation 0 back to
  the block, and the last column contains only bytes of the block.

  Steps: the index-level insertion sort of `naiveBwt` (comparator `rotLe` over
  the array with `% n` indexing) sorts the rotations `rotN i T = rotlⁱ T` by
  `key` (`rotLe_iff`, `order_sorted`, `order_perm`); the matrix of sorted
  rotations is a `Matrix` in the sense of Lemmas.BwtInverseLF (closed under
  rotation because `rotr (rotN (i+1) T) = rotN i T` and `rotr T = rotN (n-1) T`);
  its last column and the row of rotation 0 are what `naiveBwt` returns;
  `ibwt_matrix` and the oracle link `bzip2_ibwt_eq` finish.
-/
import LbzVerif.Model.Compress
import LbzVerif.Lemmas.BwtInverseLF
import LbzVerif.Lemmas.SpecStageLinkIbwt

namespace LbzVerif.Lemmas.BwtInverse
open LbzVerif LbzVerif.Model.Compress

/-! ### rotations -/

/-- `rotlⁱ` -/
def rotN : Nat → List UInt8 → List UInt8
  | 0, r => r
  | i + 1, r => rotl (rotN i r)

theorem rotN_eq (T : List UInt8) : ∀ i, i ≤ T.length → rotN i T = T.drop i ++ T.take i := by
  intro i
  induction i with
  | zero => intro _; simp [rotN]
  | succ i ih =>
    intro hi
    have hlt : i < T.length := by omega
    rw [rotN, ih (by omega), List.drop_eq_getElem_cons hlt]
    simp only [List.cons_append, rotl, List.append_assoc]
    rw [List.take_append_getElem hlt]

theorem rotN_length (T : List UInt8) : ∀ i, (rotN i T).length = T.length := by
  intro i
  induction i with
  | zero => rfl
  | succ i ih => rw [rotN, rotl_length, ih]

theorem rotN_full (T : List UInt8) : rotN T.length T = T := by
  rw [rotN_eq T _ (Nat.le_refl _)]; simp

theorem rotN_ne (T : List UInt8) (h : T ≠ []) (i : Nat) : rotN i T ≠ [] := by
  intro h0
  have := rotN_length T i
  rw [h0] at this
  exact h (List.eq_nil_of_length_eq_zero this.symm)

/-- byte `j` of rotation `i` is what `naiveBwt` reads from the array -/
theorem rotN_getD (T : List UInt8) (i j : Nat) (hi : i < T.length) (hj : j < T.length) :
    (rotN i T).getD j 0 = T.toArray.getD ((i + j) % T.length) 0 := by
  rw [rotN_eq T i (by omega)]
  have hA : ∀ p, T.toArray.getD p 0 = T.getD p 0 := by
    intro p; simp [Array.getD_eq_getD_getElem?, List.getD_eq_getElem?_getD]
  rw [hA]
  simp only [List.getD_eq_getElem?_getD]
  by_cases hc : j < T.length - i
  · rw [List.getElem?_append_left (by simp only [List.length_drop]; exact hc),
      List.getElem?_drop, Nat.mod_eq_of_lt (by omega)]
  · rw [List.getElem?_append_right (by simp only [List.length_drop]; omega)]
    simp only [List.length_drop]
    have hm : (i + j) % T.length = i + j - T.length := by
      rw [Nat.mod_eq_sub_mod (by omega), Nat.mod_eq_of_lt (by omega)]
    rw [hm, List.getElem?_take_of_lt (by omega)]
    congr 2
    omega

theorem getLastD_eq_getD (r : List UInt8) (n : Nat) (hn : 1 ≤ n) (h : r.length = n) :
    r.getLastD 0 = r.getD (n - 1) 0 := by
  have hne : r ≠ [] := ne_nil_of_length hn h
  rw [List.getLastD_eq_getLast?, List.getLast?_eq_some_getLast hne, List.getLast_eq_getElem]
  simp [List.getD_eq_getElem?_getD, h, List.getElem?_eq_getElem (show n - 1 < r.length by omega)]

/-! ### the comparator -/

theorem rotLe_lex (T : List UInt8) (i k : Nat) (hi : i < T.length) (hk : k < T.length) :
    ∀ (fuel j : Nat), fuel + j = T.length →
      rotLe T.toArray T.length i k fuel j =
        Spec.Ibwt.lexLe ((rotN i T).drop j) ((rotN k T).drop j) := by
  intro fuel
  induction fuel with
  | zero =>
    intro j hj
    rw [List.drop_of_length_le (by rw [rotN_length]; omega)]
    simp [rotLe, Spec.Ibwt.lexLe]
  | succ fuel ih =>
    intro j hj
    have hjl : j < T.length := by omega
    have h1 : j < (rotN i T).length := by rw [rotN_length]; exact hjl
    have h2 : j < (rotN k T).length := by rw [rotN_length]; exact hjl
    have g1 : (rotN i T)[j] = T.toArray.getD ((i + j) % T.length) 0 := by
      rw [← rotN_getD T i j hi hjl]
      simp [List.getD_eq_getElem?_getD, List.getElem?_eq_getElem h1]
    have g2 : (rotN k T)[j] = T.toArray.getD ((k + j) % T.length) 0 := by
      rw [← rotN_getD T k j hk hjl]
      simp [List.getD_eq_getElem?_getD, List.getElem?_eq_getElem h2]
    rw [List.drop_eq_getElem_cons h1, List.drop_eq_getElem_cons h2]
    simp only [rotLe, Spec.Ibwt.lexLe, g1, g2]
    rw [ih (j + 1) (by omega)]

/-- `rotLe` decides the order of the keys of the two rotations -/
theorem rotLe_iff (T : List UInt8) (i k : Nat) (hi : i < T.length) (hk : k < T.length) :
    rotLe T.toArray T.length i k T.length 0 = true ↔ key (rotN i T) ≤ key (rotN k T) := by
  rw [rotLe_lex T i k hi hk T.length 0 (by omega)]
  simp only [List.drop_zero]
  exact lexLe_iff_key _ _ (by rw [rotN_length, rotN_length])

/-! ### the insertion sort of `naiveBwt` -/

/-- the sorted rotation indices -/
def order (T : List UInt8) : List Nat :=
  (List.range T.length).foldr (insertRot T.toArray T.length) []

theorem insertRot_perm (a : Array UInt8) (n i : Nat) :
    ∀ l : List Nat, (insertRot a n i l).Perm (i :: l) := by
  intro l
  induction l with
  | nil => exact List.Perm.refl _
  | cons k ks ih =>
    simp only [insertRot]
    split
    · exact List.Perm.refl _
    · exact (List.Perm.cons k ih).trans (List.Perm.swap i k ks)

theorem foldr_insertRot_perm (a : Array UInt8) (n : Nat) :
    ∀ l : List Nat, (l.foldr (insertRot a n) []).Perm l := by
  intro l
  induction l with
  | nil => exact List.Perm.refl _
  | cons x xs ih =>
    simp only [List.foldr_cons]
    exact (insertRot_perm a n x _).trans (List.Perm.cons x ih)

theorem order_perm (T : List UInt8) : (order T).Perm (List.range T.length) :=
  foldr_insertRot_perm _ _ _

theorem insertRot_sorted (T : List UInt8) (i : Nat) (hi : i < T.length) :
    ∀ l : List Nat, (∀ k ∈ l, k < T.length) →
      l.Pairwise (fun x y => key (rotN x T) ≤ key (rotN y T)) →
      (insertRot T.toArray T.length i l).Pairwise
        (fun x y => key (rotN x T) ≤ key (rotN y T)) := by
  intro l
  induction l with
  | nil => intro _ _; simp [insertRot]
  | cons k ks ih =>
    intro hl hp
    have hk : k < T.length := hl k (List.mem_cons_self ..)
    rw [List.pairwise_cons] at hp
    simp only [insertRot]
    split
    · rename_i hle
      rw [rotLe_iff T i k hi hk] at hle
      rw [List.pairwise_cons]
      refine ⟨?_, List.pairwise_cons.mpr hp⟩
      intro z hz
      rcases List.mem_cons.mp hz with rfl | hz
      · exact hle
      · exact Nat.le_trans hle (hp.1 z hz)
    · rename_i hle
      rw [rotLe_iff T i k hi hk] at hle
      rw [List.pairwise_cons]
      refine ⟨?_, ih (fun z hz => hl z (List.mem_cons_of_mem _ hz)) hp.2⟩
      intro z hz
      rcases List.mem_cons.mp ((insertRot_perm _ _ i ks).mem_iff.mp hz) with rfl | hz
      · omega
      · exact hp.1 z hz

theorem foldr_insertRot_sorted (T : List UInt8) :
    ∀ l : List Nat, (∀ k ∈ l, k < T.length) →
      (l.foldr (insertRot T.toArray T.length) []).Pairwise
        (fun x y => key (rotN x T) ≤ key (rotN y T)) := by
  intro l
  induction l with
  | nil => intro _; simp
  | cons x xs ih =>
    intro hl
    simp only [List.foldr_cons]
    apply insertRot_sorted T x (hl x (List.mem_cons_self ..))
    · intro k hk
      exact hl k (List.mem_cons_of_mem _ ((foldr_insertRot_perm _ _ xs).mem_iff.mp hk))
    · exact ih (fun k hk => hl k (List.mem_cons_of_mem _ hk))

theorem order_sorted (T : List UInt8) :
    (order T).Pairwise (fun x y => key (rotN x T) ≤ key (rotN y T)) :=
  foldr_insertRot_sorted T _ (fun _ hk => List.mem_range.mp hk)

theorem order_lt (T : List UInt8) : ∀ i ∈ order T, i < T.length :=
  fun _ hi => List.mem_range.mp ((order_perm T).mem_iff.mp hi)

/-! ### the matrix of sorted rotations -/

def rotMatrix (T : List UInt8) : List (List UInt8) := (order T).map (fun i => rotN i T)

/-- the rotation one step to the right, as an index -/
def predIdx (n i : Nat) : Nat := if i = 0 then n - 1 else i - 1

theorem rotr_rotN (T : List UInt8) (hT : T ≠ []) (i : Nat) :
    rotr (rotN i T) = rotN (predIdx T.length i) T := by
  cases i with
  | zero =>
    have hn : T.length = (T.length - 1) + 1 := by
      have : 0 < T.length := List.length_pos_iff.mpr hT
      omega
    simp only [predIdx, if_true]
    conv => lhs; rw [rotN, ← rotN_full T, hn, rotN]
    rw [rotr_rotl _ (rotN_ne T hT _)]
  | succ k =>
    simp only [predIdx, Nat.add_sub_cancel, rotN]
    rw [if_neg (by omega), rotr_rotl _ (rotN_ne T hT _)]

theorem map_predIdx_perm (n : Nat) (hn : 1 ≤ n) :
    ((List.range n).map (predIdx n)).Perm (List.range n) := by
  obtain ⟨m, rfl⟩ : ∃ m, n = m + 1 := ⟨n - 1, by omega⟩
  have h1 : (List.range (m + 1)).map (predIdx (m + 1)) = m :: List.range m := by
    rw [List.range_succ_eq_map, List.map_cons, List.map_map]
    have e0 : predIdx (m + 1) 0 = m := by simp [predIdx]
    have e : (predIdx (m + 1) ∘ Nat.succ) = id := by
      funext i; simp [predIdx]
    rw [e0, e, List.map_id]
  rw [h1, List.range_succ]
  exact (List.perm_append_singleton m (List.range m)).symm

theorem rotMatrix_matrix (T : List UInt8) (hT : T ≠ []) : Matrix (rotMatrix T) T.length := by
  have hn : 1 ≤ T.length := List.length_pos_iff.mpr hT
  refine ⟨hn, ?_, ?_, ?_⟩
  · intro r hr
    obtain ⟨i, _, rfl⟩ := List.mem_map.mp hr
    exact rotN_length T i
  · unfold rotMatrix
    rw [List.pairwise_map]
    exact order_sorted T
  · unfold rotMatrix
    rw [List.map_map]
    have e : (rotr ∘ fun i => rotN i T) = (fun i => rotN i T) ∘ predIdx T.length := by
      funext i; exact rotr_rotN T hT i
    rw [e, ← List.map_map]
    have p1 : ((order T).map (predIdx T.length)).Perm (List.range T.length) :=
      ((order_perm T).map _).trans (map_predIdx_perm T.length hn)
    exact (p1.trans (order_perm T).symm).map _

theorem rotMatrix_length (T : List UInt8) : (rotMatrix T).length = T.length := by
  simp [rotMatrix, (order_perm T).length_eq]

/-- the last column of the matrix is the first component of `naiveBwt` -/
theorem naiveBwt_fst (T : List UInt8) (hT : T ≠ []) : (naiveBwt T).1 = lastCol (rotMatrix T) := by
  have hn : 1 ≤ T.length := List.length_pos_iff.mpr hT
  show (order T).map (fun i => T.toArray.getD ((i + T.toArray.size - 1) % T.toArray.size) 0) = _
  unfold lastCol rotMatrix
  rw [List.map_map]
  apply List.map_congr_left
  intro i hi
  have hil := order_lt T i hi
  simp only [Function.comp, List.size_toArray]
  rw [getLastD_eq_getD _ T.length hn (rotN_length T i), rotN_getD T i _ hil (by omega)]
  congr 2
  omega

theorem naiveBwt_snd (T : List UInt8) : (naiveBwt T).2 = (order T).idxOf 0 := rfl

theorem naiveBwt_row (T : List UInt8) (hT : T ≠ []) :
    (naiveBwt T).2 < (rotMatrix T).length ∧ (rotMatrix T).getD (naiveBwt T).2 [] = T := by
  have hn : 1 ≤ T.length := List.length_pos_iff.mpr hT
  have h0 : 0 ∈ order T := (order_perm T).mem_iff.mpr (List.mem_range.mpr hn)
  have hidx : (order T).idxOf 0 < (order T).length := List.idxOf_lt_length_iff.mpr h0
  rw [naiveBwt_snd]
  constructor
  · simpa [rotMatrix] using hidx
  · unfold rotMatrix
    simp only [List.getD_eq_getElem?_getD, List.getElem?_map, List.getElem?_eq_getElem hidx,
      Option.map_some, Option.getD_some, List.getElem_idxOf hidx]
    rfl

/-- **The reference inverse BWT inverts the rotation-sort BWT** (list level). -/
theorem ibwt_naiveBwt (T : List UInt8) (hT : T ≠ []) :
    Spec.Ibwt.ibwt (naiveBwt T).1 (naiveBwt T).2 = T := by
  obtain ⟨h1, h2⟩ := naiveBwt_row T hT
  rw [naiveBwt_fst T hT,
    ibwt_matrix (rotMatrix_matrix T hT) (rotMatrix_length T) _ h1, h2]

/-- **`BwtOK` for every non-empty block**: the oracle's inverse BWT recovers the
    block from what `naiveBwt` returns, and the last column holds only bytes of
    the block. -/
theorem naiveBwt_ok (T : List UInt8) (hT : T ≠ []) : BwtOK T (naiveBwt T).1 (naiveBwt T).2 := by
  obtain ⟨h1, _⟩ := naiveBwt_row T hT
  have hlen : (naiveBwt T).1.length = T.length := by
    rw [naiveBwt_fst T hT, lastCol_length, rotMatrix_length]
  constructor
  · rw [Lemmas.SpecStageLinkIbwt.bzip2_ibwt_eq]
    simp only [List.size_toArray, hlen]
    rw [rotMatrix_length] at h1
    rw [if_pos h1, ibwt_naiveBwt T hT]
  · intro x hx
    have hn : 1 ≤ T.length := List.length_pos_iff.mpr hT
    have hx' : x ∈ (order T).map
        (fun i => T.toArray.getD ((i + T.toArray.size - 1) % T.toArray.size) 0) := hx
    obtain ⟨i, _, rfl⟩ := List.mem_map.mp hx'
    simp only [List.size_toArray]
    have hlt : (i + T.length - 1) % T.length < T.length := Nat.mod_lt _ (by omega)
    have : T.toArray.getD ((i + T.length - 1) % T.length) 0 = T[(i + T.length - 1) % T.length] := by
      simp [Array.getD_eq_getD_getElem?, hlt]
    rw [this]
    exact List.getElem_mem hlt

end LbzVerif.Lemmas.BwtInverse
