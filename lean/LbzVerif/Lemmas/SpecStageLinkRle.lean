/-
  Lemmas.SpecStageLinkRle — the reference definitions of the final run-length
  decoding and of the derandomisation that exist in three / two places are the
  same functions:

  * `Spec.UnRle1.go` (W12, Model/Emit.lean) = `Spec.decAux` (C04 package,
    Spec/Rle1.lean) — literally the same recursion;
  * `Spec.Bzip2.unRle1Go` (oracle; array accumulator, `Except`) = the above,
    with `none` ↦ `.error .missingCount`;
  * `Spec.Bzip2.derandGo` (oracle; array accumulator, `randTab`) =
    `Spec.Ibwt.derandGo Gen.randTable` (W12);
  * `crc_link`: the CRC `emit()` leaves in `ds->crc` = `Basic.crc32Arr` of the bytes.
-/
import LbzVerif.Spec.Bzip2
import LbzVerif.Spec.Rle1
import LbzVerif.Model.Emit
import LbzVerif.Model.Ibwt

namespace LbzVerif.Lemmas.SpecStageLinkRle

open LbzVerif

/-! ### RLE1 decoding -/

theorem go_eq_decAux : ∀ (xs : List UInt8) (p : UInt8) (k : Nat),
    Spec.UnRle1.go p k xs = Spec.decAux p k xs := by
  intro xs
  induction xs with
  | nil => intro p k; rfl
  | cons b bs ih =>
    intro p k
    simp only [Spec.UnRle1.go, Spec.decAux, ih]

theorem unRle1_eq_rle1 (xs : List UInt8) : Spec.UnRle1.unRle1 xs = Spec.unRle1 xs :=
  go_eq_decAux xs 0 0

theorem pushN_toList {α : Type} (b : α) : ∀ (n : Nat) (acc : Array α),
    (Spec.Bzip2.pushN acc b n).toList = acc.toList ++ List.replicate n b := by
  intro n
  induction n with
  | zero => intro acc; simp [Spec.Bzip2.pushN]
  | succ n ih =>
    intro acc
    simp [Spec.Bzip2.pushN, ih, List.replicate_succ]

/-- What the oracle's result is, in terms of the list-level reference. -/
def ofOpt (acc : Array UInt8) : Option (List UInt8) → Except Spec.Bzip2.Reject (Array UInt8)
  | none => .error .missingCount
  | some out => .ok (acc ++ out.toArray)

theorem unRle1Go_eq : ∀ (bs : List UInt8) (last : UInt8) (cnt : Nat) (acc : Array UInt8),
    Spec.Bzip2.unRle1Go bs last cnt acc = ofOpt acc (Spec.UnRle1.go last cnt bs) := by
  intro bs
  induction bs with
  | nil =>
    intro last cnt acc
    by_cases h : cnt = 4 <;> simp [Spec.Bzip2.unRle1Go, Spec.UnRle1.go, ofOpt, h]
  | cons b bs ih =>
    intro last cnt acc
    simp only [Spec.Bzip2.unRle1Go, Spec.UnRle1.go]
    by_cases h4 : cnt = 4
    · simp only [h4, beq_self_eq_true, if_true, ih]
      cases Spec.UnRle1.go last 0 bs with
      | none => rfl
      | some out =>
        simp only [Option.map_some, ofOpt]
        congr 1
        apply Array.toList_inj.mp
        simp [pushN_toList]
    · have h4' : (cnt == 4) = false := by simpa using h4
      simp only [h4', h4, if_false, Bool.false_eq_true]
      by_cases he : cnt ≠ 0 ∧ b = last
      · have he' : (cnt != 0 && b == last) = true := by simpa using he
        simp only [he', if_true, if_pos he, ih]
        cases Spec.UnRle1.go last (cnt + 1) bs with
        | none => rfl
        | some out =>
          simp only [Option.map_some, ofOpt]
          congr 1
          apply Array.toList_inj.mp
          simp
      · have he' : (cnt != 0 && b == last) = false := by
          cases hb : (cnt != 0 && b == last) with
          | false => rfl
          | true => exact absurd (by simpa using hb) he
        simp only [he', Bool.false_eq_true, if_false, if_neg he, ih]
        cases Spec.UnRle1.go b 1 bs with
        | none => rfl
        | some out =>
          simp only [Option.map_some, ofOpt]
          congr 1
          apply Array.toList_inj.mp
          simp

/-- **The oracle's `unRle1`** is W12's `Spec.UnRle1.unRle1`; its only error is
`missingCount`, exactly when the reference rejects. -/
theorem bzip2_unRle1_eq (bs : Array UInt8) :
    Spec.Bzip2.unRle1 bs =
      match Spec.UnRle1.unRle1 bs.toList with
      | none => .error .missingCount
      | some out => .ok out.toArray := by
  unfold Spec.Bzip2.unRle1 Spec.UnRle1.unRle1
  rw [unRle1Go_eq]
  cases Spec.UnRle1.go 0 0 bs.toList <;> simp [ofOpt]

/-! ### Derandomisation -/

theorem randTab_getD (t : Nat) : Spec.Bzip2.randTab.getD t 0 = Gen.randTable.getD t 0 := by
  simp [Spec.Bzip2.randTab, Array.getD_eq_getD_getElem?, List.getD_eq_getElem?_getD]

theorem derandGo_eq : ∀ (bs : List UInt8) (toGo tpos : Nat) (acc : Array UInt8),
    (Spec.Bzip2.derandGo bs toGo tpos acc).toList =
      acc.toList ++ Spec.Ibwt.derandGo Gen.randTable toGo tpos bs := by
  intro bs
  induction bs with
  | nil => intro toGo tpos acc; simp [Spec.Bzip2.derandGo, Spec.Ibwt.derandGo]
  | cons b bs ih =>
    intro toGo tpos acc
    simp only [Spec.Bzip2.derandGo, Spec.Ibwt.derandGo, ih, randTab_getD]
    by_cases h : toGo = 0
    · simp [h]
    · simp [h]

/-- **The oracle's `derand`** is W12's `Spec.Ibwt.derand` over the generated
table. -/
theorem bzip2_derand_eq (bs : Array UInt8) :
    (Spec.Bzip2.derand bs).toList = Spec.Ibwt.derand Gen.randTable bs.toList := by
  simp [Spec.Bzip2.derand, Spec.Ibwt.derand, derandGo_eq]

/-! ### CRC -/

/-- `emit()`'s final `ds->crc = s ^ 0xFFFFFFFF` over the register started at
`0xFFFFFFFF` is the oracle's block CRC of the same bytes. -/
theorem crc_link (bs : List UInt8) :
    Model.Emit.crcBytes 0xFFFFFFFF bs ^^^ 0xFFFFFFFF = Basic.crc32Arr bs.toArray := by
  have hstep : ∀ (s : UInt32) (b : UInt8), Model.Emit.crcStep s b = Basic.crcStep s b := by
    intro s b; unfold Model.Emit.crcStep Basic.crcStep; rfl
  have h1 : ∀ (s : UInt32) (l : List UInt8), Model.Emit.crcBytes s l = Basic.crcRun s l := by
    intro s l
    unfold Model.Emit.crcBytes Basic.crcRun
    induction l generalizing s with
    | nil => rfl
    | cons b t ih => simp only [List.foldl_cons, hstep]; exact ih _
  have h2 : (0xFFFFFFFF : UInt32) = -1 := by decide
  rw [Basic.crc32Arr_eq, Basic.crc32, h1]
  show Basic.crcRun 0xFFFFFFFF bs ^^^ 0xFFFFFFFF = ~~~ Basic.crcRun 0xFFFFFFFF bs
  rw [h2, UInt32.xor_neg_one]

end LbzVerif.Lemmas.SpecStageLinkRle
