/-
  LbzVerif.Lemmas.SpecBasic — sanity lemmas about the bit layer, the CRC and
  the reference decoder's outer structure.
-/
import LbzVerif.Basic.Bits
import LbzVerif.Basic.Crc
import LbzVerif.Spec.Bzip2

namespace LbzVerif.Basic

/-! ### bits of a byte -/

/-- The eight bits of `n < 256`, MSB first, read back as a number. -/
theorem bitsToNat_byteBits :
    ∀ n, n < 256 →
      bitsToNat [n.testBit 7, n.testBit 6, n.testBit 5, n.testBit 4,
                 n.testBit 3, n.testBit 2, n.testBit 1, n.testBit 0] = n := by
  decide +kernel

theorem bitsToNat_byteToBits (b : UInt8) : bitsToNat (byteToBits b) = b.toNat := by
  unfold byteToBits
  exact bitsToNat_byteBits b.toNat b.toNat_lt

theorem byteToBits_length (b : UInt8) : (byteToBits b).length = 8 := rfl

/-! ### bytes → bits is a plain `flatMap` -/

theorem bytesToBitsAux_eq (acc : Array Bool) (bs : List UInt8) :
    (bytesToBitsAux acc bs).toList = acc.toList ++ bs.flatMap byteToBits := by
  induction bs generalizing acc with
  | nil => simp [bytesToBitsAux]
  | cons b bs ih => simp [bytesToBitsAux, ih, List.append_assoc]

theorem bytesToBits_eq (bs : List UInt8) : bytesToBits bs = bs.flatMap byteToBits := by
  simp [bytesToBits, bytesToBitsAux_eq]

theorem bytesToBits_nil : bytesToBits [] = [] := by simp [bytesToBits_eq]

theorem bytesToBits_cons (b : UInt8) (bs : List UInt8) :
    bytesToBits (b :: bs) = byteToBits b ++ bytesToBits bs := by
  simp [bytesToBits_eq]

theorem bytesToBits_append (a b : List UInt8) :
    bytesToBits (a ++ b) = bytesToBits a ++ bytesToBits b := by
  simp [bytesToBits_eq]

theorem bytesToBits_length (bs : List UInt8) : (bytesToBits bs).length = 8 * bs.length := by
  induction bs with
  | nil => simp [bytesToBits_nil]
  | cons b bs ih => simp [bytesToBits_cons, ih, byteToBits_length]; omega

/-! ### round trip bytes → bits → bytes -/

theorem bitsToBytes_byteToBits_append (b : UInt8) (rest : Bits) :
    bitsToBytes (byteToBits b ++ rest) = b :: bitsToBytes rest := by
  have h := bitsToNat_byteToBits b
  unfold byteToBits at h ⊢
  simp only [List.cons_append, List.nil_append, bitsToBytes]
  rw [h]
  simp

/-- Packing the bits of a byte string gives the byte string back. -/
theorem bitsToBytes_bytesToBits (bs : List UInt8) : bitsToBytes (bytesToBits bs) = bs := by
  induction bs with
  | nil => simp [bytesToBits_nil, bitsToBytes]
  | cons b bs ih => rw [bytesToBits_cons, bitsToBytes_byteToBits_append, ih]

/-- `bytesToBits` is injective. -/
theorem bytesToBits_injective {a b : List UInt8} (h : bytesToBits a = bytesToBits b) : a = b := by
  rw [← bitsToBytes_bytesToBits a, ← bitsToBytes_bytesToBits b, h]

/-! ### fixed-width fields -/

theorem takeNatAux_length {n acc : Nat} {bs rest : Bits} {v : Nat}
    (h : takeNatAux n acc bs = some (v, rest)) : bs.length = n + rest.length := by
  induction n generalizing acc bs with
  | zero => simp [takeNatAux] at h; simp [h.2]
  | succ n ih =>
    cases bs with
    | nil => simp [takeNatAux] at h
    | cons b bs =>
      simp only [takeNatAux] at h
      have := ih h
      simp [this]; omega

/-- A successful `takeNat n` consumes exactly `n` bits. -/
theorem takeNat_length {n : Nat} {bs rest : Bits} {v : Nat}
    (h : takeNat n bs = some (v, rest)) : bs.length = n + rest.length :=
  takeNatAux_length h

theorem takeNatAux_append (n acc : Nat) (w rest : Bits) (hw : w.length = n) :
    takeNatAux n acc (w ++ rest) = some (bitsToNatAux acc w, rest) := by
  induction n generalizing acc w with
  | zero =>
    have : w = [] := List.eq_nil_of_length_eq_zero hw
    subst this; simp [takeNatAux, bitsToNatAux]
  | succ n ih =>
    cases w with
    | nil => simp at hw
    | cons b w =>
      simp only [List.cons_append, takeNatAux, bitsToNatAux]
      exact ih _ _ (by simpa using hw)

/-- Reading an `n`-bit field off a stream that starts with the `n` bits `w`. -/
theorem takeNat_append (w rest : Bits) :
    takeNat w.length (w ++ rest) = some (bitsToNat w, rest) :=
  takeNatAux_append _ _ _ _ rfl

theorem takeNat_none_iff_short (n : Nat) (bs : Bits) :
    takeNat n bs = none ↔ bs.length < n := by
  unfold takeNat
  generalize 0 = acc
  induction n generalizing acc bs with
  | zero => simp [takeNatAux]
  | succ n ih =>
    cases bs with
    | nil => simp [takeNatAux]
    | cons b bs => simp [takeNatAux, ih]

theorem natToBits_length (n v : Nat) : (natToBits n v).length = n := by
  induction n with
  | zero => rfl
  | succ n ih => simp [natToBits, ih]

theorem bitsToNatAux_natToBits (n v acc : Nat) :
    bitsToNatAux acc (natToBits n v) = acc * 2 ^ n + v % 2 ^ n := by
  induction n generalizing acc with
  | zero => simp [natToBits, bitsToNatAux, Nat.mod_one]
  | succ n ih =>
    simp only [natToBits, bitsToNatAux, ih]
    have hb : bit (v.testBit n) = v / 2 ^ n % 2 := by
      unfold bit
      rw [Nat.testBit_eq_decide_div_mod_eq]
      by_cases h : v / 2 ^ n % 2 = 1
      · simp [h]
      · simp [h]; omega
    rw [Nat.mod_pow_succ, hb, Nat.pow_succ]
    generalize v / 2 ^ n % 2 = t
    generalize v % 2 ^ n = r
    generalize 2 ^ n = p
    grind

/-- Field round trip: writing `v` in `n` bits and reading `n` bits back. -/
theorem takeNat_natToBits (n v : Nat) (rest : Bits) :
    takeNat n (natToBits n v ++ rest) = some (v % 2 ^ n, rest) := by
  have h := takeNat_append (natToBits n v) rest
  rw [natToBits_length] at h
  rw [h, bitsToNat, bitsToNatAux_natToBits]
  simp

/-! ### CRC -/

/-- The CRC register after `a ++ b` is the register after `b` started from the
    register after `a` (so block CRCs can be computed piecewise). -/
theorem crc32_append (a b : List UInt8) :
    crc32 (a ++ b) = ~~~ (crcRun (crcRun crcInit a) b) := by
  simp [crc32, crcRun_append]

theorem crc32_nil : crc32 [] = 0 := by
  simp only [crc32, crcRun, crcInit, List.foldl_nil]
  decide +kernel

theorem combineAll_append (a b : List UInt32) :
    combineAll (a ++ b) = b.foldl combine (combineAll a) := by
  simp [combineAll, List.foldl_append]

end LbzVerif.Basic

namespace LbzVerif.Spec.Bzip2

open LbzVerif.Basic

/-! ### outer structure of the reference decoder

`decodeFile` and `inspect` are total by construction: they are ordinary Lean
definitions accepted by the termination checker (structural recursion only;
nothing opaque to the kernel, no escape hatches), so every
byte string gets exactly one verdict.  The lemmas below pin down the first
steps of that verdict. -/

theorem decodeFile_empty : decodeFile [] = .error .empty := rfl

/-- `bz2.compress(b"hello", 9)` as written by libbz2 1.0.8. -/
def helloBz2 : List UInt8 := [66, 90, 104, 57, 49, 65, 89, 38, 83, 89, 25, 49, 101, 61, 0, 0, 0, 129, 0, 2, 68, 160, 0, 33, 154, 104, 51, 77, 7, 51, 139, 185, 34, 156, 40, 72, 12, 152, 178, 158, 128]

/-- The oracle evaluated by the kernel on a real file (non-vacuity witness for
    statements of the form `decodeFile x = .ok y → …`; about ten seconds). -/
theorem decodeFile_helloBz2 : decodeFile helloBz2 = .ok [104, 101, 108, 108, 111] := by
  decide +kernel

/-- `headerLevel` recognises exactly "BZh1"…"BZh9". -/
theorem headerLevel_some_iff (w l : Nat) :
    headerLevel w = some l ↔ (0x425A6831 ≤ w ∧ w ≤ 0x425A6839 ∧ l = w - 0x425A6830) := by
  unfold headerLevel
  split <;> rename_i h
  · rw [Option.some.injEq]
    constructor
    · intro e; exact ⟨h.1, h.2, e.symm⟩
    · intro e; exact e.2.2.symm
  · constructor
    · intro e; exact absurd e (by simp)
    · intro e; exact absurd ⟨e.1, e.2.1⟩ h

theorem headerLevel_range {w l : Nat} (h : headerLevel w = some l) : 1 ≤ l ∧ l ≤ 9 := by
  rw [headerLevel_some_iff] at h
  omega

/-- Delta-coded lengths stay in 1…20: whatever `readLen` returns from a start
    value in range is in range. -/
theorem readLen_range {cur pos : Nat} {bits : Bits} {len pos' : Nat} {rest : Bits}
    (hc : 1 ≤ cur ∧ cur ≤ maxLen) (h : readLen cur pos bits = .ok (len, pos', rest)) :
    1 ≤ len ∧ len ≤ maxLen := by
  fun_induction readLen cur pos bits with
  | case1 => cases h
  | case2 cur pos bits => cases h; exact hc
  | case3 => cases h
  | case4 cur pos bits hlt ih =>
    exact ih ⟨by omega, hlt⟩ h
  | case5 cur pos bits hnot => cases h
  | case6 cur pos bits hge ih =>
    exact ih ⟨by omega, by omega⟩ h
  | case7 cur pos bits hnot => cases h

/-- `readLen` consumes at least one bit and reports the position accordingly. -/
theorem readLen_pos {cur pos : Nat} {bits : Bits} {len pos' : Nat} {rest : Bits}
    (h : readLen cur pos bits = .ok (len, pos', rest)) :
    bits.length = rest.length + (pos' - pos) ∧ pos < pos' := by
  fun_induction readLen cur pos bits with
  | case1 => cases h
  | case2 cur pos bits => cases h; simp
  | case3 => cases h
  | case4 cur pos bits hlt ih =>
    have := ih h
    simp only [List.length_cons]; omega
  | case5 cur pos bits hnot => cases h
  | case6 cur pos bits hge ih =>
    have := ih h
    simp only [List.length_cons]; omega
  | case7 cur pos bits hnot => cases h

/-- A selector's MTF index is below the number of tables. -/
theorem readUnary_lt {nGroups k : Nat} {bits : Bits} {j : Nat} {rest : Bits}
    (hk : k < nGroups) (h : readUnary nGroups k bits = .ok (j, rest)) : j < nGroups := by
  fun_induction readUnary nGroups k bits with
  | case1 => cases h
  | case2 k bits => cases h; exact hk
  | case3 k bits hlt ih => exact ih hlt h
  | case4 k bits hnot => cases h

/-! ### the fuel of the two outer loops is sufficient

Every reader returns a suffix that is no longer than its input, and none of
them produces the artificial reason `Reject.fuel`; a block consumes at least
48 bits and a stream at least 80, so `bytes + 1` units of fuel can never run
out: `walkFile_ne_fuel`, `decodeFile_ne_fuel`, `inspect_ne_fuel`. -/

theorem readUnary_ok {g k : Nat} {bits : Bits} :
    (∀ e, readUnary g k bits = .error e → e ≠ .fuel) ∧
    (∀ j rest, readUnary g k bits = .ok (j, rest) → rest.length ≤ bits.length) := by
  fun_induction readUnary g k bits with
  | case1 => simp
  | case2 k bits => simp
  | case3 k bits h ih =>
    exact ⟨ih.1, fun j rest hh => by have := ih.2 j rest hh; simp only [List.length_cons]; omega⟩
  | case4 => simp

theorem readSelectorMtf_ok {g n pos : Nat} {bits : Bits} {acc : Array Nat} :
    (∀ e, readSelectorMtf g n pos bits acc = .error e → e ≠ .fuel) ∧
    (∀ a p rest, readSelectorMtf g n pos bits acc = .ok (a, p, rest) → rest.length ≤ bits.length) := by
  fun_induction readSelectorMtf g n pos bits acc with
  | case1 => simp
  | case2 n pos bits acc e h =>
    have := (@readUnary_ok g 0 bits).1 e h
    simp [this]
  | case3 n pos bits acc j bits' h ih =>
    have := (@readUnary_ok g 0 bits).2 _ _ h
    exact ⟨ih.1, fun a p rest hh => by have := ih.2 a p rest hh; omega⟩

theorem readLen_ok {cur pos : Nat} {bits : Bits} :
    (∀ e, readLen cur pos bits = .error e → e ≠ .fuel) ∧
    (∀ l p rest, readLen cur pos bits = .ok (l, p, rest) → rest.length ≤ bits.length) := by
  refine ⟨?_, fun l p rest h => by have := (readLen_pos h).1; omega⟩
  fun_induction readLen cur pos bits <;> simp_all

theorem readLens_ok {n cur pos : Nat} {bits : Bits} {acc : Array Nat} :
    (∀ e, readLens n cur pos bits acc = .error e → e ≠ .fuel) ∧
    (∀ a p rest, readLens n cur pos bits acc = .ok (a, p, rest) → rest.length ≤ bits.length) := by
  fun_induction readLens n cur pos bits acc with
  | case1 => simp
  | case2 n cur pos bits acc e h =>
    have := (@readLen_ok cur pos bits).1 e h
    simp [this]
  | case3 n cur pos bits acc l p bits' h ih =>
    have := (@readLen_ok cur pos bits).2 _ _ _ h
    exact ⟨ih.1, fun a p rest hh => by have := ih.2 a p rest hh; omega⟩

theorem readTable_ok {a pos : Nat} {bits : Bits} :
    (∀ e, readTable a pos bits = .error e → e ≠ .fuel) ∧
    (∀ t p rest, readTable a pos bits = .ok (t, p, rest) → rest.length ≤ bits.length) := by
  unfold readTable
  split
  · simp
  · rename_i start bits' h
    have hl := takeNat_length h
    split
    · split
      · rename_i e he
        have := (@readLens_ok a start (pos+5) bits' _).1 e he
        simp [this]
      · rename_i lens p r he
        have := (@readLens_ok a start (pos+5) bits' _).2 _ _ _ he
        simp only [Except.ok.injEq, Prod.mk.injEq, reduceCtorEq, false_implies, implies_true, true_and]
        intro t p' rest ⟨_, _, h3⟩
        subst h3; omega
    · simp

theorem readTables_ok {a n pos : Nat} {bits : Bits} {acc : Array (List Nat)} :
    (∀ e, readTables a n pos bits acc = .error e → e ≠ .fuel) ∧
    (∀ t p rest, readTables a n pos bits acc = .ok (t, p, rest) → rest.length ≤ bits.length) := by
  fun_induction readTables a n pos bits acc with
  | case1 => simp
  | case2 n pos bits acc e h =>
    have := (@readTable_ok a pos bits).1 e h
    simp [this]
  | case3 n pos bits acc t p bits' h ih =>
    have := (@readTable_ok a pos bits).2 _ _ _ h
    exact ⟨ih.1, fun a p rest hh => by have := ih.2 a p rest hh; omega⟩

theorem readBitmapRows_len {big : Nat} {rows : List Nat} {pos : Nat} {bits : Bits}
    {u : List UInt8} {p : Nat} {rest : Bits}
    (h : readBitmapRows big rows pos bits = some (u, p, rest)) : rest.length ≤ bits.length := by
  fun_induction readBitmapRows big rows pos bits generalizing u p rest with
  | case1 => simp at h; obtain ⟨_, _, h3⟩ := h; subst h3; exact Nat.le_refl _
  | case2 i rows pos bits hb hn => simp at h
  | case3 i rows pos bits hb small bits' ht hn => simp at h
  | case4 i rows pos bits hb small bits' ht u' p' r' hr ih =>
    simp only [Option.some.injEq, Prod.mk.injEq] at h
    have := ih hr
    have := takeNat_length ht
    obtain ⟨_, _, h3⟩ := h
    subst h3; omega
  | case5 i rows pos bits hb ih => exact ih h

theorem decodeRank_ok {counts : List Nat} {code first index pos : Nat} {bits : Bits} :
    (∀ e, decodeRank counts code first index pos bits = .error e → e ≠ .fuel) ∧
    (∀ r p rest, decodeRank counts code first index pos bits = .ok (r, p, rest) →
      rest.length ≤ bits.length) := by
  fun_induction decodeRank counts code first index pos bits with
  | case1 => simp
  | case2 => simp
  | case3 c counts code first index pos b bits code' h => simp
  | case4 c counts code first index pos b bits code' h ih =>
    exact ⟨ih.1, fun r p rest hh => by have := ih.2 r p rest hh; simp only [List.length_cons]; omega⟩

theorem decodeSym_ok {c : Code} {pos : Nat} {bits : Bits} :
    (∀ e, decodeSym c pos bits = .error e → e ≠ .fuel) ∧
    (∀ s p rest, decodeSym c pos bits = .ok (s, p, rest) → rest.length ≤ bits.length) := by
  unfold decodeSym
  split
  · rename_i e he
    have := (@decodeRank_ok c.counts 0 0 0 pos bits).1 e he
    simp [this]
  · rename_i r p rest he
    have := (@decodeRank_ok c.counts 0 0 0 pos bits).2 _ _ _ he
    split
    · simp
    · simp only [Except.ok.injEq, Prod.mk.injEq, reduceCtorEq, false_implies, implies_true, true_and]
      intro s p' rest' ⟨_, _, h3⟩
      subst h3; omega

theorem decodeGroup_ok {c : Code} {eob k pos : Nat} {bits : Bits} {acc : Array Nat} :
    (∀ e, decodeGroup c eob k pos bits acc = .error e → e ≠ .fuel) ∧
    (∀ d p rest a, decodeGroup c eob k pos bits acc = .ok (d, p, rest, a) →
      rest.length ≤ bits.length) := by
  fun_induction decodeGroup c eob k pos bits acc with
  | case1 => simp
  | case2 k pos bits acc e h =>
    have := (@decodeSym_ok c pos bits).1 e h
    simp [this]
  | case3 k pos bits acc s p bits' h heq =>
    have := (@decodeSym_ok c pos bits).2 _ _ _ h
    simp only [Except.ok.injEq, Prod.mk.injEq, reduceCtorEq, false_implies, implies_true, true_and]
    intro d p' rest a ⟨_, _, h3, _⟩
    subst h3; omega
  | case4 k pos bits acc s p bits' h hne ih =>
    have := (@decodeSym_ok c pos bits).2 _ _ _ h
    exact ⟨ih.1, fun d p rest a hh => by have := ih.2 d p rest a hh; omega⟩

theorem decodeGroups_ok {codes : Array Code} {eob : Nat} {sels : List Nat} {nUsed pos : Nat}
    {bits : Bits} {acc : Array Nat} :
    (∀ e, decodeGroups codes eob sels nUsed pos bits acc = .error e → e ≠ .fuel) ∧
    (∀ n p rest a, decodeGroups codes eob sels nUsed pos bits acc = .ok (n, p, rest, a) →
      rest.length ≤ bits.length) := by
  fun_induction decodeGroups codes eob sels nUsed pos bits acc with
  | case1 => simp
  | case2 => simp
  | case3 => simp
  | case4 s sels nUsed pos bits acc c hc hcomp e h =>
    have := (@decodeGroup_ok c eob groupSize pos bits acc).1 e h
    simp [this]
  | case5 s sels nUsed pos bits acc c hc hcomp p bits' acc' h =>
    have := (@decodeGroup_ok c eob groupSize pos bits acc).2 _ _ _ _ h
    simp only [Except.ok.injEq, Prod.mk.injEq, reduceCtorEq, false_implies, implies_true, true_and]
    intro n p' rest a ⟨_, _, h3, _⟩
    subst h3; omega
  | case6 s sels nUsed pos bits acc c hc hcomp p bits' acc' h ih =>
    have := (@decodeGroup_ok c eob groupSize pos bits acc).2 _ _ _ _ h
    exact ⟨ih.1, fun n p rest a hh => by have := ih.2 n p rest a hh; omega⟩

theorem parseBlock_ok {level start : Nat} {bits : Bits} :
    (∀ e, parseBlock level start bits = .error e → e ≠ .fuel) ∧
    (∀ b rest, parseBlock level start bits = .ok (b, rest) → rest.length ≤ bits.length) := by
  unfold parseBlock
  split
  · simp
  rename_i crc bits1 h1
  have l1 := takeNat_length h1
  split
  · simp
  rename_i rnd bits2 h2
  have l2 := takeNat_length h2
  split
  · simp
  rename_i op bits3 h3
  have l3 := takeNat_length h3
  split
  · simp
  rename_i big bits4 h4
  have l4 := takeNat_length h4
  split
  · simp
  rename_i used pos5 bits5 h5
  have l5 := readBitmapRows_len h5
  split
  · simp
  split
  · simp
  rename_i ng bits6 h6
  have l6 := takeNat_length h6
  split
  · simp
  split
  · simp
  rename_i ns bits7 h7
  have l7 := takeNat_length h7
  split
  · simp
  split
  · rename_i e he
    have := (@readSelectorMtf_ok ng ns (pos5 + 18) bits7 _).1 e he
    simp [this]
  rename_i selMtf pos8 bits8 h8
  have l8 := (@readSelectorMtf_ok ng ns (pos5 + 18) bits7 _).2 _ _ _ h8
  split
  · simp
  rename_i selectors h9
  dsimp only
  split
  · rename_i e he
    have := (@readTables_ok _ ng pos8 bits8 _).1 e he
    simp [this]
  rename_i tables pos10 bits10 h10
  have l10 := (@readTables_ok _ ng pos8 bits8 _).2 _ _ _ h10
  split
  · rename_i e he
    have := (@decodeGroups_ok _ _ _ 0 pos10 bits10 _).1 e he
    simp [this]
  rename_i nUsed pos11 bits11 syms h11
  have l11 := (@decodeGroups_ok _ _ _ 0 pos10 bits10 _).2 _ _ _ _ h11
  simp only [Except.ok.injEq, Prod.mk.injEq, reduceCtorEq, false_implies, implies_true, true_and]
  intro b rest ⟨_, hr⟩
  subst hr; omega

theorem unMtfRle2Go_ne_fuel {cap : Nat} {syms : List Nat} {mtf : List UInt8} {run weight : Nat}
    {out : Array UInt8} : unMtfRle2Go cap syms mtf run weight out ≠ .error .fuel := by
  fun_induction unMtfRle2Go cap syms mtf run weight out <;> simp_all

theorem unRle1Go_ne_fuel {bs : List UInt8} {last : UInt8} {cnt : Nat} {acc : Array UInt8} :
    unRle1Go bs last cnt acc ≠ .error .fuel := by
  fun_induction unRle1Go bs last cnt acc <;> simp_all

theorem decodeBlock_ne_fuel {b : Block} : decodeBlock b ≠ .error .fuel := by
  unfold decodeBlock unMtfRle2 unRle1
  split
  · rename_i e he
    intro h
    simp only [Except.error.injEq] at h
    subst h
    exact unMtfRle2Go_ne_fuel he
  · split
    · simp
    · split
      · simp
      · split
        · rename_i e he
          intro h
          simp only [Except.error.injEq] at h
          subst h
          exact unRle1Go_ne_fuel he
        · split <;> simp

theorem strictBlockCheck_ne_fuel {b : Block} : strictBlockCheck b ≠ .error .fuel := by
  unfold strictBlockCheck
  split
  · simp
  · split
    · simp
    · split <;> simp

/-- The block loop never runs out of fuel when it has one unit per 48 bits, and
    it never hands back more bits than it was given. -/
theorem decodeBlocks_ok {strict : Bool} {level fuel pos : Nat} {bits : Bits} {cc : UInt32}
    {out : Array UInt8} {reps : Array BlockReport} (hf : bits.length < 48 * fuel) :
    decodeBlocks strict level fuel pos bits cc out reps ≠ .error .fuel ∧
    (∀ p rest s o r, decodeBlocks strict level fuel pos bits cc out reps = .ok (p, rest, s, o, r) →
      rest.length + 80 ≤ bits.length) := by
  fun_induction decodeBlocks strict level fuel pos bits cc out reps with
  | case1 => omega
  | case2 => simp
  | case3 =>
    rename_i e he _
    have := (parseBlock_ok).1 e he
    simp [this]
  | case4 =>
    rename_i e he _
    refine ⟨?_, by simp⟩
    intro h
    simp only [Except.error.injEq] at h
    subst h
    cases strict
    · simp at he
    · exact strictBlockCheck_ne_fuel he
  | case5 =>
    rename_i e he _
    refine ⟨?_, by simp⟩
    intro h
    simp only [Except.error.injEq] at h
    subst h
    exact decodeBlock_ne_fuel he
  | case6 =>
    rename_i hb _ _ _ _ h1 ih
    have l1 := takeNat_length h1
    have l2 := (parseBlock_ok).2 _ _ hb
    have := ih (by omega)
    exact ⟨this.1, fun p rest s o r hh => by have := this.2 p rest s o r hh; omega⟩
  | case7 => simp
  | case8 =>
    rename_i h1 _ h2
    have l1 := takeNat_length h1
    have l2 := takeNat_length h2
    simp only [ne_eq, reduceCtorEq, not_false_eq_true, Except.ok.injEq, Prod.mk.injEq, true_and]
    intro p rest s o r ⟨_, hr, _⟩
    subst hr; omega
  | case9 => simp
  | case10 => simp

/-- The stream loop never runs out of fuel either. -/
theorem decodeStreams_ne_fuel {strict : Bool} {fuel innerFuel level start : Nat} {bits : Bits}
    {acc : Acc} (hf : bits.length < 80 * fuel) (hi : bits.length < 48 * innerFuel) :
    decodeStreams strict fuel innerFuel level start bits acc ≠ .error .fuel := by
  fun_induction decodeStreams strict fuel innerFuel level start bits acc with
  | case1 => omega
  | case2 =>
    rename_i e he
    intro h
    simp only [Except.error.injEq] at h
    subst h
    exact (decodeBlocks_ok hi).1 he
  | case3 => simp
  | case4 => simp
  | case5 => simp
  | case6 => simp
  | case7 =>
    rename_i bits0 _ _ _ hb pad bits1 _ _ _ w rest ht _ _ ih
    have l1 := (decodeBlocks_ok hi).2 _ _ _ _ _ hb
    have l2 := takeNat_length ht
    have l3 : bits1.length ≤ bits0.length := by simp only [bits1, List.length_drop]; exact Nat.sub_le _ _
    exact ih (by omega) (by omega)

/-- **Fuel is sufficient**: the reference decoder / inspector never answers with
    the artificial reason `fuel`; every rejection is a genuine format reason. -/
theorem walkFile_ne_fuel (strict : Bool) (data : List UInt8) :
    walkFile strict data ≠ .error .fuel := by
  unfold walkFile
  split
  · simp
  · dsimp only
    split
    · simp
    · rename_i w bits ht
      have l := takeNat_length ht
      rw [bytesToBits_length] at l
      split
      · simp
      · exact decodeStreams_ne_fuel (by omega) (by omega)

theorem decodeFile_ne_fuel (data : List UInt8) : decodeFile data ≠ .error .fuel := by
  unfold decodeFile
  have := walkFile_ne_fuel false data
  split
  · rename_i e he
    intro h
    simp only [Except.error.injEq] at h
    subst h
    exact this he
  · simp

theorem inspect_ne_fuel (data : List UInt8) : inspect data ≠ .error .fuel := by
  unfold inspect
  have := walkFile_ne_fuel true data
  split
  · rename_i e he
    intro h
    simp only [Except.error.injEq] at h
    subst h
    exact this he
  · simp
end LbzVerif.Spec.Bzip2
