/-
  LbzVerif.Lemmas.SpecBasic — sanity lemmas about the bit layer, the CRC and
  the reference decoder's outer structure.
-/
import LbzVerif.Basic.Bits
import LbzVerif.Basic.Crc
import LbzVerif.Spec.Bzip2

namespace LbzVerif.Basic

/-! ### bits of a byte -/

/-- The eight bits of `n < 256`, MSB first, read back as a number. -/
theorem bitsToNat_byteBits :
    ∀ n, n < 256 →
      bitsToNat [n.testBit 7, n.testBit 6, n.testBit 5, n.testBit 4,
                 n.testBit 3, n.testBit 2, n.testBit 1, n.testBit 0] = n := by
  decide +kernel

theorem bitsToNat_byteToBits (b : UInt8) : bitsToNat (byteToBits b) = b.toNat := by
  unfold byteToBits
  exact bitsToNat_byteBits b.toNat b.toNat_lt

theorem byteToBits_length (b : UInt8) : (byteToBits b).length = 8 := rfl

/-! ### bytes → bits is a plain `flatMap` -/

theorem bytesToBitsAux_eq (acc : Array Bool) (bs : List UInt8) :
    (bytesToBitsAux acc bs).toList = acc.toList ++ bs.flatMap byteToBits := by
  induction bs generalizing acc with
  | nil => simp [bytesToBitsAux]
  | cons b bs ih => simp [bytesToBitsAux, ih, List.append_assoc]

theorem bytesToBits_eq (bs : List UInt8) : bytesToBits bs = bs.flatMap byteToBits := by
  simp [bytesToBits, bytesToBitsAux_eq]

theorem bytesToBits_nil : bytesToBits [] = [] := by simp [bytesToBits_eq]

theorem bytesToBits_cons (b : UInt8) (bs : List UInt8) :
    bytesToBits (b :: bs) = byteToBits b ++ bytesToBits bs := by
  simp [bytesToBits_eq]

theorem bytesToBits_append (a b : List UInt8) :
    bytesToBits (a ++ b) = bytesToBits a ++ bytesToBits b := by
  simp [bytesToBits_eq]

theorem bytesToBits_length (bs : List UInt8) : (bytesToBits bs).length = 8 * bs.length := by
  induction bs with
  | nil => simp [bytesToBits_nil]
  | cons b bs ih => simp [bytesToBits_cons, ih, byteToBits_length]; omega

/-! ### round trip bytes → bits → bytes -/

theorem bitsToBytes_byteToBits_append (b : UInt8) (rest : Bits) :
    bitsToBytes (byteToBits b ++ rest) = b :: bitsToBytes rest := by
  have h := bitsToNat_byteToBits b
  unfold byteToBits at h ⊢
  simp only [List.cons_append, List.nil_append, bitsToBytes]
  rw [h]
  simp

/-- Packing the bits of a byte string gives the byte string back. -/
theorem bitsToBytes_bytesToBits (bs : List UInt8) : bitsToBytes (bytesToBits bs) = bs := by
  induction bs with
  | nil => simp [bytesToBits_nil, bitsToBytes]
  | cons b bs ih => rw [bytesToBits_cons, bitsToBytes_byteToBits_append, ih]

/-- `bytesToBits` is injective. -/
theorem bytesToBits_injective {a b : List UInt8} (h : bytesToBits a = bytesToBits b) : a = b := by
  rw [← bitsToBytes_bytesToBits a, ← bitsToBytes_bytesToBits b, h]

/-! ### fixed-width fields -/

theorem takeNatAux_length {n acc : Nat} {bs rest : Bits} {v : Nat}
    (h : takeNatAux n acc bs = some (v, rest)) : bs.length = n + rest.length := by
  induction n generalizing acc bs with
  | zero => simp [takeNatAux] at h; simp [h.2]
  | succ n ih =>
    cases bs with
    | nil => simp [takeNatAux] at h
    | cons b bs =>
      simp only [takeNatAux] at h
      have := ih h
      simp [this]; omega

/-- A successful `takeNat n` consumes exactly `n` bits. -/
theorem takeNat_length {n : Nat} {bs rest : Bits} {v : Nat}
    (h : takeNat n bs = some (v, rest)) : bs.length = n + rest.length :=
  takeNatAux_length h

theorem takeNatAux_append (n acc : Nat) (w rest : Bits) (hw : w.length = n) :
    takeNatAux n acc (w ++ rest) = some (bitsToNatAux acc w, rest) := by
  induction n generalizing acc w with
  | zero =>
    have : w = [] := List.eq_nil_of_length_eq_zero hw
    subst this; simp [takeNatAux, bitsToNatAux]
  | succ n ih =>
    cases w with
    | nil => simp at hw
    | cons b w =>
      simp only [List.cons_append, takeNatAux, bitsToNatAux]
      exact ih _ _ (by simpa using hw)

/-- Reading an `n`-bit field off a stream that starts with the `n` bits `w`. -/
theorem takeNat_append (w rest : Bits) :
    takeNat w.length (w ++ rest) = some (bitsToNat w, rest) :=
  takeNatAux_append _ _ _ _ rfl

theorem takeNat_none_iff_short (n : Nat) (bs : Bits) :
    takeNat n bs = none ↔ bs.length < n := by
  unfold takeNat
  generalize 0 = acc
  induction n generalizing acc bs with
  | zero => simp [takeNatAux]
  | succ n ih =>
    cases bs with
    | nil => simp [takeNatAux]
    | cons b bs => simp [takeNatAux, ih]

theorem natToBits_length (n v : Nat) : (natToBits n v).length = n := by
  induction n with
  | zero => rfl
  | succ n ih => simp [natToBits, ih]

theorem bitsToNatAux_natToBits (n v acc : Nat) :
    bitsToNatAux acc (natToBits n v) = acc * 2 ^ n + v % 2 ^ n := by
  induction n generalizing acc with
  | zero => simp [natToBits, bitsToNatAux, Nat.mod_one]
  | succ n ih =>
    simp only [natToBits, bitsToNatAux, ih]
    have hb : bit (v.testBit n) = v / 2 ^ n % 2 := by
      unfold bit
      rw [Nat.testBit_eq_decide_div_mod_eq]
      by_cases h : v / 2 ^ n % 2 = 1
      · simp [h]
      · simp [h]; omega
    rw [Nat.mod_pow_succ, hb, Nat.pow_succ]
    generalize v / 2 ^ n % 2 = t
    generalize v % 2 ^ n = r
    generalize 2 ^ n = p
    grind

/-- Field round trip: writing `v` in `n` bits and reading `n` bits back. -/
theorem takeNat_natToBits (n v : Nat) (rest : Bits) :
    takeNat n (natToBits n v ++ rest) = some (v % 2 ^ n, rest) := by
  have h := takeNat_append (natToBits n v) rest
  rw [natToBits_length] at h
  rw [h, bitsToNat, bitsToNatAux_natToBits]
  simp

/-! ### CRC -/

/-- The CRC register after `a ++ b` is the register after `b` started from the
    register after `a` (so block CRCs can be computed piecewise). -/
theorem crc32_append (a b : List UInt8) :
    crc32 (a ++ b) = ~~~ (crcRun (crcRun crcInit a) b) := by
  simp [crc32, crcRun_append]

theorem crc32_nil : crc32 [] = 0 := by
  simp only [crc32, crcRun, crcInit, List.foldl_nil]
  decide +kernel

theorem combineAll_append (a b : List UInt32) :
    combineAll (a ++ b) = b.foldl combine (combineAll a) := by
  simp [combineAll, List.foldl_append]

end LbzVerif.Basic

namespace LbzVerif.Spec.Bzip2

open LbzVerif.Basic

/-! ### outer structure of the reference decoder

`decodeFile` and `inspect` are total by construction: they are ordinary Lean
definitions accepted by the termination checker (structural recursion only;
no `partial`, no well-founded recursion with `decreasing_by sorry`), so every
byte string gets exactly one verdict.  The lemmas below pin down the first
steps of that verdict. -/

theorem decodeFile_empty : decodeFile [] = .error .empty := rfl

/-- `headerLevel` recognises exactly "BZh1"…"BZh9". -/
theorem headerLevel_some_iff (w l : Nat) :
    headerLevel w = some l ↔ (0x425A6831 ≤ w ∧ w ≤ 0x425A6839 ∧ l = w - 0x425A6830) := by
  unfold headerLevel
  split <;> rename_i h
  · rw [Option.some.injEq]
    constructor
    · intro e; exact ⟨h.1, h.2, e.symm⟩
    · intro e; exact e.2.2.symm
  · constructor
    · intro e; exact absurd e (by simp)
    · intro e; exact absurd ⟨e.1, e.2.1⟩ h

theorem headerLevel_range {w l : Nat} (h : headerLevel w = some l) : 1 ≤ l ∧ l ≤ 9 := by
  rw [headerLevel_some_iff] at h
  omega

/-- Delta-coded lengths stay in 1…20: whatever `readLen` returns from a start
    value in range is in range. -/
theorem readLen_range {cur pos : Nat} {bits : Bits} {len pos' : Nat} {rest : Bits}
    (hc : 1 ≤ cur ∧ cur ≤ maxLen) (h : readLen cur pos bits = .ok (len, pos', rest)) :
    1 ≤ len ∧ len ≤ maxLen := by
  fun_induction readLen cur pos bits with
  | case1 => cases h
  | case2 cur pos bits => cases h; exact hc
  | case3 => cases h
  | case4 cur pos bits hlt ih =>
    exact ih ⟨by omega, hlt⟩ h
  | case5 cur pos bits hnot => cases h
  | case6 cur pos bits hge ih =>
    exact ih ⟨by omega, by omega⟩ h
  | case7 cur pos bits hnot => cases h

/-- `readLen` consumes at least one bit and reports the position accordingly. -/
theorem readLen_pos {cur pos : Nat} {bits : Bits} {len pos' : Nat} {rest : Bits}
    (h : readLen cur pos bits = .ok (len, pos', rest)) :
    bits.length = rest.length + (pos' - pos) ∧ pos < pos' := by
  fun_induction readLen cur pos bits with
  | case1 => cases h
  | case2 cur pos bits => cases h; simp
  | case3 => cases h
  | case4 cur pos bits hlt ih =>
    have := ih h
    simp only [List.length_cons]; omega
  | case5 cur pos bits hnot => cases h
  | case6 cur pos bits hge ih =>
    have := ih h
    simp only [List.length_cons]; omega
  | case7 cur pos bits hnot => cases h

/-- A selector's MTF index is below the number of tables. -/
theorem readUnary_lt {nGroups k : Nat} {bits : Bits} {j : Nat} {rest : Bits}
    (hk : k < nGroups) (h : readUnary nGroups k bits = .ok (j, rest)) : j < nGroups := by
  fun_induction readUnary nGroups k bits with
  | case1 => cases h
  | case2 k bits => cases h; exact hk
  | case3 k bits hlt ih => exact ih hlt h
  | case4 k bits hnot => cases h

end LbzVerif.Spec.Bzip2
