/-
  Lemmas.RetrieveOk — what an OK answer of `Model.Retrieve` guarantees about
  the block (non-empty, primary index inside it), and the tie between the
  retriever's per-symbol action `symStep` / `eobFinish` and W10's
  `Model.MtfDec.consume` (for which `Props.C05.Mtf.runAccum_sound` is proved).
-/
import LbzVerif.Lemmas.RetrieveSplit
import LbzVerif.Lemmas.RetrieveFast

set_option linter.unusedSimpArgs false

namespace LbzVerif.Lemmas.RetrieveOk
open LbzVerif LbzVerif.Model.Retrieve LbzVerif.Lemmas.RetrieveSplit
open LbzVerif.Model.MtfDec (RunSt)
open LbzVerif.Model

/-- The block handed over with OK is not empty and contains its primary index. -/
def BlockOk (s : St) : Prop := 1 ≤ s.run.n ∧ s.bwtIdx < s.run.n

/-- A step that ends the call with OK hands over a good block. -/
def OkWf (x : Step) : Prop := ∀ s, x = .done .ok s → BlockOk s

theorem okwf_errS (c : Nat) : OkWf (errS c) := by intro s h; simp [errS] at h
theorem okwf_ubS : OkWf ubS := by intro s h; simp [ubS] at h
theorem okwf_cont (st : St) : OkWf (.cont st) := by intro s h; cases h
theorem okwf_top (st : St) : OkWf (.top st) := by intro s h; cases h

theorem okwf_eobFinish (st : St) : OkWf (eobFinish st) := by
  intro s h
  unfold eobFinish at h
  split at h
  · simp [errS] at h
  · simp only at h
    split at h
    · simp [errS] at h
    · split at h
      · simp [errS] at h
      · injection h with _ h
        subst h
        simp only [BlockOk, St.final]
        omega

theorem symStep_stop_ne_ok (rs : RunSt) (s : Nat) (r : Halt) (h : symStep rs s = .stop r) :
    r ≠ .ok := by
  unfold symStep at h
  split at h
  · cases h
  · split at h
    · split at h
      · injection h with h; subst h; simp
      · cases h
    · split at h
      · injection h with h; subst h; simp
      · simp only at h
        split at h
        · injection h with h; subst h; simp
        · cases h

theorem okwf_stepPrefix (st : St) : OkWf (stepPrefix st) := by
  unfold stepPrefix
  split
  · exact okwf_ubS
  · split
    · exact okwf_ubS
    · split
      · exact okwf_ubS
      · split
        · exact okwf_eobFinish _
        · rename_i r hr
          intro s h
          injection h with h1 _
          exact absurd h1 (symStep_stop_ne_ok _ _ _ hr)
        · unfold nextSym
          split
          · exact okwf_cont _
          · exact okwf_top _

theorem okwf_deltaWindow (st : St) : OkWf (deltaWindow st) := by
  unfold deltaWindow
  simp only
  split
  · exact okwf_errS _
  · split
    · exact okwf_ubS
    · exact okwf_cont _

theorem okwf_groupsInit (st : St) : OkWf (groupsInit st) := by
  unfold groupsInit
  split
  · exact okwf_ubS
  · exact okwf_top _

theorem okwf_tableStart (st : St) : OkWf (tableStart st) := by
  unfold tableStart
  split
  · split
    · exact okwf_ubS
    · simp only
      split
      · exact okwf_deltaWindow _
      · exact okwf_ubS
  · exact okwf_groupsInit _

theorem okwf_stepDeltaTag (st : St) : OkWf (stepDeltaTag st) := by
  unfold stepDeltaTag
  split
  · exact okwf_deltaWindow _
  · exact okwf_tableStart _

theorem okwf_selLoop (st : St) : OkWf (selLoop st) := by
  unfold selLoop
  split
  · simp only
    split
    · exact okwf_errS _
    · split
      · exact okwf_ubS
      · exact okwf_cont _
  · exact okwf_tableStart _

theorem okwf_afterBitmap (st : St) : OkWf (afterBitmap st) := by
  unfold afterBitmap
  split
  · exact okwf_errS _
  · simp only
    split
    · exact okwf_ubS
    · split
      · exact okwf_errS _
      · split
        · exact okwf_ubS
        · split
          · exact okwf_errS _
          · exact okwf_selLoop _

theorem okwf_bitmapOuter : ∀ (n : Nat) (st : St), OkWf (bitmapOuter n st) := by
  intro n
  induction n with
  | zero => intro st; unfold bitmapOuter; exact okwf_afterBitmap _
  | succ n ih =>
    intro st
    unfold bitmapOuter
    split
    · split
      · exact okwf_ubS
      · exact okwf_cont _
    · exact ih _

theorem okwf_stepBwtIdx (st : St) : OkWf (stepBwtIdx st) := by
  unfold stepBwtIdx
  split
  · exact okwf_ubS
  · split
    · exact okwf_ubS
    · exact okwf_cont _

theorem okwf_step (st : St) : OkWf (step st) := by
  unfold step
  split
  · exact okwf_stepBwtIdx _
  · exact okwf_stepBwtIdx _
  · unfold stepBitmapBig
    split
    · exact okwf_ubS
    · exact okwf_bitmapOuter _ _
  · unfold stepBitmapSmall
    exact okwf_bitmapOuter _ _
  · unfold stepSelectorMtf
    exact okwf_selLoop _
  · exact okwf_stepDeltaTag _
  · exact okwf_stepPrefix _

theorem drain_ok : ∀ (f : Nat) (st s : St), drain f st = .done .ok s → BlockOk s := by
  intro f
  induction f with
  | zero => intro st s h; simp [drain] at h
  | succ f ih =>
    intro st s h
    unfold drain at h
    split at h
    · cases h
    · split at h
      · split at h
        · exact ih _ _ h
        · simp at h
      · cases h
      · rename_i r s' hs
        injection h with h1 h2
        subst h1; subst h2
        exact okwf_step st _ hs

theorem toTop_ok (ws : List Nat) : ∀ (st s : St) (rest : List Nat),
    toTop st ws = .halt .ok s rest → BlockOk s := by
  induction ws with
  | nil =>
    intro st s rest h
    unfold toTop at h
    cases hd : drain (st.w + 1) st with
    | done r s' =>
      rw [hd] at h
      injection h with h1 h2 _
      subst h1; subst h2
      exact drain_ok _ _ _ hd
    | top s' => rw [hd] at h; cases h
    | need s' => rw [hd] at h; cases h
  | cons x ws ih =>
    intro st s rest h
    rw [toTop] at h
    cases hd : drain (st.w + 1) st with
    | done r s' =>
      rw [hd] at h
      injection h with h1 h2 _
      subst h1; subst h2
      exact drain_ok _ _ _ hd
    | top s' => rw [hd] at h; cases h
    | need s' => rw [hd] at h; exact ih _ _ _ h

theorem groups_ok : ∀ (n : Nat) (st : St) (ws : List Nat) (s : St) (rest : List Nat),
    groups false n st ws = .halt .ok s rest → BlockOk s := by
  intro n
  induction n with
  | zero => intro st ws s rest h; simp [groups] at h
  | succ n ih =>
    intro st ws s rest h
    rw [groups] at h
    cases hsel : selectTree st with
    | error e =>
      rw [hsel] at h
      simp only at h
      injection h with h1 _ _
      subst h1
      unfold selectTree at hsel
      simp only at hsel
      split at hsel
      · cases hsel
      · cases hsel
    | ok st1 =>
      rw [hsel] at h
      simp only [Bool.false_eq_true, false_and, if_false] at h
      cases ht : toTop { st1 with pc := Pc.prefix, j := 0 } ws with
      | halt r s' rest' =>
        rw [ht] at h
        injection h with h1 h2 _
        subst h1; subst h2
        exact toTop_ok _ _ _ _ ht
      | top st2 ws2 => rw [ht] at h; exact ih _ _ _ _ h
      | susp s' => rw [ht] at h; cases h

theorem run_ok (st : St) (ws : List Nat) (s : St) (rest : List Nat)
    (h : run false st ws = .halt .ok s rest) : BlockOk s := by
  unfold run at h
  cases ht : toTop st ws with
  | halt r s' rest' =>
    rw [ht] at h
    injection h with h1 h2 _
    subst h1; subst h2
    exact toTop_ok _ _ _ _ ht
  | susp s' => rw [ht] at h; cases h
  | top st1 ws1 => rw [ht] at h; exact groups_ok _ _ _ _ _ h

/-! ### the symbol actions are W10's `consume` -/

/-- The retriever's actions on a list of decoded symbols (internal
numbering): `symStep` per symbol; at EOB the overflow test and the flush of
`eobFinish`; `unterm` when the symbols run out. -/
def symLoop : RunSt → List Nat → MtfDec.Res
  | _, [] => .unterm
  | rs, s :: ss =>
    match symStep rs s with
    | .eob =>
      if rs.run > Gen.MAX_BLOCK_SIZE - rs.n then .overflow
      else .ok (MtfDec.flush rs).out.reverse (MtfDec.flush rs).ftab
    | .stop r => if r = .err Gen.ERR_OVERFLOW then .overflow else .ub
    | .cont rs' => symLoop rs' ss

theorem symLoop_eq_consume : ∀ (ss : List Nat) (rs : RunSt),
    symLoop rs ss = MtfDec.consume Gen.MAX_BLOCK_SIZE rs ss := by
  intro ss
  induction ss with
  | nil => intro rs; rfl
  | cons s ss ih =>
    intro rs
    rw [symLoop, MtfDec.consume]
    unfold symStep
    by_cases h0 : s = 0
    · simp only [h0, if_true]
    · simp only [h0, if_false]
      by_cases h1 : 256 ≤ s ∧ rs.run ≤ Gen.MAX_BLOCK_SIZE
      · simp only [h1, and_self, if_true]
        by_cases h2 : 32 ≤ rs.shift
        · simp [h2]
        · simp only [h2, if_false]
          exact ih _
      · simp only [h1, if_false]
        by_cases h3 : rs.run > Gen.MAX_BLOCK_SIZE - rs.n
        · simp [h3]
        · simp only [h3, if_false]
          cases MtfDec.mtfOne (MtfDec.flush rs).sl (UInt8.ofNat s) with
          | none => simp
          | some p =>
            obtain ⟨b, sl'⟩ := p
            simp only
            exact ih _

end LbzVerif.Lemmas.RetrieveOk
