/-
  Lemmas.CompressCut — the block list of `Model.Compress.cutBlocks` (every block
  non-empty, its run-length encoding within the capacity, the blocks
  concatenate to the input), and `assemble` over it as a `fileOf` of `BlockOK`
  items (Lemmas.CompressFile).
-/
import LbzVerif.Model.Compress
import LbzVerif.Lemmas.CompressBlock
import LbzVerif.Lemmas.CompressFile
import LbzVerif.Props.C04.Blocks

namespace LbzVerif.Lemmas.CompressCut
open LbzVerif LbzVerif.Basic LbzVerif.Model.Compress LbzVerif.Model.Transmit
open LbzVerif.Lemmas.CompressFile LbzVerif.Lemmas.CompressBits LbzVerif.Lemmas.CompressBlock
open LbzVerif.Spec

/-! ### the cut -/

theorem blocks_mem (cap fuel : Nat) : ∀ (xs : List UInt8), ∀ b ∈ blocks cap fuel xs,
    b ≠ [] ∧ rleLen b ≤ cap := by
  induction fuel with
  | zero => intro xs b hb; simp [blocks] at hb
  | succ fuel ih =>
    intro xs b hb
    simp only [blocks] at hb
    split at hb
    · cases hb
    · rename_i hne
      split at hb
      · cases hb
      · rename_i hk
        rcases List.mem_cons.mp hb with rfl | hb
        · refine ⟨?_, pack_fits cap xs⟩
          intro h0
          have hl := congrArg List.length h0
          have hle := pack_le_length cap xs
          simp only [List.length_take, List.length_nil] at hl
          omega
        · exact ih _ b hb

theorem blocksOf_mem (cap : Nat) (xs : List UInt8) : ∀ b ∈ blocksOf cap xs,
    b ≠ [] ∧ rleLen b ≤ cap :=
  blocks_mem cap xs.length xs

theorem cutBlocks_mem (cap granul : Nat) (seq : Bool) (input : List UInt8) :
    ∀ b ∈ cutBlocks cap granul seq input, b ≠ [] ∧ (rle1 b).length ≤ cap := by
  intro b hb
  unfold cutBlocks at hb
  cases seq with
  | true => exact blocksOf_mem cap input b (by simpa using hb)
  | false =>
    simp only [Bool.false_eq_true, if_false, List.mem_flatMap] at hb
    obtain ⟨ib, _, hb⟩ := hb
    exact blocksOf_mem cap ib.data b hb

theorem cutBlocks_flatten (cap granul : Nat) (hcap : 1 ≤ cap) (hg : 0 < granul) (seq : Bool)
    (input : List UInt8) : (cutBlocks cap granul seq input).flatten = input := by
  unfold cutBlocks
  cases seq with
  | true => simpa using Props.C04.blocksOf_flatten cap hcap input
  | false =>
    simp only [Bool.false_eq_true, if_false]
    have key : ∀ chunks : List (Model.SchedC.IBlk UInt8),
        (chunks.flatMap (fun ib => blocksOf cap ib.data)).flatten =
          (chunks.map (·.data)).flatten := by
      intro chunks
      induction chunks with
      | nil => rfl
      | cons ib rest ih =>
        simp only [List.flatMap_cons, List.flatten_append, List.map_cons, List.flatten_cons, ih,
          Props.C04.blocksOf_flatten cap hcap]
    rw [key, Props.C04.Blocks.cutChunks_flatten granul hg]

/-! ### `assemble` as a `fileOf` -/

/-- the items of a list of block inputs under a choice function -/
def itemsOf (choose : List UInt8 → Choice) (blocks : List (List UInt8)) : List Item :=
  blocks.map (fun b => (compressBlock choose b, b, (rle1 b).length))

theorem plainOf_itemsOf (choose : List UInt8 → Choice) (blocks : List (List UInt8)) :
    plainOf (itemsOf choose blocks) = blocks.flatten := by
  induction blocks with
  | nil => rfl
  | cons b t ih =>
    simp only [plainOf, itemsOf, List.map_cons, List.flatMap_cons, List.flatten_cons] at ih ⊢
    rw [ih]

theorem ccOf_itemsOf (choose : List UInt8 → Choice) (blocks : List (List UInt8)) (cc : UInt32) :
    (blocks.map (fun b => (blockIn b).2)).foldl (fun a c => Gen.combineCrc a c.toNat) cc.toNat =
      (ccOf cc (itemsOf choose blocks)).toNat := by
  rw [combinedCrc_eq]
  congr 1
  unfold ccOf itemsOf
  rw [List.foldl_map, List.foldl_map]
  rfl

theorem assemble_eq_fileOf (level : Nat) (choose : List UInt8 → Choice)
    (blocks : List (List UInt8)) :
    assemble level choose (blocks.map blockIn) =
      fileOf level (itemsOf choose blocks) (ccOf 0 (itemsOf choose blocks)).toNat := by
  unfold assemble fileOf
  congr 1
  · congr 1
    unfold itemsOf
    rw [List.flatMap_map, List.flatMap_map]
    rfl
  · congr 1
    unfold combinedCrc
    rw [List.map_map]
    exact ccOf_itemsOf choose blocks 0

/-- every item is `BlockOK` when every block satisfies the contract -/
theorem itemsOf_ok (level : Nat) (h9 : level ≤ 9) (choose : List UInt8 → Choice)
    (blocks : List (List UInt8))
    (hb : ∀ b ∈ blocks, b ≠ [] ∧ (rle1 b).length ≤ level * 100000)
    (hch : ∀ b ∈ blocks, ChoicesOK (rle1 b) (choose (rle1 b))) :
    ∀ it ∈ itemsOf choose blocks, BlockOK level it := by
  intro it hit
  unfold itemsOf at hit
  obtain ⟨b, hbm, rfl⟩ := List.mem_map.mp hit
  obtain ⟨hne, hfit⟩ := hb b hbm
  have hok := hch b hbm
  have hrne : rle1 b ≠ [] := by
    intro he
    have := Spec.unRle1_rle1 b
    rw [he] at this
    have h0 : Spec.unRle1 [] = some [] := by decide
    rw [h0] at this
    exact hne (Option.some.inj this).symm
  refine ⟨?_, ?_, ?_⟩
  · exact encodeBlock_wf (rle1 b) _ _ (by simp only [Gen.MAX_BLOCK_SIZE]; omega) hok
  · exact encodeBlock_coded _ _ _ hrne hok
  · intro start
    exact decodeBlock_expected b (choose (rle1 b)) level start hne hfit hok

end LbzVerif.Lemmas.CompressCut
