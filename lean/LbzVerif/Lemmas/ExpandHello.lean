/-
  Lemmas.ExpandHello — one concrete run of `Model.Expand.expandFile` evaluated
  by the kernel (non-vacuity witness for Props.C05.File / Props.C06.File):
  the 41-byte file `bzip2 -9` makes of "hello".  Heavy (`decide +kernel`
  runs sniff, parser automaton, retriever, inverse BWT, emitter and the CRC
  tests, ≈ 1 minute), hence alone in its module.
-/
import LbzVerif.Model.Expand
import LbzVerif.Lemmas.SpecBasic

namespace LbzVerif.Lemmas.ExpandHello
open LbzVerif

theorem expandFile_hello :
    Model.Expand.expandFile Spec.Bzip2.helloBz2 = .ok [104, 101, 108, 108, 111] := by
  decide +kernel

end LbzVerif.Lemmas.ExpandHello
