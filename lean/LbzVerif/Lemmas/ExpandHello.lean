/-
  Lemmas.ExpandHello — one concrete run of `Model.Expand.expandFile` evaluated
  by the kernel (non-vacuity witness for Props.C05.File): the 37-byte file
  `bzip2 -9` makes of "a".  `decide +kernel` runs sniff, parser automaton,
  retriever, inverse BWT, emitter and the CRC tests (≈ 10 s; the 41-byte file of
  "hello" takes a minute), hence alone in its module.
-/
import LbzVerif.Model.Expand
import LbzVerif.Lemmas.SpecBasic

namespace LbzVerif.Lemmas.ExpandHello
open LbzVerif

/-- `printf a | bzip2 -9` -/
def aBz2 : List UInt8 :=
  [0x42, 0x5a, 0x68, 0x39, 0x31, 0x41, 0x59, 0x26, 0x53, 0x59, 0x19, 0x93, 0x9b, 0x6b, 0x00, 0x00,
   0x00, 0x01, 0x00, 0x20, 0x00, 0x20, 0x00, 0x21, 0x18, 0x46, 0x82, 0xee, 0x48, 0xa7, 0x0a, 0x12,
   0x03, 0x32, 0x73, 0x6d, 0x60]

theorem expandFile_aBz2 : Model.Expand.expandFile aBz2 = .ok [97] := by
  decide +kernel

end LbzVerif.Lemmas.ExpandHello
