/-
  Lemmas.HeaderBudgetSel — budgeted copy of `RetrieveSelectors.selectors_spec`
  (see `HeaderBudgetDelta`).
-/
import LbzVerif.Lemmas.HeaderBudgetDelta

set_option linter.unusedSimpArgs false
set_option linter.unusedVariables false

namespace LbzVerif.Lemmas.HeaderBudget
open LbzVerif LbzVerif.Model.Retrieve LbzVerif.Lemmas.RetrieveBits LbzVerif.Lemmas.RetrieveValues
open LbzVerif.Lemmas.RetrieveSplit LbzVerif.Lemmas.RetrieveFast LbzVerif.Lemmas.RetrieveDelta
open LbzVerif.Lemmas.RetrieveTables LbzVerif.Lemmas.RetrieveSelectors
open LbzVerif.Spec.Bzip2 (readUnary)

theorem readUnary_len (ng : Nat) : ∀ (B : List Bool) (k i : Nat) (B1 : List Bool),
    readUnary ng k B = .ok (i, B1) → B1.length ≤ B.length := by
  intro B
  induction B with
  | nil => intro k i B1 h; simp [readUnary] at h
  | cons b t ih =>
    intro k i B1 h
    cases b with
    | false =>
      simp only [readUnary, Except.ok.injEq, Prod.mk.injEq] at h
      rw [← h.2]; simp
    | true =>
      simp only [readUnary] at h
      split at h
      · have := ih _ _ _ h
        simp only [List.length_cons]; omega
      · cases h

theorem specSelTables_len (ng a : Nat) : ∀ (k : Nat) (B : List Bool) (is : List Nat)
    (tabs : List (List Nat)) (B' : List Bool),
    specSelTables ng a k B = some (is, tabs, B') → B'.length ≤ B.length := by
  intro k
  induction k with
  | zero =>
    intro B is tabs B' h
    simp only [specSelTables] at h
    cases hs : specTables a ng B with
    | none => rw [hs] at h; cases h
    | some q =>
      obtain ⟨ls, B2⟩ := q
      rw [hs] at h
      simp only [Option.some.injEq, Prod.mk.injEq] at h
      have := specTables_len _ _ _ _ _ hs
      rw [← h.2.2]; exact this
  | succ k ih =>
    intro B is tabs B' h
    simp only [specSelTables] at h
    cases hr : readUnary ng 0 B with
    | error e => rw [hr] at h; cases h
    | ok p =>
      obtain ⟨i, B1⟩ := p
      rw [hr] at h
      simp only at h
      cases hs : specSelTables ng a k B1 with
      | none => rw [hs] at h; cases h
      | some q =>
        obtain ⟨is', tabs', B2⟩ := q
        rw [hs] at h
        simp only [Option.some.injEq, Prod.mk.injEq] at h
        have h1 := readUnary_len _ _ _ _ _ hr
        have h2 := ih _ _ _ _ hs
        rw [← h.2.2]; omega

/-- **Selectors, then tables.**  From `NEED(S_SELECTOR_MTF)` with `k` selectors
still to read: the machine arrives at the top of the group loop iff the
reference reads `k` unary codes below `num_trees` and then `num_trees` tables
from the unread bits — with the same indices stored, `make_tree` applied to the
same length lists, the same unread bits left; otherwise ERR_SELECTOR /
ERR_DELTA / out of words. -/
theorem selectors_spec_b : ∀ (k : Nat) (c : St) (ws : List Nat),
    c.pc = .selectorMtf → c.j + 1 + k = c.numSel → BufInv c.v c.w →
    1 ≤ c.numTrees → c.numTrees ≤ 6 → 1 ≤ c.alphaSize →
    (∀ is tabs B', specSelTables c.numTrees c.alphaSize k (bitsOf c ws) = some (is, tabs, B') →
      (∃ s rest, toTop c ws = .top s rest ∧ SelTopOk c s is tabs ∧ bitsOf s rest = B' ∧
        BufInv s.v s.w) ∨ (Suspended (toTop c ws) ∧ B'.length < 32)) ∧
    (specSelTables c.numTrees c.alphaSize k (bitsOf c ws) = none →
      Rejected (toTop c ws) ∨ Suspended (toTop c ws)) := by
  intro k
  induction k with
  | zero =>
    intro c ws hpc hjk inv hn1 hn6 ha
    have hnorm : normPc c = c := by unfold normPc; rw [if_neg (by rw [hpc]; simp)]
    cases need_ready_b c ws hnorm inv with
    | inl hsu => exact ⟨fun _ _ _ h => Or.inr ⟨hsu.1, by have := specSelTables_len _ _ _ _ _ _ _ h; omega⟩, fun _ => Or.inr hsu.1⟩
    | inr hr =>
      obtain ⟨v1, w1, ws1, e1, hw1, hb1, inv1, _⟩ := hr
      -- the state in which `tableStart` runs: after NEED, `j + 1`, `t = 0`
      have hstep : step ({ c with v := v1, w := w1 } : St) =
          tableStart { c with v := v1, w := w1, j := c.j + 1, t := 0 } := by
        unfold step
        have : ({ c with v := v1, w := w1 } : St).pc = .selectorMtf := hpc
        rw [this]
        unfold stepSelectorMtf selLoop
        rw [if_neg (by show ¬ c.j + 1 < c.numSel; omega)]
      have e2 : toTop c ws = afterStep w1 ws1 (tableStart { c with v := v1, w := w1, j := c.j + 1, t := 0 }) := by
        rw [e1, toTop_step' _ _ (by exact hw1), hstep]
      have hts := table_spec_b { c with v := v1, w := w1, j := c.j + 1, t := 0 } ws1 w1
        (by show 11 ≤ w1; omega) (by show w1 ≤ w1; omega) inv1 ha (by show 0 < c.numTrees; omega)
      have hbb : bitsOf ({ c with v := v1, w := w1, j := c.j + 1, t := 0 } : St) ws1 = bitsOf c ws := hb1
      have haa : ({ c with v := v1, w := w1, j := c.j + 1, t := 0 } : St).alphaSize = c.alphaSize := rfl
      rw [haa, hbb] at hts
      obtain ⟨t1, t2⟩ := hts
      rw [e2]
      generalize afterStep w1 ws1 (tableStart { c with v := v1, w := w1, j := c.j + 1, t := 0 }) = O at t1 t2 ⊢
      obtain ⟨k', hk'⟩ : ∃ k', c.numTrees = k' + 1 := ⟨c.numTrees - 1, by omega⟩
      simp only [specSelTables]
      rw [hk']
      simp only [specTables]
      cases htab : Spec.Delta.table c.alphaSize (bitsOf c ws) with
      | none =>
        simp only
        exact ⟨fun _ _ _ h => (by cases h), fun _ => t2 htab⟩
      | some p =>
        obtain ⟨l0, B1⟩ := p
        simp only
        cases t1 l0 B1 htab with
        | inr hsu =>
          refine ⟨fun is tabs B' h => Or.inr ⟨hsu.1, ?_⟩, fun _ => Or.inr hsu.1⟩
          cases hsp : specTables c.alphaSize k' B1 with
          | none => rw [hsp] at h; cases h
          | some q =>
            obtain ⟨ls, B2⟩ := q
            rw [hsp] at h
            simp only [Option.some.injEq, Prod.mk.injEq] at h
            have := specTables_len _ _ _ _ _ hsp
            rw [← h.2.2]; omega
        | inl hok =>
          obtain ⟨st', ws', e3, hd, hb3, inv3⟩ := hok
          have hal : st'.alphaSize = c.alphaSize := hd.rest.alphaSize
          have hIH := tables_spec_b k' st' ws' l0 hd.pc (by rw [hd.j, hal]) hd.acc inv3
            (by rw [hal]; exact ha)
            (by rw [hd.rest.t, hd.rest.numTrees]; show 0 + 1 + k' = c.numTrees; omega)
          rw [hal, hb3] at hIH
          obtain ⟨i1, i2⟩ := hIH
          rw [e3]
          constructor
          · intro is tabs B' h
            cases hsp : specTables c.alphaSize k' B1 with
            | none => rw [hsp] at h; cases h
            | some q =>
              obtain ⟨ls, B2⟩ := q
              rw [hsp] at h
              simp only [Option.some.injEq, Prod.mk.injEq] at h
              obtain ⟨h0, h1, h2⟩ := h
              subst h0; subst h1; subst h2
              cases i1 ls B2 hsp with
              | inr hsu => exact Or.inr hsu
              | inl hok2 =>
                obtain ⟨s, rest, e4, htk, hb4, inv4⟩ := hok2
                refine Or.inl ⟨s, rest, e4, ?_, hb4, inv4⟩
                refine ⟨htk.pc, htk.j, htk.g, ?_, ?_, ?_, ?_, ?_, ?_, ?_, ?_, ?_⟩
                · rw [htk.numSel, hd.rest.numSel]
                · rw [htk.selector, hd.rest.selector]; rfl
                · rw [htk.tt, hd.rest.t, hd.rest.mtf, hd.rest.trees]
                · obtain ⟨rs, h1, h2⟩ := htk.run
                  rw [hd.rest.cmap] at h1
                  rw [hd.rest.run] at h2
                  exact ⟨rs, h1, h2⟩
                · rw [htk.rand, hd.rest.rand]
                · rw [htk.bwtIdx, hd.rest.bwtIdx]
                · rw [htk.alphaSize, hd.rest.alphaSize]
                · rw [htk.numTrees, hd.rest.numTrees]
                · rw [htk.cmap, hd.rest.cmap]
          · intro h
            cases hsp : specTables c.alphaSize k' B1 with
            | some q => rw [hsp] at h; cases h
            | none => exact i2 hsp
  | succ k ih =>
    intro c ws hpc hjk inv hn1 hn6 ha
    have hnorm : normPc c = c := by unfold normPc; rw [if_neg (by rw [hpc]; simp)]
    cases need_ready_b c ws hnorm inv with
    | inl hsu => exact ⟨fun _ _ _ h => Or.inr ⟨hsu.1, by have := specSelTables_len _ _ _ _ _ _ _ h; omega⟩, fun _ => Or.inr hsu.1⟩
    | inr hr =>
      obtain ⟨v1, w1, ws1, e1, hw1, hb1, inv1, _⟩ := hr
      have hstep : step ({ c with v := v1, w := w1 } : St) =
          selLoop { c with v := v1, w := w1, j := c.j + 1 } := by
        unfold step
        have : ({ c with v := v1, w := w1 } : St).pc = .selectorMtf := hpc
        rw [this]
        rfl
      have e2 : toTop c ws = afterStep w1 ws1 (selLoop { c with v := v1, w := w1, j := c.j + 1 }) := by
        rw [e1, toTop_step' _ _ (by exact hw1), hstep]
      have hsv := selector_value { c with v := v1, w := w1, j := c.j + 1 } ws1
        (by show 6 ≤ w1; omega) inv1 (by show c.j + 1 < c.numSel; omega) hn1 hn6
      have hbb : bitsOf ({ c with v := v1, w := w1, j := c.j + 1 } : St) ws1 = bitsOf c ws := hb1
      have hnn : ({ c with v := v1, w := w1, j := c.j + 1 } : St).numTrees = c.numTrees := rfl
      rw [hbb, hnn] at hsv
      rw [e2]
      simp only [specSelTables]
      cases hru : readUnary c.numTrees 0 (bitsOf c ws) with
      | error e =>
        rw [hru] at hsv
        obtain ⟨_, herr⟩ := hsv
        simp only
        have hr : afterStep w1 ws1 (selLoop { c with v := v1, w := w1, j := c.j + 1 }) =
            .halt (.err Gen.ERR_SELECTOR) St.blank ws1 := by rw [herr]; rfl
        exact ⟨fun _ _ _ h => (by cases h), fun _ => Or.inl ⟨_, _, _, hr, (by simp)⟩⟩
      | ok p =>
        obtain ⟨i, B1⟩ := p
        rw [hru] at hsv
        obtain ⟨st', hsl, inv', hb', hsel', hj', hns', hnt', hpc', hlt', heq'⟩ := hsv
        simp only
        have e3 : afterStep w1 ws1 (selLoop { c with v := v1, w := w1, j := c.j + 1 }) = toTop st' ws1 := by
          rw [hsl]; simp only [afterStep]; rw [if_pos (by exact hlt')]
        have f_al : st'.alphaSize = c.alphaSize := by rw [heq']
        have f_mtf : st'.mtf = c.mtf := by rw [heq']
        have f_trees : st'.trees = c.trees := by rw [heq']
        have f_cmap : st'.cmap = c.cmap := by rw [heq']
        have f_run : st'.run = c.run := by rw [heq']
        have f_rand : st'.rand = c.rand := by rw [heq']
        have f_bi : st'.bwtIdx = c.bwtIdx := by rw [heq']
        have f_ns : st'.numSel = c.numSel := hns'
        have f_nt : st'.numTrees = c.numTrees := hnt'
        have f_j : st'.j = c.j + 1 := hj'
        have f_sel : st'.selector = c.selector.push i := hsel'
        have hIH := ih st' ws1 hpc' (by rw [f_j, f_ns]; omega) inv' (by rw [f_nt]; exact hn1)
          (by rw [f_nt]; exact hn6) (by rw [f_al]; exact ha)
        rw [f_nt, f_al, hb'] at hIH
        obtain ⟨i1, i2⟩ := hIH
        rw [e3]
        constructor
        · intro is tabs B' h
          cases hsp : specSelTables c.numTrees c.alphaSize k B1 with
          | none => rw [hsp] at h; cases h
          | some q =>
            obtain ⟨is', tabs', B2⟩ := q
            rw [hsp] at h
            simp only [Option.some.injEq, Prod.mk.injEq] at h
            obtain ⟨h0, h1, h2⟩ := h
            subst h0; subst h1; subst h2
            cases i1 is' tabs' B2 hsp with
            | inr hsu => exact Or.inr hsu
            | inl hok2 =>
              obtain ⟨s, rest, e4, htk, hb4, inv4⟩ := hok2
              refine Or.inl ⟨s, rest, e4, ?_, hb4, inv4⟩
              refine ⟨htk.pc, htk.j, htk.g, ?_, ?_, ?_, ?_, ?_, ?_, ?_, ?_, ?_⟩
              · rw [htk.numSel, f_ns]
              · rw [htk.sel, f_sel]; rfl
              · rw [htk.tt, f_mtf, f_trees]
              · obtain ⟨rs, h1, h2⟩ := htk.run
                rw [f_cmap] at h1
                rw [f_run] at h2
                exact ⟨rs, h1, h2⟩
              · rw [htk.rand, f_rand]
              · rw [htk.bwtIdx, f_bi]
              · rw [htk.alphaSize, f_al]
              · rw [htk.numTrees, f_nt]
              · rw [htk.cmap, f_cmap]
        · intro h
          cases hsp : specSelTables c.numTrees c.alphaSize k B1 with
          | some q => rw [hsp] at h; cases h
          | none => exact i2 hsp

end LbzVerif.Lemmas.HeaderBudget
