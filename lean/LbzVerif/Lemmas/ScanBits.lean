/-
  Lemmas.ScanBits — what the bit macros of parse.c do to the remaining bit
  string `rem bs`: `bits_dump`, the load step of `bits_need`, `bits_consume`
  and the `skip` prologue of `scan`.
-/
import LbzVerif.Model.Scan

namespace LbzVerif.Lemmas.ScanBits

open LbzVerif.Model.Scan LbzVerif.Spec.Scan

/-! ### `bitsMSB` -/

@[simp] theorem length_bitsMSB (n v : Nat) : (bitsMSB n v).length = n := by
  induction n with
  | zero => rfl
  | succ k ih => simp [bitsMSB, ih]

theorem getElem_bitsMSB (n v i : Nat) (h : i < (bitsMSB n v).length) :
    (bitsMSB n v)[i] = v.testBit (n - 1 - i) := by
  induction n generalizing i with
  | zero => simp at h
  | succ k ih =>
    cases i with
    | zero => simp [bitsMSB]
    | succ j =>
      simp only [bitsMSB, List.getElem_cons_succ]
      rw [ih]
      congr 1
      simp at h
      omega

theorem bitsMSB_congr (n v v' : Nat)
    (h : ∀ j < n, v.testBit j = v'.testBit j) : bitsMSB n v = bitsMSB n v' := by
  apply List.ext_getElem (by simp)
  intro i h1 h2
  rw [getElem_bitsMSB, getElem_bitsMSB]
  simp at h1
  exact h _ (by omega)

theorem bitsMSB_append (a b v : Nat) :
    bitsMSB (a + b) v = bitsMSB a (v >>> b) ++ bitsMSB b v := by
  apply List.ext_getElem (by simp)
  intro i h1 h2
  simp at h1
  rw [getElem_bitsMSB, List.getElem_append]
  split
  · rename_i h'
    simp at h'
    rw [getElem_bitsMSB, Nat.testBit_shiftRight]
    congr 1
    omega
  · rename_i h'
    simp at h'
    rw [getElem_bitsMSB]
    congr 1
    simp
    omega

theorem bitsMSB_mod (n m v : Nat) (h : n ≤ m) :
    bitsMSB n (v % 2 ^ m) = bitsMSB n v := by
  apply bitsMSB_congr
  intro j hj
  rw [Nat.testBit_mod_two_pow]
  simp
  omega

/-- A 32-bit word is its four bytes, most significant first. -/
theorem bitsMSB_word (w : Nat) :
    bitsMSB 32 w = bitsMSB 8 (w >>> 24) ++ (bitsMSB 8 ((w >>> 16) % 256) ++
      (bitsMSB 8 ((w >>> 8) % 256) ++ bitsMSB 8 (w % 256))) := by
  have e : (256 : Nat) = 2 ^ 8 := by decide
  rw [e, bitsMSB_mod 8 8 _ (Nat.le_refl _), bitsMSB_mod 8 8 _ (Nat.le_refl _),
    bitsMSB_mod 8 8 _ (Nat.le_refl _)]
  rw [show (32 : Nat) = 8 + 24 by rfl, bitsMSB_append 8 24 w]
  rw [show (24 : Nat) = 8 + 16 by rfl, bitsMSB_append 8 16 w]
  rw [show (16 : Nat) = 8 + 8 by rfl, bitsMSB_append 8 8 w]

/-! ### low bits zero -/

theorem lowZero_of_mod (x k : Nat) (h : x % 2 ^ k = 0) :
    ∀ j < k, x.testBit j = false := by
  intro j hj
  have := Nat.testBit_mod_two_pow x k j
  rw [h, Nat.zero_testBit] at this
  simpa [hj] using this.symm

theorem mod_of_lowZero (x k : Nat) (h : ∀ j < k, x.testBit j = false) :
    x % 2 ^ k = 0 := by
  apply Nat.eq_of_testBit_eq
  intro i
  rw [Nat.testBit_mod_two_pow, Nat.zero_testBit]
  by_cases hi : i < k
  · simp [h i hi]
  · simp [hi]

theorem testBit_high (x n j : Nat) (hx : x < 2 ^ n) (hj : n ≤ j) :
    x.testBit j = false :=
  Nat.testBit_lt_two_pow (Nat.lt_of_lt_of_le hx (Nat.pow_le_pow_right (by decide) hj))

/-! ### the buffered bits -/

/-- The top `live` bits of `buff`. -/
def bufBits (bs : BS) : List Bool := (bitsMSB 64 bs.buff).take bs.live

theorem rem_eq (bs : BS) :
    rem bs = bufBits bs ++ (bs.words.drop bs.data).flatMap (bitsMSB 32) := rfl

@[simp] theorem length_bufBits (bs : BS) (h : bs.live ≤ 64) :
    (bufBits bs).length = bs.live := by
  simp [bufBits]; omega

theorem length_flatMap32 (ws : List Nat) :
    (ws.flatMap (bitsMSB 32)).length = 32 * ws.length := by
  induction ws with
  | nil => rfl
  | cons w t ih => simp [List.flatMap_cons, ih]; omega

theorem length_rem (bs : BS) (h : Consistent bs) :
    (rem bs).length = bs.live + 32 * (bs.words.length - bs.data) := by
  obtain ⟨h1, -, -, h4, -⟩ := h
  rw [rem_eq, List.length_append, length_bufBits bs (by omega), length_flatMap32]
  simp

theorem getElem_bufBits (bs : BS) (i : Nat) (h : i < (bufBits bs).length) :
    (bufBits bs)[i] = bs.buff.testBit (63 - i) := by
  have h' : i < ((bitsMSB 64 bs.buff).take bs.live).length := h
  show ((bitsMSB 64 bs.buff).take bs.live)[i]'h' = _
  rw [List.getElem_take, getElem_bitsMSB]

/-- `bits_dump(bs, n)` for `n ≤ live` drops `n` bits. -/
theorem dump_spec (bs : BS) (n : Nat) (hc : Consistent bs) (hn : n ≤ bs.live) :
    Consistent (dump bs n) ∧ bufBits (dump bs n) = (bufBits bs).drop n ∧
      (dump bs n).live = bs.live - n ∧ (dump bs n).data = bs.data ∧
      (dump bs n).words = bs.words := by
  obtain ⟨h1, h2, h3, h4, h5⟩ := hc
  have hz := lowZero_of_mod _ _ h3
  refine ⟨⟨?_, ?_, ?_, h4, h5⟩, ?_, rfl, rfl, rfl⟩
  · show bs.live - n ≤ 63
    omega
  · exact Nat.mod_lt _ (by decide)
  · show (bs.buff <<< n) % 2 ^ 64 % 2 ^ (64 - (bs.live - n)) = 0
    apply mod_of_lowZero
    intro j hj
    rw [Nat.testBit_mod_two_pow, Nat.testBit_shiftLeft]
    by_cases hjn : j ≥ n
    · rw [hz (j - n) (by omega)]; simp
    · simp [hjn]
  · apply List.ext_getElem
    · simp [bufBits, dump]; omega
    · intro i hi1 hi2
      rw [getElem_bufBits, List.getElem_drop, getElem_bufBits]
      show ((bs.buff <<< n) % 2 ^ 64).testBit (63 - i) = _
      have hil : i < bs.live - n := by
        have := hi1; simp [bufBits, dump] at this; omega
      rw [Nat.testBit_mod_two_pow, Nat.testBit_shiftLeft]
      have e1 : 63 - i - n = 63 - (n + i) := by omega
      have e2 : 63 - i ≥ n := by omega
      have e3 : 63 - i < 64 := by omega
      simp [e1, e2, e3]

/-- The first buffered bit is what `bits_peek(bs, 1)` returns. -/
theorem bufBits_cons (bs : BS) (hc : Consistent bs) (hl : 0 < bs.live) :
    bufBits bs = (bs.buff >>> 63 != 0) :: bufBits (dump bs 1) := by
  have hd := (dump_spec bs 1 hc hl).2.1
  rw [hd]
  have hlen : 0 < (bufBits bs).length := by
    rw [length_bufBits bs (by have := hc.1; omega)]; exact hl
  have hsplit : bufBits bs = (bufBits bs)[0] :: (bufBits bs).drop 1 := by
    have := List.drop_eq_getElem_cons hlen
    simpa using this
  conv => lhs; rw [hsplit]
  rw [getElem_bufBits]
  congr 1
  · -- bit 63 of a 64-bit number
    have h2 := hc.2.1
    have hlt : bs.buff >>> 63 < 2 := by
      rw [Nat.shiftRight_eq_div_pow]
      apply Nat.div_lt_of_lt_mul
      have : (2 : Nat) ^ 63 * 2 = 2 ^ 64 := by decide
      omega
    have : bs.buff.testBit 63 = (bs.buff >>> 63).testBit 0 := by
      rw [Nat.testBit_shiftRight]
    rw [show 63 - 0 = 63 by rfl, this]
    rcases Nat.lt_or_ge (bs.buff >>> 63) 1 with h | h
    · have : bs.buff >>> 63 = 0 := by omega
      simp [this]
    · have : bs.buff >>> 63 = 1 := by omega
      simp [this]

/-- The load step of `bits_need`. -/
theorem load_spec (bs : BS) (n : Nat) (hc : Consistent bs) (hn : bs.live < n)
    (hl : bs.live < 32) (hd : bs.data < bs.words.length) :
    (need bs n).1 = true ∧ Consistent (need bs n).2 ∧
      rem (need bs n).2 = rem bs ∧ (need bs n).2.live = bs.live + 32 ∧
      (need bs n).2.data = bs.data + 1 ∧ (need bs n).2.words = bs.words := by
  obtain ⟨h1, h2, h3, h4, h5⟩ := hc
  have hz := lowZero_of_mod _ _ h3
  have hne : bs.data ≠ bs.words.length := by omega
  have hnl : ¬ n ≤ bs.live := by omega
  have hw : bs.words.getD bs.data 0 < 2 ^ 32 := by
    have : bs.words.getD bs.data 0 = bs.words[bs.data] := by
      simp [List.getD_eq_getElem?_getD, hd]
    rw [this]; exact h5 _ (List.getElem_mem hd)
  generalize hwd : bs.words.getD bs.data 0 = w at hw
  have hneed : need bs n = (true, { bs with
      buff := bs.buff ||| (w <<< (32 - bs.live))
      data := bs.data + 1
      live := bs.live + 32 }) := by
    unfold need
    rw [if_neg hnl, if_neg hne, hwd]
  rw [hneed]
  refine ⟨rfl, ⟨?_, ?_, ?_, ?_, h5⟩, ?_, rfl, rfl, rfl⟩
  · show bs.live + 32 ≤ 63
    omega
  · show bs.buff ||| (w <<< (32 - bs.live)) < 2 ^ 64
    apply Nat.or_lt_two_pow h2
    rw [Nat.shiftLeft_eq]
    calc w * 2 ^ (32 - bs.live) < 2 ^ 32 * 2 ^ (32 - bs.live) :=
          Nat.mul_lt_mul_of_pos_right hw (Nat.pow_pos (by decide))
      _ = 2 ^ (32 + (32 - bs.live)) := (Nat.pow_add _ _ _).symm
      _ ≤ 2 ^ 64 := Nat.pow_le_pow_right (by decide) (by omega)
  · show (bs.buff ||| (w <<< (32 - bs.live))) % 2 ^ (64 - (bs.live + 32)) = 0
    apply mod_of_lowZero
    intro j hj
    rw [Nat.testBit_or, Nat.testBit_shiftLeft, hz j (by omega)]
    have : ¬ j ≥ 32 - bs.live := by omega
    simp [this]
  · show bs.data + 1 ≤ bs.words.length
    omega
  · -- the remaining bits are unchanged
    rw [rem_eq, rem_eq]
    show bufBits _ ++ (bs.words.drop (bs.data + 1)).flatMap (bitsMSB 32) = _
    rw [List.drop_eq_getElem_cons hd, List.flatMap_cons, ← List.append_assoc]
    congr 1
    have hw' : bs.words[bs.data] = w := by
      rw [← hwd]; simp [List.getD_eq_getElem?_getD, hd]
    rw [hw']
    apply List.ext_getElem
    · simp [bufBits]; omega
    · intro i hi1 hi2
      rw [getElem_bufBits, List.getElem_append]
      show (bs.buff ||| (w <<< (32 - bs.live))).testBit (63 - i) = _
      have hil : i < bs.live + 32 := by
        have := hi1; simp [bufBits] at this; omega
      rw [Nat.testBit_or, Nat.testBit_shiftLeft]
      split
      · rename_i h'
        have h'' : i < bs.live := by
          have := h'; simp [bufBits] at this; omega
        rw [getElem_bufBits]
        rw [testBit_high w 32 (63 - i - (32 - bs.live)) hw (by omega)]
        simp
      · rename_i h'
        have h'' : bs.live ≤ i := by
          have := h'; simp [bufBits] at this; omega
        rw [getElem_bitsMSB, hz (63 - i) (by omega)]
        have e1 : 63 - i ≥ 32 - bs.live := by omega
        have e2 : 63 - i - (32 - bs.live) = 32 - 1 - (i - (bufBits bs).length) := by
          rw [length_bufBits bs (by omega)]; omega
        simp [e1, e2]

/-- `need` when enough bits are buffered. -/
theorem need_enough (bs : BS) (n : Nat) (h : n ≤ bs.live) : need bs n = (true, bs) := by
  simp [need, h]

/-- `need` at the end of the block. -/
theorem need_fail (bs : BS) (n : Nat) (h : bs.live < n)
    (hd : bs.data = bs.words.length) : need bs n = (false, bs) := by
  have : ¬ n ≤ bs.live := by omega
  simp [need, this, hd]

/-- The block consumed: what `MORE` leaves behind. -/
def consumed (bs : BS) : BS :=
  { live := 0, buff := 0, data := bs.words.length, words := bs.words }

/-- `bits_consume`. -/
theorem consume_spec (bs : BS) (hc : Consistent bs) : consume bs = consumed bs := by
  obtain ⟨hc', -, hl, -, -⟩ := dump_spec bs bs.live hc (Nat.le_refl _)
  obtain ⟨-, h2, h3, -, -⟩ := hc'
  rw [hl] at h3
  have hz : (dump bs bs.live).buff = 0 := by
    have : (dump bs bs.live).buff % 2 ^ 64 = 0 := by simpa using h3
    rw [Nat.mod_eq_of_lt h2] at this
    exact this
  unfold consume consumed
  have hl' : (dump bs bs.live).live = 0 := by rw [hl]; omega
  have hw : (dump bs bs.live).words = bs.words := rfl
  cases hdd : dump bs bs.live with
  | mk l b d w =>
    rw [hdd] at hz hl' hw
    simp at hz hl' hw
    simp [hz, hl', hw]

theorem drop_flatMap32 (ws : List Nat) (m : Nat) :
    (ws.flatMap (bitsMSB 32)).drop (32 * m) = (ws.drop m).flatMap (bitsMSB 32) := by
  induction m generalizing ws with
  | zero => simp
  | succ k ih =>
    cases ws with
    | nil => simp
    | cons w t =>
      rw [List.flatMap_cons, List.drop_append]
      have : (bitsMSB 32 w).drop (32 * (k + 1)) = [] := by
        apply List.drop_eq_nil_of_le; simp; omega
      rw [this, List.nil_append, length_bitsMSB,
        show 32 * (k + 1) - 32 = 32 * k by omega, ih]
      simp

/-- The `skip` prologue drops exactly `effStart` bits. -/
theorem skipPhase_spec (bs : BS) (skip : Nat) (hc : Consistent bs) :
    Consistent (skipPhase bs skip) ∧
      rem (skipPhase bs skip) = (rem bs).drop (effStart bs skip) ∧
      (skipPhase bs skip).words = bs.words := by
  unfold skipPhase effStart
  by_cases hs : skip > bs.live
  · simp only [hs, if_true]
    obtain ⟨hc', hb, hl, hd, hw⟩ := dump_spec bs bs.live hc (Nat.le_refl _)
    generalize hk : ((skip - bs.live + 31) % 2 ^ 32) / 32 = k
    have hlive0 : (dump bs bs.live).live = 0 := by rw [hl]; omega
    have hbuf : bufBits (dump bs bs.live) = [] := by
      rw [hb]; apply List.drop_eq_nil_of_le
      rw [length_bufBits bs (by have := hc.1; omega)]; omega
    -- both branches set data to data + min k (len - data)
    have key : ∀ d', d' = bs.data + min k (bs.words.length - bs.data) →
        Consistent { dump bs bs.live with data := d' } ∧
        rem { dump bs bs.live with data := d' } =
          (rem bs).drop (bs.live + 32 * min k (bs.words.length - bs.data)) ∧
        ({ dump bs bs.live with data := d' } : BS).words = bs.words := by
      intro d' hd'
      obtain ⟨c1, c2, c3, c4, c5⟩ := hc'
      refine ⟨⟨c1, c2, c3, ?_, c5⟩, ?_, rfl⟩
      · show d' ≤ bs.words.length
        have := hc.2.2.2.1
        omega
      · rw [rem_eq, rem_eq]
        have : bufBits ({ dump bs bs.live with data := d' } : BS) = [] := hbuf
        rw [this, List.nil_append, List.drop_append,
          length_bufBits bs (by have := hc.1; omega)]
        have : (bufBits bs).drop (bs.live + 32 * min k (bs.words.length - bs.data)) = [] := by
          apply List.drop_eq_nil_of_le
          rw [length_bufBits bs (by have := hc.1; omega)]; omega
        rw [this, List.nil_append,
          show bs.live + 32 * min k (bs.words.length - bs.data) - bs.live =
            32 * min k (bs.words.length - bs.data) by omega,
          drop_flatMap32, List.drop_drop]
        show (List.drop d' bs.words).flatMap _ = _
        rw [hd']
    have hd0 : (dump bs bs.live).data = bs.data := rfl
    have hw0 : (dump bs bs.live).words = bs.words := rfl
    simp only [hd0, hw0]
    split
    · rename_i hlt
      apply key
      have := hc.2.2.2.1
      rw [Nat.min_eq_right (by omega)]
      omega
    · rename_i hge
      apply key
      rw [Nat.min_eq_left (by omega)]
  · simp only [hs, if_false]
    refine ⟨hc, by simp, ?_⟩
    first | rfl | trivial

end LbzVerif.Lemmas.ScanBits
