/-
  Lemmas.TreeSoundTables — what `Model.Canon.mkTree` (decode.c `make_tree`)
  puts into `base[]`, `count[]`, `perm[]` and `start[]`, entry by entry, in
  terms of the band boundaries `S` / `Sw` of Lemmas.TreeSoundArith (W17).
-/
import LbzVerif.Model.Canon
import LbzVerif.Lemmas.PrefixTree
import LbzVerif.Lemmas.TreeSoundArith

namespace LbzVerif.Lemmas.TreeSoundTables
open LbzVerif LbzVerif.Spec.Prefix LbzVerif.Model.Canon LbzVerif.Lemmas.PrefixCanon
open LbzVerif.Lemmas.TransmitSym LbzVerif.Lemmas.TreeSoundArith LbzVerif.Lemmas.PrefixTree

theorem cnt_eq (lens : List Nat) (d : Nat) : cnt lens d = cntL lens d := by
  unfold cnt cntL
  rw [List.count_eq_countP]

theorem M64_eq : M64 = 2 ^ 64 := rfl

/-! ### `base[]` -/

theorem ljLoop_length (lens : List Nat) : ∀ n k s, (ljLoop lens n k s).length = n := by
  intro n
  induction n with
  | zero => intro k s; rfl
  | succ n ih => intro k s; simp [ljLoop, ih]

theorem ljLoop_getD (lens : List Nat) : ∀ n k sofar t, t < n → sofar = Sw lens 64 k % M64 →
    (ljLoop lens n k sofar).getD t 0 = Sw lens 64 (k + t) % M64 := by
  intro n
  induction n with
  | zero => intro k s t h; omega
  | succ n ih =>
    intro k s t ht hs
    rw [ljLoop]
    cases t with
    | zero => rw [List.getD_cons_zero]; exact hs
    | succ t =>
      rw [List.getD_cons_succ, ih (k + 1) _ t (by omega)]
      · congr 2; omega
      · rw [hs, Sw, cnt_eq, Nat.shiftLeft_eq, Nat.mod_add_mod, Nat.add_mod_mod]

open Classical in
theorem sentinel_getD (lens : List Nat) : ∀ (k : Nat) (B : List Nat) (j : Nat), 1 ≤ j → j ≤ k →
    k < B.length →
    (sentinel lens k B).getD j 0 =
      if (∀ i, j ≤ i → i ≤ k → cnt lens i = 0) then M64 - 1 else B.getD j 0 := by
  intro k
  induction k with
  | zero => intro B j h1 h2; omega
  | succ k ih =>
    intro B j h1 h2 hB
    unfold sentinel
    by_cases hc : cnt lens (k + 1) = 0
    · rw [if_pos hc]
      by_cases hj : j = k + 1
      · subst hj
        rw [sentinel_getD_above lens k _ (k + 1) (by omega)]
        have hcond : ∀ i, k + 1 ≤ i → i ≤ k + 1 → cnt lens i = 0 := by
          intro i a b
          have : i = k + 1 := by omega
          rw [this]; exact hc
        rw [if_pos hcond]
        simp [List.getD_eq_getElem?_getD, hB]
      · rw [ih (B.set (k + 1) (M64 - 1)) j h1 (by omega) (by rw [List.length_set]; omega)]
        rw [getD_set_ne _ _ _ _ _ (by omega)]
        by_cases hall : ∀ i, j ≤ i → i ≤ k → cnt lens i = 0
        · rw [if_pos hall, if_pos]
          intro i a b
          by_cases hi : i = k + 1
          · rw [hi]; exact hc
          · exact hall i a (by omega)
        · rw [if_neg hall, if_neg]
          intro h
          exact hall (fun i a b => h i a (by omega))
    · rw [if_neg hc, if_neg]
      intro h
      exact hc (h (k + 1) h2 (Nat.le_refl _))

open Classical in
/-- `base[k]` for `1 ≤ k ≤ 20`: the sentinel `UINT64_MAX` above the longest
code, the left-justified band boundary otherwise. -/
theorem base_getD (lens : List Nat) (h0 : cntL lens 0 = 0) (k : Nat) (k1 : 1 ≤ k) (k20 : k ≤ 20) :
    (mkBase lens).getD k 0 = if TailZero lens k then M64 - 1 else Sw lens 64 k % M64 := by
  unfold mkBase
  have h20 : MAXL = 20 := rfl
  simp only [h20]
  have hlen : ((0 :: (ljLoop lens 20 1 0 ++ [0])).set (20 + 1) (M64 - 1)).length = 22 := by
    simp [ljLoop_length]
  rw [sentinel_getD lens 20 _ k k1 k20 (by rw [hlen]; omega)]
  have hiff : (∀ i, k ≤ i → i ≤ 20 → cnt lens i = 0) ↔ TailZero lens k := by
    unfold TailZero
    constructor
    · intro h j a b; rw [← cnt_eq]; exact h j a b
    · intro h j a b; rw [cnt_eq]; exact h j a b
  by_cases ht : TailZero lens k
  · rw [if_pos (hiff.mpr ht), if_pos ht]
  · rw [if_neg (fun h => ht (hiff.mp h)), if_neg ht]
    rw [getD_set_ne _ _ _ _ _ (by omega)]
    obtain ⟨m, rfl⟩ : ∃ m, k = m + 1 := ⟨k - 1, by omega⟩
    rw [List.getD_cons_succ]
    have hm : m < (ljLoop lens 20 1 0).length := by rw [ljLoop_length]; omega
    rw [List.getD_eq_getElem?_getD, List.getElem?_append_left hm, ← List.getD_eq_getElem?_getD]
    rw [ljLoop_getD lens 20 1 0 m (by omega) (by simp [Sw, h0])]
    congr 2; omega

/-! ### `count[]` -/

theorem cumLoop_getD (lens : List Nat) : ∀ n k cum t, t < n → cum = I lens k →
    (cumLoop lens n k cum).getD t 0 = I lens (k + t) := by
  intro n
  induction n with
  | zero => intro k c t h; omega
  | succ n ih =>
    intro k c t ht hc
    rw [cumLoop]
    cases t with
    | zero => rw [List.getD_cons_zero]; exact hc
    | succ t =>
      rw [List.getD_cons_succ, ih (k + 1) _ t (by omega)]
      · congr 1; omega
      · rw [hc, I, cnt_eq]

theorem count_getD (lens : List Nat) (h0 : cntL lens 0 = 0) (k : Nat) (k1 : 1 ≤ k) (k20 : k ≤ 20) :
    (mkCount lens).getD k 0 = I lens k := by
  unfold mkCount
  obtain ⟨m, rfl⟩ : ∃ m, k = m + 1 := ⟨k - 1, by omega⟩
  rw [List.getD_cons_succ]
  have h20 : MAXL = 20 := rfl
  rw [h20, cumLoop_getD lens 20 1 0 m (by omega) (by simp [I, h0])]
  congr 1; omega

/-! ### `perm[]` -/

theorem range_succ_map : (List.range 20).map (· + 1) = List.range' 1 20 := by decide
theorem range10_succ_map : (List.range 10).map (· + 1) = List.range' 1 10 := by decide

theorem perm_eq' (lens : List Nat) :
    mkPerm lens = ((List.range' 1 20).flatMap (blk lens)).map (renumber lens.length) := by
  unfold mkPerm
  have h20 : MAXL = 20 := rfl
  rw [h20, List.map_flatMap, ← range_succ_map, List.flatMap_map]
  rfl

theorem I_one (lens : List Nat) (h0 : cntL lens 0 = 0) : I lens 1 = 0 := by simp [I, h0]

theorem perm_getD (lens : List Nat) (h0 : cntL lens 0 = 0) (l r i : Nat) (l1 : 1 ≤ l) (l20 : l ≤ 20)
    (hi : (blk lens l)[r]? = some i) :
    (mkPerm lens)[I lens l + r]? = some (renumber lens.length i) := by
  rw [perm_eq', List.getElem?_map]
  obtain ⟨m, rfl⟩ : ∃ m, l = m + 1 := ⟨l - 1, by omega⟩
  have hr : r < (blk lens (1 + m)).length := by
    rw [show 1 + m = m + 1 by omega]
    exact (List.getElem?_eq_some_iff.mp hi).1
  have hI : I lens (m + 1) = ((List.range' 1 m).map (cntL lens)).sum := by
    rw [show m + 1 = 1 + m by omega, I_add, I_one lens h0, Nat.zero_add]
  rw [hI, flat_index lens m 1 20 r (by omega) hr, show 1 + m = m + 1 by omega, hi]
  rfl

/-! ### `start[]`: index bookkeeping for nested `flatMap … replicate` -/

theorem inner_length {α : Type} (bl : List Nat) (W : Nat) (E : Nat → α) :
    (bl.flatMap (fun s => List.replicate W (E s))).length = bl.length * W := by
  induction bl with
  | nil => simp
  | cons s t ih =>
    rw [List.flatMap_cons, List.length_append, ih, List.length_replicate, List.length_cons,
      Nat.succ_mul, Nat.add_comm]

theorem inner_index {α : Type} (bl : List Nat) (W : Nat) (E : Nat → α) : ∀ r u, u < W →
    (bl.flatMap (fun s => List.replicate W (E s)))[r * W + u]? = (bl[r]?).map E := by
  induction bl with
  | nil => intro r u _; simp
  | cons s t ih =>
    intro r u hu
    rw [List.flatMap_cons]
    cases r with
    | zero =>
      rw [Nat.zero_mul, Nat.zero_add, List.getElem?_append_left (by rw [List.length_replicate]; exact hu),
        List.getElem?_replicate, if_pos hu]
      rfl
    | succ r =>
      rw [List.getElem?_append_right (by rw [List.length_replicate, Nat.succ_mul]; omega),
        List.length_replicate]
      have : (r + 1) * W + u - W = r * W + u := by rw [Nat.succ_mul]; omega
      rw [this, ih r u hu]
      rfl

theorem outer_length {α : Type} (lens : List Nat) (Wf : Nat → Nat) (Ef : Nat → Nat → α) :
    ∀ k a, ((List.range' a k).flatMap (fun l => (blk lens l).flatMap
        (fun s => List.replicate (Wf l) (Ef l s)))).length =
      ((List.range' a k).map (fun j => cntL lens j * Wf j)).sum := by
  intro k
  induction k with
  | zero => intro a; simp
  | succ k ih =>
    intro a
    rw [List.range'_succ, List.flatMap_cons, List.length_append, ih (a + 1), inner_length,
      blk_length, List.map_cons, List.sum_cons]

theorem outer_index {α : Type} (lens : List Nat) (Wf : Nat → Nat) (Ef : Nat → Nat → α) :
    ∀ t a k r u, t < k → r < cntL lens (a + t) → u < Wf (a + t) →
      ((List.range' a k).flatMap (fun l => (blk lens l).flatMap
          (fun s => List.replicate (Wf l) (Ef l s))))[
        ((List.range' a t).map (fun j => cntL lens j * Wf j)).sum + r * Wf (a + t) + u]? =
      ((blk lens (a + t))[r]?).map (Ef (a + t)) := by
  intro t
  induction t with
  | zero =>
    intro a k r u hk hr hu
    obtain ⟨k', rfl⟩ : ∃ k', k = k' + 1 := ⟨k - 1, by omega⟩
    rw [List.range'_succ, List.flatMap_cons]
    simp only [List.range'_zero, List.map_nil, List.sum_nil, Nat.zero_add, Nat.add_zero] at hr hu ⊢
    rw [List.getElem?_append_left]
    · exact inner_index _ _ _ r u hu
    · rw [inner_length, blk_length]
      have : (r + 1) * Wf a ≤ cntL lens a * Wf a := Nat.mul_le_mul_right _ hr
      rw [Nat.succ_mul] at this
      omega
  | succ t ih =>
    intro a k r u hk hr hu
    obtain ⟨k', rfl⟩ : ∃ k', k = k' + 1 := ⟨k - 1, by omega⟩
    rw [List.range'_succ, List.flatMap_cons, List.range'_succ, List.map_cons, List.sum_cons]
    rw [List.getElem?_append_right (by rw [inner_length, blk_length]; omega), inner_length, blk_length]
    have e : cntL lens a * Wf a + ((List.range' (a + 1) t).map (fun j => cntL lens j * Wf j)).sum +
        r * Wf (a + (t + 1)) + u - cntL lens a * Wf a =
        ((List.range' (a + 1) t).map (fun j => cntL lens j * Wf j)).sum + r * Wf (a + 1 + t) + u := by
      rw [show a + (t + 1) = a + 1 + t by omega]; omega
    rw [e, ih (a + 1) k' r u (by omega) (by rw [show a + 1 + t = a + (t + 1) by omega]; exact hr)
      (by rw [show a + 1 + t = a + (t + 1) by omega]; exact hu)]
    rw [show a + 1 + t = a + (t + 1) by omega]

theorem Sw_add (lens : List Nat) (e : Nat) : ∀ t a,
    Sw lens e (a + t) = Sw lens e a + ((List.range' a t).map (fun j => cntL lens j * 2 ^ (e - j))).sum := by
  intro t
  induction t with
  | zero => intro a; simp
  | succ t ih =>
    intro a
    rw [show a + (t + 1) = (a + 1) + t by omega, ih (a + 1), List.range'_succ]
    simp only [Sw, List.map_cons, List.sum_cons]
    omega

/-- entry of a complete `start[]` slot -/
def startEntry (n l s : Nat) : Nat := ((renumber n s <<< 5) ||| l) % 2 ^ 16

theorem startFull_eq (lens : List Nat) :
    startFull lens = (List.range' 1 10).flatMap (fun l => (blk lens l).flatMap
      (fun s => List.replicate (2 ^ (10 - l)) (startEntry lens.length l s))) := by
  unfold startFull
  have hsw : SW = 10 := rfl
  rw [hsw, ← range10_succ_map, List.flatMap_map]
  apply flatMap_congr_local
  intro j _
  show (symsOfLen lens (j + 1)).flatMap _ = (blk lens (j + 1)).flatMap _
  apply flatMap_congr_local
  intro s _
  rw [Nat.one_shiftLeft]
  rfl

theorem Sw_one (lens : List Nat) (e : Nat) (h0 : cntL lens 0 = 0) : Sw lens e 1 = 0 := by
  simp [Sw, h0]

theorem startFull_length (lens : List Nat) (h0 : cntL lens 0 = 0) :
    (startFull lens).length = Sw lens 10 11 := by
  rw [startFull_eq, outer_length, show (11 : Nat) = 1 + 10 by rfl, Sw_add, Sw_one lens 10 h0, Nat.zero_add]

theorem startFull_getElem (lens : List Nat) (h0 : cntL lens 0 = 0) (l r u i : Nat) (l1 : 1 ≤ l)
    (l10 : l ≤ 10) (hr : r < cntL lens l) (hu : u < 2 ^ (10 - l)) (hi : (blk lens l)[r]? = some i) :
    (startFull lens)[Sw lens 10 l + r * 2 ^ (10 - l) + u]? = some (startEntry lens.length l i) := by
  obtain ⟨m, rfl⟩ : ∃ m, l = 1 + m := ⟨l - 1, by omega⟩
  rw [startFull_eq, Sw_add, Sw_one lens 10 h0, Nat.zero_add]
  rw [outer_index lens (fun l => 2 ^ (10 - l)) (fun l s => startEntry lens.length l s) m 1 10 r u
    (by omega) hr hu, hi]
  rfl

/-! ### the canonical walk -/

/-- The walk `while (v >= base[k+1]) k++` stops exactly at `L`. -/
structure Stop (B : List Nat) (v L : Nat) : Prop where
  below : ∀ j, j < L → B.getD (j + 1) 0 ≤ v
  above : v < B.getD (L + 1) 0

theorem walkUp_eq (B : List Nat) (v L : Nat) (h : Stop B v L) : ∀ fuel k, k ≤ L → L - k < fuel →
    walkUp B v fuel k = L := by
  intro fuel
  induction fuel with
  | zero => intro k _ h2; omega
  | succ f ih =>
    intro k h1 h2
    unfold walkUp
    by_cases hk : k = L
    · subst hk
      rw [if_neg (by have := h.above; omega)]
    · rw [if_pos (h.below k (by omega))]
      exact ih (k + 1) (by omega) (by omega)

theorem stop_mono (B : List Nat) (v v' L L' : Nat) (hv : v ≤ v') (h : Stop B v L) (h' : Stop B v' L') :
    L ≤ L' := by
  by_cases hlt : L' < L
  · have := h.below L' hlt
    have := h'.above
    omega
  · omega

theorem startRest_getD (B : List Nat) : ∀ n code k t, t < n →
    (∀ c, code ≤ c → c < code + n → ∃ L, L ≤ 20 ∧ Stop B ((c <<< (64 - SW)) % M64) L) →
    (∀ c c', code ≤ c → c ≤ c' → c' < code + n →
      (c <<< (64 - SW)) % M64 ≤ (c' <<< (64 - SW)) % M64) →
    (∀ L, Stop B ((code <<< (64 - SW)) % M64) L → k ≤ L) →
    ∀ L, Stop B (((code + t) <<< (64 - SW)) % M64) L → (startRest B n code k).getD t 0 = L := by
  intro n
  induction n with
  | zero => intro code k t h; omega
  | succ n ih =>
    intro code k t ht hex hmono hk L hL
    obtain ⟨L0, hL020, hL0⟩ := hex code (Nat.le_refl _) (by omega)
    have hw : walkUp B ((code <<< (64 - SW)) % M64) (MAXL + 1) k = L0 :=
      walkUp_eq B _ L0 hL0 _ k (hk L0 hL0) (by show L0 - k < 20 + 1; omega)
    rw [startRest]
    simp only [hw]
    cases t with
    | zero =>
      rw [List.getD_cons_zero]
      have a := stop_mono B _ _ L0 L (Nat.le_refl _) hL0 hL
      have b := stop_mono B _ _ L L0 (Nat.le_refl _) hL hL0
      omega
    | succ t =>
      rw [List.getD_cons_succ]
      apply ih (code + 1) L0 t (by omega)
      · intro c h1 h2; exact hex c (by omega) (by omega)
      · intro c c' h1 h2 h3; exact hmono c c' (by omega) h2 (by omega)
      · intro L1 hL1
        exact stop_mono B _ _ L0 L1 (hmono code (code + 1) (Nat.le_refl _) (by omega) (by omega)) hL0 hL1
      · rw [show code + 1 + t = code + (t + 1) by omega]; exact hL

end LbzVerif.Lemmas.TreeSoundTables
