/-
  Lemmas.CompressWitness — non-vacuity witnesses for Props.C01.Roundtrip and
  Props.C02.Inspect, evaluated by the kernel (isolated here because each
  `decide +kernel` takes 15–30 s: the kernel has no fast path for `UInt8`).

  The contract `ChoicesOK` holds for the simple executable choice function
  (`Model.Compress.simpleChoice`: naive BWT, two copies of the dummy table) on
  the blocks of the witness input of Props.C04.Blocks, `5 5 5 5 5 6 6` with
  capacity 4: `5 5 5 | 5 5 6 6` (`--sequential`, chunks of 2) and
  `5 5 5 | 5 | 5 6 6` (default mode, chunks of 4).
-/
import LbzVerif.Model.Compress

namespace LbzVerif.Lemmas.CompressWitness
open LbzVerif LbzVerif.Model.Compress

def xInput : List UInt8 := [5, 5, 5, 5, 5, 6, 6]

theorem xCut : cutBlocks 4 2 true xInput = [[5, 5, 5], [5, 5, 6, 6]] ∧
    cutBlocks 4 4 false xInput = [[5, 5, 5], [5], [5, 6, 6]] := by decide +kernel

theorem xChoices_seq : ∀ b ∈ cutBlocks 4 2 true xInput,
    ChoicesOK (Spec.rle1 b) (simpleChoice (Spec.rle1 b)) := by decide +kernel

theorem xChoices_non : ∀ b ∈ cutBlocks 4 4 false xInput,
    ChoicesOK (Spec.rle1 b) (simpleChoice (Spec.rle1 b)) := by decide +kernel

end LbzVerif.Lemmas.CompressWitness
