/-
  Lemmas.CompressWitness — non-vacuity witnesses for Props.C01.Roundtrip and
  Props.C02.Inspect.

  The contract `ChoicesOK` holds for the simple executable choice function
  (`Model.Compress.simpleChoice`: naive BWT, two copies of the dummy table) on
  the blocks of the witness input of Props.C04.Blocks, `5 5 5 5 5 6 6` with
  capacity 4: `5 5 5 | 5 5 6 6` (`--sequential`, chunks of 2) and
  `5 5 5 | 5 | 5 6 6` (default mode, chunks of 4).

  The block lists are evaluated by the kernel (under a second).  The contract
  itself is no longer evaluated (that took 15–30 s per statement): it holds
  for every non-empty block by `Lemmas.CompressSimple.simpleChoice_ok_rle`
  (LF-mapping proof, Lemmas/BwtInverse*.lean); the driver still EVALUATES it on
  every campaign case (checks/w23_roundtrip.py).
-/
import LbzVerif.Model.Compress
import LbzVerif.Lemmas.CompressSimple
import LbzVerif.Lemmas.CompressCut

namespace LbzVerif.Lemmas.CompressWitness
open LbzVerif LbzVerif.Model.Compress

def xInput : List UInt8 := [5, 5, 5, 5, 5, 6, 6]

theorem xCut : cutBlocks 4 2 true xInput = [[5, 5, 5], [5, 5, 6, 6]] ∧
    cutBlocks 4 4 false xInput = [[5, 5, 5], [5], [5, 6, 6]] := by decide +kernel

theorem xChoices_seq : ∀ b ∈ cutBlocks 4 2 true xInput,
    ChoicesOK (Spec.rle1 b) (simpleChoice (Spec.rle1 b)) :=
  fun b hb => Lemmas.CompressSimple.simpleChoice_ok_rle b
    (Lemmas.CompressCut.cutBlocks_mem 4 2 true xInput b hb).1

theorem xChoices_non : ∀ b ∈ cutBlocks 4 4 false xInput,
    ChoicesOK (Spec.rle1 b) (simpleChoice (Spec.rle1 b)) :=
  fun b hb => Lemmas.CompressSimple.simpleChoice_ok_rle b
    (Lemmas.CompressCut.cutBlocks_mem 4 4 false xInput b hb).1

end LbzVerif.Lemmas.CompressWitness
