/-
  Lemmas.CompressSimple — the table half of the contract always holds for the
  simple executable choice function (`Model.Compress.simpleChoice`: two copies
  of the dummy table of `generate_prefix_code`, all selectors 0), for every
  non-empty block; what remains of `ChoicesOK` is `BwtOK` of the naive BWT,
  which holds for every non-empty block as well (`Lemmas.BwtInverse.naiveBwt_ok`,
  the LF-mapping argument): `simpleChoice_ok`, `simpleChoice_ok_rle` — the
  contract is satisfiable for every block.
-/
import LbzVerif.Model.Compress
import LbzVerif.Lemmas.CompressMtf
import LbzVerif.Lemmas.BwtInverseNaive
import LbzVerif.Lemmas.Rle1Dec
import LbzVerif.Props.C02

namespace LbzVerif.Lemmas.CompressSimple
open LbzVerif LbzVerif.Model.Compress LbzVerif.Lemmas.CompressMtf

theorem simpleChoice_tablesOK (rb : List UInt8) (hne : rb ≠ []) :
    TablesOK ((usedOf rb).length + 2) (mtfvOf rb (simpleChoice rb).L).length (simpleChoice rb) := by
  have hu1 : 1 ≤ (usedOf rb).length := by
    cases h : usedOf rb with
    | nil => exact absurd h (usedOf_ne rb hne)
    | cons _ _ => simp
  have hu2 := usedOf_length_le rb
  obtain ⟨_, hc, hl⟩ := Props.C02.dummyTable_complete ((usedOf rb).length + 2)
    (by simp only [Gen.MIN_ALPHA_SIZE]; omega) (by simp only [Gen.MAX_ALPHA_SIZE]; omega)
  refine ⟨(by decide : Gen.MIN_TREES ≤ 2), (by decide : 2 ≤ Gen.MAX_TREES), rfl, ?_, ?_, ?_⟩
  · intro l hl'
    have : l = Model.Canon.dummyLens ((usedOf rb).length + 2) := by
      simp only [simpleChoice, List.mem_cons, List.not_mem_nil, or_false, or_self] at hl'
      exact hl'
    rw [this]
    exact ⟨hl, hc⟩
  · simp [simpleChoice]
  · intro s hs
    simp only [simpleChoice] at hs
    rw [List.eq_of_mem_replicate hs]
    exact (by decide : 0 < 2)

theorem simpleChoice_ok_iff (rb : List UInt8) (hne : rb ≠ []) :
    ChoicesOK rb (simpleChoice rb) ↔ BwtOK rb (naiveBwt rb).1 (naiveBwt rb).2 :=
  ⟨fun h => h.1, fun h => ⟨h, simpleChoice_tablesOK rb hne⟩⟩

/-- **The contract holds for the simple choice function on every non-empty
    block** (no evaluation involved). -/
theorem simpleChoice_ok (rb : List UInt8) (hne : rb ≠ []) : ChoicesOK rb (simpleChoice rb) :=
  (simpleChoice_ok_iff rb hne).mpr (Lemmas.BwtInverse.naiveBwt_ok rb hne)

theorem rle1_ne (b : List UInt8) (hne : b ≠ []) : Spec.rle1 b ≠ [] := by
  intro he
  have := Spec.unRle1_rle1 b
  rw [he] at this
  have h0 : Spec.unRle1 [] = some [] := by decide
  rw [h0] at this
  exact hne (Option.some.inj this).symm

/-- … in the form the file theorems ask for: on the run-length encoding of a
    non-empty piece of input -/
theorem simpleChoice_ok_rle (b : List UInt8) (hne : b ≠ []) :
    ChoicesOK (Spec.rle1 b) (simpleChoice (Spec.rle1 b)) :=
  simpleChoice_ok _ (rle1_ne b hne)

end LbzVerif.Lemmas.CompressSimple
