/-
  Lemmas.TransmitCompose — the reference parser `parseBlock` run over the whole
  block `transmit()` wrote: composition of the field-group lemmas.
-/
import LbzVerif.Lemmas.TransmitGroups

namespace LbzVerif.Lemmas.TransmitCompose
open LbzVerif LbzVerif.Basic LbzVerif.Model.Canon LbzVerif.Model.Transmit
open LbzVerif.Lemmas.TransmitLen LbzVerif.Lemmas.TransmitBits LbzVerif.Lemmas.TransmitParse
open LbzVerif.Lemmas.TransmitSelMtf LbzVerif.Lemmas.TransmitGroups
open LbzVerif.Spec.Bzip2

/-- The block the reference parser must return for `b`. -/
def expectedBlock (level start : Nat) (b : EncBlock) : Block :=
  { level := level, startBit := start, endBit := start + cost b,
    storedCrc := b.crc ^^^ 0xFFFFFFFF, rand := false, origPtr := b.bwtIdx,
    used := usedBytes b.cmap, nGroups := b.numTrees,
    selectors := b.selectors ++
      List.replicate (dummySelectors (costBase b)) (b.selectors.getLastD 0),
    tables := b.lens, nSelectorsUsed := b.ns, syms := b.mtfv.dropLast.toArray }

/-- The block body (after the magic), piece by piece. -/
theorem bodyBits_eq (b : EncBlock) (rest : Bits) :
    bodyBits b ++ rest =
      send 32 (b.crc ^^^ 0xFFFFFFFF) ++ (send 1 0 ++ (send 24 b.bwtIdx ++ (bitmapBits b.cmap ++
        (send 3 b.numTrees ++ (send 15 b.numSelectors ++ (selectorBits b ++
          ((List.range b.numTrees).flatMap (tableBits b) ++
            ((List.range b.ns).flatMap (groupBits b) ++ rest)))))))) := by
  unfold bodyBits transmitBits headerBits
  simp only [List.append_assoc]
  rw [← List.append_assoc (send 24 _) (send 24 _)]
  rw [List.drop_left' (by simp [send_length])]
  simp only [List.append_assoc]

theorem ns_def (b : EncBlock) : b.ns = (b.mtfv.length + 49) / 50 := by
  simp [EncBlock.ns, EncBlock.nmtf, Model.Canon.numSelectors, Gen.GROUP_SIZE]

theorem mtfv_length_pos {b : EncBlock} (h : b.mtfv ≠ []) : 1 ≤ b.mtfv.length := by
  cases hm : b.mtfv with
  | nil => exact absurd hm h
  | cons _ _ => simp

theorem ns_pos {b : EncBlock} (h : b.mtfv ≠ []) : 1 ≤ b.ns := by
  have := mtfv_length_pos h
  rw [ns_def]
  omega

theorem selectorMtfOf_range (n : Nat) (hn : n ≤ 6) (sels : List Nat) (h : ∀ c ∈ sels, c < n) :
    selectorMtfOf sels = mtfEnc (List.range n) sels := by
  rw [selectorMtfOf_eq sels (fun c hc => Nat.lt_of_lt_of_le (h c hc) hn)]
  have hr : List.range 6 = List.range n ++ List.range' n (6 - n) := by
    have := List.range_add (n := n) (m := 6 - n)
    rw [show n + (6 - n) = 6 by omega] at this
    rw [this, List.range'_eq_map_range]
  rw [hr, mtfEnc_append _ _ _ (fun c hc => List.mem_range.mpr (h c hc))]

theorem selMtf_form {b : EncBlock} (hw : WF b) :
    b.selectorMtf = mtfEnc (List.range b.numTrees) b.selectors ++
      List.replicate (dummySelectors (costBase b)) 0 := by
  have := hw.selMtf_eq
  rw [selectorMtfOf_range b.numTrees (by have := hw.trees_le; simpa [Gen.MAX_TREES] using this)
    b.selectors hw.sel_lt] at this
  exact this

theorem selMtf_lt {b : EncBlock} (hw : WF b) : ∀ j ∈ b.selectorMtf, j < b.numTrees := by
  intro j hj
  rw [selMtf_form hw, List.mem_append] at hj
  have h2 : 2 ≤ b.numTrees := by have := hw.trees_ge; simpa [Gen.MIN_TREES] using this
  rcases hj with hj | hj
  · have := mtfEnc_lt (List.range b.numTrees) b.selectors
      (fun c hc => List.mem_range.mpr (hw.sel_lt c hc)) j hj
    simpa using this
  · rw [List.eq_of_mem_replicate hj]; omega

theorem numSelectors_lt {b : EncBlock} (hw : WF b) :
    b.numSelectors ≤ 18002 ∧ 1 ≤ b.numSelectors := by
  have h1 := Props.C02.dummySelectors_le (costBase b)
  have h2 := ns_pos hw.mtfv_ne
  have h3 := hw.nmtf_le
  simp only [EncBlock.nmtf, Gen.MAX_BLOCK_SIZE] at h3
  rw [hw.nsel_eq]
  rw [ns_def] at h2 ⊢
  omega

/-- `mtfv` = ordinary symbols, then the end-of-block symbol `as − 1`. -/
theorem mtfv_split {b : EncBlock} (h : b.mtfv ≠ []) :
    b.mtfv = b.mtfv.dropLast ++ [b.alphaSize - 1] := by
  have h1 := List.dropLast_concat_getLast h
  have h2 : b.mtfv.getLast h = b.alphaSize - 1 := by
    unfold EncBlock.alphaSize
    rw [List.getLastD_eq_getLast?, List.getLast?_eq_some_getLast h]
    simp
  rw [h2] at h1
  exact h1.symm

theorem mem_dropLast {α : Type} {l : List α} {x : α} (h : x ∈ l.dropLast) : x ∈ l := by
  induction l with
  | nil => simp at h
  | cons a t ih =>
    cases t with
    | nil => simp at h
    | cons c t' =>
      rw [List.dropLast_cons_cons] at h
      rcases List.mem_cons.mp h with rfl | h
      · exact List.mem_cons_self ..
      · exact List.mem_cons_of_mem _ (ih h)

set_option maxHeartbeats 400000 in
/-- The composition: every stage of `parseBlock` on the transmitted block. -/
theorem parseBlock_transmit (b : EncBlock) (hw : WF b) (hc : Coded b)
    (hsym : ∀ s ∈ b.selectors, SymOK (b.lens.getD s []) (b.codes.getD s []))
    (level start : Nat) (rest : Bits) :
    parseBlock level start (bodyBits b ++ rest) = .ok (expectedBlock level start b, rest) := by
  have hcrc : b.crc ^^^ 0xFFFFFFFF < 2 ^ 32 := Nat.xor_lt_two_pow hw.crc_lt (by decide)
  have hnt2 : 2 ≤ b.numTrees := by have := hw.trees_ge; simpa [Gen.MIN_TREES] using this
  have hnt6 : b.numTrees ≤ 6 := by have := hw.trees_le; simpa [Gen.MAX_TREES] using this
  have hns := numSelectors_lt hw
  have hused : (usedBytes b.cmap).isEmpty = false := by
    cases hu : usedBytes b.cmap with
    | nil => exact absurd hu hc.used_ne
    | cons _ _ => rfl
  have hsl := selectorMtf_length hw
  rw [bodyBits_eq]
  unfold parseBlock
  rw [takeNat_send 32 _ _ hcrc]
  dsimp only
  rw [takeNat_send 1 0 _ (by decide)]
  dsimp only
  rw [takeNat_send 24 _ _ hw.bwt_lt]
  dsimp only
  rw [(readBitmap b.cmap (start + 121) _).1]
  dsimp only
  rw [(readBitmap b.cmap (start + 121) _).2]
  dsimp only
  rw [hused]
  simp only [Bool.false_eq_true, if_false]
  rw [takeNat_send 3 _ _ (by omega)]
  dsimp only
  rw [if_neg (by omega)]
  rw [takeNat_send 15 _ _ (by omega)]
  dsimp only
  rw [if_neg (by omega)]
  -- selectors
  rw [selectorBits_eq b hsl]
  have hrs := readSelectorMtf_unary b.numTrees b.selectorMtf (selMtf_lt hw)
  rw [hsl] at hrs
  rw [hrs]
  dsimp only
  have hsne : b.selectors ≠ [] := by
    intro he
    have := ns_pos hw.mtfv_ne
    rw [← hw.sel_len, he] at this
    simp at this
  have hlast : b.selectors.getLast? = some (b.selectors.getLastD 0) := by
    rw [List.getLastD_eq_getLast?, List.getLast?_eq_some_getLast hsne]
    simp
  have hun := unMtf_mtfEnc_zeros (List.range b.numTrees) b.selectors
    (fun c hc => List.mem_range.mpr (hw.sel_lt c hc)) (dummySelectors (costBase b))
    (b.selectors.getLastD 0) (Or.inl hlast) (Array.mkEmpty b.numSelectors)
  rw [← selMtf_form hw] at hun
  simp only [Array.mkEmpty_eq, Array.empty_append, List.toList_toArray] at hun ⊢
  rw [hun]
  dsimp only
  -- tables
  rw [← hc.alpha_eq]
  have hrt := readTables_tables hw (List.range b.numTrees) (fun t ht => List.mem_range.mp ht)
  rw [List.length_range] at hrt
  rw [hrt]
  dsimp only
  have htab : (List.range b.numTrees).map (fun t => b.lens.getD t []) = b.lens := by
    rw [← hw.lens_len, map_range_getD b.lens [] (fun x => x)]
    simp
  simp only [List.nil_append, htab]
  -- symbols
  rw [groups_eq b hw.sel_len]
  have hpad : b.padded = b.mtfv.dropLast ++ [b.alphaSize - 1] ++
      List.replicate (b.ns * Gen.GROUP_SIZE - b.nmtf) b.alphaSize := by
    unfold EncBlock.padded
    rw [← mtfv_split hw.mtfv_ne]
  have hnm : 1 ≤ b.nmtf := by
    unfold EncBlock.nmtf
    cases hm : b.mtfv with
    | nil => exact absurd hm hw.mtfv_ne
    | cons _ _ => simp
  have hlenL : ∀ s, s < b.lens.length → (b.lens.getD s []).length = b.alphaSize := by
    intro s hs
    have hg : b.lens.getD s [] = b.lens[s] := by
      simp [List.getD_eq_getElem?_getD, List.getElem?_eq_getElem hs]
    rw [hg]; exact (hw.lens_ok _ (List.getElem_mem hs)).1
  have hcompL : ∀ s, s < b.lens.length → Spec.Prefix.Complete (b.lens.getD s []) := by
    intro s hs
    have hg : b.lens.getD s [] = b.lens[s] := by
      simp [List.getD_eq_getElem?_getD, List.getElem?_eq_getElem hs]
    rw [hg]; exact hc.complete _ (List.getElem_mem hs)
  have hdg := decodeGroups_enc b b.alphaSize hlenL hcompL b.selectors
    (fun s hs => by rw [hw.lens_len]; exact hw.sel_lt s hs) hsym (alphaSize_pos b)
    b.mtfv.dropLast
    (fun x hx => ⟨hc.syms_lt x (mem_dropLast hx), by
      have h1 := hc.eob_last x hx
      have h2 := alphaSize_pos b
      omega⟩)
    (b.ns * Gen.GROUP_SIZE - b.nmtf)
    (by rw [ns_def]; simp only [Gen.GROUP_SIZE, EncBlock.nmtf]; omega)
    (by
      rw [hw.sel_len, List.length_dropLast, ns_def]
      simp only [Gen.GROUP_SIZE, EncBlock.nmtf] at hnm ⊢
      omega)
    (List.replicate (dummySelectors (costBase b)) (b.selectors.getLastD 0))
  rw [← hpad] at hdg
  rw [hdg]
  dsimp only
  -- the result
  have hlenT := transmitBits_length hw
  have hb16 : 16 ≤ bitmapCost b.cmap := by unfold bitmapCost; omega
  have hL : (transmitBits b).length = 105 + bitmapCost b.cmap + 3 + 15 +
      (b.selectorMtf.map (· + 1)).sum + ((List.range b.numTrees).flatMap (tableBits b)).length +
      (encG (groupF b) b.selectors b.padded).length := by
    rw [← groups_eq b hw.sel_len, ← selectorBits_length b hsl]
    simp only [transmitBits, List.length_append, headerBits_length, bitmapBits_length, send_length]
  have hend : start + 121 + (bitmapCost b.cmap - 16) + 18 +
      (b.selectorMtf.map (fun x => x + 1)).sum +
      ((List.range b.numTrees).flatMap (tableBits b)).length +
      (encG (groupF b) b.selectors b.padded).length = start + cost b := by
    rw [← hlenT, hL]; omega
  have hsy : (#[] : Array Nat) ++ b.mtfv.dropLast.toArray = b.mtfv.dropLast.toArray := by simp
  have hr : ((0 : Nat) == 1) = false := rfl
  rw [hend, hsy, hr, Nat.zero_add, hw.sel_len]
  rfl

end LbzVerif.Lemmas.TransmitCompose
