/-
  Lemmas.TreeSoundArith — the arithmetic half of `makeTree_sound` (W17).

  For a complete length list the intervals `[offset20 i, offset20 i + width ℓᵢ)`
  TILE `[0, 2^20)`; this file makes the tiling explicit in the form make_tree
  uses: with `S ℓ` = total width of the symbols shorter than `ℓ`
  (`TransmitSym.S`), every 20-bit value `x` lies in exactly one band
  `S ℓ ≤ x < S (ℓ+1)`, the `r = (x − S ℓ) / 2^(20−ℓ)`-th symbol of length `ℓ`
  (in index order) is the symbol whose code word is the top `ℓ` bits of `x`.
-/
import LbzVerif.Spec.Prefix
import LbzVerif.Lemmas.PrefixCanon
import LbzVerif.Lemmas.TransmitSym

namespace LbzVerif.Lemmas.TreeSoundArith
open LbzVerif LbzVerif.Spec.Prefix LbzVerif.Lemmas.PrefixCanon LbzVerif.Lemmas.TransmitSym

/-- `Σ_{j<l} count(j) · 2^(e−j)`: the band boundaries scaled to `e` bits. -/
def Sw (lens : List Nat) (e : Nat) : Nat → Nat
  | 0 => 0
  | l + 1 => Sw lens e l + cntL lens l * 2 ^ (e - l)

theorem S_zero (lens : List Nat) : S lens 0 = 0 := by
  unfold S
  apply sum_map_zero
  intro x _
  simp

theorem S_eq_Sw (lens : List Nat) (l : Nat) : S lens l = Sw lens 20 l := by
  induction l with
  | zero => exact S_zero lens
  | succ l ih => rw [S_succ, ih, Sw]; rfl

theorem Sw_scale (lens : List Nat) (e e' : Nat) (he : e' ≤ e) :
    ∀ l, l ≤ e' + 1 → Sw lens e l = 2 ^ (e - e') * Sw lens e' l := by
  intro l
  induction l with
  | zero => intro _; simp [Sw]
  | succ l ih =>
    intro hl
    rw [Sw, Sw, ih (by omega), Nat.mul_add]
    congr 1
    have : 2 ^ (e - l) = 2 ^ (e - e') * 2 ^ (e' - l) := by
      rw [← Nat.pow_add]; congr 1; omega
    rw [this, Nat.mul_left_comm]

theorem Sw_mono (lens : List Nat) (e : Nat) {a b : Nat} (h : a ≤ b) : Sw lens e a ≤ Sw lens e b := by
  induction b with
  | zero => have : a = 0 := by omega
            subst this; exact Nat.le_refl _
  | succ b ih =>
    by_cases hab : a = b + 1
    · subst hab; exact Nat.le_refl _
    · have := ih (by omega)
      rw [Sw]; omega

theorem S_mono (lens : List Nat) {a b : Nat} (h : a ≤ b) : S lens a ≤ S lens b := by
  rw [S_eq_Sw, S_eq_Sw]; exact Sw_mono lens 20 h

theorem S_top (lens : List Nat) (h : ∀ x ∈ lens, x ≤ 20) : S lens 21 = kraft20 lens := by
  unfold S kraft20
  congr 1
  apply List.map_congr_left
  intro x hx
  have := h x hx
  rw [if_pos (by omega)]

/-- no symbol of length `≥ k` -/
def TailZero (lens : List Nat) (k : Nat) : Prop := ∀ j, k ≤ j → j ≤ 20 → cntL lens j = 0

theorem S_tail (lens : List Nat) (k : Nat) (hk : k ≤ 21) (ht : TailZero lens k) :
    S lens k = S lens 21 := by
  have : ∀ d, k + d ≤ 21 → S lens (k + d) = S lens k := by
    intro d
    induction d with
    | zero => intro _; rfl
    | succ d ih =>
      intro hd
      rw [show k + (d + 1) = (k + d) + 1 by omega, S_succ, ih (by omega), ht (k + d) (by omega) (by omega)]
      simp
  have := this (21 - k) (by omega)
  rw [show k + (21 - k) = 21 by omega] at this
  exact this.symm

theorem S_lt_of_cnt (lens : List Nat) (k j : Nat) (hkj : k ≤ j) (hc : cntL lens j ≠ 0) :
    S lens k + width j ≤ S lens (j + 1) := by
  have h1 := S_mono lens hkj
  rw [S_succ]
  have : width j ≤ cntL lens j * width j := Nat.le_mul_of_pos_left _ (by omega)
  omega

/-- Every `x < 2^20` lies in exactly one band. -/
theorem band_exists (lens : List Nat) (hc : Complete lens) (x : Nat) (hx : x < 2 ^ 20) :
    ∃ l, 1 ≤ l ∧ l ≤ 20 ∧ S lens l ≤ x ∧ x < S lens (l + 1) := by
  have h1 : ∀ y ∈ lens, 1 ≤ y := fun y hy => (hc.2 y hy).1
  have h20 : ∀ y ∈ lens, y ≤ 20 := fun y hy => (hc.2 y hy).2
  have htop : S lens 21 = 2 ^ 20 := by rw [S_top lens h20, hc.1]
  have hone : S lens 1 = 0 := S_one lens h1
  have : ∀ n, x < S lens (n + 1) → ∃ l, 1 ≤ l ∧ l ≤ n ∧ S lens l ≤ x ∧ x < S lens (l + 1) := by
    intro n
    induction n with
    | zero => intro h; rw [hone] at h; omega
    | succ n ih =>
      intro h
      by_cases hn : x < S lens (n + 1)
      · obtain ⟨l, a, b, c, d⟩ := ih hn
        exact ⟨l, a, by omega, c, d⟩
      · exact ⟨n + 1, by omega, Nat.le_refl _, by omega, h⟩
  exact this 20 (by rw [htop]; exact hx)

/-! ### the `r`-th symbol of length `l` -/

theorem blk_nodup (lens : List Nat) (l : Nat) : (blk lens l).Nodup := by
  unfold blk
  exact List.Pairwise.filter _ List.nodup_range

theorem blk_get (lens : List Nat) (l r : Nat) (hr : r < cntL lens l) :
    ∃ i, (blk lens l)[r]? = some i ∧ i < lens.length ∧ lens[i]! = l ∧ rankIn lens i = r := by
  have hlen : r < (blk lens l).length := by rw [blk_length]; exact hr
  refine ⟨(blk lens l)[r], List.getElem?_eq_getElem hlen, ?_⟩
  have hmem : (blk lens l)[r] ∈ blk lens l := List.getElem_mem hlen
  generalize hi : (blk lens l)[r] = i at hmem
  unfold blk at hmem
  rw [List.mem_filter] at hmem
  obtain ⟨m1, m2⟩ := hmem
  have hil : i < lens.length := List.mem_range.mp m1
  have hl : lens[i]! = l := by simpa using m2
  refine ⟨hil, hl, ?_⟩
  have hb := blk_rank lens i hil
  rw [hl] at hb
  obtain ⟨h2, e2⟩ := List.getElem?_eq_some_iff.mp hb
  have : (blk lens l)[rankIn lens i] = (blk lens l)[r] := by rw [e2, hi]
  exact (List.getElem_inj (blk_nodup lens l)).mp this

/-! ### decoding a 20-bit value -/

/-- `x` (20 bits) lies in band `l`, at the `r`-th symbol of that length, which
is symbol `i`. -/
structure Dec (lens : List Nat) (x l r i : Nat) : Prop where
  l1 : 1 ≤ l
  l20 : l ≤ 20
  lo : S lens l ≤ x
  hi : x < S lens (l + 1)
  r_eq : r = (x - S lens l) / width l
  r_lt : r < cntL lens l
  i_eq : (blk lens l)[r]? = some i
  i_lt : i < lens.length
  len : lens[i]! = l
  rank : rankIn lens i = r
  code : canonCode lens i = x / width l

theorem dec_exists (lens : List Nat) (hc : Complete lens) (x : Nat) (hx : x < 2 ^ 20) :
    ∃ l r i, Dec lens x l r i := by
  obtain ⟨l, l1, l20, lo, hi⟩ := band_exists lens hc x hx
  have hw := width_pos l
  have hr : (x - S lens l) / width l < cntL lens l := by
    rw [Nat.div_lt_iff_lt_mul hw]
    rw [S_succ] at hi
    omega
  obtain ⟨i, e, il, len, rk⟩ := blk_get lens l _ hr
  refine ⟨l, _, i, l1, l20, lo, hi, rfl, hr, e, il, len, rk, ?_⟩
  have h1 : ∀ y ∈ lens, 1 ≤ y := fun y hy => (hc.2 y hy).1
  obtain ⟨m, hm⟩ : ∃ m, l = m + 1 := ⟨l - 1, by omega⟩
  have hF : F lens l * width l = S lens l := by rw [hm]; exact F_width lens h1 m (by omega)
  rw [canonCode_rank lens hc i il, len, rk]
  have : x = F lens l * width l + (x - S lens l) := by omega
  conv => rhs; rw [this]
  rw [Nat.mul_comm, Nat.mul_add_div hw]

/-- The bands do not overlap: the band of `x` is determined. -/
theorem dec_len_unique (lens : List Nat) (x l r i l' r' i' : Nat) (h : Dec lens x l r i)
    (h' : Dec lens x l' r' i') : l = l' := by
  by_cases hlt : l < l'
  · have := S_mono lens (show l + 1 ≤ l' by omega)
    have := h.hi; have := h'.lo; omega
  · by_cases hgt : l' < l
    · have := S_mono lens (show l' + 1 ≤ l by omega)
      have := h'.hi; have := h.lo; omega
    · omega

end LbzVerif.Lemmas.TreeSoundArith
