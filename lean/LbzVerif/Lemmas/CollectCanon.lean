/-
  Lemmas.CollectCanon — a one-loop reference machine `canon` (one persistent
  state `(block, rle)`, one byte per iteration, no distinction between "inside a
  call" and "resumed from a previous call"), and the proof that every label of
  `Model.collect` (in-call path and `finish_run` path) computes `canon`.
-/
import LbzVerif.Model.Collect

namespace LbzVerif.Model

/-- Effect of offering one byte to the persistent state. -/
inductive Step where
  | stop (blk : List UInt8)                 -- the byte is refused: block is full
  | next (blk : List UInt8) (rle : Rle)     -- the byte is consumed

def stepByte (cap : Nat) (blk : List UInt8) (rle : Rle) (x : UInt8) : Step :=
  match rle with
  | .full => .stop blk
  | .idle => .next (blk ++ [x]) (.run 1 x)
  | .run r c =>
    if r < 4 then
      if x = c then
        if r = 3 ∧ blk.length + 1 ≥ cap then .stop blk
        else .next (blk ++ [c]) (.run (r + 1) c)
      else .next (blk ++ [x]) (.run 1 x)
    else
      if x = c then
        if r + 1 = MAX_RUN_LENGTH then .next (blk ++ [UInt8.ofNat (MAX_RUN_LENGTH - 4)]) .idle
        else .next blk (.run (r + 1) c)
      else
        if blk.length + 1 ≥ cap then .stop (blk ++ [UInt8.ofNat (r - 4)])
        else .next (blk ++ [UInt8.ofNat (r - 4)] ++ [x]) (.run 1 x)

/-- The reference machine. -/
def canon (cap : Nat) (blk : List UInt8) (rle : Rle) (crc : UInt32) : List UInt8 → Res
  | [] => if blk.length ≥ cap then done cap blk .full crc [] else done cap blk rle crc []
  | x :: p =>
    if blk.length ≥ cap then done cap blk .full crc (x :: p)
    else match stepByte cap blk rle x with
      | .stop blk' => done cap blk' .full crc (x :: p)
      | .next blk' rle' => canon cap blk' rle' (crcStep crc x) p

/-! ### the in-call path -/

theorem main_eq_canon (cap : Nat) (hcap : 1 ≤ cap) : ∀ p : List UInt8,
    (∀ q crc, state0 cap q crc p = canon cap q .idle crc p) ∧
    (∀ ch q crc, state1 cap ch q crc p = canon cap (q ++ [ch]) (.run 1 ch) crc p) ∧
    (∀ ch q crc, state2 cap ch q crc p = canon cap (q ++ [ch]) (.run 2 ch) crc p) ∧
    (∀ ch q crc, state3 cap ch q crc p = canon cap (q ++ [ch]) (.run 3 ch) crc p) ∧
    (∀ ch r q crc, 4 ≤ r → r < MAX_RUN_LENGTH → q.length + 1 ≤ cap →
        state4 cap ch r q crc p = canon cap q (.run r ch) crc p) := by
  have hm : MAX_RUN_LENGTH = 259 := rfl
  intro p
  induction p with
  | nil =>
    refine ⟨?_, ?_, ?_, ?_, ?_⟩
    · intro q crc
      rw [state0, canon]
      by_cases h : q.length > cap - 1
      · have : q.length ≥ cap := by omega
        simp [h, this]
      · have : ¬ q.length ≥ cap := by omega
        simp [h, this]
    · intro ch q crc
      rw [state1, canon]
      by_cases h : (q ++ [ch]).length > cap - 1
      · have : (q ++ [ch]).length ≥ cap := by omega
        simp only [h, this, if_true]
      · have : ¬ (q ++ [ch]).length ≥ cap := by omega
        simp only [h, this, if_false]
    · intro ch q crc
      rw [state2, canon]
      by_cases h : (q ++ [ch]).length > cap - 1
      · have : (q ++ [ch]).length ≥ cap := by omega
        simp only [h, this, if_true]
      · have : ¬ (q ++ [ch]).length ≥ cap := by omega
        simp only [h, this, if_false]
    · intro ch q crc
      rw [state3, canon]
      by_cases h : (q ++ [ch]).length > cap - 1
      · have h1 : (q ++ [ch]).length ≥ cap := by omega
        have h2 : (q ++ [ch]).length ≥ cap - 1 := by omega
        simp only [h, h1, h2, true_or, and_self, if_true]
      · have h1 : ¬ (q ++ [ch]).length ≥ cap := by omega
        simp only [h, h1, peekIs, false_or, Bool.false_eq_true, and_false, if_false]
    · intro ch r q crc h4 hr hq
      rw [state4, canon]
      have : ¬ q.length ≥ cap := by omega
      simp only [this, if_false]
  | cons x p ih =>
    obtain ⟨ih0, ih1, ih2, ih3, ih4⟩ := ih
    refine ⟨?_, ?_, ?_, ?_, ?_⟩
    · intro q crc
      rw [state0, canon]
      by_cases h : q.length > cap - 1
      · have : q.length ≥ cap := by omega
        simp only [h, this, if_true]
      · have : ¬ q.length ≥ cap := by omega
        simp only [h, this, if_false, stepByte]
        exact ih1 x q _
    · intro ch q crc
      rw [state1, canon]
      by_cases h : (q ++ [ch]).length > cap - 1
      · have : (q ++ [ch]).length ≥ cap := by omega
        simp only [h, this, if_true]
      · have : ¬ (q ++ [ch]).length ≥ cap := by omega
        simp only [h, this, if_false, stepByte]
        by_cases hx : x = ch
        · subst hx
          simp only [beq_self_eq_true, if_true, Nat.reduceLT,
            Nat.reduceEqDiff, false_and, if_false]
          exact ih2 x _ _
        · have hb : (x == ch) = false := by simpa using hx
          simp only [hb, hx, Bool.false_eq_true, if_false, Nat.reduceLT, if_true]
          exact ih1 x _ _
    · intro ch q crc
      rw [state2, canon]
      by_cases h : (q ++ [ch]).length > cap - 1
      · have : (q ++ [ch]).length ≥ cap := by omega
        simp only [h, this, if_true]
      · have : ¬ (q ++ [ch]).length ≥ cap := by omega
        simp only [h, this, if_false, stepByte]
        by_cases hx : x = ch
        · subst hx
          simp only [bne_self_eq_false, Bool.false_eq_true, if_false, Nat.reduceLT, if_true,
            Nat.reduceEqDiff, false_and]
          exact ih3 x _ _
        · have hb : (x != ch) = true := by simpa using hx
          simp only [hb, hx, if_true, if_false, Nat.reduceLT]
          exact ih1 x _ _
    · intro ch q crc
      rw [state3, canon]
      by_cases h : (q ++ [ch]).length > cap - 1
      · have h1 : (q ++ [ch]).length ≥ cap := by omega
        have h2 : (q ++ [ch]).length ≥ cap - 1 := by omega
        simp only [h, h1, h2, true_or, and_self, if_true]
      · have h1 : ¬ (q ++ [ch]).length ≥ cap := by omega
        simp only [h, h1, if_false, false_or, stepByte, peekIs]
        by_cases hx : x = ch
        · subst hx
          simp only [beq_self_eq_true, bne_self_eq_false, Bool.false_eq_true, if_false,
            Nat.lt_add_one, if_true, true_and, and_true]
          by_cases hq : (q ++ [x]).length ≥ cap - 1
          · have : (q ++ [x]).length + 1 ≥ cap := by omega
            simp only [hq, this, if_true]
          · have h5 : ¬ (q ++ [x]).length + 1 ≥ cap := by omega
            simp only [hq, h5, if_false]
            refine ih4 x 4 _ _ (by omega) (by omega) ?_
            simp only [List.length_append, List.length_cons, List.length_nil] at h5 ⊢
            omega
        · have hb : (x != ch) = true := by simpa using hx
          have hb' : (x == ch) = false := by simpa using hx
          simp only [hb, hb', hx, Bool.false_eq_true, and_false, if_false, if_true, Nat.lt_add_one]
          exact ih1 x _ _
    · intro ch r q crc h4 hr hq
      rw [state4, canon]
      have hn : ¬ q.length ≥ cap := by omega
      have hr4 : ¬ r < 4 := by omega
      simp only [hn, if_false, stepByte, hr4]
      by_cases hx : x = ch
      · subst hx
        simp only [bne_self_eq_false, Bool.false_eq_true, if_false, if_true]
        by_cases hr1 : r + 1 < MAX_RUN_LENGTH
        · have : ¬ r + 1 = MAX_RUN_LENGTH := by omega
          simp only [hr1, this, if_true, if_false]
          exact ih4 x (r + 1) q _ (by omega) hr1 hq
        · have h259 : r + 1 = MAX_RUN_LENGTH := by omega
          have hnl : ¬ MAX_RUN_LENGTH < MAX_RUN_LENGTH := Nat.lt_irrefl _
          simp only [h259, hnl, if_true, if_false]
          exact ih0 _ _
      · have hb : (x != ch) = true := by simpa using hx
        simp only [hb, hx, if_true, if_false]
        by_cases hfit : (q ++ [UInt8.ofNat (r - 4)]).length ≤ cap - 1
        · have : ¬ q.length + 1 ≥ cap := by
            simp only [List.length_append, List.length_cons, List.length_nil] at hfit; omega
          simp only [hfit, this, if_true, if_false]
          exact ih1 x _ _
        · have : q.length + 1 ≥ cap := by
            simp only [List.length_append, List.length_cons, List.length_nil] at hfit; omega
          simp only [hfit, this, if_true, if_false]

theorem state0_eq_canon (cap : Nat) (hcap : 1 ≤ cap) (q : List UInt8) (crc : UInt32)
    (p : List UInt8) : state0 cap q crc p = canon cap q .idle crc p :=
  (main_eq_canon cap hcap p).1 q crc

/-! ### the resume path -/

theorem finishLong_eq_canon (cap : Nat) (hcap : 1 ≤ cap) (ch : UInt8) (p : List UInt8) :
    ∀ (r : Nat) (q : List UInt8) (crc : UInt32), 4 ≤ r → r < MAX_RUN_LENGTH →
      q.length + 1 ≤ cap →
      finishLong cap ch r q crc p = canon cap q (.run r ch) crc p := by
  induction p with
  | nil =>
    intro r q crc h4 hr hq
    have : ¬ q.length ≥ cap := by omega
    simp only [finishLong, canon, this, if_false]
  | cons x p ih =>
    intro r q crc h4 hr hq
    have hn : ¬ q.length ≥ cap := by omega
    have hr4 : ¬ r < 4 := by omega
    rw [finishLong, canon]
    simp only [hn, if_false, stepByte, hr4]
    by_cases hx : x = ch
    · subst hx
      simp only [bne_self_eq_false, Bool.false_eq_true, if_false, if_true]
      by_cases hr1 : r + 1 = MAX_RUN_LENGTH
      · simp only [hr1, beq_self_eq_true, if_true]
        exact state0_eq_canon cap hcap _ _ _
      · have hb : (r + 1 == MAX_RUN_LENGTH) = false := by simpa using hr1
        simp only [hr1, hb, Bool.false_eq_true, if_false]
        exact ih (r + 1) q _ (by omega) (by omega) hq
    · have hb : (x != ch) = true := by simpa using hx
      simp only [hb, hx, if_true, if_false]
      rw [state0_eq_canon cap hcap, canon]
      by_cases hfit : q.length + 1 ≥ cap
      · have : (q ++ [UInt8.ofNat (r - 4)]).length ≥ cap := by
          simp only [List.length_append, List.length_cons, List.length_nil]; omega
        simp only [hfit, this, if_true]
      · have : ¬ (q ++ [UInt8.ofNat (r - 4)]).length ≥ cap := by
          simp only [List.length_append, List.length_cons, List.length_nil]; omega
        simp only [hfit, this, if_false, stepByte]

theorem finishRun_eq_canon (cap : Nat) (hcap : 1 ≤ cap) (ch : UInt8) (p : List UInt8) :
    ∀ (r : Nat) (q : List UInt8) (crc : UInt32), 1 ≤ r → r < MAX_RUN_LENGTH →
      (4 ≤ r → q.length + 1 ≤ cap) →
      finishRun cap ch r q crc p = canon cap q (.run r ch) crc p := by
  have hm : MAX_RUN_LENGTH = 259 := rfl
  induction p with
  | nil =>
    intro r q crc h1 hr hq
    rw [finishRun, canon]
    by_cases h : q.length > cap - 1
    · have h1 : q.length ≥ cap := by omega
      have h2 : q.length ≥ cap - 1 := by omega
      simp only [h, h1, h2, true_or, and_self, if_true]
    · have h1 : ¬ q.length ≥ cap := by omega
      simp only [h, h1, peekIs, false_or, Bool.false_eq_true, and_false, if_false]
  | cons x p ih =>
    intro r q crc h1 hr hq
    rw [finishRun, canon]
    by_cases h : q.length > cap - 1
    · have h1 : q.length ≥ cap := by omega
      have h2 : q.length ≥ cap - 1 := by omega
      simp only [h, h1, h2, true_or, and_self, if_true]
    · have hn : ¬ q.length ≥ cap := by omega
      simp only [h, hn, if_false, false_or, peekIs, stepByte]
      by_cases hr4 : r ≥ 4
      · have hr3 : (r == 3) = false := by simp; omega
        have hlt : ¬ r < 4 := by omega
        simp only [hr3, Bool.false_eq_true, false_and, and_false, if_false, hr4, if_true]
        rw [finishLong_eq_canon cap hcap ch (x :: p) r q crc hr4 hr (hq hr4), canon]
        simp only [hn, if_false, stepByte, hlt]
      · have hlt : r < 4 := by omega
        simp only [hr4, hlt, if_false, if_true]
        by_cases hx : x = ch
        · subst hx
          simp only [beq_self_eq_true, and_true, bne_self_eq_false, Bool.false_eq_true,
            if_false, if_true]
          by_cases hstop : r = 3 ∧ q.length + 1 ≥ cap
          · have hr3 : (r == 3) = true := by simp [hstop.1]
            have : q.length ≥ cap - 1 := by omega
            simp only [this, and_self, if_true, hstop]
            simp
          · have : ¬ (q.length ≥ cap - 1 ∧ (r == 3) = true) := by
              intro hc
              apply hstop
              have : r = 3 := by simpa using hc.2
              exact ⟨this, by omega⟩
            simp only [this, hstop, if_false]
            refine ih (r + 1) _ _ (by omega) (by omega) ?_
            intro h4
            have hr3 : r = 3 := by omega
            simp only [List.length_append, List.length_cons, List.length_nil]
            have : ¬ q.length + 1 ≥ cap := fun hc => hstop ⟨hr3, hc⟩
            omega
        · have hb : (x != ch) = true := by simpa using hx
          have hb' : (x == ch) = false := by simpa using hx
          simp only [hb, hb', hx, Bool.false_eq_true, and_false, if_false, if_true]
          rw [state0_eq_canon cap hcap, canon]
          simp only [hn, if_false, stepByte]

end LbzVerif.Model
