/-
  Lemmas.PrefixOpt — meaning of the length-limited dynamic programme.

  `optN L h m gs` is the recursion the tables of `Spec.Prefix.optSorted`
  memoise (`Lemmas.PrefixOptTable`): at depth `d = L - h`, with `m` open nodes
  and the frequencies `gs` (sorted descending) still to place.  Here:

  * `optN_attained` — a value `some c` is the cost of an actual length list
    `ls` with `d ≤ ℓ ≤ L` and `Σ 2^(L-ℓ) = m·2^h`;
  * `optN_le` — for EVERY such length list (not only monotone ones: the
    exchange step `swapFront` is inside the induction) the value is `some c`
    with `c ≤ cost gs ls`;
  * transport between `f` and `sortDesc f` (`toSorted`, `fromSorted`).
-/
import LbzVerif.Spec.Prefix

namespace LbzVerif.Lemmas.PrefixOpt
open LbzVerif.Spec.Prefix

/-! ### the recursion -/

/-- One level: `below` is the value function of the next depth. -/
def optRow (d : Nat) (below : Nat → List Nat → Option Nat) : Nat → List Nat → Option Nat
  | 0, [] => some 0
  | 0, _ :: _ => none
  | _ + 1, [] => none
  | m + 1, g :: gs => omin (oadd (g * d) (optRow d below m gs)) (below (2 * (m + 1)) (g :: gs))

/-- `h` levels remain below depth `L - h`. -/
def optN (L : Nat) : Nat → Nat → List Nat → Option Nat
  | 0 => optRow L (fun _ _ => none)
  | h + 1 => optRow (L - (h + 1)) (optN L h)

/-- `Σ 2^(L-ℓ)`. -/
def kraftL (L : Nat) (ls : List Nat) : Nat := (ls.map (fun l => 2 ^ (L - l))).sum

theorem omin_le_left (a : Nat) (y : Option Nat) : ∃ c, omin (some a) y = some c ∧ c ≤ a := by
  cases y with
  | none => exact ⟨a, rfl, Nat.le_refl _⟩
  | some b => exact ⟨min a b, rfl, Nat.min_le_left _ _⟩

theorem omin_le_right (x : Option Nat) (b : Nat) : ∃ c, omin x (some b) = some c ∧ c ≤ b := by
  cases x with
  | none => exact ⟨b, rfl, Nat.le_refl _⟩
  | some a => exact ⟨min a b, rfl, Nat.min_le_right _ _⟩

theorem omin_eq_some (x y : Option Nat) (c : Nat) (h : omin x y = some c) :
    x = some c ∨ y = some c := by
  cases x with
  | none => right; simpa [omin] using h
  | some a =>
    cases y with
    | none => left; simpa [omin] using h
    | some b =>
      simp only [omin, Option.some.injEq] at h
      by_cases hab : a ≤ b
      · left; rw [Nat.min_eq_left hab] at h; rw [h]
      · right; rw [Nat.min_eq_right (by omega)] at h; rw [h]

theorem oadd_eq_some (k : Nat) (x : Option Nat) (c : Nat) (h : oadd k x = some c) :
    ∃ c', x = some c' ∧ c = k + c' := by
  cases x with
  | none => simp [oadd] at h
  | some a => exact ⟨a, rfl, by simpa [oadd, eq_comm] using h⟩

theorem cost_cons (g : Nat) (gs : List Nat) (l : Nat) (ls : List Nat) :
    cost (g :: gs) (l :: ls) = g * l + cost gs ls := by
  simp [cost]

theorem kraftL_cons (L l : Nat) (ls : List Nat) :
    kraftL L (l :: ls) = 2 ^ (L - l) + kraftL L ls := by
  simp [kraftL]

/-! ### attained -/

theorem optRow_attained (L d h : Nat) (hd : d + h = L) (below : Nat → List Nat → Option Nat)
    (hb : ∀ m gs c, below m gs = some c → 0 < h ∧ ∃ ls : List Nat, ls.length = gs.length ∧
      (∀ l ∈ ls, d + 1 ≤ l ∧ l ≤ L) ∧ kraftL L ls = m * 2 ^ (h - 1) ∧ cost gs ls = c) :
    ∀ gs m c, optRow d below m gs = some c → ∃ ls : List Nat, ls.length = gs.length ∧
      (∀ l ∈ ls, d ≤ l ∧ l ≤ L) ∧ kraftL L ls = m * 2 ^ h ∧ cost gs ls = c := by
  intro gs
  induction gs with
  | nil =>
    intro m c hc
    cases m with
    | zero =>
      simp only [optRow, Option.some.injEq] at hc
      exact ⟨[], rfl, by simp, by simp [kraftL], by simp [cost, hc]⟩
    | succ m => simp [optRow] at hc
  | cons g t ih =>
    intro m c hc
    cases m with
    | zero => simp [optRow] at hc
    | succ m =>
      simp only [optRow] at hc
      rcases omin_eq_some _ _ _ hc with h1 | h2
      · obtain ⟨c', hc', hcc⟩ := oadd_eq_some _ _ _ h1
        obtain ⟨ls, hl, hr, hk, hcost⟩ := ih m c' hc'
        refine ⟨d :: ls, by simp [hl], ?_, ?_, ?_⟩
        · intro l hl'
          rcases List.mem_cons.mp hl' with e | e
          · subst e; omega
          · exact hr l e
        · rw [kraftL_cons, hk]
          have : L - d = h := by omega
          rw [this, Nat.succ_mul]; omega
        · rw [cost_cons, hcost, hcc]
      · obtain ⟨hpos, ls, hl, hr, hk, hcost⟩ := hb _ _ _ h2
        refine ⟨ls, hl, ?_, ?_, hcost⟩
        · intro l hl'; have := hr l hl'; omega
        · rw [hk]
          obtain ⟨h', rfl⟩ : ∃ h', h = h' + 1 := ⟨h - 1, by omega⟩
          simp only [Nat.add_sub_cancel, Nat.pow_succ]
          rw [Nat.mul_comm 2 (m + 1), Nat.mul_assoc, Nat.mul_comm 2 (2 ^ h')]

theorem optN_attained (L : Nat) : ∀ h, h ≤ L → ∀ m gs c, optN L h m gs = some c →
    ∃ ls : List Nat, ls.length = gs.length ∧ (∀ l ∈ ls, L - h ≤ l ∧ l ≤ L) ∧
      kraftL L ls = m * 2 ^ h ∧ cost gs ls = c := by
  intro h
  induction h with
  | zero =>
    intro _ m gs c hc
    have := optRow_attained L L 0 (by omega) (fun _ _ => none) (by intro m gs c hc; simp at hc)
      gs m c hc
    simpa using this
  | succ h ih =>
    intro hle m gs c hc
    have := optRow_attained L (L - (h + 1)) (h + 1) (by omega) (optN L h)
      (by
        intro m gs c hc
        obtain ⟨ls, hl, hr, hk, hcost⟩ := ih (by omega) m gs c hc
        refine ⟨by omega, ls, hl, ?_, by simpa using hk, hcost⟩
        intro l hl'; have := hr l hl'; omega)
      gs m c hc
    exact this

/-! ### lower bound, with the exchange step -/

theorem exch (g0 g1 l0 d : Nat) (hg : g1 ≤ g0) (hl : d ≤ l0) :
    g0 * d + g1 * l0 ≤ g0 * l0 + g1 * d := by
  obtain ⟨a, rfl⟩ : ∃ a, g0 = g1 + a := ⟨g0 - g1, by omega⟩
  obtain ⟨b, rfl⟩ : ∃ b, l0 = d + b := ⟨l0 - d, by omega⟩
  simp only [Nat.add_mul, Nat.mul_add]
  omega

/-- Bring a length `d` (present somewhere in `l0 :: ls`, and not larger than
`l0`) to the front, handing `l0` to the symbol that had it; frequencies in `gs`
do not exceed `g0`, so the cost does not go up. -/
theorem swapFront (L d g0 l0 : Nat) (hl : d ≤ l0) :
    ∀ (ls gs : List Nat), gs.length = ls.length → (∀ g ∈ gs, g ≤ g0) → d ∈ ls →
    ∃ ls2 : List Nat, ls2.length = ls.length ∧
      kraftL L ls2 + 2 ^ (L - d) = kraftL L ls + 2 ^ (L - l0) ∧
      (∀ l ∈ ls2, l = l0 ∨ l ∈ ls) ∧
      g0 * d + cost gs ls2 ≤ g0 * l0 + cost gs ls := by
  intro ls
  induction ls with
  | nil => intro gs _ _ hm; cases hm
  | cons l1 lt ih =>
    intro gs hlen hg hm
    obtain ⟨g1, gt, rfl⟩ := List.exists_cons_of_length_eq_add_one (by simpa using hlen)
    have hlen' : gt.length = lt.length := by simpa using hlen
    by_cases h1 : l1 = d
    · subst h1
      refine ⟨l0 :: lt, by simp, ?_, ?_, ?_⟩
      · simp only [kraftL_cons]; omega
      · intro l hl'
        rcases List.mem_cons.mp hl' with e | e
        · exact Or.inl e
        · exact Or.inr (List.mem_cons_of_mem _ e)
      · simp only [cost_cons]
        have := exch g0 g1 l0 l1 (hg g1 (List.mem_cons_self ..)) hl
        omega
    · have hm' : d ∈ lt := by
        rcases List.mem_cons.mp hm with e | e
        · exact absurd e.symm h1
        · exact e
      obtain ⟨ls2, h2l, h2k, h2m, h2c⟩ :=
        ih gt hlen' (fun g hg' => hg g (List.mem_cons_of_mem _ hg')) hm'
      refine ⟨l1 :: ls2, by simp [h2l], ?_, ?_, ?_⟩
      · simp only [kraftL_cons]; omega
      · intro l hl'
        rcases List.mem_cons.mp hl' with e | e
        · exact Or.inr (e ▸ List.mem_cons_self ..)
        · rcases h2m l e with e' | e'
          · exact Or.inl e'
          · exact Or.inr (List.mem_cons_of_mem _ e')
      · simp only [cost_cons]; omega

theorem kraftL_pos_of_ne_nil (L : Nat) (ls : List Nat) (h : ls ≠ []) : 0 < kraftL L ls := by
  cases ls with
  | nil => exact absurd rfl h
  | cons l t => rw [kraftL_cons]; have := Nat.two_pow_pos (L - l); omega

theorem optRow_le (L d h : Nat) (hd : d + h = L) (below : Nat → List Nat → Option Nat)
    (hb : 0 < h → ∀ m gs ls, List.Pairwise (· ≥ ·) gs → ls.length = gs.length →
      (∀ l ∈ ls, d + 1 ≤ l ∧ l ≤ L) → kraftL L ls = m * 2 ^ (h - 1) →
      ∃ c, below m gs = some c ∧ c ≤ cost gs ls) :
    ∀ gs m ls, List.Pairwise (· ≥ ·) gs → ls.length = gs.length →
      (∀ l ∈ ls, d ≤ l ∧ l ≤ L) → kraftL L ls = m * 2 ^ h →
      ∃ c, optRow d below m gs = some c ∧ c ≤ cost gs ls := by
  intro gs
  induction gs with
  | nil =>
    intro m ls _ hlen _ hk
    have : ls = [] := List.length_eq_zero_iff.mp (by simpa using hlen)
    subst this
    have h2 := Nat.two_pow_pos h
    have hm : m = 0 := by
      cases m with
      | zero => rfl
      | succ m =>
        simp only [kraftL, List.map_nil, List.sum_nil, Nat.succ_mul] at hk
        omega
    subst hm
    exact ⟨0, rfl, Nat.zero_le _⟩
  | cons g t ih =>
    intro m ls hs hlen hr hk
    obtain ⟨l0, lt, rfl⟩ := List.exists_cons_of_length_eq_add_one (by simpa using hlen)
    have hlen' : lt.length = t.length := by simpa using hlen
    have hs' := List.pairwise_cons.mp hs
    have h2 := Nat.two_pow_pos h
    cases m with
    | zero =>
      have := kraftL_pos_of_ne_nil L (l0 :: lt) (by simp)
      simp only [Nat.zero_mul] at hk
      omega
    | succ m =>
      have hLd : L - d = h := by omega
      by_cases hex : d ∈ l0 :: lt
      · -- some symbol sits at depth d: move that length to the front
        have hl0 := hr l0 (List.mem_cons_self ..)
        obtain ⟨ls2, h2l, h2k, h2m, h2c⟩ :
            ∃ ls2 : List Nat, ls2.length = lt.length ∧
              kraftL L ls2 + 2 ^ (L - d) = kraftL L lt + 2 ^ (L - l0) ∧
              (∀ l ∈ ls2, l = l0 ∨ l ∈ lt) ∧
              g * d + cost t ls2 ≤ g * l0 + cost t lt := by
          by_cases e0 : l0 = d
          · subst e0
            exact ⟨lt, rfl, rfl, fun l hl => Or.inr hl, Nat.le_refl _⟩
          · have hm' : d ∈ lt := by
              rcases List.mem_cons.mp hex with e | e
              · exact absurd e.symm e0
              · exact e
            exact swapFront L d g l0 hl0.1 lt t hlen'.symm (fun g' hg' => hs'.1 g' hg') hm'
        have hk2 : kraftL L ls2 = m * 2 ^ h := by
          rw [kraftL_cons] at hk
          rw [hLd] at h2k
          rw [Nat.succ_mul] at hk
          omega
        have hr2 : ∀ l ∈ ls2, d ≤ l ∧ l ≤ L := by
          intro l hl
          rcases h2m l hl with e | e
          · subst e; exact hl0
          · exact hr l (List.mem_cons_of_mem _ e)
        obtain ⟨c', hc', hcle⟩ := ih m ls2 hs'.2 (by omega) hr2 hk2
        simp only [optRow, hc', oadd]
        obtain ⟨c, hc, hcle2⟩ := omin_le_left (g * d + c') (below (2 * (m + 1)) (g :: t))
        refine ⟨c, hc, ?_⟩
        rw [cost_cons]
        omega
      · -- nobody at depth d: everything is deeper, descend
        have hdeep : ∀ l ∈ l0 :: lt, d + 1 ≤ l ∧ l ≤ L := by
          intro l hl
          have := hr l hl
          have : l ≠ d := fun e => hex (e ▸ hl)
          omega
        have hpos : 0 < h := by
          have := hdeep l0 (List.mem_cons_self ..)
          omega
        obtain ⟨h', rfl⟩ : ∃ h', h = h' + 1 := ⟨h - 1, by omega⟩
        have hk' : kraftL L (l0 :: lt) = (2 * (m + 1)) * 2 ^ (h' + 1 - 1) := by
          rw [hk]
          simp only [Nat.add_sub_cancel, Nat.pow_succ]
          rw [Nat.mul_comm 2 (m + 1), Nat.mul_assoc, Nat.mul_comm 2 (2 ^ h')]
        obtain ⟨c', hc', hcle⟩ := hb hpos (2 * (m + 1)) (g :: t) (l0 :: lt) hs hlen hdeep hk'
        simp only [optRow, hc']
        obtain ⟨c, hc, hcle2⟩ := omin_le_right (oadd (g * d) (optRow d below m t)) c'
        exact ⟨c, hc, by omega⟩

theorem optN_le (L : Nat) : ∀ h, h ≤ L → ∀ m gs ls, List.Pairwise (· ≥ ·) gs →
    ls.length = gs.length → (∀ l ∈ ls, L - h ≤ l ∧ l ≤ L) → kraftL L ls = m * 2 ^ h →
    ∃ c, optN L h m gs = some c ∧ c ≤ cost gs ls := by
  intro h
  induction h with
  | zero =>
    intro _ m gs ls hs hl hr hk
    exact optRow_le L L 0 (by omega) (fun _ _ => none) (by intro h; omega) gs m ls hs hl
      (by simpa using hr) hk
  | succ h ih =>
    intro hle m gs ls hs hl hr hk
    exact optRow_le L (L - (h + 1)) (h + 1) (by omega) (optN L h)
      (by
        intro _ m gs ls hs hl hr hk
        exact ih (by omega) m gs ls hs hl (by intro l hl'; have := hr l hl'; omega)
          (by simpa using hk))
      gs m ls hs hl hr hk

/-! ### between `f` and `sortDesc f` -/

theorem insertDesc_length (x : Nat) (ys : List Nat) : (insertDesc x ys).length = ys.length + 1 := by
  induction ys with
  | nil => rfl
  | cons y t ih => unfold insertDesc; split <;> simp [ih]

theorem sortDesc_length (f : List Nat) : (sortDesc f).length = f.length := by
  induction f with
  | nil => rfl
  | cons x t ih => simp [sortDesc, insertDesc_length, ih]

theorem insertDesc_mem (x : Nat) (ys : List Nat) (z : Nat) (h : z ∈ insertDesc x ys) :
    z = x ∨ z ∈ ys := by
  induction ys with
  | nil => simpa [insertDesc] using h
  | cons y t ih =>
    unfold insertDesc at h
    split at h
    · rcases List.mem_cons.mp h with e | e
      · exact Or.inl e
      · exact Or.inr e
    · rcases List.mem_cons.mp h with e | e
      · exact Or.inr (e ▸ List.mem_cons_self ..)
      · rcases ih e with e' | e'
        · exact Or.inl e'
        · exact Or.inr (List.mem_cons_of_mem _ e')

theorem insertDesc_sorted (x : Nat) (ys : List Nat) (h : List.Pairwise (· ≥ ·) ys) :
    List.Pairwise (· ≥ ·) (insertDesc x ys) := by
  induction ys with
  | nil => simp [insertDesc]
  | cons y t ih =>
    have hy := List.pairwise_cons.mp h
    unfold insertDesc
    split
    · rename_i hlt
      apply List.pairwise_cons.mpr
      refine ⟨?_, h⟩
      intro z hz
      rcases List.mem_cons.mp hz with e | e
      · subst e; exact Nat.le_of_lt hlt
      · have := hy.1 z e; show x ≥ z; omega
    · rename_i hge
      apply List.pairwise_cons.mpr
      refine ⟨?_, ih hy.2⟩
      intro z hz
      rcases insertDesc_mem x t z hz with e | e
      · subst e; show y ≥ z; omega
      · exact hy.1 z e

theorem sortDesc_sorted (f : List Nat) : List.Pairwise (· ≥ ·) (sortDesc f) := by
  induction f with
  | nil => simp [sortDesc]
  | cons x t ih => exact insertDesc_sorted x _ ih

/-- "Same multiset" as far as this development needs it. -/
def Same (a b : List Nat) : Prop :=
  a.length = b.length ∧ (∀ φ : Nat → Nat, (a.map φ).sum = (b.map φ).sum) ∧ (∀ l, l ∈ a ↔ l ∈ b)

theorem Same.refl (a : List Nat) : Same a a := ⟨rfl, fun _ => rfl, fun _ => Iff.rfl⟩

theorem Same.cons (x : Nat) {a b : List Nat} (h : Same a b) : Same (x :: a) (x :: b) := by
  refine ⟨by simp [h.1], fun φ => by simp [h.2.1 φ], fun l => ?_⟩
  simp [h.2.2 l]

theorem Same.swap (x y : Nat) (a : List Nat) : Same (x :: y :: a) (y :: x :: a) := by
  refine ⟨by simp, fun φ => by simp only [List.map_cons, List.sum_cons]; omega, fun l => ?_⟩
  simp only [List.mem_cons]
  constructor <;> (intro h; rcases h with h | h | h <;> simp [h])

theorem Same.trans {a b c : List Nat} (h1 : Same a b) (h2 : Same b c) : Same a c :=
  ⟨h1.1.trans h2.1, fun φ => (h1.2.1 φ).trans (h2.2.1 φ), fun l => (h1.2.2 l).trans (h2.2.2 l)⟩

/-- Lengths for `x :: ys` can be re-arranged for `insertDesc x ys` at equal cost. -/
theorem insert_to (x l0 : Nat) : ∀ (ys lt : List Nat), lt.length = ys.length →
    ∃ ls : List Nat, Same ls (l0 :: lt) ∧ cost (insertDesc x ys) ls = x * l0 + cost ys lt := by
  intro ys
  induction ys with
  | nil =>
    intro lt hl
    have : lt = [] := List.length_eq_zero_iff.mp (by simpa using hl)
    subst this
    exact ⟨[l0], Same.refl _, by simp [insertDesc, cost]⟩
  | cons y t ih =>
    intro lt hl
    obtain ⟨l1, lt', rfl⟩ := List.exists_cons_of_length_eq_add_one (by simpa using hl)
    unfold insertDesc
    split
    · exact ⟨l0 :: l1 :: lt', Same.refl _, by simp [cost_cons]⟩
    · obtain ⟨ls, hs, hc⟩ := ih lt' (by simpa using hl)
      refine ⟨l1 :: ls, (Same.cons l1 hs).trans (Same.swap l1 l0 lt'), ?_⟩
      simp only [cost_cons, hc]; omega

/-- … and back. -/
theorem insert_from (x : Nat) : ∀ (ys ls : List Nat), ls.length = ys.length + 1 →
    ∃ l0 lt, Same (l0 :: lt) ls ∧ lt.length = ys.length ∧
      cost (insertDesc x ys) ls = x * l0 + cost ys lt := by
  intro ys
  induction ys with
  | nil =>
    intro ls hl
    obtain ⟨l0, lt, rfl⟩ := List.exists_cons_of_length_eq_add_one hl
    have : lt = [] := List.length_eq_zero_iff.mp (by simpa using hl)
    subst this
    exact ⟨l0, [], Same.refl _, rfl, by simp [insertDesc, cost]⟩
  | cons y t ih =>
    intro ls hl
    obtain ⟨l1, lt1, rfl⟩ := List.exists_cons_of_length_eq_add_one hl
    have hl1 : lt1.length = t.length + 1 := by simpa using hl
    unfold insertDesc
    split
    · obtain ⟨l2, lt2, rfl⟩ := List.exists_cons_of_length_eq_add_one hl1
      exact ⟨l1, l2 :: lt2, Same.refl _, by simpa using hl1, by simp [cost_cons]⟩
    · obtain ⟨l0, lt, hs, hlen, hc⟩ := ih lt1 hl1
      refine ⟨l0, l1 :: lt, (Same.swap l0 l1 lt).trans (Same.cons l1 hs), by simp [hlen], ?_⟩
      simp only [cost_cons, hc]; omega

theorem toSorted : ∀ (f lens : List Nat), lens.length = f.length →
    ∃ ls : List Nat, Same ls lens ∧ cost (sortDesc f) ls = cost f lens := by
  intro f
  induction f with
  | nil =>
    intro lens hl
    have : lens = [] := List.length_eq_zero_iff.mp (by simpa using hl)
    subst this
    exact ⟨[], Same.refl _, rfl⟩
  | cons x t ih =>
    intro lens hl
    obtain ⟨l0, lt, rfl⟩ := List.exists_cons_of_length_eq_add_one (by simpa using hl)
    obtain ⟨lt', hs, hc⟩ := ih lt (by simpa using hl)
    obtain ⟨ls, hs2, hc2⟩ := insert_to x l0 (sortDesc t) lt'
      (by rw [sortDesc_length, hs.1]; simpa using hl)
    refine ⟨ls, hs2.trans (Same.cons l0 hs), ?_⟩
    simp only [sortDesc, hc2, hc, cost_cons]

theorem fromSorted : ∀ (f ls : List Nat), ls.length = f.length →
    ∃ lens : List Nat, Same lens ls ∧ cost f lens = cost (sortDesc f) ls := by
  intro f
  induction f with
  | nil =>
    intro ls hl
    have : ls = [] := List.length_eq_zero_iff.mp (by simpa using hl)
    subst this
    exact ⟨[], Same.refl _, rfl⟩
  | cons x t ih =>
    intro ls hl
    obtain ⟨l0, lt, hs, hlen, hc⟩ := insert_from x (sortDesc t) ls
      (by rw [sortDesc_length]; simpa using hl)
    obtain ⟨lt', hs', hc'⟩ := ih lt (by rw [hlen, sortDesc_length])
    refine ⟨l0 :: lt', (Same.cons l0 hs').trans hs, ?_⟩
    simp only [sortDesc, hc, hc', cost_cons]

/-! ### `kraft20` against `kraftL` -/

theorem sum_map_mul_left (c : Nat) (l : List Nat) (f : Nat → Nat) :
    (l.map (fun x => c * f x)).sum = c * (l.map f).sum := by
  induction l with
  | nil => simp
  | cons a t ih => simp only [List.map_cons, List.sum_cons, ih, Nat.mul_add]

theorem kraft20_eq (L : Nat) (hL : L ≤ 20) (ls : List Nat) (h : ∀ l ∈ ls, l ≤ L) :
    kraft20 ls = 2 ^ (20 - L) * kraftL L ls := by
  unfold kraft20 kraftL
  rw [← sum_map_mul_left]
  congr 1
  apply List.map_congr_left
  intro l hl
  have := h l hl
  unfold width
  rw [← Nat.pow_add]
  congr 1
  omega

/-- Complete within `L` ⇔ `Σ 2^(L-ℓ) = 2^L` with all lengths in `1..L`. -/
theorem completeWithin_iff (L : Nat) (hL : L ≤ 20) (ls : List Nat) :
    CompleteWithin L ls ↔ (kraftL L ls = 2 ^ L ∧ ∀ l ∈ ls, 1 ≤ l ∧ l ≤ L) := by
  have e20 : (2 : Nat) ^ 20 = 2 ^ (20 - L) * 2 ^ L := by
    rw [← Nat.pow_add]; congr 1; omega
  have hp := Nat.two_pow_pos (20 - L)
  constructor
  · rintro ⟨⟨hk, hr⟩, hle⟩
    rw [kraft20_eq L hL ls hle, e20] at hk
    exact ⟨Nat.eq_of_mul_eq_mul_left hp hk, fun l hl => ⟨(hr l hl).1, hle l hl⟩⟩
  · rintro ⟨hk, hr⟩
    have hle : ∀ l ∈ ls, l ≤ L := fun l hl => (hr l hl).2
    refine ⟨⟨?_, fun l hl => ⟨(hr l hl).1, by have := hle l hl; omega⟩⟩, hle⟩
    rw [kraft20_eq L hL ls hle, hk, e20]

end LbzVerif.Lemmas.PrefixOpt
