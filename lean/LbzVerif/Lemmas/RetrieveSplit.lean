/-
  Lemmas.RetrieveSplit — suspension / resumption of `Model.Retrieve`:
  running over `a ++ b` is running over `a`, and, if that suspends, resuming
  over `b`.  First for `toTop` (word feeding), then for the group loop and a
  whole call of the retriever WITHOUT its fast branch (`run false`); the fast
  branch is brought in by `Lemmas.RetrieveFast`.
-/
import LbzVerif.Model.Retrieve

set_option linter.unusedSimpArgs false

namespace LbzVerif.Lemmas.RetrieveSplit
open LbzVerif LbzVerif.Model.Retrieve

/-! ### `drain` / `toTop` -/

theorem normPc_w (st : St) : (normPc st).w = st.w := by
  unfold normPc; split <;> rfl

theorem normPc_idem (st : St) : normPc (normPc st) = normPc st := by
  unfold normPc
  by_cases h : st.pc = .init
  · simp [h]
  · simp [h]

/-- A state handed out by `drain` as "needs a word" has fewer than 32 live bits
and a stored resume state. -/
theorem drain_need : ∀ (f : Nat) (st st' : St), drain f st = .need st' →
    st'.w < 32 ∧ normPc st' = st' := by
  intro f
  induction f with
  | zero => intro st st' h; simp [drain] at h
  | succ f ih =>
    intro st st' h
    unfold drain at h
    split at h
    · rename_i hw
      injection h with h; subst h
      exact ⟨by rw [normPc_w]; exact hw, normPc_idem st⟩
    · split at h
      · split at h
        · exact ih _ _ h
        · cases h
      · cases h
      · cases h

theorem drain_at_need (st : St) (hw : st.w < 32) (hn : normPc st = st) :
    drain (st.w + 1) st = .need st := by
  unfold drain
  simp [hw, hn]

def addRest : Out → List Nat → Out
  | .halt r st rest, b => .halt r st (rest ++ b)
  | .top st rest, b => .top st (rest ++ b)
  | .susp st, _ => .susp st

/-- `toTop` on a `NEED` state that has to fetch: nothing but the fetch. -/
theorem toTop_at_need (st : St) (hw : st.w < 32) (hn : normPc st = st) (ws : List Nat) :
    toTop st ws = match ws with
      | [] => .susp st
      | x :: ws' => toTop (refill st x) ws' := by
  cases ws with
  | nil => unfold toTop; rw [drain_at_need st hw hn]
  | cons x ws' => rw [toTop]; rw [drain_at_need st hw hn]

/-- **Word feeding splits.**  The words `a ++ b` in one go = the words `a`,
and if the retriever then waits for input (`susp`), going on with `b`. -/
theorem toTop_append (a b : List Nat) : ∀ st : St,
    toTop st (a ++ b) = match toTop st a with
      | .susp st' => toTop st' b
      | o => addRest o b := by
  induction a with
  | nil =>
    intro st
    simp only [List.nil_append]
    cases hd : drain (st.w + 1) st with
    | done r st' =>
      have h1 : toTop st [] = .halt r st' [] := by unfold toTop; rw [hd]
      rw [h1]
      cases b with
      | nil => exact h1
      | cons x b' => rw [toTop, hd]; rfl
    | top st' =>
      have h1 : toTop st [] = .top st' [] := by unfold toTop; rw [hd]
      rw [h1]
      cases b with
      | nil => exact h1
      | cons x b' => rw [toTop, hd]; rfl
    | need st' =>
      have h1 : toTop st [] = .susp st' := by unfold toTop; rw [hd]
      rw [h1]
      obtain ⟨hw, hn⟩ := drain_need _ _ _ hd
      cases b with
      | nil => simp only; rw [h1, toTop_at_need st' hw hn]
      | cons x b' =>
        simp only
        rw [toTop, hd, toTop_at_need st' hw hn]
  | cons x a' ih =>
    intro st
    simp only [List.cons_append]
    cases hd : drain (st.w + 1) st with
    | done r st' =>
      have h1 : toTop st (x :: a') = .halt r st' (x :: a') := by rw [toTop, hd]
      have h2 : toTop st (x :: (a' ++ b)) = .halt r st' (x :: (a' ++ b)) := by rw [toTop, hd]
      rw [h1, h2]; rfl
    | top st' =>
      have h1 : toTop st (x :: a') = .top st' (x :: a') := by rw [toTop, hd]
      have h2 : toTop st (x :: (a' ++ b)) = .top st' (x :: (a' ++ b)) := by rw [toTop, hd]
      rw [h1, h2]; rfl
    | need st' =>
      have h1 : toTop st (x :: a') = toTop (refill st' x) a' := by rw [toTop, hd]
      have h2 : toTop st (x :: (a' ++ b)) = toTop (refill st' x) (a' ++ b) := by rw [toTop, hd]
      rw [h1, h2]
      exact ih _

/-- A suspended state is a proper resume state. -/
theorem toTop_susp (ws : List Nat) : ∀ (st st' : St), toTop st ws = .susp st' →
    st'.w < 32 ∧ normPc st' = st' := by
  induction ws with
  | nil =>
    intro st st' h
    unfold toTop at h
    cases hd : drain (st.w + 1) st with
    | done r s => rw [hd] at h; cases h
    | top s => rw [hd] at h; cases h
    | need s =>
      rw [hd] at h
      injection h with h; subst h
      exact drain_need _ _ _ hd
  | cons x ws ih =>
    intro st st' h
    rw [toTop] at h
    cases hd : drain (st.w + 1) st with
    | done r s => rw [hd] at h; cases h
    | top s => rw [hd] at h; cases h
    | need s => rw [hd] at h; exact ih _ _ h

/-! ### the group phase keeps `pc = prefix`, `num_selectors`, and counts `g` -/

/-- `st'` is at `NEED(S_PREFIX)` in the same group as `st`. -/
def SameGroup (st st' : St) : Prop :=
  st'.pc = .prefix ∧ st'.numSel = st.numSel ∧ st'.g = st.g

/-- `st'` is at the top of the next group. -/
def NextGroup (st st' : St) : Prop :=
  st'.pc = .prefix ∧ st'.numSel = st.numSel ∧ st'.g = st.g + 1

theorem dump_fields (st st1 : St) (k : Nat) (h : dump st k = some st1) :
    st1.pc = st.pc ∧ st1.numSel = st.numSel ∧ st1.g = st.g ∧ st1.w < st.w ∧ st1.w = st.w - k := by
  unfold dump at h
  split at h
  · cases h
  · rename_i hk
    injection h with h; subst h
    refine ⟨rfl, rfl, rfl, ?_, rfl⟩
    simp only
    omega

theorem eobFinish_done (st : St) : ∃ r s', eobFinish st = .done r s' := by
  unfold eobFinish errS
  split
  · exact ⟨_, _, rfl⟩
  · simp only
    split
    · exact ⟨_, _, rfl⟩
    · split
      · exact ⟨_, _, rfl⟩
      · exact ⟨_, _, rfl⟩

theorem eobFinish_not_cont (st : St) : (∀ s, eobFinish st ≠ .cont s) ∧ (∀ s, eobFinish st ≠ .top s) := by
  obtain ⟨r, s', h⟩ := eobFinish_done st
  rw [h]
  exact ⟨fun s => by simp, fun s => by simp⟩

theorem step_prefix (st : St) (hpc : st.pc = .prefix) :
    (∀ st', step st = .cont st' → SameGroup st st' ∧ st'.w < st.w) ∧
    (∀ st', step st = .top st' → NextGroup st st') := by
  have hs : step st = stepPrefix st := by unfold step; rw [hpc]
  rw [hs]
  unfold stepPrefix
  split
  · exact ⟨fun _ h => (by simp [ubS, errS] at h), fun _ h => (by simp [ubS, errS] at h)⟩
  · split
    · exact ⟨fun _ h => (by simp [ubS, errS] at h), fun _ h => (by simp [ubS, errS] at h)⟩
    · split
      · exact ⟨fun _ h => (by simp [ubS, errS] at h), fun _ h => (by simp [ubS, errS] at h)⟩
      · rename_i st1 hd
        obtain ⟨h1, h2, h3, h4, _⟩ := dump_fields _ _ _ hd
        split
        · exact ⟨fun s h => absurd h ((eobFinish_not_cont st1).1 s),
            fun s h => absurd h ((eobFinish_not_cont st1).2 s)⟩
        · exact ⟨fun _ h => (by simp [ubS, errS] at h), fun _ h => (by simp [ubS, errS] at h)⟩
        · unfold nextSym
          split
          · refine ⟨fun s h => ?_, fun _ h => (by cases h)⟩
            injection h with h; subst h
            exact ⟨⟨by simpa [hpc] using h1, h2, h3⟩, h4⟩
          · refine ⟨fun _ h => (by cases h), fun s h => ?_⟩
            injection h with h; subst h
            exact ⟨by simpa [hpc] using h1, h2, by simp [h3]⟩

theorem normPc_prefix (st : St) (h : st.pc = .prefix) : normPc st = st := by
  unfold normPc; simp [h]

theorem drain_prefix : ∀ (f : Nat) (st : St), st.pc = .prefix →
    (∀ st', drain f st = .need st' → SameGroup st st') ∧
    (∀ st', drain f st = .top st' → NextGroup st st') := by
  intro f
  induction f with
  | zero => intro st _; exact ⟨fun _ h => (by simp [drain] at h), fun _ h => (by simp [drain] at h)⟩
  | succ f ih =>
    intro st hpc
    unfold drain
    split
    · refine ⟨fun s h => ?_, fun _ h => (by cases h)⟩
      injection h with h; subst h
      rw [normPc_prefix st hpc]; exact ⟨hpc, rfl, rfl⟩
    · obtain ⟨hc, ht⟩ := step_prefix st hpc
      split
      · rename_i s1 hs1
        obtain ⟨⟨p1, p2, p3⟩, hw⟩ := hc s1 hs1
        rw [if_pos hw]
        obtain ⟨i1, i2⟩ := ih s1 p1
        refine ⟨fun s h => ?_, fun s h => ?_⟩
        · obtain ⟨q1, q2, q3⟩ := i1 s h; exact ⟨q1, q2.trans p2, q3.trans p3⟩
        · obtain ⟨q1, q2, q3⟩ := i2 s h; exact ⟨q1, q2.trans p2, by rw [q3, p3]⟩
      · rename_i s1 hs1
        refine ⟨fun _ h => (by cases h), fun s h => ?_⟩
        injection h with h; subst h
        exact ht _ hs1
      · exact ⟨fun _ h => (by cases h), fun _ h => (by cases h)⟩

theorem toTop_prefix (ws : List Nat) : ∀ (st : St), st.pc = .prefix →
    (∀ st', toTop st ws = .susp st' → SameGroup st st') ∧
    (∀ st' r, toTop st ws = .top st' r → NextGroup st st') := by
  induction ws with
  | nil =>
    intro st hpc
    obtain ⟨d1, d2⟩ := drain_prefix (st.w + 1) st hpc
    unfold toTop
    cases hd : drain (st.w + 1) st with
    | done r s => exact ⟨fun _ h => (by cases h), fun _ _ h => (by cases h)⟩
    | top s =>
      refine ⟨fun _ h => (by cases h), fun s' r h => ?_⟩
      injection h with h _; subst h; exact d2 _ hd
    | need s =>
      refine ⟨fun s' h => ?_, fun _ _ h => (by cases h)⟩
      injection h with h; subst h; exact d1 _ hd
  | cons x ws ih =>
    intro st hpc
    obtain ⟨d1, d2⟩ := drain_prefix (st.w + 1) st hpc
    rw [toTop]
    cases hd : drain (st.w + 1) st with
    | done r s => exact ⟨fun _ h => (by cases h), fun _ _ h => (by cases h)⟩
    | top s =>
      refine ⟨fun _ h => (by cases h), fun s' r h => ?_⟩
      injection h with h _; subst h; exact d2 _ hd
    | need s =>
      obtain ⟨p1, p2, p3⟩ := d1 _ hd
      obtain ⟨i1, i2⟩ := ih (refill s x) p1
      refine ⟨fun s' h => ?_, fun s' r h => ?_⟩
      · obtain ⟨q1, q2, q3⟩ := i1 s' h; exact ⟨q1, q2.trans p2, q3.trans p3⟩
      · obtain ⟨q1, q2, q3⟩ := i2 s' r h
        exact ⟨q1, q2.trans p2, by rw [q3]; show s.g + 1 = st.g + 1; rw [p3]⟩

/-! ### the group loop and a whole call, fast branch removed -/

def addRestR : RunOut → List Nat → RunOut
  | .halt r st rest, b => .halt r st (rest ++ b)
  | .susp st, _ => .susp st

theorem selectTree_fields (st st1 : St) (h : selectTree st = .ok st1) :
    st1.numSel = st.numSel ∧ st1.g = st.g := by
  unfold selectTree at h
  simp only at h
  split at h
  · cases h
  · injection h with h; subst h; exact ⟨rfl, rfl⟩

theorem groups_append : ∀ (n : Nat) (st : St) (a b : List Nat), st.numSel - st.g = n →
    groups false n st (a ++ b) = match groups false n st a with
      | .susp st' => run false st' b
      | o => addRestR o b := by
  intro n
  induction n with
  | zero => intro st a b _; simp [groups, addRestR]
  | succ n ih =>
    intro st a b hn
    rw [groups, groups]
    cases hsel : selectTree st with
    | error e => simp [addRestR]
    | ok st1 =>
      obtain ⟨f1, f2⟩ := selectTree_fields st st1 hsel
      simp only [Bool.false_eq_true, false_and, if_false]
      have hpc : ({ st1 with pc := Pc.prefix, j := 0 } : St).pc = .prefix := rfl
      rw [toTop_append a b]
      cases ht : toTop { st1 with pc := Pc.prefix, j := 0 } a with
      | halt r s rest => simp [addRest, addRestR]
      | top st2 ws2 =>
        obtain ⟨_, q2, q3⟩ := (toTop_prefix a _ hpc).2 st2 ws2 ht
        simp only [addRest]
        apply ih
        simp only at q2 q3
        omega
      | susp s' =>
        obtain ⟨p1, p2, p3⟩ := (toTop_prefix a _ hpc).1 s' ht
        simp only
        unfold run
        cases ht2 : toTop s' b with
        | halt r s rest => rfl
        | susp s2 => rfl
        | top st2 ws2 =>
          obtain ⟨_, q2, q3⟩ := (toTop_prefix b s' p1).2 st2 ws2 ht2
          simp only at p2 p3
          have : st2.numSel - st2.g = n := by omega
          simp only [this]

/-- **One call splits** (retriever without the fast branch). -/
theorem run_append (st : St) (a b : List Nat) :
    run false st (a ++ b) = match run false st a with
      | .susp st' => run false st' b
      | o => addRestR o b := by
  unfold run
  rw [toTop_append a b]
  cases ht : toTop st a with
  | halt r s rest => simp [addRest, addRestR]
  | susp s' => simp only
  | top st1 rest =>
    simp only [addRest]
    exact groups_append _ st1 rest b rfl

theorem ofStep_eobFinish_ne_susp (st : St) (ws : List Nat) (s : St) :
    ofStep (eobFinish st) ws ≠ .susp s := by
  obtain ⟨r, s', he⟩ := eobFinish_done st
  rw [he]; simp [ofStep]

/-- A suspended call leaves a proper resume state. -/
theorem groups_susp (fast : Bool) : ∀ (n : Nat) (st : St) (ws : List Nat) (st' : St),
    groups fast n st ws = .susp st' → st'.w < 32 ∧ normPc st' = st' := by
  intro n
  induction n with
  | zero => intro st ws st' h; simp [groups] at h
  | succ n ih =>
    intro st ws st' h
    rw [groups] at h
    cases hsel : selectTree st with
    | error e => rw [hsel] at h; cases h
    | ok st1 =>
      rw [hsel] at h
      simp only at h
      split at h
      · cases hf : fastGroup st1 ws with
        | halt r s rest => rw [hf] at h; cases h
        | top st2 ws2 => rw [hf] at h; exact ih _ _ _ h
        | susp s =>
          -- the fast branch never suspends
          exfalso
          unfold fastGroup at hf
          split at hf
          · split at hf <;> cases hf
          · split at hf
            · cases hf
            · exact absurd hf (ofStep_eobFinish_ne_susp _ _ _)
            · cases hf
      · cases ht : toTop { st1 with pc := Pc.prefix, j := 0 } ws with
        | halt r s rest => rw [ht] at h; cases h
        | top st2 ws2 => rw [ht] at h; exact ih _ _ _ h
        | susp s =>
          rw [ht] at h
          injection h with h; subst h
          exact toTop_susp _ _ _ ht

theorem run_susp (fast : Bool) (st : St) (ws : List Nat) (st' : St)
    (h : run fast st ws = .susp st') : st'.w < 32 ∧ normPc st' = st' := by
  unfold run at h
  cases ht : toTop st ws with
  | halt r s rest => rw [ht] at h; cases h
  | susp s => rw [ht] at h; injection h with h; subst h; exact toTop_susp _ _ _ ht
  | top st1 rest => rw [ht] at h; exact groups_susp fast _ _ _ _ h

end LbzVerif.Lemmas.RetrieveSplit
