/-
  Lemmas.ScanAuto — the bit automaton run on bit strings:
  `findAcc s bits` = number of bits read until `mini_dfa` first reaches ACCEPT.
  Connects it (a) to the pattern through `lps` (Spec side) and (b) to the
  absorbing runs that `big_dfa` performs.
-/
import LbzVerif.Lemmas.ScanLps
import LbzVerif.Lemmas.ScanMiniTab
import LbzVerif.Lemmas.ScanBigTab
import LbzVerif.Lemmas.ScanBits

namespace LbzVerif.Lemmas.ScanAuto

open LbzVerif.Model.Scan LbzVerif.Spec.Scan LbzVerif.Lemmas.ScanLps
  LbzVerif.Lemmas.ScanMiniTab LbzVerif.Lemmas.ScanBits

/-- Bits read from state `s` until ACCEPT is first reached. -/
def findAcc : Nat → List Bool → Option Nat
  | _, [] => none
  | s, b :: bs =>
    if mini s b = accept then some 1 else (findAcc (mini s b) bs).map (· + 1)

/-- State after reading `bits` (meaningful while ACCEPT is not reached). -/
def run (s : Nat) (bits : List Bool) : Nat := bits.foldl mini s

theorem findAcc_bounds (s : Nat) (bits : List Bool) (k : Nat)
    (h : findAcc s bits = some k) : 1 ≤ k ∧ k ≤ bits.length := by
  induction bits generalizing s k with
  | nil => simp [findAcc] at h
  | cons b t ih =>
    unfold findAcc at h
    split at h
    · cases h; simp
    · cases hf : findAcc (mini s b) t with
      | none => simp [hf] at h
      | some k' =>
        simp [hf] at h
        have := ih _ _ hf
        subst h
        simp; omega

theorem findAcc_append (s : Nat) (a b : List Bool) :
    findAcc s (a ++ b) =
      match findAcc s a with
      | some k => some k
      | none => (findAcc (run s a) b).map (· + a.length) := by
  induction a generalizing s with
  | nil => simp [findAcc, run]
  | cons x t ih =>
    simp only [List.cons_append, findAcc]
    split
    · rfl
    · rw [ih]
      cases hf : findAcc (mini s x) t with
      | some k => simp
      | none =>
        simp only [Option.map_none, run, List.foldl_cons, List.length_cons]
        cases findAcc (List.foldl mini (mini s x) t) b with
        | none => rfl
        | some k => simp; omega

theorem run_append (s : Nat) (a b : List Bool) : run s (a ++ b) = run (run s a) b := by
  simp [run]

theorem run_lt (s : Nat) (bits : List Bool) (hs : s < 48)
    (h : findAcc s bits = none) : run s bits < 48 := by
  induction bits generalizing s with
  | nil => simpa [run]
  | cons b t ih =>
    unfold findAcc at h
    split at h
    · cases h
    · rename_i hne
      have hle := mini_le s hs b
      rw [accept_eq] at hne
      have : mini s b < 48 := by omega
      simp only [run, List.foldl_cons]
      apply ih _ this
      cases hf : findAcc (mini s b) t with
      | none => rfl
      | some k => simp [hf] at h

/-! ### absorbing runs (what `big_dfa` tabulates) -/

theorem absRun_accept (bits : List Bool) : bits.foldl miniAbs 48 = 48 := by
  induction bits with
  | nil => rfl
  | cons b t ih =>
    simp only [List.foldl_cons]
    have : miniAbs 48 b = 48 := by simp [miniAbs, accept_eq]
    rw [this, ih]

theorem absRun_eq (s : Nat) (bits : List Bool) (hs : s < 48) :
    bits.foldl miniAbs s = if (findAcc s bits).isSome then 48 else run s bits := by
  induction bits generalizing s with
  | nil => simp [findAcc, run]
  | cons b t ih =>
    have hne : s ≠ accept := by rw [accept_eq]; omega
    simp only [List.foldl_cons, findAcc, miniAbs, hne, if_false]
    by_cases hm : mini s b = accept
    · simp only [hm, if_true, Option.isSome_some]
      rw [accept_eq]; exact absRun_accept t
    · have hle := mini_le s hs b
      have hlt : mini s b < 48 := by rw [accept_eq] at hm; omega
      rw [ih _ hlt]
      simp only [hm, if_false, Option.isSome_map, run, List.foldl_cons]

theorem absRun_le (s : Nat) (bits : List Bool) (hs : s ≤ 48) :
    bits.foldl miniAbs s ≤ 48 := by
  rcases Nat.lt_or_ge s 48 with h | h
  · rw [absRun_eq s bits h]
    split
    · exact Nat.le_refl _
    · rename_i hn
      have : findAcc s bits = none := by
        cases hf : findAcc s bits with
        | none => rfl
        | some k => simp [hf] at hn
      exact Nat.le_of_lt (run_lt s bits h this)
  · have : s = 48 := by omega
    rw [this, absRun_accept]; exact Nat.le_refl _

theorem big_le (s c : Nat) (hs : s ≤ 48) (hc : c < 256) : big s c ≤ 48 := by
  rw [ScanBigTab.big_rows s (by omega) c hc]
  exact absRun_le _ _ hs

/-- The four table lookups for one word = absorbing run over its 32 bits. -/
theorem wordStep_eq (s w : Nat) (hs : s ≤ 48) (hw : w < 2 ^ 32) :
    wordStep s w = (bitsMSB 32 w).foldl miniAbs s := by
  have h256 : ∀ x : Nat, x % 256 < 256 := fun x => Nat.mod_lt _ (by decide)
  have h24 : w >>> 24 < 256 := by
    rw [Nat.shiftRight_eq_div_pow]
    apply Nat.div_lt_of_lt_mul
    have : (2 : Nat) ^ 24 * 256 = 2 ^ 32 := by decide
    omega
  rw [bitsMSB_word, List.foldl_append, List.foldl_append, List.foldl_append]
  unfold wordStep
  have b := ScanBigTab.big_rows
  have e1 := b s (by omega) _ h24
  have l1 := big_le s _ hs h24
  have e2 := b _ (by omega : big s (w >>> 24) < 49) _ (h256 (w >>> 16))
  have l2 := big_le _ _ l1 (h256 (w >>> 16))
  have e3 := b _ (by omega : big (big s (w >>> 24)) ((w >>> 16) % 256) < 49) _
    (h256 (w >>> 8))
  have l3 := big_le _ _ l2 (h256 (w >>> 8))
  have e4 := b _ (by omega :
    big (big (big s (w >>> 24)) ((w >>> 16) % 256)) ((w >>> 8) % 256) < 49) _ (h256 w)
  simp only []
  rw [e4, e3, e2, e1]

/-- `wordStep` reaches ACCEPT iff the bit automaton does so inside the word;
otherwise it is the plain run. -/
theorem wordStep_spec (s w : Nat) (hs : s < 48) (hw : w < 2 ^ 32) :
    wordStep s w =
      if (findAcc s (bitsMSB 32 w)).isSome then 48 else run s (bitsMSB 32 w) := by
  rw [wordStep_eq s w (by omega) hw, absRun_eq s _ hs]

/-! ### connection with the pattern -/

theorem P_take_all : P.take 48 = P := by
  rw [List.take_of_length_le]; rw [P_length]; exact Nat.le_refl _

theorem lps_le (w : List Bool) : lps w ≤ 48 := lpsFrom_le P w 48

theorem lps_eq_48_iff (w : List Bool) : lps w = 48 ↔ P <:+ w := by
  constructor
  · intro h
    have := lpsFrom_suffix P w 48
    unfold lps patLen at h
    rw [h, P_take_all] at this
    exact this
  · intro h
    have h1 := lpsFrom_max P w 48 48 (Nat.le_refl _) (by rw [P_take_all]; exact h)
    have h2 := lps_le w
    unfold lps patLen at *
    omega

/-- One automaton step from `lps w` is `lps (w ++ [b])`. -/
theorem mini_lps (w : List Bool) (b : Bool) (h : lps w < 48) :
    mini (lps w) b = lps (w ++ [b]) := by
  rw [mini_eq_delta _ h b]
  exact (lpsFrom_step P w patLen (by decide) b).symm

/-- `findAcc` from the state `lps w` finds the first extension of `w` that
ends with the pattern. -/
theorem findAcc_lps (w bits : List Bool) (h : lps w < 48) :
    match findAcc (lps w) bits with
    | some k => P <:+ w ++ bits.take k ∧
        ∀ j, 1 ≤ j → j < k → ¬ P <:+ w ++ bits.take j
    | none => ∀ j, 1 ≤ j → j ≤ bits.length → ¬ P <:+ w ++ bits.take j := by
  induction bits generalizing w with
  | nil =>
    simp only [findAcc]
    intro j h1 h2
    simp at h2
    omega
  | cons b t ih =>
    simp only [findAcc]
    rw [mini_lps w b h]
    by_cases hacc : lps (w ++ [b]) = accept
    · simp only [hacc, if_true]
      rw [accept_eq, lps_eq_48_iff] at hacc
      refine ⟨by simpa using hacc, ?_⟩
      intro j h1 h2; omega
    · simp only [hacc, if_false]
      have hlt : lps (w ++ [b]) < 48 := by
        have := lps_le (w ++ [b]); rw [accept_eq] at hacc; omega
      have hnot : ¬ P <:+ w ++ [b] := by
        rw [← lps_eq_48_iff]; omega
      have ih' := ih (w ++ [b]) hlt
      cases hf : findAcc (lps (w ++ [b])) t with
      | some k =>
        rw [hf] at ih'
        simp only [Option.map_some]
        obtain ⟨i1, i2⟩ := ih'
        refine ⟨by simpa using i1, ?_⟩
        intro j h1 h2
        cases j with
        | zero => omega
        | succ j' =>
          cases j' with
          | zero => simpa using hnot
          | succ j'' =>
            have := i2 (j'' + 1) (by omega) (by omega)
            simpa using this
      | none =>
        rw [hf] at ih'
        simp only [Option.map_none]
        intro j h1 h2
        cases j with
        | zero => omega
        | succ j' =>
          cases j' with
          | zero => simpa using hnot
          | succ j'' =>
            have := ih' (j'' + 1) (by omega) (by simp at h2; omega)
            simpa using this

theorem lps_nil : lps [] = 0 := by decide

/-- From the initial state: `findAcc 0 bits = some k` iff `k` is the length of
the shortest prefix of `bits` that ends with the pattern. -/
theorem findAcc_zero (bits : List Bool) :
    match findAcc 0 bits with
    | some k => P <:+ bits.take k ∧ ∀ j, j < k → ¬ P <:+ bits.take j
    | none => ∀ j, j ≤ bits.length → ¬ P <:+ bits.take j := by
  have h := findAcc_lps [] bits (by rw [lps_nil]; decide)
  rw [lps_nil] at h
  have h0 : ¬ P <:+ ([] : List Bool) := by decide
  cases hf : findAcc 0 bits with
  | some k =>
    rw [hf] at h
    obtain ⟨h1, h2⟩ := h
    refine ⟨by simpa using h1, ?_⟩
    intro j hj
    cases j with
    | zero => simpa using h0
    | succ j' => simpa using h2 (j' + 1) (by omega) hj
  | none =>
    rw [hf] at h
    intro j hj
    cases j with
    | zero => simpa using h0
    | succ j' => simpa using h (j' + 1) (by omega) hj

end LbzVerif.Lemmas.ScanAuto
