/-
  Lemmas.ExpandBlock — ONE block of `Model.Expand` (`blockAt`: retrieve, size
  test, decode + emit into one big buffer, CRC comparison) against the oracle's
  `Spec.Bzip2.parseBlock` + `Spec.Bzip2.decodeBlock`:

  * `blockAt_sound`: `blockAt` answers OK ⇒ the oracle parses a block out of
    the same bits, leaves the same unread bits, and decodes it to the same bytes;
  * `blockAt_size`: the retriever only moves forward (fuel argument);
  * `blockAt_complete`: the oracle accepts the block and at least 32 bits follow
    it ⇒ `blockAt` answers OK with the oracle's bytes and unread bits.

  Composition of `Props.C05.BlockDecode.block_decode_sound`,
  `Props.C05.Block.retrieve_sound`, `Props.C06.Block.retrieve_complete`,
  `Props.C05.decode_emit_sound`.
-/
import LbzVerif.Model.Expand
import LbzVerif.Lemmas.ExpandBits
import LbzVerif.Lemmas.ExpandPos
import LbzVerif.Props.C05.BlockDecode
import LbzVerif.Props.C06.Block

namespace LbzVerif.Lemmas.ExpandBlock
open LbzVerif LbzVerif.Model.Expand LbzVerif.Lemmas.ExpandBits LbzVerif.Lemmas.RetrieveBits

/-! ### the retriever leaves a suffix -/

/-- An OK answer of `retrieve()` started in `S_INIT`: the end state satisfies the buffer
invariant and its unread bits are a suffix of the bits it was given. -/
theorem retrieve_ok_suffix (v w : Nat) (ws : List Nat) (eof : Bool) (inv : BufInv v w)
    (hok : (Model.Retrieve.retrieve (Model.Retrieve.St.start v w) ws eof).status = .ok) :
    SufC (Model.Retrieve.St.start v w) ws
      (Model.Retrieve.retrieve (Model.Retrieve.St.start v w) ws eof).st
      (Model.Retrieve.retrieve (Model.Retrieve.St.start v w) ws eof).rest := by
  have hres : Model.Retrieve.retrieve (Model.Retrieve.St.start v w) ws eof =
      (Model.Retrieve.run false (Model.Retrieve.St.start v w) ws).result eof := by
    have hpc : (Model.Retrieve.St.start v w).pc = .init := rfl
    unfold Model.Retrieve.retrieve Model.Retrieve.retrieveWith
    rw [if_pos hpc, Lemmas.RetrieveFast.run_fast_eq_slow]
  rw [hres] at hok ⊢
  have hb := run_bits (Model.Retrieve.St.start v w) ws inv
  cases hr : Model.Retrieve.run false (Model.Retrieve.St.start v w) ws with
  | susp s => rw [hr] at hok; cases eof <;> simp [Model.Retrieve.RunOut.result] at hok
  | halt r s' rest' =>
    rw [hr] at hok hb
    have hrok : r = .ok := by
      cases r <;> simp [Model.Retrieve.RunOut.result, Model.Retrieve.Halt.toStatus] at hok
      rfl
    subst hrok
    cases hb with
    | ok h => exact h
    | other hne => exact absurd rfl hne

/-- The same in terms of cursors. -/
theorem retrieve_ok_cur (c : Cur) (inv : BufInv c.v c.w)
    (hok : (Model.Retrieve.retrieve (Model.Retrieve.St.start c.v c.w) c.ws true).status = .ok) :
    BufInv (Model.Retrieve.retrieve (Model.Retrieve.St.start c.v c.w) c.ws true).st.v
      (Model.Retrieve.retrieve (Model.Retrieve.St.start c.v c.w) c.ws true).st.w ∧
    (⟨(Model.Retrieve.retrieve (Model.Retrieve.St.start c.v c.w) c.ws true).st.v,
      (Model.Retrieve.retrieve (Model.Retrieve.St.start c.v c.w) c.ws true).st.w,
      (Model.Retrieve.retrieve (Model.Retrieve.St.start c.v c.w) c.ws true).rest⟩ : Cur).size
      ≤ c.size := by
  obtain ⟨i, k, e⟩ := retrieve_ok_suffix c.v c.w c.ws true inv hok
  refine ⟨i, ?_⟩
  generalize Model.Retrieve.retrieve (Model.Retrieve.St.start c.v c.w) c.ws true = R at *
  have e' : bitsC ⟨R.st.v, R.st.w, R.rest⟩ = (bitsC c).drop k := e
  have := congrArg List.length e'
  rw [List.length_drop, bitsC_length, bitsC_length] at this
  omega

/-! ### what an OK answer of `blockAt` means -/

theorem emitCode_eq_zero (s : Model.Emit.Status) (h : emitCode s = 0) : s = .ok := by
  cases s <;> simp [emitCode, Gen.ERR_RUNLEN] at h ⊢

theorem reorderStatus_more (n l crc : Nat) :
    Gen.reorderStatus n l Gen.RV_MORE 0 crc = Gen.RV_MORE ↔ n ≤ l * 100000 := by
  unfold Gen.reorderStatus Gen.RV_MORE
  by_cases h : n > l * 100000
  · simp [h]
  · simp [h]; omega

theorem reorderStatus_ok (n l st crc hdr : Nat) :
    Gen.reorderStatus n l st crc hdr = Gen.RV_OK ↔ n ≤ l * 100000 ∧ st = 0 ∧ crc = hdr := by
  unfold Gen.reorderStatus Gen.RV_OK
  by_cases h : n > l * 100000
  · simp [h]; omega
  · have h' : n ≤ l * 100000 := by omega
    simp only [h, if_false, h', true_and]
    by_cases h1 : st = 1
    · simp [h1]
    · simp only [h1, if_false]
      by_cases h0 : st = 0
      · by_cases hc : crc = hdr
        · simp [h0, hc]
        · simp [h0, hc]
      · simp [h0]

/-- `blockAt` answers OK exactly in this situation. -/
theorem blockAt_ok_iff (l crc : Nat) (c c6 : Cur) (out : List UInt8) :
    blockAt l crc c = .ok (out, c6) ↔
      ((Model.Retrieve.retrieve (Model.Retrieve.St.start c.v c.w) c.ws true).status = .ok ∧
       (Model.Retrieve.retrieve (Model.Retrieve.St.start c.v c.w) c.ws true).st.run.n ≤ l * 100000 ∧
       (emitOf (Model.Retrieve.retrieve (Model.Retrieve.St.start c.v c.w) c.ws true)).final = .ok ∧
       (emitOf (Model.Retrieve.retrieve (Model.Retrieve.St.start c.v c.w) c.ws true)).crc.toNat = crc ∧
       out = (emitOf (Model.Retrieve.retrieve (Model.Retrieve.St.start c.v c.w) c.ws true)).bytes ∧
       c6 = ⟨(Model.Retrieve.retrieve (Model.Retrieve.St.start c.v c.w) c.ws true).st.v,
             (Model.Retrieve.retrieve (Model.Retrieve.St.start c.v c.w) c.ws true).st.w,
             (Model.Retrieve.retrieve (Model.Retrieve.St.start c.v c.w) c.ws true).rest⟩) := by
  unfold blockAt
  generalize Model.Retrieve.retrieve (Model.Retrieve.St.start c.v c.w) c.ws true = R
  simp only
  cases hs : R.status with
  | ok =>
    simp only
    by_cases h0 : Gen.reorderStatus R.st.run.n l Gen.RV_MORE 0 crc = Gen.RV_MORE
    · have hn := (reorderStatus_more _ _ _).mp h0
      simp only [ne_eq, h0, not_true_eq_false, if_false, true_and, hn]
      by_cases h1 : Gen.reorderStatus R.st.run.n l (emitCode (emitOf R).final) (emitOf R).crc.toNat crc
          = Gen.RV_OK
      · obtain ⟨_, a, b⟩ := (reorderStatus_ok _ _ _ _ _).mp h1
        rw [if_pos h1]
        have a' := emitCode_eq_zero _ a
        simp only [Except.ok.injEq, Prod.mk.injEq, a', b, true_and]
        constructor
        · rintro ⟨rfl, rfl⟩; exact ⟨rfl, rfl⟩
        · rintro ⟨rfl, rfl⟩; exact ⟨rfl, rfl⟩
      · rw [if_neg h1]
        constructor
        · intro h; cases h
        · rintro ⟨a, b, _, _⟩
          exfalso; apply h1
          rw [reorderStatus_ok]
          exact ⟨hn, by rw [a]; rfl, b⟩
    · have hn : ¬ R.st.run.n ≤ l * 100000 := fun h => h0 ((reorderStatus_more _ _ _).mpr h)
      simp only [ne_eq, h0, not_false_eq_true, if_true, hn, false_and, and_false]
      constructor
      · intro h; cases h
      · intro h; exact h.elim
  | err code => simp
  | more => simp
  | ub => simp
  | overread => simp
  | assertFail => simp

/-! ### the theorems -/

/-- the retriever only moves forward (for the fuel argument), no Spec involved -/
theorem blockAt_size (l crc : Nat) (c c6 : Cur) (out : List UInt8) (inv : BufInv c.v c.w)
    (h : blockAt l crc c = .ok (out, c6)) : BufInv c6.v c6.w ∧ c6.size ≤ c.size := by
  obtain ⟨hok, _, _, _, _, rfl⟩ := (blockAt_ok_iff l crc c c6 out).mp h
  exact retrieve_ok_cur c inv hok

/-- soundness of one block -/
theorem blockAt_sound (l crc : Nat) (c c6 : Cur) (out : List UInt8) (inv : BufInv c.v c.w) (hw : c.w ≤ 63)
    (h : blockAt l crc c = .ok (out, c6)) (start : Nat) (bits : List Bool)
    (h32 : Basic.takeNat 32 bits = some (crc, bitsC c)) :
    ∃ (b : Spec.Bzip2.Block) (n : Nat), Spec.Bzip2.parseBlock l start bits = .ok (b, bitsC c6) ∧
      Spec.Bzip2.decodeBlock b = .ok { nblock := n, bytes := out.toArray } ∧
      BufInv c6.v c6.w ∧ c6.size ≤ c.size := by
  obtain ⟨hi, hsz⟩ := blockAt_size l crc c c6 out inv h
  obtain ⟨hok, hn, hf, hc, rfl, rfl⟩ := (blockAt_ok_iff l crc c c6 out).mp h
  obtain ⟨b, h1, h2⟩ := Props.C05.BlockDecode.block_decode_sound c.v c.w c.ws true inv hw hok
    l start crc bits h32 hn [bigBuf] (by intro z hz; simp at hz; subst hz; decide) hf hc
  exact ⟨b, _, h1, h2, hi, hsz⟩

/-! ### completeness -/

/-- each byte read by the final run-length decoding yields at most 255 bytes -/
theorem unOut_length_le : ∀ (xs : List UInt8) (p : UInt8) (k : Nat),
    (Lemmas.Emit.unOut p k xs).length ≤ 255 * xs.length := by
  intro xs
  induction xs with
  | nil => intro p k; simp [Lemmas.Emit.unOut]
  | cons b bs ih =>
    intro p k
    have hb : b.toNat ≤ 255 := by have := b.toNat_lt; omega
    unfold Lemmas.Emit.unOut
    split
    · have := ih p 0
      rw [List.length_append, List.length_replicate, List.length_cons]; omega
    · split
      · have := ih p (k + 1)
        rw [List.length_cons, List.length_cons]; omega
      · have := ih b 1
        rw [List.length_cons, List.length_cons]; omega

/-- `decode()` hands `emit()` as many nodes as the block has bytes -/
theorem nodes_length (rand : Bool) (L : List UInt8) (idx : Nat) (hidx : idx < L.length) :
    (Model.Ibwt.nodes rand idx L).length = L.length := by
  have hnodes : Model.Ibwt.nodes rand idx L =
      (if rand then Spec.Ibwt.derand Gen.randTable (Spec.Ibwt.ibwt L idx)
       else Spec.Ibwt.ibwt L idx) := by
    cases rand with
    | false => simpa using Props.C05.ibwt_sound L idx hidx
    | true => simpa using Props.C05.ibwt_sound_rand L idx hidx
  rw [hnodes]
  cases rand <;>
    simp [Spec.Ibwt.ibwt, Lemmas.IbwtRand.follow_length, Lemmas.IbwtDerand.derand_randTable,
      Lemmas.IbwtDerand.flipsGo_length]

/-- completeness of one block -/
theorem blockAt_complete (l crc : Nat) (c : Cur) (inv : BufInv c.v c.w) (hw : c.w ≤ 63)
    (hl : 1 ≤ l ∧ l ≤ 9) (start : Nat) (bits : List Bool)
    (h32 : Basic.takeNat 32 bits = some (crc, bitsC c))
    (b : Spec.Bzip2.Block) (restB : List Bool)
    (hp : Spec.Bzip2.parseBlock l start bits = .ok (b, restB))
    (d : Spec.Bzip2.Decoded) (hd : Spec.Bzip2.decodeBlock b = .ok d) (hmore : 32 ≤ restB.length) :
    ∃ c6, blockAt l crc c = .ok (d.bytes.toList, c6) ∧ bitsC c6 = restB ∧ BufInv c6.v c6.w := by
  obtain ⟨hlv, _⟩ := Lemmas.ExpandPos.parseBlock_fields l start bits b restB hp
  -- the MTF stage of the oracle
  cases hm : Spec.Bzip2.unMtfRle2 b.used (Spec.Bzip2.blockCap b.level) b.syms.toList with
  | error e => unfold Spec.Bzip2.decodeBlock at hd; rw [hm] at hd; cases hd
  | ok tt =>
    have hne : tt.size ≠ 0 := by
      intro h0
      unfold Spec.Bzip2.decodeBlock at hd
      rw [hm] at hd
      simp only [h0, if_true] at hd
      cases hd
    rw [Props.C05.decodeBlock_of_stages b tt hm hne] at hd
    cases hst : Props.C05.specStages b.rand b.origPtr tt with
    | error e => rw [hst] at hd; cases hd
    | ok o =>
      rw [hst] at hd
      simp only at hd
      by_cases hcrcO : (Basic.crc32Arr o).toNat = b.storedCrc
      · rw [if_pos hcrcO] at hd
        have hdb : d.bytes = o := by cases hd; rfl
        have hop : b.origPtr < tt.size := by
          by_cases hop : b.origPtr < tt.size
          · exact hop
          · exfalso
            unfold Props.C05.specStages Spec.Bzip2.ibwt at hst
            rw [if_neg hop] at hst
            cases hst
        have hcap : tt.size ≤ l * 100000 := by
          have := (Lemmas.SpecMtfLink.unMtfRle2_size_ge b.used _ _ tt hm).2
          unfold Spec.Bzip2.blockCap at this
          rw [hlv] at this
          exact this
        have h9 : tt.size ≤ Gen.MAX_BLOCK_SIZE := by
          unfold Gen.MAX_BLOCK_SIZE; omega
        have hm9 := Lemmas.SpecMtfCap.unMtfRle2_cap_mono b.used _ Gen.MAX_BLOCK_SIZE _ tt hm h9
        have h32' : Basic.takeNat 32 bits =
            some (crc, bitsOf (Model.Retrieve.St.start c.v c.w) c.ws) := h32
        obtain ⟨hok, hrest, hrand, hidx, hout, hn⟩ :=
          Props.C06.Block.retrieve_complete c.v c.w c.ws true inv hw l start crc bits h32' b restB hp tt
            hm9 hne hop hmore
        obtain ⟨b', _, hp', _, _, hsc, _⟩ :=
          Props.C05.Block.retrieve_sound c.v c.w c.ws true inv hw hok l start crc bits h32'
        have hbb : b' = b := by
          rw [hp] at hp'
          injection hp' with hp'
          injection hp' with hp' _
          exact hp'.symm
        subst hbb
        obtain ⟨hi, _⟩ := retrieve_ok_cur c inv hok
        refine ⟨⟨(Model.Retrieve.retrieve (Model.Retrieve.St.start c.v c.w) c.ws true).st.v,
          (Model.Retrieve.retrieve (Model.Retrieve.St.start c.v c.w) c.ws true).st.w,
          (Model.Retrieve.retrieve (Model.Retrieve.St.start c.v c.w) c.ws true).rest⟩, ?_, hrest, hi⟩
        rw [blockAt_ok_iff]
        generalize Model.Retrieve.retrieve (Model.Retrieve.St.start c.v c.w) c.ws true = R at *
        have hlen : R.st.run.out.reverse.length = tt.size := by rw [hout]; simp
        have hidxL : R.st.bwtIdx < R.st.run.out.reverse.length := by rw [hlen, hidx]; exact hop
        have hdes := Props.C05.decode_emit_sound (R.st.rand == 1) R.st.run.out.reverse R.st.bwtIdx
          hidxL (by rw [hlen]; have : Gen.MAX_BLOCK_SIZE < Model.Emit.M1 := by decide
                    omega) [bigBuf] (by intro z hz; simp at hz; subst hz; decide)
        have hspec : Props.C05.specStages (R.st.rand == 1) R.st.bwtIdx R.st.run.out.reverse.toArray =
            .ok o := by
          rw [hout, Array.toArray_toList, ← hrand, hidx]; exact hst
        have hbig : (Lemmas.Emit.unOut 0 0
            (Model.Ibwt.nodes (R.st.rand == 1) R.st.bwtIdx R.st.run.out.reverse)).length <
            [bigBuf].sum := by
          have h1 := unOut_length_le
            (Model.Ibwt.nodes (R.st.rand == 1) R.st.bwtIdx R.st.run.out.reverse) 0 0
          rw [nodes_length _ _ _ hidxL, hlen] at h1
          have : [bigBuf].sum = 0xFFFFFFFE := by simp [bigBuf]
          rw [this]
          unfold Gen.MAX_BLOCK_SIZE at h9
          omega
        have hfin : (emitOf R).final = .ok := (hdes.2.2.2 hbig).1.mpr ⟨o, hspec⟩
        obtain ⟨e1, e2⟩ := hdes.1 hfin
        have hob : o = (emitOf R).bytes.toArray := by
          rw [hspec] at e1
          injection e1
        refine ⟨hok, by rw [hn]; exact hcap, hfin, ?_, ?_, rfl⟩
        · rw [← hsc, ← hcrcO, hob]
          exact congrArg UInt32.toNat e2
        · rw [hdb, hob]
      · rw [if_neg hcrcO] at hd
        cases hd

end LbzVerif.Lemmas.ExpandBlock
