/-
  Lemmas.ScanLoop — the control flow of `scan()` (bit loop, word loop with
  back-up-and-rescan, `goto again`) computes `findAcc` on the remaining bits.
-/
import LbzVerif.Lemmas.ScanAuto

namespace LbzVerif.Lemmas.ScanLoop

open LbzVerif.Model.Scan LbzVerif.Spec.Scan LbzVerif.Lemmas.ScanBits
  LbzVerif.Lemmas.ScanAuto LbzVerif.Lemmas.ScanMiniTab

/-- What must come out when the automaton accepts after `k` bits of `rem bs`
(`fa = some k`) or never (`fa = none`). -/
def Outcome (bs : BS) (fa : Option Nat) (r : Res × BS) : Prop :=
  match fa with
  | some k =>
    if k + 32 ≤ (rem bs).length then
      r.1 = .ok ∧ Consistent r.2 ∧ r.2.words = bs.words ∧
        rem r.2 = (rem bs).drop (k + 32)
    else r = (.more, consumed bs)
  | none => r = (.more, consumed bs)

theorem Outcome_shift (bs bs2 : BS) (pre : List Bool) (k : Nat) (r : Res × BS)
    (hrem : rem bs = pre ++ rem bs2) (hw : bs2.words = bs.words)
    (h : Outcome bs2 (some k) r) : Outcome bs (some (pre.length + k)) r := by
  unfold Outcome at *
  simp only at *
  have hlen : (rem bs).length = pre.length + (rem bs2).length := by
    rw [hrem, List.length_append]
  have hcons : consumed bs2 = consumed bs := by simp [consumed, hw]
  by_cases hk : k + 32 ≤ (rem bs2).length
  · rw [if_pos hk] at h
    rw [if_pos (by omega)]
    obtain ⟨h1, h2, h3, h4⟩ := h
    refine ⟨h1, h2, by rw [h3, hw], ?_⟩
    rw [h4, hrem, List.drop_append]
    have : pre.drop (pre.length + k + 32) = [] := by
      apply List.drop_eq_nil_of_le; omega
    rw [this, List.nil_append]
    congr 1
    omega
  · rw [if_neg hk] at h
    rw [if_neg (by omega), h, hcons]

/-- Dropping whole buffered bits. -/
theorem dump_rem (bs : BS) (n : Nat) (hc : Consistent bs) (hn : n ≤ bs.live) :
    Consistent (dump bs n) ∧ rem (dump bs n) = (rem bs).drop n ∧
      (dump bs n).words = bs.words := by
  obtain ⟨h1, h2, -, h4, h5⟩ := dump_spec bs n hc hn
  refine ⟨h1, ?_, h5⟩
  rw [rem_eq, rem_eq, h2, h4, h5, List.drop_append,
    length_bufBits bs (by have := hc.1; omega)]
  have : n - bs.live = 0 := by omega
  rw [this, List.drop_zero]

/-- The code after `state == ACCEPT` in the bit loop. -/
def finish (bs1 : BS) : Res × BS :=
  if (need bs1 32).1 then (.ok, dump (need bs1 32).2 32)
  else (.more, consume (need bs1 32).2)

theorem finish_spec (bs1 : BS) (hc : Consistent bs1) :
    Outcome bs1 (some 0) (finish bs1) := by
  unfold Outcome finish
  simp only [Nat.zero_add]
  have hlen := length_rem bs1 hc
  by_cases h32 : 32 ≤ bs1.live
  · rw [need_enough bs1 32 h32]
    obtain ⟨d1, d2, d3⟩ := dump_rem bs1 32 hc h32
    rw [if_pos (by omega)]
    simp only [if_true]
    exact ⟨by first | rfl | trivial, d1, d3, d2⟩
  · have hl : bs1.live < 32 := by omega
    by_cases hd : bs1.data < bs1.words.length
    · obtain ⟨l1, l2, l3, l4, -, l6⟩ := load_spec bs1 32 hc hl hl hd
      obtain ⟨d1, d2, d3⟩ := dump_rem (need bs1 32).2 32 l2 (by omega)
      rw [if_pos (by omega), l1]
      simp only [if_true]
      refine ⟨by first | rfl | trivial, d1, by rw [d3, l6], by rw [d2, l3]⟩
    · have hd' : bs1.data = bs1.words.length := by have := hc.2.2.2.1; omega
      rw [need_fail bs1 32 hl hd']
      have : ¬ 32 ≤ (rem bs1).length := by rw [hlen, hd']; omega
      rw [if_neg this]
      simp only [Bool.false_eq_true, if_false]
      rw [consume_spec bs1 hc]

theorem bitLoop_succ (n st : Nat) (bs : BS) :
    bitLoop (n + 1) st bs =
      if mini st (bs.buff >>> 63 != 0) = accept then .inl (finish (dump bs 1))
      else bitLoop n (mini st (bs.buff >>> 63 != 0)) (dump bs 1) := by
  conv => lhs; unfold bitLoop
  simp only [finish]
  split
  · rcases hnd : need (dump bs 1) 32 with ⟨okb, bs2⟩
    cases okb <;> simp
  · rfl

theorem rem_cons (bs : BS) (hc : Consistent bs) (hl : 0 < bs.live) :
    rem bs = (bs.buff >>> 63 != 0) :: rem (dump bs 1) := by
  obtain ⟨-, h2, -, h4, h5⟩ := dump_spec bs 1 hc hl
  rw [rem_eq, rem_eq, bufBits_cons bs hc hl, h4, h5]
  rfl

/-- The bit loop. -/
theorem bitLoop_spec (n st : Nat) (bs : BS) (hc : Consistent bs)
    (hn : bs.live = n) (hst : st < 48) :
    match findAcc st (bufBits bs) with
    | none => bitLoop n st bs =
        .inr (run st (bufBits bs), { bs with live := 0, buff := 0 })
    | some k => ∃ r, bitLoop n st bs = .inl r ∧ Outcome bs (some k) r := by
  induction n generalizing st bs with
  | zero =>
    have hb : bufBits bs = [] := by simp [bufBits, hn]
    rw [hb]
    simp only [findAcc, bitLoop, run, List.foldl_nil]
    obtain ⟨-, h2, h3, -, -⟩ := hc
    rw [hn] at h3
    have : bs.buff = 0 := by
      have : bs.buff % 2 ^ 64 = 0 := by simpa using h3
      rwa [Nat.mod_eq_of_lt h2] at this
    cases bs with
    | mk l b d w =>
      simp at hn this
      simp [hn, this]
  | succ m ih =>
    have hl : 0 < bs.live := by omega
    obtain ⟨c1, -, c3, -, c5⟩ := dump_spec bs 1 hc hl
    have hcons := bufBits_cons bs hc hl
    have hrem := rem_cons bs hc hl
    rw [hcons, bitLoop_succ]
    simp only [findAcc]
    by_cases hacc : mini st (bs.buff >>> 63 != 0) = accept
    · simp only [hacc, if_true]
      refine ⟨_, rfl, ?_⟩
      have := Outcome_shift bs (dump bs 1) [bs.buff >>> 63 != 0] 0 _ hrem c5
        (finish_spec _ c1)
      simpa using this
    · simp only [hacc, if_false]
      have hlt : mini st (bs.buff >>> 63 != 0) < 48 := by
        have := mini_le st hst (bs.buff >>> 63 != 0)
        rw [accept_eq] at hacc; omega
      have ih' := ih _ (dump bs 1) c1 (by rw [c3]; omega) hlt
      cases hf : findAcc (mini st (bs.buff >>> 63 != 0)) (bufBits (dump bs 1)) with
      | none =>
        rw [hf] at ih'
        simp only [Option.map_none]
        rw [ih']
        simp only [run, List.foldl_cons]
        rfl
      | some k =>
        rw [hf] at ih'
        simp only [Option.map_some]
        obtain ⟨r, hr1, hr2⟩ := ih'
        refine ⟨r, hr1, ?_⟩
        have := Outcome_shift bs (dump bs 1) [bs.buff >>> 63 != 0] k r hrem c5 hr2
        simpa [Nat.add_comm] using this

/-- The word loop. -/
theorem wordLoop_spec (st data : Nat) (ws : List Nat) (hst : st < 48)
    (hws : ∀ w ∈ ws, w < 2 ^ 32) :
    match wordLoop st data ws with
    | .inl d => d = data + ws.length ∧ findAcc st (ws.flatMap (bitsMSB 32)) = none
    | .inr (bt, d) => ∃ pre w post, ws = pre ++ w :: post ∧ d = data + pre.length ∧
        bt < 48 ∧ findAcc st (pre.flatMap (bitsMSB 32)) = none ∧
        bt = run st (pre.flatMap (bitsMSB 32)) ∧
        (findAcc bt (bitsMSB 32 w)).isSome := by
  induction ws generalizing st data with
  | nil => simp [wordLoop, findAcc]
  | cons w t ih =>
    have hw : w < 2 ^ 32 := hws w (by simp)
    have ht : ∀ x ∈ t, x < 2 ^ 32 := fun x hx => hws x (by simp [hx])
    have hstep := wordStep_spec st w hst hw
    unfold wordLoop
    simp only
    by_cases hs : (findAcc st (bitsMSB 32 w)).isSome
    · rw [if_pos hs] at hstep
      rw [hstep, accept_eq]
      simp only [if_true]
      exact ⟨[], w, t, rfl, rfl, hst, by simp [findAcc], by simp [run], hs⟩
    · rw [if_neg hs] at hstep
      have hnone : findAcc st (bitsMSB 32 w) = none := by
        cases hf : findAcc st (bitsMSB 32 w) with
        | none => rfl
        | some k => simp [hf] at hs
      have hlt := run_lt st _ hst hnone
      rw [hstep, accept_eq]
      have hne : ¬ run st (bitsMSB 32 w) = 48 := by omega
      simp only [hne, if_false]
      have ih' := ih (run st (bitsMSB 32 w)) (data + 1) hlt ht
      cases hwl : wordLoop (run st (bitsMSB 32 w)) (data + 1) t with
      | inl d =>
        rw [hwl] at ih'
        simp only at ih' ⊢
        obtain ⟨i1, i2⟩ := ih'
        refine ⟨by rw [i1]; simp; omega, ?_⟩
        rw [List.flatMap_cons, findAcc_append, hnone]
        simp only [i2, Option.map_none]
      | inr p =>
        obtain ⟨bt, d⟩ := p
        rw [hwl] at ih'
        simp only at ih' ⊢
        obtain ⟨pre, w', post, e1, e2, e3, e4, e5, e6⟩ := ih'
        refine ⟨w :: pre, w', post, by rw [e1]; rfl, by rw [e2]; simp; omega, e3, ?_, ?_, e6⟩
        · rw [List.flatMap_cons, findAcc_append, hnone]
          simp only [e4, Option.map_none]
        · rw [List.flatMap_cons, run_append, e5]

/-- Everything from `again:` on. -/
theorem again_spec (f st : Nat) (bs : BS) (hc : Consistent bs) (hst : st < 48)
    (hf : bs.words.length - bs.data < f) :
    Outcome bs (findAcc st (rem bs)) (again f st bs) := by
  induction f generalizing st bs with
  | zero => omega
  | succ f ih =>
    have hlive : bs.live ≤ 64 := by have := hc.1; omega
    have hdata : bs.data ≤ bs.words.length := hc.2.2.2.1
    have hb := bitLoop_spec bs.live st bs hc rfl hst
    unfold again
    rw [rem_eq, findAcc_append]
    cases hfa : findAcc st (bufBits bs) with
    | some k =>
      rw [hfa] at hb
      obtain ⟨r, hr1, hr2⟩ := hb
      rw [hr1]
      exact hr2
    | none =>
      rw [hfa] at hb
      simp only at hb ⊢
      rw [hb]
      simp only
      have hst1 : run st (bufBits bs) < 48 := run_lt st _ hst hfa
      have hws : ∀ w ∈ bs.words.drop bs.data, w < 2 ^ 32 :=
        fun w hw => hc.2.2.2.2 w (List.mem_of_mem_drop hw)
      have hw := wordLoop_spec (run st (bufBits bs)) bs.data (bs.words.drop bs.data)
        hst1 hws
      cases hwl : wordLoop (run st (bufBits bs)) bs.data (bs.words.drop bs.data) with
      | inl d =>
        rw [hwl] at hw
        simp only at hw ⊢
        obtain ⟨w1, w2⟩ := hw
        rw [w2]
        simp only [Option.map_none, Outcome]
        have : d = bs.words.length := by rw [w1]; simp; omega
        rw [this]
        rfl
      | inr p =>
        obtain ⟨bt, d⟩ := p
        rw [hwl] at hw
        simp only at hw ⊢
        obtain ⟨pre, w, post, e1, e2, e3, e4, e5, e6⟩ := hw
        -- the state in which `bits_need(bs, 1)` is called
        let bsd : BS := { live := 0, buff := 0, data := d, words := bs.words }
        have hlenws : (bs.words.drop bs.data).length = pre.length + 1 + post.length := by
          rw [e1]; simp; omega
        have hdlt : d < bs.words.length := by
          simp at hlenws; omega
        have hcd : Consistent bsd := by
          refine ⟨?_, ?_, ?_, Nat.le_of_lt hdlt, hc.2.2.2.2⟩ <;> simp [bsd]
        obtain ⟨-, l2, l3, -, l5, l6⟩ := load_spec bsd 1 hcd
          (by show 0 < 1; decide) (by show 0 < 32; decide) hdlt
        have hdrop : bs.words.drop d = w :: post := by
          rw [e2, ← List.drop_drop, e1]
          simp
        have hremd : rem bsd = bitsMSB 32 w ++ post.flatMap (bitsMSB 32) := by
          rw [rem_eq]
          have : bufBits bsd = [] := by simp [bufBits, bsd]
          rw [this]
          show [] ++ (bs.words.drop d).flatMap (bitsMSB 32) = _
          rw [hdrop, List.flatMap_cons]; rfl
        have ih' := ih bt (need bsd 1).2 l2 e3 (by rw [l5, l6]; show bs.words.length - (d + 1) < f; omega)
        rw [l3, hremd] at ih'
        -- decompose the remaining bits of `bs`
        have hsplit : (bs.words.drop bs.data).flatMap (bitsMSB 32) =
            pre.flatMap (bitsMSB 32) ++ (bitsMSB 32 w ++ post.flatMap (bitsMSB 32)) := by
          rw [e1, List.flatMap_append, List.flatMap_cons]
        rw [hsplit, findAcc_append (run st (bufBits bs)), e4]
        simp only
        rw [← e5]
        obtain ⟨k', hk'⟩ := Option.isSome_iff_exists.mp e6
        have hfin : findAcc bt (bitsMSB 32 w ++ post.flatMap (bitsMSB 32)) = some k' := by
          rw [findAcc_append, hk']
        rw [hfin] at ih' ⊢
        simp only [Option.map_some]
        have hrem : rem bs = (bufBits bs ++ pre.flatMap (bitsMSB 32)) ++ rem (need bsd 1).2 := by
          rw [l3, hremd, rem_eq, hsplit, List.append_assoc]
        have hsh := Outcome_shift bs (need bsd 1).2 _ k' _ hrem l6 ih'
        have hlen : (bufBits bs ++ pre.flatMap (bitsMSB 32)).length =
            k' - k' + (pre.flatMap (bitsMSB 32)).length + (bufBits bs).length := by
          simp; omega
        rw [hlen] at hsh
        have e : k' - k' + (pre.flatMap (bitsMSB 32)).length + (bufBits bs).length + k' =
            k' + (pre.flatMap (bitsMSB 32)).length + (bufBits bs).length := by omega
        rw [e] at hsh
        exact hsh

/-- `scan` computes `findAcc 0` on the bits after the effective start. -/
theorem scan_spec (bs : BS) (skip : Nat) (hc : Consistent bs) :
    Outcome (skipPhase bs skip) (findAcc 0 ((rem bs).drop (effStart bs skip)))
      (scan bs skip) := by
  obtain ⟨s1, s2, -⟩ := skipPhase_spec bs skip hc
  rw [← s2]
  unfold scan
  exact again_spec _ 0 _ s1 (by decide) (by omega)

end LbzVerif.Lemmas.ScanLoop
