/-
  `Model.Cli.tokAux` (the `strtok` loop) is "split at separators, drop the
  empty pieces": the three equations below determine it.
-/
import LbzVerif.Model.Cli

namespace LbzVerif.Lemmas.CliTokens
open LbzVerif.Model.Cli

/-- the token a pending `cur` contributes when it ends -/
def flush (cur : List Char) : List Tok := if cur.isEmpty then [] else [cur.reverse]

theorem tokAux_nil (seps : List Char) (cur : List Char) : tokAux seps [] cur = flush cur := by
  simp only [tokAux, flush]

theorem tokAux_sep (seps : List Char) (sep : Char) (h : seps.contains sep = true)
    (b cur : List Char) : tokAux seps (sep :: b) cur = flush cur ++ tokAux seps b [] := by
  simp only [tokAux, h, if_true, flush]
  split <;> rfl

theorem tokAux_nonsep (seps : List Char) (ch : Char) (h : seps.contains ch = false)
    (b cur : List Char) : tokAux seps (ch :: b) cur = tokAux seps b (ch :: cur) := by
  simp only [tokAux, h, Bool.false_eq_true, if_false]

theorem tokAux_split (seps : List Char) (sep : Char) (h : seps.contains sep = true)
    (b : List Char) : ∀ (a cur : List Char),
    tokAux seps (a ++ sep :: b) cur = tokAux seps a cur ++ tokAux seps b [] := by
  intro a
  induction a with
  | nil => intro cur; rw [List.nil_append, tokAux_sep seps sep h, tokAux_nil]
  | cons ch a ih =>
    intro cur
    by_cases hc : seps.contains ch = true
    · rw [List.cons_append, tokAux_sep seps ch hc, tokAux_sep seps ch hc, ih, List.append_assoc]
    · have hc' : seps.contains ch = false := by simpa using hc
      rw [List.cons_append, tokAux_nonsep seps ch hc', tokAux_nonsep seps ch hc', ih]

theorem tokAux_run (seps : List Char) : ∀ (a : List Char), (∀ c ∈ a, seps.contains c = false) →
    ∀ cur, tokAux seps a cur = flush (a.reverse ++ cur) := by
  intro a
  induction a with
  | nil => intro _ cur; exact tokAux_nil seps cur
  | cons ch a ih =>
    intro h cur
    rw [tokAux_nonsep seps ch (h ch List.mem_cons_self),
      ih (fun c hc => h c (List.mem_cons_of_mem _ hc))]
    simp

end LbzVerif.Lemmas.CliTokens
