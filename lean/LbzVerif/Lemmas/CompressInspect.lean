/-
  Lemmas.CompressInspect — the per-block rules of C02 on the block records the
  strict inspector produces for a file of `Model.Compress` (`reportsOf`,
  Lemmas.CompressFile).
-/
import LbzVerif.Model.Compress
import LbzVerif.Lemmas.CompressCut

namespace LbzVerif.Lemmas.CompressInspect
open LbzVerif LbzVerif.Basic LbzVerif.Model.Compress LbzVerif.Model.Transmit
open LbzVerif.Lemmas.CompressFile LbzVerif.Lemmas.CompressCut LbzVerif.Lemmas.CompressBlock
open LbzVerif.Lemmas.TransmitCompose LbzVerif.Spec.Bzip2

/-- The producer-side rules of C02 for one block record: decoded-RLE size
    within the level's capacity, not randomised, `origPtr < nblock`, 2…6 tables,
    every table (used or not) over the block's alphabet, with lengths 1…20 and
    Kraft-complete, 1…18002 selectors each naming a table. -/
def BlockRules (level : Nat) (r : BlockReport) : Prop :=
  r.block.level = level ∧
  1 ≤ r.nblock ∧ r.nblock ≤ level * 100000 ∧
  r.block.rand = false ∧
  r.block.origPtr < r.nblock ∧
  2 ≤ r.block.nGroups ∧ r.block.nGroups ≤ 6 ∧ r.block.tables.length = r.block.nGroups ∧
  (∀ t ∈ r.block.tables, t.length = r.block.alphaSize ∧ (∀ x ∈ t, 1 ≤ x ∧ x ≤ 20) ∧
    kraftComplete t = true) ∧
  1 ≤ r.block.selectors.length ∧ r.block.selectors.length ≤ 18002 ∧
  (∀ s ∈ r.block.selectors, s < r.block.nGroups)

theorem reportsOf_mem (level : Nat) (items : List Item) :
    ∀ pos, ∀ r ∈ reportsOf level pos items, ∃ p, ∃ it ∈ items, r = reportOf level p it := by
  induction items with
  | nil => intro pos r hr; simp [reportsOf] at hr
  | cons it rest ih =>
    intro pos r hr
    simp only [reportsOf, List.mem_cons] at hr
    rcases hr with rfl | hr
    · exact ⟨pos, it, List.mem_cons_self .., rfl⟩
    · obtain ⟨p, jt, hj, e⟩ := ih _ r hr
      exact ⟨p, jt, List.mem_cons_of_mem _ hj, e⟩

theorem reportsOf_length (level : Nat) (items : List Item) :
    ∀ pos, (reportsOf level pos items).length = items.length := by
  induction items with
  | nil => intro pos; rfl
  | cons it rest ih => intro pos; simp [reportsOf, ih]

/-- the rules hold for the record of every block of the compressor model -/
theorem report_rules (level : Nat) (h9 : level ≤ 9) (choose : List UInt8 → Choice)
    (b : List UInt8) (hne : b ≠ []) (hfit : (Spec.rle1 b).length ≤ level * 100000)
    (hok : ChoicesOK (Spec.rle1 b) (choose (Spec.rle1 b))) (pos : Nat) :
    BlockRules level (reportOf level pos (compressBlock choose b, b, (Spec.rle1 b).length)) := by
  have hitem := itemsOf_ok level h9 choose [b]
    (fun x hx => by rw [List.mem_singleton.mp hx]; exact ⟨hne, hfit⟩)
    (fun x hx => by rw [List.mem_singleton.mp hx]; exact hok)
    (compressBlock choose b, b, (Spec.rle1 b).length) (by simp [itemsOf])
  have hw : WF (compressBlock choose b) := hitem.wf
  have hc : Coded (compressBlock choose b) := hitem.coded
  obtain ⟨hidx, hLlen⟩ := bwtOK_facts hok.1
  have hpos : 0 < (Spec.rle1 b).length := by omega
  have hns := numSelectors_lt hw
  have hnt2 : 2 ≤ (compressBlock choose b).numTrees := by
    have := hw.trees_ge; simpa [Gen.MIN_TREES] using this
  have hnt6 : (compressBlock choose b).numTrees ≤ 6 := by
    have := hw.trees_le; simpa [Gen.MAX_TREES] using this
  have hsl : (expectedBlock level pos (compressBlock choose b)).selectors.length =
      (compressBlock choose b).numSelectors := by
    simp only [expectedBlock, List.length_append, List.length_replicate, hw.sel_len]
    exact hw.nsel_eq.symm
  refine ⟨rfl, hpos, hfit, rfl, ?_, hnt2, hnt6, hw.lens_len, ?_, ?_, ?_, ?_⟩
  · show (choose (Spec.rle1 b)).idx < (Spec.rle1 b).length
    omega
  · intro t ht
    have ht' : t ∈ (compressBlock choose b).lens := ht
    obtain ⟨h1, h2⟩ := hw.lens_ok t ht'
    refine ⟨?_, ?_, Lemmas.TransmitGroups.kraftComplete_of_complete t (hc.complete t ht')⟩
    · rw [h1, hc.alpha_eq]; rfl
    · intro x hx
      have := h2 x hx
      simpa only [Gen.MIN_CODE_LENGTH, Gen.MAX_CODE_LENGTH] using this
  · show 1 ≤ (expectedBlock level pos (compressBlock choose b)).selectors.length
    rw [hsl]; exact hns.2
  · show (expectedBlock level pos (compressBlock choose b)).selectors.length ≤ 18002
    rw [hsl]; exact hns.1
  · intro s hs
    have hs' : s ∈ (compressBlock choose b).selectors ++
        List.replicate (Model.Canon.dummySelectors (costBase (compressBlock choose b)))
          ((compressBlock choose b).selectors.getLastD 0) := hs
    show s < (compressBlock choose b).numTrees
    rcases List.mem_append.mp hs' with h | h
    · exact hw.sel_lt s h
    · rw [List.eq_of_mem_replicate h]
      cases hsel : (compressBlock choose b).selectors with
      | nil => simp only [List.getLastD_nil]; omega
      | cons a l =>
        apply hw.sel_lt
        rw [hsel, List.getLastD_eq_getLast?]
        have := List.getLast?_eq_some_getLast (List.cons_ne_nil a l)
        rw [this]
        exact List.getLast_mem _

end LbzVerif.Lemmas.CompressInspect
