/-
  Lemmas.ExpandChainC — "macro steps" of `Model.Expand.go`: what the loop does,
  for every fuel, on a block header (`step_block`), an end-of-stream marker with
  the right combined CRC (`step_eos`), a stream header (`step_header`) and on
  anything that is not a stream header between streams (`step_trailing`).
-/
import LbzVerif.Lemmas.ExpandStep

namespace LbzVerif.Lemmas.ExpandChainC
open LbzVerif LbzVerif.Model.Expand LbzVerif.Lemmas.RetrieveBits LbzVerif.Basic
open LbzVerif.Lemmas.ExpandBits LbzVerif.Lemmas.ExpandStep

/-- `go_word` with one cursor for every fuel. -/
theorem go_wordA (m : Nat) (p : Gen.ParseSt) (c : Cur) (acc : List UInt8) (inv : BufInv c.v c.w)
    (h : 16 ≤ (bitsC c).length) :
    ∃ c2, bitsC c2 = (bitsC c).drop 16 ∧ BufInv c2.v c2.w ∧ c2.w ≤ 48 ∧
      ∀ f, go m (f + 1) p c acc =
        after m f (Gen.parseStep { p with align := false } (bitsToNat ((bitsC c).take 16))) c2 acc := by
  have hr := read16 c inv
  cases hn : need16 c with
  | none => rw [hn] at hr; simp only at hr; omega
  | some c1 =>
    rw [hn] at hr
    obtain ⟨_, a1, a2, a3, a4⟩ := hr
    refine ⟨dumpC c1 16, a2, a3, a4, ?_⟩
    intro f
    rw [go_succ, hn]
    simp only
    rw [a1]

theorem after_none (m f : Nat) (q : Gen.ParseSt) (c2 : Cur) (acc : List UInt8)
    (ha : q.align = false) : after m f (q, none) c2 acc = go m f q c2 acc := by
  simp only [after, ha, Bool.false_eq_true, if_false]

theorem after_none_align (m f : Nat) (q : Gen.ParseSt) (c2 : Cur) (acc : List UInt8)
    (ha : q.align = true) : after m f (q, none) c2 acc = go m f q (alignC c2) acc := by
  simp only [after, ha, if_true]

theorem after_ok (m f : Nat) (q : Gen.ParseSt) (c2 : Cur) (acc : List UInt8)
    (ha : q.align = false) :
    after m f (q, some 0) c2 acc =
      match blockAt q.hdBs100k q.hdCrc c2 with
      | .error e => .error e
      | .ok (out, c4) => go m f q c4 (acc ++ out) := by
  simp only [after, ha, Gen.RV_OK, Bool.false_eq_true, if_false, if_true]
  rfl

theorem after_finish (m f : Nat) (q : Gen.ParseSt) (c2 : Cur) (acc : List UInt8)
    (ha : q.align = false) :
    after m f (q, some 2) c2 acc = finishCheck m q.garbage c2 acc := by
  simp (config := {decide := true}) only [after, ha, Bool.false_eq_true, if_false, if_true]

/-- One iteration on which the automaton says `continue` without `bits_align`. -/
theorem go_cont (m : Nat) (p : Gen.ParseSt) (c : Cur) (acc : List UInt8) (inv : BufInv c.v c.w)
    (h : 16 ≤ (bitsC c).length) (wd : Nat) (hwd : bitsToNat ((bitsC c).take 16) = wd)
    (p' : Gen.ParseSt) (hp : Gen.parseStep { p with align := false } wd = (p', none))
    (ha : p'.align = false) :
    ∃ c2, bitsC c2 = (bitsC c).drop 16 ∧ BufInv c2.v c2.w ∧ c2.w ≤ 48 ∧
      ∀ f, go m (f + 1) p c acc = go m f p' c2 acc := by
  obtain ⟨c2, b1, b2, b3, b4⟩ := go_wordA m p c acc inv h
  refine ⟨c2, b1, b2, b3, fun f => ?_⟩
  rw [b4 f, hwd, hp, after_none _ _ _ _ _ ha]

/-- `(stored_crc << 16) | word` on `uint32_t`, `stored_crc` = the previous word. -/
theorem join_val (hi lo : Nat) (hh : hi < 65536) (hl : lo < 65536) :
    ((((hi % 4294967296) <<< 16) % 4294967296) ||| lo) % 4294967296 = hi * 65536 + lo := by
  rw [Nat.mod_eq_of_lt (by omega : hi < 4294967296)]
  have h1 : hi <<< 16 = hi * 65536 := by rw [Nat.shiftLeft_eq]
  have h2 : hi * 65536 < 4294967296 := by omega
  have h3 : hi <<< 16 ||| lo = hi <<< 16 + lo := by
    rw [Nat.shiftLeft_add_eq_or_of_lt (by omega : lo < 2 ^ 16)]
  rw [Nat.mod_eq_of_lt (by omega : hi <<< 16 < 4294967296), h3, h1]
  omega

/-- The five 16-bit words of a 48-bit magic followed by a 32-bit CRC. -/
theorem words5 (B : Bits) (magic crc : Nat) (R1 R2 : Bits)
    (h48 : takeNat 48 B = some (magic, R1)) (h32 : takeNat 32 R1 = some (crc, R2)) :
    80 ≤ B.length ∧
    bitsToNat (B.take 16) * 2 ^ 32 + bitsToNat ((B.drop 16).take 16) * 2 ^ 16 +
      bitsToNat ((B.drop 32).take 16) = magic ∧
    bitsToNat ((B.drop 48).take 16) * 2 ^ 16 + bitsToNat ((B.drop 64).take 16) = crc ∧
    R2 = B.drop 80 := by
  have l1 := takeNat_length h48
  have l2 := takeNat_length h32
  have s1 := split48 B (by omega)
  rw [h48] at s1
  injection s1 with s1
  injection s1 with s1 s1'
  subst s1'
  have s2 := split32 (B.drop 48) (by omega)
  rw [h32] at s2
  injection s2 with s2
  injection s2 with s2 s2'
  rw [List.drop_drop] at s2 s2'
  refine ⟨by omega, s1.symm, s2.symm, s2'⟩

theorem step_block (m : Nat) (p : Gen.ParseSt) (c : Cur) (acc : List UInt8)
    (inv : BufInv c.v c.w) (hs : p.state = 2) (R1 : Bits) (crc : Nat) (R2 : Bits)
    (h48 : takeNat 48 (bitsC c) = some (0x314159265359, R1)) (h32 : takeNat 32 R1 = some (crc, R2)) :
    ∃ c5 p', bitsC c5 = R2 ∧ BufInv c5.v c5.w ∧ c5.w ≤ 48 ∧ p'.state = 2 ∧ p'.bs100k = p.bs100k ∧
      p'.streamMode = p.streamMode ∧ p'.computedCrc = crcUpd p.computedCrc crc ∧
      ∀ f, go m (f + 5) p c acc =
        match blockAt p.bs100k crc c5 with
        | .error e => .error e
        | .ok (out, c6) => go m f p' c6 (acc ++ out) := by
  obtain ⟨hlen, hmag, hcrc, hR2⟩ := words5 _ _ _ _ _ h48 h32
  have t1 := bitsToNat_take_lt (bitsC c) 16
  have t2 := bitsToNat_take_lt ((bitsC c).drop 16) 16
  have t3 := bitsToNat_take_lt ((bitsC c).drop 32) 16
  have t4 := bitsToNat_take_lt ((bitsC c).drop 48) 16
  have t5 := bitsToNat_take_lt ((bitsC c).drop 64) 16
  have e1 : bitsToNat ((bitsC c).take 16) = 12609 := by omega
  have e2 : bitsToNat (((bitsC c).drop 16).take 16) = 22822 := by omega
  have e3 : bitsToNat (((bitsC c).drop 32).take 16) = 21337 := by omega
  -- word 1
  obtain ⟨c1, a1, i1, _, g1⟩ := go_cont m p c acc inv (by omega) 12609 e1
    { p with align := false, state := 3 }
    (by rw [ps2 _ _ (show ({ p with align := false } : Gen.ParseSt).state = 2 from hs),
          if_neg (by decide), if_pos rfl]) rfl
  have n1 : (bitsC c1).length = (bitsC c).length - 16 := by rw [a1, List.length_drop]
  -- word 2
  obtain ⟨c2, a2, i2, _, g2⟩ := go_cont m { p with align := false, state := 3 } c1 acc i1 (by omega) 22822 (by rw [a1]; exact e2)
    { p with align := false, state := 4 }
    (by rw [ps3 _ _ rfl, if_pos rfl]) rfl
  rw [a1, List.drop_drop] at a2
  have n2 : (bitsC c2).length = (bitsC c).length - 32 := by rw [a2, List.length_drop]
  -- word 3
  obtain ⟨c3, a3, i3, _, g3⟩ := go_cont m { p with align := false, state := 4 } c2 acc i2 (by omega) 21337 (by rw [a2]; exact e3)
    { p with align := false, state := 5 }
    (by rw [ps4 _ _ rfl, if_pos rfl]) rfl
  rw [a2, List.drop_drop] at a3
  have n3 : (bitsC c3).length = (bitsC c).length - 48 := by rw [a3, List.length_drop]
  -- word 4
  obtain ⟨c4, a4, i4, _, g4⟩ := go_cont m { p with align := false, state := 5 } c3 acc i3 (by omega) _ rfl
    { p with align := false, state := 6,
             storedCrc := bitsToNat (((bitsC c).drop 48).take 16) % 4294967296 }
    (by rw [ps5 _ _ rfl, a3]) rfl
  rw [a3, List.drop_drop] at a4
  have n4 : (bitsC c4).length = (bitsC c).length - 64 := by rw [a4, List.length_drop]
  -- word 5
  obtain ⟨c5, a5, i5, w5, g5⟩ := go_wordA m
    { p with align := false, state := 6,
             storedCrc := bitsToNat (((bitsC c).drop 48).take 16) % 4294967296 } c4 acc i4 (by omega)
  rw [a4, List.drop_drop] at a5
  have hj := join_val _ _ t4 t5
  have hc : bitsToNat (((bitsC c).drop 48).take 16) * 65536 + bitsToNat (((bitsC c).drop 64).take 16) = crc := by
    omega
  rw [hc] at hj
  refine ⟨c5,
    { p with align := false, state := 2,
             storedCrc := bitsToNat (((bitsC c).drop 48).take 16) % 4294967296,
             hdCrc := crc, hdBs100k := p.bs100k, computedCrc := crcUpd p.computedCrc crc },
    by rw [a5, hR2], i5, w5, rfl, rfl, rfl, rfl, fun f => ?_⟩
  rw [show f + 5 = f + 4 + 1 from rfl, g1, show f + 4 = f + 3 + 1 from rfl, g2,
    show f + 3 = f + 2 + 1 from rfl, g3, show f + 2 = f + 1 + 1 from rfl, g4, g5, a4, ps6 _ _ rfl]
  simp only [hj]
  rw [after_ok _ _ _ _ _ rfl]

theorem step_eos (m : Nat) (p : Gen.ParseSt) (c : Cur) (acc : List UInt8)
    (inv : BufInv c.v c.w) (hs : p.state = 2) (hm : p.streamMode = false) (R1 R2 : Bits)
    (h48 : takeNat 48 (bitsC c) = some (0x177245385090, R1))
    (h32 : takeNat 32 R1 = some (p.computedCrc, R2)) :
    ∃ c5 p', bitsC c5 = R2.drop (R2.length % 8) ∧ BufInv c5.v c5.w ∧ c5.w ≤ 48 ∧ p'.state = 0 ∧
      p'.streamMode = false ∧ p'.computedCrc = 0 ∧
      ∀ f, go m (f + 5) p c acc = go m f p' c5 acc := by
  obtain ⟨hlen, hmag, hcrc, hR2⟩ := words5 _ _ _ _ _ h48 h32
  have t1 := bitsToNat_take_lt (bitsC c) 16
  have t2 := bitsToNat_take_lt ((bitsC c).drop 16) 16
  have t3 := bitsToNat_take_lt ((bitsC c).drop 32) 16
  have t4 := bitsToNat_take_lt ((bitsC c).drop 48) 16
  have t5 := bitsToNat_take_lt ((bitsC c).drop 64) 16
  have e1 : bitsToNat ((bitsC c).take 16) = 6002 := by omega
  have e2 : bitsToNat (((bitsC c).drop 16).take 16) = 17720 := by omega
  have e3 : bitsToNat (((bitsC c).drop 32).take 16) = 20624 := by omega
  -- word 1
  obtain ⟨c1, a1, i1, _, g1⟩ := go_cont m p c acc inv (by omega) 6002 e1
    { p with align := false, state := 7 }
    (by rw [ps2 _ _ (show ({ p with align := false } : Gen.ParseSt).state = 2 from hs),
          if_pos rfl]) rfl
  have n1 : (bitsC c1).length = (bitsC c).length - 16 := by rw [a1, List.length_drop]
  -- word 2
  obtain ⟨c2, a2, i2, _, g2⟩ := go_cont m { p with align := false, state := 7 } c1 acc i1 (by omega)
    17720 (by rw [a1]; exact e2)
    { p with align := false, state := 8 }
    (by rw [ps7 _ _ rfl, if_pos rfl]) rfl
  rw [a1, List.drop_drop] at a2
  have n2 : (bitsC c2).length = (bitsC c).length - 32 := by rw [a2, List.length_drop]
  -- word 3
  obtain ⟨c3, a3, i3, _, g3⟩ := go_cont m { p with align := false, state := 8 } c2 acc i2 (by omega)
    20624 (by rw [a2]; exact e3)
    { p with align := false, state := 9 }
    (by rw [ps8 _ _ rfl, if_pos rfl]) rfl
  rw [a2, List.drop_drop] at a3
  have n3 : (bitsC c3).length = (bitsC c).length - 48 := by rw [a3, List.length_drop]
  -- word 4
  obtain ⟨c4, a4, i4, _, g4⟩ := go_cont m { p with align := false, state := 9 } c3 acc i3 (by omega)
    _ rfl
    { p with align := false, state := 10,
             storedCrc := bitsToNat (((bitsC c).drop 48).take 16) % 4294967296 }
    (by rw [ps9 _ _ rfl, a3]) rfl
  rw [a3, List.drop_drop] at a4
  have n4 : (bitsC c4).length = (bitsC c).length - 64 := by rw [a4, List.length_drop]
  -- word 5
  obtain ⟨c5, a5, i5, w5, g5⟩ := go_wordA m
    { p with align := false, state := 10,
             storedCrc := bitsToNat (((bitsC c).drop 48).take 16) % 4294967296 } c4 acc i4 (by omega)
  rw [a4, List.drop_drop] at a5
  have hj := join_val _ _ t4 t5
  have hc : bitsToNat (((bitsC c).drop 48).take 16) * 65536 +
      bitsToNat (((bitsC c).drop 64).take 16) = p.computedCrc := by
    omega
  rw [hc] at hj
  obtain ⟨b1, b2, b3⟩ := align_bits c5 i5
  have hm' : ∀ (x y : Nat), ({ ({ p with align := false, state := x, storedCrc := y } : Gen.ParseSt) with
      align := false } : Gen.ParseSt).streamMode = false := fun _ _ => hm
  refine ⟨alignC c5,
    { p with align := true, state := 0, storedCrc := p.computedCrc, computedCrc := 0 },
    by rw [b1, a5, hR2], b2, by omega, rfl, hm, rfl, fun f => ?_⟩
  rw [show f + 5 = f + 4 + 1 from rfl, g1, show f + 4 = f + 3 + 1 from rfl, g2,
    show f + 3 = f + 2 + 1 from rfl, g3, show f + 2 = f + 1 + 1 from rfl, g4, g5, a4,
    ps10 _ _ rfl (hm' _ _)]
  simp only [hj, if_true]
  rw [after_none_align _ _ _ _ _ rfl]

theorem step_header (m : Nat) (p : Gen.ParseSt) (c : Cur) (acc : List UInt8)
    (inv : BufInv c.v c.w) (hs : p.state = 0) (h32 : 32 ≤ (bitsC c).length)
    (hw1 : bitsToNat ((bitsC c).take 16) = 0x425A)
    (hw2 : 0x6831 ≤ bitsToNat (((bitsC c).drop 16).take 16) ∧
           bitsToNat (((bitsC c).drop 16).take 16) ≤ 0x6839) :
    ∃ c3 p', bitsC c3 = (bitsC c).drop 32 ∧ BufInv c3.v c3.w ∧ c3.w ≤ 48 ∧ p'.state = 2 ∧
      p'.bs100k = bitsToNat (((bitsC c).drop 16).take 16) - 0x6830 ∧
      p'.streamMode = p.streamMode ∧ p'.computedCrc = p.computedCrc ∧
      ∀ f, go m (f + 2) p c acc = go m f p' c3 acc := by
  obtain ⟨c1, a1, i1, _, g1⟩ := go_cont m p c acc inv (by omega) 16986 hw1
    { p with align := false, state := 1 }
    (by rw [ps0 _ _ (show ({ p with align := false } : Gen.ParseSt).state = 0 from hs),
          if_pos rfl]) rfl
  have n1 : (bitsC c1).length = (bitsC c).length - 16 := by rw [a1, List.length_drop]
  obtain ⟨c2, a2, i2, w2, g2⟩ := go_cont m { p with align := false, state := 1 } c1 acc i1 (by omega)
    (bitsToNat (((bitsC c).drop 16).take 16)) (by rw [a1])
    { p with align := false, state := 2, bs100k := bitsToNat (((bitsC c).drop 16).take 16) - 0x6830 }
    (by rw [ps1 _ _ rfl, if_pos hw2, level_of_word _ hw2.1 hw2.2]) rfl
  rw [a1, List.drop_drop] at a2
  refine ⟨c2,
    { p with align := false, state := 2, bs100k := bitsToNat (((bitsC c).drop 16).take 16) - 0x6830 },
    a2, i2, w2, rfl, rfl, rfl, rfl, fun f => ?_⟩
  rw [show f + 2 = f + 1 + 1 from rfl, g1, g2]

theorem atEof0 (m : Nat) (p : Gen.ParseSt) (c : Cur) (acc : List UInt8) (hs : p.state = 0) :
    atEof m p c acc = finishCheck m 0 c acc := by
  have e : Gen.parseAtEof p = ({ p with state := Gen.PS_ACCEPT, garbage := 0 }, Gen.RV_FINISH) := by
    unfold Gen.parseAtEof Gen.PS_STREAM_MAGIC_1
    rw [if_pos hs]
  unfold atEof
  rw [e]
  exact if_pos rfl

theorem atEof1 (m : Nat) (p : Gen.ParseSt) (c : Cur) (acc : List UInt8) (hs : p.state = 1) :
    atEof m p c acc = finishCheck m 16 c acc := by
  have e : Gen.parseAtEof p = ({ p with state := Gen.PS_ACCEPT, garbage := 16 }, Gen.RV_FINISH) := by
    unfold Gen.parseAtEof Gen.PS_STREAM_MAGIC_1 Gen.PS_STREAM_MAGIC_2
    rw [if_neg (by omega), if_pos hs]
  unfold atEof
  rw [e]
  exact if_pos rfl

theorem step_trailing (m : Nat) (p : Gen.ParseSt) (c : Cur) (acc : List UInt8)
    (inv : BufInv c.v c.w) (hs : p.state = 0) (hm3 : m < 4)
    (hno : ¬ (32 ≤ (bitsC c).length ∧ bitsToNat ((bitsC c).take 16) = 0x425A ∧
              0x6831 ≤ bitsToNat (((bitsC c).drop 16).take 16) ∧
              bitsToNat (((bitsC c).drop 16).take 16) ≤ 0x6839)) :
    ∀ f, go m (f + 2) p c acc =
      if c.size < 8 * m then .error (.data Gen.ERR_EOF) else .ok acc := by
  intro f
  have hsz := bitsC_length c
  by_cases h16 : (bitsC c).length < 16
  · rw [show f + 2 = f + 1 + 1 from rfl, go_eof m _ p c acc inv h16, atEof0 _ _ _ _ hs,
      finishCheck_eq _ _ _ _ hm3, Nat.add_zero]
  · have hs' : ({ p with align := false } : Gen.ParseSt).state = 0 := hs
    by_cases hw1 : bitsToNat ((bitsC c).take 16) = 16986
    · obtain ⟨c1, a1, i1, _, g1⟩ := go_cont m p c acc inv (by omega) 16986 hw1
        { p with align := false, state := 1 }
        (by rw [ps0 _ _ hs', if_pos rfl]) rfl
      have n1 : (bitsC c1).length = (bitsC c).length - 16 := by rw [a1, List.length_drop]
      have hsz1 := bitsC_length c1
      rw [show f + 2 = f + 1 + 1 from rfl, g1]
      by_cases h32 : (bitsC c1).length < 16
      · rw [go_eof m _ _ c1 acc i1 h32, atEof1 _ _ _ _ rfl, finishCheck_eq _ _ _ _ hm3,
          show c1.size + 16 = c.size by omega]
      · obtain ⟨c2, a2, i2, _, g2⟩ := go_wordA m { p with align := false, state := 1 } c1 acc i1
          (by omega)
        have n2 : (bitsC c2).length = (bitsC c1).length - 16 := by rw [a2, List.length_drop]
        have hsz2 := bitsC_length c2
        rw [a1] at g2
        rw [g2, ps1 _ _ rfl, if_neg (by omega), after_finish _ _ _ _ _ rfl,
          finishCheck_eq _ _ _ _ hm3]
        show (if c2.size + 32 < 8 * m then _ else _) = _
        rw [show c2.size + 32 = c.size by omega]
    · obtain ⟨c2, a2, i2, _, g2⟩ := go_wordA m p c acc inv (by omega)
      have n2 : (bitsC c2).length = (bitsC c).length - 16 := by rw [a2, List.length_drop]
      have hsz2 := bitsC_length c2
      rw [g2, ps0 _ _ hs', if_neg hw1, after_finish _ _ _ _ _ rfl, finishCheck_eq _ _ _ _ hm3]
      show (if c2.size + 16 < 8 * m then _ else _) = _
      rw [show c2.size + 16 = c.size by omega]

end LbzVerif.Lemmas.ExpandChainC
