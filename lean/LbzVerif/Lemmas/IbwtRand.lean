/-
  Lemmas.IbwtRand — the randomised path of `decode()` for ALL blocks:

  * `bsearch_spec`: the eight-step binary search returns `k ≤ 255` with
    `ftab[k-1] ≤ j < ftab[k]` (`ftab[-1] = 0`; no monotonicity needed);
    with the advanced `ftab` (`ftab[b]` = number of bytes `≤ b`) and
    `j = pos L i` that is the byte `L[i]` (`bsearch_pos`);
  * `insitu_spec`: the in-situ loop keeps every pointer and sets the byte of
    cell `m` to `bsearch ftab (T^m idx)`;
  * `walk_reform`: the re-formed list, walked from `rle_index = 0`, yields the
    bytes of the cells in index order, and dereferences pointers `0 … n-1`;
  * `nodes_true_eq`: `nodes true idx L = derand (ibwt L idx)`.
-/
import LbzVerif.Lemmas.IbwtSort
import LbzVerif.Lemmas.IbwtDerand

namespace LbzVerif.Lemmas.IbwtRand

open LbzVerif
open LbzVerif.Model.Ibwt
open LbzVerif.Lemmas.Ibwt
open LbzVerif.Lemmas.IbwtSort
open LbzVerif.Lemmas.IbwtDerand
open LbzVerif.Spec.Ibwt (succVec follow)

/-! ### Binary search -/

/-- One `if (j >= ftab[k + w - 1]) k += w;`. -/
def bstep (ftab : List Nat) (j k w : Nat) : Nat :=
  if j ≥ ftab.getD (k + w - 1) 0 then k + w else k

theorem bsearch_eq (ftab : List Nat) (j : Nat) :
    bsearch ftab j =
      bstep ftab j (bstep ftab j (bstep ftab j (bstep ftab j (bstep ftab j (bstep ftab j
        (bstep ftab j (bstep ftab j 0 128) 64) 32) 16) 8) 4) 2) 1 := rfl

/-- Search interval `[k, k + w)`: everything below `k` is `≤ j`, the entry at
the top of the interval (if it exists) is `> j`. -/
def BInv (F : List Nat) (j k w : Nat) : Prop :=
  k + w ≤ 256 ∧ (k = 0 ∨ F.getD (k - 1) 0 ≤ j) ∧ (256 ≤ k + w ∨ j < F.getD (k + w - 1) 0)

theorem bstep_inv (F : List Nat) (j k h : Nat) (hh : 0 < h) (H : BInv F j k (2 * h)) :
    BInv F j (bstep F j k h) h := by
  obtain ⟨h1, h2, h3⟩ := H
  unfold bstep
  by_cases hc : j ≥ F.getD (k + h - 1) 0
  · simp only [hc, if_true]
    refine ⟨by omega, Or.inr hc, ?_⟩
    rcases h3 with h3 | h3
    · left; omega
    · right
      have : k + h + h - 1 = k + 2 * h - 1 := by omega
      rw [this]; exact h3
  · simp only [hc, if_false]
    exact ⟨by omega, h2, Or.inr (by omega)⟩

theorem bsearch_spec (F : List Nat) (j : Nat) :
    bsearch F j ≤ 255 ∧ (bsearch F j = 0 ∨ F.getD (bsearch F j - 1) 0 ≤ j) ∧
      (bsearch F j = 255 ∨ j < F.getD (bsearch F j) 0) := by
  have h0 : BInv F j 0 (2 * 128) := ⟨by omega, Or.inl rfl, Or.inl (by omega)⟩
  have h1 := bstep_inv F j _ 128 (by omega) h0
  have h2 := bstep_inv F j _ 64 (by omega) h1
  have h3 := bstep_inv F j _ 32 (by omega) h2
  have h4 := bstep_inv F j _ 16 (by omega) h3
  have h5 := bstep_inv F j _ 8 (by omega) h4
  have h6 := bstep_inv F j _ 4 (by omega) h5
  have h7 := bstep_inv F j _ 2 (by omega) h6
  have h8 := bstep_inv F j _ 1 (by omega) h7
  rw [← bsearch_eq] at h8
  obtain ⟨a, b, c⟩ := h8
  refine ⟨by omega, b, ?_⟩
  rcases c with c | c
  · left; omega
  · right; simpa using c

theorem cntLt_mono (L : List UInt8) (v w : Nat) (h : v ≤ w) : cntLt L v ≤ cntLt L w := by
  induction L with
  | nil => simp [cntLt]
  | cons x xs ih =>
    rw [cntLt_cons, cntLt_cons]
    split <;> split <;> omega

theorem cntLt_256 (L : List UInt8) : cntLt L 256 = L.length := by
  induction L with
  | nil => simp [cntLt]
  | cons x xs ih =>
    rw [cntLt_cons, ih]
    have := x.toNat_lt
    simp; omega

/-- With the advanced table (`F[b]` = number of bytes `≤ b`) the search maps a
slot to the first-column byte of that slot. -/
theorem bsearch_pos (L : List UInt8) (F : List Nat)
    (hF : ∀ b, b < 256 → F.getD b 0 = cntLt L (b + 1)) (i : Nat) (hi : i < L.length) :
    bsearch F (pos L i) = byteAt L i := by
  obtain ⟨hk, hlo, hhi⟩ := bsearch_spec F (pos L i)
  have hv := byteAt_lt L i
  have hp1 : cntLt L (byteAt L i) ≤ pos L i := by unfold pos; omega
  have hp2 : pos L i < cntLt L (byteAt L i + 1) := by
    have := cntEq_take_lt L i hi
    rw [cntLt_succ]; unfold pos; omega
  rcases Nat.lt_trichotomy (bsearch F (pos L i)) (byteAt L i) with h | h | h
  · exfalso
    rcases hhi with hhi | hhi
    · omega
    · rw [hF _ (by omega)] at hhi
      have := cntLt_mono L (bsearch F (pos L i) + 1) (byteAt L i) (by omega)
      omega
  · exact h
  · exfalso
    rcases hlo with hlo | hlo
    · omega
    · rw [hF _ (by omega)] at hlo
      have e : bsearch F (pos L i) - 1 + 1 = bsearch F (pos L i) := by omega
      rw [e] at hlo
      have := cntLt_mono L (byteAt L i + 1) (bsearch F (pos L i)) (by omega)
      omega

/-! ### The state `link` leaves -/

/-- After the list construction: `n` cells, cell `q` = byte `L[q]` + pointer
`S L n q`; `ftab[b]` = number of bytes `≤ b`. -/
theorem link_state (L : List UInt8) :
    let r := link (L.map (·.toNat)) (cumulate 0 (counts L)) L.length
    r.1.length = L.length ∧
      (∀ q, q < L.length → r.1.getD q 0 = byteAt L q + S L L.length q * 256) ∧
      (∀ b, b < 256 → r.2.getD b 0 = cntLt L (b + 1)) := by
  obtain ⟨hf, hc⟩ := cumulate_counts L
  have h0 : Ik L (L.map (·.toNat)) (cumulate 0 (counts L)) 0 := by
    refine ⟨by simp, hf, ?_, ?_⟩
    · intro b hb; rw [hc b hb]; simp [cntEq_nil]
    · intro q hq
      simp [S, byteAt, List.getD_eq_getElem?_getD, hq]
  have h := foldl_inv L _ _ h0 L.length (Nat.le_refl _)
  simp only [link]
  refine ⟨h.ttLen, h.tt, ?_⟩
  intro b hb
  rw [h.ft b hb, List.take_length, cntLt_succ]

/-! ### The in-situ loop -/

/-- `m`-fold application: `iter T m j = T^m j`. -/
def iter (T : Nat → Nat) : Nat → Nat → Nat
  | 0, j => j
  | m + 1, j => iter T m (T j)

theorem iter_succ' (T : Nat → Nat) : ∀ m j, iter T (m + 1) j = T (iter T m j) := by
  intro m
  induction m with
  | zero => intro j; rfl
  | succ m ih => intro j; rw [iter, ih (T j)]; rfl

theorem insitu_spec (F : List Nat) (T : Nat → Nat) (n : Nat) :
    ∀ (todo i j : Nat) (tt : List Nat), tt.length = n → i + todo ≤ n →
      (∀ q, tt.getD q 0 >>> 8 = T q) →
      (insitu F todo i j tt).length = n ∧
      (∀ q, (insitu F todo i j tt).getD q 0 >>> 8 = T q) ∧
      (∀ q, q < i → (insitu F todo i j tt).getD q 0 = tt.getD q 0) ∧
      (∀ m, m < todo → (insitu F todo i j tt).getD (i + m) 0 % 256 = bsearch F (iter T m j)) := by
  intro todo
  induction todo with
  | zero =>
    intro i j tt hl _ hT
    exact ⟨hl, hT, fun _ _ => rfl, fun m hm => by omega⟩
  | succ todo ih =>
    intro i j tt hl hi hT
    simp only [insitu]
    have hk := (bsearch_spec F j).1
    have hil : i < tt.length := by omega
    have hcell : ∀ q, (tt.set i (tt.getD i 0 / 256 * 256 + bsearch F j)).getD q 0 >>> 8 = T q := by
      intro q
      by_cases hq : i = q
      · subst hq
        rw [getD_set_eq _ _ _ _ hil, ← hT i, Nat.shiftRight_eq_div_pow, Nat.shiftRight_eq_div_pow]
        omega
      · rw [getD_set_ne _ _ _ _ _ hq]; exact hT q
    have hj : (tt.set i (tt.getD i 0 / 256 * 256 + bsearch F j)).getD j 0 >>> 8 = T j := hcell j
    rw [hj]
    obtain ⟨r1, r2, r3, r4⟩ := ih (i + 1) (T j) _ (by simp [hl]) (by omega) hcell
    refine ⟨r1, r2, ?_, ?_⟩
    · intro q hq
      rw [r3 q (by omega), getD_set_ne _ _ _ _ _ (by omega)]
    · intro m hm
      cases m with
      | zero =>
        show (insitu F todo (i + 1) (T j) (tt.set i (tt.getD i 0 / 256 * 256 + bsearch F j))).getD
          i 0 % 256 = bsearch F j
        rw [r3 i (by omega), getD_set_eq _ _ _ _ hil]
        omega
      | succ m =>
        have := r4 m (by omega)
        rw [show i + (m + 1) = i + 1 + m by omega, this]
        rfl

/-! ### Reading the textbook traversal pointwise -/

theorem follow_length (L : List UInt8) (T : List Nat) : ∀ m q, (follow L T m q).length = m := by
  intro m
  induction m with
  | zero => intro q; rfl
  | succ m ih => intro q; simp [follow, ih]

theorem follow_getD (L : List UInt8) (T : List Nat) : ∀ (m r q : Nat), r < m →
    (follow L T m q).getD r 0 = L.getD (iter (fun x => T.getD x 0) (r + 1) q) 0 := by
  intro m
  induction m with
  | zero => intro r q h; omega
  | succ m ih =>
    intro r q hr
    cases r with
    | zero => simp [follow, iter]
    | succ r =>
      simp only [follow, List.getD_cons_succ]
      rw [ih r _ (by omega)]
      rfl

theorem iter_congr (T T' : Nat → Nat) (n : Nat) (hT : ∀ q, q < n → T q = T' q)
    (hr : ∀ q, q < n → T' q < n) : ∀ m j, j < n → iter T m j = iter T' m j ∧ iter T' m j < n := by
  intro m
  induction m with
  | zero => intro j hj; exact ⟨rfl, hj⟩
  | succ m ih =>
    intro j hj
    simp only [iter]
    rw [hT j hj]
    exact ih _ (hr j hj)

/-! ### The re-formed list -/

theorem reform_length (tt : List Nat) : (reform tt).length = tt.length := by
  simp [reform]

theorem reform_getD (tt : List Nat) (q : Nat) (hq : q < tt.length) :
    (reform tt).getD q 0 = ((q + 1) <<< 8) + tt.getD q 0 % 256 := by
  simp [reform, List.getD_eq_getElem?_getD, List.getElem?_map, List.getElem?_zipIdx,
    List.getElem?_eq_getElem hq]

theorem shl8_add_shr8 (a b : Nat) (hb : b < 256) : ((a <<< 8) + b) >>> 8 = a := by
  rw [Nat.shiftLeft_eq, Nat.shiftRight_eq_div_pow]; omega

theorem shl8_add_mod (a b : Nat) (hb : b < 256) : ((a <<< 8) + b) % 256 = b := by
  rw [Nat.shiftLeft_eq]; omega

/-- Walking the re-formed list from cell `k` for `m` steps reads the bytes of
cells `k … k+m-1`. -/
theorem walk_reform (tt : List Nat) : ∀ (m k p : Nat), p >>> 8 = k → k + m ≤ tt.length →
    walk (reform tt) m p = ((tt.drop k).take m).map low := by
  intro m
  induction m with
  | zero => intro k p _ _; simp [walk]
  | succ m ih =>
    intro k p hp hk
    have hkl : k < tt.length := by omega
    have hb : tt.getD k 0 % 256 < 256 := Nat.mod_lt _ (by omega)
    have hg : tt.getD k 0 = tt[k] := by
      simp [List.getD_eq_getElem?_getD, List.getElem?_eq_getElem hkl]
    simp only [walk, hp]
    rw [reform_getD tt k hkl, shl8_add_mod _ _ hb,
      ih (k + 1) _ (shl8_add_shr8 _ _ hb) (by omega), List.drop_eq_getElem_cons hkl,
      List.take_succ_cons, List.map_cons, hg]
    rfl

/-- … and dereferences exactly the pointers `k … k+m-1`. -/
theorem walkMaxPtr_reform (tt : List Nat) : ∀ (m k p : Nat), p >>> 8 = k → 0 < m →
    k + m ≤ tt.length → walkMaxPtr (reform tt) m p = k + m - 1 := by
  intro m
  induction m with
  | zero => intro k p _ h; omega
  | succ m ih =>
    intro k p hp _ hk
    have hkl : k < tt.length := by omega
    have hb : tt.getD k 0 % 256 < 256 := Nat.mod_lt _ (by omega)
    simp only [walkMaxPtr, hp]
    rw [reform_getD tt k hkl]
    cases m with
    | zero => simp [walkMaxPtr]
    | succ m =>
      rw [ih (k + 1) _ (shl8_add_shr8 _ _ hb) (by omega) (by omega)]
      omega

/-! ### Assembly -/

theorem nodes_true_unfold (idx : Nat) (L : List UInt8) :
    nodes true idx L =
      walk (reform (derandLoop L.length L.length 0 Gen.RAND_THRESH
        (insitu (link (L.map (·.toNat)) (cumulate 0 (counts L)) L.length).2 L.length 0 idx
          (link (L.map (·.toNat)) (cumulate 0 (counts L)) L.length).1))) L.length 0 := by
  simp [nodes, decode]

/-- The bytes of the cells after the in-situ loop are the textbook inverse BWT. -/
theorem insitu_low (L : List UInt8) (idx : Nat) (hidx : idx < L.length) :
    let r := link (L.map (·.toNat)) (cumulate 0 (counts L)) L.length
    (insitu r.2 L.length 0 idx r.1).length = L.length ∧
      (insitu r.2 L.length 0 idx r.1).map low = Spec.Ibwt.ibwt L idx := by
  intro r
  obtain ⟨hlen, htt, hft⟩ := link_state L
  have hn : 0 < L.length := by omega
  -- the pointer function stored in the list
  let T : Nat → Nat := fun q => r.1.getD q 0 >>> 8
  have hTS : ∀ q, q < L.length → T q = S L L.length q := by
    intro q hq
    show r.1.getD q 0 >>> 8 = _
    rw [htt q hq, Nat.shiftRight_eq_div_pow]
    have := byteAt_lt L q
    omega
  have hTpos : ∀ i, i < L.length → T (pos L i) = i := by
    intro i hi
    rw [hTS _ (pos_lt L i hi), S_pos L i hi L.length (Nat.le_refl _)]
    simp [hi]
  -- T agrees with the successor vector
  have hTsucc : ∀ q, q < L.length → T q = (succVec L).getD q 0 := by
    intro q hq
    have := hTpos _ (succVec_getD_lt L q hq)
    rw [pos_succVec L q hq] at this
    exact this
  obtain ⟨r1, _, _, r4⟩ := insitu_spec r.2 T L.length L.length 0 idx r.1 hlen (by omega)
    (fun _ => rfl)
  refine ⟨r1, ?_⟩
  apply List.ext_getElem
  · simp [r1, Spec.Ibwt.ibwt, follow_length]
  · intro m h1 h2
    have hm : m < L.length := by simpa [r1] using h1
    have hit := iter_congr T (fun x => (succVec L).getD x 0) L.length hTsucc
      (succVec_getD_lt L)
    have e1 : ((insitu r.2 L.length 0 idx r.1).map low)[m] =
        low ((insitu r.2 L.length 0 idx r.1).getD m 0) := by
      have : m < (insitu r.2 L.length 0 idx r.1).length := by rw [r1]; exact hm
      simp [List.getD_eq_getElem?_getD, List.getElem?_eq_getElem this]
    have e2 : (Spec.Ibwt.ibwt L idx)[m] = (Spec.Ibwt.ibwt L idx).getD m 0 := by
      simp [List.getD_eq_getElem?_getD, List.getElem?_eq_getElem h2]
    rw [e1, e2]
    have h4 := r4 m hm
    rw [Nat.zero_add] at h4
    unfold low
    rw [h4]
    -- the slot reached after m steps, as `pos` of its successor
    obtain ⟨hi1, hi2⟩ := hit m idx hidx
    have hslot : iter T m idx = pos L (T (iter T m idx)) := by
      rw [hi1, hTsucc _ hi2, pos_succVec L _ hi2]
    have hTlt : T (iter T m idx) < L.length := by
      rw [hi1, hTsucc _ hi2]; exact succVec_getD_lt L _ hi2
    rw [hslot, bsearch_pos L r.2 hft _ hTlt]
    unfold Spec.Ibwt.ibwt
    rw [follow_getD L (succVec L) L.length m idx hm, ← iter_succ' T, (hit (m + 1) idx hidx).1]
    apply UInt8.toNat_inj.mp
    simp [byteAt]

/-- **Randomised path**: what `emit()` reads after `decode()` is the reference
derandomisation of the textbook inverse BWT of `(L, idx)`. -/
theorem nodes_true_eq (L : List UInt8) (idx : Nat) (hidx : idx < L.length) :
    nodes true idx L = Spec.Ibwt.derand Gen.randTable (Spec.Ibwt.ibwt L idx) := by
  obtain ⟨hl, hlow⟩ := insitu_low L idx hidx
  rw [nodes_true_unfold]
  generalize insitu (link (L.map (·.toNat)) (cumulate 0 (counts L)) L.length).2 L.length 0 idx
    (link (L.map (·.toNat)) (cumulate 0 (counts L)) L.length).1 = tt2 at hl hlow
  have hl3 : (derandLoop L.length L.length 0 Gen.RAND_THRESH tt2).length = L.length := by
    rw [derandLoop_length, hl]
  rw [walk_reform _ L.length 0 0 rfl (by rw [hl3]; omega), List.drop_zero,
    List.take_of_length_le (by omega), ← hlow]
  have := derandLoop_low tt2
  rw [hl] at this
  exact this

/-- The traversal of the re-formed list stays inside `tt[0, n)`. -/
theorem decode_walk_bound_rand (L : List UInt8) (idx : Nat) (hn : 0 < L.length) :
    let d := decode true idx L (counts L)
    d.rleIndex = 0 ∧ walkMaxPtr d.tt L.length d.rleIndex = L.length - 1 := by
  have hl : ∀ tt2 : List Nat, tt2.length = L.length →
      walkMaxPtr (reform (derandLoop L.length L.length 0 Gen.RAND_THRESH tt2)) L.length 0 =
        L.length - 1 := by
    intro tt2 h2
    rw [walkMaxPtr_reform _ L.length 0 0 rfl hn (by rw [derandLoop_length, h2]; omega)]
    omega
  have hi : ∀ (F : List Nat) (todo i j : Nat) (tt : List Nat),
      (insitu F todo i j tt).length = tt.length := by
    intro F todo
    induction todo with
    | zero => intro i j tt; rfl
    | succ todo ih => intro i j tt; simp [insitu, ih]
  obtain ⟨hlen, _, _⟩ := link_state L
  refine ⟨by simp [decode], ?_⟩
  simp only [decode, if_true]
  exact hl _ (by rw [hi]; exact hlen)

/-! ### Cell values stay below 2^28 (no `uint32_t` wrap-around anywhere) -/

theorem decode_cells_lt (rand : Bool) (L : List UInt8) (idx : Nat) (q : Nat) :
    (decode rand idx L (counts L)).tt.getD q 0 < (L.length + 1) * 256 := by
  obtain ⟨hlen, htt, _⟩ := link_state L
  cases rand with
  | false =>
    simp only [decode, Bool.false_eq_true, if_false]
    by_cases hq : q < L.length
    · rw [htt q hq]
      have := byteAt_lt L q
      have := S_lt L q (by omega)
      have h1 : S L L.length q * 256 ≤ (L.length - 1) * 256 := Nat.mul_le_mul_right _ (by omega)
      have h2 : (L.length - 1) * 256 + 256 ≤ (L.length + 1) * 256 := by
        rw [← Nat.succ_mul]; exact Nat.mul_le_mul_right _ (by omega)
      omega
    · rw [List.getD_eq_getElem?_getD, List.getElem?_eq_none (by rw [hlen]; omega)]
      simp
  | true =>
    have hi : ∀ (F : List Nat) (todo i j : Nat) (tt : List Nat),
        (insitu F todo i j tt).length = tt.length := by
      intro F todo
      induction todo with
      | zero => intro i j tt; rfl
      | succ todo ih => intro i j tt; simp [insitu, ih]
    simp only [decode, if_true]
    generalize hg : derandLoop L.length L.length 0 Gen.RAND_THRESH
      (insitu (link (L.map (·.toNat)) (cumulate 0 (counts L)) L.length).2 L.length 0 idx
        (link (L.map (·.toNat)) (cumulate 0 (counts L)) L.length).1) = tt3
    have h3 : tt3.length = L.length := by
      rw [← hg, derandLoop_length, hi]; exact hlen
    by_cases hq : q < L.length
    · rw [reform_getD tt3 q (by omega), Nat.shiftLeft_eq]
      have : tt3.getD q 0 % 256 < 256 := Nat.mod_lt _ (by omega)
      have h1 : (q + 1) * 2 ^ 8 ≤ L.length * 256 := Nat.mul_le_mul_right _ (by omega)
      have h2 : L.length * 256 + 256 = (L.length + 1) * 256 := by rw [Nat.succ_mul]
      omega
    · rw [List.getD_eq_getElem?_getD, List.getElem?_eq_none (by rw [reform_length, h3]; omega)]
      simp

end LbzVerif.Lemmas.IbwtRand
