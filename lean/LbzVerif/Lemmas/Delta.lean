/-
  Lemmas.Delta — the windowed delta reader (`Model.Delta`) against the
  bit-by-bit reference (`Spec.Delta`).

  Structure:
  * `symW n c w` — the reference run on a WINDOW of `2n` bits for at most `n`
    steps: rejected / symbol done (new length, bits used) / `n` steps without
    terminator (`cont`).  `sym_eq_applyW`: the reference on a bit list equals
    the window outcome applied to the list — generic, by induction on `n`.
  * `winModel c k` — what the C code does with window value `k`: the range
    test, the `uint8_t` update, `L[k]`.
  * `core`: for all 64 windows and all 32 values of a 5-bit length,
    `winModel = symW 3` — the finite core, by `decide` over the tables
    regenerated from the source.
  * `loop_eq`: the whole `while` loop equals `Spec.Delta.syms`, by induction
    on the fuel; `table_eq`: one table.
-/
import LbzVerif.Spec.Delta
import LbzVerif.Model.Delta

namespace LbzVerif.Lemmas.Delta

open LbzVerif
open LbzVerif.Spec.Delta (inRange sym syms)
open LbzVerif.Model.Delta (win peek6 tL stepLen loop Res)

/-- Outcome of (at most) `n` reference steps on a window. -/
inductive WOut
  | reject
  | done (c l : Nat)
  | cont (c l : Nat)
  deriving DecidableEq, Repr

def WOut.shift2 : WOut → WOut
  | .reject => .reject
  | .done c l => .done c (l + 2)
  | .cont c l => .cont c (l + 2)

/-- The reference on a window: range test before every bit, at most `n`
two-bit steps. -/
def symW : Nat → Nat → List Bool → WOut
  | 0, c, _ => if inRange c then .cont c 0 else .reject
  | n + 1, c, w =>
    if inRange c then
      match w with
      | false :: _ => .done c 1
      | true :: false :: r => (symW n (c + 1) r).shift2
      | true :: true :: r => (symW n (c - 1) r).shift2
      | _ => .reject
    else .reject

/-- A window outcome applied to the real bit list. -/
def applyW (o : WOut) (bits : List Bool) : Option (Nat × List Bool) :=
  match o with
  | .reject => none
  | .done c l => if l ≤ bits.length then some (c, bits.drop l) else none
  | .cont c l => if l ≤ bits.length then sym c (bits.drop l) else none

theorem sym_not_inRange (c : Nat) (bits : List Bool) (h : inRange c = false) :
    sym c bits = none := by
  match bits with
  | [] => simp [sym]
  | false :: r => simp [sym, h]
  | [true] => simp [sym]
  | true :: false :: r => simp [sym, h]
  | true :: true :: r => simp [sym, h]

theorem applyW_shift2_cons (o : WOut) (a b : Bool) (r : List Bool) :
    applyW o.shift2 (a :: b :: r) = applyW o r := by
  cases o <;> simp [WOut.shift2, applyW]

theorem applyW_shift2_short (o : WOut) (bits : List Bool) (h : bits.length < 2) :
    applyW o.shift2 bits = none := by
  cases o <;> simp [WOut.shift2, applyW] <;> omega

/-- The reference on a list = its outcome on the zero-padded `2n`-bit window,
applied to the list. -/
theorem sym_eq_applyW (n : Nat) : ∀ (c : Nat) (bits : List Bool),
    sym c bits = applyW (symW n c (win (2 * n) bits)) bits := by
  induction n with
  | zero =>
    intro c bits
    cases h : inRange c
    · simp [symW, h, applyW, sym_not_inRange c bits h]
    · simp [symW, h, applyW]
  | succ n ih =>
    intro c bits
    have e : 2 * (n + 1) = 2 * n + 1 + 1 := by omega
    cases h : inRange c
    · simp [symW, h, applyW, sym_not_inRange c bits h]
    · rw [e]
      match bits with
      | [] => simp [win, symW, h, applyW, sym]
      | [false] => simp [win, symW, h, applyW, sym]
      | false :: b :: r => simp [win, symW, h, applyW, sym]
      | [true] =>
        simp only [win, symW, h, if_true]
        rw [applyW_shift2_short _ _ (by simp)]
        simp [sym]
      | true :: false :: r =>
        simp only [win, symW, h, if_true, sym]
        rw [applyW_shift2_cons]
        exact ih (c + 1) r
      | true :: true :: r =>
        simp only [win, symW, h, if_true, sym]
        rw [applyW_shift2_cons]
        exact ih (c - 1) r

/-- What `retrieve()` does with window value `k` at current length `c`. -/
def winModel (c k : Nat) : WOut :=
  match stepLen c k with
  | none => .reject
  | some c' => if tL k ≠ 6 then .done c' (tL k) else .cont c' 6

/-- **Finite core.**  For every 6-bit window and every value a 5-bit field or
a previous window can leave in `code_len[j]`, the table-driven step is the
reference run for at most three steps: same verdict (so no intermediate value
leaves 1…20), same new length, same number of bits, terminator found or not. -/
theorem core : ∀ c, c < 32 → ∀ b1 b2 b3 b4 b5 b6 : Bool,
    winModel c (Model.Delta.toNum [b1, b2, b3, b4, b5, b6]) =
      symW 3 c [b1, b2, b3, b4, b5, b6] := by
  decide +kernel

/-- Facts about accepted windows, from the same tables: the new length is
again in 1…20 and at least one bit is consumed. -/
theorem core_facts : ∀ c, c < 32 → ∀ b1 b2 b3 b4 b5 b6 : Bool,
    let k := Model.Delta.toNum [b1, b2, b3, b4, b5, b6]
    1 ≤ tL k ∧ ∀ c', stepLen c k = some c' → c' < 32 := by
  decide +kernel

theorem win_length (n : Nat) : ∀ bits, (win n bits).length = n := by
  induction n with
  | zero => intro bits; simp [win]
  | succ n ih =>
    intro bits
    cases bits <;> simp [win, ih]

theorem win6_cases (bits : List Bool) :
    ∃ b1 b2 b3 b4 b5 b6, win 6 bits = [b1, b2, b3, b4, b5, b6] := by
  have h := win_length 6 bits
  match hw : win 6 bits, h with
  | [b1, b2, b3, b4, b5, b6], _ => exact ⟨b1, b2, b3, b4, b5, b6, rfl⟩

/-- One window of the C code = the reference, on any bit list. -/
theorem sym_eq_winModel (c : Nat) (hc : c < 32) (bits : List Bool) :
    sym c bits = applyW (winModel c (peek6 bits)) bits := by
  obtain ⟨b1, b2, b3, b4, b5, b6, hw⟩ := win6_cases bits
  have h := sym_eq_applyW 3 c bits
  rw [show 2 * 3 = 6 from rfl, hw, ← core c hc] at h
  rw [h, peek6, hw]

theorem facts (c : Nat) (hc : c < 32) (bits : List Bool) :
    1 ≤ tL (peek6 bits) ∧ ∀ c', stepLen c (peek6 bits) = some c' → c' < 32 := by
  obtain ⟨b1, b2, b3, b4, b5, b6, hw⟩ := win6_cases bits
  have := core_facts c hc b1 b2 b3 b4 b5 b6
  rw [peek6, hw]
  exact this

/-- Errors collapse to `none`. -/
def toOpt : Res → Option (List Nat × List Bool)
  | .ok lens rest => some (lens, rest)
  | .errDelta => none
  | .errEof => none

/-- The loop of the C code computes the reference (with enough fuel). -/
theorem loop_eq : ∀ (fuel todo c : Nat) (acc : List Nat) (bits : List Bool),
    bits.length < fuel → c < 32 →
    toOpt (loop fuel todo c acc bits) =
      (syms todo c bits).map (fun p => (acc.reverse ++ p.1, p.2)) := by
  intro fuel
  induction fuel with
  | zero => intro _ _ _ _ h; omega
  | succ fuel ih =>
    intro todo c acc bits hf hc
    unfold loop
    cases todo with
    | zero => simp [syms, toOpt]
    | succ t =>
      simp only [Nat.add_one_ne_zero, if_false, Nat.add_sub_cancel]
      obtain ⟨hl, hc'⟩ := facts c hc bits
      simp only [syms, sym_eq_winModel c hc bits, winModel]
      cases hs : stepLen c (peek6 bits) with
      | none => simp [applyW, toOpt]
      | some c' =>
        have hc'' := hc' c' hs
        simp only
        by_cases h6 : tL (peek6 bits) = 6
        · simp only [h6, ne_eq, not_true_eq_false, if_false, applyW]
          by_cases hlen : bits.length < 6
          · have : ¬ (6 ≤ bits.length) := by omega
            simp [hlen, this, toOpt]
          · have h6' : 6 ≤ bits.length := by omega
            simp only [hlen, if_false, h6', if_true]
            have := ih (t + 1) c' acc (bits.drop 6) (by simp; omega) hc''
            rw [this]
            simp [syms]
        · simp only [ne_eq, h6, not_false_eq_true, if_true, applyW]
          by_cases hlen : bits.length < tL (peek6 bits)
          · have : ¬ (tL (peek6 bits) ≤ bits.length) := by omega
            simp [hlen, this, toOpt]
          · have hle : tL (peek6 bits) ≤ bits.length := by omega
            simp only [hlen, if_false, hle, if_true]
            have := ih t c' (c' :: acc) (bits.drop (tL (peek6 bits)))
              (by simp; omega) hc''
            rw [this]
            cases syms t c' (bits.drop (tL (peek6 bits))) with
            | none => simp
            | some p => simp

theorem toNum_lt : ∀ (bits : List Bool) (acc : Nat),
    bits.foldl (fun acc b => 2 * acc + (if b then 1 else 0)) acc <
      (acc + 1) * 2 ^ bits.length := by
  intro bits
  induction bits with
  | nil => intro acc; simp
  | cons b r ih =>
    intro acc
    simp only [List.foldl_cons, List.length_cons]
    have := ih (2 * acc + (if b then 1 else 0))
    have hx : 2 * acc + (if b then 1 else 0) + 1 ≤ 2 * (acc + 1) := by
      cases b <;> simp <;> omega
    have h2 : (2 * acc + (if b then 1 else 0) + 1) * 2 ^ r.length ≤
        (acc + 1) * 2 ^ (r.length + 1) :=
      calc (2 * acc + (if b then 1 else 0) + 1) * 2 ^ r.length
          ≤ (2 * (acc + 1)) * 2 ^ r.length := Nat.mul_le_mul_right _ hx
        _ = (acc + 1) * 2 ^ (r.length + 1) := by
            rw [Nat.pow_succ, Nat.mul_comm 2 (acc + 1), Nat.mul_assoc,
              Nat.mul_comm 2 (2 ^ r.length)]
    omega

theorem toNum_take5_lt (bits : List Bool) : Model.Delta.toNum (bits.take 5) < 32 := by
  have := toNum_lt (bits.take 5) 0
  have h5 : (bits.take 5).length ≤ 5 := by simp; omega
  have : (2 : Nat) ^ (bits.take 5).length ≤ 2 ^ 5 := Nat.pow_le_pow_right (by omega) h5
  unfold Model.Delta.toNum
  omega

theorem syms_not_inRange (n c : Nat) (bits : List Bool) (h : inRange c = false) :
    syms (n + 1) c bits = none := by
  simp [syms, sym_not_inRange c bits h]

/-- One table: the windowed reader computes exactly the reference. -/
theorem table_eq (n : Nat) (hn : 0 < n) (bits : List Bool) :
    toOpt (Model.Delta.table n bits) = Spec.Delta.table n bits := by
  unfold Model.Delta.table Spec.Delta.table Spec.Delta.takeNum
  by_cases h5 : bits.length < 5
  · have : ¬ (5 ≤ bits.length) := by omega
    simp [h5, this, toOpt]
  · have h5' : 5 ≤ bits.length := by omega
    simp only [h5, if_false, h5', if_true]
    have hc := toNum_take5_lt bits
    have := loop_eq (bits.length + 1) n (Model.Delta.toNum (bits.take 5)) []
      (bits.drop 5) (by simp; omega) hc
    rw [this]
    have e : Spec.Delta.toNum (bits.take 5) = Model.Delta.toNum (bits.take 5) := rfl
    rw [e]
    cases hr : inRange (Model.Delta.toNum (bits.take 5))
    · obtain ⟨m, rfl⟩ : ∃ m, n = m + 1 := ⟨n - 1, by omega⟩
      simp [syms_not_inRange m _ _ hr]
    · simp only [if_true, List.reverse_nil, List.nil_append]
      cases syms n (Model.Delta.toNum (bits.take 5)) (bits.drop 5) with
      | none => simp
      | some p => simp

theorem toOpt_eq_some {r : Res} {lens : List Nat} {rest : List Bool} :
    toOpt r = some (lens, rest) ↔ r = .ok lens rest := by
  cases r <;> simp [toOpt]

/-! ### Properties of the reference used by the property theorems -/

/-- A symbol the reference accepts has its length in 1…20. -/
theorem sym_inRange : ∀ (bits : List Bool) (c c' : Nat) (r : List Bool),
    sym c bits = some (c', r) → inRange c' = true := by
  intro bits
  induction bits using List.rec with
  | nil => intro c c' r h; simp [sym] at h
  | cons b t ih =>
    -- two-bit steps: strong induction on the length is simpler
    intro c c' r h
    exact (sym_inRange_aux (b :: t).length (b :: t) (Nat.le_refl _) c c' r h)
where
  sym_inRange_aux : ∀ (n : Nat) (bits : List Bool), bits.length ≤ n →
      ∀ (c c' : Nat) (r : List Bool), sym c bits = some (c', r) → inRange c' = true := by
    intro n
    induction n with
    | zero =>
      intro bits hl c c' r h
      have : bits = [] := List.length_eq_zero_iff.mp (by omega)
      subst this; simp [sym] at h
    | succ n ih =>
      intro bits hl c c' r h
      match bits, hl with
      | [], _ => simp [sym] at h
      | false :: t, _ =>
        simp only [sym] at h
        split at h
        · rename_i hr; simp at h; rw [← h.1]; exact hr
        · simp at h
      | [true], _ => simp [sym] at h
      | true :: false :: t, hl =>
        simp only [sym] at h
        split at h
        · exact ih t (by simp at hl; omega) _ _ _ h
        · simp at h
      | true :: true :: t, hl =>
        simp only [sym] at h
        split at h
        · exact ih t (by simp at hl; omega) _ _ _ h
        · simp at h

theorem syms_inRange : ∀ (n c : Nat) (bits : List Bool) (lens : List Nat) (r : List Bool),
    syms n c bits = some (lens, r) → ∀ l ∈ lens, inRange l = true := by
  intro n
  induction n with
  | zero =>
    intro c bits lens r h
    simp only [syms, Option.some.injEq, Prod.mk.injEq] at h
    obtain ⟨rfl, rfl⟩ := h
    simp
  | succ n ih =>
    intro c bits lens r h
    simp only [syms] at h
    cases hs : sym c bits with
    | none => simp [hs] at h
    | some p =>
      obtain ⟨c1, r1⟩ := p
      simp only [hs] at h
      cases hss : syms n c1 r1 with
      | none => simp [hss] at h
      | some q =>
        obtain ⟨ls, r2⟩ := q
        simp only [hss, Option.some.injEq, Prod.mk.injEq] at h
        intro l hl
        rw [← h.1] at hl
        cases hl with
        | head => exact sym_inRange bits c c1 r1 hs
        | tail _ hm => exact ih c1 r1 ls r2 hss l hm

theorem syms_length : ∀ (n c : Nat) (bits : List Bool) (lens : List Nat) (r : List Bool),
    syms n c bits = some (lens, r) → lens.length = n := by
  intro n
  induction n with
  | zero =>
    intro c bits lens r h
    simp only [syms, Option.some.injEq, Prod.mk.injEq] at h
    obtain ⟨rfl, rfl⟩ := h
    simp
  | succ n ih =>
    intro c bits lens r h
    simp only [syms] at h
    cases hs : sym c bits with
    | none => simp [hs] at h
    | some p =>
      obtain ⟨c1, r1⟩ := p
      simp only [hs] at h
      cases hss : syms n c1 r1 with
      | none => simp [hss] at h
      | some q =>
        obtain ⟨ls, r2⟩ := q
        simp only [hss, Option.some.injEq, Prod.mk.injEq] at h
        rw [← h.1]; simp [ih c1 r1 ls r2 hss]

end LbzVerif.Lemmas.Delta
