/-
  Lemmas.Rle1Len — `Spec.rle1` as a left fold (state after a prefix), the growth
  of `rleLen` per appended byte, monotonicity, and the characterisation of
  `Spec.pack`.
-/
import LbzVerif.Spec.Rle1
import LbzVerif.Lemmas.Rle1Dec

namespace LbzVerif.Spec

/-- Encoder state after a prefix: the encoding `out` of the runs that are
closed, and the open run `(c, r)`; `r = 0` when no run is open (at the start, and
right after a run has been closed because it reached `maxRun`). -/
structure RunSt where
  out : List UInt8
  c : UInt8
  r : Nat

/-- Append one byte. -/
def stepSt (s : RunSt) (x : UInt8) : RunSt :=
  if x = s.c then
    if s.r + 1 = maxRun then ⟨s.out ++ flush s.c maxRun, s.c, 0⟩
    else ⟨s.out, s.c, s.r + 1⟩
  else ⟨s.out ++ flush s.c s.r, x, 1⟩

def encSt (s : RunSt) : List UInt8 := s.out ++ flush s.c s.r
def lenSt (s : RunSt) : Nat := s.out.length + (if s.r ≥ 4 then 5 else s.r)

def stOf (xs : List UInt8) : RunSt := xs.foldl stepSt ⟨[], 0, 0⟩

theorem lenSt_eq (s : RunSt) : lenSt s = (encSt s).length := by
  simp [lenSt, encSt, flush_length]

theorem flush_zero (c : UInt8) : flush c 0 = [] := by simp [flush]

theorem encAux_zero (c : UInt8) (xs : List UInt8) : encAux c 0 xs = rle1 xs := by
  cases xs with
  | nil => simp [encAux, rle1, flush_zero]
  | cons x xs =>
    simp only [encAux, rle1, flush_zero, List.nil_append]
    split
    · rename_i h; rw [h.1]
    · rfl

theorem encAux_max (c : UInt8) (xs : List UInt8) :
    encAux c maxRun xs = flush c maxRun ++ rle1 xs := by
  cases xs with
  | nil => simp [encAux, rle1]
  | cons x xs => simp [encAux, rle1]

theorem stepSt_r_le (s : RunSt) (x : UInt8) (h : s.r + 1 ≤ maxRun) :
    (stepSt s x).r + 1 ≤ maxRun := by
  unfold stepSt
  have : (1 : Nat) + 1 ≤ maxRun := by decide
  split
  · split
    · simp only; omega
    · simp only; omega
  · simpa using this

theorem foldl_stepSt_r_le (xs : List UInt8) (s : RunSt) (h : s.r + 1 ≤ maxRun) :
    (xs.foldl stepSt s).r + 1 ≤ maxRun := by
  induction xs generalizing s with
  | nil => simpa using h
  | cons x xs ih => exact ih _ (stepSt_r_le s x h)

theorem stOf_r_le (xs : List UInt8) : (stOf xs).r + 1 ≤ maxRun :=
  foldl_stepSt_r_le xs _ (by decide)

/-- The fold computes the encoder with an open run. -/
theorem encSt_foldl (xs : List UInt8) (s : RunSt) (h : s.r + 1 ≤ maxRun) :
    encSt (xs.foldl stepSt s) = s.out ++ encAux s.c s.r xs := by
  induction xs generalizing s with
  | nil => simp [encSt, encAux]
  | cons x xs ih =>
    rw [List.foldl_cons, ih _ (stepSt_r_le s x h)]
    unfold stepSt
    by_cases hx : x = s.c
    · have hlt : s.r < maxRun := by omega
      simp only [hx, if_true]
      split
      · rename_i h1
        simp only [encAux_zero]
        rw [encAux]
        simp only [hlt, and_self, if_true, h1, encAux_max, List.append_assoc]
      · rw [encAux.eq_2]
        simp [hlt]
    · simp only [hx, if_false]
      rw [encAux.eq_2]
      simp [hx, List.append_assoc]

theorem rle1_eq_encSt (xs : List UInt8) : rle1 xs = encSt (stOf xs) := by
  rw [stOf, encSt_foldl xs _ (by decide)]
  simp [encAux_zero]

theorem rleLen_eq_lenSt (xs : List UInt8) : rleLen xs = lenSt (stOf xs) := by
  rw [lenSt_eq, ← rle1_eq_encSt]; rfl

theorem stOf_snoc (xs : List UInt8) (x : UInt8) : stOf (xs ++ [x]) = stepSt (stOf xs) x := by
  simp [stOf, List.foldl_append]

/-- Growth of the encoded size when one byte is appended. -/
def delta (s : RunSt) (x : UInt8) : Nat :=
  if x = s.c then (if s.r ≥ 4 then 0 else if s.r = 3 then 2 else 1) else 1

theorem lenSt_stepSt (s : RunSt) (x : UInt8) (h : s.r + 1 ≤ maxRun) :
    lenSt (stepSt s x) = lenSt s + delta s x := by
  have hm : maxRun = 259 := rfl
  unfold stepSt delta lenSt
  by_cases hx : x = s.c
  · simp only [hx, if_true]
    split
    · rename_i h1
      have : s.r ≥ 4 := by omega
      simp [this, flush_length, hm]
    · rename_i h1
      simp only
      split <;> split <;> (try split) <;> omega
  · simp only [hx, if_false, List.length_append, flush_length]
    simp

theorem rleLen_nil : rleLen [] = 0 := rfl

theorem rleLen_snoc_eq (xs : List UInt8) (x : UInt8) :
    rleLen (xs ++ [x]) = rleLen xs + delta (stOf xs) x := by
  rw [rleLen_eq_lenSt, rleLen_eq_lenSt, stOf_snoc, lenSt_stepSt _ _ (stOf_r_le xs)]

theorem delta_le (s : RunSt) (x : UInt8) : delta s x ≤ 2 := by
  unfold delta; split <;> (try split) <;> (try split) <;> omega

theorem rleLen_snoc_bounds (xs : List UInt8) (x : UInt8) :
    rleLen xs ≤ rleLen (xs ++ [x]) ∧ rleLen (xs ++ [x]) ≤ rleLen xs + 2 := by
  rw [rleLen_snoc_eq]
  have := delta_le (stOf xs) x
  omega

theorem rleLen_append_ge (xs ys : List UInt8) : rleLen xs ≤ rleLen (xs ++ ys) := by
  induction ys generalizing xs with
  | nil => simp
  | cons y ys ih =>
    have h1 := (rleLen_snoc_bounds xs y).1
    have h2 := ih (xs ++ [y])
    simp only [List.append_assoc, List.singleton_append] at h2
    omega

theorem rleLen_take_mono' (xs : List UInt8) (i j : Nat) (h : i ≤ j) :
    rleLen (xs.take i) ≤ rleLen (xs.take j) := by
  have : xs.take j = xs.take i ++ (xs.take j).drop i := by
    have h1 : (xs.take j).take i = xs.take i := by
      rw [List.take_take]; congr 1; omega
    rw [← h1, List.take_append_drop]
  rw [this]
  exact rleLen_append_ge _ _

/-! ### `pack` -/

/-- the fold of `pack` over `range (n+1)` -/
def packUpTo (cap : Nat) (xs : List UInt8) (n : Nat) : Nat :=
  (List.range (n + 1)).foldl (fun best k => if rleLen (xs.take k) ≤ cap then k else best) 0

theorem packUpTo_zero (cap : Nat) (xs : List UInt8) : packUpTo cap xs 0 = 0 := by
  simp only [packUpTo, List.range_succ, List.range_zero, List.nil_append, List.foldl_cons,
    List.foldl_nil, List.take_zero]
  exact ite_self 0

theorem packUpTo_succ (cap : Nat) (xs : List UInt8) (n : Nat) :
    packUpTo cap xs (n + 1)
      = if rleLen (xs.take (n + 1)) ≤ cap then n + 1 else packUpTo cap xs n := by
  simp only [packUpTo]
  rw [List.range_succ, List.foldl_append]
  simp

theorem packUpTo_spec (cap : Nat) (xs : List UInt8) (n : Nat) :
    packUpTo cap xs n ≤ n ∧ rleLen (xs.take (packUpTo cap xs n)) ≤ cap ∧
    ∀ j, j ≤ n → rleLen (xs.take j) ≤ cap → j ≤ packUpTo cap xs n := by
  induction n with
  | zero =>
    rw [packUpTo_zero]
    refine ⟨Nat.le_refl _, ?_, ?_⟩
    · simp [rleLen_nil]
    · intro j hj _; exact hj
  | succ n ih =>
    rw [packUpTo_succ]
    obtain ⟨h1, h2, h3⟩ := ih
    split
    · rename_i h
      refine ⟨Nat.le_refl _, h, fun j hj _ => hj⟩
    · rename_i h
      refine ⟨by omega, h2, ?_⟩
      intro j hj hc
      by_cases hjn : j = n + 1
      · subst hjn; exact absurd hc h
      · exact h3 j (by omega) hc

theorem pack_eq (cap : Nat) (xs : List UInt8) : pack cap xs = packUpTo cap xs xs.length := rfl

theorem pack_le_length (cap : Nat) (xs : List UInt8) : pack cap xs ≤ xs.length :=
  (packUpTo_spec cap xs xs.length).1

theorem pack_fits (cap : Nat) (xs : List UInt8) : rleLen (xs.take (pack cap xs)) ≤ cap :=
  (packUpTo_spec cap xs xs.length).2.1

theorem pack_largest' (cap : Nat) (xs : List UInt8) (j : Nat) (hj : j ≤ xs.length)
    (h : rleLen (xs.take j) ≤ cap) : j ≤ pack cap xs :=
  (packUpTo_spec cap xs xs.length).2.2 j hj h

theorem pack_next_overflows (cap : Nat) (xs : List UInt8) (h : pack cap xs < xs.length) :
    cap < rleLen (xs.take (pack cap xs + 1)) := by
  apply Nat.lt_of_not_le
  intro hc
  have := pack_largest' cap xs (pack cap xs + 1) h hc
  omega

/-- `pack` is determined by "fits, and one more byte does not". -/
theorem pack_unique (cap : Nat) (xs : List UInt8) (k : Nat) (hk : k ≤ xs.length)
    (hfit : rleLen (xs.take k) ≤ cap)
    (hnext : k < xs.length → cap < rleLen (xs.take (k + 1))) : pack cap xs = k := by
  apply Nat.le_antisymm
  · apply Nat.le_of_not_lt
    intro hlt
    have h1 := pack_le_length cap xs
    have h2 := pack_fits cap xs
    have h3 := hnext (by omega)
    have h4 := rleLen_take_mono' xs (k + 1) (pack cap xs) hlt
    omega
  · exact pack_largest' cap xs k hk hfit

/-! ### progress and `blocks` -/

theorem rleLen_singleton (x : UInt8) : rleLen [x] = 1 := by
  simp [rleLen, rle1, encAux, flush]

theorem pack_pos' (cap : Nat) (hcap : 1 ≤ cap) (xs : List UInt8) (hne : xs ≠ []) :
    1 ≤ pack cap xs := by
  cases xs with
  | nil => exact absurd rfl hne
  | cons x xs =>
    apply pack_largest' cap (x :: xs) 1 (by simp)
    simp only [List.take_succ_cons, List.take_zero, rleLen_singleton]
    exact hcap

theorem blocks_fuel (cap : Nat) (hcap : 1 ≤ cap) (f1 : Nat) :
    ∀ (f2 : Nat) (xs : List UInt8), xs.length ≤ f1 → xs.length ≤ f2 →
      blocks cap f1 xs = blocks cap f2 xs := by
  induction f1 with
  | zero =>
    intro f2 xs h1 _
    have : xs = [] := List.eq_nil_of_length_eq_zero (by omega)
    subst this
    cases f2 <;> simp [blocks]
  | succ f1 ih =>
    intro f2 xs h1 h2
    cases f2 with
    | zero =>
      have : xs = [] := List.eq_nil_of_length_eq_zero (by omega)
      subst this
      simp [blocks]
    | succ f2 =>
      simp only [blocks]
      split
      · rfl
      · rename_i hne
        have hne' : xs ≠ [] := by simpa using hne
        have hp := pack_pos' cap hcap xs hne'
        have hk : ¬ pack cap xs = 0 := by omega
        simp only [hk, if_false]
        congr 1
        apply ih <;> simp only [List.length_drop] <;> omega

/-- unfolding equation of `blocksOf` -/
theorem blocksOf_eq (cap : Nat) (hcap : 1 ≤ cap) (xs : List UInt8) :
    blocksOf cap xs =
      if xs = [] then []
      else xs.take (pack cap xs) :: blocksOf cap (xs.drop (pack cap xs)) := by
  unfold blocksOf
  cases hxs : xs with
  | nil => simp [blocks]
  | cons x t =>
    rw [← hxs]
    have hne : xs ≠ [] := by rw [hxs]; simp
    have hl : xs.length = t.length + 1 := by rw [hxs]; simp
    rw [hl]
    simp only [blocks, hne, if_false]
    have hp := pack_pos' cap hcap xs hne
    have hk : ¬ pack cap xs = 0 := by omega
    have he : ¬ xs.isEmpty = true := by simpa using hne
    simp only [he, hk, if_false, Bool.false_eq_true]
    congr 1
    apply blocks_fuel cap hcap <;> simp only [List.length_drop] <;> omega

theorem blocksOf_flatten' (cap : Nat) (hcap : 1 ≤ cap) (n : Nat) :
    ∀ xs : List UInt8, xs.length ≤ n → (blocksOf cap xs).flatten = xs := by
  induction n with
  | zero =>
    intro xs h
    have : xs = [] := List.eq_nil_of_length_eq_zero (by omega)
    subst this; simp [blocksOf, blocks]
  | succ n ih =>
    intro xs h
    rw [blocksOf_eq cap hcap]
    split
    · rename_i he; simp [he]
    · rename_i hne
      have hp := pack_pos' cap hcap xs hne
      rw [List.flatten_cons, ih _ (by simp only [List.length_drop]; omega),
        List.take_append_drop]

end LbzVerif.Spec
